#!/usr/bin/env python3
"""Closed-world audit for the kernel theorems: the Rust control logic (mod.rs, macro.rs) may touch the
lexer state only through the primitives that the Lean `Op`s model.  Every direct access to a state
field (`self.buffer`, `self.mode_stack`, `self.errors`, `self.checkpoint`, `self.pending_stat_stack`,
`self.macro_nesting_level`, `self.cur_token_*`, `self.source`, `lexer.<field>` in closures, `unsafe`) outside
the bodies of the primitive functions must be one of the reviewed (function, expression) pairs recorded
in audit_whitelist.json (each of which is modelled by a named Op).  Cursor method calls are all Ops
(`peek/peek_next/chars/as_str/clone` = `rest`, `advance`, `advance_by`, `eat_while`, `eat_char`).

usage: audit.py [--update]   exit 0 = ok; exit 1 = new direct access found (printed)
"""
import json, os, re, sys
REPO = os.environ.get("VERIF_REPO", "/repo")
HERE = os.path.dirname(os.path.abspath(__file__))
FILES = ["crates/sas-lexer/src/lexer/mod.rs", "crates/sas-lexer/src/lexer/macro.rs"]
PRIMITIVES = {"new", "dump_lexer_state_to_console", "checkpoint", "clear_checkpoint", "rollback", "cur_byte_offset", "cur_char_offset",
              "pending_token_text", "add_string_literal_from_src", "push_mode", "pop_mode", "mode", "push_pending_stat", "pop_pending_stat",
              "pending_stat", "set_pending_stat", "add_line", "start_token", "mark_token_start", "emit_token", "emit_token_at_mark",
              "emit_empty_macro_string_token", "update_last_token", "prep_error_info_at_cur_offset", "emit_error", "emit_error_info"}
FIELD = re.compile(r"\b(?:self|lexer)\s*\.\s*(buffer|mode_stack|errors|checkpoint|pending_stat_stack|macro_nesting_level|cur_token_byte_offset|cur_token_start|cur_token_line|source|source_len|last_state|cursor)\b\s*((?:\.\s*\w+)?)")
CURSOR_OK = {"peek", "peek_next", "chars", "as_str", "clone", "advance", "advance_by", "eat_while", "eat_char", "remaining_len", "char_offset", "prev_char"}


def strip(src):
    out, i, n = [], 0, len(src)
    while i < n:
        if src.startswith("//", i):
            j = src.find("\n", i); j = n if j < 0 else j
            i = j
        elif src.startswith("/*", i):
            j = src.find("*/", i); i = n if j < 0 else j + 2
        elif src[i] == '"':
            j = i + 1
            while j < n and src[j] != '"':
                j += 2 if src[j] == "\\" else 1
            out.append('""'); i = j + 1
        elif src[i] == "'" and i + 2 < n and (src[i + 2] == "'" or (src[i + 1] == "\\" and src.find("'", i + 2) in range(i + 2, i + 12))):
            j = src.find("'", i + 2 if src[i + 1] != "\\" else i + 3)
            out.append("' '"); i = j + 1
        else:
            out.append(src[i]); i += 1
    return "".join(out)


def functions(src):
    """yield (name, body) for top-level-ish fns (by brace matching)"""
    for m in re.finditer(r"\bfn\s+(\w+)\s*(?:<[^>]*>)?\s*\(", src):
        i = src.find("{", m.end())
        semi = src.find(";", m.end())
        if i < 0 or (0 <= semi < i):
            continue
        depth, j = 1, i + 1
        while depth and j < len(src):
            depth += src[j] == "{"; depth -= src[j] == "}"; j += 1
        yield m.group(1), src[i:j]


def collect():
    found = set()
    for f in FILES:
        src = strip(open(os.path.join(REPO, f), encoding="utf-8").read())
        # drop cfg(sas_lexer_verif)-guarded items: the hook lines are `#[cfg(sas_lexer_verif)]` + one statement/block
        src = re.sub(r"#\[cfg\(sas_lexer_verif\)\]\s*(?:\{[^{}]*\}|[^;{]*;|[^;{]*\{[^{}]*\})", "", src)
        for name, body in functions(src):
            if name in PRIMITIVES or name in ("lex", "lex_program", "finalize_lexing") and False:
                continue
            for m in FIELD.finditer(body):
                fld, meth = m.group(1), m.group(2).replace(" ", "").lstrip(".")
                if fld == "cursor":
                    if meth in CURSOR_OK:
                        continue
                found.add(f"{os.path.basename(f)}::{name}::{fld}.{meth}" if meth else f"{os.path.basename(f)}::{name}::{fld}")
            if re.search(r"\bunsafe\b", body):
                found.add(f"{os.path.basename(f)}::{name}::unsafe")
    return found


def main():
    wl_path = os.path.join(HERE, "audit_whitelist.json")
    cur = collect()
    if "--update" in sys.argv:
        json.dump(sorted(cur), open(wl_path, "w"), indent=0)
        print(f"whitelist updated: {len(cur)} entries")
        return 0
    wl = set(json.load(open(wl_path)))
    new = sorted(cur - wl)
    if new:
        print("audit: direct state access outside the modelled primitives:")
        for x in new:
            print("  ", x)
        return 1
    print(f"audit ok: {len(cur)} reviewed direct accesses, none new")
    return 0


if __name__ == "__main__":
    sys.exit(main())
