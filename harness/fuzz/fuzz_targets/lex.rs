#![no_main]
// Coverage-guided input discovery (thorough tier only): the fuzzer only *finds inputs* that reach
// new code; every input of the resulting corpus is then judged by the Lean-compiled predicates.
use libfuzzer_sys::fuzz_target;

fuzz_target!(|data: &[u8]| {
    if data.len() > 160 {
        return;
    }
    if let Ok(s) = std::str::from_utf8(data) {
        // iteration budget turns a hang into a normal return
        let _ = sas_lexer::verif::lex_program_verif(s, 8 * (s.len() as u64) + 64, 0);
    }
});
