//! Implementation-side test harness for the `sas-lexer` verification project.
//!
//! Must be built with `RUSTFLAGS="--cfg sas_lexer_verif"` against a `sas-lexer`
//! tree that has `hooks.patch` applied. See SPEC.md / NOTES.md.
//!
//! Protocol output goes to `--out <path>` if given, otherwise to (a duplicate of)
//! the original stdout. File descriptor 1 itself is always redirected to
//! `/dev/null`, because debug builds of the lexer `println!` diagnostics
//! ("Infinite loop detected!" ...) that would corrupt the line protocol.

use std::fs::File;
use std::io::{self, BufRead, BufWriter, Write};
use std::panic::{catch_unwind, AssertUnwindSafe};

use sas_lexer::error::{ErrorInfo, ErrorKind};
use sas_lexer::verif::{self, ScriptOutcome, VerifOut};
use sas_lexer::{Payload, TokenChannel, TokenIdx, TokenType, TokenizedBuffer};

// ---------------------------------------------------------------------------
// fd plumbing (std links libc on Linux, so the symbols are always there)
// ---------------------------------------------------------------------------

#[cfg(unix)]
mod fdio {
    use std::ffi::c_int;
    use std::fs::{File, OpenOptions};
    use std::os::fd::{AsRawFd, FromRawFd};

    extern "C" {
        fn dup(fd: c_int) -> c_int;
        fn dup2(old: c_int, new: c_int) -> c_int;
    }

    /// Returns a `File` for the original stdout and points fd 1 to /dev/null.
    pub fn steal_stdout() -> Option<File> {
        // SAFETY: plain POSIX calls on descriptors we own
        let saved = unsafe { dup(1) };
        if saved < 0 {
            return None;
        }
        silence_stdout();
        // SAFETY: `saved` is a fresh descriptor owned by nobody else
        Some(unsafe { File::from_raw_fd(saved) })
    }

    /// Points fd 1 to /dev/null
    pub fn silence_stdout() {
        if let Ok(null) = OpenOptions::new().write(true).open("/dev/null") {
            // SAFETY: both descriptors are valid
            unsafe {
                dup2(null.as_raw_fd(), 1);
            }
        }
    }
}

fn open_out(path: Option<&str>) -> Box<dyn Write> {
    match path {
        Some(p) if p != "/dev/stdout" && p != "-" => {
            let f = File::create(p).unwrap_or_else(|e| die(&format!("cannot open {p}: {e}")));
            #[cfg(unix)]
            fdio::silence_stdout();
            Box::new(BufWriter::with_capacity(1 << 16, f))
        }
        _ => {
            #[cfg(unix)]
            {
                match fdio::steal_stdout() {
                    Some(f) => Box::new(BufWriter::with_capacity(1 << 16, f)),
                    None => Box::new(BufWriter::with_capacity(1 << 16, io::stdout())),
                }
            }
            #[cfg(not(unix))]
            {
                Box::new(BufWriter::with_capacity(1 << 16, io::stdout()))
            }
        }
    }
}

fn die(msg: &str) -> ! {
    eprintln!("harness: {msg}");
    std::process::exit(2);
}

// ---------------------------------------------------------------------------
// Small formatting helpers (no allocation per number)
// ---------------------------------------------------------------------------

#[inline]
fn push_u64(s: &mut String, mut v: u64) {
    let mut buf = [0u8; 20];
    let mut i = buf.len();
    loop {
        i -= 1;
        buf[i] = b'0' + (v % 10) as u8;
        v /= 10;
        if v == 0 {
            break;
        }
    }
    // SAFETY-free: digits are ASCII
    s.push_str(std::str::from_utf8(&buf[i..]).unwrap_or("0"));
}

/// Pushes ` <v>`
#[inline]
fn sp_u64(s: &mut String, v: u64) {
    s.push(' ');
    push_u64(s, v);
}

/// Pushes ` <v>` or ` -1`
#[inline]
fn sp_opt(s: &mut String, v: Option<u64>) {
    match v {
        Some(v) => sp_u64(s, v),
        None => s.push_str(" -1"),
    }
}

const HEX: &[u8; 16] = b"0123456789abcdef";

fn push_hex(s: &mut String, bytes: &[u8]) {
    if bytes.is_empty() {
        s.push('-');
        return;
    }
    s.reserve(bytes.len() * 2);
    for b in bytes {
        s.push(HEX[(b >> 4) as usize] as char);
        s.push(HEX[(b & 15) as usize] as char);
    }
}

fn unhex(s: &str) -> Option<Vec<u8>> {
    let b = s.as_bytes();
    if b.len() % 2 != 0 {
        return None;
    }
    fn nib(c: u8) -> Option<u8> {
        match c {
            b'0'..=b'9' => Some(c - b'0'),
            b'a'..=b'f' => Some(c - b'a' + 10),
            b'A'..=b'F' => Some(c - b'A' + 10),
            _ => None,
        }
    }
    let mut out = Vec::with_capacity(b.len() / 2);
    for p in b.chunks_exact(2) {
        out.push(nib(p[0])? << 4 | nib(p[1])?);
    }
    Some(out)
}

/// Hex field -> source string. Empty field or `-` is the empty source.
fn decode_src(field: &str) -> Option<String> {
    if field.is_empty() || field == "-" {
        return Some(String::new());
    }
    String::from_utf8(unhex(field)?).ok()
}

fn fnv1a64(bytes: &[u8]) -> u64 {
    let mut h: u64 = 0xcbf2_9ce4_8422_2325;
    for b in bytes {
        h ^= u64::from(*b);
        h = h.wrapping_mul(0x0000_0100_0000_01b3);
    }
    h
}

fn panic_message(payload: &(dyn std::any::Any + Send)) -> String {
    if let Some(s) = payload.downcast_ref::<&str>() {
        (*s).to_string()
    } else if let Some(s) = payload.downcast_ref::<String>() {
        s.clone()
    } else {
        "unknown panic payload".to_string()
    }
}

/// `panic <16 hex FNV-1a 64 of message> <sanitised message, max 120 chars>`
fn push_panic_outcome(s: &mut String, msg: &str) {
    use std::fmt::Write as _;
    let _ = write!(s, "panic {:016x} ", fnv1a64(msg.as_bytes()));
    let mut n = 0;
    for c in msg.chars().take(120) {
        let ok = c.is_ascii_alphanumeric()
            || matches!(c, '_' | '.' | ':' | '!' | '=' | '<' | '>' | '(' | ')' | '-');
        s.push(if ok { c } else { '_' });
        n += 1;
    }
    if n == 0 {
        s.push('_');
    }
}

fn push_payload(s: &mut String, p: Payload) {
    match p {
        Payload::None => s.push_str(" 0 0 0"),
        Payload::Integer(v) => {
            s.push_str(" 1");
            sp_u64(s, v);
            s.push_str(" 0");
        }
        Payload::Float(f) => {
            s.push_str(" 2");
            sp_u64(s, f.to_bits());
            s.push_str(" 0");
        }
        Payload::StringLiteral(a, b) => {
            s.push_str(" 3");
            sp_u64(s, u64::from(a));
            sp_u64(s, u64::from(b));
        }
    }
}

fn push_bits(s: &mut String, bits: &[bool]) {
    if bits.is_empty() {
        s.push('-');
    }
    for b in bits {
        s.push(if *b { '1' } else { '0' });
    }
}

// ---------------------------------------------------------------------------
// Sections
// ---------------------------------------------------------------------------

/// `T .. | L .. | S .. | E ..`
fn push_tlse(s: &mut String, buffer: &TokenizedBuffer, errors: &[ErrorInfo]) {
    s.push_str("T ");
    push_u64(s, u64::from(buffer.token_count()));
    for (_, t) in buffer.iter_tokens_infos() {
        sp_u64(s, t.channel() as u64);
        sp_u64(s, t.token_type() as u64);
        sp_u64(s, u64::from(t.byte_offset().get()));
        sp_u64(s, u64::from(t.start().get()));
        sp_u64(s, u64::from(t.line()));
        push_payload(s, t.payload());
    }

    let lines = buffer.verif_line_infos();
    s.push_str(" | L ");
    push_u64(s, lines.len() as u64);
    for (b, c) in lines {
        sp_u64(s, u64::from(b));
        sp_u64(s, u64::from(c));
    }

    s.push_str(" | S ");
    push_hex(s, buffer.string_literals_buffer().as_bytes());

    s.push_str(" | E ");
    push_u64(s, errors.len() as u64);
    for e in errors {
        sp_u64(s, e.error_kind() as u64);
        sp_u64(s, u64::from(e.at_byte_offset()));
        sp_u64(s, u64::from(e.at_char_offset()));
        sp_u64(s, u64::from(e.on_line()));
        sp_u64(s, u64::from(e.at_column()));
        sp_opt(s, e.last_token().map(|t| u64::from(t.get())));
    }
}

/// `R ..` (or `R -1` if `into_resolved_token_vec` panics)
fn push_r(s: &mut String, buffer: &TokenizedBuffer) {
    let mark = s.len();
    let res = catch_unwind(AssertUnwindSafe(|| {
        let v = buffer.into_resolved_token_vec();
        s.push_str("R ");
        push_u64(s, v.len() as u64);
        for r in &v {
            sp_u64(s, r.channel as u64);
            sp_u64(s, r.token_type as u64);
            sp_u64(s, u64::from(r.token_index));
            sp_u64(s, u64::from(r.start));
            sp_u64(s, u64::from(r.stop));
            sp_u64(s, u64::from(r.line));
            sp_u64(s, u64::from(r.column));
            sp_u64(s, u64::from(r.end_line));
            sp_u64(s, u64::from(r.end_column));
            push_payload(s, r.payload);
        }
    }));
    if res.is_err() {
        s.truncate(mark);
        s.push_str("R -1");
    }
}

/// `A ..` (or `A -1` if any accessor panics)
fn push_a(s: &mut String, buffer: &TokenizedBuffer, src: &str) {
    let mark = s.len();
    let res = catch_unwind(AssertUnwindSafe(|| {
        s.push_str("A ");
        push_u64(s, u64::from(buffer.token_count()));
        for tok in buffer.iter_tokens() {
            push_a_token(s, buffer, src, tok);
        }
    }));
    if res.is_err() {
        s.truncate(mark);
        s.push_str("A -1");
    }
}

fn push_a_token(s: &mut String, buffer: &TokenizedBuffer, src: &str, tok: TokenIdx) {
    sp_opt(s, buffer.get_token_channel(tok).ok().map(|c| c as u64));
    sp_opt(s, buffer.get_token_type(tok).ok().map(|t| t as u64));
    sp_u64(s, u64::from(tok.get()));
    sp_opt(s, buffer.get_token_start(tok).ok().map(|v| u64::from(v.get())));
    sp_opt(s, buffer.get_token_end(tok).ok().map(|v| u64::from(v.get())));
    sp_opt(s, buffer.get_token_start_line(tok).ok().map(u64::from));
    sp_opt(s, buffer.get_token_start_column(tok).ok().map(u64::from));
    sp_opt(s, buffer.get_token_end_line(tok).ok().map(u64::from));
    sp_opt(s, buffer.get_token_end_column(tok).ok().map(u64::from));
    match buffer.get_token_payload(tok) {
        Ok(p) => push_payload(s, p),
        Err(_) => s.push_str(" -1 0 0"),
    }

    let sb = buffer.get_token_start_byte_offset(tok).ok();
    let eb = buffer.get_token_end_byte_offset(tok).ok();
    let rawok = match (buffer.get_token_raw_text(tok, &src), sb, eb) {
        (Ok(Some(t)), Some(sb), Some(eb)) => {
            src.get(usize::from(sb)..usize::from(eb)) == Some(t)
        }
        (Ok(None), Some(sb), Some(eb)) => sb == eb,
        _ => false,
    };
    s.push_str(if rawok { " 1" } else { " 0" });

    let resok = buffer.get_token_resolved_text(tok, &src).is_ok();
    s.push_str(if resok { " 1" } else { " 0" });
}

fn push_x(s: &mut String, out: &VerifOut) {
    s.push_str("X ");
    let Some(snap) = &out.snapshot else {
        s.push('-');
        return;
    };
    s.push(if snap.checkpoint { '1' } else { '0' });
    sp_u64(s, u64::from(snap.nesting));
    s.push(' ');
    push_bits(s, &snap.pending);
    sp_opt(s, snap.last_default.map(u64::from));
    sp_opt(s, snap.last.map(u64::from));
    sp_u64(s, snap.modes.len() as u64);
    for m in &snap.modes {
        s.push(' ');
        s.push_str(m);
    }
}

const EMPTY_DUMP_TAIL: &str = " | T 0 | L 0 | S - | E 0 | R 0 | A 0 | X - | I 0";

// ---------------------------------------------------------------------------
// dump
// ---------------------------------------------------------------------------

#[derive(Clone, Copy)]
struct DumpCfg {
    budget_mul: u64,
    trace: usize,
}

/// Appends the §2 dump line for `src` (no trailing newline) to `s`, and the
/// `#t` trace lines (each with a leading newline) if tracing is on.
fn dump_line(s: &mut String, src: &str, cfg: DumpCfg) {
    let budget = cfg
        .budget_mul
        .saturating_mul(src.len() as u64)
        .saturating_add(64);

    let res = catch_unwind(AssertUnwindSafe(|| {
        verif::lex_program_verif(src, budget, cfg.trace)
    }));

    let (lex, out) = match res {
        Err(payload) => {
            push_panic_outcome(s, &panic_message(payload.as_ref()));
            s.push_str(EMPTY_DUMP_TAIL);
            return;
        }
        Ok(Err(_)) => {
            s.push_str("toolarge");
            s.push_str(EMPTY_DUMP_TAIL);
            return;
        }
        Ok(Ok(v)) => v,
    };

    s.push_str(if out.budget_exceeded { "budget" } else { "ok" });
    s.push_str(" | ");
    push_tlse(s, &lex.buffer, &lex.errors);
    s.push_str(" | ");
    push_r(s, &lex.buffer);
    s.push_str(" | ");
    push_a(s, &lex.buffer, src);
    s.push_str(" | ");
    push_x(s, &out);
    s.push_str(" | I ");
    push_u64(s, out.iters);

    for d in &out.trace {
        s.push_str("\n#t ");
        push_u64(s, u64::from(d.rem));
        sp_u64(s, d.depth as u64);
        s.push(' ');
        s.push_str(&d.top);
        sp_u64(s, u64::from(d.toks));
        sp_u64(s, d.errs as u64);
        s.push_str(if d.cp { " 1" } else { " 0" });
    }
}

fn for_each_line(mut f: impl FnMut(&str)) {
    let stdin = io::stdin();
    let mut stdin = stdin.lock();
    let mut line = String::new();
    loop {
        line.clear();
        match stdin.read_line(&mut line) {
            Ok(0) => break,
            Ok(_) => {
                let l = line.strip_suffix('\n').unwrap_or(&line);
                let l = l.strip_suffix('\r').unwrap_or(l);
                f(l);
            }
            Err(e) => die(&format!("stdin: {e}")),
        }
    }
}

fn cmd_dump(out: &mut dyn Write, cfg: DumpCfg) {
    let mut s = String::with_capacity(1 << 12);
    for_each_line(|l| {
        s.clear();
        match decode_src(l.trim()) {
            Some(src) => dump_line(&mut s, &src, cfg),
            None => s.push_str("badinput"),
        }
        s.push('\n');
        let _ = out.write_all(s.as_bytes());
    });
}

// ---------------------------------------------------------------------------
// lexer-script
// ---------------------------------------------------------------------------

fn cmd_lexer_script(out: &mut dyn Write) {
    let mut s = String::with_capacity(1 << 12);
    for_each_line(|l| {
        s.clear();
        lexer_script_line(&mut s, l);
        s.push('\n');
        let _ = out.write_all(s.as_bytes());
    });
}

const EMPTY_SCRIPT_TAIL: &str = "T 0 | L 0 | S - | E 0 | M 0 | C 0 | P - | K 0 0 0";

fn lexer_script_line(s: &mut String, line: &str) {
    let mut fields = line.split(' ');
    let Some(src) = decode_src(fields.next().unwrap_or("")) else {
        s.push_str("badinput");
        return;
    };
    let ops: Vec<String> = fields
        .filter(|f| !f.is_empty())
        .map(str::to_string)
        .collect();

    // `lexer_script` catches panics of the ops itself; this outer guard is
    // only a safety net so that one line can never kill the process.
    let res = match catch_unwind(AssertUnwindSafe(|| verif::lexer_script(&src, &ops))) {
        Ok(r) => r,
        Err(payload) => {
            push_panic_outcome(s, &panic_message(payload.as_ref()));
            s.push_str(" ; ; ");
            s.push_str(EMPTY_SCRIPT_TAIL);
            return;
        }
    };

    match &res.outcome {
        ScriptOutcome::Ok => s.push_str("ok"),
        ScriptOutcome::TooLarge => s.push_str("toolarge"),
        ScriptOutcome::BadInput => {
            s.push_str("badinput");
            return;
        }
        ScriptOutcome::Panic(msg) => push_panic_outcome(s, msg),
    }

    s.push_str(" ;");
    for o in &res.obs {
        s.push(' ');
        s.push_str(o);
    }
    s.push_str(" ; ");

    let Some(st) = &res.state else {
        s.push_str(EMPTY_SCRIPT_TAIL);
        return;
    };

    push_tlse(s, &st.buffer, &st.errors);
    s.push_str(" | M ");
    push_u64(s, st.modes.len() as u64);
    for m in &st.modes {
        s.push(' ');
        s.push_str(m);
    }
    s.push_str(" | C ");
    s.push(if st.checkpoint { '1' } else { '0' });
    s.push_str(" | P ");
    push_bits(s, &st.pending);
    s.push_str(" | K");
    sp_u64(s, u64::from(st.cur_token_byte));
    sp_u64(s, u64::from(st.cur_token_start));
    sp_u64(s, u64::from(st.cur_token_line));
}

// ---------------------------------------------------------------------------
// buffer-script
// ---------------------------------------------------------------------------

fn cmd_buffer_script(out: &mut dyn Write) {
    let mut s = String::with_capacity(1 << 12);
    for_each_line(|l| {
        s.clear();
        if buffer_script_line(&mut s, l).is_none() {
            s.clear();
            s.push_str("badinput");
        }
        s.push('\n');
        let _ = out.write_all(s.as_bytes());
    });
}

fn parse_payload(tag: &str, a: &str, b: &str) -> Option<Payload> {
    let pa: u64 = a.parse().ok()?;
    let pb: u64 = b.parse().ok()?;
    match tag {
        "0" => Some(Payload::None),
        "1" => Some(Payload::Integer(pa)),
        "2" => Some(Payload::Float(f64::from_bits(pa))),
        "3" => Some(Payload::StringLiteral(
            u32::try_from(pa).ok()?,
            u32::try_from(pb).ok()?,
        )),
        _ => None,
    }
}

fn buffer_script_line(s: &mut String, line: &str) -> Option<()> {
    let mut f = line.split(' ');
    let src = decode_src(f.next()?)?;
    let mut f = f.filter(|x| !x.is_empty());

    if f.next()? != "L" {
        return None;
    }
    let n: usize = f.next()?.parse().ok()?;
    let mut lines = Vec::with_capacity(n.min(1 << 16));
    for _ in 0..n {
        let b: u32 = f.next()?.parse().ok()?;
        let c: u32 = f.next()?.parse().ok()?;
        lines.push((b, c));
    }

    if f.next()? != "T" {
        return None;
    }
    let m: usize = f.next()?.parse().ok()?;
    let mut toks = Vec::with_capacity(m.min(1 << 16));
    for _ in 0..m {
        let chan = TokenChannel::verif_from_u8(f.next()?.parse().ok()?)?;
        let typ = TokenType::verif_from_u16(f.next()?.parse().ok()?)?;
        let b: u32 = f.next()?.parse().ok()?;
        let c: u32 = f.next()?.parse().ok()?;
        let l: u32 = f.next()?.parse().ok()?;
        let ptag = f.next()?;
        let pa = f.next()?;
        let pb = f.next()?;
        toks.push((chan, typ, b, c, l, parse_payload(ptag, pa, pb)?));
    }

    if f.next()? != "S" {
        return None;
    }
    let lits = decode_src(f.next()?)?;
    if f.next().is_some() {
        return None;
    }

    let buffer = TokenizedBuffer::verif_from_parts(lines, toks, lits);

    s.push_str("ok | ");
    push_r(s, &buffer);
    s.push_str(" | ");
    push_a(s, &buffer, &src);
    Some(())
}

// ---------------------------------------------------------------------------
// threads
// ---------------------------------------------------------------------------

fn xorshift(state: &mut u64) -> u64 {
    let mut x = *state;
    x ^= x << 13;
    x ^= x >> 7;
    x ^= x << 17;
    *state = x;
    x
}

fn cmd_threads(out: &mut dyn Write, n_threads: usize, rounds: usize, cfg: DumpCfg) {
    let mut hexes: Vec<String> = Vec::new();
    let mut srcs: Vec<String> = Vec::new();
    for_each_line(|l| {
        let l = l.trim();
        if let Some(src) = decode_src(l) {
            hexes.push(l.to_string());
            srcs.push(src);
        }
    });

    // Reference: every input lexed on a thread of its own (no earlier call on that thread)
    let reference: Vec<String> = srcs
        .iter()
        .map(|src| {
            std::thread::scope(|scope| {
                scope
                    .spawn(move || {
                        let mut s = String::new();
                        dump_line(&mut s, src, cfg);
                        s
                    })
                    .join()
                    .unwrap_or_default()
            })
        })
        .collect();

    let mut comparisons: u64 = 0;
    // (input, the input lexed right before it on the same thread)
    let mut bad: Vec<(usize, Option<usize>)> = Vec::new();

    for round in 0..rounds {
        let results: Vec<(u64, Vec<(usize, Option<usize>)>)> = std::thread::scope(|scope| {
            let handles: Vec<_> = (0..n_threads)
                .map(|t| {
                    let srcs = &srcs;
                    let reference = &reference;
                    scope.spawn(move || {
                        let n = srcs.len();
                        let mut order: Vec<usize> = (0..n).collect();
                        let mut state = 0x9e37_79b9_7f4a_7c15u64
                            ^ ((t as u64 + 1) << 32)
                            ^ (round as u64 + 1).wrapping_mul(0x0100_0000_01b3);
                        for i in (1..n).rev() {
                            let j = (xorshift(&mut state) % (i as u64 + 1)) as usize;
                            order.swap(i, j);
                        }
                        let mut cmp = 0u64;
                        let mut bad = Vec::new();
                        let mut s = String::new();
                        let mut prev: Option<usize> = None;
                        for i in order {
                            s.clear();
                            dump_line(&mut s, &srcs[i], cfg);
                            cmp += 1;
                            if s != reference[i] {
                                bad.push((i, prev));
                            }
                            prev = Some(i);
                        }
                        (cmp, bad)
                    })
                })
                .collect();
            handles
                .into_iter()
                .map(|h| h.join().unwrap_or((0, Vec::new())))
                .collect()
        });
        for (c, b) in results {
            comparisons += c;
            bad.extend(b);
        }
    }

    // History independence: once more sequentially on this thread, after everything else
    let mut s = String::new();
    let mut prev: Option<usize> = None;
    for (i, src) in srcs.iter().enumerate() {
        s.clear();
        dump_line(&mut s, src, cfg);
        comparisons += 1;
        if s != reference[i] {
            bad.push((i, prev));
        }
        prev = Some(i);
    }

    bad.sort_unstable();
    bad.dedup_by_key(|b| b.0);

    if bad.is_empty() {
        let _ = writeln!(out, "threads ok {} {}", srcs.len(), comparisons);
    } else {
        for (i, prev) in bad.iter().take(20) {
            let p = prev.map(|p| hexes[p].clone()).unwrap_or_else(|| "-".to_string());
            let _ = writeln!(out, "threads mismatch {} after {}", hexes[*i], p);
        }
    }
}

// ---------------------------------------------------------------------------
// unicode
// ---------------------------------------------------------------------------

fn cmd_unicode(out: &mut dyn Write) {
    fn ranges(pred: impl Fn(char) -> bool) -> String {
        let mut s = String::new();
        let mut cur: Option<(u32, u32)> = None;
        let flush = |s: &mut String, r: (u32, u32)| {
            if !s.is_empty() {
                s.push(',');
            }
            push_u64(s, u64::from(r.0));
            s.push('-');
            push_u64(s, u64::from(r.1));
        };
        for cp in 0..=0x10_FFFFu32 {
            let hit = char::from_u32(cp).is_some_and(&pred);
            match (hit, cur) {
                (true, Some((lo, hi))) if hi + 1 == cp => cur = Some((lo, cp)),
                (true, Some(r)) => {
                    flush(&mut s, r);
                    cur = Some((cp, cp));
                }
                (true, None) => cur = Some((cp, cp)),
                (false, Some(r)) => {
                    flush(&mut s, r);
                    cur = None;
                }
                (false, None) => {}
            }
        }
        if let Some(r) = cur {
            flush(&mut s, r);
        }
        s
    }

    let _ = writeln!(out, "ws {}", ranges(char::is_whitespace));
    let _ = writeln!(out, "xids {}", ranges(verif::verif_is_xid_start));
    let _ = writeln!(out, "xidc {}", ranges(verif::verif_is_xid_continue));
}

// ---------------------------------------------------------------------------
// main
// ---------------------------------------------------------------------------

const USAGE: &str = "usage: harness <dump [--budget-mul K] [--trace N] | lexer-script | \
buffer-script | threads <N> [--rounds R] [--budget-mul K] | unicode> [--out PATH]";

fn main() {
    // Silence the default panic printer; messages are taken from the payloads
    std::panic::set_hook(Box::new(|_| {}));

    let args: Vec<String> = std::env::args().skip(1).collect();
    let mut cmd: Option<String> = None;
    let mut positional: Vec<String> = Vec::new();
    let mut out_path: Option<String> = None;
    let mut budget_mul: u64 = 8;
    let mut trace: usize = 0;
    let mut rounds: usize = 3;

    let mut it = args.into_iter();
    while let Some(a) = it.next() {
        let mut val = |name: &str| -> String {
            it.next()
                .unwrap_or_else(|| die(&format!("{name} needs a value\n{USAGE}")))
        };
        match a.as_str() {
            "--out" => out_path = Some(val("--out")),
            "--budget-mul" => {
                budget_mul = val("--budget-mul")
                    .parse()
                    .unwrap_or_else(|_| die("bad --budget-mul"));
            }
            "--trace" => trace = val("--trace").parse().unwrap_or_else(|_| die("bad --trace")),
            "--rounds" => {
                rounds = val("--rounds")
                    .parse()
                    .unwrap_or_else(|_| die("bad --rounds"));
            }
            _ if cmd.is_none() => cmd = Some(a),
            _ => positional.push(a),
        }
    }

    let Some(cmd) = cmd else { die(USAGE) };
    let cfg = DumpCfg { budget_mul, trace };

    let mut out = open_out(out_path.as_deref());

    match cmd.as_str() {
        "dump" => cmd_dump(&mut *out, cfg),
        "lexer-script" => cmd_lexer_script(&mut *out),
        "buffer-script" => cmd_buffer_script(&mut *out),
        "threads" => {
            let n: usize = positional
                .first()
                .and_then(|v| v.parse().ok())
                .filter(|n| *n > 0)
                .unwrap_or_else(|| die(USAGE));
            // Traces are not part of the comparison
            cmd_threads(&mut *out, n, rounds, DumpCfg { budget_mul, trace: 0 });
        }
        "unicode" => cmd_unicode(&mut *out),
        _ => die(USAGE),
    }

    if let Err(e) = out.flush() {
        die(&format!("write error: {e}"));
    }
}

// Keep the unused-import lint quiet for items only needed as type witnesses
#[allow(dead_code)]
fn _witness(_: ErrorKind) {}
