#!/usr/bin/env python3
"""Apply a seeded change to /repo, run checks, undo it.
usage: run_mutant.py <dir with patch.diff + meta.json> [--props C01,C02|all] [--confirm]
  --confirm : additionally confirm in a scratch worktree that the existing tests pass with the change and that the
              demonstration fails with it / passes without it (slow; uses /tmp/mutchk-*)
Prints one line per property: DETECTED (with replay kind) / MISSED, and writes <dir>/result.json
"""
import argparse, json, os, re, subprocess, sys, time

ALL = [f"C{i:02d}" for i in range(1, 21)]


def sh(cmd, cwd=None, timeout=3600):
    p = subprocess.run(cmd, shell=True, cwd=cwd, capture_output=True, timeout=timeout)
    return p.returncode, (p.stdout + p.stderr).decode(errors="replace")


def main():
    ap = argparse.ArgumentParser()
    ap.add_argument("dir")
    ap.add_argument("--props", default=None)
    ap.add_argument("--confirm", action="store_true")
    ap.add_argument("--confirm-only", action="store_true")
    a = ap.parse_args()
    meta = json.load(open(os.path.join(a.dir, "meta.json")))
    props = ALL if a.props == "all" else (a.props.split(",") if a.props else [meta["property"]])
    patch = os.path.abspath(os.path.join(a.dir, "patch.diff"))
    res = {"mutant": os.path.basename(os.path.normpath(a.dir)), "property": meta["property"], "checks": {}}
    if a.confirm_only:
        try:
            res = json.load(open(os.path.join(a.dir, "result.json")))
        except OSError:
            pass
        a.confirm = True
        props = []
    rc, out = sh("git -C /repo status --porcelain") if not a.confirm_only else (0, "")
    if out.strip():
        print("refusing: /repo has uncommitted changes:\n" + out)
        return 2
    rc, out = sh(f"git -C /repo apply {patch} || git -C /repo apply --3way {patch}") if not a.confirm_only else (0, "")
    if rc != 0:
        print("patch does not apply:\n" + out[-2000:])
        res["applies"] = False
        json.dump(res, open(os.path.join(a.dir, "result.json"), "w"), indent=1)
        return 2
    res["applies"] = True
    sh("rm -rf /verif/.work/evidence.keep && cp -r /verif/evidence /verif/.work/evidence.keep")   # evidence of a changed tree is never kept
    try:
        for p in props:
            t0 = time.time()
            rc, out = sh(f"./check {p} --tier quick", cwd="/verif", timeout=5400)
            viol = re.findall(r"^VIOLATION property=(\S+) replay=(\S+)(.*)$", out, re.M)
            kind = None
            detail = None
            if viol:
                kind = "no-failing-input-found" if all("no-failing-input-found" in v[2] for v in viol) else "failing-input"
                rp = next((v[1] for v in viol if "no-failing-input-found" not in v[2]), viol[0][1])
                try:
                    r = json.load(open(rp))
                    detail = {"replay": rp, "source": r.get("source"), "failed_clauses": r.get("failed_clauses"),
                              "broken": r.get("broken_obligations"), "variants": r.get("variants")}
                    if r.get("correspondence"):
                        detail["correspondence_source"] = r["correspondence"].get("source")
                except Exception as e:
                    detail = {"replay": rp, "error": str(e)}
            res["checks"][p] = {"exit": rc, "violations": len(viol), "kind": kind, "detail": detail, "wall_s": round(time.time() - t0, 1),
                                "tail": out.strip().split("\n")[-1][:300]}
            print(f"{res['mutant']} {p}: {'DETECTED (' + kind + ')' if viol else ('ERROR rc=' + str(rc) if (rc != 0) else 'MISSED')}"
                  + (f" clauses={detail.get('failed_clauses')} source={detail.get('source')!r} broken={detail.get('broken')}" if detail else ""), flush=True)
    finally:
        if not a.confirm_only:
            sh("git -C /repo reset -q --hard HEAD && git -C /repo checkout -- . && git -C /repo clean -fdq crates src")
        if not a.confirm_only:
            sh("cp /verif/.work/evidence.keep/*.json /verif/evidence/ && rm -rf /verif/.work/evidence.keep")
            sh("/verif/tools/build_harness.sh dev rel dev-sep rel-sep")   # never leave binaries of a changed tree behind
        rc, out = sh("git -C /repo status --porcelain")
        if out.strip() and not a.confirm_only:
            print("WARNING: /repo not clean after undo:\n" + out)
    if a.confirm:
        wt = f"/tmp/mutchk-{os.getpid()}"
        sh(f"git -C /repo worktree add {wt} HEAD")
        try:
            demo = next((f for f in os.listdir(a.dir) if f.startswith("demo.")), None)
            name = "demo_" + res["mutant"].replace("-", "_")
            conf = {}
            if demo and demo.endswith(".rs"):
                sh(f"mkdir -p {wt}/crates/sas-lexer/tests && cp {os.path.join(a.dir, demo)} {wt}/crates/sas-lexer/tests/{name}.rs")
                feat = "--features macro_sep" if "macro_sep" in (meta.get("demo_cmd", "") + meta.get("configs", "")) else ""
                rel = "--release" if "--release" in meta.get("demo_cmd", "") else ""
                rc0, o0 = sh(f"cargo test -p sas-lexer --test {name} --offline {feat} {rel}", cwd=wt)
                conf["demo_passes_without_change"] = rc0 == 0
                sh(f"git apply {patch} || git apply --3way {patch}", cwd=wt)
                rc1, o1 = sh(f"timeout 600 cargo test -p sas-lexer --test {name} --offline {feat} {rel}", cwd=wt)
                conf["demo_fails_with_change"] = rc1 != 0
                sh(f"rm {wt}/crates/sas-lexer/tests/{name}.rs")
            else:
                sh(f"git apply {patch} || git apply --3way {patch}", cwd=wt)
            rc2, o2 = sh("cargo test --workspace --no-fail-fast --offline 2>&1 | grep -E '^test result' | head -3", cwd=wt)
            conf["suite"] = o2.strip().split("\n")[0][:200]
            conf["suite_passes_with_change"] = "0 failed" in o2 and "2152 passed" in o2
            res["confirm"] = conf
            print(f"{res['mutant']} confirm: {conf}")
        finally:
            sh(f"git -C /repo worktree remove --force {wt}")
    json.dump(res, open(os.path.join(a.dir, "result.json"), "w"), indent=1, ensure_ascii=False)
    return 0


if __name__ == "__main__":
    sys.exit(main())
