#!/bin/bash
# run the check of the target property against every listed seeded change (sequential; touches /repo)
for m in "$@"; do
  python3 /verif/tools/run_mutant.py /tmp/mut-out/$m 2>&1 | grep -v "^$" | tail -1 | cut -c1-500
done
