#!/usr/bin/env python3
"""Regenerate /verif/MANIFEST.json from the claims table below."""
import json, sys
sys.path.insert(0, "/verif/tools")
props = [json.loads(l) for l in open("/verif/properties.jsonl")]
ids = [p["id"] for p in props]

CLAIMS = json.load(open("/verif/tools/claims.json"))

checks, na = [], []
for pid in ids:
    c = CLAIMS.get(pid)
    if not c or not c.get("claimed"):
        na.append({"property_id": pid, "reason": (c or {}).get("reason", "check under construction (Lean 4 proof + correspondence); not yet claimed")})
        continue
    checks.append({
        "property_id": pid,
        "quick_cmd": f"./check {pid} --tier quick",
        "thorough_cmd": f"./check {pid} --tier thorough",
        "evidence_file": f"/verif/evidence/{pid}.json",
        "replay_cmd_template": f"./check {pid} --replay {{path}}",
        "engine": "lean4-proof+correspondence",
        "level_claimed": {"category": c.get("category", "proof"), "text": c["text"], "design_ref": c.get("design_ref", f"DESIGN.md §6 {pid}")},
        "level_note": c["note"],
        "technique": c["technique"],
    })
m = {
    "version": 1,
    "setup_cmd": "./tools/setup.sh",
    "hooks": {
        "guard": "--cfg sas_lexer_verif",
        "enable": "RUSTFLAGS='--cfg sas_lexer_verif' cargo build --offline (crate /verif/harness, path dependency on /repo/crates/sas-lexer; see tools/build_harness.sh)",
        "baseline_off_cmd": "cd /repo && cargo test --workspace --no-fail-fast --offline",
        "source_commits": CLAIMS.get("_hook_commits", []),
        "add_only": True,
    },
    "engines": [{"name": "lean4-proof+correspondence", "path": "/verif/lean", "serves_properties": [c["property_id"] for c in checks],
                 "kind_free_text": "Lean 4 model (free monad over lexer primitives) + kernel/table/model theorems; translator regenerates tables from /repo; Rust harness vs compiled Lean model correspondence; Lean-compiled specification predicates judge implementation dumps"}],
    "checks": checks,
    "notes": "See DESIGN.md. Every check rebuilds harness + tables + theorems from /repo's working tree.",
    "not_applicable": na,
}
json.dump(m, open("/verif/MANIFEST.json", "w"), indent=1)
print("claimed:", [c["property_id"] for c in checks])
