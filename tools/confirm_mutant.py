#!/usr/bin/env python3
"""Confirm a seeded change in a scratch worktree (never in /repo):
  - the demonstration passes on the clean tree and fails with the change,
  - the existing test suite (cargo test --workspace) still passes with the change.
usage: confirm_mutant.py <dir with patch.diff, demo.*, meta.json> <scratch worktree>
Writes <dir>/confirm.json.
"""
import json, os, re, subprocess, sys


def sh(cmd, cwd=None, timeout=3600):
    e = dict(os.environ)
    e["CARGO_NET_OFFLINE"] = "true"
    p = subprocess.run(cmd, shell=True, cwd=cwd, capture_output=True, timeout=timeout, env=e)
    return p.returncode, (p.stdout + p.stderr).decode(errors="replace")


def main():
    d, wt = os.path.abspath(sys.argv[1]), os.path.abspath(sys.argv[2])
    meta = json.load(open(os.path.join(d, "meta.json")))
    patch = os.path.join(d, "patch.diff")
    name = "demo_" + os.path.basename(d).replace("-", "_").lower()
    conf = {"worktree": wt}
    sh("git checkout -- . && git clean -fdq crates src", cwd=wt)
    demo_rs = os.path.join(d, "demo.rs")
    demo_py = os.path.join(d, "demo.py")
    dc = meta.get("demo_cmd", "") + " " + meta.get("configs", "")
    feat = "--features macro_sep" if re.search(r"cargo test[^&;|#(]*--features\s+macro_sep", meta.get("demo_cmd", "")) else ""
    rel = "--release" if "--release" in meta.get("demo_cmd", "") else ""
    if os.path.exists(demo_rs):
        def run_demo():
            sh(f"mkdir -p crates/sas-lexer/tests && cp {demo_rs} crates/sas-lexer/tests/{name}.rs", cwd=wt)
            rc, out = sh(f"timeout 900 cargo test -p sas-lexer --test {name} --offline {feat} {rel}", cwd=wt)
            sh(f"rm -f crates/sas-lexer/tests/{name}.rs", cwd=wt)
            return rc, out
        conf["demo_cmd_used"] = f"cargo test -p sas-lexer --test {name} --offline {feat} {rel}".strip()
    elif os.path.exists(demo_py):
        py = "/root/miniconda/bin/python3"
        def run_demo():
            rc, out = sh(f"PYO3_PYTHON={py} cargo build -p sas-lexer-py --offline --features pyo3/extension-module", cwd=wt)
            if rc != 0:
                return 99, out
            rc, out = sh(f"timeout 600 {py} {demo_py} {wt}", cwd=wt)
            # build.rs may rewrite the enum files in place; restore only those
            return rc, out
        conf["demo_cmd_used"] = f"cargo build -p sas-lexer-py ...; python3 demo.py {wt}"
    else:
        print("no demo"); return 2
    rc0, o0 = run_demo()
    conf["demo_passes_without_change"] = rc0 == 0
    conf["demo_clean_tail"] = o0.strip().split("\n")[-1][:200]
    rc, out = sh(f"git apply {patch}", cwd=wt)
    if rc != 0:
        conf["applies"] = False
        json.dump(conf, open(os.path.join(d, "confirm.json"), "w"), indent=1)
        print(os.path.basename(d), "patch does not apply", out[-300:]); return 2
    conf["applies"] = True
    rc1, o1 = run_demo()
    conf["demo_fails_with_change"] = rc1 not in (0, 99)
    conf["demo_changed_tail"] = "\n".join(o1.strip().split("\n")[-4:])[:600]
    rc2, o2 = sh("cargo test --workspace --no-fail-fast --offline 2>&1 | grep -E '^test result'", cwd=wt, timeout=5400)
    lines = o2.strip().split("\n")
    conf["suite"] = lines[:3]
    conf["suite_passes_with_change"] = bool(lines) and all("0 failed" in l for l in lines) and any("2152 passed" in l for l in lines)
    sh("git checkout -- . && git clean -fdq crates src", cwd=wt)
    conf["confirmed"] = bool(conf["demo_passes_without_change"] and conf["demo_fails_with_change"] and conf["suite_passes_with_change"])
    json.dump(conf, open(os.path.join(d, "confirm.json"), "w"), indent=1)
    print(os.path.basename(d), "CONFIRMED" if conf["confirmed"] else "NOT CONFIRMED", {k: v for k, v in conf.items() if k.startswith(("demo_p", "demo_f", "suite_p"))}, flush=True)
    return 0


if __name__ == "__main__":
    sys.exit(main())
