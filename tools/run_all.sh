#!/bin/bash
# run every claimed check (tier $1, default quick) sequentially; print the summary line of each
tier=${1:-quick}
rc=0
for p in C01 C02 C03 C04 C05 C06 C07 C08 C09 C10 C11 C12 C13 C14 C15 C16 C17 C18 C19 C20; do
  out=$(./check $p --tier $tier 2>&1); r=$?
  echo "$out" | grep -E "^(VIOLATION|KNOWN-FINDING|check )" | cut -c1-400
  [ $r -ne 0 ] && { echo "  -> $p exit $r"; rc=1; }
done
exit $rc
