#!/bin/bash
# confirm every seeded change under /tmp/mut-out that has not been confirmed yet (scratch worktrees only)
for d in /tmp/mut-out/C*-*/; do
  [ -f "$d/patch.diff" ] || continue
  if [ -f "$d/result.json" ] && grep -q '"confirm"' "$d/result.json"; then continue; fi
  python3 /verif/tools/run_mutant.py "$d" --confirm-only 2>&1 | tail -1
done
