#!/usr/bin/env python3
"""Grammar-directed input generator for C12 / C13 / C14 (DESIGN.md section 7.3, "stream G / D").

  gen_grammar.py --seed N -n K [--depth D] --mode c12|c13|c14

Every random choice comes from one PRNG seeded by --seed (and the mode).  One JSON object per
line on stdout, statistics on stderr.

  c12  {"hex"}                                  well-formed, statement-complete program
  c13  {"hex","delims","masked","hidden"}       byte offsets; see DESIGN 6/C13
  c14  {"hex","orig_hex","error","at","token","what"}   one mandatory delimiter deleted

Side conditions of the grammar that the generator enforces (each was needed to get a clean run on the
implementation; they are properties of the lexer's disambiguation heuristics, not defects):
  * ostmt: a `*`/`**` symbol may only appear after an otok that is not a macro call (a call does not set the
    lexer's "statement pending" flag, so `%m(1) * 2;` contains the star comment `* 2;`).
  * quoted literals: a letter directly after the closing quote is read as a literal suffix (b d dt n t x; `x`
    demands hex content) and a second literal with the same quote fuses (`''` / `""` escape): a separator
    is inserted (also in macro expressions: `'a' ne 1`, not `'a'ne 1`).
  * numbers / names / `&` / `%` / `/`+`*` must not fuse with their neighbours (`1.` + `eq` is an exponent
    without digits, `50%` + `abc` is a macro call, ...).
  * a paren-less user call must not be followed by h '(' (that would be its argument list); in particular the
    function-name expression of %sysfunc must not end with a paren-less call.
  * nameexpr: no blanks; a `.` after a macro variable reference is only part of the name while a resolve
    operation is pending (`&a..b` ends the name at the second dot); quoting functions (%str, %bquote, ...) are
    not calls inside a name expression.
  * positional argument of a user call / named-argument built-in: the leading "name phase" (name characters,
    macro variable references, paren-less calls, optionally one final call with arguments or built-in, then h)
    must not be followed by '='.  Once value mode is entered a top-level '=' is plain text (recorded as masked).
  * evalexpr: words are non-mnemonic names; a mnemonic operator is preceded by a blank/comment (or `)`), and
    followed by a non-name character; `&` as an operator is followed by a blank.  Only the blank run directly
    before an operator/terminator is hidden: blanks *before a comment* are glued to the operand's MacroString
    and an integer followed by a comment is not an IntegerLiteral (`%eval(1 /*c*/+2)`): such integers / blanks
    are generated but not listed in delims / hidden.  After `)` everything is hidden.
  * a "..." inside %nrstr(...) is still a string expression with active & and % triggers; the generator only
    puts trigger-free text there.
  * %macro parameter list: h before ',' or ')' is hidden after a bare parameter name; after a default value
    blanks belong to the value.
  * star comments inside a %macro body contain no `%name`; macro comments have balanced quotes.

All offsets are kept as *character* offsets while a program is assembled (class Frag) and are
converted to UTF-8 byte offsets when the record is printed.

Rule for `at` in mode c14 (validated on the implementation, see validate_grammar.py):
  Every listed delimiter is expected by an `ExpectSymbol`/`ExpectSemiOrEOF` mode that is
  preceded on the mode stack by `WsOrCStyleCommentOnly`.  After the deletion the hidden
  whitespace/comments that preceded the delimiter and those that followed it form one run, and
  that mode consumes the whole run.  Hence
      at = first offset >= deletion point in the MUTATED text that is not inside a maximal run
           of (whitespace | /*...*/)                 (`skip_h`)
  e.g. `%let a /*x*/ = /*y*/ 1;` -> error + zero-width ASSIGN at the `1`.  A deletion is only
  emitted when the character at `at` is not the deleted delimiter's own character (otherwise
  the program is well formed again, e.g. `%eval((1))`) and, for `;`, when `at` is not the end of
  input (`ExpectSemiOrEOF` accepts end of input silently).
  Exceptions:
   * first `,` of %scan/%substr: the first argument is lexed by `MacroCallValue`, which simply
     continues over the former second argument; the expectation is only reached at the next
     top-level `,` or `)`.  With a third argument the mutated call is well formed again
     (`%scan(a 1,x)`), so only two-argument calls are mutated and `at` is the offset of the
     call's closing `)`.
   * `)`: the program is cut right before the closing paren of a call; `at` = length of the
     mutated text (finalize_lexing reports at end of input, after trailing hidden tokens).
"""
import argparse, json, random, re, sys, collections

# --------------------------------------------------------------------------------------------
# tables

MKEYWORDS = """CMPRES COMPSTOR DATATYP EVAL INDEX LEFT LENGTH LOWCASE SCAN SUBSTR SYMEXIST SYMGLOBL SYMLOCAL SYSEVALF
SYSFUNC SYSGET SYSMACEXEC SYSMACEXIST SYSMEXECDEPTH SYSMEXECNAME SYSPROD TRIM UNQUOTE UPCASE VERIFY KCMPRES KINDEX KLEFT
KLENGTH KLOWCASE KSCAN KSUBSTR KTRIM KUPCASE KVERIFY VALIDCHS QCMPRES QLEFT QLOWCASE QSCAN QSUBSTR QTRIM QSYSFUNC QUPCASE
QKCMPRES QKLEFT QKLOWCASE QKSCAN QKSUBSTR QKTRIM QKUPCASE BQUOTE NRBQUOTE NRQUOTE QUOTE SUPERQ STR NRSTR ABORT COPY DISPLAY
DO TO BY UNTIL WHILE END GLOBAL GOTO IF THEN ELSE INPUT LET LOCAL MACRO MEND PUT RETURN SYMDEL SYSCALL SYSEXEC SYSLPUT
SYSMACDELETE SYSMSTORECLEAR SYSRPUT WINDOW INCLUDE INC LIST RUN""".split()
MNEMONICS = {"EQ", "NE", "LT", "LE", "GT", "GE", "AND", "OR", "NOT", "IN"}
DATALINES_WORDS = {"DATALINES", "CARDS", "LINES", "DATALINES4", "CARDS4", "LINES4"}

# built-in families (Gen/Preload families of DESIGN 7.3)
EVALFN = ["eval", "sysevalf"]
SCANFN = ["scan", "qscan", "kscan", "qkscan"]
SUBSTRFN = ["substr", "qsubstr", "ksubstr", "qksubstr"]
LISTARG = ["datatyp", "lowcase", "klowcase", "cmpres", "qcmpres", "kcmpres", "qkcmpres", "left", "qleft", "kleft", "qkleft",
           "trim", "qtrim", "ktrim", "qktrim"]
ONEARG = ["index", "kindex", "length", "klength", "qlowcase", "qklowcase", "upcase", "kupcase", "qupcase", "qkupcase",
          "sysmexecname", "sysprod", "quote", "nrquote", "bquote", "nrbquote", "superq", "unquote", "symexist", "symglobl",
          "symlocal", "sysget", "sysmacexec", "sysmacexist"]
QUOTE_TYPE = {"bquote", "nrbquote", "nrquote", "quote", "superq", "str", "nrstr"}   # not lexed as calls inside name expressions
NAMEDARG = ["compstor", "validchs", "verify", "kverify"]
SYSFUNC = ["sysfunc", "qsysfunc"]

UNAMES = ["m", "mac1", "_x", "doit", "load_lib", "abc", "loop2", "q", "Mx", "chk", "t_1", "n", "outer", "inner9", "gen", "u", "letx", "dox", "ifa", "strx",
          "endit", "scanner", "evaluate", "put_", "tox", "byx"]
VNAMES = ["a", "b", "i", "j", "x", "var1", "_n", "lib", "ds", "cnt", "prefix", "k9", "Name", "dsn", "opt", "_"]
IDENTS = ["x", "y", "a1", "total", "_tmp", "ds", "work", "out", "price", "name", "id2", "v", "été", "flag", "n_obs", "t", "b", "d", "z9"]
OKW = ["data", "set", "run", "proc", "if", "then", "else", "do", "end", "by", "var", "keep", "drop", "where", "select", "from", "as", "output",
       "format", "length", "input", "put", "merge", "quit", "and", "or", "not", "in", "eq", "ne", "_null_", "_all_", "table", "create"]
NUMBERS = ["0", "1", "42", "007", "1.5", ".5", "1.", "1e5", "1E-3", "2.5e+10", "0ffx", "0FFX", "1fx", "9x", "12345678901234567890", "3.14159", "100"]
SYMBOLS = ["+", "-", "*", "**", "/", "=", "<", "<=", ">", ">=", "<>", "><", "^=", "~=", "¬=", "||", "!!", "|", "!", ",", ".", ":", "@", "#", "?", "$", "{", "}", "[", "]",
           "^", "~", "=*", "&", "%", "\\", "`"]
# macro-expression operators: spelling -> token type
EVAL_SYM_OPS = [("+", "PLUS"), ("-", "MINUS"), ("*", "STAR"), ("**", "STAR2"), ("/", "FSLASH"), ("=", "ASSIGN"), ("<", "LT"), ("<=", "LE"), (">", "GT"),
                (">=", "GE"), ("^=", "NE"), ("~=", "NE"), ("¬=", "NE"), ("#", "HASH"), ("|", "PIPE"), ("&", "AMP"), ("^", "NOT"), ("~", "NOT"), ("¬", "NOT")]
EVAL_MNEMONICS = [("eq", "KwEQ"), ("ne", "KwNE"), ("lt", "KwLT"), ("le", "KwLE"), ("gt", "KwGT"), ("ge", "KwGE"), ("and", "KwAND"), ("or", "KwOR"), ("in", "KwIN"),
                  ("not", "KwNOT")]
EVAL_WORDS = ["a", "abc", "x1", "yes", "no1", "value", "_t", "equal", "north", "android", "inx", "orb", "lte", "gtx", "é", "Z"]
SFUNCS = ["date", "today", "substr", "cats", "putn", "inputn", "exist", "open", "attrn", "close", "sum", "max", "round", "compress", "time"]
FORMATS = ["date9.", "z5.", "best12.", "8.2", "$char10.", "yymmdd10."]
MOPTS = ["store", "source", "minoperator", "parmbuff", "secure", "des='demo macro'", "mindelimiter=','", 'des="a;b"', "cmd", "stmt", "pbuff"]


def is_namechar(c):
    return c == "_" or c.isalnum()


def is_namestart(c):
    return c == "_" or c.isalpha()


# --------------------------------------------------------------------------------------------
# fragment with annotations (character offsets)

class Frag:
    def __init__(self):
        self.p = []            # text pieces
        self.n = 0             # characters so far
        self.delims = []       # (off, TOKENTYPE)
        self.masked = []       # off
        self.hidden = []       # (a, b)
        self.dels = []         # (off, token, error, what, extra)   c14 deletable occurrences
        self.closes = []       # (off, what)                        closing parens (c14 truncation)
        self.last = ""         # last character emitted
        self.noparen = False   # a paren-less user call (+ hidden stuff) ends the text: next significant char must not be '('
        self.endq = False      # text ends with the closing quote of a literal
        self.maxlvl = 0

    def pre(self, s):
        """bookkeeping before text s is appended: a '(' must not follow a paren-less call"""
        if self.noparen:
            st = s.strip()
            if st[:1] == "(":
                self.p.append(".")     # filler: `%m (` would be read as the call's argument list
                self.n += 1
                self.noparen = False
            elif st == "" or (st.startswith("/*") and st.endswith("*/") and st.find("*/") == len(st) - 2):
                pass   # whitespace or one comment: the lexer's look-ahead for '(' continues
            else:
                self.noparen = False

    def t(self, s, keep=False):
        """append text; keep=True for whitespace/comments (does not reset the paren-less-call flag)"""
        if not s:
            return
        if not keep:
            self.pre(s)
        self.endq = False
        self.p.append(s)
        self.n += len(s)
        self.last = s[-1]

    def mark(self, tok):
        self.delims.append((self.n, tok))

    def d(self, s, tok):
        """a delimiter/operator token spelled s"""
        self.noparen = False   # deliberately no filler: the caller guarantees this is legal here
        self.mark(tok)
        self.t(s)

    def m(self, s):
        """text whose , = ; ( ) characters are masked"""
        if not s:
            return
        self.pre(s)
        for i, c in enumerate(s):
            if c in ",=;()":
                self.masked.append(self.n + i)
        self.t(s, keep=True)

    def text(self):
        return "".join(self.p)

    def extend(self, G):
        """append fragment G (annotations are shifted)"""
        s = G.text()
        if not s:
            return
        self.pre(s)
        o = self.n
        self.delims += [(a + o, t) for a, t in G.delims]
        self.masked += [a + o for a in G.masked]
        self.hidden += [(a + o, b + o) for a, b in G.hidden]
        self.dels += [(a + o, t, e, w, (x + o if x is not None else None)) for a, t, e, w, x in G.dels]
        self.closes += [(a + o, w) for a, w in G.closes]
        self.p.append(s)
        self.n += len(s)
        self.last, self.noparen, self.endq = G.last, G.noparen, G.endq
        self.maxlvl = max(self.maxlvl, G.maxlvl)


MASKCH = ",=;()"


class Gen:
    def __init__(self, rng, depth, mode):
        self.r = rng
        self.depth = depth
        self.mode = mode
        self.macro_level = 0

    # ---------------------------------------------------------------- helpers
    def ch(self, seq):
        return self.r.choice(seq)

    def p(self, x):
        return self.r.random() < x

    def wch(self, pairs):
        """weighted choice: [(weight, value)]"""
        tot = sum(w for w, _ in pairs)
        x = self.r.random() * tot
        for w, v in pairs:
            x -= w
            if x < 0:
                return v
        return pairs[-1][1]

    def case(self, s):
        k = self.r.random()
        if k < 0.8:
            return s
        if k < 0.9:
            return s.upper()
        return "".join(c.upper() if self.p(0.5) else c for c in s)

    def uname(self):
        while True:
            n = self.case(self.ch(UNAMES))
            if n.upper() not in MKEYWORDS:
                return n

    def vname(self):
        return self.ch(VNAMES)

    # ---------------------------------------------------------------- hidden stuff
    def ws_text(self, nl=True):
        return self.wch([(10, " "), (2, "  "), (2 if nl else 0, "\n"), (1, "\t"), (1 if nl else 0, "\r\n"), (1 if nl else 0, "\n   "), (0.3, " "), (0.2, "　 ")])

    def cstyle_text(self):
        body = self.wch([(5, " c "), (2, ""), (2, "*"), (2, " note; %let x=1; "), (1, " it's "), (1, ' "q '), (1, " (a,b) "), (1, "\n line2 \n"), (1, " é日本 "), (1, "/* nested"),
                         (1, " %m(1) &a "), (1, "**"), (1, " * / ")])
        return "/*" + body + "*/"

    def h_text(self, p_some=0.45, p_comment=0.25, must=False):
        """(ws | cstyle)*  -- returns the text"""
        if not must and not self.p(p_some):
            return ""
        out = []
        for _ in range(self.wch([(8, 1), (2, 2), (1, 3)])):
            if self.p(p_comment):
                out.append(self.cstyle_text())
            else:
                out.append(self.ws_text())
        return "".join(out)

    def h(self, F, hidden=True, **kw):
        """emit h; record it as a hidden range when `hidden`"""
        s = self.h_text(**kw)
        if s:
            a = F.n
            F.t(s, keep=True)
            if hidden:
                F.hidden.append((a, F.n))
        return s

    def ws(self, F, hidden=False, must=True):
        """whitespace only"""
        if not must and not self.p(0.5):
            return ""
        s = self.ws_text()
        a = F.n
        F.t(s, keep=True)
        if hidden:
            F.hidden.append((a, F.n))
        return s

    def sep_if_needed(self, F, nxt, hidden=False):
        """insert a blank when the previous and the next character would otherwise fuse"""
        if not nxt or not F.last:
            return
        c = nxt[0]
        need = False
        if is_namechar(F.last) and (is_namechar(c) or c == "."):
            need = True
        elif F.endq and (c.isalpha() or c == F.last):
            need = True      # literal suffix letters; '' / "" would read as an escaped quote
        elif F.last == "&" and (is_namestart(c) or c == "&"):
            need = True
        elif F.last == "%" and (is_namestart(c) or c == "*"):
            need = True
        elif F.last == "/" and c == "*":
            need = True
        elif F.last == "*" and c == "/":
            need = True
        elif F.last == "." and (c.isdigit() or c in "eE"):
            need = True      # `1.` + `eq` would read as an exponent without digits
        if need:
            self.ws(F, hidden=hidden)

    # ---------------------------------------------------------------- macro variable references
    def mvar(self, F, dots=1, allow_tail=True):
        """mvar ::= '&'^k name ('.' | mvar)*  ; dots = max number of trailing '.' (1 in name contexts)"""
        k = self.wch([(10, 1), (3, 2), (1, 3), (0.5, 4)])
        F.t("&" * k + self.vname())
        if allow_tail and self.p(0.25):
            F.t("&" * self.wch([(5, 1), (1, 2)]) + self.vname())
        nd = self.wch([(5, 0), (4, 1), (1 if dots > 1 else 0, 2)])
        if nd:
            F.t("." * nd)

    # ---------------------------------------------------------------- quoted literals
    def sq(self, F, suffix=True):
        """sq ::= "'" (c | "''")* "'" sfx?"""
        sfx = ""
        if suffix and self.p(0.25):
            sfx = self.case(self.ch(["b", "d", "dt", "n", "t", "x"]))
        if sfx.lower() == "x":
            body = self.ch(["41", "4142", "0D0A", "", "41,42", "ff"])
        else:
            body = "".join(self.wch([(6, self.ch(["a", "b c", "x1", "01jan2020", "12:30", "my var", "10"])), (1, "''"), (1, ";"), (1, ","), (1, "="), (1, "("), (1, ")"), (1, "%m(1)"),
                                     (1, "&a"), (1, '"'), (1, "\n"), (1, "é"), (1, " "), (1, "/*"), (1, "%let")]) for _ in range(self.r.randint(0, 3)))
        F.t("'")
        F.m(body)
        F.t("'" + sfx)
        F.endq = True

    def dq(self, F, lvl, suffix=True, call_ok=True):
        """dq ::= '"' (dqtext | mvar | call)* '"' sfx?"""
        sfx = ""
        if suffix and self.p(0.2):
            sfx = self.case(self.ch(["b", "d", "dt", "n", "t", "x"]))
        F.t('"')
        has_macro = False
        if sfx.lower() == "x" and self.p(0.7):
            F.m(self.ch(["41", "4142", "", "0d0a", "41,42"]))
        else:
            n = self.r.randint(0, 4)
            if sfx.lower() == "x":
                # a hex suffix on non-hex content is only legal when the content has macro triggers
                self.mvar(F, dots=2)
                has_macro = True
            for _ in range(n):
                k = self.wch([(6, "t"), (2, "v"), (2 if call_ok else 0, "c")])
                if k == "t":
                    s = self.wch([(6, self.ch(["a", "text ", " b c", "x=1", "01jan2020", "it's", " ", "é日本"])), (1, '""'), (1, ";"), (1, ","), (1, "(x)"), (1, ")"), (1, "("),
                                  (1, "% "), (1, "& "), (1, "50%"), (1, "\n"), (1, "'"), (1, "/* c */"), (1, "=")])
                    self.sep_if_needed_dq(F, s)
                    F.m(s)
                elif k == "v":
                    self.sep_if_needed_dq(F, "&")
                    self.mvar(F, dots=2)
                    has_macro = True
                else:
                    self.sep_if_needed_dq(F, "%")
                    self.callish(F, lvl + 1, where="dq")
                    has_macro = True
        if F.last in "&%" or F.noparen:
            F.m(" ")
        F.t('"' + sfx)
        F.endq = True

    def sep_if_needed_dq(self, F, nxt):
        c = nxt[0]
        if (is_namechar(F.last) and is_namechar(c)) or (F.last == "&" and (is_namestart(c) or c == "&")) or (F.last == "%" and (is_namestart(c) or c == "*")):
            F.t(" ")

    # ---------------------------------------------------------------- nesting control
    def can_nest(self, lvl):
        return lvl < self.depth

    def touch(self, F, lvl):
        if lvl > F.maxlvl:
            F.maxlvl = lvl

    # ---------------------------------------------------------------- calls
    def callish(self, F, lvl, where):
        """user call | built-in | %str/%nrstr  (where: ostmt dq mtext argval group eval nameexpr qtext sysfunc_name)"""
        self.touch(F, lvl)
        in_name = where in ("nameexpr", "sysfunc_name")
        k = self.wch([(5, "user"), (5, "builtin"), (0 if in_name else 1.5, "str")])
        if k == "user":
            self.usercall(F, lvl, allow_parenless=(where != "sysfunc_name"))
        elif k == "str":
            self.strcall(F, lvl)
        else:
            self.builtin(F, lvl, in_name)

    def usercall(self, F, lvl, allow_parenless=True):
        self.touch(F, lvl)
        F.t("%" + self.uname())
        if allow_parenless and self.p(0.3):
            F.noparen = True
            return
        self.h(F, p_some=0.2)
        F.d("(", "LPAREN")
        self.h(F, p_some=0.3)
        self.arglist(F, lvl)
        F.closes.append((F.n, "call)"))
        F.d(")", "RPAREN")

    def arglist(self, F, lvl):
        n = self.wch([(1, 0), (5, 1), (4, 2), (2, 3), (1, 4)])
        for i in range(n):
            if i:
                F.d(",", "COMMA")
                self.h(F, p_some=0.4)
            k = self.wch([(1, "empty"), (6, "pos"), (4, "named")])
            if k == "pos":
                self.argval(F, lvl, "pos")
            elif k == "named":
                F.t(self.vname())
                self.h(F, p_some=0.25)
                F.d("=", "ASSIGN")
                self.h(F, p_some=0.25)
                if self.p(0.85):
                    self.argval(F, lvl, "free")

    ARG_WORDS = ["a", "abc", "x1", "1", "2.5", "a-b", "lib.ds", "x+y", "é", "a:b", "#", "@x", "a/b", "-1", "$5.", "~", "a|b", "<", ">", "100%", "x&", "dsn", "_all_", "0"]
    ARG_EQ_WORDS = ["=1", "k=v", "=", "a=b=c"]
    GROUP_WORDS = ["a", "b c", "1", ",", "=", ";", "a,b", "x=1", "k=v;", ", ", "-", "é", "lib.ds", ",,", "a;b"]

    def argval(self, F, lvl, kind):
        """argval ::= (word | '(' argval_in ')' | sq | dq | mvar | call | strcall | ws | cstyle)*   (',' only inside parens)
        kind 'pos': positional argument in a MacroCall context: must not look like `name h =`;
        kind 'free': value after `=`, built-in argument, parameter default.
        The caller has emitted the leading h: the value does not start with whitespace/comment."""
        n = self.wch([(1, 0), (6, 1), (4, 2), (2, 3), (1, 4)])
        start = F.n
        # A positional argument of a MacroCall context is first read as a possible argument NAME: name characters
        # and macro variables, optionally one trailing call, then h; a '=' seen there makes it a named argument.
        # Anything else (or a non-'=' after the h) switches (rolls back) to value mode, where '=' is plain text.
        # eq_ok: value mode has certainly been entered;  gap: blanks/comment/call seen while still in the name phase
        eq_ok = kind == "free"
        gap = False
        for i in range(n):
            k = self.wch([(8, "word"), (2.5, "group"), (1.5, "sq"), (1.5, "dq"), (2.5, "mvar"), (3 if self.can_nest(lvl) else 0, "call"), (0.7 if i else 0, "ws"), (0.5 if i else 0, "cmt")])
            p0 = len(F.p)
            if k == "word":
                w = self.ch(self.ARG_EQ_WORDS) if (eq_ok and self.p(0.2)) else self.ch(self.ARG_WORDS)
                if i:
                    if self.p(0.4):
                        self.ws(F)
                    self.sep_if_needed(F, w)
                # a top-level '=' inside a value is plain text as well: recorded as masked (extension of DESIGN's list)
                F.m(w) if "=" in w else F.t(w)
            elif k == "group":
                if i and self.p(0.3):
                    self.ws(F)
                self.group(F, lvl)
            elif k == "sq":
                self.sep_if_needed(F, "'")
                self.sq(F)
            elif k == "dq":
                self.sep_if_needed(F, '"')
                self.dq(F, lvl, call_ok=self.can_nest(lvl))
            elif k == "mvar":
                self.sep_if_needed(F, "&")
                self.mvar(F, dots=2)
            elif k == "call":
                self.sep_if_needed(F, "%")
                self.callish(F, lvl + 1, "argval")
            elif k == "ws":
                self.ws(F)
            else:
                F.t(self.cstyle_text(), keep=True)
            if not eq_ok:
                seg = "".join(F.p[p0:])
                if i and (seg[:1].isspace() or seg.startswith("/*")):
                    gap = True
                if k in ("group", "sq", "dq"):
                    eq_ok = True
                elif k in ("ws", "cmt"):
                    gap = True
                elif k == "call":
                    # a call with arguments / a built-in ends the name phase (the '=' check follows its ')');
                    # a paren-less user call rolls back and the name phase simply continues
                    if gap:
                        eq_ok = True
                    elif not F.noparen:
                        gap = True
                elif k == "mvar":
                    if gap:
                        eq_ok = True
                elif gap or not all(is_namechar(c) for c in seg) or (i == 0 and seg[0].isdigit()):
                    eq_ok = True
        if F.n > start and self.p(0.12):
            self.ws(F)
        if F.last in "&%" and F.n > start:
            F.t(" ")

    def group(self, F, lvl, d=0):
        """'(' argval_in ')' : everything inside is masked"""
        F.m("(")
        for i in range(self.wch([(1, 0), (5, 1), (4, 2), (2, 3)])):
            k = self.wch([(8, "word"), (1.5 if d < 2 else 0, "group"), (1, "sq"), (1, "dq"), (1.5, "mvar"), (2 if self.can_nest(lvl) else 0, "call"), (0.5, "cmt")])
            if k == "word":
                w = self.ch(self.GROUP_WORDS)
                self.sep_if_needed(F, w)
                F.m(w)
            elif k == "group":
                self.group(F, lvl, d + 1)
            elif k == "sq":
                self.sep_if_needed(F, "'")
                self.sq(F)
            elif k == "dq":
                self.sep_if_needed(F, '"')
                self.dq(F, lvl, call_ok=self.can_nest(lvl))
            elif k == "mvar":
                self.sep_if_needed(F, "&")
                self.mvar(F, dots=2)
            elif k == "call":
                self.sep_if_needed(F, "%")
                self.callish(F, lvl + 1, "group")
            else:
                F.t(self.cstyle_text(), keep=True)
        if F.last in "&%":
            F.m(" ")
        F.noparen = False
        # c14 truncation right before this nested ')': at least d + 2 parentheses are then open at end of input
        # (this group, the d groups around it, the argument list that contains the value)
        F.closes.append((F.n, "group)%d" % (d + 2)))
        F.m(")")

    # ---------------------------------------------------------------- %str / %nrstr
    QWORDS = ["a", "b c", " ", "x=1", ",", ";", "a;b", "=", "1,2", "é", "run;", "-", ".", "a b ", "  ", "/"]

    def strcall(self, F, lvl):
        self.touch(F, lvl)
        nr = self.p(0.4)
        name = self.case("nrstr" if nr else "str")
        F.t("%" + name)
        self.h(F, p_some=0.15)
        F.dels.append((F.n, "LPAREN", "MissingExpectedLParen", "%" + name.lower() + "(", None))
        F.d("(", "LPAREN")
        self.qtext(F, lvl, nr, 0)
        F.closes.append((F.n, "%" + name.lower() + ")"))
        F.d(")", "RPAREN")

    def qtext(self, F, lvl, nr, d):
        for i in range(self.wch([(1, 0), (5, 1), (4, 2), (2, 3), (1, 4)])):
            k = self.wch([(8, "word"), (2, "esc"), (1.5 if d < 2 else 0, "group"), (1, "sq"), (1, "dq"), (2, "mvar"), (2, "call"), (0.4, "cmt")])
            if k == "word":
                w = self.ch(self.QWORDS)
                self.sep_if_needed(F, w)
                F.m(w)
            elif k == "esc":
                e = self.ch(["%'", '%"', "%%", "%(", "%)"])
                F.noparen = False
                F.m(e)
                if e == "%%":
                    F.last = " "      # the pair is consumed as one unit: nothing can fuse with it
            elif k == "group":
                F.m("(")
                self.qtext(F, lvl, nr, d + 1)
                if F.last in "&%":
                    F.m(" ")
                F.noparen = False
                F.m(")")
            elif k == "sq":
                self.sep_if_needed(F, "'")
                self.sq(F, suffix=False)
            elif k == "dq":
                self.sep_if_needed(F, '"')
                if nr:
                    F.t('"')
                    # NB: the lexer does not carry %nrstr's masking into a "..." inside it (`&a` / `%m(1)` there are
                    # lexed as macro triggers), so only trigger-free text is generated here
                    F.m(self.ch(["a", "x;y", "a,b", "(", "& a", "50% off", ""]))
                    F.t('"')
                    F.endq = True
                else:
                    self.dq(F, lvl, suffix=False, call_ok=self.can_nest(lvl))
            elif k == "mvar":
                if nr:
                    self.sep_if_needed(F, "&")
                    F.m("&" + self.vname() + self.ch(["", "."]))
                else:
                    self.sep_if_needed(F, "&")
                    self.mvar(F, dots=2)
            elif k == "call":
                if nr:
                    self.sep_if_needed(F, "%")
                    F.m("%" + self.uname() + self.ch(["", "(a,b)", "(x=1;)", " (1)"]))
                elif self.can_nest(lvl):
                    self.sep_if_needed(F, "%")
                    self.callish(F, lvl + 1, "qtext")
            else:
                F.t(self.cstyle_text(), keep=True)
        if d == 0:
            if F.last in "&%":
                F.m(" ")
            F.noparen = False

    # ---------------------------------------------------------------- built-ins
    def builtin(self, F, lvl, in_name=False):
        self.touch(F, lvl)
        fam = self.wch([(3, "eval"), (2, "scan"), (2, "substr"), (3, "onearg"), (2, "listarg"), (1.5, "namedarg"), (2.5, "sysfunc"), (0.2, "noarg")])
        if fam == "noarg":
            F.t("%" + self.case("sysmexecdepth"))
            return
        if fam == "onearg":
            name = self.ch([x for x in ONEARG if not (in_name and x in QUOTE_TYPE)])
        else:
            name = self.ch({"eval": EVALFN, "scan": SCANFN, "substr": SUBSTRFN, "listarg": LISTARG, "namedarg": NAMEDARG, "sysfunc": SYSFUNC}[fam])
        F.t("%" + self.case(name))
        self.h(F, p_some=0.15)
        F.dels.append((F.n, "LPAREN", "MissingExpectedLParen", "%" + name + "(", None))
        F.d("(", "LPAREN")
        self.h(F, p_some=0.3)
        if fam == "eval":
            self.evalexpr(F, lvl, float_mode=(name == "sysevalf"))
            if name == "sysevalf" and self.p(0.3):
                F.d(",", "COMMA")
                self.h(F, p_some=0.3)
                F.t(self.ch(["boolean", "ceil", "floor", "integer"])) if self.p(0.7) else self.argval(F, lvl, "free")
        elif fam in ("scan", "substr"):
            self.argval(F, lvl, "free")
            comma = F.n
            F.d(",", "COMMA")
            self.h(F, p_some=0.4)
            self.evalexpr(F, lvl)
            nargs = 2
            if self.p(0.5):
                nargs = 3
                F.d(",", "COMMA")
                self.h(F, p_some=0.4)
                if fam == "scan":
                    self.argval(F, lvl, "free")
                    while self.p(0.2):
                        F.d(",", "COMMA")
                        self.h(F, p_some=0.4)
                        self.argval(F, lvl, "free")
                else:
                    self.evalexpr(F, lvl)
            if nargs == 2:
                # c14: `at` is the closing paren (see module docstring); extra = offset of that paren
                F.dels.append((comma, "COMMA", "MissingExpectedComma", "%" + name + ",", F.n))
        elif fam == "onearg":
            self.argval(F, lvl, "free")
        elif fam == "listarg":
            self.argval(F, lvl, "free")
            while self.p(0.3):
                F.d(",", "COMMA")
                self.h(F, p_some=0.4)
                self.argval(F, lvl, "free")
        elif fam == "namedarg":
            self.arglist(F, lvl)
        else:
            self.sysfunc_body(F, lvl)
        F.closes.append((F.n, "%" + name + ")"))
        F.d(")", "RPAREN")

    def sysfunc_body(self, F, lvl):
        # nameexpr h '(' h (evalexpr (',' h evalexpr)*)? ')' h (',' h argval)?
        if self.p(0.85) or not self.can_nest(lvl):
            F.t(self.ch(SFUNCS))
            if self.p(0.1):
                F.t("&" + self.vname() + self.ch(["", "."]))
        else:
            self.nameexpr(F, lvl, "sysfunc_name")
        self.h(F, p_some=0.15)
        F.d("(", "LPAREN")
        self.h(F, p_some=0.3)
        n = self.wch([(2, 0), (5, 1), (4, 2), (2, 3)])
        for i in range(n):
            if i:
                F.d(",", "COMMA")
                self.h(F, p_some=0.4)
            self.evalexpr(F, lvl, float_mode=True)
        F.closes.append((F.n, "sysfunc-inner)"))
        F.d(")", "RPAREN")
        self.h(F, p_some=0.15)
        if self.p(0.3):
            F.d(",", "COMMA")
            self.h(F, p_some=0.3)
            if self.p(0.7):
                F.t(self.ch(FORMATS))
            else:
                self.argval(F, lvl, "free")

    # ---------------------------------------------------------------- name expressions
    def nameexpr(self, F, lvl, where="nameexpr", allow_call_first=True, force_call_first=False):
        """nameexpr ::= (name-ish word | mvar | call)+   -- no blanks inside; pieces must not fuse"""
        self.touch(F, lvl)
        k = "call" if force_call_first else self.wch([(10, "name"), (3, "name&"), (2, "&"), (2, "&.name"), (1.5, "mix"), (1.5 if self.can_nest(lvl) else 0, "call")])
        if k == "name":
            F.t(self.vname())
        elif k == "name&":
            F.t(self.vname())
            self.mvar(F, dots=1)
        elif k == "&":
            self.mvar(F, dots=1)
        elif k == "&.name":
            F.t("&" + self.vname() + ".")
            F.t(self.ch(["x", "_1", "9", "name"]))
        elif k == "mix":
            F.t(self.ch(["pre_", "v"]))
            F.t("&" * self.wch([(3, 1), (1, 2)]) + self.vname() + ".")
            F.t(self.ch(["_s", "2", "x"]))
            if self.p(0.4):
                self.mvar(F, dots=1)
        else:
            first = force_call_first or (allow_call_first and self.p(0.5))
            if not first:
                F.t(self.vname())
            self.nameexpr_call(F, lvl, where)
            if self.p(0.3) and F.last in ").":
                F.t(self.ch(["_x", "1", "n"]))
            elif F.last not in ")." and self.p(0.5):
                # an argument-less call continued by a macro variable reference: `%m&i`, `%pre&i._x`
                self.mvar(F, dots=1)
                if self.p(0.3) and F.last == ".":
                    F.t(self.ch(["_x", "1", "n"]))

    def nameexpr_call(self, F, lvl, where):
        k = self.wch([(5, "user"), (4, "builtin")])
        if k == "user":
            self.usercall(F, lvl + 1, allow_parenless=(where != "sysfunc_name"))
        else:
            self.builtin(F, lvl + 1, in_name=True)

    # ---------------------------------------------------------------- macro expressions
    def gap(self, F, kind, need=False):
        """h between an operand and the following operator / terminator.  Only what the lexer really
        hides is recorded: after a ')' everything; otherwise comments and the blank run that directly
        precedes the operator (a blank run before a comment is glued to the operand's text).
        Returns True iff the gap contains a comment."""
        r = self.r.random()
        if r < 0.45 and not need:
            return False
        if r < 0.88:
            self.ws(F, hidden=True)
            return False
        allh = kind == "group"
        if self.p(0.5):
            self.ws(F, hidden=allh)
        for i in range(self.wch([(4, 1), (1, 2)])):
            if i and self.p(0.5):
                self.ws(F, hidden=allh)
            a = F.n
            F.t(self.cstyle_text(), keep=True)
            F.hidden.append((a, F.n))
        if self.p(0.5):
            self.ws(F, hidden=True)
        return True

    def operand(self, F, lvl, float_mode, d):
        k = self.wch([(5, "int"), (3, "word"), (3, "mvar"), (2.5 if self.can_nest(lvl) else 0, "call"), (1.5 if d < 2 else 0, "group"), (1, "sq"), (1, "dq"),
                      (2 if float_mode else 0.3, "float")])
        off = None
        if k == "int":
            off = F.n
            F.t(self.wch([(8, self.ch(["0", "1", "2", "3", "10", "42", "007", "100", "65535"])), (1, self.ch(["0FFx", "1fx", "9X"]))]))
        elif k == "float":
            F.t(self.ch(["1.5", ".5", "2.", "1e3", "2.5E-2", "0.1"]))
        elif k == "word":
            F.t(self.ch(EVAL_WORDS))
        elif k == "mvar":
            self.mvar(F, dots=1)
        elif k == "call":
            self.callish(F, lvl + 1, "eval")
        elif k == "group":
            F.d("(", "LPAREN")
            self.h(F, p_some=0.3)
            self.evalexpr(F, lvl, float_mode, d + 1)
            F.d(")", "RPAREN")
        elif k == "sq":
            self.sq(F)
        else:
            self.dq(F, lvl, call_ok=self.can_nest(lvl))
        return k, off

    def evalexpr(self, F, lvl, float_mode=False, d=0):
        """evalexpr ::= operand (h op h operand)*  followed by the h before the terminator"""
        kind, off = self.operand(F, lvl, float_mode, d)
        for _ in range(self.wch([(4, 0), (5, 1), (2, 2), (1, 3)])):
            mn = self.p(0.35)
            op, tok = self.ch(EVAL_MNEMONICS) if mn else self.wch([(3 if o in "+-*/=<>" else 1, (o, t)) for o, t in EVAL_SYM_OPS])
            if mn:
                op = self.case(op)
            cmt = self.gap(F, kind, need=(mn and kind != "group"))
            if off is not None and not cmt:
                F.delims.append((off, "IntegerLiteral"))
            F.d(op, tok)
            s = self.h(F, p_some=0.45)
            G = Frag()
            kind, off = self.operand(G, lvl, float_mode, d)
            first = G.text()[0]
            if not s and ((mn and is_namechar(first)) or (op == "&" and (is_namestart(first) or first == "&"))):
                self.ws(F, hidden=True)
            if off is not None:
                off += F.n
            F.noparen = False
            F.extend(G)
        cmt = self.gap(F, kind)
        if off is not None and not cmt:
            F.delims.append((off, "IntegerLiteral"))

    # ---------------------------------------------------------------- text of %let / %put
    MWORDS = ["abc", "x=1", "a,b", "(", ")", "1+2", "hello world", "NOTE:", "50%", "a&", "-", "é日本", ".", "*", "/", "#1", "$", "@", "?", "!", "<>", "|", "value", "1", "=", "(a b)"]

    def mtext(self, F, lvl):
        """mtext ::= (word | ws | sq | dq | mvar | call | cstyle)*   -- no ';'; does not start with hidden stuff"""
        for i in range(self.wch([(1, 0), (5, 1), (4, 2), (3, 3), (1, 5)])):
            k = self.wch([(8, "word"), (1.5, "sq"), (1.5, "dq"), (3, "mvar"), (3 if self.can_nest(lvl) else 0, "call"), (1 if i else 0, "ws"), (0.6 if i else 0, "cmt")])
            if k == "word":
                w = self.ch(self.MWORDS)
                if i and self.p(0.5):
                    self.ws(F)
                self.sep_if_needed(F, w)
                F.t(w)
            elif k == "sq":
                self.sep_if_needed(F, "'")
                self.sq(F)
            elif k == "dq":
                self.sep_if_needed(F, '"')
                self.dq(F, lvl, call_ok=self.can_nest(lvl))
            elif k == "mvar":
                self.sep_if_needed(F, "&")
                self.mvar(F, dots=2)
            elif k == "call":
                self.sep_if_needed(F, "%")
                self.callish(F, lvl + 1, "mtext")
            elif k == "ws":
                self.ws(F)
            else:
                F.t(self.cstyle_text(), keep=True)

    def kw(self, F, word, G=None, hidden=True, **kwargs):
        """emit `%word h` where h is forced to be non-empty when the text that follows (fragment G or
        the string G) starts with a name character; then append G"""
        F.t("%" + self.case(word))
        nxt = G.text() if isinstance(G, Frag) else (G or "")
        s = self.h(F, hidden=hidden, **kwargs)
        if not s and nxt and is_namechar(nxt[0]):
            self.ws(F, hidden=hidden)
        if isinstance(G, Frag):
            F.extend(G)
        elif G:
            F.t(G)

    # ---------------------------------------------------------------- open-code statements, comments, datalines
    def ostmt(self, F, lvl):
        """ostmt ::= otok (sep otok)* sep? ';'   (first otok is not '*', no datalines word)"""
        self.touch(F, lvl)
        n = self.wch([(2, 1), (3, 2), (4, 3), (3, 4), (2, 6)])
        pending = False    # the lexer's "a statement has started" flag: macro calls do not set it, and a '*' seen
        #                    while it is clear starts a star comment (side condition on ostmt, see report)
        for i in range(n):
            k = self.wch([(6, "ident"), (3, "kw"), (2.5, "num"), (1.5, "sq"), (1.5, "dq"), (3 if i else 0.5, "sym"), (2, "mvar"), (3 if self.can_nest(lvl) else 0, "call"), (1, "paren")])
            G = Frag()
            if k == "ident":
                G.t(self.ch(IDENTS))
            elif k == "kw":
                G.t(self.case(self.ch(OKW)))
            elif k == "num":
                G.t(self.ch(NUMBERS))
            elif k == "sq":
                self.sq(G)
            elif k == "dq":
                self.dq(G, lvl, call_ok=self.can_nest(lvl))
            elif k == "sym":
                G.t(self.ch([x for x in SYMBOLS if pending or x[0] != "*"]))
            elif k == "mvar":
                self.mvar(G, dots=2)
            elif k == "call":
                self.callish(G, lvl + 1, "ostmt")
            else:
                G.t("(" + self.ch(["x", "a, b", "1", "a=1", "i+1", ""]) + ")")
            if k != "call":
                pending = True
            if i:
                if self.p(0.7):
                    if self.p(0.15):
                        F.t(self.cstyle_text(), keep=True)
                    else:
                        self.ws(F)
                self.sep_if_needed(F, G.text())
            F.extend(G)
        if self.p(0.15):
            self.ws(F)
        if F.last in "&%":
            F.t(" ")
        F.noparen = False
        F.t(";")
        self.after_semi = True

    def starcmt(self, F):
        body = "".join(self.wch([(6, self.ch([" comment", " a b c", " 1", " x=1", "*", " ---- ", "é日本"])), (1, " it's"), (1, ' "q'), (1, " /* c */"), (1, "\n more"), (1, " (a,b"),
                                 (1 if self.macro_level == 0 else 0, " %let x=1"), (1 if self.macro_level == 0 else 0, " %m(1)"), (1, " &a"), (1, " 50% "), (0.5, "")])
                       for _ in range(self.r.randint(0, 3)))
        F.t("*" + body + ";")

    def mcmt(self, F):
        body = "".join(self.wch([(6, self.ch([" comment", " a b", " x=1", " %let y=2", " &a", "é"])), (1, " 'a;b'"), (1, ' "x;y"'), (1, " it''s"), (1, " /* c */"), (1, "\n l2"), (0.5, "")])
                       for _ in range(self.r.randint(0, 3)))
        F.t("%*" + body + ";")

    def dlblock(self, F):
        four = self.p(0.35)
        w = self.case(self.ch(["datalines", "cards", "lines"])) + ("4" if four else "")
        F.t(w)
        F.t(self.ch(["", "", " ", "\n", "  "]), keep=True)
        F.t(";")
        lines = []
        for _ in range(self.r.randint(0, 3)):
            lines.append(self.ch(["1 2 3", "a,b,c", "x 'y", 'he said "hi', "%let a=1", "&x /* not a comment", "é日本", "", "* star", "(1"]) + (self.ch([";", "; ;", ";;;"]) + " z" if four and self.p(0.3) else ""))
        F.t("\n" + "\n".join(lines) + ("\n" if lines or self.p(0.5) else ""))
        F.t(";;;;" if four else ";")
        self.after_semi = True

    # ---------------------------------------------------------------- macro statements
    def let(self, F, lvl):
        G = Frag()
        self.nameexpr(G, lvl)
        self.kw(F, "let", G)
        ne = F.n
        self.h(F, p_some=0.3)
        F.dels.append((F.n, "ASSIGN", "MissingExpectedAssign", "%let=", ne))
        F.d("=", "ASSIGN")
        self.h(F, p_some=0.3)
        self.mtext(F, lvl)
        F.noparen = False
        F.t(";")
        self.after_semi = True

    def put(self, F, lvl):
        G = Frag()
        self.mtext(G, lvl)
        self.kw(F, self.ch(["put", "put", "sysexec"]), G, p_some=0.9)
        F.noparen = False
        F.t(";")
        self.after_semi = True

    def locglob(self, F, lvl):
        self.kw(F, self.ch(["local", "global"]), self.vname(), must=True)
        for _ in range(self.wch([(4, 0), (3, 1), (2, 2)])):
            self.ws(F, hidden=True)
            F.t(self.vname())
        self.ws(F, hidden=True, must=False)
        F.t(";")
        self.after_semi = True

    def goto(self, F, lvl):
        G = Frag()
        k = self.wch([(6, "n"), (2, "v"), (1 if self.can_nest(lvl) else 0, "c")])
        if k == "n":
            G.t(self.uname())
        elif k == "v":
            self.mvar(G, dots=1)
        else:
            self.usercall(G, lvl + 1)
        self.kw(F, "goto", G, must=True)
        self.h(F, p_some=0.2)
        F.noparen = False
        F.t(";")
        self.after_semi = True

    def ret(self, F, lvl):
        self.kw(F, "return", None, p_some=0.2)
        F.dels.append((F.n, "SEMI", "MissingExpectedSemiOrEOF", "%return;", None))
        F.t(";")
        self.after_semi = True

    def copy(self, F, lvl):
        G = Frag()
        self.nameexpr(G, lvl)
        self.kw(F, "copy", G, must=True)
        ne = F.n
        self.h(F, p_some=0.5)
        F.dels.append((F.n, "FSLASH", "MissingExpectedFSlash", "%copy/", ne))
        F.noparen = False
        F.t("/")
        self.h(F, p_some=0.6)
        F.t(self.ch(["source", "src", "lib=work source", "source out='f.sas'", "library=mylib src", "", "outfile=\"o;x\" source"]))
        F.t(";")
        self.after_semi = True

    def label(self, F, lvl):
        F.t("%" + self.uname())
        self.h(F, p_some=0.2)
        F.t(":")
        self.after_semi = False

    def ifstmt(self, F, lvl, d=0):
        G = Frag()
        self.evalexpr(G, lvl)
        self.kw(F, "if", G, p_some=0.9)
        self.branch(F, lvl, "then", d)
        if self.p(0.45):
            self.h(F, hidden=False, p_some=0.8)
            self.branch(F, lvl, "else", d)

    def branch(self, F, lvl, word, d):
        """'%then' h branch ; branch ::= mstmt | doblock | ostmt"""
        k = self.wch([(4, "ostmt"), (3, "let"), (2, "put"), (4 if self.can_nest(lvl) else 1, "do"), (1, "goto"), (1, "return"), (0.5, "locglob"), (1 if d < 2 else 0, "if"), (0.3, "copy")])
        G = Frag()
        if k == "ostmt":
            self.ostmt(G, lvl)
        elif k == "let":
            self.let(G, lvl)
        elif k == "put":
            self.put(G, lvl)
        elif k == "do":
            self.doblock(G, lvl)
        elif k == "goto":
            self.goto(G, lvl)
        elif k == "return":
            self.ret(G, lvl)
        elif k == "locglob":
            self.locglob(G, lvl)
        elif k == "copy":
            self.copy(G, lvl)
        else:
            self.ifstmt(G, lvl, d + 1)
        self.kw(F, word, G, p_some=0.9)

    def doblock(self, F, lvl):
        self.touch(F, lvl)
        form = self.wch([(3, "plain"), (4, "iter"), (3, "cond")])
        if form == "plain":
            self.kw(F, "do", None, p_some=0.15)
            F.t(";")
        elif form == "iter":
            G = Frag()
            # `%do %m(..)=1 %to 3;` (the loop variable starts with a call) was defect F1/F3/F4 of the original tree
            self.nameexpr(G, lvl, "do", force_call_first=self.p(0.08))
            self.kw(F, "do", G, must=True)
            ne = F.n
            self.h(F, p_some=0.3)
            F.dels.append((F.n, "ASSIGN", "MissingExpectedAssign", "%do=", ne))
            F.d("=", "ASSIGN")
            self.h(F, p_some=0.3)
            self.evalexpr(F, lvl)
            G = Frag()
            self.evalexpr(G, lvl)
            self.kw(F, "to", G, p_some=0.9)
            if self.p(0.35):
                G = Frag()
                self.evalexpr(G, lvl)
                self.kw(F, "by", G, p_some=0.9)
            F.noparen = False
            F.t(";")
        else:
            w = self.ch(["while", "until"])
            self.kw(F, "do", None, p_some=0.8)
            self.kw(F, w, None, p_some=0.2)
            F.d("(", "LPAREN")
            self.h(F, p_some=0.3)
            self.evalexpr(F, lvl)
            F.closes.append((F.n, "%do %" + w + ")"))
            F.d(")", "RPAREN")
            self.h(F, p_some=0.25)
            F.dels.append((F.n, "SEMI", "MissingExpectedSemiOrEOF", "%do %" + w + "();", None))
            F.t(";")
        self.after_semi = True
        self.items(F, lvl + 1, self.wch([(1, 0), (4, 1), (4, 2), (2, 3)]))
        self.h(F, hidden=False, p_some=0.7)
        self.kw(F, "end", None, p_some=0.15)
        F.dels.append((F.n, "SEMI", "MissingExpectedSemiOrEOF", "%end;", None))
        F.t(";")
        self.after_semi = True

    def mdef(self, F, lvl):
        self.touch(F, lvl)
        name = self.uname()
        self.kw(F, "macro", name, must=True)
        self.h(F, p_some=0.2)
        if self.p(0.7):
            F.d("(", "LPAREN")
            self.h(F, p_some=0.3)
            n = self.wch([(1, 0), (4, 1), (4, 2), (2, 3), (1, 4)])
            for i in range(n):
                if i:
                    F.d(",", "COMMA")
                    self.h(F, p_some=0.4)
                F.t(self.vname())
                self.h(F, p_some=0.2)
                if self.p(0.45):
                    F.d("=", "ASSIGN")
                    self.h(F, p_some=0.25)
                    if self.p(0.8):
                        self.argval(F, lvl, "free")
            F.closes.append((F.n, "%macro)"))
            F.d(")", "RPAREN")
            self.h(F, p_some=0.2)
        if self.p(0.3):
            F.noparen = False
            F.t("/")
            for _ in range(self.r.randint(1, 3)):
                self.h(F, must=True, p_comment=0.1)
                F.t(self.ch(MOPTS))
            self.h(F, p_some=0.2)
        F.t(";")
        self.after_semi = True
        self.macro_level += 1
        self.items(F, lvl + 1, self.wch([(1, 0), (3, 1), (4, 2), (3, 3), (1, 4)]))
        self.h(F, hidden=False, p_some=0.8)
        self.kw(F, "mend", name if self.p(0.6) else None, p_some=0.2)
        self.h(F, p_some=0.15)
        F.t(";")
        self.macro_level -= 1
        self.after_semi = True

    # ---------------------------------------------------------------- items / program
    def item_weights(self, lvl):
        nest = self.can_nest(lvl)
        c13 = self.mode == "c13"
        c14 = self.mode == "c14"
        return [(1.0, "cstyle"), (1.2, "starcmt"), (1.0, "mcmt"), (5 if c13 else 4, "ostmt"),
                (1.0 if self.after_semi and not c13 else 0, "dlblock"), (4, "let"), (3, "put"), (0.8, "locglob"), (0.8, "goto"), (1.5 if c14 else 0.6, "return"),
                (3 if nest else 1, "if"), (3.5 if nest else 0.5, "do"), (3 if nest else 0.3, "mdef"), (0.5, "label"), (1.5 if c14 else 0.5, "copy")]

    def item(self, F, lvl):
        k = self.wch(self.item_weights(lvl))
        if k == "cstyle":
            F.t(self.cstyle_text(), keep=True)
        elif k == "starcmt":
            self.starcmt(F)
        elif k == "mcmt":
            self.mcmt(F)
        elif k == "ostmt":
            self.ostmt(F, lvl)
        elif k == "dlblock":
            self.dlblock(F)
        elif k == "let":
            self.let(F, lvl)
        elif k == "put":
            self.put(F, lvl)
        elif k == "locglob":
            self.locglob(F, lvl)
        elif k == "goto":
            self.goto(F, lvl)
        elif k == "return":
            self.ret(F, lvl)
        elif k == "if":
            self.ifstmt(F, lvl)
        elif k == "do":
            self.doblock(F, lvl)
        elif k == "mdef":
            self.mdef(F, lvl)
        elif k == "label":
            self.label(F, lvl)
        else:
            self.copy(F, lvl)
        return k

    def items(self, F, lvl, n, stats=None):
        self.touch(F, lvl)
        for i in range(n):
            if self.p(0.75):
                F.t(self.wch([(5, " "), (5, "\n"), (2, "\n\n"), (2, "\n    "), (1, "\t")]), keep=True)
            F.noparen = False
            k = self.item(F, lvl)
            if stats is not None:
                stats[k] += 1

    def program(self, stats):
        F = Frag()
        self.after_semi = True
        self.macro_level = 0
        self.items(F, 0, self.wch([(3, 1), (4, 2), (4, 3), (2, 4), (1, 6)]), stats)
        if self.p(0.4):
            F.t(self.ch(["\n", " ", "\n\n", "\n/* end */\n"]), keep=True)
        return F


# --------------------------------------------------------------------------------------------
# output

def skip_h(s, i):
    """first offset >= i in s that is not inside a maximal run of (whitespace | /*...*/)"""
    n = len(s)
    while i < n:
        if s[i].isspace():
            i += 1
        elif s.startswith("/*", i):
            j = s.find("*/", i + 2)
            if j < 0:
                return n
            i = j + 2
        else:
            break
    return i


DELCH = {"ASSIGN": "=", "LPAREN": "(", "COMMA": ",", "FSLASH": "/", "SEMI": ";", "RPAREN": ")"}


def mutations(F):
    """all eligible single deletions of F: (mutated text, error, at (char offset), token, what)"""
    s = F.text()
    out = []
    for off, tok, err, what, extra in F.dels:
        assert s[off] == DELCH[tok], (s, off, tok)
        m = s[:off] + s[off + 1:]
        if tok == "COMMA":
            at = extra - 1
        else:
            at = skip_h(m, off)
            if at < len(m) and m[at] == DELCH[tok]:
                continue
            if tok == "SEMI" and at >= len(m):
                continue
            nxt = m[at] if at < len(m) else ""
            if at == off and off > 0 and is_namechar(m[off - 1]) and is_namechar(nxt):
                continue      # `%eval(x)` -> `%evalx)`, `%end;d` -> `%endd`: the keyword fuses with what follows
            if tok in ("ASSIGN", "FSLASH"):
                # The delimiter follows a name expression (extra = its end).  A name expression ends at the first
                # blank; comments do not end it.  Without a blank between the name and the text after the deleted
                # delimiter the name simply continues (`%let a=1;` -> `%let a1;`, `%let a/**/=&b;` -> name `a&b`),
                # so there is no "place where the delimiter should have been".
                gap = re.sub(r"/\*.*?\*/", "", m[extra:at], flags=re.S)
                if not any(c.isspace() for c in gap) and (is_namechar(nxt) or nxt in "&%."):
                    continue
                if nxt == "(" and re.search(r"%\w+$", m[:extra]):
                    continue  # `%let %m =(x);` -> `%m (x)` : the '(' becomes the argument list of the paren-less call
        out.append((m, err, at, tok, what))
    for off, what in F.closes:
        assert s[off] == ")", (s, off)
        m = s[:off]
        out.append((m, "MissingExpectedRParen", len(m), "RPAREN", what))
    return out


def open_count(what):
    """lower bound on the number of ')' owed at end of input after a c14 truncation (1 unless inside nested groups)"""
    return int(what[6:]) if what.startswith("group)") else 1


def boff(s):
    """char offset -> byte offset table"""
    t = [0] * (len(s) + 1)
    b = 0
    for i, c in enumerate(s):
        t[i] = b
        o = ord(c)
        b += 1 if o < 0x80 else 2 if o < 0x800 else 3 if o < 0x10000 else 4
    t[len(s)] = b
    return t


def merge_ranges(rs):
    out = []
    for a, b in sorted(rs):
        if a >= b:
            continue
        if out and a <= out[-1][1]:
            out[-1][1] = max(out[-1][1], b)
        else:
            out.append([a, b])
    return out


def main():
    ap = argparse.ArgumentParser()
    ap.add_argument("--seed", type=int, default=0)
    ap.add_argument("-n", type=int, default=100)
    ap.add_argument("--depth", type=int, default=3)
    ap.add_argument("--mode", choices=["c12", "c13", "c14"], required=True)
    a = ap.parse_args()
    rng = random.Random(a.seed * 1000003 + {"c12": 12, "c13": 13, "c14": 14}[a.mode])
    g = Gen(rng, a.depth, a.mode)
    stats = collections.Counter()
    depth_h = collections.Counter()
    len_h = collections.Counter()
    what_h = collections.Counter()
    out = sys.stdout
    k = 0
    tries = 0
    while k < a.n:
        tries += 1
        st = collections.Counter()
        F = g.program(st)
        s = F.text()
        rec = None
        if a.mode == "c12":
            rec = {"hex": s.encode("utf-8").hex()}
        elif a.mode == "c13":
            if not F.delims:
                continue
            t = boff(s)
            rec = {"hex": s.encode("utf-8").hex(), "delims": sorted([t[o], ty] for o, ty in F.delims), "masked": sorted(t[o] for o in F.masked),
                   "hidden": [[t[x], t[y]] for x, y in merge_ranges(F.hidden)]}
        else:
            ms = mutations(F)
            if not ms:
                continue
            # prefer the rarer constructs: choose the construct first, then an occurrence
            whats = sorted(set(m[4] for m in ms))
            w = rng.choice(whats)
            m, err, at, tok, what = rng.choice([x for x in ms if x[4] == w])
            t = boff(m)
            rec = {"hex": m.encode("utf-8").hex(), "orig_hex": s.encode("utf-8").hex(), "error": err, "at": t[at], "token": tok, "what": what, "count": open_count(what)}
            what_h[what] += 1
        out.write(json.dumps(rec) + "\n")
        k += 1
        stats.update(st)
        depth_h[F.maxlvl] += 1
        nb = len(rec["hex"]) // 2
        len_h[next(b for b in (20, 50, 100, 200, 400, 800, 1600, 10 ** 9) if nb < b)] += 1
    err = sys.stderr
    err.write("gen_grammar: mode %s seed %d depth %d: %d programs (%d generated)\n" % (a.mode, a.seed, a.depth, k, tries))
    err.write("  top-level constructs: %s\n" % ", ".join("%s=%d" % kv for kv in sorted(stats.items())))
    err.write("  nesting depth reached: %s\n" % ", ".join("%d:%d" % kv for kv in sorted(depth_h.items())))
    err.write("  length (bytes) <: %s\n" % ", ".join("%s:%d" % (("inf" if b == 10 ** 9 else b), c) for b, c in sorted(len_h.items())))
    if what_h:
        err.write("  c14 deleted delimiters: %s\n" % ", ".join("%s=%d" % kv for kv in sorted(what_h.items())))


if __name__ == "__main__":
    main()
