#!/usr/bin/env python3
"""Build and drive the real Python extension module of /repo (crate sas-lexer-py) for C20.

  py_ext.py build [--force]   scratch copy of /repo under /tmp -> cargo build -p sas-lexer-py
                              --release --offline (as maturin does: pyo3/extension-module) ->
                              /verif/.work/pyext/_sas_lexer_rust.so
                              + the three enum modules as REWRITTEN BY build.rs in the copy ->
                              /verif/.work/pyext/generated/{token_type,token_channel,error_kind}.py
                              (clause iii of C20: committed files = what build.rs generates from
                              the crate it links).  The scratch copy and its target dir are removed.
                              Skipped when the .so is newer than every input.
  py_ext.py run               stdin: one hex-encoded UTF-8 source per line
                              stdout per line: `ok <hex msgpack bytes>` | `exc <ExceptionType>`
                              (a Rust panic is pyo3's PanicException) | `timeout` (no return within
                              VERIF_PYEXT_TIMEOUT seconds, default 10: the call runs in a child
                              process that is killed and restarted) | `crash <status>` | `badinput`
  py_ext.py records           like run, but prints `C20\t<hex source>\t<hex bytes>` for returned
                              results only (input of `sasmodel check`); exceptions, timeouts and
                              crashes are counted on stderr.

Nothing is written under /repo.  The sas_lexer Python package is NOT imported (it needs msgspec):
the .so is loaded directly with importlib under its own module name `_sas_lexer_rust`.
"""
import importlib.machinery
import importlib.util
import os
import select
import shutil
import subprocess
import sys
import tempfile
import time

REPO = os.environ.get("VERIF_REPO", "/repo")
OUT = os.environ.get("VERIF_PYEXT_OUT", "/verif/.work/pyext")
SO = os.path.join(OUT, "_sas_lexer_rust.so")
GEN = os.path.join(OUT, "generated")
ENUM_FILES = ("token_type.py", "token_channel.py", "error_kind.py")
# inputs that decide whether a rebuild is needed
INPUTS = ("crates/sas-lexer-py", "Cargo.lock", "Cargo.toml", "src/sas_lexer")


def die(msg, code=2):
    sys.stderr.write("py_ext: " + msg + "\n")
    sys.exit(code)


def newest_input_mtime():
    newest = 0.0
    for rel in INPUTS:
        p = os.path.join(REPO, rel)
        if os.path.isfile(p):
            newest = max(newest, os.path.getmtime(p))
        elif os.path.isdir(p):
            for d, dirs, files in os.walk(p):
                dirs[:] = [x for x in dirs if x not in ("target", "__pycache__")]
                for f in files:
                    if f.endswith((".so", ".pyc")):
                        continue
                    newest = max(newest, os.path.getmtime(os.path.join(d, f)))
        else:
            die(f"input {p} is missing")
    return newest


def up_to_date():
    if not os.path.isfile(SO):
        return False
    if not all(os.path.isfile(os.path.join(GEN, f)) for f in ENUM_FILES):
        return False
    return os.path.getmtime(SO) > newest_input_mtime()


def build(force=False):
    if not force and up_to_date():
        print(f"py_ext: up to date: {SO}")
        return 0
    t0 = time.time()
    scratch = tempfile.mkdtemp(prefix="verif-pyext-", dir="/tmp")
    try:
        src = os.path.join(scratch, "repo")
        shutil.copytree(
            REPO, src, symlinks=True,
            ignore=shutil.ignore_patterns("target", ".git", "__pycache__", "*.so", ".venv", "node_modules"))
        target = os.path.join(scratch, "target")
        env = dict(os.environ)
        env["CARGO_NET_OFFLINE"] = "true"
        env["CARGO_TARGET_DIR"] = target
        env["PYO3_PYTHON"] = sys.executable
        env.pop("RUSTFLAGS", None)
        cmd = ["cargo", "build", "-p", "sas-lexer-py", "--release", "--offline", "--locked",
               "--features", "pyo3/extension-module"]
        r = subprocess.run(cmd, cwd=src, env=env, stdout=subprocess.PIPE, stderr=subprocess.STDOUT, text=True)
        if r.returncode != 0:
            sys.stderr.write(r.stdout[-6000:])
            die(f"cargo build failed ({r.returncode})", 1)
        lib = os.path.join(target, "release", "lib_sas_lexer_rust.so")
        if not os.path.isfile(lib):
            die(f"{lib} not produced", 1)
        # which sas-lexer did it link?  (must be the registry crate, recorded for the report)
        linked = [ln.strip() for ln in r.stdout.splitlines() if "Compiling sas-lexer " in ln]
        os.makedirs(GEN, exist_ok=True)
        for f in ENUM_FILES:
            shutil.copyfile(os.path.join(src, "src/sas_lexer", f), os.path.join(GEN, f))
        tmp_so = SO + ".tmp"
        shutil.copyfile(lib, tmp_so)
        os.replace(tmp_so, SO)
        with open(os.path.join(OUT, "build-info.txt"), "w") as fh:
            fh.write("command: " + " ".join(cmd) + "\n")
            fh.write("linked: " + "; ".join(linked) + "\n")
            fh.write(f"seconds: {time.time() - t0:.1f}\n")
            fh.write(f"so_bytes: {os.path.getsize(SO)}\n")
    finally:
        shutil.rmtree(scratch, ignore_errors=True)
    print(f"py_ext: built {SO} ({os.path.getsize(SO)} bytes) in {time.time() - t0:.1f}s; "
          f"{'; '.join(linked) or 'sas-lexer: (not recompiled?)'}")
    return 0


def load():
    if not os.path.isfile(SO):
        die(f"{SO} not built (run `py_ext.py build`)")
    loader = importlib.machinery.ExtensionFileLoader("_sas_lexer_rust", SO)
    spec = importlib.util.spec_from_file_location("_sas_lexer_rust", SO, loader=loader)
    mod = importlib.util.module_from_spec(spec)
    loader.exec_module(mod)
    return mod


def lex_one(fn, h):
    """('ok'|'exc'|'badinput', hex bytes | exception type name | '')"""
    try:
        # "surrogatepass": a Python str may hold lone surrogates (e.g. text read with errors="surrogateescape")
        src = bytes.fromhex(h).decode("utf-8", "surrogatepass")
    except ValueError:
        return "badinput", ""
    try:
        out = fn(src)
    except BaseException as e:  # pyo3 PanicException derives from BaseException
        if isinstance(e, (KeyboardInterrupt, SystemExit)):
            raise
        return "exc", type(e).__name__
    if not isinstance(out, bytes):
        return "exc", "NotBytes:" + type(out).__name__
    return "ok", out.hex()


def worker():
    """one response line per request line; the supervisor kills us when the lexer does not return"""
    if os.environ.get("VERIF_PYEXT_SHOW_PANICS") != "1":
        # a Rust panic prints its message to fd 2 before pyo3 turns it into PanicException
        os.dup2(os.open(os.devnull, os.O_WRONLY), 2)
    fn = load()._lex_program_from_str
    out = sys.stdout
    for line in sys.stdin:
        st, payload = lex_one(fn, line.strip())
        out.write(st + (" " + payload if payload else "") + "\n")
        out.flush()
    return 0


def lex_lines(stream, timeout):
    """yields (hex source, 'ok'|'exc'|'timeout'|'crash'|'badinput', payload).  The extension runs in
    a child process: the published lexer can fail to return (no GIL release, no signal check), then
    the child is killed after `timeout` seconds and restarted."""
    if not os.path.isfile(SO):
        die(f"{SO} not built (run `py_ext.py build`)")

    def spawn():
        return subprocess.Popen([sys.executable, os.path.abspath(__file__), "_worker"],
                                stdin=subprocess.PIPE, stdout=subprocess.PIPE)
    w = spawn()
    try:
        for line in stream:
            h = line.strip()
            try:
                w.stdin.write(h.encode() + b"\n")
                w.stdin.flush()
            except BrokenPipeError:
                pass
            ready, _, _ = select.select([w.stdout], [], [], timeout)
            if not ready:
                w.kill()
                w.wait()
                w = spawn()
                yield h, "timeout", ""
                continue
            resp = w.stdout.readline().decode().rstrip("\n")
            if not resp:  # the process died (abort, segfault)
                rc = w.wait()
                w = spawn()
                yield h, "crash", str(rc)
                continue
            st, _, payload = resp.partition(" ")
            yield h, st, payload
    finally:
        try:
            w.stdin.close()
        except OSError:
            pass
        w.kill()
        w.wait()


def run(timeout):
    out = sys.stdout
    for h, st, payload in lex_lines(sys.stdin, timeout):
        out.write(st + (" " + payload if payload else "") + "\n")
    out.flush()
    return 0


def records(timeout):
    out = sys.stdout
    n = {"ok": 0, "exc": 0, "timeout": 0, "crash": 0, "badinput": 0}
    kinds = {}
    for h, st, payload in lex_lines(sys.stdin, timeout):
        n[st] += 1
        if st == "ok":
            out.write(f"C20\t{h}\t{payload}\n")
        elif st == "exc":
            kinds[payload] = kinds.get(payload, 0) + 1
        elif st == "timeout":
            sys.stderr.write(f"py_ext: no return within {timeout}s: {h}\n")
    out.flush()
    sys.stderr.write(f"py_ext: returned {n['ok']} exceptions {n['exc']} {kinds} timeouts {n['timeout']} "
                     f"crashes {n['crash']} badinput {n['badinput']}\n")
    return 0


def mp_decode(b, i=0):
    """minimal msgpack reader for what the binding writes (nil, bool, ints, f64, str, bin, arrays)"""
    t = b[i]
    if t <= 0x7f: return t, i + 1
    if t >= 0xe0: return t - 256, i + 1
    if 0x90 <= t <= 0x9f: n, i = t & 15, i + 1
    elif t == 0xdc: n, i = int.from_bytes(b[i + 1:i + 3], "big"), i + 3
    elif t == 0xdd: n, i = int.from_bytes(b[i + 1:i + 5], "big"), i + 5
    else:
        n = None
    if n is not None:
        xs = []
        for _ in range(n):
            x, i = mp_decode(b, i)
            xs.append(x)
        return xs, i
    if t == 0xc0: return None, i + 1
    if t == 0xc2: return False, i + 1
    if t == 0xc3: return True, i + 1
    for code, w, signed in ((0xcc, 1, False), (0xcd, 2, False), (0xce, 4, False), (0xcf, 8, False),
                            (0xd0, 1, True), (0xd1, 2, True), (0xd2, 4, True), (0xd3, 8, True)):
        if t == code:
            return int.from_bytes(b[i + 1:i + 1 + w], "big", signed=signed), i + 1 + w
    if t == 0xcb:
        import struct
        return struct.unpack(">d", b[i + 1:i + 9])[0], i + 9
    if 0xa0 <= t <= 0xbf: n, i = t & 31, i + 1
    elif t in (0xc4, 0xd9): n, i = b[i + 1], i + 2
    elif t in (0xc5, 0xda): n, i = int.from_bytes(b[i + 1:i + 3], "big"), i + 3
    elif t in (0xc6, 0xdb): n, i = int.from_bytes(b[i + 1:i + 5], "big"), i + 5
    else:
        raise ValueError(f"msgpack type {t:#x}")
    return bytes(b[i:i + n]), i + n


def py_fields():
    """declared field order of the Python Token class (what msgspec decodes into, positionally)"""
    import ast
    path = os.path.join(os.environ.get("VERIF_REPO", "/repo"), "src/sas_lexer/token.py")
    tree = ast.parse(open(path, encoding="utf-8").read())
    cd = [n for n in tree.body if isinstance(n, ast.ClassDef) and n.name == "Token"][0]
    return [n.target.id for n in cd.body if isinstance(n, ast.AnnAssign)]


def surrogates(timeout):
    """Python-level contract on sources that only Python can express (lone surrogates): whenever a result is
    returned, `source[token.start:token.stop]` must tile the Python string.  One verdict line per input."""
    names = py_fields()
    i_start, i_stop = names.index("start"), names.index("stop")
    out = sys.stdout
    for h, st, payload in lex_lines(sys.stdin, timeout):
        if st != "ok":
            out.write(f"{st}\n")
            continue
        src = bytes.fromhex(h).decode("utf-8", "surrogatepass")
        try:
            res, _ = mp_decode(bytes.fromhex(payload))
            toks = res[0]
            pos = 0
            ok = bool(toks)
            for k, t in enumerate(toks):
                a, b = t[i_start], t[i_stop]
                if k == 0 and src[:1] == "\ufeff":
                    pos = a if a == 1 else -1
                if a != pos or b < a or b > len(src):
                    ok = False
                    break
                pos = b
            ok = ok and pos == len(src)
        except Exception as e:
            out.write(f"fail decode:{type(e).__name__}\n")
            continue
        out.write("ok\n" if ok else "fail tiling\n")
    out.flush()
    return 0


def main():
    a = sys.argv[1:]
    if a[:1] == ["build"]:
        return build(force="--force" in a[1:])
    timeout = float(os.environ.get("VERIF_PYEXT_TIMEOUT", "10"))
    if a == ["run"]:
        return run(timeout)
    if a == ["records"]:
        return records(timeout)
    if a == ["surrogates"]:
        return surrogates(timeout)
    if a == ["_worker"]:
        return worker()
    sys.stderr.write(__doc__)
    return 2


if __name__ == "__main__":
    sys.exit(main())
