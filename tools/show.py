#!/usr/bin/env python3
"""show.py [variant] <source text>...: pretty-print the implementation dump"""
import sys, subprocess, re
sys.path.insert(0, "/verif/tools")
args = sys.argv[1:]
variant = "rel"
if args and args[0] in ("dev", "rel", "dev-sep", "rel-sep"):
    variant = args.pop(0)
names = {}
for l in open("/verif/lean/SasLexer/Gen/TokenType.lean"):
    m = re.match(r"\s*\| \.(\w+) => (\d+)$", l)
    if m and int(m.group(2)) not in names: names[int(m.group(2))] = m.group(1)
sub = {"dev": "target-dev/debug", "rel": "target-rel/release", "dev-sep": "target-dev-sep/debug", "rel-sep": "target-rel-sep/release"}[variant]
for src in args:
    src = src.encode().decode("unicode_escape").encode("latin1").decode("utf-8") if "\\" in src else src
    out = subprocess.run([f"/verif/.work/{sub}/harness", "dump"], input=(src.encode().hex() + "\n").encode(), capture_output=True).stdout.decode().strip()
    s = out.split(" | ")
    print("SRC", repr(src), "->", s[0], "|", s[-2], "|", s[-1])
    if len(s) < 9: continue
    w = s[1].split(); n = int(w[1]); toks = [w[2 + 8 * i: 10 + 8 * i] for i in range(n)]
    b = src.encode()
    for i, t in enumerate(toks):
        end = int(toks[i + 1][2]) if i + 1 < n else len(b)
        print(f"   {i:3} ch{t[0]} {names.get(int(t[1]), t[1]):24} @{t[2]:>4} {b[int(t[2]):end].decode('utf-8', 'replace')!r} {'' if t[5] == '0' else 'payload=' + ' '.join(t[5:])}")
    print("   lits:", s[3], " errors:", s[4])
