#!/usr/bin/env python3
"""Shared machinery of ./check (see its docstring)."""
import zlib
import argparse, collections, fcntl, hashlib, json, os, random, re, subprocess, sys, time

ROOT = "/verif"
WORK = os.path.join(ROOT, ".work")
LEAN = os.path.join(ROOT, "lean")
GEN = os.path.join(LEAN, "SasLexer", "Gen")
REPO = "/repo"
SASMODEL = os.path.join(LEAN, ".lake/build/bin/sasmodel")
VARIANT_DIR = {"dev": "target-dev/debug", "rel": "target-rel/release", "dev-sep": "target-dev-sep/debug",
               "rel-sep": "target-rel-sep/release", "nightly-rel-sep": "target-nightly-rel-sep/release"}
ALLOWED_AXIOMS = {"propext", "Classical.choice", "Quot.sound"}
TRUSTED_BASE = [
    "Lean 4.33 kernel; axioms limited to propext, Classical.choice, Quot.sound (audited by #print axioms on every run)",
    "Lean compiler/runtime for the executable model and the compiled specification predicates",
    "translator /verif/translator/*.py (tables regenerated from /repo on every run)",
    "correspondence harness /verif/harness (+ cfg(sas_lexer_verif) hooks in /repo) and its input streams (differential testing, not exhaustive)",
    "modelled, not verified: lexical (number parsing), encoding (ISO-8859-1), unicode-ident/std char tables (dumped), Vec/String, rustc",
]


def log(*a):
    print(*a, file=sys.stderr, flush=True)


def run(cmd, inp=None, cwd=None, env=None, timeout=None):
    e = dict(os.environ)
    e["CARGO_NET_OFFLINE"] = "true"
    if env:
        e.update(env)
    p = subprocess.run(cmd, input=inp, cwd=cwd, env=e, capture_output=True, timeout=timeout)
    return p.returncode, p.stdout, p.stderr


class Lock:
    def __init__(self, name):
        os.makedirs(WORK, exist_ok=True)
        self.f = open(os.path.join(WORK, name + ".lock"), "w")

    def __enter__(self):
        fcntl.flock(self.f, fcntl.LOCK_EX)

    def __exit__(self, *a):
        fcntl.flock(self.f, fcntl.LOCK_UN)


# ---------------------------------------------------------------- builds

def write_if_changed(path, content):
    try:
        if open(path).read() == content:
            return
    except OSError:
        pass
    open(path, "w").write(content)


def build_harness(variants):
    """(ok, message)"""
    with Lock("cargo"):
        for v in variants:
            rc, out, err = run([os.path.join(ROOT, "tools/build_harness.sh"), v])
            if rc != 0:
                return False, f"harness build failed for variant {v}:\n" + err.decode(errors="replace")[-3000:]
    return True, ""


def harness_bin(variant):
    return os.path.join(WORK, VARIANT_DIR[variant], "harness")


def regen_tables():
    """run the translator; returns (ok, message)"""
    env = {"VERIF_REPO": REPO, "VERIF_GEN_OUT": os.path.join(WORK, "gen-tmp")}
    os.makedirs(env["VERIF_GEN_OUT"], exist_ok=True)
    for script in sorted(os.listdir(os.path.join(ROOT, "translator"))):
        if not script.startswith("gen_") or not script.endswith(".py") or script == "gen_unicode.py":
            continue
        rc, out, err = run(["python3", os.path.join(ROOT, "translator", script)], env=env)
        if rc != 0:
            return False, f"translator {script} failed: " + err.decode(errors="replace")[-2000:]
    # unicode tables through the linked crates
    uni = os.path.join(WORK, "unicode.txt")
    rc, out, err = run([harness_bin("rel"), "unicode", "--out", uni])
    if rc != 0:
        return False, "harness unicode failed: " + err.decode(errors="replace")[-2000:]
    rc, out, err = run(["python3", os.path.join(ROOT, "translator/gen_unicode.py"), uni], env=env)
    if rc != 0:
        return False, "translator gen_unicode failed: " + err.decode(errors="replace")[-2000:]
    for f in os.listdir(env["VERIF_GEN_OUT"]):
        write_if_changed(os.path.join(GEN, f), open(os.path.join(env["VERIF_GEN_OUT"], f)).read())
    return True, ""


def lake_build(targets):
    with Lock("lake"):
        rc, out, err = run(["lake", "build"] + targets, cwd=LEAN)
    txt = (out + err).decode(errors="replace")
    return rc == 0, txt


FORBIDDEN = re.compile(r"\bsorry\b|\badmit\b|^axiom\s|native_decide|bv_decide|implemented_by|\bunsafe\s|maxHeartbeats\s+0", re.M)


def strip_lean_comments(src):
    src = re.sub(r"/-.*?-/", "", src, flags=re.S)
    return re.sub(r"--.*", "", src)


def source_audit():
    bad = []
    for dp, dn, fn in os.walk(os.path.join(LEAN, "SasLexer")):
        for f in fn:
            if f.endswith(".lean"):
                p = os.path.join(dp, f)
                m = FORBIDDEN.search(strip_lean_comments(open(p).read()))
                if m:
                    bad.append(f"{p}: {m.group(0).strip()}")
    m = FORBIDDEN.search(strip_lean_comments(open(os.path.join(LEAN, "Main.lean")).read()))
    if m and "partial" not in m.group(0):
        bad.append("Main.lean: " + m.group(0))
    return bad


def axiom_audit(pid, modules, theorems):
    """returns (ok, n_theorems_in_env, {theorem: [axioms]}, log)"""
    os.makedirs(os.path.join(WORK, "audit"), exist_ok=True)
    path = os.path.join(WORK, "audit", f"audit_{pid}.lean")
    L = [f"import {m}" for m in modules] + ["import Lean", "open Lean Elab Command",
         "#eval show CommandElabM Unit from do",
         "  let env ← getEnv",
         "  let mut n : Nat := 0",
         "  for (name, ci) in env.constants.toList do",
         "    if (`SasLexer).isPrefixOf name && !name.isInternalDetail then",
         "      if let .thmInfo _ := ci then",
         "        if (← Lean.findDeclarationRanges? name).isSome then n := n + 1",
         "  logInfo m!\"THEOREMS {n}\""]
    for t in theorems:
        L.append(f"#print axioms {t}")
    open(path, "w").write("\n".join(L) + "\n")
    with Lock("lake"):
        rc, out, err = run(["lake", "env", "lean", path], cwd=LEAN)
    txt = (out + err).decode(errors="replace")
    if rc != 0:
        return False, 0, {}, txt
    n = int(re.search(r"THEOREMS (\d+)", txt).group(1))
    axs = {}
    for m in re.finditer(r"'([^']+)' depends on axioms: \[([^\]]*)\]", txt):
        axs[m.group(1)] = [a.strip() for a in m.group(2).replace("\n", " ").split(",") if a.strip()]
    for m in re.finditer(r"'([^']+)' does not depend on any axioms", txt):
        axs[m.group(1)] = []
    ok = all(t in axs and set(axs[t]) <= ALLOWED_AXIOMS for t in theorems)
    return ok, n, axs, txt


# ---------------------------------------------------------------- running things

def hexs(s):
    return s.encode("utf-8").hex()


def unhex(h):
    return bytes.fromhex(h).decode("utf-8", "replace")


def gen_stream(stream, seed, n, maxfrags=10):
    rc, out, err = run(["python3", os.path.join(ROOT, "tools/gen_inputs.py"), stream, "--seed", str(seed), "-n", str(n),
                        "--maxfrags", str(maxfrags)])
    if rc != 0:
        raise RuntimeError("gen_inputs failed: " + err.decode())
    return out.decode().split("\n")[:-1]


def fuzz_corpus(seed, secs):
    """thorough tier: coverage-guided input discovery on the current tree (inputs only, no verdict)"""
    import shutil, tempfile
    cdir = os.path.join(WORK, "fuzz-corpus")
    shutil.rmtree(cdir, ignore_errors=True)
    os.makedirs(cdir)
    seeds = corpus_inputs()[:400] + gen_stream("soup", seed, 600) + gen_stream("strings", seed, 200)
    for i, h in enumerate(seeds):
        open(os.path.join(cdir, f"seed{i}"), "wb").write(bytes.fromhex(h))
    art = os.path.join(WORK, "fuzz-artifacts") + "/"
    shutil.rmtree(art, ignore_errors=True)
    os.makedirs(art)
    with Lock("cargo"):
        rc, out, err = run(["cargo", "+nightly", "fuzz", "run", "--fuzz-dir", os.path.join(ROOT, "harness/fuzz"), "--target-dir",
                            os.path.join(WORK, "target-fuzz"), "lex", cdir, "--", f"-max_total_time={secs}", "-fork=12", "-ignore_crashes=1",
                            "-max_len=160", f"-artifact_prefix={art}", "-print_final_stats=1"],
                           env={"RUSTFLAGS": "--cfg sas_lexer_verif"}, timeout=secs + 900)
    res = []
    for d in (cdir, art):
        for f in os.listdir(d):
            try:
                b = open(os.path.join(d, f), "rb").read()
                b.decode("utf-8")
                res.append(b.hex())
            except (UnicodeDecodeError, OSError):
                pass
    return list(dict.fromkeys(res)), (out + err).decode(errors="replace")[-600:]


def corpus_inputs():
    out = []
    d = os.path.join(ROOT, "corpus")
    if os.path.isdir(d):
        for f in sorted(os.listdir(d)):
            if f.endswith(".hex"):
                out += [l.strip() for l in open(os.path.join(d, f)) if l.strip() != "" or True]
    return [h for h in out if re.fullmatch(r"[0-9a-f]*", h)]


def impl_dump(variant, hexes, extra=()):
    inp = ("\n".join(hexes) + "\n").encode()
    rc, out, err = run([harness_bin(variant), "dump"] + list(extra), inp=inp)
    lines = out.decode(errors="replace").split("\n")[:-1]
    if rc != 0 or len(lines) != len(hexes):
        raise RuntimeError(f"harness {variant} failed rc={rc} lines={len(lines)}/{len(hexes)}: " + err.decode(errors="replace")[-500:])
    return lines


def model_dump(variant, hexes):
    dbg = "1" if variant.startswith("dev") else "0"
    sep = "1" if variant.endswith("sep") else "0"
    inp = ("\n".join(hexes) + "\n").encode()
    rc, out, err = run([SASMODEL, "dump", dbg, sep], inp=inp)
    lines = out.decode(errors="replace").split("\n")[:-1]
    if rc != 0 or len(lines) != len(hexes):
        raise RuntimeError(f"sasmodel failed rc={rc} lines={len(lines)}/{len(hexes)}: " + err.decode(errors="replace")[-500:])
    return lines


def lean_check(records):
    """records: list of tab-joined fields (prop, ...). returns verdict strings."""
    if not records:
        return []
    inp = ("\n".join(records) + "\n").encode()
    rc, out, err = run([SASMODEL, "check"], inp=inp)
    lines = out.decode(errors="replace").split("\n")[:-1]
    if rc != 0 or len(lines) != len(records):
        raise RuntimeError(f"sasmodel check failed rc={rc} lines={len(lines)}/{len(records)}: " + err.decode(errors="replace")[-500:])
    return lines


def sections(dump):
    return dump.split(" | ")


def outcome(dump):
    return dump.split(" ", 1)[0]


def sec_ints(sec, width):
    w = sec.split()
    n = int(w[1])
    if n <= 0:
        return []
    xs = w[2:]
    return [tuple(xs[i * width:(i + 1) * width]) for i in range(n)]


# projections (strings compared between implementation and model)
def proj_full(d):
    return d


def proj_positions(d):
    s = sections(d)
    if len(s) < 9:
        return d
    return (outcome(d), tuple((t[2], t[3]) for t in sec_ints(s[1], 8)), tuple((e[1], e[2]) for e in sec_ints(s[4], 6)))


def proj_tok_bytes(d):
    s = sections(d)
    if len(s) < 9:
        return d
    return (outcome(d), tuple((t[1], t[2]) for t in sec_ints(s[1], 8)), s[6])


def proj_lines(d):
    s = sections(d)
    if len(s) < 9:
        return d
    return (outcome(d), tuple((t[2], t[3], t[4]) for t in sec_ints(s[1], 8)), s[2],
            tuple((e[1], e[2], e[3], e[4]) for e in sec_ints(s[4], 6)), s[5])


def proj_views(d):
    s = sections(d)
    if len(s) < 9:
        return d
    return (outcome(d), s[5], s[6])


def proj_errors(d):
    s = sections(d)
    if len(s) < 9:
        return d
    return (outcome(d), tuple((t[1], t[2]) for t in sec_ints(s[1], 8)), s[4])


# ---------------------------------------------------------------- known findings

def load_known():
    p = os.path.join(ROOT, "known_findings.json")
    if not os.path.exists(p):
        return []
    return [k for k in json.load(open(p)).get("findings", []) if k.get("status", "open") == "open"]


def known_match(k, pid, src, dump, clauses):
    if k["property"] != pid:
        return False
    if "clauses" in k and not (set(clauses) & set(k["clauses"])):
        return False
    m = k.get("match", {})
    if "source_regex" in m and not re.search(m["source_regex"], src, re.S | re.I):
        return False
    if "error_kind" in m:
        s = sections(dump)
        kinds = {e[0] for e in sec_ints(s[4], 6)} if len(s) >= 9 else set()
        if str(m["error_kind"]) not in kinds:
            return False
    if "outcome_regex" in m and not re.search(m["outcome_regex"], dump.split(" | ")[0]):
        return False
    return True


# ---------------------------------------------------------------- shrinking

def shrink(src, still_fails, budget=40):
    """greedy chunk-removal minimisation; still_fails(list of candidate strings) -> list of bool"""
    cur = src
    n = 2
    rounds = 0
    while len(cur) >= 2 and rounds < budget:
        rounds += 1
        size = max(1, len(cur) // n)
        cands = [cur[:i] + cur[i + size:] for i in range(0, len(cur), size)]
        cands = [c for c in cands if c != cur]
        res = still_fails(cands)
        hit = next((c for c, r in zip(cands, res) if r), None)
        if hit is not None:
            cur = hit
            n = max(n - 1, 2)
        elif size == 1:
            break
        else:
            n = min(n * 2, len(cur))
    return cur


# ---------------------------------------------------------------- property table

def streams_for(pid, tier):
    q = tier == "quick"
    base = {
        "soup": 12000 if q else 150000,
        "strings": 4000 if q else 40000,
        "numeric": 2000 if q else 20000,
        "trunc": 6000 if q else 80000,
        "open": 4000 if q else 40000,
        "nl": 5000 if q else 60000,
        "mb": 4000 if q else 40000,
        "progs": 6000 if q else 60000,
        "uws": 4000 if q else 40000,
        "hexstr": 1500 if q else 40000,     # + the exhaustive 00..ff table (always)
    }
    return base


PROPS = {}


def prop(pid, **kw):
    kw.setdefault("kind", "single")
    kw.setdefault("proj", proj_full)
    kw.setdefault("judge_outcomes", ("ok",))
    PROPS[pid] = kw


prop("C02", modules=["SasLexer.Properties.C02"], theorems=["SasLexer.kernel_C02_boundaries", "SasLexer.kernel_C02_last_eof", "SasLexer.kernel_C02_monotone_debug", "SasLexer.kernel_C02_monotone_release", "SasLexer.run_KMono",
                                                            "SasLexer.C02_model_single_eof", "SasLexer.model_single_eof", "SasLexer.awp_sound", "SasLexer.mainLoop_awp",
                                                            "SasLexer.C02_model", "SasLexer.model_bytes_sorted", "SasLexer.swp_sound", "SasLexer.mainLoop_sany", "SasLexer.model_first_at_bom", "SasLexer.cwp_sound", "SasLexer.run_KOld", "SasLexer.dispatchModeDefault_cov"],
     variants=["dev", "rel", "dev-sep", "rel-sep"], proj=proj_tok_bytes)
prop("C03", modules=["SasLexer.Properties.C03"], theorems=["SasLexer.kernel_C03", "SasLexer.C03_model"],
     variants=["dev", "rel", "rel-sep"], proj=proj_positions)
prop("C04", modules=["SasLexer.Properties.C04"],
     theorems=["SasLexer.kernel_C04_line_positions", "SasLexer.DBuf.resolved_lines_exact", "SasLexer.C04_of_lineWF", "SasLexer.lineWFB_sound",
               "SasLexer.C04_model", "SasLexer.model_tokMono", "SasLexer.model_bytes_sorted", "SasLexer.swp_sound", "SasLexer.step_SInv", "SasLexer.C04_model_of_mono", "SasLexer.model_lines_exact", "SasLexer.awp_sound", "SasLexer.step_DInv",
               "SasLexer.mainLoop_awp", "SasLexer.lexToken_awp", "SasLexer.finalizeLoop_inert"],
     variants=["dev", "rel", "rel-sep"], proj=proj_lines)
prop("C05", modules=["SasLexer.Properties.C05"], theorems=["SasLexer.C05_pure", "SasLexer.C05_wf_needed", "SasLexer.DBuf.resolved_eq_accessors",
                                                            "SasLexer.C05_model", "SasLexer.model_tokMono", "SasLexer.model_bytes_sorted", "SasLexer.C05_model_of_mono", "SasLexer.model_lineWF"],
     variants=["dev", "rel", "rel-sep"], proj=proj_views)
prop("C09", modules=["SasLexer.Properties.C09"], theorems=["SasLexer.kernel_C09_offsets", "SasLexer.kernel_C09_last_token_exists", "SasLexer.run_KErr",
                                                            "SasLexer.C09_model_order", "SasLexer.lexProgram_KOrd", "SasLexer.step_KOrd", "SasLexer.ewp_sound", "SasLexer.mainLoop_eok",
                                                            "SasLexer.C09_model_last_token", "SasLexer.model_error_anchor", "SasLexer.step_KAnch", "SasLexer.run_anch"],
     variants=["dev", "rel", "rel-sep"], proj=proj_errors)
prop("C17", kind="bom", modules=["SasLexer.Properties.C17"],
     theorems=["SasLexer.run_shift", "SasLexer.kernel_C17", "SasLexer.C17_model_partial", "SasLexer.sideOkRun_sound"],
     variants=["dev", "rel", "rel-sep"])
prop("C16", kind="case", modules=["SasLexer.Properties.C16"], theorems=["SasLexer.C16_tables", "SasLexer.C16_keyword_lookup"],
     variants=["dev", "rel", "rel-sep"])
prop("C18", kind="sep", modules=["SasLexer.Properties.C18"], theorems=["SasLexer.C18_placement", "SasLexer.needsMacroSep_table", "SasLexer.C18_no_sep_without_feature", "SasLexer.C18_sep_shape", "SasLexer.ChanR_sound"],
     variants=["rel", "dev"])
prop("C19", kind="profile", modules=["SasLexer.Properties.C19"], theorems=["SasLexer.kernel_C19_debug_release", "SasLexer.kernel_C19_nightly", "SasLexer.run_profile"],
     variants=["dev", "rel", "dev-sep", "rel-sep"])
prop("C15", kind="compose", modules=["SasLexer.Properties.C15"], theorems=[],
     variants=["rel", "dev", "rel-sep"])

def grammar_streams(pid, tier):
    return {}


prop("C01", kind="total", modules=["SasLexer.Properties.C01"],
     theorems=["SasLexer.kernel_C01_offsets_in_range", "SasLexer.kernel_C01_release_panics", "SasLexer.evalFlags_roundtrip"],
     variants=["dev", "rel", "rel-sep", "dev-sep"], corr_outcomes=True)
prop("C06", modules=["SasLexer.Properties.C06"], theorems=["SasLexer.C06_table_total", "SasLexer.C06_keyword_rows",
                                                            "SasLexer.C06_model_channels", "SasLexer.C06_model_tables", "SasLexer.model_payload_kinds", "SasLexer.model_no_sep_without_feature", "SasLexer.model_channels", "SasLexer.ChanR_sound", "SasLexer.mainLoop_chan", "SasLexer.finalizeLexing_chan"],
     variants=["rel", "dev-sep", "dev"])
prop("C07", modules=["SasLexer.Properties.C07", "SasLexer.Properties.C06"], theorems=["SasLexer.C07_hex_decode_spec", "SasLexer.hexPairs_eq_spec", "SasLexer.model_payload_kinds", "SasLexer.ChanR_sound"],
     variants=["rel", "dev-sep", "dev"])
prop("C08", modules=["SasLexer.Properties.C08"], theorems=["SasLexer.C08_decimal_integer", "SasLexer.C08_hex_integer"],
     variants=["rel", "dev-sep", "dev"])
prop("C10", modules=["SasLexer.Properties.C10"], theorems=["SasLexer.C10_builtins_expect_lparen", "SasLexer.builtins_expect_lparen_sep",
                                                            "SasLexer.C10_model_closers", "SasLexer.finalizeLexing_closers", "SasLexer.fwp_sound", "SasLexer.finalizeLoop_fwp", "SasLexer.Rep.step"],
     variants=["rel", "dev-sep", "dev"])
prop("C11", modules=["SasLexer.Properties.C11"], theorems=[],
     variants=["rel", "dev", "rel-sep"])
prop("C12", kind="grammar", gmode="c12", modules=["SasLexer.Properties.C12"],
     theorems=["SasLexer.preload_has_expectations", "SasLexer.evalFlags_roundtrip", "SasLexer.argFlags_roundtrip"],
     variants=["rel", "dev", "rel-sep"])
prop("C13", kind="grammar", gmode="c13", modules=["SasLexer.Properties.C12"],
     theorems=["SasLexer.preload_has_expectations", "SasLexer.builtins_expect_lparen"],
     variants=["rel", "dev", "rel-sep"])
prop("C14", kind="grammar", gmode="c14", modules=["SasLexer.Properties.C14", "SasLexer.Properties.C10"],
     theorems=["SasLexer.C14_preload", "SasLexer.C14_one_step", "SasLexer.C10_builtins_expect_lparen"],
     variants=["rel", "dev", "rel-sep"])
prop("C20", kind="pyext", modules=["SasLexer.Properties.C20"],
     theorems=["SasLexer.C20_roundtrip", "SasLexer.C20_wire", "SasLexer.C20_fields", "SasLexer.C20_enums", "SasLexer.C20_payload_injective"],
     variants=["rel"])

BOM_HEX = "efbbbf"


def mangle_case(src, seed):
    rng = random.Random(zlib.crc32(src.encode('utf-8', 'surrogatepass')) ^ (seed * 2654435761 & 0xFFFFFFFF))
    mode = rng.randrange(3)
    out = []
    for ch in src:
        if ch.isascii() and ch.isalpha():
            if mode == 0:
                ch = ch.swapcase() if rng.random() < 0.5 else ch
            elif mode == 1:
                ch = ch.upper()
            else:
                ch = ch.lower()
        out.append(ch)
    return "".join(out)


CLOSED_PREFIXES = ["x=1;", "data a; set b; run;", "* comment;", "%let a=1;", ";", "proc print; run;\n", "x='a;';", "/* c */ y;",
                   "%put hello;", "%macro m(a,b=2); %put &a; %mend;", "data a;\ndatalines;\n1 2\n;", "%* macro comment;", "a=\"q\"\"r\";",
                   "%if 1 %then %do; x; %end;", "é='ü';\n", "﻿x;", "%m(1,2);", "x=%eval(1+2);", "y = 'it''s';\n\n",
                   "%macro m;\n  %goto fin;\n  %fin: %mend;\n", "%macro keepvars;\n  id name amount %mend;\n", "%lbl: x=1;", "%macro k(a, b=1) / store; %put &a %mend k;",
                   "%macro m; %do i=1 %to 2; y &i %end; %mend;", "%if &a %then %fin: ;", "%let p = %verify(123, 1);", "data a; x=\"&v\"; run;\n* note;\n"]


class Evaluator:
    """evaluate(hexes) -> list of (clauses|None, info); clauses None = property not applicable to this input."""

    def __init__(self, pid, cfg, seed):
        self.pid, self.cfg, self.seed = pid, cfg, seed
        self.kind = cfg["kind"]
        self.stats = collections.Counter()

    def units(self, inputs, variants):
        """yield (unit_key, variant_tuple) work lists per kind"""
        k = self.kind
        if k in ("single", "total"):
            return [(v,) for v in variants]
        if k in ("bom", "case", "compose", "grammar"):
            return [(v,) for v in variants]
        if k == "pyext":
            return [("pyext",)]
        if k == "sep":
            return [(v, v + "-sep") for v in variants]
        if k == "profile":
            return [("dev", "rel"), ("dev-sep", "rel-sep"), ("rel-sep", "nightly-rel-sep")]
        raise ValueError(k)

    def evaluate(self, vt, hexes):
        pid, k = self.pid, self.kind
        res = [None] * len(hexes)
        if k in ("single", "total"):
            impl = impl_dump(vt[0], hexes)
            idx = [i for i, d in enumerate(impl) if outcome(d) in self.cfg["judge_outcomes"] or k == "total"]
            for o in ("ok", "panic", "budget"):
                self.stats[f"impl_{vt[0]}_{o}"] += sum(1 for d in impl if outcome(d) == o)
            verd = lean_check([f"{pid}\t{hexes[i]}\t{impl[i]}" for i in idx])
            for i, vd in zip(idx, verd):
                res[i] = (parse_verdict(vd), {"variant": vt[0], "dump": impl[i]})
            if k == "single":
                # the property speaks of the result for *every* source: an input on which this build gives no result
                # (panic, or the iteration budget of the hook runs out) is an input on which it fails
                for i, d in enumerate(impl):
                    if res[i] is None and outcome(d) in ("panic", "budget"):
                        res[i] = (["no-result-" + outcome(d)], {"variant": vt[0], "dump": d})
            if pid == "C04" and idx:
                # how often the hypothesis of the pure theorem `C04_of_lineWF` holds of the implementation's buffers
                wf = lean_check([f"LINEWF\t{hexes[i]}\t{impl[i]}" for i in idx])
                self.stats[f"lineWF_hypothesis_holds_{vt[0]}"] += sum(1 for x in wf if x == "1")
                self.stats[f"lineWF_hypothesis_evaluated_{vt[0]}"] += len(wf)
            return res, {vt[0]: impl}
        if k == "grammar":
            # hexes are JSON records of gen_grammar.py (or bare hex during shrinking: not applicable)
            recs, idx = [], []
            progs = []
            for i, h in enumerate(hexes):
                try:
                    j = json.loads(h)
                except ValueError:
                    continue
                idx.append(i)
                progs.append(j)
            impl = impl_dump(vt[0], [j["hex"] for j in progs])
            for j, d in zip(progs, impl):
                g = self.cfg["gmode"]
                if g == "c12":
                    recs.append(f"C12\t{j['hex']}\t{d}")
                elif g == "c13":
                    dl = ",".join(f"{b}:{t}" for b, t in j["delims"]) or "-"
                    mk = ",".join(str(b) for b in j["masked"]) or "-"
                    hd = ",".join(f"{a}:{e}" for a, e in j["hidden"]) or "-"
                    recs.append(f"C13\t{j['hex']}\t{d}\t{dl}\t{mk}\t{hd}")
                else:
                    recs.append(f"C14\t{j['hex']}\t{d}\t{j['error']}\t{j['at']}\t{j['token']}\t{j.get('count', 1)}")
            verd = lean_check(recs)
            for i, vd, j, d in zip(idx, verd, progs, impl):
                info = {"variant": vt[0], "dump": d, "program": unhex(j["hex"])}
                info.update({k2: v2 for k2, v2 in j.items() if k2 != "hex"})
                res[i] = (parse_verdict(vd), info)
            self.stats[f"programs_{vt[0]}"] += len(progs)
            return res, {vt[0]: (impl, [j["hex"] for j in progs])}
        if k == "pyext":
            inp = ("\n".join(hexes) + "\n").encode()
            rc, out, err = run(["python3", os.path.join(ROOT, "tools/py_ext.py"), "run"], inp=inp)
            lines = out.decode().split("\n")[:-1]
            if rc != 0 or len(lines) != len(hexes):
                raise RuntimeError("py_ext run failed: " + err.decode(errors="replace")[-800:])
            idx = [i for i, l in enumerate(lines) if l.startswith("ok ")]
            for l in lines:
                self.stats["pyext_" + l.split(" ")[0]] += 1
            recs = []
            for i in idx:
                b = lines[i][3:]
                recs.append(f"C20\t{hexes[i]}\t{b}")
                recs.append(f"C20wire\t{hexes[i]}\t{b}")
            verd = lean_check(recs)
            for n, i in enumerate(idx):
                cl = parse_verdict(verd[2 * n]) + ["wire-" + c for c in parse_verdict(verd[2 * n + 1])]
                res[i] = (cl, {"msgpack_hex": lines[i][3:][:2000]})
            return res, {}
        if k == "bom":
            idx = [i for i, h in enumerate(hexes) if not h.startswith(BOM_HEX)]
            a = impl_dump(vt[0], [hexes[i] for i in idx])
            b = impl_dump(vt[0], [BOM_HEX + hexes[i] for i in idx])
            verd = lean_check([f"{pid}\t{hexes[i]}\t{x}\t{y}" for i, x, y in zip(idx, a, b)])
            for i, vd, x, y in zip(idx, verd, a, b):
                res[i] = (parse_verdict(vd), {"variant": vt[0], "dump": x, "dump_with_bom": y})
            sub = [hexes[i] for i in idx]
            if len(sub) > 50:       # not during shrinking
                cap = sub[:6000]
                dbg, sep = ("1" if vt[0].startswith("dev") else "0"), ("1" if vt[0].endswith("sep") else "0")
                so = lean_check([f"SIDEOK\t{dbg}\t{sep}\t{h}" for h in cap])
                self.stats[f"shift_side_condition_holds_{vt[0]}"] += sum(1 for x in so if x == "1")
                self.stats[f"shift_side_condition_evaluated_{vt[0]}"] += len(so)
            return res, {vt[0]: (a + b, sub + [BOM_HEX + h for h in sub])}
        if k == "case":
            m = [hexs(mangle_case(unhex(h), self.seed)) for h in hexes]
            a = impl_dump(vt[0], hexes)
            b = impl_dump(vt[0], m)
            verd = lean_check([f"{pid}\t{h}\t{h2}\t{x}\t{y}" for h, h2, x, y in zip(hexes, m, a, b)])
            for i, (vd, x, y) in enumerate(zip(verd, a, b)):
                res[i] = (parse_verdict(vd), {"variant": vt[0], "dump": x, "mangled_source": unhex(m[i]), "dump_mangled": y})
            self.stats["case_variants_differing_from_source"] += sum(1 for h, h2 in zip(hexes, m) if h != h2)
            return res, {vt[0]: a}
        if k in ("sep", "profile"):
            a = impl_dump(vt[0], hexes)
            b = impl_dump(vt[1], hexes)
            verd = lean_check([f"{pid}\t{h}\t{x}\t{y}" for h, x, y in zip(hexes, a, b)])
            for i, (vd, x, y) in enumerate(zip(verd, a, b)):
                res[i] = (parse_verdict(vd), {"variants": list(vt), "dump": x, "dump_other": y})
            if k == "sep":
                self.stats["macro_sep_tokens"] += sum(y.count(" 0 1 ") for y in b)  # rough: DEFAULT MacroSep
            return res, {vt[0]: a, vt[1]: b}
        if k == "compose":
            rng = random.Random(self.seed)
            pre = [hexs(p) for p in CLOSED_PREFIXES]
            # arbitrary prefixes that happen to be closed: inputs ending in ';'
            pool = pre + [h for h in hexes if h.endswith("3b")][:2000]
            A = [pool[rng.randrange(len(pool))] for _ in hexes]
            dA = impl_dump(vt[0], A)
            dB = impl_dump(vt[0], hexes)
            dAB = impl_dump(vt[0], [x + y for x, y in zip(A, hexes)])
            # closedness of A is judged by the reference model's run on A
            uniqA = list(dict.fromkeys(A))
            mA = dict(zip(uniqA, model_dump(vt[0], uniqA)))
            verd = lean_check([f"C15m\t{a}\t{b}\t{x}\t{y}\t{z}\t{mA[a]}" for a, b, x, y, z in zip(A, hexes, dA, dB, dAB)])
            for i, vd in enumerate(verd):
                if vd == "n/a":
                    self.stats["compose_not_applicable"] += 1
                    continue
                self.stats["compose_applicable"] += 1
                res[i] = (parse_verdict(vd), {"variant": vt[0], "A": unhex(A[i]), "A_hex": A[i], "dump_A": dA[i], "dump_B": dB[i], "dump_AB": dAB[i]})
            return res, {vt[0]: dB}
        raise ValueError(k)


def parse_verdict(vd):
    if vd == "ok":
        return []
    if vd.startswith("fail "):
        return vd[5:].split(",")
    return ["checker:" + vd]


# ---------------------------------------------------------------- main check

class Result:
    def __init__(self, pid, tier, seed):
        self.pid, self.tier, self.seed = pid, tier, seed
        self.violations = []        # (replay_path, no_failing_input: bool)
        self.known_hits = collections.Counter()
        self.cov = collections.OrderedDict()
        self.samples = []
        self.t0 = time.time()


def write_replay(pid, kind, payload):
    d = os.path.join(WORK, "replay")
    os.makedirs(d, exist_ok=True)
    h = hashlib.sha1(json.dumps(payload, sort_keys=True).encode()).hexdigest()[:10]
    p = os.path.join(d, f"{pid}-{kind}-{h}.json")
    json.dump(payload, open(p, "w"), indent=1, ensure_ascii=False)
    return p


def tally_distribution(ev, s):
    """what the explored inputs exercised (implementation dumps of one variant): token types, error kinds,
    pending modes at end of input, token counts"""
    d = ev.stats
    try:
        if len(s) < 9:
            return
        w = s[1].split()
        n = int(w[1])
        dist = ev.__dict__.setdefault("dist", {"tok_types": collections.Counter(), "err_kinds": collections.Counter(),
                                               "end_modes": collections.Counter(), "tokens_per_input": collections.Counter()})
        for i in range(n):
            dist["tok_types"][w[2 + 8 * i + 1]] += 1
        dist["tokens_per_input"][min(n // 8, 8)] += 1
        e = s[4].split()
        for i in range(int(e[1])):
            dist["err_kinds"][e[2 + 6 * i]] += 1
        x = s[7].split()
        if len(x) > 7:
            for m in x[7:]:
                dist["end_modes"][m.split(":")[0]] += 1
    except (ValueError, IndexError):
        d["distribution_parse_errors"] += 1


def distribution_summary(ev):
    dist = getattr(ev, "dist", None)
    if not dist:
        return None
    names = {}
    for kind, f in (("tok", "TokenType"), ("err", "ErrorKind")):
        try:
            for l in open(os.path.join(ROOT, f"lean/SasLexer/Gen/{f}.lean")):
                m = re.match(r"\s*\| \.(\w+) => (\d+)$", l)
                if m:
                    names.setdefault(kind, {}).setdefault(m.group(2), m.group(1))
        except OSError:
            pass
    tn, en = names.get("tok", {}), names.get("err", {})
    seen_t = set(dist["tok_types"])
    seen_e = set(dist["err_kinds"])
    return {
        "token_types_seen": len(seen_t), "token_types_total": len(tn),
        "token_types_never_seen": sorted(tn[k] for k in tn if k not in seen_t)[:80],
        "error_kinds_seen": sorted(en.get(k, k) for k in seen_e), "error_kinds_total": len(en),
        "error_kinds_never_seen": sorted(en[k] for k in en if k not in seen_e),
        "errors_total": sum(dist["err_kinds"].values()),
        "pending_modes_at_end_of_input": dict(dist["end_modes"].most_common()),
        "tokens_per_input_histogram(bucket=n//8, last=64+)": dict(sorted(dist["tokens_per_input"].items())),
        "rarest_token_types": [(tn.get(k, k), c) for k, c in sorted(dist["tok_types"].items(), key=lambda kv: kv[1])[:12]],
    }


def explore(ev, inputs, unit_list, cfg, do_correspondence=True):
    """returns fails [(vt, hex, clauses, info)], disagreements [(variant, hex, impl, model)], nontrivial set"""
    fails, disagree, nontrivial = [], [], set()
    compared = set()
    for vt in unit_list:
        res, impl_by_variant = ev.evaluate(vt, inputs)
        for h, r in zip(inputs, res):
            if r is None:
                continue
            clauses, info = r
            ev.stats[f"judged_{'+'.join(vt)}"] += 1
            if clauses:
                fails.append((vt, h, clauses, info))
        if not do_correspondence:
            continue
        for v, impl in impl_by_variant.items():
            if v in compared or v.startswith("nightly"):
                continue
            compared.add(v)
            hx = inputs
            if isinstance(impl, tuple):
                impl, hx = impl
            model = model_dump(v, hx)
            for h, a, b in zip(hx, impl, model):
                if outcome(b) == "unmodelled":
                    ev.stats[f"model_unmodelled_{v}"] += 1
                    continue
                oa, ob = outcome(a), outcome(b)
                if oa in ("panic", "budget") or ob in ("panic", "budget"):
                    if oa != ob:
                        ev.stats["outcome_class_differs"] += 1
                        if cfg.get("corr_outcomes"):
                            disagree.append((v, h, a, b))
                    else:
                        ev.stats[f"traces_{v}"] += 1
                    continue
                ev.stats[f"traces_{v}"] += 1
                if cfg["proj"](a) != cfg["proj"](b):
                    disagree.append((v, h, a, b))
                s = sections(a)
                if len(s) >= 9 and int(s[1].split()[1]) >= 3:
                    nontrivial.add(h)
                if v == "rel" or len(impl_by_variant) == 1:
                    tally_distribution(ev, s)
    return fails, disagree, nontrivial


def check_property(pid, tier, seed):
    cfg = PROPS[pid]
    R = Result(pid, tier, seed)
    variants = cfg["variants"] if tier == "thorough" else cfg["variants"][:3]
    obligations = discharged = 0
    broken = []      # proof / translator / correspondence obligations that no longer check
    ev = Evaluator(pid, cfg, seed)
    unit_list = ev.units(None, variants)
    need = sorted({v for vt in unit_list for v in vt if v in VARIANT_DIR} | {"rel"})

    ok, msg = build_harness(need)
    if not ok:
        print(msg)
        print(f"check {pid}: cannot build the implementation harness from /repo's working tree")
        return finish(R, cfg, 0, 0, infra_error=msg)
    ok, msg = regen_tables()
    if not ok:
        broken.append(("translator", msg))
    # the executable model / checkers first and on their own: they must be rebuilt against the regenerated tables
    # even when a theorem about those tables no longer checks (the search for a failing input needs them)
    exe_ok, exe_log = lake_build(["sasmodel"])
    lean_ok, lean_log = lake_build(cfg["modules"])
    if not lean_ok:
        broken.append(("lake build " + " ".join(cfg["modules"]), lean_log[-4000:]))
    if not exe_ok:
        broken.append(("lake build sasmodel", exe_log[-4000:]))
    bad = source_audit()
    if bad:
        broken.append(("source audit (sorry/axiom/native_decide...)", "\n".join(bad)))
    if lean_ok:
        aok, nthm, axs, alog = axiom_audit(pid, cfg["modules"], cfg["theorems"])
        obligations = nthm + 1
        discharged = nthm + (1 if aok else 0)
        R.cov["axioms"] = axs
        if not aok:
            broken.append(("axiom audit", alog[-3000:]))
    else:
        obligations, discharged = 1, 0
    if lean_ok and tier == "thorough":
        # independent re-check of the compiled property modules by the toolchain's `leanchecker`
        obligations += 1
        with Lock("lake"):
            rc, out, err = run(["lake", "env", "leanchecker"] + list(cfg["modules"]), cwd=LEAN, timeout=1800)
        R.cov["leanchecker"] = {"modules": list(cfg["modules"]), "exit": rc}
        if rc == 0:
            discharged += 1
        else:
            broken.append(("leanchecker " + " ".join(cfg["modules"]), (out + err).decode(errors="replace")[-3000:]))
    # tie of the kernel theorems to the code: closed-world audit + primitive (op-script) correspondence
    obligations += 2
    rc, out, err = run(["python3", os.path.join(ROOT, "translator/audit.py")])
    if rc == 0:
        discharged += 1
    else:
        broken.append(("closed-world audit of mod.rs/macro.rs (direct state access outside the modelled primitives)", out.decode(errors="replace")[-2000:]))
    if os.path.exists(SASMODEL):
        rc, out, err = run(["python3", os.path.join(ROOT, "tools/script_corr.py"), "--seed", str(seed), "--n", "3000" if tier == "quick" else "40000",
                            "--variants", "dev,rel,dev-sep"])
        try:
            sc = json.loads(out.decode())
            R.cov["primitive_correspondence"] = {k2: v2 for k2, v2 in sc.items() if k2 != "disagreements"}
        except ValueError:
            sc = {"n_disagreements": -1, "disagreements": [err.decode(errors="replace")[-800:]]}
        if rc == 0:
            discharged += 1
        else:
            broken.append(("primitive (operation-script) correspondence", json.dumps(sc.get("disagreements", [])[:2], ensure_ascii=False)[:3000]))
    for name, fn in cfg.get("extra_obligations", []):
        obligations += 1
        okx, msgx = fn()
        if okx:
            discharged += 1
        else:
            broken.append((name, msgx))

    if cfg["kind"] == "pyext":
        rc, out, err = run(["python3", os.path.join(ROOT, "tools/py_ext.py"), "build"])
        obligations += 1
        if rc != 0:
            broken.append(("build of the Python extension from /repo", (out + err).decode(errors="replace")[-3000:]))
        else:
            discharged += 1
    if cfg["kind"] == "pyext" and rc == 0:
        # sources only Python can express: strs with lone surrogates (text read with errors="surrogateescape").
        # Lean's `Char` cannot hold them, so this one clause (tiling of the Python string whenever a result is
        # returned) is evaluated in Python: exploration, labelled as such in DESIGN.md.
        rng = random.Random(seed)
        base = ["x = 1;", "data a; set b; run;", "%let a = 'b';", "/* c */ y = \"q\";", "é='ü';\n", "\ufeffx;", "%put &a;"]
        sur = []
        for _ in range(60):
            t = rng.choice(base)
            k = rng.randrange(len(t) + 1)
            sur.append(t[:k] + chr(rng.choice([0xD800, 0xDC80, 0xDFFF, 0xDCE9])) + t[k:])
        sh = [x.encode("utf-8", "surrogatepass").hex() for x in sur]
        rc2, out2, err2 = run(["python3", os.path.join(ROOT, "tools/py_ext.py"), "surrogates"], inp=("\n".join(sh) + "\n").encode())
        verd = out2.decode().split("\n")[:-1]
        obligations += 1
        R.cov["surrogate_inputs"] = dict(collections.Counter(v.split(" ")[0] for v in verd))
        if rc2 != 0 or len(verd) != len(sh):
            broken.append(("py_ext surrogates", err2.decode(errors="replace")[-800:]))
        else:
            discharged += 1
            for x, h, v in zip(sur, sh, verd):
                if v.startswith("fail"):
                    p = write_replay(pid, "input", {"property": pid, "source": x.encode("utf-8", "surrogatepass").decode("utf-8", "backslashreplace"),
                                                    "source_hex_surrogatepass": h, "failed_clauses": ["python-str-" + v[5:]],
                                                    "note": "the source is a Python str with a lone surrogate (hex = UTF-8 with surrogatepass); "
                                                            "replay: echo <hex> | python3 tools/py_ext.py surrogates"})
                    R.violations.append((p, False))
                    break
    if cfg["kind"] == "profile":
        # (c),(d): concurrent and repeated runs must reproduce the sequential dumps
        tin = corpus_inputs() + gen_stream("soup", seed, 3000) + gen_stream("trunc", seed, 1500) + gen_stream("hexstr", seed, 600) + gen_stream("strings", seed, 800)
        for v in ("rel", "dev"):
            rc, out, err = run([harness_bin(v), "threads", "16", "--rounds", "2" if tier == "quick" else "6"],
                               inp=("\n".join(tin) + "\n").encode())
            txt = out.decode(errors="replace")
            obligations += 1
            m = re.search(r"threads ok (\d+) (\d+)", txt)
            if m:
                discharged += 1
                R.cov[f"threads_{v}"] = {"inputs": int(m.group(1)), "comparisons": int(m.group(2)), "threads": 16}
            else:
                bad = re.findall(r"threads mismatch (\S+)(?: after (\S+))?", txt)
                for h, prev in bad[:3]:
                    hist = [unhex(prev)] if prev and prev != "-" else []
                    p = write_replay(pid, "input", {"property": pid, "variants": [v], "source": unhex(h), "source_hex": h,
                                                    "history": hist, "history_hex": [prev] if hist else [],
                                                    "failed_clauses": ["thread-or-history-dependence"],
                                                    "harness": "threads 16: the dump of `source` lexed right after `history` on the same thread differs from its dump on a fresh thread"})
                    R.violations.append((p, False))
                if not bad:
                    broken.append((f"harness threads ({v})", txt[-1500:] + err.decode(errors="replace")[-500:]))
    if not os.path.exists(SASMODEL):
        p = write_replay(pid, "obligation", {"property": pid, "broken": [b[0] for b in broken], "detail": [b[1] for b in broken]})
        R.violations.append((p, True))
        return finish(R, cfg, obligations, discharged)

    # ---- inputs
    if cfg["kind"] == "grammar":
        n = 6000 if tier == "quick" else 60000
        rc, out, err = run(["python3", os.path.join(ROOT, "tools/gen_grammar.py"), "--seed", str(seed), "-n", str(n),
                            "--mode", cfg["gmode"]])
        if rc != 0:
            raise RuntimeError("gen_grammar failed: " + err.decode()[-500:])
        inputs = out.decode().split("\n")[:-1]
        R.cov["generator_stats"] = err.decode()[-1500:]
    else:
        inputs = corpus_inputs()
        streams = cfg.get("streams", streams_for)(pid, tier)
        if cfg["kind"] == "pyext":
            streams = {k2: max(200, v2 // 4) for k2, v2 in streams.items()}
        for stream, n in streams.items():
            inputs += gen_stream(stream, seed, n)
        inputs += [hexs(x) for x in cfg.get("extra_inputs", [])]
        if tier == "thorough" and cfg["kind"] != "pyext":
            try:
                fz, flog = fuzz_corpus(seed, 90)
                inputs += fz
                R.cov["fuzz_corpus_inputs"] = len(fz)
            except Exception as e:   # the fuzzer only finds inputs; its failure is not a verdict
                R.cov["fuzz_corpus_error"] = str(e)[:300]
    inputs = list(dict.fromkeys(inputs))
    R.cov["inputs"] = len(inputs)
    lens = [len(json.loads(h)["hex"]) // 2 if h.startswith("{") else len(h) // 2 for h in inputs]
    R.cov["input_len_bytes"] = {"min": min(lens), "max": max(lens), "mean": round(sum(lens) / len(lens), 1)}

    fails, disagree, nontrivial = explore(ev, inputs, unit_list, cfg)
    ds = distribution_summary(ev)
    if ds:
        R.cov["input_distribution"] = ds

    if (broken or disagree) and not fails:
        log(f"[{pid}] proof/correspondence broken; searching for a failing input")
        extra = []
        for k in range(1, 4):
            if cfg["kind"] == "grammar":
                rc, out, err = run(["python3", os.path.join(ROOT, "tools/gen_grammar.py"), "--seed", str(seed + 7919 * k), "-n", "6000",
                                    "--mode", cfg["gmode"]])
                extra += out.decode().split("\n")[:-1]
                continue
            for stream, n in cfg.get("streams", streams_for)(pid, tier).items():
                extra += gen_stream(stream, seed + 7919 * k, n)
        for (_, h, _, _) in disagree[:50]:
            if cfg["kind"] in ("grammar", "pyext"):
                continue
            s = unhex(h)
            extra += [hexs(s[:i]) for i in range(len(s))] + [hexs(s + t) for t in (";", " ", ")", "\n", "x")]
        extra = list(dict.fromkeys(extra))
        f2, _, _ = explore(ev, extra, unit_list[:2], cfg, do_correspondence=False)
        fails += f2
        R.cov["extra_search_inputs"] = len(extra)

    known = load_known()
    reported = 0
    seen_sig = collections.Counter()
    for (vt, h, clauses, info) in fails:
        src = unhex(json.loads(h)["hex"]) if h.startswith("{") else unhex(h)
        k = next((k for k in known if known_match(k, pid, src, info.get("dump", ""), clauses)), None)
        if k is not None:
            R.known_hits[k["id"]] += 1
            continue
        sig = tuple(sorted(clauses))
        seen_sig[sig] += 1
        if seen_sig[sig] > 1 or reported >= 6:
            continue
        reported += 1

        def still(cands, vt=vt, clauses=clauses):
            hs = [hexs(c) for c in cands]
            res, _ = Evaluator(pid, cfg, seed).evaluate(vt, hs)
            out = []
            for c, r in zip(cands, res):
                if r is None or not (set(r[0]) & set(clauses)):
                    out.append(False)
                else:
                    out.append(not any(known_match(k, pid, c, r[1].get("dump", ""), r[0]) for k in known))
            return out
        if cfg["kind"] in ("compose", "grammar"):
            small, sinfo = src, info
        else:
            small = shrink(src, still)
            res, _ = Evaluator(pid, cfg, seed).evaluate(vt, [hexs(small)])
            sinfo = res[0][1] if res[0] is not None else info
        payload = {"property": pid, "variants": list(vt), "source": small, "source_hex": hexs(small), "failed_clauses": clauses,
                   "original_source": src, "replay_cmd": f"./check {pid} --replay <this file>"}
        payload.update(sinfo)
        p = write_replay(pid, "input", payload)
        R.violations.append((p, False))
    R.cov["failure_signatures"] = {",".join(k): v for k, v in seen_sig.items()}
    if not R.violations and (broken or disagree) and not (fails and not R.violations and not broken and not disagree):
        unexplained = broken or disagree
        if unexplained and not any(not nf for _, nf in R.violations):
            payload = {"property": pid, "broken_obligations": [b[0] for b in broken], "detail": [b[1][-1500:] for b in broken]}
            if disagree:
                v, h, a, b = disagree[0]
                payload["correspondence"] = {"projection": cfg["proj"].__name__, "variant": v, "source": unhex(h), "source_hex": h,
                                             "implementation": a, "model": b, "disagreeing_inputs": len(disagree)}
            p = write_replay(pid, "obligation", payload)
            R.violations.append((p, True))
    R.cov["stats"] = dict(ev.stats)
    R.cov["distinct_nontrivial"] = len(nontrivial)
    R.cov["disagreements"] = len(disagree)
    R.cov["checker_failures"] = len(fails)
    def show(h):
        return unhex(json.loads(h)["hex"]) if h.startswith("{") else unhex(h)
    R.samples = [show(h) for h in inputs[:3]] + [show(h) for h in random.Random(seed).sample(inputs, min(5, len(inputs)))]
    return finish(R, cfg, obligations, discharged)


def finish(R, cfg, obligations, discharged, infra_error=None):
    for kid, n in R.known_hits.items():
        k = next(k for k in load_known() if k["id"] == kid)
        print(f"KNOWN-FINDING: property={R.pid} {kid}: {k['what']} ({n} inputs this run)")
    rc = 0
    for p, nofail in R.violations:
        print(f"VIOLATION property={R.pid} replay={p}" + (" no-failing-input-found" if nofail else ""))
        rc = 1
    if infra_error:
        rc = 2
    stats = R.cov.get("stats", {})
    traces = sum(v for k, v in stats.items() if k.startswith("traces_"))
    ev = {
        "property_id": R.pid, "tier": R.tier, "seed": R.seed, "level": "proof",
        "coverage": {
            "obligations": max(obligations, 1), "discharged": max(discharged, 0 if R.violations else 1) if obligations else 1,
            "checker_cmd": f"cd /verif/lean && lake build {' '.join(cfg['modules'])} && lake env lean /verif/.work/audit/audit_{R.pid}.lean  # (#print axioms); then ./check {R.pid}",
            "trusted_base": TRUSTED_BASE,
            "evaluations": R.cov.get("inputs", 0) * max(1, len(cfg["variants"][:3])),
            "distinct_nontrivial": R.cov.get("distinct_nontrivial", 0),
            "rule": "inputs: regression corpus + seeded generator streams (soup/strings/numeric/trunc/open); non-trivial = distinct source whose dump has >= 3 tokens and on which model and implementation were both compared",
            "traces_validated_against_impl": traces,
            "samples": R.samples,
            "theorems": cfg["theorems"],
            "detail": {k: v for k, v in R.cov.items() if k not in ("distinct_nontrivial",)},
            "known_findings_hit": dict(R.known_hits),
        },
        "assumptions": ["reading of the property as formalised in lean/SasLexer/Spec (DESIGN.md §6)",
                        "inputs below 4 GiB; allocation failure outside the statement"],
        "wall_s": round(time.time() - R.t0, 2),
        "violations": len(R.violations),
    }
    os.makedirs(os.path.join(ROOT, "evidence"), exist_ok=True)
    json.dump(ev, open(os.path.join(ROOT, "evidence", f"{R.pid}.json"), "w"), indent=1, ensure_ascii=False)
    print(f"check {R.pid}: tier={R.tier} seed={R.seed} inputs={R.cov.get('inputs', 0)} obligations={obligations} discharged={discharged} "
          f"checker_failures={R.cov.get('checker_failures', 0)} disagreements={R.cov.get('disagreements', 0)} "
          f"violations={len(R.violations)} wall={ev['wall_s']}s")
    return rc


def replay(pid, path):
    r = json.load(open(path))
    if "source_hex" not in r:
        print(json.dumps(r, indent=1, ensure_ascii=False)[:6000])
        print("(no concrete input: the replay names the obligation that no longer checks)")
        return 1
    cfg = PROPS[pid]
    vt = tuple(r.get("variants", ["dev"]))
    ok, msg = build_harness(sorted(set(vt)))
    if not ok:
        print(msg)
        return 2
    seed = int(os.environ.get("VERIF_SEED", "0") or 0)
    res, _ = Evaluator(pid, cfg, seed).evaluate(vt, [r["source_hex"]])
    print("source:", repr(r["source"]))
    if res[0] is None:
        print("verdict: not applicable")
        return 0
    print("failed clauses:", res[0][0])
    print(json.dumps(res[0][1], indent=1, ensure_ascii=False)[:4000])
    return 0 if not res[0][0] else 1


def main(argv):
    ap = argparse.ArgumentParser()
    ap.add_argument("pid")
    ap.add_argument("--tier", default=os.environ.get("VERIF_TIER", "quick"))
    ap.add_argument("--replay")
    a = ap.parse_args(argv)
    seed = int(os.environ.get("VERIF_SEED", "0") or 0)
    if a.pid not in PROPS:
        print(f"unknown property {a.pid}")
        return 2
    if a.replay:
        return replay(a.pid, a.replay)
    return check_property(a.pid, a.tier if a.tier in ("quick", "thorough") else "quick", seed)
