#!/usr/bin/env python3
"""Shared machinery of ./check (see its docstring)."""
import argparse, collections, fcntl, hashlib, json, os, random, re, subprocess, sys, time

ROOT = "/verif"
WORK = os.path.join(ROOT, ".work")
LEAN = os.path.join(ROOT, "lean")
GEN = os.path.join(LEAN, "SasLexer", "Gen")
REPO = "/repo"
SASMODEL = os.path.join(LEAN, ".lake/build/bin/sasmodel")
VARIANT_DIR = {"dev": "target-dev/debug", "rel": "target-rel/release", "dev-sep": "target-dev-sep/debug",
               "rel-sep": "target-rel-sep/release", "nightly-rel-sep": "target-nightly-rel-sep/release"}
ALLOWED_AXIOMS = {"propext", "Classical.choice", "Quot.sound"}
TRUSTED_BASE = [
    "Lean 4.33 kernel; axioms limited to propext, Classical.choice, Quot.sound (audited by #print axioms on every run)",
    "Lean compiler/runtime for the executable model and the compiled specification predicates",
    "translator /verif/translator/*.py (tables regenerated from /repo on every run)",
    "correspondence harness /verif/harness (+ cfg(sas_lexer_verif) hooks in /repo) and its input streams (differential testing, not exhaustive)",
    "modelled, not verified: lexical (number parsing), encoding (ISO-8859-1), unicode-ident/std char tables (dumped), Vec/String, rustc",
]


def log(*a):
    print(*a, file=sys.stderr, flush=True)


def run(cmd, inp=None, cwd=None, env=None, timeout=None):
    e = dict(os.environ)
    e["CARGO_NET_OFFLINE"] = "true"
    if env:
        e.update(env)
    p = subprocess.run(cmd, input=inp, cwd=cwd, env=e, capture_output=True, timeout=timeout)
    return p.returncode, p.stdout, p.stderr


class Lock:
    def __init__(self, name):
        os.makedirs(WORK, exist_ok=True)
        self.f = open(os.path.join(WORK, name + ".lock"), "w")

    def __enter__(self):
        fcntl.flock(self.f, fcntl.LOCK_EX)

    def __exit__(self, *a):
        fcntl.flock(self.f, fcntl.LOCK_UN)


# ---------------------------------------------------------------- builds

def write_if_changed(path, content):
    try:
        if open(path).read() == content:
            return
    except OSError:
        pass
    open(path, "w").write(content)


def build_harness(variants):
    """(ok, message)"""
    with Lock("cargo"):
        for v in variants:
            rc, out, err = run([os.path.join(ROOT, "tools/build_harness.sh"), v])
            if rc != 0:
                return False, f"harness build failed for variant {v}:\n" + err.decode(errors="replace")[-3000:]
    return True, ""


def harness_bin(variant):
    return os.path.join(WORK, VARIANT_DIR[variant], "harness")


def regen_tables():
    """run the translator; returns (ok, message)"""
    env = {"VERIF_REPO": REPO, "VERIF_GEN_OUT": os.path.join(WORK, "gen-tmp")}
    os.makedirs(env["VERIF_GEN_OUT"], exist_ok=True)
    for script in sorted(os.listdir(os.path.join(ROOT, "translator"))):
        if not script.startswith("gen_") or not script.endswith(".py") or script == "gen_unicode.py":
            continue
        rc, out, err = run(["python3", os.path.join(ROOT, "translator", script)], env=env)
        if rc != 0:
            return False, f"translator {script} failed: " + err.decode(errors="replace")[-2000:]
    # unicode tables through the linked crates
    uni = os.path.join(WORK, "unicode.txt")
    rc, out, err = run([harness_bin("rel"), "unicode", "--out", uni])
    if rc != 0:
        return False, "harness unicode failed: " + err.decode(errors="replace")[-2000:]
    rc, out, err = run(["python3", os.path.join(ROOT, "translator/gen_unicode.py"), uni], env=env)
    if rc != 0:
        return False, "translator gen_unicode failed: " + err.decode(errors="replace")[-2000:]
    for f in os.listdir(env["VERIF_GEN_OUT"]):
        write_if_changed(os.path.join(GEN, f), open(os.path.join(env["VERIF_GEN_OUT"], f)).read())
    return True, ""


def lake_build(targets):
    with Lock("lake"):
        rc, out, err = run(["lake", "build"] + targets, cwd=LEAN)
    txt = (out + err).decode(errors="replace")
    return rc == 0, txt


FORBIDDEN = re.compile(r"\bsorry\b|\badmit\b|^axiom\s|native_decide|bv_decide|implemented_by|\bunsafe\s|maxHeartbeats\s+0", re.M)


def strip_lean_comments(src):
    src = re.sub(r"/-.*?-/", "", src, flags=re.S)
    return re.sub(r"--.*", "", src)


def source_audit():
    bad = []
    for dp, dn, fn in os.walk(os.path.join(LEAN, "SasLexer")):
        for f in fn:
            if f.endswith(".lean"):
                p = os.path.join(dp, f)
                m = FORBIDDEN.search(strip_lean_comments(open(p).read()))
                if m:
                    bad.append(f"{p}: {m.group(0).strip()}")
    m = FORBIDDEN.search(strip_lean_comments(open(os.path.join(LEAN, "Main.lean")).read()))
    if m and "partial" not in m.group(0):
        bad.append("Main.lean: " + m.group(0))
    return bad


def axiom_audit(pid, modules, theorems):
    """returns (ok, n_theorems_in_env, {theorem: [axioms]}, log)"""
    os.makedirs(os.path.join(WORK, "audit"), exist_ok=True)
    path = os.path.join(WORK, "audit", f"audit_{pid}.lean")
    L = [f"import {m}" for m in modules] + ["import Lean", "open Lean Elab Command",
         "#eval show CommandElabM Unit from do",
         "  let env ← getEnv",
         "  let mut n : Nat := 0",
         "  for (name, ci) in env.constants.toList do",
         "    if (`SasLexer).isPrefixOf name && !name.isInternalDetail then",
         "      if let .thmInfo _ := ci then",
         "        if (← Lean.findDeclarationRanges? name).isSome then n := n + 1",
         "  logInfo m!\"THEOREMS {n}\""]
    for t in theorems:
        L.append(f"#print axioms {t}")
    open(path, "w").write("\n".join(L) + "\n")
    with Lock("lake"):
        rc, out, err = run(["lake", "env", "lean", path], cwd=LEAN)
    txt = (out + err).decode(errors="replace")
    if rc != 0:
        return False, 0, {}, txt
    n = int(re.search(r"THEOREMS (\d+)", txt).group(1))
    axs = {}
    for m in re.finditer(r"'([^']+)' depends on axioms: \[([^\]]*)\]", txt):
        axs[m.group(1)] = [a.strip() for a in m.group(2).replace("\n", " ").split(",") if a.strip()]
    for m in re.finditer(r"'([^']+)' does not depend on any axioms", txt):
        axs[m.group(1)] = []
    ok = all(t in axs and set(axs[t]) <= ALLOWED_AXIOMS for t in theorems)
    return ok, n, axs, txt


# ---------------------------------------------------------------- running things

def hexs(s):
    return s.encode("utf-8").hex()


def unhex(h):
    return bytes.fromhex(h).decode("utf-8", "replace")


def gen_stream(stream, seed, n, maxfrags=10):
    rc, out, err = run(["python3", os.path.join(ROOT, "tools/gen_inputs.py"), stream, "--seed", str(seed), "-n", str(n),
                        "--maxfrags", str(maxfrags)])
    if rc != 0:
        raise RuntimeError("gen_inputs failed: " + err.decode())
    return out.decode().split("\n")[:-1]


def corpus_inputs():
    out = []
    d = os.path.join(ROOT, "corpus")
    if os.path.isdir(d):
        for f in sorted(os.listdir(d)):
            if f.endswith(".hex"):
                out += [l.strip() for l in open(os.path.join(d, f)) if l.strip() != "" or True]
    return [h for h in out if re.fullmatch(r"[0-9a-f]*", h)]


def impl_dump(variant, hexes, extra=()):
    inp = ("\n".join(hexes) + "\n").encode()
    rc, out, err = run([harness_bin(variant), "dump"] + list(extra), inp=inp)
    lines = out.decode(errors="replace").split("\n")[:-1]
    if rc != 0 or len(lines) != len(hexes):
        raise RuntimeError(f"harness {variant} failed rc={rc} lines={len(lines)}/{len(hexes)}: " + err.decode(errors="replace")[-500:])
    return lines


def model_dump(variant, hexes):
    dbg = "1" if variant.startswith("dev") else "0"
    sep = "1" if variant.endswith("sep") else "0"
    inp = ("\n".join(hexes) + "\n").encode()
    rc, out, err = run([SASMODEL, "dump", dbg, sep], inp=inp)
    lines = out.decode(errors="replace").split("\n")[:-1]
    if rc != 0 or len(lines) != len(hexes):
        raise RuntimeError(f"sasmodel failed rc={rc} lines={len(lines)}/{len(hexes)}: " + err.decode(errors="replace")[-500:])
    return lines


def lean_check(records):
    """records: list of tab-joined fields (prop, ...). returns verdict strings."""
    if not records:
        return []
    inp = ("\n".join(records) + "\n").encode()
    rc, out, err = run([SASMODEL, "check"], inp=inp)
    lines = out.decode(errors="replace").split("\n")[:-1]
    if rc != 0 or len(lines) != len(records):
        raise RuntimeError(f"sasmodel check failed rc={rc} lines={len(lines)}/{len(records)}: " + err.decode(errors="replace")[-500:])
    return lines


def sections(dump):
    return dump.split(" | ")


def outcome(dump):
    return dump.split(" ", 1)[0]


def sec_ints(sec, width):
    w = sec.split()
    n = int(w[1])
    if n <= 0:
        return []
    xs = w[2:]
    return [tuple(xs[i * width:(i + 1) * width]) for i in range(n)]


# projections (strings compared between implementation and model)
def proj_full(d):
    return d


def proj_positions(d):
    s = sections(d)
    if len(s) < 9:
        return d
    return (outcome(d), tuple((t[2], t[3]) for t in sec_ints(s[1], 8)), tuple((e[1], e[2]) for e in sec_ints(s[4], 6)))


def proj_tok_bytes(d):
    s = sections(d)
    if len(s) < 9:
        return d
    return (outcome(d), tuple((t[1], t[2]) for t in sec_ints(s[1], 8)), s[6])


def proj_lines(d):
    s = sections(d)
    if len(s) < 9:
        return d
    return (outcome(d), tuple((t[2], t[3], t[4]) for t in sec_ints(s[1], 8)), s[2],
            tuple((e[1], e[2], e[3], e[4]) for e in sec_ints(s[4], 6)), s[5])


def proj_views(d):
    s = sections(d)
    if len(s) < 9:
        return d
    return (outcome(d), s[5], s[6])


def proj_errors(d):
    s = sections(d)
    if len(s) < 9:
        return d
    return (outcome(d), tuple((t[1], t[2]) for t in sec_ints(s[1], 8)), s[4])


# ---------------------------------------------------------------- known findings

def load_known():
    p = os.path.join(ROOT, "known_findings.json")
    if not os.path.exists(p):
        return []
    return [k for k in json.load(open(p)).get("findings", []) if k.get("status", "open") == "open"]


def known_match(k, pid, src, dump, clauses):
    if k["property"] != pid:
        return False
    if "clauses" in k and not (set(clauses) & set(k["clauses"])):
        return False
    m = k.get("match", {})
    if "source_regex" in m and not re.search(m["source_regex"], src, re.S | re.I):
        return False
    if "error_kind" in m:
        s = sections(dump)
        kinds = {e[0] for e in sec_ints(s[4], 6)} if len(s) >= 9 else set()
        if str(m["error_kind"]) not in kinds:
            return False
    if "outcome_regex" in m and not re.search(m["outcome_regex"], dump.split(" | ")[0]):
        return False
    return True


# ---------------------------------------------------------------- shrinking

def shrink(src, still_fails, budget=40):
    """greedy chunk-removal minimisation; still_fails(list of candidate strings) -> list of bool"""
    cur = src
    n = 2
    rounds = 0
    while len(cur) >= 2 and rounds < budget:
        rounds += 1
        size = max(1, len(cur) // n)
        cands = [cur[:i] + cur[i + size:] for i in range(0, len(cur), size)]
        cands = [c for c in cands if c != cur]
        res = still_fails(cands)
        hit = next((c for c, r in zip(cands, res) if r), None)
        if hit is not None:
            cur = hit
            n = max(n - 1, 2)
        elif size == 1:
            break
        else:
            n = min(n * 2, len(cur))
    return cur


# ---------------------------------------------------------------- property table

def streams_for(pid, tier):
    q = tier == "quick"
    base = {
        "soup": 12000 if q else 400000,
        "strings": 4000 if q else 100000,
        "numeric": 2000 if q else 50000,
        "trunc": 6000 if q else 200000,
        "open": 4000 if q else 100000,
    }
    return base


PROPS = {}


def prop(pid, **kw):
    PROPS[pid] = kw


prop("C02", modules=["SasLexer.Properties.C02"], theorems=["SasLexer.kernel_C02", "SasLexer.C02_model_partial"],
     variants=["dev", "rel", "dev-sep", "rel-sep"], proj=proj_tok_bytes)
prop("C03", modules=["SasLexer.Properties.C03"], theorems=["SasLexer.kernel_C03", "SasLexer.C03_model"],
     variants=["dev", "rel", "rel-sep"], proj=proj_positions)
prop("C04", modules=["SasLexer.Properties.C04"], theorems=["SasLexer.kernel_C04_sound"],
     variants=["dev", "rel", "rel-sep"], proj=proj_lines)
prop("C05", modules=["SasLexer.Properties.C05"], theorems=["SasLexer.C05_pure", "SasLexer.C05_model"],
     variants=["dev", "rel", "rel-sep"], proj=proj_views)
prop("C09", modules=["SasLexer.Properties.C09"], theorems=["SasLexer.kernel_C09_offsets"],
     variants=["dev", "rel", "rel-sep"], proj=proj_errors)


# ---------------------------------------------------------------- main check

class Result:
    def __init__(self, pid, tier, seed):
        self.pid, self.tier, self.seed = pid, tier, seed
        self.violations = []        # (replay_path, no_failing_input: bool)
        self.known_hits = collections.Counter()
        self.cov = collections.OrderedDict()
        self.samples = []
        self.t0 = time.time()


def write_replay(pid, kind, payload):
    d = os.path.join(WORK, "replay")
    os.makedirs(d, exist_ok=True)
    h = hashlib.sha1(json.dumps(payload, sort_keys=True).encode()).hexdigest()[:10]
    p = os.path.join(d, f"{pid}-{kind}-{h}.json")
    json.dump(payload, open(p, "w"), indent=1, ensure_ascii=False)
    return p


def single_dump_check(pid, cfg, R, inputs, variants):
    """judge every implementation dump with the Lean predicate; correspondence on the projection.
    Returns (fails, disagreements): fails = list of (variant, hex, dump, clauses)"""
    fails, disagree = [], []
    stats = collections.Counter()
    nontrivial = set()
    for v in variants:
        impl = impl_dump(v, inputs)
        ok_idx = [i for i, d in enumerate(impl) if outcome(d) == "ok"]
        stats[f"impl_{v}_ok"] = len(ok_idx)
        stats[f"impl_{v}_panic"] = sum(1 for d in impl if outcome(d) == "panic")
        stats[f"impl_{v}_budget"] = sum(1 for d in impl if outcome(d) == "budget")
        verd = lean_check([f"{pid}\t{inputs[i]}\t{impl[i]}" for i in ok_idx])
        for i, vd in zip(ok_idx, verd):
            if vd != "ok":
                fails.append((v, inputs[i], impl[i], vd[5:].split(",") if vd.startswith("fail ") else [vd]))
        model = model_dump(v, inputs)
        unm = 0
        for i, (a, b) in enumerate(zip(impl, model)):
            if outcome(b) == "unmodelled":
                unm += 1
                continue
            if outcome(a) in ("panic", "budget") or outcome(b) in ("panic", "budget"):
                # totality is C01's subject; here only note whether the two sides agree on the class
                if outcome(a) != outcome(b):
                    stats["outcome_class_differs(C01 matter)"] += 1
                continue
            stats[f"traces_{v}"] += 1
            if cfg["proj"](a) != cfg["proj"](b):
                disagree.append((v, inputs[i], a, b))
            if len(sections(a)) >= 9 and int(sections(a)[1].split()[1]) >= 3:
                nontrivial.add(inputs[i])
        stats[f"model_unmodelled_{v}"] = unm
    return fails, disagree, stats, nontrivial


def check_property(pid, tier, seed):
    cfg = PROPS[pid]
    R = Result(pid, tier, seed)
    variants = cfg["variants"] if tier == "thorough" else cfg["variants"][:3]
    obligations = discharged = 0
    broken = []      # proof / translator / correspondence obligations that no longer check

    ok, msg = build_harness(sorted(set(variants) | {"rel"}))
    if not ok:
        print(msg)
        print(f"check {pid}: cannot build the implementation harness from /repo's working tree")
        return finish(R, cfg, 0, 0, infra_error=msg)
    ok, msg = regen_tables()
    if not ok:
        broken.append(("translator", msg))
    lean_ok, lean_log = lake_build(cfg["modules"] + ["sasmodel"])
    if not lean_ok:
        broken.append(("lake build " + " ".join(cfg["modules"]), lean_log[-4000:]))
    bad = source_audit()
    if bad:
        broken.append(("source audit (sorry/axiom/native_decide...)", "\n".join(bad)))
    if lean_ok:
        aok, nthm, axs, alog = axiom_audit(pid, cfg["modules"], cfg["theorems"])
        obligations = nthm + 1
        discharged = nthm + (1 if aok else 0)
        R.cov["axioms"] = axs
        if not aok:
            broken.append(("axiom audit", alog[-3000:]))
    else:
        obligations, discharged = 1, 0

    if not os.path.exists(SASMODEL):
        # cannot evaluate anything without the compiled predicates
        p = write_replay(pid, "obligation", {"property": pid, "broken": [b[0] for b in broken], "detail": [b[1] for b in broken]})
        R.violations.append((p, True))
        return finish(R, cfg, obligations, discharged)

    # ---- inputs
    inputs = corpus_inputs()
    for stream, n in streams_for(pid, tier).items():
        inputs += gen_stream(stream, seed, n)
    inputs = list(dict.fromkeys(inputs))
    R.cov["inputs"] = len(inputs)
    lens = [len(h) // 2 for h in inputs]
    R.cov["input_len_bytes"] = {"min": min(lens), "max": max(lens), "mean": round(sum(lens) / len(lens), 1)}

    fails, disagree, stats, nontrivial = single_dump_check(pid, cfg, R, inputs, variants)
    R.cov["stats"] = dict(stats)
    R.cov["distinct_nontrivial"] = len(nontrivial)

    if (broken or disagree) and not fails:
        # search harder before giving up: more inputs, other seeds
        log(f"[{pid}] proof/correspondence broken; searching for a failing input")
        extra = []
        for k in range(1, 4):
            for stream, n in streams_for(pid, tier).items():
                extra += gen_stream(stream, seed + 7919 * k, n)
        for (_, h, _, _) in disagree[:50]:
            s = unhex(h)
            extra += [hexs(s[:i]) for i in range(len(s))] + [hexs(s + t) for t in (";", " ", ")", "\n", "x")]
        extra = list(dict.fromkeys(extra))
        f2, _, _, _ = single_dump_check(pid, cfg, R, extra, variants[:2])
        fails += f2
        R.cov["extra_search_inputs"] = len(extra)

    known = load_known()
    reported = 0
    seen_sig = set()
    for (v, h, d, clauses) in fails:
        src = unhex(h)
        k = next((k for k in known if known_match(k, pid, src, d, clauses)), None)
        if k is not None:
            R.known_hits[k["id"]] += 1
            continue
        sig = (tuple(sorted(clauses)))
        if sig in seen_sig and reported >= 3:
            continue
        seen_sig.add(sig)
        reported += 1

        def still(cands, v=v, clauses=clauses):
            hs = [hexs(c) for c in cands]
            ds = impl_dump(v, hs)
            recs = [f"{pid}\t{x}\t{y}" for x, y in zip(hs, ds)]
            vs = lean_check(recs)
            return [vd.startswith("fail ") and bool(set(vd[5:].split(",")) & set(clauses)) and outcome(y) == "ok"
                    and not any(known_match(k, pid, c, y, vd[5:].split(",")) for k in known)
                    for vd, y, c in zip(vs, ds, cands)]
        small = shrink(src, still)
        sd = impl_dump(v, [hexs(small)])[0]
        p = write_replay(pid, "input", {"property": pid, "variant": v, "source": small, "source_hex": hexs(small),
                                        "failed_clauses": clauses, "dump": sd, "original_source": src,
                                        "replay_cmd": f"./check {pid} --replay <this file>"})
        R.violations.append((p, False))
    if not R.violations and not fails and (broken or disagree):
        payload = {"property": pid, "broken_obligations": [b[0] for b in broken], "detail": [b[1][-1500:] for b in broken]}
        if disagree:
            v, h, a, b = disagree[0]
            payload["correspondence"] = {"projection": cfg["proj"].__name__, "variant": v, "source": unhex(h), "source_hex": h,
                                         "implementation": a, "model": b, "disagreeing_inputs": len(disagree)}
        p = write_replay(pid, "obligation", payload)
        R.violations.append((p, True))
    R.cov["disagreements"] = len(disagree)
    R.cov["checker_failures"] = len(fails)
    R.samples = [unhex(h) for h in inputs[:3]] + [unhex(h) for h in random.Random(seed).sample(inputs, min(5, len(inputs)))]
    return finish(R, cfg, obligations, discharged)


def finish(R, cfg, obligations, discharged, infra_error=None):
    for kid, n in R.known_hits.items():
        k = next(k for k in load_known() if k["id"] == kid)
        print(f"KNOWN-FINDING: property={R.pid} {kid}: {k['what']} ({n} inputs this run)")
    rc = 0
    for p, nofail in R.violations:
        print(f"VIOLATION property={R.pid} replay={p}" + (" no-failing-input-found" if nofail else ""))
        rc = 1
    if infra_error:
        rc = 2
    stats = R.cov.get("stats", {})
    traces = sum(v for k, v in stats.items() if k.startswith("traces_"))
    ev = {
        "property_id": R.pid, "tier": R.tier, "seed": R.seed, "level": "proof",
        "coverage": {
            "obligations": max(obligations, 1), "discharged": max(discharged, 0 if R.violations else 1) if obligations else 1,
            "checker_cmd": f"cd /verif/lean && lake build {' '.join(cfg['modules'])} && lake env lean /verif/.work/audit/audit_{R.pid}.lean  # (#print axioms); then ./check {R.pid}",
            "trusted_base": TRUSTED_BASE,
            "evaluations": R.cov.get("inputs", 0) * max(1, len(cfg["variants"][:3])),
            "distinct_nontrivial": R.cov.get("distinct_nontrivial", 0),
            "rule": "inputs: regression corpus + seeded generator streams (soup/strings/numeric/trunc/open); non-trivial = distinct source whose dump has >= 3 tokens and on which model and implementation were both compared",
            "traces_validated_against_impl": traces,
            "samples": R.samples,
            "theorems": cfg["theorems"],
            "detail": {k: v for k, v in R.cov.items() if k not in ("distinct_nontrivial",)},
            "known_findings_hit": dict(R.known_hits),
        },
        "assumptions": ["reading of the property as formalised in lean/SasLexer/Spec (DESIGN.md §6)",
                        "inputs below 4 GiB; allocation failure outside the statement"],
        "wall_s": round(time.time() - R.t0, 2),
        "violations": len(R.violations),
    }
    os.makedirs(os.path.join(ROOT, "evidence"), exist_ok=True)
    json.dump(ev, open(os.path.join(ROOT, "evidence", f"{R.pid}.json"), "w"), indent=1, ensure_ascii=False)
    print(f"check {R.pid}: tier={R.tier} seed={R.seed} inputs={R.cov.get('inputs', 0)} obligations={obligations} discharged={discharged} "
          f"checker_failures={R.cov.get('checker_failures', 0)} disagreements={R.cov.get('disagreements', 0)} "
          f"violations={len(R.violations)} wall={ev['wall_s']}s")
    return rc


def replay(pid, path):
    r = json.load(open(path))
    if "source_hex" not in r:
        print(json.dumps(r, indent=1, ensure_ascii=False))
        print("(no concrete input: the replay names the obligation that no longer checks)")
        return 1
    v = r.get("variant", "dev")
    ok, msg = build_harness([v])
    if not ok:
        print(msg)
        return 2
    d = impl_dump(v, [r["source_hex"]])[0]
    vd = lean_check([f"{pid}\t{r['source_hex']}\t{d}"])[0]
    print("source:", repr(r["source"]))
    print("dump:", d)
    print("verdict:", vd)
    return 0 if vd == "ok" else 1


def main(argv):
    ap = argparse.ArgumentParser()
    ap.add_argument("pid")
    ap.add_argument("--tier", default=os.environ.get("VERIF_TIER", "quick"))
    ap.add_argument("--replay")
    a = ap.parse_args(argv)
    seed = int(os.environ.get("VERIF_SEED", "0") or 0)
    if a.pid not in PROPS:
        print(f"unknown property {a.pid}")
        return 2
    if a.replay:
        return replay(a.pid, a.replay)
    return check_property(a.pid, a.tier if a.tier in ("quick", "thorough") else "quick", seed)
