#!/usr/bin/env python3
"""Long differential soak: model vs implementation over many seeds; logs disagreements to stdout
and collects disagreeing inputs in /verif/.work/soak_disagreements.hex"""
import subprocess, sys, os
seeds = range(int(sys.argv[1]), int(sys.argv[2]))
n = int(sys.argv[3]) if len(sys.argv) > 3 else 50000
maxfrags = sys.argv[4] if len(sys.argv) > 4 else "10"
tot = 0
for seed in seeds:
    for stream in ("soup", "strings", "numeric", "trunc", "open"):
        f = f"/tmp/soak-{os.getpid()}.hex"
        with open(f, "w") as fh:
            subprocess.run(["python3", "/verif/tools/gen_inputs.py", stream, "--seed", str(seed), "-n", str(n), "--maxfrags", maxfrags], stdout=fh)
        for v in ("dev", "rel", "dev-sep", "rel-sep"):
            out = subprocess.run(["python3", "/verif/tools/diffrun.py", f, "--variant", v, "--show", "3"], capture_output=True).stdout.decode()
            last = [l for l in out.splitlines() if l.startswith("same=")]
            print(seed, stream, v, last[0] if last else "??", flush=True)
            if "differ=0" not in out:
                print(out, flush=True)
                with open("/verif/.work/soak_disagreements.log", "a") as lg:
                    lg.write(f"seed={seed} stream={stream} variant={v}\n{out}\n")
        os.remove(f)
