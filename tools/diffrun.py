#!/usr/bin/env python3
"""Differential run: harness (implementation) vs sasmodel (Lean model) on a file of hex inputs.
usage: diffrun.py <inputs.hex> [--variant dev|rel|dev-sep|rel-sep] [--show N] [--lean-dir DIR]
Prints counts: same / differ / unmodelled (model stopped at a not-yet-modelled function), and
the first N disagreements (source text, first differing section)."""
import argparse, subprocess, sys, collections, os
ap = argparse.ArgumentParser()
ap.add_argument("inputs")
ap.add_argument("--variant", default="dev")
ap.add_argument("--show", type=int, default=5)
ap.add_argument("--lean-dir", default="/verif/lean")
a = ap.parse_args()
sub = {"dev": "target-dev/debug", "rel": "target-rel/release", "dev-sep": "target-dev-sep/debug", "rel-sep": "target-rel-sep/release"}[a.variant]
harness = f"/verif/.work/{sub}/harness"
dbg = "1" if a.variant.startswith("dev") else "0"
sep = "1" if a.variant.endswith("sep") else "0"
inp = open(a.inputs, "rb").read()
impl = subprocess.run([harness, "dump"], input=inp, capture_output=True).stdout.decode().splitlines()
model = subprocess.run([os.path.join(a.lean_dir, ".lake/build/bin/sasmodel"), "dump", dbg, sep], input=inp, capture_output=True).stdout.decode().splitlines()
srcs = inp.decode().splitlines()
if not (len(impl) == len(model) == len(srcs)):
    print("line count mismatch", len(srcs), len(impl), len(model)); sys.exit(1)
same = diff = unm = 0
why = collections.Counter()
shown = 0
for s, i, m in zip(srcs, impl, model):
    if m.startswith("unmodelled"):
        unm += 1; why[m.split(" | ")[0]] += 1; continue
    # panic messages: compare only the fact of a panic
    ik = i.split(" | "); mk = m.split(" | ")
    if ik[0].startswith("panic") and mk[0].startswith("panic"):
        same += 1; continue
    if i == m:
        same += 1; continue
    diff += 1
    if shown < a.show:
        shown += 1
        print("---- DIFF on", repr(bytes.fromhex(s).decode("utf-8", "replace")), " hex:", s)
        for x, y in zip(ik, mk):
            if x != y:
                print("  impl :", x[:400]); print("  model:", y[:400]); break
print(f"same={same} differ={diff} unmodelled={unm}")
for k, v in why.most_common(8):
    print("   ", v, k)
