#!/usr/bin/env python3
"""Input generators for the correspondence / checker streams.  Every random choice comes
from one PRNG seeded by --seed.  Output: one hex-encoded UTF-8 source per line.

streams:
  soup      fragment soup over the full alphabet (open code + macro)
  open      fragment soup over the macro-free open-code alphabet
  numeric   numeric literal spellings (boundary values, exponents, hex) in open code and %eval
  strings   quoted literals / string expressions / %str with escapes at every position
  trunc     all prefixes of soup programs
  progs     statement-level programs (realistic statements, %macro/%do wrappers, BOM, truncation)
  hexstr    hex string literals: every byte value 00..ff exhaustively, then random multi-pair / malformed ones
  uws       programs / soup with blanks replaced by non-ASCII or unusual whitespace
  nl, mb    soup / string / numeric programs mutated with line feeds / multi-byte characters
"""
import argparse, random, sys

OPEN_FRAGS = [
    " ", "  ", "\n", "\t", "\r\n", " ", " ", "　", ";", ";", ";", ";;;;", "a", "x", "b1", "_n_", "data", "run", "set", "if", "then", "else",
    "do", "end", "eq", "ne", "lt", "le", "gt", "ge", "and", "or", "not", "in", "input", "put", "format", "_all_", "datalines", "cards", "lines",
    "datalines4", "cards4", "lines4", "DataLines", "é", "été", "日本", "𝒳", "x1é", "﻿", "0", "1", "42", "1.5", ".5", "1.", "1e5", "1E-3", "1e", "1e+", "0ffx", "0FFX", "1fx",
    "9x", "abx", "12345678901234567890", "18446744073709551615", "18446744073709551616", "1e400", "00123", "1.2.3", "1x", "0x", "1d", "'", "''", "'a'", "'a''b'",
    "'41'x", "'4'x", "'4g'x", "'41,42'X", "'+1'x", "'a'b", "'a'd", "'a'dt", "'a'DT", "'a'n", "'a't", "'a'x", "'é'", "'\n'", '"', '""', '"a"', '"a""b"', '"41"x', '"a"d', '"a"dt',
    '"a"n', '"é\n"', "/*", "*/", "/* c */", "/* \n */", "/", "*", "**", "* c;", "*c", "(", ")", "{", "}", "[", "]", "!", "!!", "¦", "¦¦", "|", "||", "¬", "^", "~", "∘", "¬=", "^=", "~=",
    "+", "-", "<", "<=", "<>", ">", ">=", "><", ".", ",", ":", "=", "=*", "$", "$char5.", "$f.", "$5.2", "$é.", "$a", "$_yn.", "$_f5.2", "$_", "$_1x.", "$__.", "_x", "_", "__a1", "_é", "@", "#", "?", "&", "&&", "& ", "%", "% ", "%1", "\\", "`", "€",
    "\x00", "\x7f",
]
MACRO_FRAGS = [
    "&a", "&&a", "&&&a", "&a.", "&a..b", "&&a&b", "&a&", "&é", "&_", "%let", "%let ", "%LET", "%put", "%put ", "%local", "%global", "%do", "%do ", "%end", "%to", "%to ", "%by", "%by ",
    "%while", "%until", "%if", "%if ", "%then", "%then ", "%else", "%else ", "%macro", "%macro ", "%mend", "%goto", "%goto ", "%return", "%abort", "%copy", "%include", "%inc", "%input",
    "%sysexec", "%syscall", "%syscall ", "%window", "%display", "%symdel", "%syslput", "%sysrput", "%list", "%run", "%m", "%m(", "%m ", "%mac1", "%é", "%_x", "%_x(", "%__", "&_v.", "&__1", "%str(", "%nrstr(", "%STR(",
    "%eval(", "%sysevalf(", "%sysfunc(", "%qsysfunc(", "%scan(", "%qscan(", "%kscan(", "%substr(", "%qsubstr(", "%upcase(", "%qupcase(", "%index(", "%length(", "%bquote(", "%nrbquote(",
    "%superq(", "%unquote(", "%cmpres(", "%left(", "%trim(", "%sysget(", "%symexist(", "%quote(", "%nrquote(", "%sysmexecname(", "%validchs(", "%compstor(", "%datatyp(", "%verify(",
    "%lowcase(", "%sysprod(", "%sysmacexist(", "%*", "%* c;", "%*c'a;'b;", "%%", "%'", '%"', "%(", "%)", "%=", "%^", "%~", "a=1", "a=", "=b", "a,b", ",", "(a,b)", "(", ")", ")", " eq ",
    " ne ", " and ", " or ", " not ", " in ", " lt ", " ge ", "eq", "and1", "1+1", "1 + 2", "2**3", "a b", "/ ", "/ readonly", "readonly", " / ", "name:", "%lbl:", "%lbl :", "%m:",
    "%let a=b;", "%put x;", "%do i=1 %to 3;", "%end;", "%if 1 %then", "%macro m(a,b=1);", "%mend;", "%m(1,b=2)", "%eval(1+2)", "%str(a;b)", "%nrstr(&a%b)", "%sysfunc(f(1,2),z5.)",
    "%scan(a b,1)", "%substr(abc,1,2)", "a&b.c", "n&i.", "&i.x", "p&q", "pre&i._suf=1", "(a", "(a=", "a=&b", "b=2)", "x&y.z=1,", "%m(a&b.c)", "%m(a b=1)", "%m(a\n=1)",
    "%m(a/*c*/=1)", "%eval(a\nb +1)", "a\nb ", "x\n y  *", "first\nsecond %then", "%sysevalf(1.5x\n y  * 2)", "a%*c;b", "%*c;", "%m(%n)", "%m(%n=1)", "%m(a%n b)", "name ", " name", "=%m", "%mend m;", "%macro m;", "* x %m;", "*\n%x;", "\"&a\"", "\"%m\"", "\"a&b.c\"", "\"%let\"", "'&a'", "\"%str()\"", "\"%nrstr()\"d", "\"%str(/*c*/)\"", "\"%str()", "%str()", "%nrstr()", "%do %while(", "%do %until(", "%do;",
]


def table_keywords():
    """every spelling of the regenerated keyword maps (Gen/TokenType.lean: KEYWORDS, MKEYWORDS), so that every keyword
    token type is reachable by the streams (measured: without them a third of the token types was never produced)"""
    import os, re
    path = os.path.join(os.path.dirname(os.path.abspath(__file__)), "..", "lean", "SasLexer", "Gen", "TokenType.lean")
    kws, mkws, cur = [], [], None
    try:
        for l in open(path, encoding="utf-8"):
            if l.startswith("def KEYWORDS"):
                cur = kws
            elif l.startswith("def MKEYWORDS"):
                cur = mkws
            elif l.startswith("def ") or l.startswith("end "):
                cur = None
            elif cur is not None:
                cur += re.findall(r'\("([A-Z0-9_]+)",', l)
    except OSError:
        pass
    return kws, mkws


_KWS, _MKWS = table_keywords()


def _casevar(w, i):
    return [w.lower(), w.upper(), w.capitalize(), w.lower()[:1] + w.upper()[1:]][i % 4]


# datalines4 bodies with `;` directly before multi-byte characters (terminator look-ahead on byte ranges), and `*`
# statements inside macro definitions that run over a line break before a macro call (comment prediction goes back)
OPEN_FRAGS += ["datalines4;\n", "cards4;\n", "lines4;\n", ";abé", ";;;é", ";a日", ";ив;", ";;é;;", "\n;;;;\n", ";;;;", "é;;;;", ";\n;;;日;"]
MACRO_FRAGS += ["* a\n b %x;", "*x\n%y;", "* c\n\n d %m(1);", "%macro m; * a\n b %x; %mend;", "%macro q;\n*é\n%let z=1;", "* a b;\n", "%macro m;", "%mend;"]

# markers expanded by `soup` into a random table keyword (keeps the weight of the hand-picked fragments)
KW_OPEN, KW_MACRO = "\ue000", "\ue001"
if _KWS:
    OPEN_FRAGS += [KW_OPEN] * 14
if _MKWS:
    MACRO_FRAGS += [KW_MACRO] * 14
ALL_FRAGS = OPEN_FRAGS + MACRO_FRAGS * 2


def expand_kw(rng, f):
    if f == KW_OPEN:
        return _casevar(rng.choice(_KWS), rng.randint(0, 3)) + rng.choice(["", " ", " ", ";"])
    if f == KW_MACRO:
        return "%" + _casevar(rng.choice(_MKWS), rng.randint(0, 3)) + rng.choice(["", " ", "(", "(", ";"])
    return f


def hexs(s):
    return s.encode("utf-8").hex()


def soup(rng, frags, maxn):
    n = rng.randint(1, maxn)
    return "".join(expand_kw(rng, rng.choice(frags)) for _ in range(n))


def near_midpoint(rng):
    """decimal spelling of (or right next to) the exact midpoint of two adjacent binary64 values: the inputs on which a
    float parser without its exact slow path rounds the wrong way"""
    import struct
    from fractions import Fraction
    e = rng.choice([1023, 1075, 1076, rng.randint(990, 1100), rng.randint(960, 1130)])
    bits = (e << 52) | (rng.getrandbits(52) if rng.random() < 0.8 else rng.choice([0, (1 << 52) - 1, 1, (1 << 52) - 2]))
    lo = Fraction(struct.unpack("<d", struct.pack("<Q", bits))[0])
    hi = Fraction(struct.unpack("<d", struct.pack("<Q", bits + 1))[0])
    mid = (lo + hi) / 2
    k = 0
    while mid.denominator != 1:        # dyadic: finite decimal expansion
        mid *= 10
        k += 1
    ds = str(mid.numerator)
    if k:
        ds = ds.rjust(k + 1, "0")
        ip, fp = ds[:-k], ds[-k:]
    else:
        ip, fp = ds, ""
    how = rng.random()
    if how < 0.3:
        fp = fp + rng.choice(["1", "0" * rng.randint(1, 25) + "1", "9"])            # just above the midpoint
    elif how < 0.6 and (fp or ip):
        body = ip + fp                                                               # just below: decrement, then pad with 9s
        body = str(int(body) - 1).rjust(len(body), "0")
        ip, fp = body[:len(ip)], body[len(ip):] + rng.choice(["", "9", "9" * rng.randint(2, 25)])
    elif how < 0.75:
        fp = fp + "0" * rng.randint(0, 25)                                           # the tie itself (ties to even)
    if rng.random() < 0.3:
        sh = rng.randint(1, 30)                                                      # same value in exponent form
        if rng.random() < 0.5 and len(ip) > sh:
            ip, fp, ex = ip[:-sh], ip[-sh:] + fp, sh
        else:
            ip, fp, ex = ip + (fp + "0" * sh)[:sh], fp[sh:], -sh
        return ip + ("." + fp if fp or rng.random() < 0.3 else "") + rng.choice("eE") + (str(ex) if ex < 0 else rng.choice(["", "+"]) + str(ex))
    return ip + "." + fp


def gen_numeric(rng):
    digs = "0123456789"
    hexd = "0123456789abcdefABCDEF"
    def num():
        k = rng.random()
        if k > 0.9:
            return near_midpoint(rng)
        if k < 0.15:
            return rng.choice(["18446744073709551615", "18446744073709551616", "9223372036854775807", "9223372036854775808",
                               "179769313486231570000000000000000000000000000000", "1e308", "1.7976931348623157e308", "1.7976931348623159e308",
                               "1e309", "4.9e-324", "2.4e-324", "2.5e-324", "1e-400", "0.1", "0.3", "123456789012345678", "9007199254740993", "9007199254740992.5",
                               "0ffffffffffffffffx", "0fffffffffffffffffx", "1.e5", ".e5", "1e5x", "1dx", "0e0", "00e00", "1e+05", "1E+", "1e-", "1.5e", "1.5.5", "1..5"])
        s = "".join(rng.choice(digs) for _ in range(rng.randint(0 if k < 0.3 else 1, rng.choice([1, 2, 5, 17, 22]))))
        if rng.random() < 0.5:
            s += "." + "".join(rng.choice(digs) for _ in range(rng.randint(0, rng.choice([1, 3, 20]))))
        if rng.random() < 0.4:
            s += rng.choice("eE") + rng.choice(["", "+", "-"]) + "".join(rng.choice(digs) for _ in range(rng.randint(0, 3)))
        if rng.random() < 0.3:
            s = rng.choice(digs) + "".join(rng.choice(hexd) for _ in range(rng.randint(0, rng.choice([2, 15, 16, 17])))) + rng.choice(["x", "X", ""])
        if s == "" or s == ".":
            s = "0"
        return s
    ctx = rng.choice(["x={};", "{}", "a {} b", "%eval({})", "%sysevalf({})", "%eval({}+{})", "%sysevalf({}*{})", "%if {} %then", "%sysfunc(f({}))", "y={}{}", "%eval( {} )",
                      "%let a={};", "%eval({} eq {})", "{}.", "{}e", "f{}"])
    return ctx.format(*(num() for _ in range(ctx.count("{}"))))


def gen_strings(rng):
    body_frags = ["a", "b c", "''", '""', "'", '"', "%'", '%"', "%%", "%(", "%)", "(", ")", ",", ";", "&a", "&a.", "%m", "%m(x)", "%", "&", "&&", "\n", "é", "€", "/", "/*", "*/", "41", "4", "g", "+1", ",", " ", "=", "x",
                  "%str()", "%nrstr()", "%STR()", "%str(/*c*/)", "%str(a)", "%str( )", "%eval()", "%eval(1)", "%m()", "&a&b", "%let", "%put x;", "%*c;", "/*c*/"]
    body = "".join(rng.choice(body_frags) for _ in range(rng.randint(0, 6)))
    forms = ["'{}'", "'{}'{s}", '"{}"', '"{}"{s}', "%str({})", "%nrstr({})", "%let a=%str({});", "%put %nrstr({});", "%m(%str({}))", "x='{}';", 'x="{}";', "%m(a='{}')", "%eval(\"{}\" eq 'a')",
             "'{}", '"{}', "%str({}", "\"&a{}\"", "\"{}&a\"", "%let q=\"{}\";"]
    f = rng.choice(forms)
    return f.replace("{s}", rng.choice(["b", "d", "dt", "n", "t", "x", "X", "DT", "B"])).replace("{}", body)


PROG_STMTS = [
    "data a; set b; run;", "x = 1;", "y = x + 2.5e3;", "* comment;", "* multi\n line comment;", "* uses %helper(1) internally;", "* abc\n def %x;", "*\n\n%let a=1;",
    "* it's;", "%* macro comment;", "/* block\n comment */", "%let a = 1;", "%let b = %eval(&a + 1);", "%put &a;", "%put NOTE: done;", "%if &a ¬= 2 %then %put x;", "%if &a ne 2 %then %do; x=1; %end;",
    "%else %do; %end;", "%let a = %eval(1 ¬= 2);", "%let c = %sysevalf(1.5 * 2);", "put x $я1.;", "put x $char5. y 8.2;", "format y $_yn. z $_f5.2;", "_a = _b_ + __c;", "%let x = %тест(1);", "%let a = %eval(%яя(1) + 2);", "%été(1)",
    "proc sql; select * from t; quit;", "format x $char5.;", "y = 'it''s';", "z = \"&a..x\";", "t = \"%str()\";", "u = \"a%nrstr(&)b\"d;", "h = '4a,4B'x;", "d = '01jan2020'd;",
    "%do i = 1 %to 3; %end;", "%do i = 1 %to 10 %by 2; y=&i; %end;", "%do %while(&i < 3); %end;", "%do %until(&i ge 3); %end;", "%m(a, b=2)", "%m(a=%str(;))", "%m()", "%m;",
    "datalines;\n1 2\n;", "datalines4;\na;b\n;;;;", "cards;\nx\n;", "datalines ;\n1 'a\n;", "cards4 ;\na;b\n;;;;", "lines \n;\n* 1\n;", "%local a b;", "%global g;", "%goto lbl;", "%lbl: x=1;", "%return;", "%include 'f.sas';", "%sysfunc(cats(a, b))",
    "%let s = %scan(a b c, 2);", "%let s = %substr(abc, 1, 2);", "%let q = %str(a%'b);", "%let n = %nrstr(%m(x));", "%let u = %upcase(abc);", "if a then b = 1; else b = 2;",
    "a = b ** 2 >< 3 <> 4;", "if x in (1, 2) then;", "where a eq 'x' and b ne .;", "array z{3} z1-z3;", "x = 0ffx; y = 1e5; z = .5;", "%copy m / source;", "%symdel a / nowarn;",
    "%sysexec ls;", "%let é = 1;", "x = &&a&i;", "x = &a.&b..c;", "call symput('a', '1');", "%macro inner; %mend inner;", "%macro k(a, b=1) / store; %mend;", ";", ";;",
]


def gen_prog(rng):
    """statement-level programs: realistic statements, optionally wrapped in %macro ... %mend, joined by blanks / line feeds"""
    def block(depth):
        n = rng.randint(1, 4)
        st = [rng.choice(PROG_STMTS) for _ in range(n)]
        body = rng.choice([" ", "\n", "\n  ", " ", ""]).join(st) if rng.random() < 0.5 else "".join(x + rng.choice([" ", "\n", "\n\n", ""]) for x in st)
        k = rng.random()
        if depth < 2 and k < 0.35:
            name = rng.choice(["m", "mac", "é", "m1"])
            args = rng.choice(["", "", "(a)", "(a, b=1)", "(a=%str(,))"])
            return "%macro " + name + args + ";" + rng.choice([" ", "\n", ""]) + block(depth + 1) + rng.choice([" ", "\n", ""]) + "%mend" + rng.choice(["", " " + name]) + ";"
        if depth < 2 and k < 0.45:
            return "%if &c %then %do;" + rng.choice([" ", "\n"]) + block(depth + 1) + rng.choice([" ", "\n"]) + "%end;"
        return body
    s = rng.choice(["", "", "", "\ufeff"]) + rng.choice([" ", "\n", ""]).join(block(0) for _ in range(rng.randint(1, 3)))
    if rng.random() < 0.25 and s:
        s = s[:rng.randrange(len(s) + 1)]       # truncated program
    return s


def gen_hexstr_all():
    """every single byte as a hex string literal, both digit cases and both quote kinds (a finite table: exhaustive)"""
    out = []
    for b in range(256):
        out.append("'%02x'x" % b)
        out.append('"%02X"X' % b)
    # every byte once more inside a multi-pair literal with commas
    for hi in range(16):
        out.append("'" + ",".join("%02x%02X" % (hi * 16 + lo, 255 - (hi * 16 + lo)) for lo in range(16)) + "'x")
    return out


def gen_hexstr(rng):
    hexd = "0123456789abcdefABCDEF"
    n = rng.choice([0, 1, 1, 2, 2, 3, 4, 8])
    parts = []
    for _ in range(n):
        parts.append("".join(rng.choice(hexd) for _ in range(2 * rng.randint(1, 3))))
    body = rng.choice([",", ",", "", " "]).join(parts)
    k = rng.random()
    if k < 0.15 and body:
        i = rng.randrange(len(body) + 1)
        body = body[:i] + rng.choice(["g", " ", ",", "0", "é", "''", "+", "x"]) + body[i:]
    q = rng.choice("'\"")
    ctx = rng.choice(["{}", "x={};", "{} {}", "%let a={};", "%m({})", "%eval({} eq {})", "%put {};", "a{}", "\"&v\"{}"])
    lit = lambda: q + body + q + rng.choice(["x", "X"])
    return ctx.format(*(lit() for _ in range(ctx.count("{}"))))


def main():
    ap = argparse.ArgumentParser()
    ap.add_argument("stream")
    ap.add_argument("--seed", type=int, default=0)
    ap.add_argument("-n", type=int, default=1000)
    ap.add_argument("--maxfrags", type=int, default=10)
    a = ap.parse_args()
    rng = random.Random(a.seed * 1000003 + sum(map(ord, a.stream)))
    out = sys.stdout
    seen = set()
    def put(s):
        if s in seen:
            return
        seen.add(s)
        out.write(hexs(s) + "\n")
    if a.stream == "soup":
        for _ in range(a.n):
            put(soup(rng, ALL_FRAGS, a.maxfrags))
    elif a.stream == "open":
        for _ in range(a.n):
            put(soup(rng, OPEN_FRAGS, a.maxfrags))
    elif a.stream == "numeric":
        for _ in range(a.n):
            put(gen_numeric(rng))
    elif a.stream == "strings":
        for _ in range(a.n):
            put(gen_strings(rng))
    elif a.stream == "trunc":
        k = 0
        while k < a.n:
            s = soup(rng, ALL_FRAGS, a.maxfrags)
            for i in range(len(s) + 1):
                put(s[:i]); k += 1
    elif a.stream == "progs":
        for _ in range(a.n):
            put(gen_prog(rng))
    elif a.stream == "hexstr":
        for x in gen_hexstr_all():
            put(x)
        for _ in range(a.n):
            put(gen_hexstr(rng))
    elif a.stream == "uws":
        # blanks replaced by non-ASCII / unusual whitespace (every place where the lexer skips or looks ahead over whitespace)
        WS = ["\u00a0", "\u0085", "\u3000", "\u2003", "\x0b", "\x0c", "\u2028", "\u1680", "\t", "\r"]
        for _ in range(a.n):
            base = rng.choice([gen_prog(rng), gen_prog(rng), soup(rng, ALL_FRAGS, a.maxfrags), soup(rng, OPEN_FRAGS, a.maxfrags)])
            cs = list(base)
            idx = [i for i, ch in enumerate(cs) if ch == " "]
            if not idx:
                idx = [rng.randrange(len(cs) + 1)] if cs else []
                for i in idx:
                    cs.insert(i, rng.choice(WS))
            else:
                for i in rng.sample(idx, min(len(idx), rng.randint(1, 3))):
                    cs[i] = rng.choice(WS)
            put("".join(cs))
    elif a.stream in ("nl", "mb"):
        # mutate programs: line feeds / multi-byte characters at random positions of soup, grammar-ish and string inputs
        ins = ["\n"] if a.stream == "nl" else ["é", "日", "𝒳", "\u00a0", "ü"]
        for _ in range(a.n):
            base = rng.choice([soup(rng, ALL_FRAGS, a.maxfrags), gen_strings(rng), gen_numeric(rng), soup(rng, MACRO_FRAGS, 6)])
            cs = list(base)
            for _ in range(rng.randint(1, 4)):
                if not cs:
                    break
                i = rng.randrange(len(cs) + 1)
                if a.stream == "nl" and i < len(cs) and cs[i] == " " and rng.random() < 0.5:
                    cs[i] = "\n"
                elif a.stream == "mb" and i < len(cs) and cs[i].isalpha() and cs[i].isascii() and rng.random() < 0.6:
                    cs[i] = rng.choice(ins)
                else:
                    cs.insert(i, rng.choice(ins))
            put("".join(cs))
    else:
        sys.exit("unknown stream")


if __name__ == "__main__":
    main()
