#!/usr/bin/env python3
"""Operation-script correspondence: the Lean primitives (`step`, buffer accessors) against the real
`Cursor` / `WorkTokenizedBuffer` / `Lexer` methods, through `harness lexer-script` / `buffer-script`
and `sasmodel script` / `bufscript`.  Random scripts + small-scope exhaustive scripts, both profiles.

usage: script_corr.py [--seed N] [--n K] [--variants dev,rel,dev-sep]   -> prints a JSON summary; exit 1 on disagreement
"""
import argparse, itertools, json, random, subprocess, sys

SASMODEL = "/verif/lean/.lake/build/bin/sasmodel"
VDIR = {"dev": "target-dev/debug", "rel": "target-rel/release", "dev-sep": "target-dev-sep/debug", "rel-sep": "target-rel-sep/release"}
SOURCES = ["", "a", "\n", "é", "﻿a", "a\n€𝒳", "ab cd;\n'x''y' \"q\" %m(a=1) &v.", "﻿\n\né;", "x='é\n';/*\n*/ y", "𝒳𝒳\n\n𝒳", "%let a=%str(%');", "1.5e3 0ffx;",
           "datalines4;\na;b\n;;;;", "\r\n\t  　x"]
MODES = ["Default", "StringExpr:1", "StringExpr:0", "MakeCheckpoint", "WsOrCStyleCommentOnly", "ExpectSymbol:8:0", "ExpectSymbol:36:0", "ExpectSymbol:7:1", "ExpectSemiOrEOF",
         "MaybeMacroCallArgsOrLabel:1", "MaybeMacroCallArgAssign:13", "MacroCallArgOrValue:13", "MaybeMacroDefArgs", "MacroDefArg", "MacroDefNextArgOrDefaultValue", "MacroDefName",
         "MacroCallValue:12:0", "MacroCallValue:13:2", "MaybeTailMacroArgValue", "MacroStrQuotedExpr:0:0", "MacroStrQuotedExpr:1:1", "MacroEval:12:0", "MacroEval:99:1", "MacroDo",
         "MacroLocalGlobal:1", "MacroNameExpr:0:1014", "MacroNameExpr:1:0", "MacroSemiTerminatedTextExpr", "MacroStatOptionsTextExpr"]
TYPES = [0, 2, 3, 4, 7, 8, 36, 54, 60, 70, 78, 79, 80, 172]
KINDS = [1001, 1002, 1007, 1008, 1012, 9004]


def rand_op(rng, srclen):
    k = rng.random()
    if k < 0.30:
        return rng.choice(["pk", "pn", "ad", "ad", "ad", "rl", "co", "bo", f"ab,{rng.choice([0, 1, 1, 2, 3, 7])}", f"ec,{rng.choice([97, 10, 233, 38])}",
                           f"ew,{rng.randrange(6)}", f"la,{rng.randrange(5)}"])
    if k < 0.55:
        ch, ty = rng.randrange(3), rng.choice(TYPES)
        pl = rng.choice(["0,0,0", "0,0,0", "1,7,0", f"3,{rng.randrange(4)},{rng.randrange(6)}"])
        return rng.choice(["st", "st", "al", "mk", f"em,{ch},{ty},{pl}", f"em,{ch},{ty},{pl}", f"ek,{ch},{ty},{pl}", f"ul,{ch},{ty},{pl}", "lt", "ld", "pt", "ns"])
    if k < 0.70:
        return rng.choice([f"ee,{rng.choice(KINDS)}", f"pe,{rng.choice(KINDS)}", "ep", f"sl,{rng.randrange(srclen + 2)},{rng.choice([-1, rng.randrange(srclen + 2)])}",
                           f"as,{rng.choice(['-', '61', 'c3a9', '2727'])}"])
    if k < 0.90:
        return rng.choice([f"pm,{rng.choice(MODES)}", "po", "md", "cp", "cc", "rb", "rb", "hc", f"pp,{rng.randrange(2)}", "pq", "ps", f"sp,{rng.randrange(2)}"])
    return rng.choice(["lx", "lx", "lx", "fz"])


def gen_scripts(seed, n):
    rng = random.Random(seed)
    out = []
    # small-scope exhaustive: all scripts of length <= 3 over a small alphabet on short sources
    alpha = ["ad", "ab,2", "st", "al", "em,0,172,0,0,0", "cp", "rb", "mk", "ek,1,3,0,0,0", "ee,1001", "po", "ul,0,4,0,0,0"]
    for src in ["", "a", "\n", "é", "﻿a\n"]:
        for L in (1, 2, 3):
            for ops in itertools.product(alpha, repeat=L):
                out.append((src, list(ops)))
    for _ in range(n):
        src = rng.choice(SOURCES)
        ops = [rand_op(rng, len(src.encode())) for _ in range(rng.randint(1, 40))]
        out.append((src, ops))
    return out


def gen_buffers(seed, n):
    rng = random.Random(seed + 99)
    out = []
    for _ in range(n):
        src = rng.choice(SOURCES)
        nl = rng.randint(1, 4)
        wf = rng.random() < 0.6
        if wf:
            pos = sorted(rng.randrange(0, 12) for _ in range(nl))
            pos[0] = 0
        else:
            pos = [rng.randrange(0, 12) for _ in range(nl)]
        lines = [(p, p) for p in pos]
        nt = rng.randint(0, 6)
        toks, cur = [], 0
        for i in range(nt):
            if wf:
                cur += rng.choice([0, 0, 1, 2, 5])
                ln = max(j for j in range(nl) if pos[j] <= cur)
                b = c = cur
            else:
                b = rng.randrange(0, 14)
                c = rng.randrange(0, 14)
                ln = rng.randrange(0, nl + 1)
            pl = rng.choice(["0 0 0", "1 5 0", f"3 {rng.randrange(3)} {rng.randrange(5)}"])
            toks.append(f"{rng.randrange(3)} {rng.choice(TYPES)} {b} {c} {ln} {pl}")
        ltxt = " ".join(f"{a} {b}" for a, b in lines)
        ttxt = (" " + " ".join(toks)) if toks else ""
        out.append(f"{src.encode().hex() or '-'} L {nl} {ltxt} T {nt}{ttxt} S {rng.choice(['-', '6869', 'c3a961'])}")
    return out


def run(cmd, lines):
    p = subprocess.run(cmd, input=("\n".join(lines) + "\n").encode(), capture_output=True)
    out = p.stdout.decode(errors="replace").split("\n")[:-1]
    if p.returncode != 0 or len(out) != len(lines):
        raise RuntimeError(f"{cmd}: rc={p.returncode} lines={len(out)}/{len(lines)} {p.stderr.decode(errors='replace')[-400:]}")
    return out


def norm(line):
    line = " ".join(line.split())
    # panic lines: compare only the fact of the panic and the observations gathered before it
    if line.startswith("panic "):
        import re
        m = re.match(r"^panic [^;]*;(.*);[^;]*$", line)
        return "panic ; " + (m.group(1).strip() if m else "?")
    return line


def main():
    ap = argparse.ArgumentParser()
    ap.add_argument("--seed", type=int, default=0)
    ap.add_argument("--n", type=int, default=4000)
    ap.add_argument("--variants", default="dev,rel,dev-sep")
    a = ap.parse_args()
    scripts = gen_scripts(a.seed, a.n)
    lines = [((s.encode().hex()) or "-") + " " + " ".join(ops) for s, ops in scripts]
    bufs = gen_buffers(a.seed, a.n)
    summary = {"scripts": len(lines), "buffers": len(bufs), "variants": a.variants.split(","), "disagreements": [], "panics_agreed": 0}
    for v in a.variants.split(","):
        dbg = "1" if v.startswith("dev") else "0"
        sep = "1" if v.endswith("sep") else "0"
        h = run([f"/verif/.work/{VDIR[v]}/harness", "lexer-script"], lines)
        m = run([SASMODEL, "script", dbg, sep], lines)
        for l, x, y in zip(lines, h, m):
            if norm(x) != norm(y):
                summary["disagreements"].append({"kind": "lexer-script", "variant": v, "script": l, "implementation": x[:600], "model": y[:600]})
            elif x.startswith("panic "):
                summary["panics_agreed"] += 1
        if not v.endswith("sep"):
            h = run([f"/verif/.work/{VDIR[v]}/harness", "buffer-script"], bufs)
            m = run([SASMODEL, "bufscript", dbg], bufs)
            for l, x, y in zip(bufs, h, m):
                if x != y:
                    summary["disagreements"].append({"kind": "buffer-script", "variant": v, "script": l, "implementation": x[:600], "model": y[:600]})
    summary["n_disagreements"] = len(summary["disagreements"])
    summary["disagreements"] = summary["disagreements"][:5]
    print(json.dumps(summary, ensure_ascii=False))
    sys.exit(1 if summary["n_disagreements"] else 0)


if __name__ == "__main__":
    main()
