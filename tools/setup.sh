#!/bin/bash
# MANIFEST.setup_cmd: build the framework from files on disk only (offline).
set -e
cd /verif
export CARGO_NET_OFFLINE=true
mkdir -p .work evidence
./tools/build_harness.sh dev rel dev-sep rel-sep
# nightly variant is only needed by C19; build it opportunistically
./tools/build_harness.sh nightly-rel-sep || echo "nightly harness build failed (C19 will report it)" >&2
# Python extension (C20): build from a scratch copy of /repo; also yields the enum files build.rs regenerates
python3 tools/py_ext.py build || echo "python extension build failed (C20 will report it)" >&2
python3 - <<'PY'
import sys
sys.path.insert(0, "/verif/tools")
import driver
ok, msg = driver.regen_tables()
print("translator:", "ok" if ok else msg)
sys.exit(0 if ok else 1)
PY
cd lean && lake build SasLexer sasmodel
