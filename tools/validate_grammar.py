#!/usr/bin/env python3
"""Validate the output of gen_grammar.py against the real implementation (harness dump).

  validate_grammar.py --mode c12|c13|c14 [--seeds 1,2,3] [-n K] [--depth D]
                      [--variants rel,dev] [--max-report N] [--gen-args "..."]
  validate_grammar.py --show 'sas text'        (debug: print the token/error/X dump of one text)

For every generated program the harness (`harness dump`) is run in each variant and
  c12: outcome `ok`, E 0, X == `0 0 0 <lastdef> <last> 1 Default`
  c13: every delim has a token of that type starting at that byte; no token of type
       COMMA/ASSIGN/SEMI/LPAREN/RPAREN starts at a masked offset; every byte of a hidden
       range is covered only by tokens on channel 1 (HIDDEN) / 2 (COMMENT);
       additionally outcome ok / E 0 (the c13 programs are well formed)
  c14: E contains an error of the expected kind at byte `at`; T contains a zero-width
       token of type `token` at byte `at`; outcome ok
is checked.  If a generator record carries a non-empty "known" list (tags of known defects; the current
generator emits none since F1-F8 were repaired) its failures are counted separately.
Exit status 1 iff there is a failure that is not attributed to a known defect.
"""
import argparse, json, os, re, subprocess, sys, collections

HERE = os.path.dirname(os.path.abspath(__file__))
WORK = os.path.join(os.path.dirname(HERE), ".work")
VARIANTS = {
    "rel": os.path.join(WORK, "target-rel/release/harness"),
    "dev": os.path.join(WORK, "target-dev/debug/harness"),
    "rel-sep": os.path.join(WORK, "target-rel-sep/release/harness"),
    "dev-sep": os.path.join(WORK, "target-dev-sep/debug/harness"),
}
TT_FILE = os.path.join(os.path.dirname(HERE), "lean/SasLexer/Gen/TokenType.lean")
EK_FILE = os.path.join(os.path.dirname(HERE), "lean/SasLexer/Gen/ErrorKind.lean")


def load_enum(path):
    m = {}
    for line in open(path, encoding="utf-8"):
        r = re.match(r"\s*\|\s*\.(\w+)\s*=>\s*(\d+)\s*$", line)
        if r:
            m.setdefault(r.group(1), int(r.group(2)))
    return m


TT = load_enum(TT_FILE)
EK = load_enum(EK_FILE)
TTN = {v: k for k, v in TT.items()}
EKN = {v: k for k, v in EK.items()}
DELIM_TYPES = {TT[x] for x in ("COMMA", "ASSIGN", "SEMI", "LPAREN", "RPAREN")}


class Dump:
    __slots__ = ("outcome", "toks", "errs", "x", "raw")


def parse_dump(line):
    d = Dump()
    d.raw = line
    secs = line.rstrip("\n").split(" | ")
    d.outcome = secs[0]
    d.toks, d.errs, d.x = [], [], None
    for s in secs[1:]:
        f = s.split(" ")
        if f[0] == "T":
            n = int(f[1])
            v = f[2:]
            for i in range(n):
                ch, ty, byte = int(v[8 * i]), int(v[8 * i + 1]), int(v[8 * i + 2])
                d.toks.append((ch, ty, byte))
        elif f[0] == "E":
            n = int(f[1])
            v = f[2:]
            for i in range(n):
                d.errs.append((int(v[6 * i]), int(v[6 * i + 1])))
        elif f[0] == "X":
            d.x = f[1:]
    return d


def run_harness(variant, hexes):
    p = subprocess.run([VARIANTS[variant], "dump"], input=("\n".join(hexes) + "\n").encode(), stdout=subprocess.PIPE, stderr=subprocess.DEVNULL)
    lines = [l for l in p.stdout.decode("utf-8", "replace").split("\n") if l and not l.startswith("#t ")]
    if len(lines) != len(hexes):
        # the harness died (e.g. abort / hang killed): fall back to one-by-one
        lines = []
        for h in hexes:
            try:
                q = subprocess.run([VARIANTS[variant], "dump"], input=(h + "\n").encode(), stdout=subprocess.PIPE, stderr=subprocess.DEVNULL, timeout=20)
                out = [l for l in q.stdout.decode("utf-8", "replace").split("\n") if l and not l.startswith("#t ")]
                lines.append(out[0] if out else "died | T 0 | E 0 | X -")
            except subprocess.TimeoutExpired:
                lines.append("timeout | T 0 | E 0 | X -")
    return [parse_dump(l) for l in lines]


def tok_spans(d, nbytes):
    """[(chan, type, start, end)]"""
    out = []
    for i, (ch, ty, b) in enumerate(d.toks):
        e = d.toks[i + 1][2] if i + 1 < len(d.toks) else nbytes
        out.append((ch, ty, b, e))
    return out


def check_c12(rec, d, nbytes):
    r = []
    if d.outcome != "ok":
        r.append("outcome " + d.outcome[:80])
    if d.errs:
        r.append("errors " + " ".join("%s@%d" % (EKN.get(k, k), b) for k, b in d.errs[:6]))
    if d.x is None or len(d.x) < 7 or d.x[0] != "0" or d.x[1] != "0" or d.x[2] != "0" or d.x[5:] != ["1", "Default"]:
        r.append("X " + " ".join(d.x or ["-"])[:120])
    return r


def check_c13(rec, d, nbytes):
    r = check_c12(rec, d, nbytes)
    starts = collections.defaultdict(set)
    for ch, ty, b in d.toks:
        starts[b].add(ty)
    for off, name in rec["delims"]:
        if TT[name] not in starts.get(off, ()):
            r.append("delim %s@%d missing (have %s)" % (name, off, ",".join(TTN[t] for t in starts.get(off, ())) or "none"))
    for off in rec["masked"]:
        bad = starts.get(off, set()) & DELIM_TYPES
        if bad:
            r.append("masked@%d is %s" % (off, ",".join(TTN[t] for t in bad)))
    if rec["hidden"]:
        spans = tok_spans(d, nbytes)
        import bisect
        st = [s[2] for s in spans]
        for a, b in rec["hidden"]:
            i = max(bisect.bisect_right(st, a) - 1, 0)
            ok = True
            # the range must be tiled exactly by hidden/comment tokens
            j = i
            while j < len(spans) and spans[j][2] < b:
                ch, ty, s, e = spans[j]
                if e > a and e > s:
                    if ch not in (1, 2) or s < a or e > b:
                        ok = False
                        break
                j += 1
            if not ok:
                r.append("hidden [%d,%d) touched by %s ch%d [%d,%d)" % (a, b, TTN[spans[j][1]], spans[j][0], spans[j][2], spans[j][3]))
    return r


def check_c14(rec, d, nbytes):
    r = []
    if not (d.outcome == "ok"):
        r.append("outcome " + d.outcome[:80])
    at = rec["at"]
    if (EK[rec["error"]], at) not in d.errs:
        r.append("no %s@%d (have %s)" % (rec["error"], at, " ".join("%s@%d" % (EKN.get(k, k), b) for k, b in d.errs[:6]) or "none"))
    spans = tok_spans(d, nbytes)
    if not any(ty == TT[rec["token"]] and s == at and e == at for ch, ty, s, e in spans):
        r.append("no zero-width %s@%d" % (rec["token"], at))
    return r


CHECK = {"c12": check_c12, "c13": check_c13, "c14": check_c14}


def show(text, variants):
    hx = text.encode("utf-8").hex()
    for v in variants:
        d = run_harness(v, [hx])[0]
        print("[%s] %s" % (v, d.outcome))
        nb = len(text.encode("utf-8"))
        raw = text.encode("utf-8")
        for ch, ty, s, e in tok_spans(d, nb):
            print("  %4d-%-4d ch%d %-22s %r" % (s, e, ch, TTN.get(ty, ty), raw[s:e].decode("utf-8", "replace")))
        for k, b in d.errs:
            print("  ERR %s @%d" % (EKN.get(k, k), b))
        print("  X", " ".join(d.x or ["-"]))


def main():
    ap = argparse.ArgumentParser()
    ap.add_argument("--mode", choices=["c12", "c13", "c14"])
    ap.add_argument("--seeds", default="1")
    ap.add_argument("-n", type=int, default=1000)
    ap.add_argument("--depth", type=int, default=None)
    ap.add_argument("--variants", default="rel,dev")
    ap.add_argument("--max-report", type=int, default=15)
    ap.add_argument("--gen-args", default="")
    ap.add_argument("--show")
    ap.add_argument("--show-hex")
    ap.add_argument("--fail-out", help="append failing records (JSON + reasons) to this file")
    a = ap.parse_args()
    variants = a.variants.split(",")
    if a.show is not None or a.show_hex is not None:
        show(a.show if a.show is not None else bytes.fromhex(a.show_hex).decode("utf-8"), variants)
        return
    seeds = []
    for part in a.seeds.split(","):
        if "-" in part:
            lo, hi = part.split("-")
            seeds += list(range(int(lo), int(hi) + 1))
        else:
            seeds.append(int(part))
    total = 0
    nfail = collections.Counter()
    nknown = collections.Counter()
    reasons = collections.Counter()
    reported = 0
    whats = collections.Counter()
    for seed in seeds:
        cmd = [sys.executable, os.path.join(HERE, "gen_grammar.py"), "--seed", str(seed), "-n", str(a.n), "--mode", a.mode]
        if a.depth is not None:
            cmd += ["--depth", str(a.depth)]
        cmd += a.gen_args.split()
        p = subprocess.run(cmd, stdout=subprocess.PIPE, stderr=subprocess.DEVNULL)
        if p.returncode != 0:
            sys.exit("generator failed for seed %d" % seed)
        recs = [json.loads(l) for l in p.stdout.decode().split("\n") if l]
        total += len(recs)
        for r in recs:
            if a.mode == "c14":
                whats[r["what"]] += 1
        hexes = [r["hex"] for r in recs]
        for v in variants:
            dumps = run_harness(v, hexes)
            for r, d in zip(recs, dumps):
                why = CHECK[a.mode](r, d, len(r["hex"]) // 2)
                if not why:
                    continue
                known = r.get("known") or []
                if known:
                    nknown[(v, ",".join(known))] += 1
                    continue
                nfail[v] += 1
                reasons[re.sub(r"\d+", "N", why[0])[:60]] += 1
                if a.fail_out:
                    with open(a.fail_out, "a") as f:
                        f.write(json.dumps({"variant": v, "seed": seed, "why": why, "rec": r}) + "\n")
                if reported < a.max_report:
                    reported += 1
                    print("FAIL [%s seed %d] %s" % (v, seed, "; ".join(why[:4])))
                    print("   text: %r" % bytes.fromhex(r["hex"]).decode("utf-8"))
                    if a.mode == "c14":
                        print("   what=%s at=%d orig: %r" % (r["what"], r["at"], bytes.fromhex(r["orig_hex"]).decode("utf-8")))
    print("mode %s: %d programs x variants %s; unexplained failures: %s; failures on known-defect-tagged programs: %s" % (
        a.mode, total, variants, dict(nfail) or 0, {"%s/%s" % k: v for k, v in nknown.items()} or 0))
    if reasons:
        print("failure reasons:", dict(reasons.most_common(12)))
    if whats:
        print("c14 constructs:", dict(sorted(whats.items())))
    sys.exit(1 if nfail else 0)


if __name__ == "__main__":
    main()
