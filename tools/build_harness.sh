#!/bin/bash
# Build the harness variants from /repo's current working tree (hooks on).
# usage: build_harness.sh <variant>...   variants: dev rel dev-sep rel-sep nightly-rel-sep
set -e
cd /verif/harness
export CARGO_NET_OFFLINE=true
export RUSTFLAGS="--cfg sas_lexer_verif"
for v in "$@"; do
  case "$v" in
    dev)      cargo build --offline --locked -q --target-dir /verif/.work/target-dev ;;
    rel)      cargo build --offline --locked -q --release --target-dir /verif/.work/target-rel ;;
    dev-sep)  cargo build --offline --locked -q --features macro_sep --target-dir /verif/.work/target-dev-sep ;;
    rel-sep)  cargo build --offline --locked -q --release --features macro_sep --target-dir /verif/.work/target-rel-sep ;;
    nightly-rel-sep) cargo +nightly build --offline --locked -q --release --features macro_sep --target-dir /verif/.work/target-nightly-rel-sep ;;
    *) echo "unknown variant $v" >&2; exit 2 ;;
  esac
done
