#!/usr/bin/env python3
"""Regression corpus: every string literal of the repository's own inline tests + the sample files."""
import re, sys, os
src = open("/repo/crates/sas-lexer/src/lexer/tests/test_inline_strings.rs", encoding="utf-8").read()
out = []
# raw strings r"..." / r#"..."#
for m in re.finditer(r'r(#*)"(.*?)"\1', src, re.S):
    out.append(m.group(2))
# normal strings
esc = {"n": "\n", "t": "\t", "r": "\r", "0": "\0", "\\": "\\", '"': '"', "'": "'"}
for m in re.finditer(r'(?<![r#\w])"((?:[^"\\]|\\.)*)"', src, re.S):
    s = m.group(1)
    def rep(mm):
        c = mm.group(1)
        if c in esc: return esc[c]
        if c == "u": return chr(int(mm.group(2), 16))
        if c == "x": return chr(int(mm.group(3), 16))
        if c == "\n": return ""
        return mm.group(0)
    s = re.sub(r'\\(u\{([0-9a-fA-F]+)\}|x([0-9a-fA-F]{2})|\n\s*|.)', lambda mm: rep(mm) if not mm.group(1).startswith(("u", "x", "\n")) else (chr(int(mm.group(2), 16)) if mm.group(2) else chr(int(mm.group(3), 16)) if mm.group(3) else ""), s, flags=re.S)
    out.append(s)
seen = set(); res = []
for s in out:
    if s not in seen and len(s.encode()) < 3000:
        seen.add(s); res.append(s)
os.makedirs("/verif/corpus", exist_ok=True)
with open("/verif/corpus/regress.hex", "w") as f:
    for s in res:
        f.write(s.encode("utf-8").hex() + "\n")
with open("/verif/corpus/samples.hex", "w") as f:
    d = "/repo/crates/sas-lexer/src/lexer/tests/samples"
    for n in sorted(os.listdir(d)):
        f.write(open(os.path.join(d, n), "rb").read().hex() + "\n")
print(len(res), "regression strings")
