#!/usr/bin/env python3
"""Collect confirmed seeded changes from a scratch directory into /verif/seeded/<id>/ and print the
markdown table 'which check catches which change' for DESIGN.md.
usage: seeded_report.py <scratch dir with <id>/{patch.diff,demo.*,meta.json,result.json}> [--copy]
"""
import json, os, shutil, sys

src = sys.argv[1]
copy = "--copy" in sys.argv
rows = []
for d in sorted(os.listdir(src)):
    p = os.path.join(src, d)
    if not os.path.isdir(p) or not os.path.exists(os.path.join(p, "result.json")):
        continue
    meta = json.load(open(os.path.join(p, "meta.json")))
    res = json.load(open(os.path.join(p, "result.json")))
    conf = res.get("confirm", {})
    ok = conf.get("suite_passes_with_change") and conf.get("demo_fails_with_change", True) and conf.get("demo_passes_without_change", True)
    cells = []
    for pid, c in sorted(res.get("checks", {}).items()):
        if c["violations"]:
            det = c.get("detail") or {}
            if c["kind"] == "failing-input":
                srcs = det.get("source")
                cells.append(f"{pid}: failing input `{(srcs or '')[:60]!r}` clauses {det.get('failed_clauses')}")
            else:
                cells.append(f"{pid}: no-failing-input-found ({'; '.join(det.get('broken') or [])[:120]})")
        else:
            cells.append(f"{pid}: MISSED" if c["exit"] in (0, 1) else f"{pid}: ERROR")
    rows.append((d, meta.get("property"), "yes" if ok else ("unconfirmed" if not conf else "NO"), meta.get("summary", "")[:160].replace("|", "/"), "<br>".join(cells)))
    if copy and ok:
        dst = os.path.join("/verif/seeded", d)
        os.makedirs(dst, exist_ok=True)
        for f in os.listdir(p):
            if f in ("patch.diff", "meta.json", "result.json") or f.startswith("demo."):
                shutil.copy(os.path.join(p, f), os.path.join(dst, f))
print("| change | target | confirmed | what it does | checks run against it |")
print("|---|---|---|---|---|")
for r in rows:
    print("| " + " | ".join(str(x) for x in r) + " |")
