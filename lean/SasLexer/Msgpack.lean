import SasLexer.MsgpackDefs
/-!
# Theorems about the msgpack codec and the binding's wire contract
(the executable definitions are in `MsgpackDefs.lean`, so that the compiled checkers can still be built when a
theorem about regenerated tables no longer checks)
-/
namespace SasLexer
namespace Msgpack
/-! ## encoder -/

/-- known encodings (msgpack spec) -/
example : encode (.int 127) = [0x7f] ∧ encode (.int 128) = [0xcc, 0x80] ∧ encode (.int 300) = [0xcd, 0x01, 0x2c]
    ∧ encode (.int 65536) = [0xce, 0, 1, 0, 0] ∧ encode (.int 4294967296) = [0xcf, 0, 0, 0, 1, 0, 0, 0, 0]
    ∧ encode (.int (-1)) = [0xff] ∧ encode (.int (-32)) = [0xe0] ∧ encode (.int (-33)) = [0xd0, 0xdf]
    ∧ encode (.int (-129)) = [0xd1, 0xff, 0x7f]
    ∧ encode (.arr [.int 0, .int 3]) = [0x92, 0, 3] ∧ encode (.bin [0x61, 0x22, 0x62]) = [0xc4, 3, 0x61, 0x22, 0x62]
    ∧ encode (.f64 0x3ff8000000000000) = [0xcb, 0x3f, 0xf8, 0, 0, 0, 0, 0, 0]
    ∧ encode (.arr [.arr [], .arr [], .bin []]) = [0x93, 0x90, 0x90, 0xc4, 0] := by decide

/-! ## what `encode` can represent -/

/-! ## decoder -/

/-! ## round trip: `decode (encode v ++ rest) = some (v, rest)` -/

theorem be_length (k n : Nat) : (be k n).length = k := by
  induction k with
  | zero => rfl
  | succ k ih => simp [be, ih]

theorem readBE_be (k n : Nat) (rest : List UInt8) (acc : Nat) :
    readBE k (be k n ++ rest) acc = some (acc * 256 ^ k + n % 256 ^ k, rest) := by
  induction k generalizing acc with
  | zero => simp [be, readBE, Nat.mod_one]
  | succ k ih =>
    simp only [be, List.cons_append, readBE, ih]
    congr 2
    have h1 : (UInt8.ofNat (n / 256 ^ k % 256)).toNat = n / 256 ^ k % 256 := by
      simp [UInt8.toNat_ofNat']
    rw [h1, Nat.pow_succ, Nat.mod_mul]
    grind

theorem takeN_append (s rest : List UInt8) : takeN s.length (s ++ rest) = some (s, rest) := by
  simp [takeN]

theorem encode_ne_nil : ∀ v : MP, 1 ≤ (encode v).length := by
  intro v
  cases v with
  | nil => simp [encode]
  | bool b => cases b <;> simp [encode]
  | int i => simp only [encode, encInt]; split <;> (try split) <;> (try split) <;> (try split) <;> (try split) <;> simp
  | f64 b => simp [encode]
  | bin bs => simp only [encode, encBinLen]; split <;> (try split) <;> simp
  | str bs => simp only [encode, encStrLen]; split <;> (try split) <;> (try split) <;> simp
  | arr xs => simp only [encode, encArrLen]; split <;> (try split) <;> simp


theorem encArrLen_pos (n : Nat) : 1 ≤ (encArrLen n).length := by
  simp only [encArrLen]; split <;> (try split) <;> simp

mutual
theorem depth_le : ∀ v : MP, depth v ≤ (encode v).length
  | .arr xs => by
    have := depthList_le xs
    have := encArrLen_pos xs.length
    simp only [depth, encode, List.length_append]; omega
  | .nil => encode_ne_nil _
  | .bool _ => encode_ne_nil _
  | .int _ => encode_ne_nil _
  | .f64 _ => encode_ne_nil _
  | .bin _ => encode_ne_nil _
  | .str _ => encode_ne_nil _
theorem depthList_le : ∀ xs : List MP, depthList xs ≤ (encodeList xs).length
  | [] => by simp [depthList]
  | x :: xs => by
    have := depth_le x
    have := depthList_le xs
    simp only [depthList, encodeList, List.length_append]; omega
end
theorem ofNat_toNat (n : Nat) (h : n < 256) : (UInt8.ofNat n).toNat = n := by
  simp [UInt8.toNat_ofNat']; omega

theorem uintOf_be (k n : Nat) (rest : List UInt8) (h : n < 256 ^ k) :
    uintOf k (be k n ++ rest) = some (.int n, rest) := by
  simp [uintOf, wrap, readBE_be, Nat.mod_eq_of_lt h]

theorem sintOf_be (k n : Nat) (rest : List UInt8) (h : n < 256 ^ k) :
    sintOf k (be k n ++ rest) = some (.int (signed (8 * k) n), rest) := by
  simp [sintOf, wrap, readBE_be, Nat.mod_eq_of_lt h]

theorem sized_be (k : Nat) (mk : List UInt8 → MP) (s rest : List UInt8) (h : s.length < 256 ^ k) :
    sized k mk (be k s.length ++ (s ++ rest)) = some (mk s, rest) := by
  simp [sized, wrap, readBE_be, Nat.mod_eq_of_lt h, takeN_append]


theorem hd_c0 (f r) : decodeF (f + 1) (0xc0 :: r) = some (.nil, r) := rfl
theorem hd_c2 (f r) : decodeF (f + 1) (0xc2 :: r) = some (.bool false, r) := rfl
theorem hd_c3 (f r) : decodeF (f + 1) (0xc3 :: r) = some (.bool true, r) := rfl
theorem hd_c4 (f r) : decodeF (f + 1) (0xc4 :: r) = sized 1 .bin r := rfl
theorem hd_c5 (f r) : decodeF (f + 1) (0xc5 :: r) = sized 2 .bin r := rfl
theorem hd_c6 (f r) : decodeF (f + 1) (0xc6 :: r) = sized 4 .bin r := rfl
theorem hd_cb (f r) : decodeF (f + 1) (0xcb :: r) =
    wrap (fun v : Nat => .f64 (UInt64.ofNat v)) (readBE 8 r 0) := rfl
theorem hd_cc (f r) : decodeF (f + 1) (0xcc :: r) = uintOf 1 r := rfl
theorem hd_cd (f r) : decodeF (f + 1) (0xcd :: r) = uintOf 2 r := rfl
theorem hd_ce (f r) : decodeF (f + 1) (0xce :: r) = uintOf 4 r := rfl
theorem hd_cf (f r) : decodeF (f + 1) (0xcf :: r) = uintOf 8 r := rfl
theorem hd_d0 (f r) : decodeF (f + 1) (0xd0 :: r) = sintOf 1 r := rfl
theorem hd_d1 (f r) : decodeF (f + 1) (0xd1 :: r) = sintOf 2 r := rfl
theorem hd_d2 (f r) : decodeF (f + 1) (0xd2 :: r) = sintOf 4 r := rfl
theorem hd_d3 (f r) : decodeF (f + 1) (0xd3 :: r) = sintOf 8 r := rfl
theorem hd_d9 (f r) : decodeF (f + 1) (0xd9 :: r) = sized 1 .str r := rfl
theorem hd_da (f r) : decodeF (f + 1) (0xda :: r) = sized 2 .str r := rfl
theorem hd_db (f r) : decodeF (f + 1) (0xdb :: r) = sized 4 .str r := rfl
theorem hd_dc (f r) : decodeF (f + 1) (0xdc :: r) = arrN (decodeF f) 2 r := rfl
theorem hd_dd (f r) : decodeF (f + 1) (0xdd :: r) = arrN (decodeF f) 4 r := rfl

theorem hd_posfix (f : Nat) (n : Nat) (r) (h : n < 128) :
    decodeF (f + 1) (UInt8.ofNat n :: r) = some (.int n, r) := by
  simp only [decodeF, ofNat_toNat n (by omega)]
  simp [h]
theorem hd_negfix (f : Nat) (n : Nat) (r) (h : 224 ≤ n) (h2 : n < 256) :
    decodeF (f + 1) (UInt8.ofNat n :: r) = some (.int ((n : Int) - 256), r) := by
  simp only [decodeF, ofNat_toNat n h2]
  have e : ∀ k : Nat, k < 224 → ¬ n = k := by omega
  simp [show ¬ n < 128 by omega, show ¬ n < 144 by omega, show ¬ n < 160 by omega, show ¬ n < 192 by omega, h,
    e 192, e 194, e 195, e 196, e 197, e 198, e 203, e 204, e 205, e 206, e 207, e 208, e 209, e 210, e 211,
    e 217, e 218, e 219, e 220, e 221]
theorem hd_fixarr (f : Nat) (n : Nat) (r) (h : n < 16) :
    decodeF (f + 1) (UInt8.ofNat (0x90 + n) :: r) = wrap .arr (decodeN (decodeF f) n r []) := by
  simp only [decodeF, ofNat_toNat (0x90 + n) (by omega)]
  rw [if_neg (by omega), if_neg (by omega), if_pos (by omega)]
  simp
theorem hd_fixstr (f : Nat) (n : Nat) (r) (h : n < 32) :
    decodeF (f + 1) (UInt8.ofNat (0xa0 + n) :: r) =
      wrap .str (takeN n r) := by
  simp only [decodeF, ofNat_toNat (0xa0 + n) (by omega)]
  rw [if_neg (by omega), if_neg (by omega), if_neg (by omega), if_pos (by omega)]
  simp

theorem encInt_nat (n : Nat) : encInt (n : Int) =
    if n < 128 then [UInt8.ofNat n]
    else if n < 256 then 0xcc :: be 1 n
    else if n < 65536 then 0xcd :: be 2 n
    else if n < 4294967296 then 0xce :: be 4 n
    else 0xcf :: be 8 n := by
  simp [encInt]

theorem decode_int (i : Int) (h : (MP.int i).WF) (f : Nat) (rest : List UInt8) :
    decodeF (f + 1) (encode (.int i) ++ rest) = some (.int i, rest) := by
  simp only [MP.WF] at h
  simp only [encode]
  cases i with
  | ofNat n =>
    rw [Int.ofNat_eq_natCast] at *
    rw [encInt_nat]
    split
    · simp [hd_posfix, *]
    · split
      · simp [hd_cc, uintOf_be, *]
      · split
        · simp [hd_cd, uintOf_be, *]
        · split
          · simp [hd_ce, uintOf_be, *]
          · simp only [List.cons_append, hd_cf]
            rw [uintOf_be]
            simp; omega
  | negSucc m =>
    have hneg : ¬ (0 : Int) ≤ Int.negSucc m := by simp
    generalize Int.negSucc m = i at *
    simp only [encInt, hneg, if_false]
    split
    · have e : ∃ n : Nat, (256 + i).toNat = n ∧ 224 ≤ n ∧ n < 256 ∧ (n : Int) - 256 = i := ⟨_, rfl, by omega, by omega, by omega⟩
      obtain ⟨n, hn, h1, h2, h3⟩ := e
      rw [hn, List.cons_append, List.nil_append, hd_negfix f n rest h1 h2, h3]
    · split
      · simp only [List.cons_append, hd_d0]
        rw [sintOf_be _ _ _ (by simp; omega)]
        simp [signed]; omega
      · split
        · simp only [List.cons_append, hd_d1]
          rw [sintOf_be _ _ _ (by simp; omega)]
          simp [signed]; omega
        · split
          · simp only [List.cons_append, hd_d2]
            rw [sintOf_be _ _ _ (by simp; omega)]
            simp [signed]; omega
          · simp only [List.cons_append, hd_d3]
            rw [sintOf_be _ _ _ (by simp; omega)]
            simp [signed]; omega

theorem decode_f64 (b : UInt64) (f : Nat) (rest : List UInt8) :
    decodeF (f + 1) (encode (.f64 b) ++ rest) = some (.f64 b, rest) := by
  have hb : b.toNat < 256 ^ 8 := by have := b.toNat_lt; simpa using this
  simp [encode, hd_cb, readBE_be, wrap, Nat.mod_eq_of_lt hb]

theorem decode_bin (bs : List UInt8) (h : (MP.bin bs).WF) (f : Nat) (rest : List UInt8) :
    decodeF (f + 1) (encode (.bin bs) ++ rest) = some (.bin bs, rest) := by
  simp only [MP.WF] at h
  simp only [encode, encBinLen]
  split
  · simp only [List.cons_append, List.append_assoc, hd_c4]; exact sized_be 1 _ _ _ (by simpa)
  · split
    · simp only [List.cons_append, List.append_assoc, hd_c5]; exact sized_be 2 _ _ _ (by simpa)
    · simp only [List.cons_append, List.append_assoc, hd_c6]; exact sized_be 4 _ _ _ (by simpa)

theorem decode_str (bs : List UInt8) (h : (MP.str bs).WF) (f : Nat) (rest : List UInt8) :
    decodeF (f + 1) (encode (.str bs) ++ rest) = some (.str bs, rest) := by
  simp only [MP.WF] at h
  simp only [encode, encStrLen]
  split
  · simp only [List.cons_append, List.nil_append]
    rw [hd_fixstr _ _ _ (by assumption), takeN_append]; rfl
  · split
    · simp only [List.cons_append, List.append_assoc, hd_d9]; exact sized_be 1 _ _ _ (by simpa)
    · split
      · simp only [List.cons_append, List.append_assoc, hd_da]; exact sized_be 2 _ _ _ (by simpa)
      · simp only [List.cons_append, List.append_assoc, hd_db]; exact sized_be 4 _ _ _ (by simpa)

/-- the array header, given that the elements decode -/
theorem decode_arr_hdr (xs : List MP) (hl : xs.length < 4294967296) (f : Nat) (rest : List UInt8)
    (tail : List UInt8)
    (hx : decodeN (decodeF f) xs.length (tail ++ rest) [] = some (xs, rest)) :
    decodeF (f + 1) (encArrLen xs.length ++ tail ++ rest) = some (.arr xs, rest) := by
  simp only [encArrLen]
  split
  · simp only [List.cons_append, List.nil_append]
    rw [hd_fixarr _ _ _ (by assumption), hx]; rfl
  · split
    · simp only [List.cons_append, List.append_assoc, hd_dc, arrN, readBE_be]
      rw [Nat.mod_eq_of_lt (by simpa)]
      simp [hx, wrap]
    · simp only [List.cons_append, List.append_assoc, hd_dd, arrN, readBE_be]
      rw [Nat.mod_eq_of_lt (by simpa)]
      simp [hx, wrap]

mutual
theorem decodeF_encode : ∀ (v : MP), v.WF → ∀ (fuel : Nat) (rest : List UInt8), depth v ≤ fuel →
    decodeF fuel (encode v ++ rest) = some (v, rest)
  | .nil, _, fuel, rest, hd => by
    obtain ⟨f, rfl⟩ : ∃ f, fuel = f + 1 := ⟨fuel - 1, by simp [depth] at hd; omega⟩
    rfl
  | .bool b, _, fuel, rest, hd => by
    obtain ⟨f, rfl⟩ : ∃ f, fuel = f + 1 := ⟨fuel - 1, by simp [depth] at hd; omega⟩
    cases b <;> rfl
  | .int i, h, fuel, rest, hd => by
    obtain ⟨f, rfl⟩ : ∃ f, fuel = f + 1 := ⟨fuel - 1, by simp [depth] at hd; omega⟩
    exact decode_int i h f rest
  | .f64 b, _, fuel, rest, hd => by
    obtain ⟨f, rfl⟩ : ∃ f, fuel = f + 1 := ⟨fuel - 1, by simp [depth] at hd; omega⟩
    exact decode_f64 b f rest
  | .bin bs, h, fuel, rest, hd => by
    obtain ⟨f, rfl⟩ : ∃ f, fuel = f + 1 := ⟨fuel - 1, by simp [depth] at hd; omega⟩
    exact decode_bin bs h f rest
  | .str bs, h, fuel, rest, hd => by
    obtain ⟨f, rfl⟩ : ∃ f, fuel = f + 1 := ⟨fuel - 1, by simp [depth] at hd; omega⟩
    exact decode_str bs h f rest
  | .arr xs, h, fuel, rest, hd => by
    obtain ⟨f, rfl⟩ : ∃ f, fuel = f + 1 := ⟨fuel - 1, by simp [depth] at hd; omega⟩
    simp only [MP.WF] at h
    simp only [depth] at hd
    have hx := decodeN_encodeList xs h.2 f rest [] (by omega)
    simp only [encode]
    exact decode_arr_hdr xs h.1 f rest _ (by simpa using hx)
theorem decodeN_encodeList : ∀ (xs : List MP), MP.WFList xs → ∀ (fuel : Nat) (rest : List UInt8)
    (acc : List MP), depthList xs ≤ fuel →
    decodeN (decodeF fuel) xs.length (encodeList xs ++ rest) acc = some (acc.reverse ++ xs, rest)
  | [], _, fuel, rest, acc, _ => by simp [encodeList, decodeN]
  | x :: xs, h, fuel, rest, acc, hd => by
    simp only [MP.WFList] at h
    simp only [depthList] at hd
    have h1 := decodeF_encode x h.1 fuel (encodeList xs ++ rest) (by omega)
    have h2 := decodeN_encodeList xs h.2 fuel rest (x :: acc) (by omega)
    simp only [encodeList, List.length_cons, decodeN, List.append_assoc, h1, h2]
    simp
end
/-- **round trip**: whatever `encode` writes for a representable value, followed by anything,
`decode` reads back as exactly that value and leaves exactly the rest -/
theorem decode_encode (v : MP) (h : v.WF) (rest : List UInt8) :
    decode (encode v ++ rest) = some (v, rest) := by
  apply decodeF_encode v h
  have := depth_le v
  simp only [List.length_append]; omega


/-! # The binding's wire contract

Rust side (`crates/sas-lexer-py/src/lib.rs`): `rmp_serde::encode::to_vec(&(tok_vec, errors, Bytes))`
with the default configuration — a tuple is an array, a struct is the array of its fields **in
declaration order**, a `Serialize_repr` enum is its integer, `Option` is nil-or-content, a newtype
struct is its content, `serde_bytes::Bytes` is a bin, and the `#[serde(untagged)]` enum `Payload` is
the content of its variant (`None` ↦ nil, `Integer(u64)` ↦ uint, `Float(f64)` ↦ float64,
`StringLiteral(u32, u32)` ↦ 2-array).

Python side (`src/sas_lexer/lexer.py`): `msgspec.msgpack.Decoder(tuple[list[Token], list[Error],
bytes])`, `Token` and `Error` being `array_like=True` Structs: an array is decoded **positionally
into the fields in the class's declaration order**.

Both orders are *data* here (`Gen/Fields.lean`, parsed from the sources): the Rust record is written
by mapping `rsTokenFields`/`rsErrorFields` (Rust order, Rust names) through a by-name getter, and the
Python record is read by zipping `pyTokenFields`/`pyErrorFields` (Python order, Python names) with
the array and looking the attributes up by name.  Swapping two fields on either side therefore changes
`pyDecode ∘ rsEncode`, and `pyDecode_rsEncode` below stops being provable. -/

open Fields

/-! ## Rust side -/

/-- the Lean `RsPayload` mirrors the parsed `enum Payload`, which is `untagged` (workspace and linked crate) -/
theorem payload_shape :
    rsPayloadVariants = [("None", []), ("Integer", ["u64"]), ("Float", ["f64"]), ("StringLiteral", ["u32", "u32"])]
    ∧ rsPayloadUntagged = true
    ∧ (linkedPresent = true → lkPayloadVariants = rsPayloadVariants ∧ lkPayloadUntagged = true) := by decide

/-- enums are `Serialize_repr` (an integer), `TokenIdx` is a newtype of `u32` -/
theorem enum_wire_shape :
    rsSerializeRepr = [("TokenChannel", "u8"), ("TokenType", "u16"), ("ErrorKind", "u16")]
    ∧ rsTokenIdxNewtype = "u32"
    ∧ (linkedPresent = true → lkSerializeRepr = rsSerializeRepr ∧ lkTokenIdxNewtype = rsTokenIdxNewtype) := by decide

/-- the binding serialises exactly this tuple, with the default `to_vec` -/
theorem binding_tuple :
    bindingTuple = ["tok_vec", "errors", "Bytes::new(buffer.string_literals_buffer().as_bytes())"] := by decide

/-! ## Python side -/

/-- the annotations this reading relies on (IntEnum fields are read as their integer; membership is
clause "enum-membership" of `Spec.C20`), and the Struct options -/
theorem py_annotations :
    pyTokenFieldsTyped.map (·.2) = ["TokenChannel", "TokenType", "int", "int", "int", "int", "int", "int", "int",
      "int | float | tuple[int, int] | None"]
    ∧ pyErrorFieldsTyped.map (·.2) = ["ErrorKind", "int", "int", "int", "int", "int | None"]
    ∧ pyTokenStructOpts.lookup "array_like" = some "True" ∧ pyErrorStructOpts.lookup "array_like" = some "True"
    ∧ pyTokenBases = ["Struct"] ∧ pyErrorBases = ["Struct"]
    ∧ pyDecoderType = "tuple[list[Token], list[Error], bytes]" := by decide

/-! ## alignment of the two sides -/

/-- **field orders are aligned**: same names in the same order (up to the one renaming
`last_token ↦ last_token_index`); for the workspace crate and for the linked crate -/
theorem fields_aligned :
    rsTokenFields = pyTokenFields ∧ rsErrorFields.map pyNameOf = pyErrorFields
    ∧ (linkedPresent = true → lkTokenFields = pyTokenFields ∧ lkErrorFields.map pyNameOf = pyErrorFields) := by
  decide

/-- position by position, the Rust type is one the Python annotation receives -/
theorem field_types_aligned :
    (rsTokenFieldsTyped.zip pyTokenFieldsTyped).all (fun (r, p) => tyCompat r.2 p.2) = true
    ∧ (rsErrorFieldsTyped.zip pyErrorFieldsTyped).all (fun (r, p) => tyCompat r.2 p.2) = true
    ∧ (linkedPresent = true →
        (lkTokenFieldsTyped.zip pyTokenFieldsTyped).all (fun (r, p) => tyCompat r.2 p.2) = true
        ∧ (lkErrorFieldsTyped.zip pyErrorFieldsTyped).all (fun (r, p) => tyCompat r.2 p.2) = true) := by
  decide

/-! ## what Python receives, field for field -/

/-- the untagged `Payload` is injective into Python's union `int | float | tuple[int, int] | None` -/
theorem rsToPyPayload_injective (p q : RsPayload) (h : rsToPyPayload p = rsToPyPayload q) : p = q := by
  cases p <;> cases q <;> simp [rsToPyPayload] at h ⊢ <;> omega

theorem pyTokenOfMP_rsTokenMP (t : RsToken) : pyTokenOfMP (rsTokenMP t) = some (rsToPyToken t) := by
  obtain ⟨c, ty, i, a, b, l, col, el, ec, p⟩ := t
  cases p <;> rfl

theorem pyErrorOfMP_rsErrorMP (e : RsError) : pyErrorOfMP (rsErrorMP e) = some (rsToPyError e) := by
  obtain ⟨k, b, c, l, col, lt⟩ := e
  cases lt <;> rfl

theorem mapOpt_map {α β γ : Type} (g : α → β) (f : β → Option γ) (h : α → γ)
    (hf : ∀ a, f (g a) = some (h a)) (xs : List α) : mapOpt f (xs.map g) = some (xs.map h) := by
  induction xs with
  | nil => rfl
  | cons x xs ih => simp [mapOpt, hf, ih]

theorem fieldMap_rsMP (r : RsResult) : fieldMap (rsMP r) = some (rsToPy r) := by
  simp [fieldMap, rsMP, rsToPy, mapOpt_map _ _ _ pyTokenOfMP_rsTokenMP, mapOpt_map _ _ _ pyErrorOfMP_rsErrorMP]

/-! ### representable results -/

theorem rsTokenMP_WF (t : RsToken) (h : t.WF) : (rsTokenMP t).WF := by
  obtain ⟨c, ty, i, a, b, l, col, el, ec, p⟩ := t
  obtain ⟨h1, h2, h3, h4, h5, h6, h7, h8, h9, hp⟩ := h
  have e : rsTokenFields = ["channel", "token_type", "token_index", "start", "stop", "line", "column",
      "end_line", "end_column", "payload"] := by decide
  simp only [rsTokenMP, e, List.map, RsToken.get]
  cases p <;> simp [MP.WF, MP.WFList, rsPayloadMP, RsPayload.WF] at * <;> omega

theorem rsErrorMP_WF (e : RsError) (h : e.WF) : (rsErrorMP e).WF := by
  obtain ⟨k, b, c, l, col, lt⟩ := e
  obtain ⟨h1, h2, h3, h4, h5, h6⟩ := h
  have e : rsErrorFields = ["error_kind", "at_byte_offset", "at_char_offset", "on_line", "at_column",
      "last_token"] := by decide
  simp only [rsErrorMP, e, List.map, RsError.get]
  cases lt <;> simp [MP.WF, MP.WFList] at * <;> omega

theorem WFList_map {α : Type} (g : α → MP) (xs : List α) (h : ∀ x ∈ xs, (g x).WF) :
    MP.WFList (xs.map g) := by
  induction xs with
  | nil => simp [MP.WFList]
  | cons x xs ih =>
    simp only [List.map, MP.WFList]
    exact ⟨h x (by simp), ih (fun y hy => h y (by simp [hy]))⟩

theorem rsMP_WF (r : RsResult) (h : r.WF) : (rsMP r).WF := by
  obtain ⟨h1, h2, h3, h4, h5⟩ := h
  simp only [rsMP, MP.WF, MP.WFList, List.length_map, List.length_cons, List.length_nil]
  refine ⟨by omega, ⟨h1, WFList_map _ _ (fun t ht => rsTokenMP_WF t (h4 t ht))⟩,
    ⟨h2, WFList_map _ _ (fun e he => rsErrorMP_WF e (h5 e he))⟩, h3, trivial⟩

/-- **C20 (i)**: decoding what the binding writes, positionally into the fields declared by the
Python classes in their order, yields the Rust values field for field -/
theorem pyDecode_rsEncode (r : RsResult) (h : r.WF) : pyDecode (rsEncode r) = some (rsToPy r) := by
  have := decode_encode (rsMP r) (rsMP_WF r h) []
  simp only [List.append_nil] at this
  simp [pyDecode, rsEncode, this, fieldMap_rsMP]

/-! # The enums: committed Python modules = what `build.rs` generates = the linked crate's enums

`build.rs` writes `class TokenType(IntEnum)` with one member per `TokenType::iter()` (declaration
order), named `conv.convert(variant.to_string())` and valued `variant as u16`, where
`conv = Converter::new().from_case(Case::Pascal).remove_boundaries(&[LowerDigit, UpperDigit])
.to_case(Case::UpperSnake)`; `TokenChannel` members keep their Rust names; `ErrorKind` members are
sorted by value and named with `from_case(Pascal).to_case(UpperSnake)` (all six Pascal boundaries).

`convert_case` 0.6.0 (`segmentation::split`) on an identifier without `_`, `-` or space: a new word
starts before character `cur` iff one of the enabled two-character boundaries matches `(prev, cur)`
or the `Acronym` boundary matches `(prev, cur, next)` = (upper, upper, lower); the words are
upper-cased and joined with `_`.  (`strum`'s `Display` without attributes prints the variant name.) -/

open PyEnums

/-- examples of the conversion rule (`EXCL2`, not `EXCL_2`: letter–digit boundaries are removed) -/
example : upperSnake .pascalNoLetterDigit "KwmQKCmpres".toList = "KWM_QK_CMPRES"
    ∧ upperSnake .pascalNoLetterDigit "EXCL2".toList = "EXCL2"
    ∧ upperSnake .pascalNoLetterDigit "MacroSep".toList = "MACRO_SEP"
    ∧ upperSnake .pascal "MissingExpectedSemiOrEOF".toList = "MISSING_EXPECTED_SEMI_OR_EOF" := by decide

/-- the character-list tables of the linked crate are the string tables -/
theorem lkChars_eq :
    lkTokenTypeChars.map (fun (n, v) => (String.ofList n, v)) = lkTokenType
    ∧ lkTokenChannelChars.map (fun (n, v) => (String.ofList n, v)) = lkTokenChannel
    ∧ lkErrorKindChars.map (fun (n, v) => (String.ofList n, v)) = lkErrorKind := by decide +kernel

/-- **C20 (iii), first half**: the committed Python enum modules are what `build.rs` regenerates
(member tables, and the whole files by sha256), when the regenerated files are available -/
theorem pyEnum_eq_generated :
    genPresent = true →
      pyTokenType = genTokenType ∧ pyTokenChannel = genTokenChannel ∧ pyErrorKind = genErrorKind
      ∧ committedSha256 = generatedSha256 := by decide +kernel

/-- **C20 (iii), second half**: the committed Python enums are the enums of the **linked** crate
through `build.rs`'s naming rule, values by discriminant -/
theorem pyEnum_eq_rsEnum :
    PyEnums.linkedPresent = true →
      pyTokenType = tokenTypeOfRust lkTokenTypeChars
      ∧ pyTokenChannel = tokenChannelOfRust lkTokenChannelChars
      ∧ pyErrorKind = errorKindOfRust lkErrorKindChars := by decide +kernel

/-! The **workspace** crate (`/repo/crates/sas-lexer`, the modelled one) is *not* the linked crate:
its `TokenType` has `MacroVarResolve, MacroVarTerm` where the published 1.0.0-beta.3 has
`MacroVarExpr`, so every later discriminant is shifted by one and the committed `token_type.py`
does **not** describe the workspace crate.  `TokenChannel` and `ErrorKind` agree. -/

theorem wsEnum_vs_linked :
    PyEnums.linkedPresent = true →
      wsTokenChannel = lkTokenChannel ∧ wsErrorKind = lkErrorKind
      ∧ wsTokenType = lkTokenType.flatMap (fun (n, v) =>
          if v < 76 then [(n, v)]
          else if v = 76 then [("MacroVarResolve", 76), ("MacroVarTerm", 77)]
          else [(n, v + 1)])
      ∧ lkTokenType.lookup "MacroVarExpr" = some 76 := by decide +kernel

end Msgpack
end SasLexer
