import SasLexer.Lex.Main
import SasLexer.Spec.C10
import SasLexer.Spec.Pairs
/-!
# Table theorems (finite tables of the model, enumerated completely by the kernel)

These are statements about the decision tables of the hand-modelled control logic and about the
generated tables (`Gen/*`): the quantifier is a finite table that `decide` enumerates
completely, so each is a proof, not a sample.
-/
namespace SasLexer

/-- state after `%kw` was recognised at the start of an otherwise empty source:
runs `dispatch_macro_call_or_stat` on a fresh lexer and returns the mode stack (top first) -/
def modesAfterKeyword (cfg : Cfg) (ty : TokenType) : List Mode :=
  (Prog.run cfg (dispatchMacroCallOrStat cfg ty false) (Lexer.new cfg [])).2.modesR

/-- the token emitted for the keyword itself (last token) -/
def tokenAfterKeyword (cfg : Cfg) (ty : TokenType) : Option (TokenType × Channel) :=
  (Prog.run cfg (dispatchMacroCallOrStat cfg ty false) (Lexer.new cfg [])).2.toksR.head?.map fun t => (t.ty, t.chan)

def relCfg : Cfg := ⟨false, false, false⟩
def sepCfg : Cfg := ⟨false, true, false⟩

/-- C10/C14 (T): every argument-taking built-in pre-loads, on top of the stack, optional
whitespace/comments and then the expectation of `(` on the keyword's own channel -/
theorem builtins_expect_lparen :
    Spec.C10.argTakingBuiltins.all (fun ty =>
      match tokenAfterKeyword relCfg ty, modesAfterKeyword relCfg ty with
      | some (ty', ch), .wsOrCStyleCommentOnly :: .expectSymbol .LPAREN ch' :: _ => ty' == ty && ch == ch'
      | _, _ => false) = true := by decide +kernel

theorem builtins_expect_lparen_sep :
    Spec.C10.argTakingBuiltins.all (fun ty =>
      match tokenAfterKeyword sepCfg ty, modesAfterKeyword sepCfg ty with
      | some (ty', ch), .wsOrCStyleCommentOnly :: .expectSymbol .LPAREN ch' :: _ => ty' == ty && ch == ch'
      | _, _ => false) = true := by decide +kernel

/-- does the pre-loaded stack contain, in this order from the top, the given expectations? -/
def expectsInOrder : List Mode → List Mode → Bool
  | _, [] => true
  | [], _ :: _ => false
  | m :: ms, e :: es => if m == e then expectsInOrder ms es else expectsInOrder ms (e :: es)

/-- C14 (T): the mandatory delimiters of each construct are pre-loaded as expectations
(`=` of `%let`; `(` … `)` then `;` of `%do %while/%until`; `,` of `%scan/%substr` families;
`/` of `%copy`; `;` after `%end`, `%return`) -/
theorem preload_has_expectations :
    expectsInOrder (modesAfterKeyword relCfg .KwmLet) [.expectSymbol .ASSIGN .DEFAULT, .expectSemiOrEOF] = true ∧
    expectsInOrder (modesAfterKeyword relCfg .KwmWhile)
      [.expectSymbol .LPAREN .DEFAULT, .expectSymbol .RPAREN .DEFAULT, .expectSemiOrEOF] = true ∧
    expectsInOrder (modesAfterKeyword relCfg .KwmUntil)
      [.expectSymbol .LPAREN .DEFAULT, .expectSymbol .RPAREN .DEFAULT, .expectSemiOrEOF] = true ∧
    [TokenType.KwmScan, .KwmQScan, .KwmKScan, .KwmQKScan, .KwmSubstr, .KwmQSubstr, .KwmKSubstr, .KwmQKSubstr].all
      (fun ty => expectsInOrder (modesAfterKeyword relCfg ty)
        [.expectSymbol .LPAREN .DEFAULT, .expectSymbol .COMMA .DEFAULT, .expectSymbol .RPAREN .DEFAULT]) = true ∧
    expectsInOrder (modesAfterKeyword relCfg .KwmCopy) [.expectSymbol .FSLASH .DEFAULT, .expectSemiOrEOF] = true ∧
    expectsInOrder (modesAfterKeyword relCfg .KwmEnd) [.expectSemiOrEOF] = true ∧
    expectsInOrder (modesAfterKeyword relCfg .KwmReturn) [.expectSemiOrEOF] = true := by
  decide +kernel

/-- C18 (T): the separator decision of the model is exactly the placement rule of the
specification: a separator can only precede a type of `sepFollowSet`, and never follows
`;`, a label, `%then`, `%else` or nothing -/
theorem needsMacroSep_table :
    TokenType.all.all (fun ty =>
      (needsMacroSep (some .Identifier) ty == Spec.sepFollowSet.contains ty)
      && (needsMacroSep none ty == false)
      && [TokenType.SEMI, .MacroLabel, .KwmThen, .KwmElse].all (fun p => needsMacroSep (some p) ty == false)) = true := by
  decide +kernel

theorem needsMacroSep_prev_irrelevant :
    TokenType.all.all (fun p => TokenType.all.all (fun ty =>
      [TokenType.SEMI, .MacroLabel, .KwmThen, .KwmElse].contains p ||
        needsMacroSep (some p) ty == needsMacroSep (some .Identifier) ty)) = true := by
  decide +kernel

/-- every constructor of `TokenType` is listed in `TokenType.all` (so the two theorems above
quantify over all token types) -/
theorem tokenType_all_get (t : TokenType) : TokenType.all[t.toNat]? = some t := by
  cases t <;> rfl

theorem tokenType_all_complete (t : TokenType) : t ∈ TokenType.all :=
  List.mem_of_getElem? (tokenType_all_get t)

/-- C16 (T): every keyword table key is already upper case ASCII, so the lookup after
ASCII upper-casing is a case-insensitive membership test -/
theorem keywords_upper :
    (TokenType.KEYWORDS.all fun (k, _) => k.toList.all (fun c => toUpperAscii c == c && isAscii c)) = true ∧
    (TokenType.MKEYWORDS.all fun (k, _) => k.toList.all (fun c => toUpperAscii c == c && isAscii c)) = true := by
  decide +kernel

theorem upperStr_case_invariant (a b : List Char) (h : a.map toUpperAscii = b.map toUpperAscii) :
    upperStr a = upperStr b := by
  unfold upperStr; rw [h]

/-- C16 (T): the ASCII character classes the control logic branches on are closed under
ASCII case change (checked for all 128 ASCII code points) -/
theorem ascii_classes_case_closed :
    (List.range 128).all (fun n =>
      let c := Char.ofNat n
      let u := toUpperAscii c
      isAsciiHexDigit u == isAsciiHexDigit c && isSasNameStart u == isSasNameStart c
        && isSasNameContinue u == isSasNameContinue c && isAsciiDigit u == isAsciiDigit c
        && isIdentContinue u == isIdentContinue c && isWhitespace u == isWhitespace c
        && (!isAsciiHexDigit c || hexDigitVal u == hexDigitVal c)) = true := by
  decide +kernel

/-- C16 (T): the mnemonic recogniser gives the same answer on every ASCII-case variant of every
two- and three-letter mnemonic spelling followed by a delimiter -/
theorem mnemonics_case_closed :
    (["eq", "ne", "lt", "le", "gt", "ge", "in", "or", "and", "not"].all fun w =>
      let cs := w.toList
      let variants := cs.foldr (fun c acc => acc.flatMap fun t => [c :: t, toUpperAscii c :: t]) [[]]
      variants.all fun v =>
        isMacroEvalMnemonic (v ++ [' ']) == isMacroEvalMnemonic (cs ++ [' '])
          && (isMacroEvalMnemonic (cs ++ [' '])).1.isSome) = true := by
  decide +kernel

/-- C01/C06 (T): the packed flag bytes round-trip through their accessors -/
theorem evalFlags_roundtrip :
    ([NumericMode.integer, .float].all fun nm => [NextArgMode.none, .singleEvalExpr, .evalExpr, .macroArg].all fun na =>
      [false, true].all fun a => [false, true].all fun b => [false, true].all fun c =>
        let f := EvalFlags.new nm na a b c
        EvalFlags.numericMode f == nm && EvalFlags.followArgMode f == na && EvalFlags.terminateOnStat f == a
          && EvalFlags.terminateOnSemi f == b && EvalFlags.parensMaskComma f == c
          && EvalFlags.terminateOnComma f == (na != .none) && decide (f < 256)) = true := by
  decide +kernel

theorem argFlags_roundtrip :
    ([ArgContext.builtInMacro, .macroCall, .macroDef].all fun cx => [false, true].all fun a => [false, true].all fun b =>
      let f := ArgFlags.new cx a b
      ArgFlags.context f == cx && ArgFlags.populateNextArgStack f == a && ArgFlags.terminateOnComma f == b
        && decide (f < 256)) = true := by
  decide +kernel

end SasLexer
