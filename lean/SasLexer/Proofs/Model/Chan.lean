import SasLexer.Prog
import SasLexer.Spec.ChanTable
import SasLexer.Proofs.Model.DiscAttr
/-!
# The channel table: a state-free discipline (`ChanR`)

`chanOK ch ty` is the context-free reading of C06's channel sentence: comment types are exactly the tokens of the
comment channel; `WS`, `CatchAll` and the `%str/%nrstr` keywords are always hidden; besides them only `COLON` and
the two parentheses may be hidden; everything else is on the default channel.

(Second table, same discipline: `payKindOK` of `Spec/ChanTable.lean` — which kind of payload a type carries.)

`ChanR p Q`: whatever the responses (mode-stack reads restricted to modes that satisfy `modeOK`: an
`ExpectSymbol(ty, ch)` on the stack has `chanOK ch ty`), every token the program emits, retypes or inserts obeys
the table, every mode it pushes satisfies `modeOK`, and every value it returns satisfies `Q`.
-/
namespace SasLexer

/-- the payload an emit site hands over, before the payload register is read: the register holds nothing or a
string payload (`PReg`), so `.reg` is admissible exactly for the string families -/
def paySpecOK (ty : TokenType) : PaySpec → Bool
  | .none => payKindOK ty .none
  | .int v => payKindOK ty (.int v)
  | .float b => payKindOK ty (.float b)
  | .reg => isStrTy ty && payKindOK ty .none

/-- what an emit site owes: channel table, payload-kind table, and — third table — no `MacroSep` unless the build
has the `macro_sep` feature (`sep`) -/
def tokOK (sep : Bool) (ch : Channel) (ty : TokenType) (p : PaySpec) : Bool :=
  chanOK ch ty && paySpecOK ty p && (ty != .MacroSep || sep)

theorem tokOK_mono {sep : Bool} {ch : Channel} {ty : TokenType} {p : PaySpec} (h : tokOK false ch ty p = true) :
    tokOK sep ch ty p = true := by
  simp only [tokOK, Bool.and_eq_true, Bool.or_false] at h ⊢
  exact ⟨h.1, by simp [h.2]⟩

/-- a type that may appear on the default channel without payload -/
def plainTy (ty : TokenType) : Bool := tokOK false .DEFAULT ty .none

/-- retyping keeps the payload: both types must accept the same kinds -/
def sameKinds (e n : TokenType) : Bool :=
  isStrTy e == isStrTy n && isIntTy e == isIntTy n && isFloatTy e == isFloatTy n

def modeOK : Mode → Prop
  | .expectSymbol ty ch => tokOK false ch ty .none = true
  | _ => True

def cOkCh (sep : Bool) : Op → Prop
  | .emitToken ch ty p => tokOK sep ch ty p = true
  | .emitTokenAtMark ch ty p => tokOK sep ch ty p = true
  | .updateLastToken ch ty p => tokOK sep ch ty p = true
  | .retypeLastDefault e n => plainTy n = true ∧ sameKinds e n = true
  | .pushMode m => modeOK m
  | .modifyTop f => ∀ m, modeOK m → modeOK (f m)
  | .modifyAt _ f => ∀ m m', modeOK m → f m = some m' → modeOK m'
  | .insertModeAt _ m => modeOK m
  | _ => True

def respOK : (o : Op) → Resp o → Prop
  | .mode, m => modeOK m
  | .popModeRaw, m => ∀ x, m = some x → modeOK x
  | _, _ => True

def ChanR (sep : Bool) {α : Type} : Prog α → (α → Prop) → Prop
  | .ret a, Q => Q a
  | .op o k, Q => cOkCh sep o ∧ ∀ r, respOK o r → ChanR sep (k r) Q

namespace ChanR
variable {α β : Type} {sep : Bool}

theorem op_iff {o : Op} {k : Resp o → Prog α} {Q : α → Prop} :
    ChanR sep (Prog.op o k) Q ↔ cOkCh sep o ∧ ∀ r, respOK o r → ChanR sep (k r) Q := Iff.rfl

theorem mono {p : Prog α} {Q Q' : α → Prop} (hQ : ∀ a, Q a → Q' a) : ChanR sep p Q → ChanR sep p Q' := by
  induction p with
  | ret a => exact hQ a
  | op o k ih => intro h; exact ⟨h.1, fun r hr => ih r (h.2 r hr)⟩

theorem bind_iff {p : Prog α} {f : α → Prog β} {Q : β → Prop} :
    ChanR sep (p >>= f) Q ↔ ChanR sep p (fun a => ChanR sep (f a) Q) := by
  induction p with
  | ret a => exact Iff.rfl
  | op o k ih =>
    show ChanR sep (Prog.op o fun r => k r >>= f) Q ↔ _
    rw [op_iff, op_iff]
    constructor
    · intro h; exact ⟨h.1, fun r hr => (ih r).1 (h.2 r hr)⟩
    · intro h; exact ⟨h.1, fun r hr => (ih r).2 (h.2 r hr)⟩

theorem pure_iff {a : α} {Q : α → Prop} : ChanR sep (pure a : Prog α) Q ↔ Q a := Iff.rfl
theorem ret_iff {a : α} {Q : α → Prop} : ChanR sep (Prog.ret a) Q ↔ Q a := Iff.rfl

theorem ite_iff {c : Prop} [Decidable c] {p q : Prog α} {Q : α → Prop} :
    ChanR sep (if c then p else q) Q ↔ if c then ChanR sep p Q else ChanR sep q Q := by
  split <;> rfl

theorem perform_iff {o : Op} {Q : Resp o → Prop} :
    ChanR sep (Prog.perform o) Q ↔ cOkCh sep o ∧ ∀ r, respOK o r → Q r := Iff.rfl

attribute [chan_simp] op_iff bind_iff pure_iff ret_iff ite_iff perform_iff

theorem ite_intro {c : Prop} [Decidable c] {a b : Prop} (ht : c → a) (he : ¬c → b) : if c then a else b := by
  split
  · exact ht ‹_›
  · exact he ‹_›

end ChanR

/-- programs that obey the channel table, whatever they return -/
def Chan (sep : Bool) {α : Type} (p : Prog α) : Prop := ChanR sep p (fun _ => True)

theorem Chan.use {sep : Bool} {α : Type} {p : Prog α} (h : Chan sep p) {Q : α → Prop} (hQ : ∀ a, Q a) : ChanR sep p Q :=
  ChanR.mono (fun a _ => hQ a) h

attribute [irreducible] ChanR

/-- `chan_auto [callee lemmas]` -/
syntax "chan_auto" "[" term,* "]" : tactic
macro_rules
  | `(tactic| chan_auto [$ls,*]) => `(tactic| repeat' (first
      | (intro h; first | (simp at h; done) | skip)
      | (simp only [chan_simp, Prog.perform, cOkCh, respOK, modeOK, List.head?_cons, List.head?_nil, List.drop_succ_cons, List.drop_zero,
          List.drop_nil, Option.getD_some, Option.getD_none, true_and, and_true, forall_const, implies_true])
      | (first $[| apply $ls]*)
      | trivial
      | (show chanOK _ _ = true; decide)
      | (show tokOK _ _ _ _ = true; rfl)
      | (apply tokOK_mono; assumption)
      | (show tokOK _ _ _ _ = true; decide)
      | (show sameKinds _ _ = true; decide)
      | (show plainTy _ = true; decide)
      | refine ⟨?_, ?_⟩
      | apply ChanR.ite_intro
      | split))

end SasLexer
