import SasLexer.Proofs.Model.Cover
import SasLexer.Proofs.Kernel.Run
import SasLexer.Proofs.Kernel.Src
import SasLexer.Proofs.Pure.Lines
/-!
# Soundness of `cwp`: the oldest token starts at the end of the BOM
-/
namespace SasLexer
open Lexer

/-- the checkpoint clause: the abstract checkpoint describes the concrete one -/
def CpRel (src : List Char) (toksR : List TokInfo) : Option (Bool × Bool × Bool) → Option Checkpoint → Prop
  | none, c => c = none
  | some (n, t, a), c => ∃ k, c = some k ∧ (n = true → 1 ≤ k.nToks) ∧ k.nToks ≤ toksR.length ∧ (n = false → k.nToks = 0) ∧
      (t = true → k.tok.start = bomChars src) ∧ (a = true → k.cur.charOff = bomChars src)

structure CInv (σ : CS) (L : Lexer) : Prop where
  ne_iff : σ.ne = true ↔ L.toksR ≠ []
  first : L.toksR ≠ [] → ∃ t, L.toksR.getLast? = some t ∧ t.start = bomChars L.src
  tokAt : σ.tokAt = true → L.tok.start = bomChars L.src
  atS : σ.atS = true → L.cur.charOff = bomChars L.src
  markNone : σ.mark = none ↔ L.mark = none
  markAt : σ.mark = some true → ∀ m, L.mark = some m → m.start = bomChars L.src
  cp : CpRel L.src L.toksR σ.cp L.cp

namespace CInv
variable {σ : CS} {L : Lexer} {cfg : Cfg}

/-- `CInv` only reads these fields -/
theorem congr {L L' : Lexer} (h : CInv σ L)
    (e1 : L'.src = L.src) (e3 : L'.cur = L.cur) (e4 : L'.tok = L.tok)
    (e5 : L'.toksR = L.toksR) (e8 : L'.cp = L.cp) (e9 : L'.mark = L.mark) : CInv σ L' := by
  constructor <;> simp only [e1, e3, e4, e5, e8, e9]
  · exact h.ne_iff
  · exact h.first
  · exact h.tokAt
  · exact h.atS
  · exact h.markNone
  · exact h.markAt
  · exact h.cp

theorem cpRel_cons {src : List Char} {ts : List TokInfo} {t : TokInfo} {a : Option (Bool × Bool × Bool)} {c : Option Checkpoint}
    (h : CpRel src ts a c) : CpRel src (t :: ts) a c := by
  cases a with
  | none => exact h
  | some x =>
    obtain ⟨n, t', a'⟩ := x
    obtain ⟨k, hk, h1, h2, h3⟩ := h
    exact ⟨k, hk, h1, by simp; omega, h3⟩

theorem cpRel_len {src : List Char} {ts ts' : List TokInfo} {a : Option (Bool × Bool × Bool)} {c : Option Checkpoint}
    (h : CpRel src ts a c) (hl : ts.length ≤ ts'.length) : CpRel src ts' a c := by
  cases a with
  | none => exact h
  | some x =>
    obtain ⟨n, t', a'⟩ := x
    obtain ⟨k, hk, h1, h2, h3⟩ := h
    exact ⟨k, hk, h1, by omega, h3⟩

/-- adding a token that starts at the BOM end when it is the first one -/
theorem bufAddToken (h : CInv σ L) {t : TokInfo} (ht : L.toksR = [] → t.start = bomChars L.src) :
    CInv { σ with ne := true } (L.bufAddToken cfg t) := by
  refine { ne_iff := by simp [Lexer.bufAddToken], first := ?_, tokAt := h.tokAt, atS := h.atS,
           markNone := h.markNone, markAt := h.markAt, cp := cpRel_cons h.cp }
  intro _
  cases hl : L.toksR with
  | nil => exact ⟨t, by simp [Lexer.bufAddToken, hl], ht hl⟩
  | cons a b =>
    obtain ⟨t0, h0, h1⟩ := h.first (by simp [hl])
    refine ⟨t0, ?_, h1⟩
    simp only [Lexer.bufAddToken, hl] at h0 ⊢
    rw [List.getLast?_cons_cons]; exact h0

theorem emitError (h : CInv σ L) (k : ErrorKind) : CInv σ (L.emitError k) :=
  h.congr rfl rfl rfl rfl rfl rfl

end CInv
theorem retype_starts {e n : TokenType} : ∀ {ts ts' : List TokInfo},
    retypeLastDefaultAux e n ts = some ts' → ts'.map (·.start) = ts.map (·.start)
  | [], ts', h => by simp [retypeLastDefaultAux] at h
  | t :: ts, ts', h => by
    unfold retypeLastDefaultAux at h
    split at h
    · split at h
      · simp only [Option.some.injEq] at h; subst h; simp
      · simp at h
    · cases hr : retypeLastDefaultAux e n ts with
      | none => simp [hr] at h
      | some r =>
        simp only [hr, Option.map_some, Option.some.injEq] at h; subst h
        simp [retype_starts hr]

theorem insertSep_last : ∀ {ts ts' : List TokInfo}, insertSepAux ts = some ts' →
    ts'.length = ts.length + 1 ∧ ts'.getLast?.map (·.start) = ts.getLast?.map (·.start)
  | [], ts', h => by simp [insertSepAux] at h
  | t :: ts, ts', h => by
    unfold insertSepAux at h
    split at h
    · simp only [Option.some.injEq] at h; subst h
      refine ⟨by simp, ?_⟩
      cases ts with
      | nil => simp
      | cons a b => simp [List.getLast?_cons_cons]
    · cases hr : insertSepAux ts with
      | none => simp [hr] at h
      | some r =>
        simp only [hr, Option.map_some, Option.some.injEq] at h; subst h
        obtain ⟨h1, h2⟩ := insertSep_last hr
        refine ⟨by simp [h1], ?_⟩
        cases ts with
        | nil => simp [insertSepAux] at hr
        | cons a b =>
          cases r with
          | nil => simp at h1
          | cons c d => simp only [List.getLast?_cons_cons]; exact h2

theorem last_start_of_map {ts ts' : List TokInfo} (h : ts'.map (·.start) = ts.map (·.start)) :
    ts'.getLast?.map (·.start) = ts.getLast?.map (·.start) := by
  have := congrArg List.getLast? h
  simpa [List.getLast?_map] using this

namespace CInv
variable {σ : CS} {L : Lexer} {cfg : Cfg}

/-- replacing the token list by one of the same (or greater) length whose oldest token starts at the same place -/
theorem withToks (h : CInv σ L) {ts : List TokInfo} (hl : L.toksR.length ≤ ts.length)
    (hne : L.toksR = [] → ts = [])
    (hlast : ts.getLast?.map (·.start) = L.toksR.getLast?.map (·.start)) : CInv σ { L with toksR := ts } := by
  refine { ne_iff := ?_, first := ?_, tokAt := h.tokAt, atS := h.atS, markNone := h.markNone, markAt := h.markAt,
           cp := cpRel_len h.cp hl }
  · rw [h.ne_iff]
    constructor
    · intro h1 h2; apply h1; cases hL : L.toksR with
      | nil => rfl
      | cons a b => rw [hL] at hl; subst h2; simp at hl
    · intro h1 h2; exact h1 (hne h2)
  · intro hts
    have hL : L.toksR ≠ [] := fun h2 => hts (hne h2)
    obtain ⟨t0, h0, h1⟩ := h.first hL
    rw [h0] at hlast
    cases hg : ts.getLast? with
    | none => rw [hg] at hlast; simp at hlast
    | some t1 =>
      rw [hg] at hlast
      simp only [Option.map_some, Option.some.injEq] at hlast
      exact ⟨t1, rfl, by rw [hlast]; exact h1⟩

end CInv

theorem truncR_getLast {α} (l : List α) (n : Nat) (hn : 1 ≤ n) (hl : n ≤ l.length) :
    (Lexer.truncR l n).getLast? = l.getLast? := by
  unfold Lexer.truncR
  rw [List.getLast?_drop]
  have : ¬ l.length ≤ l.length - n := by omega
  simp [this]

theorem truncR_zero {α} (l : List α) : Lexer.truncR l 0 = [] := by simp [Lexer.truncR]

theorem truncR_ne_nil_len {α} (l : List α) (n : Nat) (hn : 1 ≤ n) (hl : n ≤ l.length) : Lexer.truncR l n ≠ [] := by
  unfold Lexer.truncR
  intro h
  have := congrArg List.length h
  simp at this; omega

@[simp] theorem lastLineOrAdd_toksR (cfg) (L : Lexer) : (L.lastLineOrAdd cfg).2.toksR = L.toksR := by
  unfold Lexer.lastLineOrAdd; split <;> rfl
@[simp] theorem lastLineOrAdd_tok (cfg) (L : Lexer) : (L.lastLineOrAdd cfg).2.tok = L.tok := by
  unfold Lexer.lastLineOrAdd; split <;> rfl
@[simp] theorem lastLineOrAdd_cp (cfg) (L : Lexer) : (L.lastLineOrAdd cfg).2.cp = L.cp := by
  unfold Lexer.lastLineOrAdd; split <;> rfl
@[simp] theorem lastLineOrAdd_mark (cfg) (L : Lexer) : (L.lastLineOrAdd cfg).2.mark = L.mark := by
  unfold Lexer.lastLineOrAdd; split <;> rfl
@[simp] theorem lastLineOrAdd_cur2 (cfg) (L : Lexer) : (L.lastLineOrAdd cfg).2.cur = L.cur := by
  unfold Lexer.lastLineOrAdd; split <;> rfl
@[simp] theorem lastLineOrAdd_src2 (cfg) (L : Lexer) : (L.lastLineOrAdd cfg).2.src = L.src := by
  unfold Lexer.lastLineOrAdd; split <;> rfl

namespace CInv
variable {σ : CS} {L : Lexer} {cfg : Cfg}

theorem lastLineOrAdd (h : CInv σ L) : CInv σ (L.lastLineOrAdd cfg).2 :=
  h.congr (by simp) (by simp) (by simp) (by simp) (by simp) (by simp)

theorem popMode (h : CInv σ L) : CInv σ L.popMode := by
  unfold Lexer.popMode; split
  · exact h.congr rfl rfl rfl rfl rfl rfl
  · exact h.congr rfl rfl rfl rfl rfl rfl
theorem mode (h : CInv σ L) : CInv σ L.mode.2 := by
  unfold Lexer.mode; split
  · exact h
  · exact h.congr rfl rfl rfl rfl rfl rfl
theorem popPendingStat (h : CInv σ L) : CInv σ L.popPendingStat := by
  unfold Lexer.popPendingStat; split
  · exact h.congr rfl rfl rfl rfl rfl rfl
  · exact h
theorem pendingStat (h : CInv σ L) : CInv σ L.pendingStat.2 := by
  unfold Lexer.pendingStat; split
  · exact h.congr rfl rfl rfl rfl rfl rfl
  · exact h
theorem setPendingStat (h : CInv σ L) (v : Bool) : CInv σ (L.setPendingStat v) := by
  unfold Lexer.setPendingStat; split
  · exact h.congr rfl rfl rfl rfl rfl rfl
  · exact h.congr rfl rfl rfl rfl rfl rfl
theorem addStringLiteralFromSrc (h : CInv σ L) (a : Nat) (b : Option Nat) :
    CInv σ (L.addStringLiteralFromSrc cfg a b).2 := by
  unfold Lexer.addStringLiteralFromSrc
  dsimp only
  split
  · exact h.congr rfl rfl rfl rfl rfl rfl
  · exact h.congr rfl rfl rfl rfl rfl rfl
theorem pendingTextFrom (h : CInv σ L) (a b : Nat) (k : ErrorKind) : CInv σ (L.pendingTextFrom a b k).2 := by
  unfold Lexer.pendingTextFrom; split
  · exact h
  · exact h.emitError _

/-- the cursor moves: only `atS` (and `fresh`) are given up -/
theorem withCur (h : CInv σ L) (cur' : Cursor) : CInv { σ with atS := false, fresh := false } { L with cur := cur' } := by
  refine { ne_iff := h.ne_iff, first := h.first, tokAt := h.tokAt, atS := ?_, markNone := h.markNone,
           markAt := h.markAt, cp := h.cp }
  intro h'; cases h'

end CInv

/-- **one step**: an operation whose side condition `cOk` holds keeps the concrete invariant, with the abstract
state advanced by `cNext` -/
theorem step_CInv (cfg : Cfg) (o : Op) (L : Lexer) (σ : CS) (h : CInv σ L) (hok : cOk o σ) :
    CInv (cNext o σ) (step cfg o L).2 := by
  cases o <;> simp only [step, cNext] <;> simp only [cOk] at hok
  case rest | lastTok | lastDefaultTok | secondLastDefaultTok | hasCheckpoint | nesting | modeDepth | hasMark
      | litIsEmpty | loopProbe => exact h
  case dassert c m => exact h.congr rfl rfl rfl rfl rfl rfl
  case pendingText => exact h.pendingTextFrom _ _ _
  case pendingTextToMark => exact h.pendingTextFrom _ _ _
  case pendingTextWithPrev => exact h.pendingTextFrom _ _ _
  case advance => exact h.withCur _
  case advanceBy n => exact (h.congr (L' := L.dassert cfg (decide (n > 0)) "assertion failed: n > 0") rfl rfl rfl rfl rfl rfl).withCur _
  case eatWhile p => exact h.withCur _
  case addLine => exact h.congr rfl rfl rfl rfl rfl rfl
  case startToken =>
    have h' := h.lastLineOrAdd (cfg := cfg)
    unfold Lexer.startToken
    refine { ne_iff := by simpa using h'.ne_iff, first := by simpa using h'.first, tokAt := ?_, atS := by simpa using h'.atS,
             markNone := by simpa using h'.markNone, markAt := by simpa using h'.markAt, cp := by simpa using h'.cp }
    intro hat
    simpa [Lexer.curChar] using h.atS hat
  case markIfNone =>
    unfold Lexer.markIfNone
    cases hm : L.mark with
    | some m =>
      have : σ.mark ≠ none := fun e => by have := h.markNone.1 e; rw [hm] at this; cases this
      cases hs : σ.mark with
      | none => exact absurd hs this
      | some b => simpa [hs] using h
    | none =>
      have hs : σ.mark = none := h.markNone.2 hm
      simp only [hs]
      have h' := h.lastLineOrAdd (cfg := cfg)
      refine { ne_iff := by simpa using h'.ne_iff, first := by simpa using h'.first, tokAt := by simpa using h'.tokAt,
               atS := by simpa using h'.atS, markNone := by simp, markAt := ?_, cp := by simpa using h'.cp }
      intro hat m hmm
      simp only [Option.some.injEq] at hat hmm
      subst hmm
      simpa [Lexer.curChar] using h.atS hat
  case clearMark =>
    exact { ne_iff := h.ne_iff, first := h.first, tokAt := h.tokAt, atS := h.atS, markNone := by simp [Lexer.clearMark],
            markAt := (by intro hh; cases hh), cp := h.cp }
  case emitToken ch ty p =>
    refine h.bufAddToken (t := ⟨ch, ty, L.tok.byte, L.tok.start, L.tok.line, _⟩) ?_
    intro hnil
    rcases hok with hne | hat
    · exact absurd hnil (h.ne_iff.1 hne)
    · exact h.tokAt hat
  case emitTokenAtMark ch ty p =>
    unfold Lexer.emitTokenAtMark
    cases hm : L.mark with
    | none =>
      have hs : σ.mark = none := h.markNone.2 hm
      simpa [hs] using h
    | some m =>
      have hsn : σ.mark ≠ none := fun e => by have := h.markNone.1 e; rw [hm] at this; cases this
      cases hs : σ.mark with
      | none => exact absurd hs hsn
      | some b =>
        simp only
        have hσ : ({ ne := true, tokAt := σ.tokAt, atS := σ.atS, mark := some b, cp := σ.cp, fresh := σ.fresh } : CS)
            = { σ with ne := true } := by cases σ; simp_all
        rw [hσ]
        refine h.bufAddToken (t := ⟨ch, ty, m.byte, m.start, m.line, _⟩) ?_
        intro hnil
        rcases hok with hne | hmk
        · exact absurd hnil (h.ne_iff.1 hne)
        · have : b = true := by
            cases b with
            | true => rfl
            | false => exact absurd hs hmk
          subst this
          exact h.markAt hs m hm
  case updateLastToken ch ty p =>
    unfold Lexer.updateLastToken
    cases hl : L.toksR with
    | cons t ts =>
      have hne : σ.ne = true := h.ne_iff.2 (by simp [hl])
      have hσ : { σ with ne := true } = σ := by cases σ; simp_all
      rw [hσ]
      simp only
      refine (h.withToks (ts := { t with chan := ch, ty := ty, payload := _ } :: ts) (by simp [hl]) (by simp [hl]) ?_)
      rw [hl]
      cases ts with
      | nil => simp
      | cons a b => simp [List.getLast?_cons_cons]
    | nil =>
      simp only
      refine CInv.bufAddToken (h := h.congr (L' := L.emitError .InternalErrorNoTokenToReplace) rfl rfl rfl rfl rfl rfl)
        (t := ⟨ch, ty, L.tok.byte, L.tok.start, L.tok.line, _⟩) ?_
      intro _
      rcases hok with hne | hat
      · exact absurd hl (h.ne_iff.1 hne)
      · exact h.tokAt hat
  case retypeLastDefault e n =>
    split
    · rename_i ts hts
      have hm := retype_starts hts
      have hlen : ts.length = L.toksR.length := by simpa using congrArg List.length hm
      refine h.withToks (by omega) ?_ (last_start_of_map hm)
      intro hnil; rw [hnil] at hlen; exact List.length_eq_zero_iff.1 hlen
    · exact h
  case insertSepBeforeLastDefault =>
    split
    · split
      · rename_i ts hts
        obtain ⟨h1, h2⟩ := insertSep_last hts
        refine h.withToks (by omega) ?_ h2
        intro hnil; rw [hnil] at hts; simp [insertSepAux] at hts
      · exact h
    · exact h
  case emitError k => exact h.emitError k
  case prepError k => exact h.congr rfl rfl rfl rfl rfl rfl
  case emitPrepared => split <;> first | exact h.congr rfl rfl rfl rfl rfl rfl | exact h
  case pushMode m => exact h.congr rfl rfl rfl rfl rfl rfl
  case popMode => exact h.popMode
  case mode => exact h.mode
  case popModeRaw => split <;> first | exact h.congr rfl rfl rfl rfl rfl rfl | exact h
  case modifyTop f => split <;> first | exact h.congr rfl rfl rfl rfl rfl rfl | exact h
  case modifyAt i f => split <;> first | exact h.congr rfl rfl rfl rfl rfl rfl | exact h
  case insertModeAt i m => split <;> exact h.congr rfl rfl rfl rfl rfl rfl
  case checkpoint =>
    unfold Lexer.checkpoint
    refine { ne_iff := h.ne_iff, first := h.first, tokAt := h.tokAt, atS := h.atS, markNone := h.markNone,
             markAt := h.markAt, cp := ?_ }
    refine ⟨_, rfl, ?_, Nat.le_refl _, ?_, h.tokAt, h.atS⟩
    · intro hne
      have := h.ne_iff.1 hne
      show 1 ≤ L.toksR.length
      cases hl : L.toksR with
      | nil => exact absurd hl this
      | cons a b => simp
    · intro hne
      show L.toksR.length = 0
      cases hl : L.toksR with
      | nil => rfl
      | cons a b =>
        have := h.ne_iff.2 (by simp [hl])
        rw [hne] at this; cases this
  case clearCheckpoint =>
    exact { ne_iff := h.ne_iff, first := h.first, tokAt := h.tokAt, atS := h.atS, markNone := h.markNone,
            markAt := h.markAt, cp := by simp [Lexer.clearCheckpoint, CpRel] }
  case bumpCheckpointModeLen n =>
    refine { ne_iff := h.ne_iff, first := h.first, tokAt := h.tokAt, atS := h.atS, markNone := h.markNone,
             markAt := h.markAt, cp := ?_ }
    have hc := h.cp
    cases hs : σ.cp with
    | none => rw [hs] at hc; simp only [CpRel] at hc ⊢; simp [hc]
    | some x =>
      obtain ⟨n', t', a'⟩ := x
      rw [hs] at hc
      obtain ⟨k, hk, h1, h2, h3, h4, h5⟩ := hc
      exact ⟨{ k with modeLen := k.modeLen + n }, by simp [hk], h1, h2, h3, h4, h5⟩
  case rollback =>
    unfold Lexer.rollback
    have hc := h.cp
    cases hs : σ.cp with
    | none =>
      rw [hs] at hc
      simp only [CpRel] at hc
      simp only [hc]
      exact h.emitError _
    | some x =>
      obtain ⟨n, t, a⟩ := x
      rw [hs] at hc
      obtain ⟨k, hk, h1, h2, h3, h4, h5⟩ := hc
      simp only [hk]
      refine { ne_iff := ?_, first := ?_, tokAt := h4, atS := h5, markNone := h.markNone, markAt := h.markAt,
               cp := by simp [CpRel] }
      · cases n with
        | true =>
          simp only [true_iff]
          exact truncR_ne_nil_len _ _ (h1 rfl) h2
        | false =>
          simp only [Bool.false_eq_true, false_iff, ne_eq, Classical.not_not]
          rw [h3 rfl]; exact truncR_zero _
      · intro hne
        have hn1 : 1 ≤ k.nToks := by
          cases n with
          | true => exact h1 rfl
          | false => rw [h3 rfl, truncR_zero] at hne; exact absurd rfl hne
        rw [truncR_getLast _ _ hn1 h2]
        exact h.first (by intro e; rw [e] at h2; simp at h2; omega)
  case pushPending b => exact h.congr rfl rfl rfl rfl rfl rfl
  case popPending => exact h.popPendingStat
  case pendingStat => exact h.pendingStat
  case setPending b => exact h.setPendingStat b
  case nestInc | nestDec | litBegin | litBeginAtTok | litMarkEnd | payClear => exact h.congr rfl rfl rfl rfl rfl rfl
  case litCut => exact (h.addStringLiteralFromSrc (cfg := cfg) L.lit.lastEnd none).congr rfl rfl rfl rfl rfl rfl
  case litResolve back =>
    split
    · exact h.congr rfl rfl rfl rfl rfl rfl
    · exact ((h.congr (L' := L.dassert cfg _ _) rfl rfl rfl rfl rfl rfl).addStringLiteralFromSrc (cfg := cfg) L.lit.lastEnd
        (some (L.curByte - back))).congr rfl rfl rfl rfl rfl rfl
  case litAddDecoded cs => exact h.congr rfl rfl rfl rfl rfl rfl
  case panic m => exact h.congr rfl rfl rfl rfl rfl rfl

/-- operations that keep `fresh` leave the text in front of the cursor alone -/
theorem step_rest_same (cfg : Cfg) (o : Op) (L : Lexer) (σ : CS) (h : CInv σ L) (hf : (cNext o σ).fresh = true) :
    (step cfg o L).2.cur.rest = L.cur.rest := by
  cases o <;> simp only [step, cNext] at hf ⊢
  case advance | advanceBy | eatWhile => simp at hf
  case rollback =>
    have hc := h.cp
    cases hs : σ.cp with
    | none =>
      rw [hs] at hc; simp only [CpRel] at hc
      simp [Lexer.rollback, hc, Lexer.emitError, Lexer.emitErrorInfo]
    | some x => obtain ⟨n, t, a⟩ := x; simp [hs] at hf
  all_goals first
    | rfl
    | (simp [Lexer.pendingText, Lexer.pendingTextFrom]; split <;> rfl)
    | (simp [Lexer.bufAddToken]; done)
    | (unfold Lexer.startToken; simp; done)
    | (unfold Lexer.markIfNone; split <;> simp; done)
    | (unfold Lexer.emitTokenAtMark; split <;> rfl)
    | (unfold Lexer.updateLastToken; split <;> rfl)
    | (unfold Lexer.popMode; split <;> rfl)
    | (unfold Lexer.mode; split <;> rfl)
    | (unfold Lexer.popPendingStat; split <;> rfl)
    | (unfold Lexer.pendingStat; split <;> rfl)
    | (unfold Lexer.setPendingStat; split <;> rfl)
    | (unfold Lexer.pendingTextFrom; split <;> rfl)
    | (unfold Lexer.addStringLiteralFromSrc; dsimp only; split <;> rfl)
    | (repeat' split) <;> first | rfl | (unfold Lexer.addStringLiteralFromSrc; dsimp only; split <;> rfl)

end SasLexer

namespace SasLexer

theorem run_op' (cfg : Cfg) {α : Type} (o : Op) (k : Resp o → Prog α) (L : Lexer) :
    Prog.run cfg (Prog.op o k) L =
      match (step cfg o L).2.panicked with
      | some _ => (none, (step cfg o L).2)
      | none => Prog.run cfg (k (step cfg o L).1) (step cfg o L).2 := by
  rw [Prog.run]
  generalize step cfg o L = r
  obtain ⟨resp, L'⟩ := r
  rfl

theorem smallRest_of_kpos {L : Lexer} (hk : KPos L) (hs : L.src.length < 4294967296) : SmallRest L.cur.rest := by
  obtain ⟨_, pre, hsrc, _⟩ := hk.cur
  unfold SmallRest
  have := congrArg List.length hsrc
  simp at this; omega

/-- **soundness of `cwp`** over runs -/
theorem cwp_sound (cfg : Cfg) (R : List Char → Prop) {α : Type} (p : Prog α) (Q : α → CS → Prop) :
    ∀ (L : Lexer) (σ : CS), CInv σ L → KPos L → L.src.length < 4294967296 → (σ.fresh = true → R L.cur.rest) →
      L.panicked = none → cwp R p Q σ → (Prog.run cfg p L).2.panicked = none →
      ∃ a σ', (Prog.run cfg p L).1 = some a ∧ CInv σ' (Prog.run cfg p L).2 ∧ KPos (Prog.run cfg p L).2 ∧ Q a σ' := by
  induction p with
  | ret a =>
    intro L σ h hk _ _ _ hw _
    exact ⟨a, σ, rfl, h, hk, cwp.ret_iff.1 hw⟩
  | op o k ih =>
    intro L σ h hk hs hR hp0 hw hpr
    rw [run_op'] at hpr ⊢
    have hsrc := step_src cfg o L
    have hkpos := step_KPos cfg o L hk
    cases hpan : (step cfg o L).2.panicked with
    | some m => simp [hpan] at hpr
    | none =>
      simp only [hpan] at hpr ⊢
      by_cases hpn : ∃ m, o = .panic m
      · obtain ⟨m, rfl⟩ := hpn
        exfalso
        simp only [step, Lexer.panic, Lexer.chk, hp0] at hpan
        simp at hpan
      · have hpn' : ∀ m, o ≠ .panic m := fun m hm => hpn ⟨m, hm⟩
        by_cases hr : o = .rest
        · subst hr
          rw [cwp.rest_iff] at hw
          exact ih _ L σ h hk hs hR hp0 (hw L.cur.rest (smallRest_of_kpos hk hs) hR) hpr
        · rw [cwp.op_iff hpn' hr] at hw
          obtain ⟨hok, hk'⟩ := hw
          have hinv := step_CInv cfg o L σ h hok
          refine ih _ _ (cNext o σ) hinv hkpos (by rw [hsrc]; exact hs) ?_ hpan (hk' _) hpr
          intro hf
          rw [step_rest_same cfg o L σ h hf]
          apply hR
          -- `fresh` is never set, only cleared
          cases o <;> simp only [cNext] at hf ⊢ <;> first | exact hf | (simp at hf) | (split at hf <;> first | exact hf | simp at hf)

end SasLexer
