import SasLexer.Proofs.Model.DiscMacroCall
import SasLexer.Lex.MacroEval
/-! # The scanning discipline holds of the macro expression / text expression modes (`Lex/MacroEval.lean`) -/
namespace SasLexer
open Prog (perform)
open P

set_option maxRecDepth 8000 in
theorem isMacroEvalMnemonic_ok {r : List Char} {ty : TokenType} {extra : Nat}
    (h : isMacroEvalMnemonic r = (some ty, extra)) (hs : ∀ c, r.head? = some c → isMnemonicStartChar c = true) :
    ty ≠ .EOF ∧ ∀ c ∈ r.take (1 + extra), c ≠ '\n' := by
  unfold isMacroEvalMnemonic at h
  split at h
  · simp at h
  · simp at h
  · rename_i s n tl
    have hs' := hs s rfl
    simp only at h
    have key : ∀ {c : Prop} [Decidable c] {a b x : Option TokenType × Nat},
        (if c then a else b) = x → (c ∧ a = x) ∨ (¬c ∧ b = x) := by
      intro c _ a b x hh; split at hh
      · exact Or.inl ⟨‹_›, hh⟩
      · exact Or.inr ⟨‹_›, hh⟩
    rcases key h with ⟨c, h'⟩ | ⟨_, h⟩
    · simp only [Prod.mk.injEq, Option.some.injEq] at h'
      obtain ⟨rfl, rfl⟩ := h'
      refine ⟨by simp, ?_⟩
      simp only [Bool.and_eq_true, Bool.or_eq_true, beq_iff_eq] at c
      intro x hx
      simp only [Nat.reduceAdd, List.take_succ_cons, List.take_zero, List.mem_cons, List.not_mem_nil, or_false] at hx
      rcases c with ⟨⟨hs1 | hs1, hn1 | hn1⟩, _⟩ <;> rcases hx with rfl | rfl <;> subst_vars <;> decide
    rcases key h with ⟨c, h'⟩ | ⟨_, h⟩
    · simp only [Prod.mk.injEq, Option.some.injEq] at h'
      obtain ⟨rfl, rfl⟩ := h'
      refine ⟨by simp, ?_⟩
      simp only [Bool.and_eq_true, Bool.or_eq_true, beq_iff_eq] at c
      intro x hx
      simp only [Nat.reduceAdd, List.take_succ_cons, List.take_zero, List.mem_cons, List.not_mem_nil, or_false] at hx
      rcases c with ⟨⟨hs1 | hs1, hn1 | hn1⟩, _⟩ <;> rcases hx with rfl | rfl <;> subst_vars <;> decide
    rcases key h with ⟨c, h'⟩ | ⟨_, h⟩
    · simp only [Prod.mk.injEq, Option.some.injEq] at h'
      obtain ⟨rfl, rfl⟩ := h'
      refine ⟨by simp, ?_⟩
      simp only [Bool.and_eq_true, Bool.or_eq_true, beq_iff_eq] at c
      intro x hx
      simp only [Nat.reduceAdd, List.take_succ_cons, List.take_zero, List.mem_cons, List.not_mem_nil, or_false] at hx
      rcases c with ⟨⟨hs1 | hs1, hn1 | hn1⟩, _⟩ <;> rcases hx with rfl | rfl <;> subst_vars <;> decide
    rcases key h with ⟨c, h'⟩ | ⟨_, h⟩
    · simp only [Prod.mk.injEq, Option.some.injEq] at h'
      obtain ⟨rfl, rfl⟩ := h'
      refine ⟨by simp, ?_⟩
      simp only [Bool.and_eq_true, Bool.or_eq_true, beq_iff_eq] at c
      intro x hx
      simp only [Nat.reduceAdd, List.take_succ_cons, List.take_zero, List.mem_cons, List.not_mem_nil, or_false] at hx
      rcases c with ⟨⟨hs1 | hs1, hn1 | hn1⟩, _⟩ <;> rcases hx with rfl | rfl <;> subst_vars <;> decide
    rcases key h with ⟨c, h'⟩ | ⟨_, h⟩
    · simp only [Prod.mk.injEq, Option.some.injEq] at h'
      obtain ⟨rfl, rfl⟩ := h'
      refine ⟨by simp, ?_⟩
      simp only [Bool.and_eq_true, Bool.or_eq_true, beq_iff_eq] at c
      intro x hx
      simp only [Nat.reduceAdd, List.take_succ_cons, List.take_zero, List.mem_cons, List.not_mem_nil, or_false] at hx
      rcases c with ⟨⟨hs1 | hs1, hn1 | hn1⟩, _⟩ <;> rcases hx with rfl | rfl <;> subst_vars <;> decide
    rcases key h with ⟨c, h'⟩ | ⟨_, h⟩
    · simp only [Prod.mk.injEq, Option.some.injEq] at h'
      obtain ⟨rfl, rfl⟩ := h'
      refine ⟨by simp, ?_⟩
      simp only [Bool.and_eq_true, Bool.or_eq_true, beq_iff_eq] at c
      intro x hx
      simp only [Nat.reduceAdd, List.take_succ_cons, List.take_zero, List.mem_cons, List.not_mem_nil, or_false] at hx
      rcases c with ⟨⟨hs1 | hs1, hn1 | hn1⟩, _⟩ <;> rcases hx with rfl | rfl <;> subst_vars <;> decide
    rcases key h with ⟨c, h'⟩ | ⟨_, h⟩
    · simp only [Prod.mk.injEq, Option.some.injEq] at h'
      obtain ⟨rfl, rfl⟩ := h'
      refine ⟨by simp, ?_⟩
      simp only [Bool.and_eq_true, Bool.or_eq_true, beq_iff_eq] at c
      intro x hx
      simp only [Nat.reduceAdd, List.take_succ_cons, List.take_zero, List.mem_cons, List.not_mem_nil, or_false] at hx
      rcases c with ⟨⟨hs1 | hs1, hn1 | hn1⟩, _⟩ <;> rcases hx with rfl | rfl <;> subst_vars <;> decide
    rcases key h with ⟨c, h'⟩ | ⟨_, h⟩
    · rcases key h' with ⟨_, h''⟩ | ⟨c3, h''⟩
      · simp at h''
      simp only [Prod.mk.injEq, Option.some.injEq] at h''
      obtain ⟨rfl, rfl⟩ := h''
      refine ⟨by simp, ?_⟩
      simp only [Bool.and_eq_true, Bool.or_eq_true, beq_iff_eq] at c
      intro x hx
      rcases tl with _ | ⟨d, tl⟩
      · simp at c
      simp only [List.head?_cons, Option.getD_some] at c
      simp only [Nat.reduceAdd, List.take_succ_cons, List.take_zero, List.mem_cons, List.not_mem_nil, or_false] at hx
      rcases c with ⟨⟨⟨hs1 | hs1, hn1 | hn1⟩, _⟩, hd1 | hd1⟩ <;> rcases hx with rfl | rfl | rfl <;> subst_vars <;> decide
    rcases key h with ⟨c, h'⟩ | ⟨_, h⟩
    · simp only [Prod.mk.injEq, Option.some.injEq] at h'
      obtain ⟨rfl, rfl⟩ := h'
      refine ⟨by simp, ?_⟩
      simp only [Bool.and_eq_true, Bool.or_eq_true, beq_iff_eq] at c
      intro x hx
      simp only [Nat.reduceAdd, List.take_succ_cons, List.take_zero, List.mem_cons, List.not_mem_nil, or_false] at hx
      rcases c with ⟨⟨hs1 | hs1, hn1 | hn1⟩, _⟩ <;> rcases hx with rfl | rfl <;> subst_vars <;> decide
    rcases key h with ⟨c, h'⟩ | ⟨_, h⟩
    · rcases key h' with ⟨_, h''⟩ | ⟨c3, h''⟩
      · simp at h''
      simp only [Prod.mk.injEq, Option.some.injEq] at h''
      obtain ⟨rfl, rfl⟩ := h''
      refine ⟨by simp, ?_⟩
      simp only [Bool.and_eq_true, Bool.or_eq_true, beq_iff_eq] at c
      intro x hx
      rcases tl with _ | ⟨d, tl⟩
      · simp at c
      simp only [List.head?_cons, Option.getD_some] at c
      simp only [Nat.reduceAdd, List.take_succ_cons, List.take_zero, List.mem_cons, List.not_mem_nil, or_false] at hx
      rcases c with ⟨⟨⟨hs1 | hs1, hn1 | hn1⟩, _⟩, hd1 | hd1⟩ <;> rcases hx with rfl | rfl | rfl <;> subst_vars <;> decide
    simp at h

theorem maybeEmitEmptyMacroStringInEval_inert (n : Option TokenType) : Inert (maybeEmitEmptyMacroStringInEval n) := by
  unfold maybeEmitEmptyMacroStringInEval; inert

theorem updateParensNesting_inert (cfg : Cfg) (b : Bool) : Inert (updateParensNesting cfg b) := by
  unfold updateParensNesting P.dbg; inert

theorem amp_take_ok {r : List Char} {b : Bool} {n : Nat} (h : isMacroAmp r 0 = (b, n)) :
    ∀ c ∈ r.take n, c ≠ '\n' := by
  intro c hc
  have := (isMacroAmp_take r 0 h).2 c (by simpa using hc)
  subst this; decide

set_option maxRecDepth 8000 in
theorem lexMacroStringInMacroEvalContextLoop_safe (flags : Nat) (tc : Bool) :
    ∀ (f : Nat) (a b : Bool), Safe (lexMacroStringInMacroEvalContextLoop flags tc f a b)
  | 0, a, b, r => by simp [lexMacroStringInMacroEvalContextLoop, awp_simp]
  | f + 1, a, b, r => by
    unfold lexMacroStringInMacroEvalContextLoop
    have ih := fun a b => lexMacroStringInMacroEvalContextLoop_safe flags tc f a b
    rcases r with _ | ⟨c, t⟩ <;> awp_auto [(ih _ _).awp]
    all_goals (first | (simp_all; done) | grind)

set_option maxRecDepth 8000 in
theorem lexMacroStringUnrestrictedLoop_safe : ∀ (f : Nat), Safe (lexMacroStringUnrestrictedLoop f)
  | 0, r => by simp [lexMacroStringUnrestrictedLoop, awp_simp]
  | f + 1, r => by
    unfold lexMacroStringUnrestrictedLoop
    have ih := lexMacroStringUnrestrictedLoop_safe f
    rcases r with _ | ⟨c, t⟩ <;> awp_auto [ih.awp]
    all_goals (first | exact amp_take_ok (Prod.ext rfl rfl) _ ‹_› ‹_› | (simp_all [isWhitespace_nl]; done) | grind)

set_option maxRecDepth 8000 in
theorem lexMacroStringStatOptsLoop_safe : ∀ (f : Nat), Safe (lexMacroStringStatOptsLoop f)
  | 0, r => by simp [lexMacroStringStatOptsLoop, awp_simp]
  | f + 1, r => by
    unfold lexMacroStringStatOptsLoop
    have ih := lexMacroStringStatOptsLoop_safe f
    rcases r with _ | ⟨c, t⟩ <;> awp_auto [ih.awp]
    all_goals (first | exact amp_take_ok (Prod.ext rfl rfl) _ ‹_› ‹_› | (simp_all [isWhitespace_nl]; done) | grind)

theorem lexMacroStringUnrestricted_safe (cfg : Cfg) : Safe (lexMacroStringUnrestricted cfg) := by
  intro r; unfold lexMacroStringUnrestricted
  awp_auto [(lexMacroStringUnrestrictedLoop_safe _).awp]

theorem lexMacroStringStatOpts_safe (cfg : Cfg) : Safe (lexMacroStringStatOpts cfg) := by
  intro r; unfold lexMacroStringStatOpts
  awp_auto [(lexMacroStringStatOptsLoop_safe _).awp]

set_option maxRecDepth 8000 in
theorem lexMacroStringInMacroEvalContext_safe (cfg : Cfg) (flags : Nat) (tc : Bool) :
    Safe (lexMacroStringInMacroEvalContext cfg flags tc) := by
  intro r; unfold lexMacroStringInMacroEvalContext
  awp_auto [(lexMacroStringInMacroEvalContextLoop_safe _ _ _ _ _).awp]
  all_goals (first | exact absurd ‹_› (tryParseHexInteger_ty ‹_›) | exact absurd ‹_› (tryParseDecimal_ty ‹_›) | (simp_all; done) | grind)

set_option maxRecDepth 8000 in
theorem dispatchMacroNameExpr_awp (cfg : Cfg) (c : Char) (fn : Bool) (e : Option ErrorKind) (t : List Char)
    {Q : Unit → List Char → Bool → Prop} (hQ : ∀ r', Q () r' false) :
    awp (dispatchMacroNameExpr cfg c fn e) Q (c :: t) false := by
  unfold dispatchMacroNameExpr
  awp_auto [lexCStyleComment_awp', lexMacroCall_awp', (lexMacroVarExpr_safe _).awp]
  all_goals (first | exact hQ _ | exact isXidContinue_nl | (simp_all; done) | grind)

set_option maxRecDepth 8000 in
theorem dispatchMacroSemiTermTextExpr_awp (cfg : Cfg) (c : Char) (t : List Char)
    {Q : Unit → List Char → Bool → Prop} (hQ : ∀ r', Q () r' false) :
    awp (dispatchMacroSemiTermTextExpr cfg c) Q (c :: t) false := by
  unfold dispatchMacroSemiTermTextExpr
  awp_auto [lexCStyleComment_awp', lexMacroCall_awp', (lexMacroVarExpr_safe _).awp, lexSingleQuotedStr_awp',
    lexStringExpressionStart_awp', (lexMacroStringUnrestricted_safe _).awp]
  all_goals (first | exact hQ _ | (simp_all; done) | grind)

set_option maxRecDepth 8000 in
theorem dispatchMacroStatOptsTextExpr_awp (cfg : Cfg) (c : Char) (t : List Char)
    {Q : Unit → List Char → Bool → Prop} (hQ : ∀ r', Q () r' false) :
    awp (dispatchMacroStatOptsTextExpr cfg c) Q (c :: t) false := by
  unfold dispatchMacroStatOptsTextExpr
  awp_auto [lexCStyleComment_awp', lexMacroCall_awp', (lexMacroVarExpr_safe _).awp, lexSingleQuotedStr_awp',
    lexStringExpressionStart_awp', (lexMacroStringStatOpts_safe _).awp, (lexWs_safe _).awp]
  all_goals (first | exact hQ _ | (simp_all [isWhitespace_nl]; done) | grind)

end SasLexer
