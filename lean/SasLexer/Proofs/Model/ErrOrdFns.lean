import SasLexer.Proofs.Model.ErrOrd
import SasLexer.Lex.Main
set_option linter.unusedSimpArgs false
set_option linter.unusedVariables false
set_option maxRecDepth 8000
set_option autoImplicit true
set_option relaxedAutoImplicit true
/-! # Every function of the modelled control logic satisfies the error-order discipline -/
namespace SasLexer
open P

namespace EOK
theorem rest : EOK P.rest := EOK.op _ (by intro h; cases h)
theorem peek : EOK P.peek := by unfold P.peek; exact EOK.bind rest (fun _ => EOK.pure _)
theorem peekNext : EOK P.peekNext := by unfold P.peekNext; exact EOK.bind rest (fun _ => EOK.pure _)
theorem advance : EOK P.advance := EOK.op _ (by intro h; cases h)
theorem advance_ : EOK P.advance_ := by unfold P.advance_; exact EOK.bind (EOK.op _ (by intro h; cases h)) (fun _ => EOK.pure _)
theorem advanceBy (n : Nat) : EOK (P.advanceBy n) := EOK.op _ (by intro h; cases h)
theorem eatWhile (p : Char → Bool) : EOK (P.eatWhile p) := EOK.op _ (by intro h; cases h)
theorem addLine : EOK P.addLine := EOK.op _ (by intro h; cases h)
theorem startToken : EOK P.startToken := EOK.op _ (by intro h; cases h)
theorem emit (ch ty p) : EOK (P.emit ch ty p) := EOK.op _ (by intro h; cases h)
theorem emitD (ty p) : EOK (P.emitD ty p) := EOK.op _ (by intro h; cases h)
theorem emitError (k) : EOK (P.emitError k) := EOK.op _ (by intro h; cases h)
theorem pushMode (m) : EOK (P.pushMode m) := EOK.op _ (by intro h; cases h)
theorem popMode : EOK P.popMode := EOK.op _ (by intro h; cases h)
theorem mode : EOK P.mode := EOK.op _ (by intro h; cases h)
theorem setPending (b) : EOK (P.setPending b) := EOK.op _ (by intro h; cases h)
theorem lastTokTy : EOK P.lastTokTy := by unfold P.lastTokTy; exact EOK.bind (EOK.op _ (by intro h; cases h)) (fun _ => EOK.pure _)
theorem abort (m) : EOK (P.abort m) := EOK.op _ (by intro h; cases h)
theorem unmodelled (m) : EOK (P.unmodelled m) := EOK.op _ (by intro h; cases h)
theorem peekIs (c) : EOK (P.peekIs c) := by unfold P.peekIs; exact EOK.bind peek (fun _ => EOK.pure _)
theorem dbg (cfg : Cfg) {cond : Prog Bool} (hc : EOK cond) (msg : String) : EOK (P.dbg cfg cond msg) := by
  unfold P.dbg; split
  · exact EOK.bind hc (fun _ => EOK.op _ (by intro h; cases h))
  · exact EOK.pure _
end EOK

/-- walk the program by rule application -/
syntax "eok" "[" term,* "]" : tactic
macro_rules
  | `(tactic| eok [$ls,*]) => `(tactic| repeat' (first
      | intro _
      | apply EOK.pure
      | (first $[| apply $ls]*)
      | apply EOK.rest | apply EOK.peek | apply EOK.peekNext | apply EOK.advance_ | apply EOK.advance | apply EOK.advanceBy
      | apply EOK.eatWhile | apply EOK.addLine | apply EOK.startToken | apply EOK.emitD | apply EOK.emit | apply EOK.emitError
      | apply EOK.pushMode | apply EOK.popMode | apply EOK.mode | apply EOK.setPending | apply EOK.lastTokTy | apply EOK.abort
      | apply EOK.unmodelled | apply EOK.peekIs | apply EOK.dbg
      | (apply EOK.op; (intro h; cases h))
      | apply EOK.bind
      | apply EOK.ite
      | split
      | dsimp only))

theorem fuelOfRest_eok : EOK (fuelOfRest) := by
  unfold fuelOfRest; eok []

theorem lexWsLoop_eok : ∀ (f : Nat), EOK (lexWsLoop f) := by
  intro f
  induction f with
  | zero => intros; unfold lexWsLoop; eok []
  | succ f ih => intros; unfold lexWsLoop; eok [ih]

theorem lexWs_eok : EOK (lexWs cfg) := by
  unfold lexWs; eok [fuelOfRest_eok, lexWsLoop_eok]

theorem lexCStyleLoop_eok : ∀ (f : Nat), EOK (lexCStyleLoop f) := by
  intro f
  induction f with
  | zero => intros; unfold lexCStyleLoop; eok []
  | succ f ih => intros; unfold lexCStyleLoop; eok [ih]

theorem lexCStyleComment_eok : EOK (lexCStyleComment cfg) := by
  unfold lexCStyleComment; eok [fuelOfRest_eok, lexCStyleLoop_eok]

theorem lexStringExpressionStart_eok : EOK (lexStringExpressionStart cfg b) := by
  unfold lexStringExpressionStart; eok []

theorem resolveStringLiteralEnding_eok : EOK (resolveStringLiteralEnding) := by
  unfold resolveStringLiteralEnding; eok []

theorem lexSingleQuotedLoop_eok : ∀ (f : Nat), EOK (lexSingleQuotedLoop f) := by
  intro f
  induction f with
  | zero => intros; unfold lexSingleQuotedLoop; eok []
  | succ f ih => intros; unfold lexSingleQuotedLoop; eok [ih]

theorem lexSingleQuotedStr_eok : EOK (lexSingleQuotedStr cfg) := by
  unfold lexSingleQuotedStr; eok [fuelOfRest_eok, lexSingleQuotedLoop_eok, resolveStringLiteralEnding_eok]

theorem emitResolveOps_eok : ∀ (ks : List Nat), EOK (emitResolveOps ks) := by
  intro ks
  induction ks with
  | nil => unfold emitResolveOps; eok []
  | cons k ks ih => unfold emitResolveOps; eok [ih]

theorem lexMacroVarExprLoop_eok : ∀ (f : Nat) (st : List Nat), EOK (lexMacroVarExprLoop f st)
  | _, [] => by unfold lexMacroVarExprLoop; eok []
  | 0, _ :: _ => by unfold lexMacroVarExprLoop; eok []
  | f + 1, x :: st => by unfold lexMacroVarExprLoop; eok [lexMacroVarExprLoop_eok f, emitResolveOps_eok]

theorem lexMacroVarExpr_eok : EOK (lexMacroVarExpr cfg) := by
  unfold lexMacroVarExpr; eok [emitResolveOps_eok, fuelOfRest_eok, lexMacroVarExprLoop_eok]

theorem lexMacroCommentLoop_eok : ∀ (f : Nat) (q : Quote), EOK (lexMacroCommentLoop f q) := by
  intro f
  induction f with
  | zero => intros; unfold lexMacroCommentLoop; eok []
  | succ f ih => intros; unfold lexMacroCommentLoop; eok [ih]

theorem lexMacroComment_eok : EOK (lexMacroComment cfg) := by
  unfold lexMacroComment; eok [fuelOfRest_eok, lexMacroCommentLoop_eok]

theorem lexNumericLiteral_eok : EOK (lexNumericLiteral cfg sd) := by
  unfold lexNumericLiteral; eok []

theorem lexCharFormat_eok : EOK (lexCharFormat) := by
  unfold lexCharFormat; eok []

theorem predictedOpenLoop_eok : ∀ (f : Nat), EOK (predictedOpenLoop f) := by
  intro f
  induction f with
  | zero => intros; unfold predictedOpenLoop; eok []
  | succ f ih => intros; unfold predictedOpenLoop; eok [ih]

theorem predictedMacroLoop_eok : ∀ (f : Nat), EOK (predictedMacroLoop f) := by
  intro f
  induction f with
  | zero => intros; unfold predictedMacroLoop; eok []
  | succ f ih => intros; unfold predictedMacroLoop; eok [ih]

theorem lexPredictedComment_eok : EOK (lexPredictedComment) := by
  unfold lexPredictedComment; eok [fuelOfRest_eok, predictedOpenLoop_eok, predictedMacroLoop_eok]

theorem lexExpectedToken_eok : EOK (lexExpectedToken cfg nc ty ch) := by
  unfold lexExpectedToken; eok []

theorem macroCallOrStatPreload_eok : EOK (macroCallOrStatPreload ty b) := by
  unfold macroCallOrStatPreload maybeExpectMacroCallArgsOrLabel expectMacroStrCallArgs; eok []

theorem maybeEmitMacroSepBeforeKw_eok : EOK (maybeEmitMacroSepBeforeKw ty) := by
  unfold maybeEmitMacroSepBeforeKw; eok []

theorem dispatchMacroCallOrStat_eok : EOK (dispatchMacroCallOrStat cfg ty b) := by
  unfold dispatchMacroCallOrStat; eok [maybeEmitMacroSepBeforeKw_eok, macroCallOrStatPreload_eok]

theorem lexMacroCall_eok : EOK (lexMacroCall cfg a b) := by
  unfold lexMacroCall; eok [dispatchMacroCallOrStat_eok]

theorem lexMacroIdentifier_eok : EOK (lexMacroIdentifier cfg b) := by
  unfold lexMacroIdentifier; eok [dispatchMacroCallOrStat_eok]

theorem dispatchMacroDo_eok : EOK (dispatchMacroDo cfg c) := by
  unfold dispatchMacroDo; eok [lexMacroIdentifier_eok]

theorem dispatchMacroLocalGlobal_eok : EOK (dispatchMacroLocalGlobal cfg c l) := by
  unfold dispatchMacroLocalGlobal expectMacroLetStat; eok []

theorem datalinesToSemiLoop_eok : ∀ (f : Nat), EOK (datalinesToSemiLoop f) := by
  intro f
  induction f with
  | zero => intros; unfold datalinesToSemiLoop; eok []
  | succ f ih => intros; unfold datalinesToSemiLoop; eok [ih]

theorem datalinesBodyLoop_eok : ∀ (f : Nat), EOK (datalinesBodyLoop e f) := by
  intro f
  induction f with
  | zero => intros; unfold datalinesBodyLoop; eok []
  | succ f ih => intros; unfold datalinesBodyLoop; eok [ih]

theorem lexDatalines_eok : EOK (lexDatalines cfg b) := by
  unfold lexDatalines; eok [fuelOfRest_eok, datalinesToSemiLoop_eok, datalinesBodyLoop_eok]

theorem lexIdentifier_eok : EOK (lexIdentifier cfg) := by
  unfold lexIdentifier; eok [lexDatalines_eok]

theorem lexSymbols_eok : EOK (lexSymbols cfg c) := by
  unfold lexSymbols; eok [lexPredictedComment_eok, lexNumericLiteral_eok, lexCharFormat_eok]

theorem dispatchModeDefault_eok : EOK (dispatchModeDefault cfg c) := by
  unfold dispatchModeDefault; eok [lexWs_eok, lexSingleQuotedStr_eok, lexStringExpressionStart_eok, lexCStyleComment_eok, lexMacroVarExpr_eok, lexMacroComment_eok, lexMacroIdentifier_eok, lexNumericLiteral_eok, lexIdentifier_eok, lexSymbols_eok]

theorem handleUnterminatedStrExpr_eok : EOK (handleUnterminatedStrExpr cfg) := by
  unfold handleUnterminatedStrExpr lastTokIsStart; eok []

theorem lexDoubleQuotedLiteral_eok : EOK (lexDoubleQuotedLiteral cfg) := by
  unfold lexDoubleQuotedLiteral; eok [resolveStringLiteralEnding_eok]

theorem lexStrExprTextLoop_eok : ∀ (f : Nat), EOK (lexStrExprTextLoop cfg f) := by
  intro f
  induction f with
  | zero => intros; unfold lexStrExprTextLoop; eok []
  | succ f ih => intros; unfold lexStrExprTextLoop; eok [ih, lexDoubleQuotedLiteral_eok]

theorem lexStrExprText_eok : EOK (lexStrExprText cfg) := by
  unfold lexStrExprText; eok [fuelOfRest_eok, lexStrExprTextLoop_eok, handleUnterminatedStrExpr_eok]

theorem maybeEmitEmptyMacroStringInEval_eok : EOK (maybeEmitEmptyMacroStringInEval n) := by
  unfold maybeEmitEmptyMacroStringInEval; eok []

theorem updateParensNesting_eok : EOK (updateParensNesting cfg b) := by
  unfold updateParensNesting; eok []

theorem evalOperatorSel_eok : EOK (evalOperatorSel cfg c r) := by
  unfold evalOperatorSel; eok [updateParensNesting_eok]

theorem lexMacroEvalOperator_eok : EOK (lexMacroEvalOperator cfg c) := by
  unfold lexMacroEvalOperator; eok [evalOperatorSel_eok, maybeEmitEmptyMacroStringInEval_eok]

theorem lexMacroStringInMacroEvalContextLoop_eok : ∀ (f : Nat) (a b : Bool), EOK (lexMacroStringInMacroEvalContextLoop flags t f a b) := by
  intro f
  induction f with
  | zero => intros; unfold lexMacroStringInMacroEvalContextLoop; eok []
  | succ f ih => intros; unfold lexMacroStringInMacroEvalContextLoop; eok [ih]

theorem lexMacroStringInMacroEvalContext_eok : EOK (lexMacroStringInMacroEvalContext cfg flags t) := by
  unfold lexMacroStringInMacroEvalContext; eok [fuelOfRest_eok, lexMacroStringInMacroEvalContextLoop_eok]

theorem dispatchModeMacroEval_eok : EOK (dispatchModeMacroEval cfg c flags pnl) := by
  unfold dispatchModeMacroEval; eok [lexSingleQuotedStr_eok, lexStringExpressionStart_eok, lexCStyleComment_eok, lexMacroVarExpr_eok, lexMacroCall_eok, maybeEmitEmptyMacroStringInEval_eok, lexMacroEvalOperator_eok, lexMacroStringInMacroEvalContext_eok]

theorem dispatchMacroNameExpr_eok : EOK (dispatchMacroNameExpr cfg c fn err) := by
  unfold dispatchMacroNameExpr; eok [lexCStyleComment_eok, lexMacroVarExpr_eok, lexMacroCall_eok]

theorem lexMacroStringUnrestrictedLoop_eok : ∀ (f : Nat), EOK (lexMacroStringUnrestrictedLoop f) := by
  intro f
  induction f with
  | zero => intros; unfold lexMacroStringUnrestrictedLoop; eok []
  | succ f ih => intros; unfold lexMacroStringUnrestrictedLoop; eok [ih]

theorem lexMacroStringUnrestricted_eok : EOK (lexMacroStringUnrestricted cfg) := by
  unfold lexMacroStringUnrestricted; eok [fuelOfRest_eok, lexMacroStringUnrestrictedLoop_eok]

theorem dispatchMacroSemiTermTextExpr_eok : EOK (dispatchMacroSemiTermTextExpr cfg c) := by
  unfold dispatchMacroSemiTermTextExpr; eok [lexSingleQuotedStr_eok, lexStringExpressionStart_eok, lexCStyleComment_eok, lexMacroVarExpr_eok, lexMacroCall_eok, lexMacroStringUnrestricted_eok]

theorem lexMacroStringStatOptsLoop_eok : ∀ (f : Nat), EOK (lexMacroStringStatOptsLoop f) := by
  intro f
  induction f with
  | zero => intros; unfold lexMacroStringStatOptsLoop; eok []
  | succ f ih => intros; unfold lexMacroStringStatOptsLoop; eok [ih]

theorem lexMacroStringStatOpts_eok : EOK (lexMacroStringStatOpts cfg) := by
  unfold lexMacroStringStatOpts; eok [fuelOfRest_eok, lexMacroStringStatOptsLoop_eok]

theorem dispatchMacroStatOptsTextExpr_eok : EOK (dispatchMacroStatOptsTextExpr cfg c) := by
  unfold dispatchMacroStatOptsTextExpr; eok [lexSingleQuotedStr_eok, lexStringExpressionStart_eok, lexCStyleComment_eok, lexMacroVarExpr_eok, lexMacroCall_eok, lexMacroStringStatOpts_eok, lexWs_eok]

theorem populateNextArgStack_eok : EOK (populateNextArgStack flags) := by
  unfold populateNextArgStack; eok []

theorem lexMaybeMacroCallArgsOrLabel_eok : EOK (lexMaybeMacroCallArgsOrLabel cfg c b) := by
  unfold lexMaybeMacroCallArgsOrLabel; eok []

theorem lexMaybeMacroCallArgAssign_eok : EOK (lexMaybeMacroCallArgAssign cfg c flags) := by
  unfold lexMaybeMacroCallArgAssign; eok []

theorem lexMaybeTailMacroCallArgValue_eok : EOK (lexMaybeTailMacroCallArgValue cfg c) := by
  unfold lexMaybeTailMacroCallArgValue; eok []

theorem dispatchMacroCallArgOrValue_eok : EOK (dispatchMacroCallArgOrValue cfg c flags) := by
  unfold dispatchMacroCallArgOrValue pushCheckAssign switchToValueMode safePopMode; eok [lexMacroVarExpr_eok, lexMacroComment_eok, lexMacroIdentifier_eok, populateNextArgStack_eok]

theorem emitTokenUpdateNestingArg_eok : EOK (emitTokenUpdateNestingArg pnl loc) := by
  unfold emitTokenUpdateNestingArg; eok []

theorem lexMacroStringInMacroCallArgValueLoop_eok : ∀ (f : Nat) (loc : Int), EOK (lexMacroStringInMacroCallArgValueLoop flags pnl f loc) := by
  intro f
  induction f with
  | zero => intros; unfold lexMacroStringInMacroCallArgValueLoop; eok []
  | succ f ih => intros; unfold lexMacroStringInMacroCallArgValueLoop; eok [ih, emitTokenUpdateNestingArg_eok, populateNextArgStack_eok]

theorem lexMacroStringInMacroCallArgValue_eok : EOK (lexMacroStringInMacroCallArgValue cfg flags pnl) := by
  unfold lexMacroStringInMacroCallArgValue; eok [fuelOfRest_eok, lexMacroStringInMacroCallArgValueLoop_eok]

theorem dispatchMacroCallArgValue_eok : EOK (dispatchMacroCallArgValue cfg c flags pnl) := by
  unfold dispatchMacroCallArgValue; eok [lexSingleQuotedStr_eok, lexStringExpressionStart_eok, lexCStyleComment_eok, lexMacroVarExpr_eok, lexMacroComment_eok, lexMacroIdentifier_eok, lexMacroStringInMacroCallArgValue_eok, populateNextArgStack_eok]

theorem lexMaybeMacroDefArgs_eok : EOK (lexMaybeMacroDefArgs cfg c) := by
  unfold lexMaybeMacroDefArgs; eok []

theorem lexMacroDefIdentifier_eok : EOK (lexMacroDefIdentifier cfg c b) := by
  unfold lexMacroDefIdentifier; eok []

theorem dispatchMacroDefArg_eok : EOK (dispatchMacroDefArg cfg c) := by
  unfold dispatchMacroDefArg; eok [lexMacroDefIdentifier_eok]

theorem lexMacroDefNextArgOrDefaultValue_eok : EOK (lexMacroDefNextArgOrDefaultValue cfg c) := by
  unfold lexMacroDefNextArgOrDefaultValue; eok []

theorem emitTokenUpdateNestingStr_eok : EOK (emitTokenUpdateNestingStr pnl loc) := by
  unfold emitTokenUpdateNestingStr; eok []

theorem lexMacroStringInStrCallLoop_eok : ∀ (f : Nat) (loc : Int), EOK (lexMacroStringInStrCallLoop mm pnl f loc) := by
  intro f
  induction f with
  | zero => intros; unfold lexMacroStringInStrCallLoop; eok []
  | succ f ih => intros; unfold lexMacroStringInStrCallLoop; eok [ih, emitTokenUpdateNestingStr_eok]

theorem lexMacroStringInStrCall_eok : EOK (lexMacroStringInStrCall cfg mm pnl) := by
  unfold lexMacroStringInStrCall; eok [fuelOfRest_eok, lexMacroStringInStrCallLoop_eok]

theorem dispatchMacroStrQuotedExpr_eok : EOK (dispatchMacroStrQuotedExpr cfg c mm pnl) := by
  unfold dispatchMacroStrQuotedExpr; eok [lexSingleQuotedStr_eok, lexStringExpressionStart_eok, lexCStyleComment_eok, lexMacroVarExpr_eok, lexMacroIdentifier_eok, lexMacroStringInStrCall_eok]

/-! ### a prepared error stays fresh across `lex_macro_identifier` -/

theorem lexMacroCallStatOrLabel_no_error (r : List Char) : ∀ e, lexMacroCallStatOrLabel r ≠ .error e := by
  have mk_all : ∀ p ∈ TokenType.MKEYWORDS, isMacroCallOrStatTokType p.2 = true := by decide +kernel
  intro e h
  unfold lexMacroCallStatOrLabel at h
  simp only at h
  split at h
  · cases h
  · split at h
    · cases h
    · rename_i t hl
      have := mk_all _ (lookup_mem hl)
      simp only [this, if_true] at h
      cases h

namespace EKeep
theorem rest : EKeep P.rest := EKeep.op _ rfl (by intro h; cases h) (by intro h; cases h) (by intro h; cases h) (by intro h; cases h)
theorem peek : EKeep P.peek := by unfold P.peek; exact EKeep.bind rest (fun _ => EKeep.pure _)
theorem peekNext : EKeep P.peekNext := by unfold P.peekNext; exact EKeep.bind rest (fun _ => EKeep.pure _)
theorem peekIs (c) : EKeep (P.peekIs c) := by unfold P.peekIs; exact EKeep.bind peek (fun _ => EKeep.pure _)
theorem dbg (cfg : Cfg) {cond : Prog Bool} (hc : EKeep cond) (msg : String) : EKeep (P.dbg cfg cond msg) := by
  unfold P.dbg; split
  · exact EKeep.bind hc (fun _ => EKeep.op _ rfl (by intro h; cases h) (by intro h; cases h) (by intro h; cases h) (by intro h; cases h))
  · exact EKeep.pure _
end EKeep

syntax "ekeep" "[" term,* "]" : tactic
macro_rules
  | `(tactic| ekeep [$ls,*]) => `(tactic| repeat' (first
      | intro _
      | apply EKeep.pure
      | (first $[| apply $ls]*)
      | apply EKeep.rest | apply EKeep.peek | apply EKeep.peekNext | apply EKeep.peekIs | apply EKeep.dbg
      | (apply EKeep.op <;> first | rfl | (intro h; cases h))
      | apply EKeep.bind
      | apply EKeep.ite
      | split
      | dsimp only))

theorem macroCallOrStatPreload_keep : EKeep (macroCallOrStatPreload ty b) := by
  unfold macroCallOrStatPreload maybeExpectMacroCallArgsOrLabel expectMacroStrCallArgs
    expectEvalCallArgs expectScanOrSubstrCallArgs expectBuiltinMacroCallArgs expectBuiltinMacroCallOneArgMasking
    expectBuiltinMacroCallNamedArgs expectSysfuncMacroCallArgs expectMacroUntilWhileStatArgs expectMacroLetStat
    expectMacroNameThenOpts expectSyscallCallAndArgs P.pushMode P.abort
  ekeep []

theorem maybeEmitMacroSepBeforeKw_keep : EKeep (maybeEmitMacroSepBeforeKw ty) := by
  unfold maybeEmitMacroSepBeforeKw
  apply EKeep.bind (EKeep.op _ rfl (by intro h; cases h) (by intro h; cases h) (by intro h; cases h) (by intro h; cases h))
  intro prev
  apply EKeep.ite
  · apply EKeep.bind
    · -- `if modeDepth == 0 then pure true else match mode with …`: `mode` only after the depth was seen non-zero
      unfold EKeep
      intro Q σ hQ
      simp only [Prog.perform]
      show ewp (Prog.op .modeDepth _ >>= _) Q σ
      rw [ewp.bind_iff, ewp.depth_iff]
      intro d
      simp only [ewp]
      by_cases hd : d = 0
      · subst hd
        simp only [beq_self_eq_true, if_true]
        exact hQ _ _ id
      · have : (d == 0) = false := by simpa using hd
        simp only [this, Bool.false_eq_true, if_false]
        rw [ewp.bind_iff, P.mode, Prog.perform, ewp.op_iff (by intro m h; cases h) (by intro h; cases h)]
        refine ⟨trivial, fun m => ?_⟩
        have hne : (σ.ne || d != 0) = true := by simp [hd]
        simp only [eNext, hne, Bool.and_true, ewp]
        split <;> exact hQ _ _ id
    · intro nm
      apply EKeep.ite
      · exact EKeep.op _ rfl (by intro h; cases h) (by intro h; cases h) (by intro h; cases h) (by intro h; cases h)
      · exact EKeep.pure _
  · exact EKeep.pure _

theorem dispatchMacroCallOrStat_keep : EKeep (dispatchMacroCallOrStat cfg ty b) := by
  unfold dispatchMacroCallOrStat P.emit
  ekeep [maybeEmitMacroSepBeforeKw_keep, macroCallOrStatPreload_keep]

theorem lexMacroIdentifier_keep : EKeep (lexMacroIdentifier cfg b) := by
  unfold lexMacroIdentifier P.advance_ P.eatWhile
  ekeep [dispatchMacroCallOrStat_keep]
  all_goals (first | (exact absurd ‹_› (lexMacroCallStatOrLabel_no_error _ _)) | skip)


theorem EKeep.lastTokTy : EKeep P.lastTokTy := by
  unfold P.lastTokTy
  exact EKeep.bind (EKeep.op _ rfl (by intro h; cases h) (by intro h; cases h) (by intro h; cases h) (by intro h; cases h)) (fun _ => EKeep.pure _)

/-- the one place where an error is prepared: nothing between `prepError` and `emitPrepared` emits an error -/
theorem prep_block (k : ErrorKind) (p : Prog Unit) (hp : EKeep p) (c : Option TokenType → Bool) :
    EOK (Prog.perform (.prepError k) >>= fun _ => p >>= fun _ => P.lastTokTy >>= fun x =>
      if c x = true then (Prog.perform .emitPrepared >>= fun _ => (pure () : Prog Unit)) else pure ()) := by
  unfold EOK
  intro Q σ hQ
  rw [ewp.bind_iff, Prog.perform, ewp.op_iff (by intro m h; cases h) (by intro h; cases h)]
  refine ⟨trivial, fun _ => ?_⟩
  simp only [eNext, ewp]
  rw [ewp.bind_iff]
  have hp' := hp
  unfold EKeep at hp'
  apply hp'
  intro _ σ1 h1
  have hc1 : σ1.clean = true := h1 rfl
  rw [ewp.bind_iff]
  have hl := EKeep.lastTokTy
  unfold EKeep at hl
  apply hl
  intro x σ2 h2
  have hc2 : σ2.clean = true := h2 hc1
  split
  · rw [ewp.bind_iff, Prog.perform, ewp.op_iff (by intro m h; cases h) (by intro h; cases h)]
    exact ⟨hc2, fun _ => hQ _ _⟩
  · exact hQ _ _

theorem dispatchModeStrExpr_eok : EOK (dispatchModeStrExpr cfg c b) := by
  unfold dispatchModeStrExpr lastTokIsStart
  eok [lexStrExprText_eok, lexDoubleQuotedLiteral_eok, lexMacroVarExpr_eok, lexMacroIdentifier_eok,
    prep_block _ _ lexMacroIdentifier_keep _]

theorem dispatchMacroMode_eok : EOK (dispatchMacroMode cfg c m) := by
  cases m <;> simp only [dispatchMacroMode]
  case macroEval f p => exact dispatchModeMacroEval_eok
  case macroStrQuotedExpr mm p => exact dispatchMacroStrQuotedExpr_eok
  case maybeMacroCallArgsOrLabel b => exact lexMaybeMacroCallArgsOrLabel_eok
  case maybeMacroCallArgAssign f => exact lexMaybeMacroCallArgAssign_eok
  case maybeTailMacroArgValue => exact lexMaybeTailMacroCallArgValue_eok
  case macroCallArgOrValue f => exact dispatchMacroCallArgOrValue_eok
  case macroCallValue f p => exact dispatchMacroCallArgValue_eok
  case maybeMacroDefArgs => exact lexMaybeMacroDefArgs_eok
  case macroDefArg => exact dispatchMacroDefArg_eok
  case macroDefNextArgOrDefaultValue => exact lexMacroDefNextArgOrDefaultValue_eok
  case macroDo => exact dispatchMacroDo_eok
  case macroLocalGlobal l => exact dispatchMacroLocalGlobal_eok
  case macroNameExpr f e => exact dispatchMacroNameExpr_eok
  case macroSemiTerminatedTextExpr => exact dispatchMacroSemiTermTextExpr_eok
  case macroStatOptionsTextExpr => exact dispatchMacroStatOptsTextExpr_eok
  all_goals eok [lexMacroDefIdentifier_eok]

theorem forRParen_eok (l : List Nat) :
    EOK (forIn l PUnit.unit fun (_ : Nat) (_ : PUnit) => do
      P.emitD .RPAREN
      pure (ForInStep.yield PUnit.unit)) := by
  induction l with
  | nil => simp only [List.forIn_nil]; exact EOK.pure _
  | cons x l ih =>
    simp only [List.forIn_cons]
    exact EOK.bind (EOK.bind (EOK.emitD _ _) (fun _ => EOK.pure _)) (fun s => by cases s <;> first | exact EOK.pure _ | exact ih)

theorem finalizeMode_eok : EOK (finalizeMode cfg m) := by
  unfold finalizeMode
  have rp : ∀ pnl : Nat, EOK (forIn [:pnl] PUnit.unit fun (_ : Nat) (_ : PUnit) => do
      P.emitD .RPAREN
      pure (ForInStep.yield PUnit.unit)) := by
    intro pnl; rw [Std.Legacy.Range.forIn_eq_forIn_range']; exact forRParen_eok _
  cases m <;> dsimp only
  all_goals eok [lexExpectedToken_eok, handleUnterminatedStrExpr_eok, rp]

theorem lexToken_eok : EOK (lexToken cfg c) := by
  unfold lexToken; eok [lexCStyleComment_eok, lexWs_eok, dispatchModeDefault_eok, lexExpectedToken_eok, dispatchModeStrExpr_eok, dispatchMacroMode_eok]

theorem finalizeLoop_eok : ∀ (f : Nat), EOK (finalizeLoop cfg f) := by
  intro f
  induction f with
  | zero => intros; unfold finalizeLoop; eok []
  | succ f ih => intros; unfold finalizeLoop; eok [ih, finalizeMode_eok]

theorem finalizeLexing_eok : EOK (finalizeLexing cfg) := by
  unfold finalizeLexing; eok [finalizeLoop_eok]

theorem mainLoop_eok : ∀ (f n : Nat) (last : Nat × List Mode), EOK (mainLoop cfg f n last) := by
  intro f
  induction f with
  | zero => intros; unfold mainLoop; eok []
  | succ f ih => intros; unfold mainLoop; eok [ih, lexToken_eok]


end SasLexer
