import SasLexer.Proofs.Model.Sorted
set_option linter.unusedSimpArgs false
/-!
# The token an error names starts at or before the error (`KAnch`)

An error records the index of the newest token at the time it is reported.  `KAnch L`: the oldest `i + 1` tokens — in
particular the token with index `i` — start at or before the error's offset.  Appending tokens does not touch them;
retyping and the separator insertion keep their byte offsets (`retype_truncR`, `insertSep_truncR`); `rollback`
truncates errors and tokens consistently (`KErr`); and at the moment an error is reported every token starts at or
before the cursor — that is `SInv.le`, i.e. the discipline `swp`.
-/
namespace SasLexer
open Lexer

def AnchOk (toksR : List TokInfo) (e : ErrInfo) : Prop :=
  ∀ i, e.lastTok = some i → ∀ t ∈ truncR toksR (i + 1), t.byte ≤ e.byte

structure KAnch (L : Lexer) : Prop where
  errs : ∀ e ∈ L.errsR, AnchOk L.toksR e
  reg : ∀ e, L.errReg = some e → AnchOk L.toksR e

theorem truncR_truncR {α} (l : List α) {n k : Nat} (hk : k ≤ n) (hn : n ≤ l.length) : truncR (truncR l n) k = truncR l k := by
  unfold truncR
  rw [List.drop_drop]
  simp only [List.length_drop]
  congr 1
  omega

namespace KAnch
variable {L : Lexer} {cfg : Cfg}

/-- the token list changes but the oldest `n` keep their byte offsets for every `n` up to the old length -/
theorem withToks {ts : List TokInfo} {p : Option String} (h : KAnch L) (hk : KErr L)
    (htr : ∀ n, n ≤ L.toksR.length → ∀ x ∈ truncR ts n, ∃ y ∈ truncR L.toksR n, x.byte = y.byte) :
    KAnch { L with toksR := ts, panicked := p } := by
  constructor
  · intro e he i hi t ht
    have hlt := hk.errs e he i hi
    obtain ⟨y, hy, hb⟩ := htr (i + 1) (by omega) t ht
    rw [hb]; exact h.errs e he i hi y hy
  · intro e he i hi t ht
    have hlt := hk.reg e he i hi
    obtain ⟨y, hy, hb⟩ := htr (i + 1) (by omega) t ht
    rw [hb]; exact h.reg e he i hi y hy

theorem frame {L' : Lexer} (h : KAnch L) (e1 : L'.toksR = L.toksR) (e2 : L'.errsR = L.errsR) (e3 : L'.errReg = L.errReg) :
    KAnch L' := by
  constructor
  · rw [e1, e2]; exact h.errs
  · rw [e1, e3]; exact h.reg

theorem bufAddToken (h : KAnch L) (hk : KErr L) (t : TokInfo) : KAnch (L.bufAddToken cfg t) := by
  refine h.withToks (ts := t :: L.toksR) hk ?_
  intro n hn x hx
  rw [truncR_cons_of_le _ _ hn] at hx
  exact ⟨x, hx, rfl⟩

/-- a freshly prepared error: every token starts at or before the cursor -/
theorem prep_ok (hle : ∀ t ∈ L.toksR, t.byte ≤ L.curByte) (k : ErrorKind) : AnchOk L.toksR (L.prepError k) := by
  intro i hi t ht
  exact hle t (List.mem_of_mem_drop ht)

theorem emitErrorInfo (h : KAnch L) {e : ErrInfo} (he : AnchOk L.toksR e) : KAnch (L.emitErrorInfo e) := by
  constructor
  · intro e' he'
    simp only [Lexer.emitErrorInfo, List.mem_cons] at he'
    rcases he' with rfl | he'
    · exact he
    · exact h.errs e' he'
  · exact h.reg

theorem emitError (h : KAnch L) (hle : ∀ t ∈ L.toksR, t.byte ≤ L.curByte) (k : ErrorKind) : KAnch (L.emitError k) :=
  h.emitErrorInfo (prep_ok hle k)

end KAnch


theorem step_KAnch (cfg : Cfg) (o : Op) (L : Lexer) (σ : SS) (h : KAnch L) (hk : KErr L) (hs : SInv σ L) :
    KAnch (step cfg o L).2 := by
  have hle := hs.le
  have same : ∀ {L' : Lexer}, L'.toksR = L.toksR → L'.errsR = L.errsR → L'.errReg = L.errReg → KAnch L' :=
    fun e1 e2 e3 => h.frame e1 e2 e3
  have err : ∀ (k : ErrorKind), KAnch (L.emitError k) := fun k => h.emitError hle k
  have errK : ∀ (k : ErrorKind), KErr (L.emitError k) := fun k => hk.emitError k
  cases o <;> simp only [step]
  case rest | lastTok | lastDefaultTok | secondLastDefaultTok | hasCheckpoint | nesting | modeDepth | hasMark
     | litIsEmpty | loopProbe => exact h
  case pendingText => unfold Lexer.pendingText Lexer.pendingTextFrom; split <;> first | exact h | exact err _
  case pendingTextToMark => unfold Lexer.pendingTextFrom; split <;> first | exact h | exact err _
  case pendingTextWithPrev => unfold Lexer.pendingTextFrom; split <;> first | exact h | exact err _
  case advance | eatWhile | clearMark | pushPending | nestInc | nestDec | litBegin | litBeginAtTok | litMarkEnd | payClear
     | litAddDecoded => exact same rfl rfl rfl
  case advanceBy n => exact same rfl rfl rfl
  case addLine => exact same rfl rfl rfl
  case startToken =>
    have hl : (L.lastLineOrAdd cfg).2.toksR = L.toksR ∧ (L.lastLineOrAdd cfg).2.errsR = L.errsR ∧
        (L.lastLineOrAdd cfg).2.errReg = L.errReg := by unfold Lexer.lastLineOrAdd; split <;> simp [Lexer.addLine, Lexer.bufAddLine]
    exact same (by simp [Lexer.startToken, hl]) (by simp [Lexer.startToken, hl]) (by simp [Lexer.startToken, hl])
  case markIfNone =>
    have hl : (L.lastLineOrAdd cfg).2.toksR = L.toksR ∧ (L.lastLineOrAdd cfg).2.errsR = L.errsR ∧
        (L.lastLineOrAdd cfg).2.errReg = L.errReg := by unfold Lexer.lastLineOrAdd; split <;> simp [Lexer.addLine, Lexer.bufAddLine]
    refine same ?_ ?_ ?_ <;> (unfold Lexer.markIfNone; split <;> simp [hl])
  case emitToken ch ty p => exact h.bufAddToken hk _
  case emitTokenAtMark ch ty p =>
    unfold Lexer.emitTokenAtMark; split
    · exact h.bufAddToken hk _
    · exact h
  case updateLastToken ch ty p =>
    unfold Lexer.updateLastToken
    cases hl : L.toksR with
    | cons t ts =>
      have := h.withToks (ts := { t with chan := ch, ty := ty, payload := p.resolve L } :: ts) (p := L.panicked) hk
        (by intro n hn x hx
            have e : (truncR ({ t with chan := ch, ty := ty, payload := p.resolve L } :: ts) n).map (·.byte) =
                (truncR L.toksR n).map (·.byte) := by rw [truncR_mapS, truncR_mapS, hl]; rfl
            have hx' : x.byte ∈ (truncR ({ t with chan := ch, ty := ty, payload := p.resolve L } :: ts) n).map (·.byte) :=
              List.mem_map_of_mem hx
            rw [e] at hx'
            obtain ⟨y, hy, hb⟩ := List.mem_map.1 hx'
            exact ⟨y, hy, hb.symm⟩)
      exact this
    | nil =>
      simp only
      exact (err _).bufAddToken (errK _) _
  case retypeLastDefault e n =>
    split
    · rename_i ts hts
      refine h.withToks (p := L.panicked) hk ?_
      intro k _ x hx
      have : x.byte ∈ (truncR ts k).map (·.byte) := List.mem_map_of_mem hx
      rw [retype_truncR hts] at this
      obtain ⟨y, hy, hyb⟩ := List.mem_map.1 this
      exact ⟨y, hy, hyb.symm⟩
    · exact h
  case insertSepBeforeLastDefault =>
    split
    · split
      · rename_i ts hts
        exact h.withToks (p := L.panicked) hk (fun k hk' x hx => insertSep_truncR hts k hk' x hx)
      · exact h
    · exact h
  case emitError k => exact err k
  case prepError k =>
    exact { errs := h.errs, reg := by intro e he; simp only [Option.some.injEq] at he; subst he; exact KAnch.prep_ok hle k }
  case emitPrepared =>
    split
    · rename_i e he
      exact { errs := (h.emitErrorInfo (h.reg e he)).errs, reg := by intro e' he'; simp at he' }
    · exact h
  case pushMode m => exact same rfl rfl rfl
  case popMode =>
    unfold Lexer.popMode; split
    · exact same rfl rfl rfl
    · exact (err _).frame rfl rfl rfl
  case mode =>
    unfold Lexer.mode; split
    · exact h
    · exact (err _).frame rfl rfl rfl
  case popModeRaw => split <;> first | exact same rfl rfl rfl | exact h
  case modifyTop f => split <;> first | exact same rfl rfl rfl | exact h
  case modifyAt i f => split <;> first | exact same rfl rfl rfl | exact h
  case insertModeAt i m => split <;> exact same rfl rfl rfl
  case checkpoint => exact same rfl rfl rfl
  case clearCheckpoint => exact same rfl rfl rfl
  case bumpCheckpointModeLen n => exact same rfl rfl rfl
  case rollback =>
    unfold Lexer.rollback
    cases hc : L.cp with
    | none => exact err _
    | some c =>
      obtain ⟨h1, h2, h3⟩ := hk.cp c hc
      constructor
      · intro e he i hi t ht
        have hlt := h3 e he i hi
        simp only at ht
        rw [truncR_truncR _ (by omega) h1] at ht
        exact h.errs e (List.mem_of_mem_drop he) i hi t ht
      · intro e he; simp at he
  case popPending => unfold Lexer.popPendingStat; split <;> first | exact same rfl rfl rfl | exact h
  case pendingStat =>
    unfold Lexer.pendingStat; split
    · exact (err _).frame rfl rfl rfl
    · exact h
  case setPending b =>
    unfold Lexer.setPendingStat; split
    · exact (err _).frame rfl rfl rfl
    · exact same rfl rfl rfl
  case litCut =>
    unfold Lexer.addStringLiteralFromSrc
    simp only
    split
    · exact same rfl rfl rfl
    · exact (err _).frame rfl rfl rfl
  case litResolve back =>
    split
    · exact same rfl rfl rfl
    · unfold Lexer.addStringLiteralFromSrc
      simp only
      split
      · exact same rfl rfl rfl
      · have : KAnch ((L.dassert cfg (L.lit.seen || L.lit.start == L.lit.stop) "assertion failed: seen_escape || lit_start_idx == cur_lit_end_idx").emitError .InternalErrorOutOfBounds) := by
          have h' : KAnch (L.dassert cfg (L.lit.seen || L.lit.start == L.lit.stop) "assertion failed: seen_escape || lit_start_idx == cur_lit_end_idx") := same rfl rfl rfl
          exact h'.emitError (by simpa [Lexer.dassert, Lexer.curByte] using hle) _
        exact this.frame rfl rfl rfl
  case emitEofAtCursor =>
    have h' : KAnch (L.lastLineOrAdd cfg).2 := by
      refine same ?_ ?_ ?_ <;> (unfold Lexer.lastLineOrAdd; split <;> simp [Lexer.addLine, Lexer.bufAddLine])
    have hk' : KErr (L.lastLineOrAdd cfg).2 := hk.lastLineOrAdd
    exact h'.bufAddToken hk' _
  case dassert c m => exact same rfl rfl rfl
  case panic m => exact same rfl rfl rfl


theorem run_anch (cfg : Cfg) {α : Type} (p : Prog α) : ∀ (Q : α → SS → Prop) (σ : SS) (L : Lexer), swp p Q σ → SInv σ L →
    KErr L → KAnch L →
    KAnch (Prog.run cfg p L).2 ∧ ∀ a, (Prog.run cfg p L).1 = some a → ∃ σ', Q a σ' ∧ SInv σ' (Prog.run cfg p L).2 := by
  induction p with
  | ret a =>
    intro Q σ L h hi _ ha
    refine ⟨ha, ?_⟩
    intro b hb
    simp only [Prog.run, Option.some.injEq] at hb
    subst hb
    exact ⟨σ, h, hi⟩
  | op o k ih =>
    intro Q σ L h hi hk ha
    rw [run_op]
    have hk' := step_KErr cfg o L hk
    have ha' := step_KAnch cfg o L σ ha hk hi
    by_cases ho : ∃ m, o = .panic m
    · obtain ⟨m, rfl⟩ := ho
      cases hp : (step cfg (.panic m) L).2.panicked with
      | some m' => exact ⟨ha', by intro a h'; simp at h'⟩
      | none =>
        exfalso
        simp only [step, Lexer.panic] at hp
        cases hL : L.panicked <;> simp [hL, Lexer.chk] at hp
    · have ho' : ∀ m, o ≠ .panic m := fun m hm => ho ⟨m, hm⟩
      rw [swp.op_iff ho'] at h
      have hs := step_SInv cfg o L σ hi h.1
      cases hp : (step cfg o L).2.panicked with
      | some m' => exact ⟨ha', by intro a h'; simp at h'⟩
      | none => exact ih _ Q _ _ (h.2 _) hs hk' ha'

theorem new_KAnch (cfg : Cfg) (s : List Char) : KAnch (Lexer.new cfg s) :=
  { errs := by intro e he; simp [Lexer.new, Lexer.bufAddLine] at he
    reg := by intro e he; simp [Lexer.new, Lexer.bufAddLine] at he }

/-- the token with (oldest-first) index `i` is among the oldest `i + 1` -/
theorem mem_truncR_of_reverse_getElem? {α} (l : List α) (i : Nat) (x : α) (h : l.reverse[i]? = some x) :
    x ∈ truncR l (i + 1) := by
  obtain ⟨hi, hx⟩ := List.getElem?_eq_some_iff.1 h
  simp only [List.length_reverse] at hi
  unfold truncR
  rw [List.getElem_reverse] at hx
  rw [List.mem_iff_getElem]
  refine ⟨0, by simp; omega, ?_⟩
  simp only [List.getElem_drop]
  rw [← hx]
  congr 1
  omega

end SasLexer
