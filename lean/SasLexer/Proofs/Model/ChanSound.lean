import SasLexer.Proofs.Model.Chan
import SasLexer.Proofs.Model.CoverKernel
set_option linter.unusedSimpArgs false
/-!
# Soundness of the channel discipline

`ChInv`: every token of the buffer obeys the channel table and every mode on the stack satisfies `modeOK`.
Preserved by every primitive whose side condition `cOkCh` holds; the responses of the mode-stack reads then satisfy
`respOK`.  Hence (`ChanR_sound`): every program with `ChanR`, every run, both profiles.
-/
namespace SasLexer
open Lexer

/-- channel table and payload-kind table for one token -/
def tokInfoOK (sep : Bool) (t : TokInfo) : Bool :=
  chanOK t.chan t.ty && payKindOK t.ty t.payload && (t.ty != .MacroSep || sep)

/-- the payload register holds nothing or a string payload -/
def PReg (L : Lexer) : Prop := L.payReg = .none ∨ ∃ a b, L.payReg = .str a b

structure ChInv (sep : Bool) (L : Lexer) : Prop where
  toks : ∀ t ∈ L.toksR, tokInfoOK sep t = true
  modes : ∀ m ∈ L.modesR, modeOK m
  preg : PReg L

theorem tokOK_resolve {L : Lexer} (hr : PReg L) {sep : Bool} {ch : Channel} {ty : TokenType} {p : PaySpec}
    (h : tokOK sep ch ty p = true) :
    chanOK ch ty = true ∧ payKindOK ty (p.resolve L) = true ∧ (ty != .MacroSep || sep) = true := by
  simp only [tokOK, Bool.and_eq_true] at h
  refine ⟨h.1.1, ?_, h.2⟩
  cases p with
  | none => exact h.1.2
  | int v => exact h.1.2
  | float b => exact h.1.2
  | reg =>
    have h2 := h.1.2
    simp only [paySpecOK, Bool.and_eq_true] at h2
    simp only [PaySpec.resolve]
    rcases hr with hr | ⟨a, b, hr⟩ <;> rw [hr]
    · exact h2.2
    · exact h2.1

section modesLemmas
variable (cfg : Cfg) (L : Lexer)
@[simp] theorem lastLineOrAdd_modesR : (L.lastLineOrAdd cfg).2.modesR = L.modesR := by
  unfold Lexer.lastLineOrAdd; split <;> simp [Lexer.addLine, Lexer.bufAddLine]
@[simp] theorem startToken_modesR : (L.startToken cfg).modesR = L.modesR := by
  unfold Lexer.startToken; simp
@[simp] theorem markIfNone_modesR : (L.markIfNone cfg).modesR = L.modesR := by
  unfold Lexer.markIfNone; split <;> simp
@[simp] theorem popPendingStat_modesR : L.popPendingStat.modesR = L.modesR := by unfold Lexer.popPendingStat; split <;> rfl
@[simp] theorem pendingStat_modesR : L.pendingStat.2.modesR = L.modesR := by unfold Lexer.pendingStat; split <;> rfl
@[simp] theorem setPendingStat_modesR (v) : (L.setPendingStat v).modesR = L.modesR := by unfold Lexer.setPendingStat; split <;> rfl
@[simp] theorem addStringLiteralFromSrc_modesR (a b) : (L.addStringLiteralFromSrc cfg a b).2.modesR = L.modesR := by
  unfold Lexer.addStringLiteralFromSrc; simp only; split <;> simp [Lexer.addStringLiteral, Lexer.emitError, Lexer.emitErrorInfo]
@[simp] theorem pendingTextFrom_modesR (a b k) : (L.pendingTextFrom a b k).2.modesR = L.modesR := by
  unfold Lexer.pendingTextFrom; split <;> simp [Lexer.emitError, Lexer.emitErrorInfo]
@[simp] theorem lastLineOrAdd_payReg : (L.lastLineOrAdd cfg).2.payReg = L.payReg := by
  unfold Lexer.lastLineOrAdd; split <;> simp [Lexer.addLine, Lexer.bufAddLine]
@[simp] theorem startToken_payReg : (L.startToken cfg).payReg = L.payReg := by unfold Lexer.startToken; simp
@[simp] theorem markIfNone_payReg : (L.markIfNone cfg).payReg = L.payReg := by unfold Lexer.markIfNone; split <;> simp
@[simp] theorem popMode_payReg : L.popMode.payReg = L.payReg := by unfold Lexer.popMode; split <;> rfl
@[simp] theorem mode_payReg : L.mode.2.payReg = L.payReg := by unfold Lexer.mode; split <;> rfl
@[simp] theorem popPendingStat_payReg : L.popPendingStat.payReg = L.payReg := by unfold Lexer.popPendingStat; split <;> rfl
@[simp] theorem pendingStat_payReg : L.pendingStat.2.payReg = L.payReg := by unfold Lexer.pendingStat; split <;> rfl
@[simp] theorem setPendingStat_payReg (v) : (L.setPendingStat v).payReg = L.payReg := by unfold Lexer.setPendingStat; split <;> rfl
@[simp] theorem addStringLiteralFromSrc_payReg (a b) : (L.addStringLiteralFromSrc cfg a b).2.payReg = L.payReg := by
  unfold Lexer.addStringLiteralFromSrc; simp only; split <;> simp [Lexer.addStringLiteral, Lexer.emitError, Lexer.emitErrorInfo, Lexer.dassert]
@[simp] theorem pendingTextFrom_payReg (a b k) : (L.pendingTextFrom a b k).2.payReg = L.payReg := by
  unfold Lexer.pendingTextFrom; split <;> simp [Lexer.emitError, Lexer.emitErrorInfo]
@[simp] theorem rollback_payReg : L.rollback.payReg = L.payReg := by unfold Lexer.rollback; split <;> rfl
end modesLemmas

theorem ChInv.congr {sep : Bool} {L L' : Lexer} (h : ChInv sep L) (e1 : L'.toksR = L.toksR) (e2 : L'.modesR = L.modesR)
    (e3 : L'.payReg = L.payReg := by rfl) : ChInv sep L' :=
  ⟨by rw [e1]; exact h.toks, by rw [e2]; exact h.modes, by unfold PReg; rw [e3]; exact h.preg⟩

theorem ChInv.bufAddToken {sep : Bool} {cfg : Cfg} {L : Lexer} (h : ChInv sep L) (t : TokInfo) (ht : tokInfoOK sep t = true) :
    ChInv sep (L.bufAddToken cfg t) := by
  refine ⟨?_, h.modes, h.preg⟩
  intro x hx
  simp only [Lexer.bufAddToken, List.mem_cons] at hx
  rcases hx with rfl | hx
  · exact ht
  · exact h.toks x hx

theorem sameKinds_pay {e n : TokenType} (h : sameKinds e n = true) (p : Payload) : payKindOK n p = payKindOK e p := by
  simp only [sameKinds, Bool.and_eq_true, beq_iff_eq] at h
  obtain ⟨⟨h1, h2⟩, h3⟩ := h
  cases p <;> simp [payKindOK, h1, h2, h3]

theorem retype_ok {sep : Bool} {e n : TokenType} (hn : plainTy n = true) (hk : sameKinds e n = true) : ∀ {ts ts' : List TokInfo},
    retypeLastDefaultAux e n ts = some ts' → (∀ t ∈ ts, tokInfoOK sep t = true) → ∀ t ∈ ts', tokInfoOK sep t = true
  | [], _, h, _ => by simp [retypeLastDefaultAux] at h
  | t :: ts, ts', h, hall => by
    unfold retypeLastDefaultAux at h
    split at h
    · rename_i hc
      split at h
      · rename_i hty
        simp only [Option.some.injEq] at h; subst h
        intro x hx
        simp only [List.mem_cons] at hx
        rcases hx with rfl | hx
        · have h0 := hall t (List.mem_cons_self ..)
          simp only [tokInfoOK, Bool.and_eq_true] at h0 ⊢
          simp only [plainTy, tokOK, Bool.and_eq_true, Bool.or_false] at hn
          refine ⟨⟨by rw [hc]; exact hn.1.1, ?_⟩, by simp [hn.2]⟩
          rw [sameKinds_pay hk, ← hty]; exact h0.1.2
        · exact hall x (List.mem_cons_of_mem _ hx)
      · cases h
    · cases hr : retypeLastDefaultAux e n ts with
      | none => simp [hr] at h
      | some r =>
        simp only [hr, Option.map_some, Option.some.injEq] at h; subst h
        intro x hx
        simp only [List.mem_cons] at hx
        rcases hx with rfl | hx
        · exact hall _ (List.mem_cons_self ..)
        · exact retype_ok hn hk hr (fun y hy => hall y (List.mem_cons_of_mem _ hy)) x hx

theorem insertSep_ok : ∀ {ts ts' : List TokInfo},
    insertSepAux ts = some ts' → (∀ t ∈ ts, tokInfoOK true t = true) → ∀ t ∈ ts', tokInfoOK true t = true
  | [], _, h, _ => by simp [insertSepAux] at h
  | t :: ts, ts', h, hall => by
    unfold insertSepAux at h
    split at h
    · simp only [Option.some.injEq] at h; subst h
      intro x hx
      simp only [List.mem_cons] at hx
      rcases hx with rfl | rfl | hx
      · exact hall _ (List.mem_cons_self ..)
      · rfl
      · exact hall x (List.mem_cons_of_mem _ hx)
    · cases hr : insertSepAux ts with
      | none => simp [hr] at h
      | some r =>
        simp only [hr, Option.map_some, Option.some.injEq] at h; subst h
        intro x hx
        simp only [List.mem_cons] at hx
        rcases hx with rfl | hx
        · exact hall _ (List.mem_cons_self ..)
        · exact insertSep_ok hr (fun y hy => hall y (List.mem_cons_of_mem _ hy)) x hx

theorem mem_truncR {α} {l : List α} {n : Nat} {x : α} (h : x ∈ truncR l n) : x ∈ l := List.mem_of_mem_drop h


theorem step_ChInv (cfg : Cfg) (o : Op) (L : Lexer) (h : ChInv cfg.macroSep L) (ho : cOkCh cfg.macroSep o) :
    ChInv cfg.macroSep (step cfg o L).2 ∧ respOK o (step cfg o L).1 := by
  have emitOK : ∀ {ch ty p} (b s l : Nat), tokOK cfg.macroSep ch ty p = true →
      tokInfoOK cfg.macroSep ⟨ch, ty, b, s, l, p.resolve L⟩ = true := by
    intro ch ty p b s l hh
    obtain ⟨h1, h2, h3⟩ := tokOK_resolve h.preg hh
    simp only [tokInfoOK, h1, h2, Bool.and_self, Bool.true_and]
    exact h3
  cases o <;> simp only [step, respOK, and_true]
  case rest | lastTok | lastDefaultTok | secondLastDefaultTok | hasCheckpoint | nesting | modeDepth | hasMark
      | litIsEmpty | loopProbe => exact h
  case emitToken ch ty p => exact h.bufAddToken _ (emitOK _ _ _ ho)
  case emitTokenAtMark ch ty p =>
    unfold Lexer.emitTokenAtMark; split
    · exact h.bufAddToken _ (emitOK _ _ _ ho)
    · exact h
  case updateLastToken ch ty p =>
    unfold Lexer.updateLastToken
    cases hl : L.toksR with
    | cons t ts =>
      refine ⟨?_, h.modes, h.preg⟩
      intro x hx
      simp only [List.mem_cons] at hx
      rcases hx with rfl | hx
      · exact emitOK _ _ _ ho
      · exact h.toks x (by rw [hl]; exact List.mem_cons_of_mem _ hx)
    | nil =>
      simp only
      exact ChInv.bufAddToken (L := L.emitError .InternalErrorNoTokenToReplace) (h.congr rfl rfl) ⟨ch, ty, _, _, _, _⟩ (emitOK _ _ _ ho)
  case retypeLastDefault e n =>
    split
    · rename_i ts hts
      exact ⟨retype_ok ho.1 ho.2 hts h.toks, h.modes, h.preg⟩
    · exact h
  case insertSepBeforeLastDefault =>
    split
    · rename_i hsep
      split
      · rename_i ts hts
        have h' := h.toks
        rw [hsep] at h' ⊢
        exact ⟨insertSep_ok hts h', h.modes, h.preg⟩
      · exact h
    · exact h
  case pushMode m =>
    refine ⟨h.toks, ?_, h.preg⟩
    intro x hx
    simp only [Lexer.pushMode, List.mem_cons] at hx
    rcases hx with rfl | hx
    · exact ho
    · exact h.modes x hx
  case popMode =>
    unfold Lexer.popMode
    cases hl : L.modesR with
    | nil => exact ⟨h.toks, by intro x hx; simp [Lexer.pushMode, Lexer.emitError, Lexer.emitErrorInfo, hl] at hx; subst hx; trivial, h.preg⟩
    | cons m ms => exact ⟨h.toks, fun x hx => h.modes x (by rw [hl]; exact List.mem_cons_of_mem _ hx), h.preg⟩
  case mode =>
    unfold Lexer.mode
    cases hl : L.modesR with
    | nil =>
      exact ⟨⟨h.toks, by intro x hx; simp [Lexer.pushMode, Lexer.emitError, Lexer.emitErrorInfo, hl] at hx; subst hx; trivial, h.preg⟩, trivial⟩
    | cons m ms => exact ⟨h, h.modes m (by rw [hl]; exact List.mem_cons_self ..)⟩
  case popModeRaw =>
    cases hl : L.modesR with
    | nil => exact ⟨h, by intro x hx; cases hx⟩
    | cons m ms =>
      refine ⟨⟨h.toks, fun x hx => h.modes x (by rw [hl]; exact List.mem_cons_of_mem _ hx), h.preg⟩, ?_⟩
      intro x hx
      simp only [Option.some.injEq] at hx
      subst hx
      exact h.modes _ (by rw [hl]; exact List.mem_cons_self ..)
  case modifyTop f =>
    cases hl : L.modesR with
    | nil => exact h
    | cons m ms =>
      refine ⟨h.toks, ?_, h.preg⟩
      intro x hx
      simp only [List.mem_cons] at hx
      rcases hx with rfl | hx
      · exact ho m (h.modes m (by rw [hl]; exact List.mem_cons_self ..))
      · exact h.modes x (by rw [hl]; exact List.mem_cons_of_mem _ hx)
  case modifyAt i f =>
    split
    · rename_i ms hms
      refine ⟨h.toks, ?_, h.preg⟩
      unfold Lexer.modifyNthFromBottom at hms
      split at hms
      · simp only at hms
        split at hms
        · rename_i m hm
          cases hf : f m with
          | none => simp [hf] at hms
          | some m' =>
            simp only [hf, Option.map_some, Option.some.injEq] at hms
            subst hms
            intro x hx
            rcases List.mem_or_eq_of_mem_set hx with hx | rfl
            · exact h.modes x hx
            · exact ho m x (h.modes m (List.mem_of_getElem? hm)) hf
        · cases hms
      · cases hms
    · exact h
  case insertModeAt i m =>
    split
    · rename_i ms hms
      refine ⟨h.toks, ?_, h.preg⟩
      unfold Lexer.insertNthFromBottom at hms
      split at hms
      · simp only [Option.some.injEq] at hms
        subst hms
        intro x hx
        simp only [List.mem_append, List.mem_cons] at hx
        rcases hx with hx | rfl | hx
        · exact h.modes x (List.mem_of_mem_take hx)
        · exact ho
        · exact h.modes x (List.mem_of_mem_drop hx)
      · cases hms
    · exact h.congr rfl rfl
  case rollback =>
    unfold Lexer.rollback
    split
    · exact ⟨fun t ht => h.toks t (mem_truncR ht), fun m hm => h.modes m (mem_truncR hm), h.preg⟩
    · exact h.congr rfl rfl
  case emitEofAtCursor =>
    exact ChInv.bufAddToken (h.congr (by simp) (by simp) (by simp)) _ (show tokInfoOK _ ⟨.DEFAULT, .EOF, _, _, _, .none⟩ = true by rfl)
  case payClear => exact ⟨h.toks, h.modes, Or.inl rfl⟩
  case litAddDecoded cs => exact ⟨h.toks, h.modes, Or.inr ⟨_, _, rfl⟩⟩
  case litResolve back =>
    split
    · exact ⟨h.toks, h.modes, Or.inl rfl⟩
    · refine ⟨?_, ?_, Or.inr ⟨_, _, rfl⟩⟩
      · intro t ht; refine h.toks t ?_; simpa [Lexer.dassert] using ht
      · intro m hm; refine h.modes m ?_; simpa [Lexer.dassert] using hm
  all_goals first
    | exact h.congr rfl rfl rfl
    | (refine h.congr ?_ ?_ ?_ <;> first | rfl | (simp [Lexer.pendingText, Lexer.checkpoint, Lexer.clearCheckpoint, Lexer.dassert, Lexer.panic, Lexer.addLine, Lexer.bufAddLine, Lexer.clearMark, Lexer.emitError, Lexer.emitErrorInfo, Lexer.pushPendingStat]; done))
    | (refine h.congr ?_ ?_ ?_ <;> (repeat' split) <;> first | rfl | (simp [Lexer.dassert, Lexer.emitErrorInfo, Lexer.addStringLiteral]; done))

theorem ChanR_sound (cfg : Cfg) {α : Type} (p : Prog α) : ∀ (Q : α → Prop) (L : Lexer), ChanR cfg.macroSep p Q → ChInv cfg.macroSep L →
    ChInv cfg.macroSep (Prog.run cfg p L).2 ∧ ∀ a, (Prog.run cfg p L).1 = some a → Q a := by
  induction p with
  | ret a =>
    intro Q L h hi
    rw [ChanR.ret_iff] at h
    exact ⟨hi, by intro b hb; simp only [Prog.run, Option.some.injEq] at hb; subst hb; exact h⟩
  | op o k ih =>
    intro Q L h hi
    rw [ChanR.op_iff] at h
    obtain ⟨ho, hk⟩ := h
    obtain ⟨hs, hr⟩ := step_ChInv cfg o L hi ho
    rw [run_op']
    cases hp : (step cfg o L).2.panicked with
    | some m => exact ⟨hs, by intro a ha; simp at ha⟩
    | none => exact ih _ Q _ (hk _ hr) hs

end SasLexer
