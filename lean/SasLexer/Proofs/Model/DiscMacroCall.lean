import SasLexer.Proofs.Model.DiscCommon
import SasLexer.Lex.MacroCall
/-! # The scanning discipline holds of the `%name` dispatch (`Lex/MacroCall.lean`) -/
namespace SasLexer
open Prog (perform)
open P

theorem lookup_mem {α} [BEq α] [LawfulBEq α] {β} : ∀ {l : List (α × β)} {k : α} {v : β}, l.lookup k = some v → (k, v) ∈ l
  | [], _, _, h => by simp at h
  | (a, b) :: l, k, v, h => by
    rw [List.lookup_cons] at h
    split at h
    · rename_i hk
      simp only [Option.some.injEq] at h; subst h
      have : k = a := by simpa using hk
      subst this; simp
    · exact List.mem_cons_of_mem _ (lookup_mem h)

theorem mkeywords_no_eof : ∀ p ∈ TokenType.MKEYWORDS, p.2 ≠ TokenType.EOF := by decide +kernel
theorem keywords_no_eof : ∀ p ∈ TokenType.KEYWORDS, p.2 ≠ TokenType.EOF := by decide +kernel

theorem lookupKw_m_ne_eof {k : String} {t : TokenType} (h : lookupKw TokenType.MKEYWORDS k = some t) : t ≠ .EOF :=
  mkeywords_no_eof _ (lookup_mem h)
theorem lookupKw_ne_eof {k : String} {t : TokenType} (h : lookupKw TokenType.KEYWORDS k = some t) : t ≠ .EOF :=
  keywords_no_eof _ (lookup_mem h)

theorem lexMacroCallStatOrLabel_ok {r : List Char} {t : TokenType} {n : Nat}
    (h : lexMacroCallStatOrLabel r = .ok (t, n)) : t ≠ .EOF ∧ n = (r.takeWhile isIdentContinue).length := by
  unfold lexMacroCallStatOrLabel at h
  simp only at h
  split at h
  · simp only [Except.ok.injEq, Prod.mk.injEq] at h; obtain ⟨rfl, rfl⟩ := h; simp
  · split at h
    · simp only [Except.ok.injEq, Prod.mk.injEq] at h; obtain ⟨rfl, rfl⟩ := h; simp
    · rename_i t' hl
      split at h
      · simp only [Except.ok.injEq, Prod.mk.injEq] at h; obtain ⟨rfl, rfl⟩ := h
        exact ⟨lookupKw_m_ne_eof hl, rfl⟩
      · simp at h

theorem maybeExpectMacroCallArgsOrLabel_safe (b : Bool) : Safe (maybeExpectMacroCallArgsOrLabel b) := by
  intro r; unfold maybeExpectMacroCallArgsOrLabel; awp_auto []

theorem maybeExpectMacroCallArgsOrLabel_inert (b : _) : Inert (maybeExpectMacroCallArgsOrLabel b) := by unfold maybeExpectMacroCallArgsOrLabel; inert
theorem expectMacroStrCallArgs_inert (b : _) : Inert (expectMacroStrCallArgs b) := by unfold expectMacroStrCallArgs; inert
theorem expectEvalCallArgs_inert (b : _) : Inert (expectEvalCallArgs b) := by unfold expectEvalCallArgs; inert
theorem expectScanOrSubstrCallArgs_inert (b : _) : Inert (expectScanOrSubstrCallArgs b) := by unfold expectScanOrSubstrCallArgs; inert
theorem expectBuiltinMacroCallArgs_inert : Inert (expectBuiltinMacroCallArgs) := by unfold expectBuiltinMacroCallArgs; inert
theorem expectBuiltinMacroCallOneArgMasking_inert : Inert (expectBuiltinMacroCallOneArgMasking) := by unfold expectBuiltinMacroCallOneArgMasking; inert
theorem expectBuiltinMacroCallNamedArgs_inert : Inert (expectBuiltinMacroCallNamedArgs) := by unfold expectBuiltinMacroCallNamedArgs; inert
theorem expectSysfuncMacroCallArgs_inert : Inert (expectSysfuncMacroCallArgs) := by unfold expectSysfuncMacroCallArgs; inert
theorem expectMacroUntilWhileStatArgs_inert : Inert (expectMacroUntilWhileStatArgs) := by unfold expectMacroUntilWhileStatArgs; inert
theorem expectMacroLetStat_inert (e : _) : Inert (expectMacroLetStat e) := by unfold expectMacroLetStat; inert
theorem expectMacroNameThenOpts_inert : Inert (expectMacroNameThenOpts) := by unfold expectMacroNameThenOpts; inert
theorem expectSyscallCallAndArgs_inert : Inert (expectSyscallCallAndArgs) := by unfold expectSyscallCallAndArgs; inert

theorem dispatchMacroCallOrStat_inert (cfg : Cfg) (ty : TokenType) (b : Bool) (hty : ty ≠ .EOF) :
    Inert (dispatchMacroCallOrStat cfg ty b) := by
  unfold dispatchMacroCallOrStat macroCallOrStatPreload maybeEmitMacroSepBeforeKw maybeExpectMacroCallArgsOrLabel expectMacroStrCallArgs
    expectEvalCallArgs expectScanOrSubstrCallArgs expectBuiltinMacroCallArgs expectBuiltinMacroCallOneArgMasking
    expectBuiltinMacroCallNamedArgs expectSysfuncMacroCallArgs expectMacroUntilWhileStatArgs expectMacroLetStat
    expectMacroNameThenOpts expectSyscallCallAndArgs
  inert
  all_goals (first | exact hty ‹_› | (simp_all; done))

theorem macroCall_take {t : List Char} {x : TokenType × Nat} (h : lexMacroCallStatOrLabel t = .ok x) :
    ∀ c ∈ ('%' :: t).take (x.2 + 1), c ≠ '\n' := by
  obtain ⟨ty, n⟩ := x
  obtain ⟨_, rfl⟩ := lexMacroCallStatOrLabel_ok h
  intro c hc heq
  subst heq
  rw [List.take_succ_cons] at hc
  simp only [List.mem_cons] at hc
  rcases hc with hc | hc
  · exact absurd hc (by decide)
  · have := take_takeWhile_len isIdentContinue t hc
    rw [isIdentContinue_nl] at this; cases this

theorem Inert.safe {α} {p : Prog α} (h : Inert p) : Safe p := fun r => h.awp' (fun _ => rfl)

set_option maxRecDepth 8000 in
theorem lexMacroCall_awp (cfg : Cfg) (a b : Bool) (t : List Char) {Q : MacroKwType → List Char → Bool → Prop}
    (hQ : ∀ r', Q .macroCall r' false) (hN : Q .none ('%' :: t) false) (hS : Q .macroStat ('%' :: t) false) :
    awp (lexMacroCall cfg a b) Q ('%' :: t) false := by
  unfold lexMacroCall
  awp_auto [(dispatchMacroCallOrStat_inert _ _ _ _).awp']
  all_goals (first | exact hQ _ | exact hN | exact hS | exact macroCall_take ‹_› _ ‹_› ‹_› | exact (lexMacroCallStatOrLabel_ok ‹_›).1 ‹_› | (simp_all; done) | grind)

set_option maxRecDepth 8000 in
theorem lexMacroIdentifier_awp (cfg : Cfg) (b : Bool) (t : List Char) {Q : Unit → List Char → Bool → Prop}
    (hQ : ∀ r', Q () r' false) : awp (lexMacroIdentifier cfg b) Q ('%' :: t) false := by
  unfold lexMacroIdentifier
  awp_auto [(dispatchMacroCallOrStat_inert _ _ _ _).awp']
  all_goals (first | exact hQ _ | exact isIdentContinue_nl | exact (lexMacroCallStatOrLabel_ok ‹_›).1 ‹_› | (simp_all; done) | grind)

theorem head_cons {r : List Char} {c : Char} (h : r.head? = some c) : ∃ t, r = c :: t := by
  cases r with
  | nil => simp at h
  | cons d t => simp at h; subst h; exact ⟨t, rfl⟩

theorem head2_cons {r : List Char} {c d : Char} (h : r.head? = some c) (h2 : (r.drop 1).head? = some d) :
    ∃ t, r = c :: d :: t := by
  obtain ⟨t, rfl⟩ := head_cons h
  simp at h2
  obtain ⟨u, rfl⟩ := head_cons h2
  exact ⟨u, rfl⟩

/-! forms of the precondition lemmas that `apply` can use on any text: the shape of the text is a side goal -/
theorem head_of_getD {o : Option Char} {c : Char} (h : o.getD (Char.ofNat 0) = c) (hc : c ≠ Char.ofNat 0) : o = some c := by
  cases o with
  | none => simp at h; exact absurd h.symm hc
  | some d => simp at h; rw [h]

theorem lexCStyleComment_awp' (cfg : Cfg) {r : List Char} {Q : Unit → List Char → Bool → Prop}
    (hQ : ∀ r', Q () r' false) (h1 : r.head? = some '/') (h2 : (r.drop 1).head?.getD (Char.ofNat 0) = '*') :
    awp (lexCStyleComment cfg) Q r false := by
  obtain ⟨t, rfl⟩ := head2_cons h1 (head_of_getD h2 (by decide)); exact lexCStyleComment_awp cfg t hQ

theorem lexMacroComment_awp' (cfg : Cfg) {r : List Char} {Q : Unit → List Char → Bool → Prop}
    (hQ : ∀ r', Q () r' false) (h1 : r.head? = some '%') (h2 : (r.drop 1).head?.getD (Char.ofNat 0) = '*') :
    awp (lexMacroComment cfg) Q r false := by
  obtain ⟨t, rfl⟩ := head2_cons h1 (head_of_getD h2 (by decide)); exact lexMacroComment_awp cfg t hQ

theorem lexStringExpressionStart_awp' (cfg : Cfg) (b : Bool) {r : List Char} {Q : Unit → List Char → Bool → Prop}
    (hQ : ∀ r', Q () r' false) (h1 : r.head? = some '"') : awp (lexStringExpressionStart cfg b) Q r false := by
  obtain ⟨t, rfl⟩ := head_cons h1; exact lexStringExpressionStart_awp cfg b t hQ

theorem lexSingleQuotedStr_awp' (cfg : Cfg) {r : List Char} {Q : Unit → List Char → Bool → Prop}
    (hQ : ∀ r', Q () r' false) (h1 : r.head? = some '\'') : awp (lexSingleQuotedStr cfg) Q r false := by
  obtain ⟨t, rfl⟩ := head_cons h1; exact lexSingleQuotedStr_awp cfg t hQ

theorem lexMacroCall_awp' (cfg : Cfg) (a b : Bool) {r : List Char} {Q : MacroKwType → List Char → Bool → Prop}
    (hQ : ∀ r', Q .macroCall r' false) (hN : Q .none r false) (hS : Q .macroStat r false)
    (h1 : r.head? = some '%') : awp (lexMacroCall cfg a b) Q r false := by
  obtain ⟨t, rfl⟩ := head_cons h1; exact lexMacroCall_awp cfg a b t hQ hN hS

theorem lexMacroIdentifier_awp' (cfg : Cfg) (b : Bool) {r : List Char} {Q : Unit → List Char → Bool → Prop}
    (hQ : ∀ r', Q () r' false) (h1 : r.head? = some '%') : awp (lexMacroIdentifier cfg b) Q r false := by
  obtain ⟨t, rfl⟩ := head_cons h1; exact lexMacroIdentifier_awp cfg b t hQ

set_option maxRecDepth 8000 in
theorem dispatchMacroDo_awp (cfg : Cfg) (c : Char) (t : List Char) {Q : Unit → List Char → Bool → Prop}
    (hQ : ∀ r', Q () r' false) : awp (dispatchMacroDo cfg c) Q (c :: t) false := by
  unfold dispatchMacroDo
  awp_auto [lexMacroIdentifier_awp']
  all_goals (first | exact hQ _ | (simp_all; done) | grind)

set_option maxRecDepth 8000 in
theorem dispatchMacroLocalGlobal_awp (cfg : Cfg) (c : Char) (l : Bool) (t : List Char) {Q : Unit → List Char → Bool → Prop}
    (hQ : ∀ r', Q () r' false) : awp (dispatchMacroLocalGlobal cfg c l) Q (c :: t) false := by
  unfold dispatchMacroLocalGlobal
  awp_auto [(expectMacroLetStat_inert _).awp']
  all_goals (first | exact hQ _ | (simp_all; done) | grind)

end SasLexer
