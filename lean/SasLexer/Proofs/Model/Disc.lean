import SasLexer.Prog
import SasLexer.Proofs.Model.DiscAttr
/-!
# The scanning discipline as a predicate on programs (`awp`)

`awp p Q r lag` is a weakest precondition over an *abstract* state that consists only of the
text still in front of the cursor (`r`) and one flag (`lag`: a line feed has just been consumed
and its line start has not been recorded yet).  It demands of the program `p`, for **every**
response the non-cursor operations might give (mode stack, look-behind, registers, ... are all
universally quantified):

* after an `advance` that returned a line feed the next state-changing operation is `addLine`,
  and `addLine` is performed at no other time;
* `advanceBy n` skips no line feed, `eatWhile p` has a predicate that rejects line feeds;
* no token of type `EOF` is ever emitted, retyped or inserted by the control logic (the single
  `EOF` is appended by `finalize_lexing`'s last primitive, which is not allowed inside `p`);
* when `p` returns, no line feed is pending and `Q` holds of the result and the remaining text.

It is a *static* property of the program tree (what is tracked is exactly what the program
itself could have read through `rest`), so proving it for a scanner is symbolic evaluation of
that scanner.  `Proofs/Model/DiscSound.lean` shows what it buys: for every program with
`awp`, every run keeps the line table exact (C04) and emits no `EOF` (C02).
-/
namespace SasLexer

/-- operations that change nothing but (possibly) the ghost field `panicked` -/
def Op.isRead : Op → Bool
  | .rest | .lastTok | .lastDefaultTok | .secondLastDefaultTok | .hasCheckpoint | .nesting
  | .modeDepth | .hasMark | .litIsEmpty | .loopProbe | .dassert _ _ => true
  | _ => false

/-- side condition of one operation in abstract state `(r, lag)` -/
def dOk : Op → List Char → Bool → Prop
  | .addLine, _, lag => lag = true
  | .advanceBy n, r, lag => lag = false ∧ ∀ c ∈ r.take n, c ≠ '\n'
  | .eatWhile p, _, lag => lag = false ∧ p '\n' = false
  | .emitToken _ ty _, _, lag => lag = false ∧ ty ≠ .EOF
  | .emitTokenAtMark _ ty _, _, lag => lag = false ∧ ty ≠ .EOF
  | .updateLastToken _ ty _, _, lag => lag = false ∧ ty ≠ .EOF
  | .retypeLastDefault _ n, _, lag => lag = false ∧ n ≠ .EOF
  | .emitEofAtCursor, _, _ => False
  | .panic _, _, _ => True
  | o, _, lag => o.isRead = true ∨ lag = false

/-- which (response, remaining text, flag) an operation may produce from `(r, lag)` -/
def dPost : (o : Op) → List Char → Bool → Resp o → List Char → Bool → Prop
  | .rest, r, lag, resp, r', lag' => resp = r ∧ r' = r ∧ lag' = lag
  | .advance, r, _, resp, r', lag' =>
    match r with
    | [] => resp = none ∧ r' = [] ∧ lag' = false
    | c :: t => resp = some c ∧ r' = t ∧ lag' = (c == '\n')
  | .advanceBy n, r, _, _, r', lag' => r' = r.drop n ∧ lag' = false
  | .eatWhile p, r, _, _, r', lag' => r' = r.dropWhile p ∧ lag' = false
  | .addLine, r, _, _, r', lag' => r' = r ∧ lag' = false
  | .rollback, _, _, _, _, lag' => lag' = false
  | .panic _, _, _, _, _, _ => False
  | _, r, lag, _, r', lag' => r' = r ∧ lag' = lag

def awp {α : Type} : Prog α → (α → List Char → Bool → Prop) → List Char → Bool → Prop
  | .ret a, Q, r, lag => Q a r lag
  | .op o k, Q, r, lag =>
    dOk o r lag ∧ ∀ (resp : Resp o) (r' : List Char) (lag' : Bool), dPost o r lag resp r' lag' → awp (k resp) Q r' lag'

namespace awp
variable {α β : Type}

theorem mono {p : Prog α} {Q Q' : α → List Char → Bool → Prop} (hQ : ∀ a r l, Q a r l → Q' a r l) :
    ∀ {r lag}, awp p Q r lag → awp p Q' r lag := by
  induction p with
  | ret a => intro r lag h; exact hQ _ _ _ h
  | op o k ih => intro r lag h; exact ⟨h.1, fun resp r' lag' hp => ih resp (h.2 resp r' lag' hp)⟩

theorem bind_iff {p : Prog α} {f : α → Prog β} {Q : β → List Char → Bool → Prop} :
    ∀ {r lag}, awp (p >>= f) Q r lag ↔ awp p (fun a r' lag' => awp (f a) Q r' lag') r lag := by
  induction p with
  | ret a => intro r lag; exact Iff.rfl
  | op o k ih =>
    intro r lag
    constructor
    · intro h; exact ⟨h.1, fun resp r' lag' hp => (ih resp).1 (h.2 resp r' lag' hp)⟩
    · intro h; exact ⟨h.1, fun resp r' lag' hp => (ih resp).2 (h.2 resp r' lag' hp)⟩

@[simp] theorem pure_iff {a : α} {Q : α → List Char → Bool → Prop} {r lag} :
    awp (pure a : Prog α) Q r lag ↔ Q a r lag := Iff.rfl

@[simp] theorem ret_iff {a : α} {Q : α → List Char → Bool → Prop} {r lag} :
    awp (Prog.ret a) Q r lag ↔ Q a r lag := Iff.rfl

theorem op_iff {o : Op} {k : Resp o → Prog α} {Q : α → List Char → Bool → Prop} {r lag} :
    awp (Prog.op o k) Q r lag ↔
      dOk o r lag ∧ ∀ (resp : Resp o) (r' : List Char) (lag' : Bool), dPost o r lag resp r' lag' → awp (k resp) Q r' lag' :=
  Iff.rfl

/-! ### one rule per kind of operation -/
section rules
variable {Q : α → List Char → Bool → Prop} {r : List Char} {lag : Bool}

theorem op_det {o : Op} {k : Resp o → Prog α} (resp0 : Resp o) (r0 : List Char) (lag0 : Bool)
    (h : ∀ resp r' lag', dPost o r lag resp r' lag' ↔ resp = resp0 ∧ r' = r0 ∧ lag' = lag0) :
    awp (Prog.op o k) Q r lag ↔ dOk o r lag ∧ awp (k resp0) Q r0 lag0 := by
  rw [op_iff]
  constructor
  · rintro ⟨h1, h2⟩; exact ⟨h1, h2 _ _ _ ((h _ _ _).2 ⟨rfl, rfl, rfl⟩)⟩
  · rintro ⟨h1, h2⟩
    refine ⟨h1, fun resp r' lag' hp => ?_⟩
    obtain ⟨rfl, rfl, rfl⟩ := (h _ _ _).1 hp
    exact h2

@[awp_simp] theorem op_rest {k : Resp .rest → Prog α} :
    awp (Prog.op .rest k) Q r lag ↔ awp (k r) Q r lag := by
  rw [op_det r r lag (fun _ _ _ => Iff.rfl)]
  simp [dOk, Op.isRead]

@[awp_simp] theorem op_advance {k : Resp .advance → Prog α} :
    awp (Prog.op .advance k) Q r lag ↔
      lag = false ∧ (match r with
        | [] => awp (k none) Q [] false
        | c :: t => (c = '\n' → awp (k (some '\n')) Q t true) ∧ (c ≠ '\n' → awp (k (some c)) Q t false)) := by
  cases r with
  | nil => rw [op_det none [] false (fun _ _ _ => Iff.rfl)]; simp [dOk, Op.isRead]
  | cons c t =>
    rw [op_det (some c) t (c == '\n') (fun _ _ _ => Iff.rfl)]
    by_cases hc : c = '\n'
    · subst hc; simp [dOk, Op.isRead]
    · have : (c == '\n') = false := by simp [hc]
      simp [dOk, Op.isRead, hc, this]

@[awp_simp] theorem op_addLine {k : Resp .addLine → Prog α} :
    awp (Prog.op .addLine k) Q r lag ↔ lag = true ∧ awp (k ()) Q r false := by
  rw [op_det () r false (fun _ _ _ => by simp [dPost])]; simp [dOk]

@[awp_simp] theorem op_advanceBy {n : Nat} {k : Resp (.advanceBy n) → Prog α} :
    awp (Prog.op (.advanceBy n) k) Q r lag ↔
      (lag = false ∧ ∀ c ∈ r.take n, c ≠ '\n') ∧ awp (k ()) Q (r.drop n) false := by
  rw [op_det () (r.drop n) false (fun _ _ _ => by simp [dPost])]; simp [dOk]

@[awp_simp] theorem op_eatWhile {p : Char → Bool} {k : Resp (.eatWhile p) → Prog α} :
    awp (Prog.op (.eatWhile p) k) Q r lag ↔
      (lag = false ∧ p '\n' = false) ∧ awp (k ()) Q (r.dropWhile p) false := by
  rw [op_det () (r.dropWhile p) false (fun _ _ _ => by simp [dPost])]; simp [dOk]

@[awp_simp] theorem op_rollback {k : Resp .rollback → Prog α} :
    awp (Prog.op .rollback k) Q r lag ↔ lag = false ∧ ∀ r', awp (k ()) Q r' false := by
  rw [op_iff]
  constructor
  · rintro ⟨h1, h2⟩
    have : lag = false := by simpa [dOk, Op.isRead] using h1
    exact ⟨this, fun r' => h2 () r' false rfl⟩
  · rintro ⟨h1, h2⟩
    refine ⟨by simp [dOk, Op.isRead, h1], fun resp r' lag' hp => ?_⟩
    have : lag' = false := hp
    subst this; exact h2 r'

/-- an operation that leaves the cursor alone, is no read and returns nothing -/
theorem op_unit {o : Op} {k : Resp o → Prog α} (u : Resp o) (hu : ∀ x : Resp o, x = u)
    (hp : ∀ resp r' lag', dPost o r lag resp r' lag' ↔ r' = r ∧ lag' = lag)
    (hl : dOk o r lag → lag = false) :
    awp (Prog.op o k) Q r lag ↔ dOk o r lag ∧ awp (k u) Q r false := by
  rw [op_iff]
  constructor
  · rintro ⟨h1, h2⟩; have := h2 u r lag ((hp _ _ _).2 ⟨rfl, rfl⟩); rw [hl h1] at this; exact ⟨h1, this⟩
  · rintro ⟨h1, h2⟩
    refine ⟨h1, fun resp r' lag' h => ?_⟩
    obtain ⟨rfl, rfl⟩ := (hp _ _ _).1 h
    rw [hu resp, hl h1]; exact h2

@[awp_simp] theorem op_emitToken {ch ty p} {k : Resp (.emitToken ch ty p) → Prog α} :
    awp (Prog.op (.emitToken ch ty p) k) Q r lag ↔ (lag = false ∧ ty ≠ .EOF) ∧ awp (k ()) Q r false :=
  by
  refine (op_unit () (fun _ => rfl) (fun _ _ _ => Iff.rfl) ?_).trans Iff.rfl
  intro h; exact And.left h

@[awp_simp] theorem op_emitTokenAtMark {ch ty p} {k : Resp (.emitTokenAtMark ch ty p) → Prog α} :
    awp (Prog.op (.emitTokenAtMark ch ty p) k) Q r lag ↔ (lag = false ∧ ty ≠ .EOF) ∧ awp (k ()) Q r false :=
  by
  refine (op_unit () (fun _ => rfl) (fun _ _ _ => Iff.rfl) ?_).trans Iff.rfl
  intro h; exact And.left h

@[awp_simp] theorem op_updateLastToken {ch ty p} {k : Resp (.updateLastToken ch ty p) → Prog α} :
    awp (Prog.op (.updateLastToken ch ty p) k) Q r lag ↔ (lag = false ∧ ty ≠ .EOF) ∧ awp (k ()) Q r false :=
  by
  refine (op_unit () (fun _ => rfl) (fun _ _ _ => Iff.rfl) ?_).trans Iff.rfl
  intro h; exact And.left h

/-- an operation that leaves the cursor alone and is no read: any response -/
theorem op_other {o : Op} {k : Resp o → Prog α}
    (hp : ∀ resp r' lag', dPost o r lag resp r' lag' ↔ r' = r ∧ lag' = lag)
    (hl : dOk o r lag → lag = false) :
    awp (Prog.op o k) Q r lag ↔ dOk o r lag ∧ ∀ resp, awp (k resp) Q r false := by
  rw [op_iff]
  constructor
  · rintro ⟨h1, h2⟩
    refine ⟨h1, fun resp => ?_⟩
    have := h2 resp r lag ((hp _ _ _).2 ⟨rfl, rfl⟩); rw [hl h1] at this; exact this
  · rintro ⟨h1, h2⟩
    refine ⟨h1, fun resp r' lag' h => ?_⟩
    obtain ⟨rfl, rfl⟩ := (hp _ _ _).1 h
    rw [hl h1]; exact h2 resp

@[awp_simp] theorem op_retypeLastDefault {e n} {k : Resp (.retypeLastDefault e n) → Prog α} :
    awp (Prog.op (.retypeLastDefault e n) k) Q r lag ↔
      (lag = false ∧ n ≠ .EOF) ∧ ∀ b, awp (k b) Q r false :=
  by
  refine (op_other (fun _ _ _ => Iff.rfl) ?_).trans Iff.rfl
  intro h; exact And.left h

/-- a read: any response, nothing changes -/
theorem op_read {o : Op} {k : Resp o → Prog α} (ho : o.isRead = true) (hne : o ≠ .rest) :
    awp (Prog.op o k) Q r lag ↔ ∀ resp, awp (k resp) Q r lag := by
  cases o <;> simp [Op.isRead] at ho <;> first | exact absurd rfl hne | (simp [op_iff, dOk, dPost, Op.isRead])

@[awp_simp] theorem op_lastTok {k : Resp .lastTok → Prog α} :
    awp (Prog.op .lastTok k) Q r lag ↔ ∀ resp, awp (k resp) Q r lag :=
  op_read rfl (by simp)

@[awp_simp] theorem op_lastDefaultTok {k : Resp .lastDefaultTok → Prog α} :
    awp (Prog.op .lastDefaultTok k) Q r lag ↔ ∀ resp, awp (k resp) Q r lag :=
  op_read rfl (by simp)

@[awp_simp] theorem op_secondLastDefaultTok {k : Resp .secondLastDefaultTok → Prog α} :
    awp (Prog.op .secondLastDefaultTok k) Q r lag ↔ ∀ resp, awp (k resp) Q r lag :=
  op_read rfl (by simp)

@[awp_simp] theorem op_hasCheckpoint {k : Resp .hasCheckpoint → Prog α} :
    awp (Prog.op .hasCheckpoint k) Q r lag ↔ ∀ resp, awp (k resp) Q r lag :=
  op_read rfl (by simp)

@[awp_simp] theorem op_nesting {k : Resp .nesting → Prog α} :
    awp (Prog.op .nesting k) Q r lag ↔ ∀ resp, awp (k resp) Q r lag :=
  op_read rfl (by simp)

@[awp_simp] theorem op_modeDepth {k : Resp .modeDepth → Prog α} :
    awp (Prog.op .modeDepth k) Q r lag ↔ ∀ resp, awp (k resp) Q r lag :=
  op_read rfl (by simp)

@[awp_simp] theorem op_hasMark {k : Resp .hasMark → Prog α} :
    awp (Prog.op .hasMark k) Q r lag ↔ ∀ resp, awp (k resp) Q r lag :=
  op_read rfl (by simp)

@[awp_simp] theorem op_litIsEmpty {k : Resp .litIsEmpty → Prog α} :
    awp (Prog.op .litIsEmpty k) Q r lag ↔ ∀ resp, awp (k resp) Q r lag :=
  op_read rfl (by simp)

@[awp_simp] theorem op_loopProbe {k : Resp .loopProbe → Prog α} :
    awp (Prog.op .loopProbe k) Q r lag ↔ ∀ resp, awp (k resp) Q r lag :=
  op_read rfl (by simp)

@[awp_simp] theorem op_dassert {c m} {k : Resp (.dassert c m) → Prog α} :
    awp (Prog.op (.dassert c m) k) Q r lag ↔ awp (k ()) Q r lag := by
  rw [op_read rfl (by simp)]
  exact ⟨fun h => h (), fun h _ => h⟩

@[awp_simp] theorem op_startToken {k : Resp .startToken → Prog α} :
    awp (Prog.op .startToken k) Q r lag ↔ lag = false ∧ ∀ resp, awp (k resp) Q r false := by
  refine (op_other (fun _ _ _ => Iff.rfl) ?_).trans ?_
  · intro h; simpa [dOk, Op.isRead] using h
  · simp [dOk, Op.isRead]

@[awp_simp] theorem op_markIfNone {k : Resp .markIfNone → Prog α} :
    awp (Prog.op .markIfNone k) Q r lag ↔ lag = false ∧ ∀ resp, awp (k resp) Q r false := by
  refine (op_other (fun _ _ _ => Iff.rfl) ?_).trans ?_
  · intro h; simpa [dOk, Op.isRead] using h
  · simp [dOk, Op.isRead]

@[awp_simp] theorem op_clearMark {k : Resp .clearMark → Prog α} :
    awp (Prog.op .clearMark k) Q r lag ↔ lag = false ∧ ∀ resp, awp (k resp) Q r false := by
  refine (op_other (fun _ _ _ => Iff.rfl) ?_).trans ?_
  · intro h; simpa [dOk, Op.isRead] using h
  · simp [dOk, Op.isRead]

@[awp_simp] theorem op_insertSepBeforeLastDefault {k : Resp .insertSepBeforeLastDefault → Prog α} :
    awp (Prog.op .insertSepBeforeLastDefault k) Q r lag ↔ lag = false ∧ ∀ resp, awp (k resp) Q r false := by
  refine (op_other (fun _ _ _ => Iff.rfl) ?_).trans ?_
  · intro h; simpa [dOk, Op.isRead] using h
  · simp [dOk, Op.isRead]

@[awp_simp] theorem op_emitError {e} {k : Resp (.emitError e) → Prog α} :
    awp (Prog.op (.emitError e) k) Q r lag ↔ lag = false ∧ ∀ resp, awp (k resp) Q r false := by
  refine (op_other (fun _ _ _ => Iff.rfl) ?_).trans ?_
  · intro h; simpa [dOk, Op.isRead] using h
  · simp [dOk, Op.isRead]

@[awp_simp] theorem op_prepError {e} {k : Resp (.prepError e) → Prog α} :
    awp (Prog.op (.prepError e) k) Q r lag ↔ lag = false ∧ ∀ resp, awp (k resp) Q r false := by
  refine (op_other (fun _ _ _ => Iff.rfl) ?_).trans ?_
  · intro h; simpa [dOk, Op.isRead] using h
  · simp [dOk, Op.isRead]

@[awp_simp] theorem op_emitPrepared {k : Resp .emitPrepared → Prog α} :
    awp (Prog.op .emitPrepared k) Q r lag ↔ lag = false ∧ ∀ resp, awp (k resp) Q r false := by
  refine (op_other (fun _ _ _ => Iff.rfl) ?_).trans ?_
  · intro h; simpa [dOk, Op.isRead] using h
  · simp [dOk, Op.isRead]

@[awp_simp] theorem op_pushMode {m} {k : Resp (.pushMode m) → Prog α} :
    awp (Prog.op (.pushMode m) k) Q r lag ↔ lag = false ∧ ∀ resp, awp (k resp) Q r false := by
  refine (op_other (fun _ _ _ => Iff.rfl) ?_).trans ?_
  · intro h; simpa [dOk, Op.isRead] using h
  · simp [dOk, Op.isRead]

@[awp_simp] theorem op_popMode {k : Resp .popMode → Prog α} :
    awp (Prog.op .popMode k) Q r lag ↔ lag = false ∧ ∀ resp, awp (k resp) Q r false := by
  refine (op_other (fun _ _ _ => Iff.rfl) ?_).trans ?_
  · intro h; simpa [dOk, Op.isRead] using h
  · simp [dOk, Op.isRead]

@[awp_simp] theorem op_mode {k : Resp .mode → Prog α} :
    awp (Prog.op .mode k) Q r lag ↔ lag = false ∧ ∀ resp, awp (k resp) Q r false := by
  refine (op_other (fun _ _ _ => Iff.rfl) ?_).trans ?_
  · intro h; simpa [dOk, Op.isRead] using h
  · simp [dOk, Op.isRead]

@[awp_simp] theorem op_popModeRaw {k : Resp .popModeRaw → Prog α} :
    awp (Prog.op .popModeRaw k) Q r lag ↔ lag = false ∧ ∀ resp, awp (k resp) Q r false := by
  refine (op_other (fun _ _ _ => Iff.rfl) ?_).trans ?_
  · intro h; simpa [dOk, Op.isRead] using h
  · simp [dOk, Op.isRead]

@[awp_simp] theorem op_modifyTop {f} {k : Resp (.modifyTop f) → Prog α} :
    awp (Prog.op (.modifyTop f) k) Q r lag ↔ lag = false ∧ ∀ resp, awp (k resp) Q r false := by
  refine (op_other (fun _ _ _ => Iff.rfl) ?_).trans ?_
  · intro h; simpa [dOk, Op.isRead] using h
  · simp [dOk, Op.isRead]

@[awp_simp] theorem op_modifyAt {i f} {k : Resp (.modifyAt i f) → Prog α} :
    awp (Prog.op (.modifyAt i f) k) Q r lag ↔ lag = false ∧ ∀ resp, awp (k resp) Q r false := by
  refine (op_other (fun _ _ _ => Iff.rfl) ?_).trans ?_
  · intro h; simpa [dOk, Op.isRead] using h
  · simp [dOk, Op.isRead]

@[awp_simp] theorem op_insertModeAt {i m} {k : Resp (.insertModeAt i m) → Prog α} :
    awp (Prog.op (.insertModeAt i m) k) Q r lag ↔ lag = false ∧ ∀ resp, awp (k resp) Q r false := by
  refine (op_other (fun _ _ _ => Iff.rfl) ?_).trans ?_
  · intro h; simpa [dOk, Op.isRead] using h
  · simp [dOk, Op.isRead]

@[awp_simp] theorem op_checkpoint {k : Resp .checkpoint → Prog α} :
    awp (Prog.op .checkpoint k) Q r lag ↔ lag = false ∧ ∀ resp, awp (k resp) Q r false := by
  refine (op_other (fun _ _ _ => Iff.rfl) ?_).trans ?_
  · intro h; simpa [dOk, Op.isRead] using h
  · simp [dOk, Op.isRead]

@[awp_simp] theorem op_clearCheckpoint {k : Resp .clearCheckpoint → Prog α} :
    awp (Prog.op .clearCheckpoint k) Q r lag ↔ lag = false ∧ ∀ resp, awp (k resp) Q r false := by
  refine (op_other (fun _ _ _ => Iff.rfl) ?_).trans ?_
  · intro h; simpa [dOk, Op.isRead] using h
  · simp [dOk, Op.isRead]

@[awp_simp] theorem op_bumpCheckpointModeLen {n} {k : Resp (.bumpCheckpointModeLen n) → Prog α} :
    awp (Prog.op (.bumpCheckpointModeLen n) k) Q r lag ↔ lag = false ∧ ∀ resp, awp (k resp) Q r false := by
  refine (op_other (fun _ _ _ => Iff.rfl) ?_).trans ?_
  · intro h; simpa [dOk, Op.isRead] using h
  · simp [dOk, Op.isRead]

@[awp_simp] theorem op_pushPending {b} {k : Resp (.pushPending b) → Prog α} :
    awp (Prog.op (.pushPending b) k) Q r lag ↔ lag = false ∧ ∀ resp, awp (k resp) Q r false := by
  refine (op_other (fun _ _ _ => Iff.rfl) ?_).trans ?_
  · intro h; simpa [dOk, Op.isRead] using h
  · simp [dOk, Op.isRead]

@[awp_simp] theorem op_popPending {k : Resp .popPending → Prog α} :
    awp (Prog.op .popPending k) Q r lag ↔ lag = false ∧ ∀ resp, awp (k resp) Q r false := by
  refine (op_other (fun _ _ _ => Iff.rfl) ?_).trans ?_
  · intro h; simpa [dOk, Op.isRead] using h
  · simp [dOk, Op.isRead]

@[awp_simp] theorem op_pendingStat {k : Resp .pendingStat → Prog α} :
    awp (Prog.op .pendingStat k) Q r lag ↔ lag = false ∧ ∀ resp, awp (k resp) Q r false := by
  refine (op_other (fun _ _ _ => Iff.rfl) ?_).trans ?_
  · intro h; simpa [dOk, Op.isRead] using h
  · simp [dOk, Op.isRead]

@[awp_simp] theorem op_setPending {b} {k : Resp (.setPending b) → Prog α} :
    awp (Prog.op (.setPending b) k) Q r lag ↔ lag = false ∧ ∀ resp, awp (k resp) Q r false := by
  refine (op_other (fun _ _ _ => Iff.rfl) ?_).trans ?_
  · intro h; simpa [dOk, Op.isRead] using h
  · simp [dOk, Op.isRead]

@[awp_simp] theorem op_nestInc {k : Resp .nestInc → Prog α} :
    awp (Prog.op .nestInc k) Q r lag ↔ lag = false ∧ ∀ resp, awp (k resp) Q r false := by
  refine (op_other (fun _ _ _ => Iff.rfl) ?_).trans ?_
  · intro h; simpa [dOk, Op.isRead] using h
  · simp [dOk, Op.isRead]

@[awp_simp] theorem op_nestDec {k : Resp .nestDec → Prog α} :
    awp (Prog.op .nestDec k) Q r lag ↔ lag = false ∧ ∀ resp, awp (k resp) Q r false := by
  refine (op_other (fun _ _ _ => Iff.rfl) ?_).trans ?_
  · intro h; simpa [dOk, Op.isRead] using h
  · simp [dOk, Op.isRead]

@[awp_simp] theorem op_litBegin {k : Resp .litBegin → Prog α} :
    awp (Prog.op .litBegin k) Q r lag ↔ lag = false ∧ ∀ resp, awp (k resp) Q r false := by
  refine (op_other (fun _ _ _ => Iff.rfl) ?_).trans ?_
  · intro h; simpa [dOk, Op.isRead] using h
  · simp [dOk, Op.isRead]

@[awp_simp] theorem op_litBeginAtTok {k : Resp .litBeginAtTok → Prog α} :
    awp (Prog.op .litBeginAtTok k) Q r lag ↔ lag = false ∧ ∀ resp, awp (k resp) Q r false := by
  refine (op_other (fun _ _ _ => Iff.rfl) ?_).trans ?_
  · intro h; simpa [dOk, Op.isRead] using h
  · simp [dOk, Op.isRead]

@[awp_simp] theorem op_litCut {k : Resp .litCut → Prog α} :
    awp (Prog.op .litCut k) Q r lag ↔ lag = false ∧ ∀ resp, awp (k resp) Q r false := by
  refine (op_other (fun _ _ _ => Iff.rfl) ?_).trans ?_
  · intro h; simpa [dOk, Op.isRead] using h
  · simp [dOk, Op.isRead]

@[awp_simp] theorem op_litMarkEnd {k : Resp .litMarkEnd → Prog α} :
    awp (Prog.op .litMarkEnd k) Q r lag ↔ lag = false ∧ ∀ resp, awp (k resp) Q r false := by
  refine (op_other (fun _ _ _ => Iff.rfl) ?_).trans ?_
  · intro h; simpa [dOk, Op.isRead] using h
  · simp [dOk, Op.isRead]

@[awp_simp] theorem op_litResolve {n} {k : Resp (.litResolve n) → Prog α} :
    awp (Prog.op (.litResolve n) k) Q r lag ↔ lag = false ∧ ∀ resp, awp (k resp) Q r false := by
  refine (op_other (fun _ _ _ => Iff.rfl) ?_).trans ?_
  · intro h; simpa [dOk, Op.isRead] using h
  · simp [dOk, Op.isRead]

@[awp_simp] theorem op_litAddDecoded {cs} {k : Resp (.litAddDecoded cs) → Prog α} :
    awp (Prog.op (.litAddDecoded cs) k) Q r lag ↔ lag = false ∧ ∀ resp, awp (k resp) Q r false := by
  refine (op_other (fun _ _ _ => Iff.rfl) ?_).trans ?_
  · intro h; simpa [dOk, Op.isRead] using h
  · simp [dOk, Op.isRead]

@[awp_simp] theorem op_payClear {k : Resp .payClear → Prog α} :
    awp (Prog.op .payClear k) Q r lag ↔ lag = false ∧ ∀ resp, awp (k resp) Q r false := by
  refine (op_other (fun _ _ _ => Iff.rfl) ?_).trans ?_
  · intro h; simpa [dOk, Op.isRead] using h
  · simp [dOk, Op.isRead]

/-- an unconditional panic ends the run: nothing is demanded of what follows -/
@[awp_simp] theorem op_panic {m} {k : Resp (.panic m) → Prog α} :
    awp (Prog.op (.panic m) k) Q r lag ↔ True := by
  rw [op_iff]
  simp [dOk, dPost]

@[awp_simp] theorem op_pendingText {k : Resp .pendingText → Prog α} :
    awp (Prog.op .pendingText k) Q r lag ↔ lag = false ∧ ∀ resp, awp (k resp) Q r false := by
  refine (op_other (fun _ _ _ => Iff.rfl) ?_).trans ?_
  · intro h; simpa [dOk, Op.isRead] using h
  · simp [dOk, Op.isRead]

@[awp_simp] theorem op_pendingTextToMark {k : Resp .pendingTextToMark → Prog α} :
    awp (Prog.op .pendingTextToMark k) Q r lag ↔ lag = false ∧ ∀ resp, awp (k resp) Q r false := by
  refine (op_other (fun _ _ _ => Iff.rfl) ?_).trans ?_
  · intro h; simpa [dOk, Op.isRead] using h
  · simp [dOk, Op.isRead]

@[awp_simp] theorem op_pendingTextWithPrev {k : Resp .pendingTextWithPrev → Prog α} :
    awp (Prog.op .pendingTextWithPrev k) Q r lag ↔ lag = false ∧ ∀ resp, awp (k resp) Q r false := by
  refine (op_other (fun _ _ _ => Iff.rfl) ?_).trans ?_
  · intro h; simpa [dOk, Op.isRead] using h
  · simp [dOk, Op.isRead]

@[awp_simp] theorem ite_iff {c : Prop} [Decidable c] {p q : Prog α} :
    awp (if c then p else q) Q r lag ↔ if c then awp p Q r lag else awp q Q r lag := by
  split <;> rfl

end rules

attribute [awp_simp] bind_iff pure_iff ret_iff

end awp

attribute [irreducible] awp

/-- symbolic evaluation of `awp`: push it through binds, operations and `if`, split `match`es -/
macro "awp_eval" : tactic => `(tactic| repeat (first
  | (simp only [awp_simp, List.head?_cons, List.head?_nil, List.drop_succ_cons, List.drop_zero, List.drop_nil,
      Option.getD_some, Option.getD_none])
  | split))


/-! ## `Inert`: programs that neither move the cursor nor emit `EOF` (mode-stack bookkeeping,
look-behind, errors, ordinary tokens).  Proved by rule application, so that large pre-loaders do
not duplicate their continuation. -/

def Inert {α : Type} (p : Prog α) : Prop :=
  ∀ (Q : α → List Char → Bool → Prop) (r : List Char), (∀ a, Q a r false) → awp p Q r false

namespace Inert
variable {α β : Type}

theorem pure (a : α) : Inert (Pure.pure a : Prog α) := fun _ _ hQ => awp.pure_iff.2 (hQ a)

theorem bind {p : Prog α} {f : α → Prog β} (hp : Inert p) (hf : ∀ a, Inert (f a)) : Inert (p >>= f) := by
  intro Q r hQ
  rw [awp.bind_iff]
  exact hp _ r (fun a => hf a Q r hQ)

theorem ite {c : Prop} [Decidable c] {p q : Prog α} (hp : Inert p) (hq : Inert q) : Inert (if c then p else q) := by
  split <;> assumption

theorem awp' {p : Prog α} (h : Inert p) {Q : α → List Char → Bool → Prop} {r : List Char}
    (hQ : ∀ a, Q a r false) : awp p Q r false := h Q r hQ

theorem startToken  : Inert (Prog.perform .startToken) := by
  intro Q r hQ; simp only [Prog.perform, awp_simp]; simp [hQ]

theorem markIfNone  : Inert (Prog.perform .markIfNone) := by
  intro Q r hQ; simp only [Prog.perform, awp_simp]; simp [hQ]

theorem clearMark  : Inert (Prog.perform .clearMark) := by
  intro Q r hQ; simp only [Prog.perform, awp_simp]; simp [hQ]

theorem insertSepBeforeLastDefault  : Inert (Prog.perform .insertSepBeforeLastDefault) := by
  intro Q r hQ; simp only [Prog.perform, awp_simp]; simp [hQ]

theorem emitError {e} : Inert (Prog.perform (.emitError e)) := by
  intro Q r hQ; simp only [Prog.perform, awp_simp]; simp [hQ]

theorem prepError {e} : Inert (Prog.perform (.prepError e)) := by
  intro Q r hQ; simp only [Prog.perform, awp_simp]; simp [hQ]

theorem emitPrepared  : Inert (Prog.perform .emitPrepared) := by
  intro Q r hQ; simp only [Prog.perform, awp_simp]; simp [hQ]

theorem pushMode {m} : Inert (Prog.perform (.pushMode m)) := by
  intro Q r hQ; simp only [Prog.perform, awp_simp]; simp [hQ]

theorem popMode  : Inert (Prog.perform .popMode) := by
  intro Q r hQ; simp only [Prog.perform, awp_simp]; simp [hQ]

theorem mode  : Inert (Prog.perform .mode) := by
  intro Q r hQ; simp only [Prog.perform, awp_simp]; simp [hQ]

theorem popModeRaw  : Inert (Prog.perform .popModeRaw) := by
  intro Q r hQ; simp only [Prog.perform, awp_simp]; simp [hQ]

theorem modifyTop {f} : Inert (Prog.perform (.modifyTop f)) := by
  intro Q r hQ; simp only [Prog.perform, awp_simp]; simp [hQ]

theorem modifyAt {i} {f} : Inert (Prog.perform (.modifyAt i f)) := by
  intro Q r hQ; simp only [Prog.perform, awp_simp]; simp [hQ]

theorem insertModeAt {i} {m} : Inert (Prog.perform (.insertModeAt i m)) := by
  intro Q r hQ; simp only [Prog.perform, awp_simp]; simp [hQ]

theorem checkpoint  : Inert (Prog.perform .checkpoint) := by
  intro Q r hQ; simp only [Prog.perform, awp_simp]; simp [hQ]

theorem clearCheckpoint  : Inert (Prog.perform .clearCheckpoint) := by
  intro Q r hQ; simp only [Prog.perform, awp_simp]; simp [hQ]

theorem bumpCheckpointModeLen {n} : Inert (Prog.perform (.bumpCheckpointModeLen n)) := by
  intro Q r hQ; simp only [Prog.perform, awp_simp]; simp [hQ]

theorem pushPending {b} : Inert (Prog.perform (.pushPending b)) := by
  intro Q r hQ; simp only [Prog.perform, awp_simp]; simp [hQ]

theorem popPending  : Inert (Prog.perform .popPending) := by
  intro Q r hQ; simp only [Prog.perform, awp_simp]; simp [hQ]

theorem pendingStat  : Inert (Prog.perform .pendingStat) := by
  intro Q r hQ; simp only [Prog.perform, awp_simp]; simp [hQ]

theorem setPending {b} : Inert (Prog.perform (.setPending b)) := by
  intro Q r hQ; simp only [Prog.perform, awp_simp]; simp [hQ]

theorem nestInc  : Inert (Prog.perform .nestInc) := by
  intro Q r hQ; simp only [Prog.perform, awp_simp]; simp [hQ]

theorem nestDec  : Inert (Prog.perform .nestDec) := by
  intro Q r hQ; simp only [Prog.perform, awp_simp]; simp [hQ]

theorem litBegin  : Inert (Prog.perform .litBegin) := by
  intro Q r hQ; simp only [Prog.perform, awp_simp]; simp [hQ]

theorem litBeginAtTok  : Inert (Prog.perform .litBeginAtTok) := by
  intro Q r hQ; simp only [Prog.perform, awp_simp]; simp [hQ]

theorem litCut  : Inert (Prog.perform .litCut) := by
  intro Q r hQ; simp only [Prog.perform, awp_simp]; simp [hQ]

theorem litMarkEnd  : Inert (Prog.perform .litMarkEnd) := by
  intro Q r hQ; simp only [Prog.perform, awp_simp]; simp [hQ]

theorem litResolve {n} : Inert (Prog.perform (.litResolve n)) := by
  intro Q r hQ; simp only [Prog.perform, awp_simp]; simp [hQ]

theorem litAddDecoded {cs} : Inert (Prog.perform (.litAddDecoded cs)) := by
  intro Q r hQ; simp only [Prog.perform, awp_simp]; simp [hQ]

theorem payClear  : Inert (Prog.perform .payClear) := by
  intro Q r hQ; simp only [Prog.perform, awp_simp]; simp [hQ]

theorem panic {m} : Inert (Prog.perform (.panic m)) := by
  intro Q r hQ; simp only [Prog.perform, awp_simp]

theorem pendingText  : Inert (Prog.perform .pendingText) := by
  intro Q r hQ; simp only [Prog.perform, awp_simp]; simp [hQ]

theorem pendingTextToMark  : Inert (Prog.perform .pendingTextToMark) := by
  intro Q r hQ; simp only [Prog.perform, awp_simp]; simp [hQ]

theorem pendingTextWithPrev  : Inert (Prog.perform .pendingTextWithPrev) := by
  intro Q r hQ; simp only [Prog.perform, awp_simp]; simp [hQ]

theorem lastTok  : Inert (Prog.perform .lastTok) := by
  intro Q r hQ; simp only [Prog.perform, awp_simp]; simp [hQ]

theorem lastDefaultTok  : Inert (Prog.perform .lastDefaultTok) := by
  intro Q r hQ; simp only [Prog.perform, awp_simp]; simp [hQ]

theorem secondLastDefaultTok  : Inert (Prog.perform .secondLastDefaultTok) := by
  intro Q r hQ; simp only [Prog.perform, awp_simp]; simp [hQ]

theorem hasCheckpoint  : Inert (Prog.perform .hasCheckpoint) := by
  intro Q r hQ; simp only [Prog.perform, awp_simp]; simp [hQ]

theorem nesting  : Inert (Prog.perform .nesting) := by
  intro Q r hQ; simp only [Prog.perform, awp_simp]; simp [hQ]

theorem modeDepth  : Inert (Prog.perform .modeDepth) := by
  intro Q r hQ; simp only [Prog.perform, awp_simp]; simp [hQ]

theorem hasMark  : Inert (Prog.perform .hasMark) := by
  intro Q r hQ; simp only [Prog.perform, awp_simp]; simp [hQ]

theorem litIsEmpty  : Inert (Prog.perform .litIsEmpty) := by
  intro Q r hQ; simp only [Prog.perform, awp_simp]; simp [hQ]

theorem loopProbe  : Inert (Prog.perform .loopProbe) := by
  intro Q r hQ; simp only [Prog.perform, awp_simp]; simp [hQ]

theorem dassert {c} {m} : Inert (Prog.perform (.dassert c m)) := by
  intro Q r hQ; simp only [Prog.perform, awp_simp]; simp [hQ]

theorem rest  : Inert (Prog.perform .rest) := by
  intro Q r hQ; simp only [Prog.perform, awp_simp]; simp [hQ]

theorem emitToken {ch ty p} (h : ty ≠ .EOF) : Inert (Prog.perform (.emitToken ch ty p)) := by
  intro Q r hQ; simp only [Prog.perform, awp_simp]; simp [hQ, h]

theorem emitTokenAtMark {ch ty p} (h : ty ≠ .EOF) : Inert (Prog.perform (.emitTokenAtMark ch ty p)) := by
  intro Q r hQ; simp only [Prog.perform, awp_simp]; simp [hQ, h]

theorem updateLastToken {ch ty p} (h : ty ≠ .EOF) : Inert (Prog.perform (.updateLastToken ch ty p)) := by
  intro Q r hQ; simp only [Prog.perform, awp_simp]; simp [hQ, h]

theorem retypeLastDefault {e n} (h : n ≠ .EOF) : Inert (Prog.perform (.retypeLastDefault e n)) := by
  intro Q r hQ; simp only [Prog.perform, awp_simp]; simp [hQ, h]

end Inert

attribute [irreducible] Inert

/-- prove `Inert p` by walking the program -/
macro "inert" : tactic => `(tactic| repeat' (first
  | (intro h; cases h; done)
  | intro _
  | apply Inert.bind | apply Inert.ite | apply Inert.pure
  | apply Inert.startToken
  | apply Inert.markIfNone
  | apply Inert.clearMark
  | apply Inert.insertSepBeforeLastDefault
  | apply Inert.emitError
  | apply Inert.prepError
  | apply Inert.emitPrepared
  | apply Inert.pushMode
  | apply Inert.popMode
  | apply Inert.mode
  | apply Inert.popModeRaw
  | apply Inert.modifyTop
  | apply Inert.modifyAt
  | apply Inert.insertModeAt
  | apply Inert.checkpoint
  | apply Inert.clearCheckpoint
  | apply Inert.bumpCheckpointModeLen
  | apply Inert.pushPending
  | apply Inert.popPending
  | apply Inert.pendingStat
  | apply Inert.setPending
  | apply Inert.nestInc
  | apply Inert.nestDec
  | apply Inert.litBegin
  | apply Inert.litBeginAtTok
  | apply Inert.litCut
  | apply Inert.litMarkEnd
  | apply Inert.litResolve
  | apply Inert.litAddDecoded
  | apply Inert.payClear
  | apply Inert.panic
  | apply Inert.pendingText
  | apply Inert.pendingTextToMark
  | apply Inert.pendingTextWithPrev
  | apply Inert.lastTok
  | apply Inert.lastDefaultTok
  | apply Inert.secondLastDefaultTok
  | apply Inert.hasCheckpoint
  | apply Inert.nesting
  | apply Inert.modeDepth
  | apply Inert.hasMark
  | apply Inert.litIsEmpty
  | apply Inert.loopProbe
  | apply Inert.dassert
  | apply Inert.rest
  | apply Inert.emitToken
  | apply Inert.emitTokenAtMark
  | apply Inert.updateLastToken
  | apply Inert.retypeLastDefault
  | split))

theorem ite_intro {c : Prop} [Decidable c] {P Q : Prop} (hp : c → P) (hq : ¬c → Q) : if c then P else Q := by
  split
  · exact hp ‹_›
  · exact hq ‹_›

/-- `awp_auto [callee lemmas]`: symbolic evaluation that also walks through the logical structure of
the evaluated condition and discharges calls with the given lemmas; leaves the leaf facts -/
syntax "awp_auto" "[" term,* "]" : tactic
macro_rules
  | `(tactic| awp_auto [$ls,*]) => `(tactic| repeat' (first
      | (intro h; first | (simp at h; done) | skip)
      | (simp only [awp_simp, List.head?_cons, List.head?_nil, List.drop_succ_cons, List.drop_zero, List.drop_nil,
          Option.getD_some, Option.getD_none])
      | (first $[| apply $ls]*)
      | refine ⟨?_, ?_⟩
      | apply ite_intro
      | split))

end SasLexer
