import SasLexer.Proofs.Model.CoverKernel
import SasLexer.Proofs.Model.CoverOpen
import SasLexer.Proofs.Model.DiscTop
/-!
# The first token of the modelled lexer starts at the end of the BOM (C02, model level, every input)
-/
namespace SasLexer
open Prog (perform)
open Lexer

def σ0 : CS := ⟨false, true, true, none, none, true⟩

theorem new_fields (cfg : Cfg) (s : List Char) :
    (Lexer.new cfg s).toksR = [] ∧ (Lexer.new cfg s).tok.start = bomChars s ∧ (Lexer.new cfg s).cur.charOff = bomChars s ∧
    (Lexer.new cfg s).mark = none ∧ (Lexer.new cfg s).cp = none ∧ (Lexer.new cfg s).modesR = [.default] := by
  rcases s with _ | ⟨c, t⟩
  · simp [Lexer.new, Lexer.skipBom, Cursor.new, Lexer.bufAddLine, bomChars]
  · by_cases hc : c = BOM
    · subst hc; simp [Lexer.new, Lexer.skipBom, Cursor.new, Cursor.advance, Lexer.bufAddLine, bomChars]
    · simp [Lexer.new, Lexer.skipBom, Cursor.new, Lexer.bufAddLine, bomChars, hc]

theorem new_CInv (cfg : Cfg) (s : List Char) : CInv σ0 (Lexer.new cfg s) := by
  obtain ⟨h1, h2, h3, h4, h5, _⟩ := new_fields cfg s
  exact { ne_iff := by simp [σ0, h1], first := by intro h; exact absurd h1 h, tokAt := fun _ => by rw [new_src]; exact h2,
          atS := fun _ => by rw [new_src]; exact h3, markNone := by simp [σ0, h4], markAt := by intro h; simp [σ0] at h,
          cp := by simp [σ0, CpRel, h5] }

theorem run_perform' (cfg : Cfg) (o : Op) (L : Lexer) (hp : (step cfg o L).2.panicked = none) :
    Prog.run cfg (Prog.perform o) L = (some (step cfg o L).1, (step cfg o L).2) := by
  rw [Prog.perform, run_op', hp]; rfl

/-- the state right before `into_detached` -/
def finalState (cfg : Cfg) (s : List Char) : Lexer :=
  (Prog.run cfg (finalizeLexing cfg)
    (Prog.run cfg (mainLoop cfg (budgetMul * (Lexer.new cfg s).srcLen + 64) 0 ((Lexer.new cfg s).srcLen, [Mode.default]))
      (Lexer.new cfg s)).2).2

theorem lexProgram_buf (cfg : Cfg) (s : List Char) (h : (lexProgram cfg s).ending = some .eof) :
    (lexProgram cfg s).buf = ((finalState cfg s).intoDetached cfg).1 ∧
    (Prog.run cfg (mainLoop cfg (budgetMul * (Lexer.new cfg s).srcLen + 64) 0 ((Lexer.new cfg s).srcLen, [Mode.default]))
      (Lexer.new cfg s)).1.isSome = true ∧ (finalState cfg s).panicked = none := by
  unfold finalState
  unfold lexProgram at h ⊢
  simp only at h ⊢
  generalize hR : Prog.run cfg (mainLoop cfg (budgetMul * (Lexer.new cfg s).srcLen + 64) 0 ((Lexer.new cfg s).srcLen, [Mode.default]))
    (Lexer.new cfg s) = R at h ⊢
  obtain ⟨ra, L1⟩ := R
  cases ra with
  | none => simp at h
  | some en =>
    obtain ⟨e, n⟩ := en
    simp only at h ⊢
    by_cases hdet : e = .detected
    · subst hdet
      simp only [beq_self_eq_true, if_true] at h
      split at h <;> simp at h
    · have hb : (e == LoopEnd.detected) = false := by simpa using hdet
      simp only [hb, Bool.false_eq_true, if_false] at h ⊢
      cases hp2 : (Prog.run cfg (finalizeLexing cfg) L1).2.panicked with
      | some m => simp [hp2] at h
      | none => simp [hp2]

theorem run_peek_bind (cfg : Cfg) {α : Type} (K : Option Char → Prog α) (L : Lexer) (hp : L.panicked = none) :
    Prog.run cfg (P.peek >>= K) L = Prog.run cfg (K L.cur.rest.head?) L := by
  show Prog.run cfg (Prog.op .rest fun r => K r.head?) L = _
  rw [run_op']
  simp only [step, hp]

theorem run_mode_bind (cfg : Cfg) {α : Type} (K : Mode → Prog α) (L : Lexer) (hp : L.panicked = none) (m : Mode) (ms : List Mode)
    (hm : L.modesR = m :: ms) : Prog.run cfg (P.mode >>= K) L = Prog.run cfg (K m) L := by
  show Prog.run cfg (Prog.op .mode fun r => K r) L = _
  rw [run_op']
  simp only [step, Lexer.mode, hm, hp]

theorem mainLoop_at_eof (cfg : Cfg) (f n : Nat) (last : Nat × List Mode) (L : Lexer) (hp : L.panicked = none)
    (hr : L.cur.rest = []) : Prog.run cfg (mainLoop cfg f n last) L = (some (.eof, n), L) := by
  cases f with
  | zero =>
    unfold mainLoop
    rw [run_peek_bind cfg _ L hp, hr]; rfl
  | succ f =>
    unfold mainLoop
    rw [run_peek_bind cfg _ L hp, hr]; rfl

theorem cpGood_σ0 : cpGood σ0 := by intro n t a h; simp [σ0] at h

/-- finalisation from a boundary state: afterwards the oldest token starts at the BOM end -/
theorem finalize_first (cfg : Cfg) (L : Lexer) (σ : CS) (hc : CInv σ L) (hk : KPos L) (hs : L.src.length < 4294967296)
    (hB : Bnd σ) (hp : L.panicked = none) (hp2 : (Prog.run cfg (finalizeLexing cfg) L).2.panicked = none) :
    ∃ t, (Prog.run cfg (finalizeLexing cfg) L).2.toksR.getLast? = some t ∧ t.start = bomChars L.src := by
  have hshape : finalizeLexing cfg = (Prog.perform .modeDepth >>= fun d =>
      (finalizeLoop cfg (d * 2 + 2) >>= fun _ => Prog.perform .emitEofAtCursor)) := rfl
  rw [hshape] at hp2 ⊢
  rw [run_bind, run_perform' cfg .modeDepth L (by simpa [step] using hp)] at hp2 ⊢
  simp only [step] at hp2 ⊢
  rw [run_bind] at hp2 ⊢
  generalize hR : Prog.run cfg (finalizeLoop cfg (L.modesR.length * 2 + 2)) L = R at hp2 ⊢
  obtain ⟨ra, L2⟩ := R
  cases ra with
  | none =>
    exfalso
    have := run_none_panicked cfg (finalizeLoop cfg (L.modesR.length * 2 + 2)) L (by rw [hR])
    rw [hR] at this
    exact this hp2
  | some a =>
    simp only at hp2 ⊢
    have hL2p : L2.panicked = none := by
      have := run_some_panicked cfg (finalizeLoop cfg (L.modesR.length * 2 + 2)) L a hp (by rw [hR])
      rw [hR] at this; exact this
    have hw : cwp (fun _ => True) (finalizeLoop cfg (L.modesR.length * 2 + 2)) (fun _ σ' => Bnd σ') σ :=
      finalizeLoop_bnd cfg _ _ hB (fun σ' h => h)
    obtain ⟨a', σ', _, hc2, hk2, hB2⟩ := cwp_sound cfg _ _ _ L σ hc hk hs (fun _ => trivial) hp hw (by rw [hR]; exact hL2p)
    rw [hR] at hc2 hk2
    simp only at hc2 hk2
    have hsrc2 : L2.src = L.src := by
      have := run_src cfg (finalizeLoop cfg (L.modesR.length * 2 + 2)) L
      rw [hR] at this; exact this
    rw [Prog.perform, run_op'] at hp2 ⊢
    cases hp3 : (step cfg .emitEofAtCursor L2).2.panicked with
    | some m => simp [hp3] at hp2
    | none =>
      simp only [hp3, Prog.run, step, Lexer.bufAddToken, lastLineOrAdd_toksR]
      cases hl : L2.toksR with
      | nil =>
        have hne : σ'.ne = false := by
          cases hn : σ'.ne with
          | false => rfl
          | true => exact absurd hl (hc2.ne_iff.1 hn)
        have hat : σ'.atS = true := by
          rcases hB2 with h | h
          · rw [hne] at h; cases h
          · exact h
        refine ⟨_, rfl, ?_⟩
        have := hc2.atS hat
        simp only [Lexer.curChar, lastLineOrAdd_cur2, List.getLast_singleton, this, hsrc2]
      | cons a b =>
        obtain ⟨t0, h0, h1⟩ := hc2.first (by simp [hl])
        rw [hl] at h0
        refine ⟨t0, ?_, by rw [h1, hsrc2]⟩
        rw [List.getLast?_cons_cons]; exact h0

set_option maxRecDepth 8000 in
/-- the oldest token of the final state starts at the BOM end -/
theorem finalState_first (cfg : Cfg) (s : List Char) (hlen : s.length < 4294967296)
    (hsome : (Prog.run cfg (mainLoop cfg (budgetMul * (Lexer.new cfg s).srcLen + 64) 0 ((Lexer.new cfg s).srcLen, [Mode.default]))
      (Lexer.new cfg s)).1.isSome = true)
    (hfin : (finalState cfg s).panicked = none) :
    ∃ t, (finalState cfg s).toksR.getLast? = some t ∧ t.start = bomChars s := by
  have hp0 := new_panicked cfg s
  have hk0 := new_KPos cfg s
  have hc0 := new_CInv cfg s
  obtain ⟨_, _, hch0, _, _, hm0⟩ := new_fields cfg s
  have hsrc0 : (Lexer.new cfg s).src.length < 4294967296 := by rw [new_src]; exact hlen
  unfold finalState at hfin ⊢
  have hB : budgetMul * (Lexer.new cfg s).srcLen + 64 = (budgetMul * (Lexer.new cfg s).srcLen + 63) + 1 := by omega
  rw [hB] at hsome hfin ⊢
  generalize hL0 : Lexer.new cfg s = L0 at *
  cases hrest : L0.cur.rest with
  | nil =>
    -- nothing after the BOM: the only token is the final `EOF`
    rw [mainLoop_at_eof cfg _ _ _ L0 hp0 hrest] at hfin ⊢
    simp only at hfin ⊢
    have hB0 : Bnd σ0 := Or.inr rfl
    have := finalize_first cfg L0 σ0 hc0 hk0 hsrc0 hB0 hp0 hfin
    rw [← hL0, new_src] at this
    rw [← hL0]; exact this
  | cons c t =>
    -- the first iteration runs the open-code dispatcher on the initial state
    have hsrcL0 : L0.src = s := by rw [← hL0, new_src]
    have hlt : Prog.run cfg (lexToken cfg c) L0 = Prog.run cfg (dispatchModeDefault cfg c) L0 := by
      unfold lexToken
      rw [run_mode_bind cfg _ L0 hp0 .default [] hm0]
    have hML : ∀ (f n : Nat) (last : Nat × List Mode),
        ((Prog.run cfg (dispatchModeDefault cfg c) L0).1 = none → (Prog.run cfg (mainLoop cfg (f + 1) n last) L0).1 = none) ∧
        (∀ a L1, Prog.run cfg (dispatchModeDefault cfg c) L0 = (some a, L1) →
          ∃ p : Prog (LoopEnd × Nat), Prog.run cfg (mainLoop cfg (f + 1) n last) L0 = Prog.run cfg p L1) := by
      intro f n last
      constructor
      · intro hnone
        conv => lhs; unfold mainLoop
        rw [run_peek_bind cfg _ L0 hp0, hrest]
        simp only [List.head?_cons]
        rw [run_bind, hlt]
        generalize Prog.run cfg (dispatchModeDefault cfg c) L0 = D at hnone
        obtain ⟨da, L1⟩ := D
        simp only at hnone
        subst hnone
        rfl
      · intro a L1 hD
        conv => enter [1, p, 1]; unfold mainLoop
        simp only [run_peek_bind cfg _ L0 hp0, hrest, List.head?_cons]
        simp only [run_bind, hlt, hD]
        exact ⟨_, rfl⟩
    obtain ⟨hMLn, hMLs⟩ := hML (budgetMul * L0.srcLen + 63) 0 (L0.srcLen, [Mode.default])
    cases hD : Prog.run cfg (dispatchModeDefault cfg c) L0 with
    | mk da L1 =>
    cases da with
    | none =>
      have := hMLn (by rw [hD])
      rw [this] at hsome; simp at hsome
    | some a =>
      obtain ⟨p, hp⟩ := hMLs a L1 hD
      rw [hp] at hfin ⊢
      have hL1p : L1.panicked = none := by
        have := run_some_panicked cfg (dispatchModeDefault cfg c) L0 a hp0 (by rw [hD])
        rw [hD] at this; exact this
      have hw := dispatchModeDefault_cov cfg c (σ := σ0) (Q := fun _ σ' => σ'.ne = true ∧ cpGood σ') rfl (Or.inr rfl)
        cpGood_σ0 (fun _ σ' h1 h2 => ⟨h1, h2⟩)
      obtain ⟨a', σ', _, hc1, hk1, hne1, hg1⟩ := cwp_sound cfg _ _ _ L0 σ0 hc0 hk0 hsrc0
        (fun _ => by simp [hrest]) hp0 hw (by rw [hD]; exact hL1p)
      rw [hD] at hc1 hk1
      simp only at hc1 hk1
      have hold1 : KOld L1 := KOld.of_CInv hc1 hne1 hg1
      have hsrc1 : L1.src = s := by
        have := run_src cfg (dispatchModeDefault cfg c) L0
        rw [hD] at this; rw [this, hsrcL0]
      have hold2 := run_KOld cfg (finalizeLexing cfg) _ (run_KOld cfg p L1 hold1)
      obtain ⟨t0, h0, h1⟩ := hold2.first
      refine ⟨t0, h0, ?_⟩
      rw [h1, run_src, run_src, hsrc1]

theorem intoDetached_head (cfg : Cfg) (L : Lexer) (hne : L.toksR ≠ []) :
    (L.intoDetached cfg).1.toks.head? = L.toksR.getLast? := by
  unfold Lexer.intoDetached
  have e : (if L.linesR.isEmpty = true then (L.bufAddLine cfg 0 0).2 else L).toksR = L.toksR := by split <;> rfl
  generalize (if L.linesR.isEmpty = true then (L.bufAddLine cfg 0 0).2 else L) = L1 at e
  simp only
  cases hl : L1.toksR with
  | nil => rw [hl] at e; exact absurd e.symm hne
  | cons t ts =>
    simp only
    split
    · simp only [List.head?_reverse, hl, ← e]
    · simp only [List.head?_reverse, ← e, hl]
      rw [List.getLast?_cons_cons]

/-- **the first token starts at the end of the BOM** (C02, model level, every input, both profiles) -/
theorem model_first_at_bom (cfg : Cfg) (s : List Char) (hlen : s.length < 4294967296)
    (h : (lexProgram cfg s).ending = some .eof) :
    ∃ t, (lexProgram cfg s).buf.toks.head? = some t ∧ t.start = bomChars s := by
  obtain ⟨hbuf, hsome, hfin⟩ := lexProgram_buf cfg s h
  obtain ⟨t, ht, hst⟩ := finalState_first cfg s hlen hsome hfin
  refine ⟨t, ?_, hst⟩
  rw [hbuf]
  have hne : (finalState cfg s).toksR ≠ [] := by intro e; rw [e] at ht; simp at ht
  rw [intoDetached_head cfg _ hne]; exact ht

end SasLexer
