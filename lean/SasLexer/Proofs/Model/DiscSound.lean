import SasLexer.Proofs.Model.Disc
import SasLexer.Proofs.Kernel.Run
import SasLexer.Proofs.Kernel.Src
import SasLexer.Proofs.Pure.Lines
/-!
# Soundness of the scanning discipline

`DInv lag L` is the concrete invariant: the line table is exact for the consumed prefix (up to one pending
line feed when `lag`), every stored (char offset, line) pair — pending token start, mark, tokens, checkpoint —
agrees with the text, every recorded error has the right line and column, no token has type `EOF`.
`step_DInv`: each primitive whose side condition `dOk` holds preserves it and behaves as `dPost` says;
`awp_sound`: hence every program with `awp` preserves it over every run (both build profiles).
-/
namespace SasLexer
open Lexer

/-! ## text lemmas -/

theorem lineStartsFrom_append (a b : List Char) : ∀ (x k : Nat),
    lineStartsFrom (a ++ b) x k = lineStartsFrom a x k ++ lineStartsFrom b (x + utf8Len a) (k + a.length) := by
  induction a with
  | nil => intro x k; simp [lineStartsFrom, utf8Len]
  | cons c a ih =>
    intro x k
    simp only [List.cons_append, lineStartsFrom, ih, utf8Len, List.length_cons]
    have e1 : x + c.utf8Size + utf8Len a = x + (c.utf8Size + utf8Len a) := by omega
    have e2 : k + 1 + a.length = k + (a.length + 1) := by omega
    split <;> simp [e1, e2]

theorem lineStartsFrom_no_nl (a : List Char) (h : ∀ c ∈ a, c ≠ '\n') : ∀ (x k : Nat), lineStartsFrom a x k = [] := by
  induction a with
  | nil => intro x k; rfl
  | cons c a ih =>
    intro x k
    have hc : c ≠ '\n' := h c (by simp)
    simp only [lineStartsFrom, hc, if_false]
    exact ih (fun d hd => h d (by simp [hd])) _ _

/-- the exact line table of a consumed prefix -/
def lineTab (s pre : List Char) : List LineInfo := bomLine s :: lineStartsFrom pre 0 0

theorem lineTab_full (s : List Char) : lineTab s s = lineStarts s := rfl

theorem lineTab_append_no_nl (s pre a : List Char) (h : ∀ c ∈ a, c ≠ '\n') : lineTab s (pre ++ a) = lineTab s pre := by
  simp [lineTab, lineStartsFrom_append, lineStartsFrom_no_nl a h]

theorem lineTab_snoc_nl (s pre : List Char) :
    lineTab s (pre ++ ['\n']) = lineTab s pre ++ [⟨utf8Len (pre ++ ['\n']), (pre ++ ['\n']).length⟩] := by
  simp [lineTab, lineStartsFrom_append, lineStartsFrom, utf8Len_append, utf8Len]

theorem lineTab_length (s pre : List Char) : (lineTab s pre).length = nlCount pre + 1 := by
  simp [lineTab, lineStartsFrom_length]

theorem lineTab_getLast (s pre : List Char) : (lineTab s pre).getLast? = some (LL s pre) := by
  have h := lines_index pre [] 0 0 (bomLine s)
  rw [List.append_nil] at h
  rw [List.getLast?_eq_getElem?, lineTab_length]
  simpa [lineTab, LL] using h

theorem lineTab_prefix (s pc mid : List Char) :
    (lineTab s (pc ++ mid)).take (nlCount pc + 1) = lineTab s pc := by
  simp only [lineTab, lineStartsFrom_append, List.take_succ_cons]
  rw [List.take_append_of_le_length (by simp [lineStartsFrom_length])]
  rw [List.take_of_length_le (by simp [lineStartsFrom_length])]

/-! ## cursor lemmas -/

theorem advanceBy_rest : ∀ (n : Nat) (c : Cursor), (c.advanceBy n).rest = c.rest.drop n ∧
    (c.advanceBy n).charOff = c.charOff + (c.rest.take n).length
  | 0, c => by simp [Cursor.advanceBy]
  | n + 1, c => by
    unfold Cursor.advanceBy
    split
    · rename_i h; simp [h]
    · rename_i ch r h
      have := advanceBy_rest n { rest := r, charOff := c.charOff + 1, remBytes := c.remBytes - ch.utf8Size }
      simp only [h, List.drop_succ_cons, List.take_succ_cons, List.length_cons]
      refine ⟨this.1, ?_⟩
      rw [this.2]; simp only []; omega

theorem eatWhileAux_rest (p : Char → Bool) : ∀ (r : List Char) (co rb : Nat),
    (Cursor.eatWhileAux p r co rb).1 = r.dropWhile p ∧
    (Cursor.eatWhileAux p r co rb).2.1 = co + (r.takeWhile p).length
  | [], co, rb => by simp [Cursor.eatWhileAux]
  | c :: r, co, rb => by
    unfold Cursor.eatWhileAux
    by_cases h : p c
    · simp only [h, if_true, List.dropWhile_cons_of_pos, List.takeWhile_cons_of_pos, List.length_cons]
      have := eatWhileAux_rest p r (co + 1) (rb - c.utf8Size)
      refine ⟨this.1, ?_⟩
      rw [this.2]; omega
    · simp [h]

theorem eatWhile_rest (p : Char → Bool) (c : Cursor) : (c.eatWhile p).rest = c.rest.dropWhile p ∧
    (c.eatWhile p).charOff = c.charOff + (c.rest.takeWhile p).length := by
  have := eatWhileAux_rest p c.rest c.charOff c.remBytes
  simpa [Cursor.eatWhile] using this

/-! ## the concrete invariant -/

/-- a stored (char offset, line index) pair agrees with the text -/
def LineOK (s : List Char) (start line : Nat) : Prop := bomChars s ≤ start ∧ line = lineIdxOfChar s start

structure ErrOK (s : List Char) (e : ErrInfo) : Prop where
  line : e.line = lineIdxOfChar s e.char + 1
  col : e.col = colOfChar s e.char

/-- the line table is exact for the consumed prefix `pre` (or, while a line feed is pending, for the
prefix before that line feed) -/
def LinesAt (L : Lexer) (lag : Bool) (pre : List Char) : Prop :=
  if lag = true then ∃ p0, pre = p0 ++ ['\n'] ∧ L.linesR.reverse = lineTab L.src p0
  else L.linesR.reverse = lineTab L.src pre

structure DInv (lag : Bool) (L : Lexer) : Prop where
  pre : ∃ pre, L.src = pre ++ L.cur.rest ∧ L.cur.charOff = pre.length ∧ bomChars L.src ≤ pre.length ∧ LinesAt L lag pre
  tok : LineOK L.src L.tok.start L.tok.line
  mark : ∀ m, L.mark = some m → LineOK L.src m.start m.line
  toks : ∀ t ∈ L.toksR, LineOK L.src t.start t.line ∧ t.ty ≠ .EOF
  errs : ∀ e ∈ L.errsR, ErrOK L.src e
  errReg : ∀ e, L.errReg = some e → ErrOK L.src e
  cp : ∀ c, L.cp = some c → c.cur.charOff ≤ L.cur.charOff ∧ bomChars L.src ≤ c.cur.charOff ∧
        c.nLines = lineIdxOfChar L.src c.cur.charOff + 1 ∧ LineOK L.src c.tok.start c.tok.line

namespace DInv
variable {L : Lexer} {cfg : Cfg} {lag : Bool}

/-- `DInv` only reads these fields -/
theorem congr {L L' : Lexer} (h : DInv lag L)
    (e1 : L'.src = L.src) (e3 : L'.cur = L.cur) (e4 : L'.tok = L.tok)
    (e5 : L'.toksR = L.toksR) (e6 : L'.linesR = L.linesR) (e7 : L'.errsR = L.errsR)
    (e8 : L'.cp = L.cp) (e9 : L'.mark = L.mark) (e10 : L'.errReg = L.errReg) : DInv lag L' := by
  constructor <;> simp only [e1, e3, e4, e5, e6, e7, e8, e9, e10, LinesAt]
  · exact h.pre
  · exact h.tok
  · exact h.mark
  · exact h.toks
  · exact h.errs
  · exact h.errReg
  · exact h.cp

/-- facts about the current position when no line feed is pending -/
theorem here (h : DInv false L) :
    L.linesR.length = lineIdxOfChar L.src L.curChar + 1 ∧ bomChars L.src ≤ L.curChar ∧
    (match L.linesR with | li :: _ => li.start | [] => 0) = L.curChar - colOfChar L.src L.curChar ∧
    colOfChar L.src L.curChar ≤ L.curChar := by
  obtain ⟨pre, hs, hc, hb, hl⟩ := h.pre
  simp only [LinesAt, Bool.false_eq_true, if_false] at hl
  have hlen : L.linesR.length = nlCount pre + 1 := by
    have := congrArg List.length hl
    simpa [lineTab_length] using this
  have hidx : lineIdxOfChar L.src L.curChar = nlCount pre := by
    rw [Lexer.curChar, hc]; exact lineIdxOfChar_prefix hs
  have hcol : colOfChar L.src L.curChar = pre.length - (LL L.src pre).start := by
    rw [Lexer.curChar, hc]; exact colOfChar_prefix hs
  have hLL := (LL_facts hs hb).1
  refine ⟨by rw [hlen, hidx], by rw [Lexer.curChar, hc]; exact hb, ?_, by rw [hcol, Lexer.curChar, hc]; omega⟩
  have hlast : L.linesR.head? = some (LL L.src pre) := by
    have := lineTab_getLast L.src pre
    rw [← hl, List.getLast?_reverse] at this
    exact this
  rw [hcol, Lexer.curChar, hc]
  cases hL : L.linesR with
  | nil => rw [hL] at hlast; simp at hlast
  | cons li r =>
    rw [hL] at hlast
    simp only [List.head?_cons, Option.some.injEq] at hlast
    simp only [hlast]
    omega

theorem prepError_ok (h : DInv false L) (k : ErrorKind) : ErrOK L.src (L.prepError k) := by
  obtain ⟨h1, _, h3, h4⟩ := h.here
  constructor
  · show L.lineCount = _
    rw [Lexer.lineCount, h1]; rfl
  · show L.curChar - (match L.linesR with | li :: _ => li.start | [] => 0) = colOfChar L.src L.curChar
    rw [h3]; omega

theorem curLineOK (h : DInv false L) : LineOK L.src L.curChar (L.linesR.length - 1) := by
  obtain ⟨h1, h2, _, _⟩ := h.here
  exact ⟨h2, by rw [h1]; rfl⟩

theorem emitErrorInfo (h : DInv lag L) {e : ErrInfo} (he : ErrOK L.src e) : DInv lag (L.emitErrorInfo e) := by
  refine { h with errs := ?_ }
  intro e' he'
  simp only [Lexer.emitErrorInfo, List.mem_cons] at he'
  rcases he' with rfl | he'
  · exact he
  · exact h.errs e' he'

theorem emitError (h : DInv false L) (k : ErrorKind) : DInv false (L.emitError k) :=
  h.emitErrorInfo (h.prepError_ok k)

theorem pushMode (h : DInv lag L) (m : Mode) : DInv lag (L.pushMode m) :=
  h.congr rfl rfl rfl rfl rfl rfl rfl rfl rfl

theorem popMode (h : DInv false L) : DInv false L.popMode := by
  unfold Lexer.popMode; split
  · exact h.congr rfl rfl rfl rfl rfl rfl rfl rfl rfl
  · exact (h.emitError _).pushMode _

theorem mode (h : DInv false L) : DInv false L.mode.2 := by
  unfold Lexer.mode; split
  · exact h
  · exact (h.emitError _).pushMode _

theorem pushPendingStat (h : DInv lag L) (v : Bool) : DInv lag (L.pushPendingStat v) :=
  h.congr rfl rfl rfl rfl rfl rfl rfl rfl rfl
theorem popPendingStat (h : DInv lag L) : DInv lag L.popPendingStat := by
  unfold Lexer.popPendingStat; split
  · exact h.congr rfl rfl rfl rfl rfl rfl rfl rfl rfl
  · exact h
theorem pendingStat (h : DInv false L) : DInv false L.pendingStat.2 := by
  unfold Lexer.pendingStat; split
  · exact (h.emitError .InternalErrorEmptyPendingStatStack).congr rfl rfl rfl rfl rfl rfl rfl rfl rfl
  · exact h
theorem setPendingStat (h : DInv false L) (v : Bool) : DInv false (L.setPendingStat v) := by
  unfold Lexer.setPendingStat; split
  · exact (h.emitError .InternalErrorEmptyPendingStatStack).congr rfl rfl rfl rfl rfl rfl rfl rfl rfl
  · exact h.congr rfl rfl rfl rfl rfl rfl rfl rfl rfl

theorem dassert (h : DInv lag L) (c : Bool) (m : String) : DInv lag (L.dassert cfg c m) :=
  h.congr rfl rfl rfl rfl rfl rfl rfl rfl rfl

theorem panic (h : DInv lag L) (m : String) : DInv lag (L.panic m) :=
  h.congr rfl rfl rfl rfl rfl rfl rfl rfl rfl

end DInv

namespace DInv
variable {L : Lexer} {cfg : Cfg} {lag : Bool}

theorem bufAddToken (h : DInv lag L) {t : TokInfo} (ht : LineOK L.src t.start t.line) (hty : t.ty ≠ .EOF) :
    DInv lag (L.bufAddToken cfg t) := by
  refine { h with toks := ?_ }
  intro t' ht'
  simp only [Lexer.bufAddToken, List.mem_cons] at ht'
  rcases ht' with rfl | ht'
  · exact ⟨ht, hty⟩
  · exact h.toks t' ht'

theorem lastLineOrAdd_eq (h : DInv false L) : L.lastLineOrAdd cfg = (L.linesR.length - 1, L) := by
  unfold Lexer.lastLineOrAdd
  have := h.here.1
  split
  · rename_i h0; omega
  · rename_i n h0; simp [h0]

theorem startToken (h : DInv false L) : DInv false (L.startToken cfg) := by
  unfold Lexer.startToken
  rw [h.lastLineOrAdd_eq]
  exact { h with tok := h.curLineOK }

theorem markIfNone (h : DInv false L) : DInv false (L.markIfNone cfg) := by
  unfold Lexer.markIfNone; split
  · exact h
  · rw [h.lastLineOrAdd_eq]
    refine { h with mark := ?_ }
    intro m hm
    simp only [Option.some.injEq] at hm
    subst hm
    exact h.curLineOK

theorem clearMark (h : DInv lag L) : DInv lag L.clearMark :=
  { h with mark := by intro m hm; simp [Lexer.clearMark] at hm }

theorem emitToken (h : DInv lag L) (ch ty p) (hty : ty ≠ .EOF) : DInv lag (L.emitToken cfg ch ty p) :=
  h.bufAddToken (t := ⟨ch, ty, L.tok.byte, L.tok.start, L.tok.line, p⟩) h.tok hty

theorem emitTokenAtMark (h : DInv lag L) (ch ty p) (hty : ty ≠ .EOF) : DInv lag (L.emitTokenAtMark cfg ch ty p) := by
  unfold Lexer.emitTokenAtMark; split
  · rename_i m hm
    exact h.bufAddToken (t := ⟨ch, ty, m.byte, m.start, m.line, p⟩) (h.mark m hm) hty
  · exact h

theorem updateLastToken (h : DInv false L) (ch ty p) (hty : ty ≠ .EOF) : DInv false (L.updateLastToken cfg ch ty p) := by
  unfold Lexer.updateLastToken; split
  · rename_i t ts hts
    refine { h with toks := ?_ }
    intro t' ht'
    simp only [List.mem_cons] at ht'
    rcases ht' with rfl | ht'
    · exact ⟨(h.toks t (by simp [hts])).1, hty⟩
    · exact h.toks t' (by simp [hts, ht'])
  · exact (h.emitError _).bufAddToken (t := ⟨ch, ty, L.tok.byte, L.tok.start, L.tok.line, p⟩) h.tok hty

theorem withToks (h : DInv lag L) {ts : List TokInfo}
    (hts : ∀ t' ∈ ts, t'.ty ≠ .EOF ∧ ∃ t ∈ L.toksR, t'.start = t.start ∧ t'.line = t.line) :
    DInv lag { L with toksR := ts } := by
  refine { h with toks := ?_ }
  intro t' ht'
  obtain ⟨hty, t, ht, hs, hl⟩ := hts t' ht'
  exact ⟨by rw [hs, hl]; exact (h.toks t ht).1, hty⟩

theorem addLine (h : DInv true L) (hk : KPos L) : DInv false (L.addLine cfg).2 := by
  obtain ⟨pre, hs, hc, hb, hl⟩ := h.pre
  simp only [LinesAt, if_true] at hl
  obtain ⟨p0, hp0, hl⟩ := hl
  have hbyte : L.curByte = utf8Len pre := by
    have := hk.srcLen; have := hk.cur.1
    rw [Lexer.curByte, hk.srcLen, hk.cur.1]
    conv => lhs; rw [hs, utf8Len_append]
    omega
  refine { h with pre := ⟨pre, hs, hc, hb, ?_⟩ }
  simp only [LinesAt, Bool.false_eq_true, if_false, Lexer.addLine, Lexer.bufAddLine, List.reverse_cons]
  rw [hl, hbyte, Lexer.curChar, hc, hp0, lineTab_snoc_nl]

theorem addStringLiteral (h : DInv lag L) (s : List Char) : DInv lag (L.addStringLiteral s).2 :=
  h.congr rfl rfl rfl rfl rfl rfl rfl rfl rfl

theorem addStringLiteralFromSrc (h : DInv false L) (a : Nat) (b : Option Nat) :
    DInv false (L.addStringLiteralFromSrc cfg a b).2 := by
  unfold Lexer.addStringLiteralFromSrc
  dsimp only
  split
  · exact (h.dassert _ _).addStringLiteral _
  · exact ((h.dassert _ _).emitError _).addStringLiteral _

theorem pendingTextFrom (h : DInv false L) (a b : Nat) (k : ErrorKind) : DInv false (L.pendingTextFrom a b k).2 := by
  unfold Lexer.pendingTextFrom; split
  · exact h
  · exact h.emitError _

theorem checkpoint (h : DInv false L) : DInv false (L.checkpoint cfg) := by
  refine { h.dassert (cfg := cfg) L.cp.isNone "assertion failed: self.checkpoint.is_none()" with cp := ?_ }
  intro c hc
  simp only [Lexer.checkpoint, Option.some.injEq] at hc
  subst hc
  obtain ⟨h1, h2, _, _⟩ := h.here
  exact ⟨Nat.le_refl _, h2, h1, h.tok⟩

theorem clearCheckpoint (h : DInv lag L) : DInv lag L.clearCheckpoint :=
  { h with cp := by intro c hc; simp [Lexer.clearCheckpoint] at hc }

end DInv

namespace DInv
variable {L : Lexer} {cfg : Cfg} {lag : Bool}

/-- moving the cursor over text without line feed -/
theorem moveNoNl (h : DInv false L) {cur' : Cursor} (a : List Char) (ha : ∀ c ∈ a, c ≠ '\n')
    (hr : L.cur.rest = a ++ cur'.rest) (hc : cur'.charOff = L.cur.charOff + a.length) :
    DInv false { L with cur := cur' } := by
  obtain ⟨pre, hs, hco, hb, hl⟩ := h.pre
  simp only [LinesAt, Bool.false_eq_true, if_false] at hl
  refine { h with pre := ⟨pre ++ a, ?_, ?_, ?_, ?_⟩, cp := ?_ }
  · show L.src = (pre ++ a) ++ cur'.rest
    rw [hs, hr]; simp
  · show cur'.charOff = (pre ++ a).length
    rw [hc, hco]; simp
  · show bomChars L.src ≤ (pre ++ a).length
    simp; omega
  · simp only [LinesAt, Bool.false_eq_true, if_false]
    show L.linesR.reverse = lineTab L.src (pre ++ a)
    rw [lineTab_append_no_nl _ _ _ ha]; exact hl
  · intro c hcp
    obtain ⟨h1, h2⟩ := h.cp c hcp
    exact ⟨by show c.cur.charOff ≤ cur'.charOff; omega, h2⟩

/-- `advance` -/
theorem advance (h : DInv false L) :
    match L.cur.rest with
    | [] => DInv false { L with cur := L.cur.advance.2 }
    | c :: _ => DInv (c == '\n') { L with cur := L.cur.advance.2 } := by
  cases hr : L.cur.rest with
  | nil =>
    simp only
    have : L.cur.advance.2 = L.cur := by simp [Cursor.advance, hr]
    rw [this]; exact h
  | cons c t =>
    simp only
    have hadv : L.cur.advance.2 = ⟨t, L.cur.charOff + 1, L.cur.remBytes - c.utf8Size⟩ := by
      simp [Cursor.advance, hr]
    rw [hadv]
    by_cases hc : c = '\n'
    · subst hc
      obtain ⟨pre, hs, hco, hb, hl⟩ := h.pre
      simp only [LinesAt, Bool.false_eq_true, if_false] at hl
      simp only [beq_self_eq_true]
      refine { h with pre := ⟨pre ++ ['\n'], ?_, ?_, ?_, ?_⟩, cp := ?_ }
      · show L.src = (pre ++ ['\n']) ++ t
        rw [hs, hr]; simp
      · show L.cur.charOff + 1 = (pre ++ ['\n']).length
        rw [hco]; simp
      · show bomChars L.src ≤ (pre ++ ['\n']).length
        simp; omega
      · simp only [LinesAt, if_true]
        exact ⟨pre, rfl, hl⟩
      · intro cp hcp
        obtain ⟨h1, h2⟩ := h.cp cp hcp
        exact ⟨by show cp.cur.charOff ≤ L.cur.charOff + 1; omega, h2⟩
    · have : (c == '\n') = false := by simp [hc]
      rw [this]
      exact h.moveNoNl [c] (by simpa using hc) (by simp [hr]) (by simp)

theorem advanceBy (h : DInv false L) (n : Nat) (hn : ∀ c ∈ L.cur.rest.take n, c ≠ '\n') :
    DInv false { L with cur := L.cur.advanceBy n } := by
  obtain ⟨h1, h2⟩ := advanceBy_rest n L.cur
  exact h.moveNoNl (L.cur.rest.take n) hn (by rw [h1]; simp) h2

theorem mem_takeWhile_imp (p : Char → Bool) : ∀ (l : List Char) (c : Char), c ∈ l.takeWhile p → p c = true
  | [], c, h => by simp at h
  | d :: l, c, h => by
    by_cases hd : p d
    · simp only [List.takeWhile_cons, hd, if_true, List.mem_cons] at h
      rcases h with rfl | h
      · exact hd
      · exact mem_takeWhile_imp p l c h
    · simp [List.takeWhile_cons, hd] at h

theorem eatWhile (h : DInv false L) (p : Char → Bool) (hp : p '\n' = false) :
    DInv false { L with cur := L.cur.eatWhile p } := by
  obtain ⟨h1, h2⟩ := eatWhile_rest p L.cur
  refine h.moveNoNl (L.cur.rest.takeWhile p) ?_ (by rw [h1]; simp) h2
  intro c hc heq
  subst heq
  have := mem_takeWhile_imp p _ _ hc
  rw [hp] at this; cases this

theorem truncR_reverse {α} (l : List α) (n : Nat) : (Lexer.truncR l n).reverse = l.reverse.take n := by
  unfold Lexer.truncR
  rw [List.reverse_drop]
  by_cases hn : n ≤ l.length
  · congr 1; omega
  · rw [List.take_of_length_le (by simp; omega), List.take_of_length_le (by simp; omega)]

theorem rollback (h : DInv false L) (hk : KPos L) : DInv false L.rollback := by
  unfold Lexer.rollback
  split
  · rename_i c hc
    obtain ⟨h1, h2, h3, h4⟩ := h.cp c hc
    obtain ⟨hcur, _⟩ := hk.cp c hc
    obtain ⟨_, pc, hpc, hpcl⟩ := hcur
    obtain ⟨pre, hs, hco, hb, hl⟩ := h.pre
    simp only [LinesAt, Bool.false_eq_true, if_false] at hl
    -- `pc` is a prefix of `pre`
    have hle : pc.length ≤ pre.length := by omega
    have hpre : pre = pc ++ (pre.drop pc.length) := by
      have e1 : L.src.take pc.length = pc := by rw [hpc]; simp
      have e2 : pre.take pc.length = L.src.take pc.length := by
        rw [hs, List.take_append_of_le_length hle]
      have e3 : pre = pre.take pc.length ++ pre.drop pc.length := (List.take_append_drop _ _).symm
      rw [e2, e1] at e3; exact e3
    have hn : c.nLines = nlCount pc + 1 := by
      rw [h3, hpcl]; congr 1; exact lineIdxOfChar_prefix hpc
    refine { pre := ⟨pc, hpc, hpcl, by show bomChars L.src ≤ pc.length; omega, ?_⟩, tok := h4, mark := h.mark,
             toks := fun t ht => h.toks t (KPos.mem_truncR ht), errs := fun e he => h.errs e (KPos.mem_truncR he),
             errReg := by intro e he; simp at he, cp := by intro c' hc'; simp at hc' }
    simp only [LinesAt, Bool.false_eq_true, if_false]
    show (Lexer.truncR L.linesR c.nLines).reverse = lineTab L.src pc
    rw [truncR_reverse, hl, hn, hpre, lineTab_prefix]
  · exact h.emitError _

end DInv

theorem retype_line {e n : TokenType} : ∀ {ts ts' : List TokInfo},
    retypeLastDefaultAux e n ts = some ts' →
    ∀ t' ∈ ts', ∃ t ∈ ts, t'.start = t.start ∧ t'.line = t.line ∧ (t'.ty = t.ty ∨ t'.ty = n)
  | [], ts', h => by simp [retypeLastDefaultAux] at h
  | t :: ts, ts', h => by
    unfold retypeLastDefaultAux at h
    split at h
    · split at h
      · simp only [Option.some.injEq] at h; subst h
        intro t' ht'
        simp only [List.mem_cons] at ht'
        rcases ht' with rfl | ht'
        · exact ⟨t, by simp, rfl, rfl, Or.inr rfl⟩
        · exact ⟨t', by simp [ht'], rfl, rfl, Or.inl rfl⟩
      · simp at h
    · cases hr : retypeLastDefaultAux e n ts with
      | none => simp [hr] at h
      | some r =>
        simp only [hr, Option.map_some, Option.some.injEq] at h; subst h
        intro t' ht'
        simp only [List.mem_cons] at ht'
        rcases ht' with rfl | ht'
        · exact ⟨t', by simp, rfl, rfl, Or.inl rfl⟩
        · obtain ⟨t0, h0, hb⟩ := retype_line hr t' ht'
          exact ⟨t0, by simp [h0], hb⟩

theorem insertSep_line : ∀ {ts ts' : List TokInfo},
    insertSepAux ts = some ts' →
    ∀ t' ∈ ts', ∃ t ∈ ts, t'.start = t.start ∧ t'.line = t.line ∧ (t'.ty = t.ty ∨ t'.ty = .MacroSep)
  | [], ts', h => by simp [insertSepAux] at h
  | t :: ts, ts', h => by
    unfold insertSepAux at h
    split at h
    · simp only [Option.some.injEq] at h; subst h
      intro t' ht'
      simp only [List.mem_cons] at ht'
      rcases ht' with rfl | rfl | ht'
      · exact ⟨t', by simp, rfl, rfl, Or.inl rfl⟩
      · exact ⟨t, by simp, rfl, rfl, Or.inr rfl⟩
      · exact ⟨t', by simp [ht'], rfl, rfl, Or.inl rfl⟩
    · cases hr : insertSepAux ts with
      | none => simp [hr] at h
      | some r =>
        simp only [hr, Option.map_some, Option.some.injEq] at h; subst h
        intro t' ht'
        simp only [List.mem_cons] at ht'
        rcases ht' with rfl | ht'
        · exact ⟨t', by simp, rfl, rfl, Or.inl rfl⟩
        · obtain ⟨t0, h0, hb⟩ := insertSep_line hr t' ht'
          exact ⟨t0, by simp [h0], hb⟩

/-- a state-preserving step: the cursor is untouched and the invariant is carried over -/
theorem keep {L L' : Lexer} {lag : Bool} (h : DInv lag L') (hc : L'.cur = L.cur) :
    ∃ lag', (L'.cur.rest = L.cur.rest ∧ lag' = lag) ∧ DInv lag' L' :=
  ⟨lag, ⟨by rw [hc], rfl⟩, h⟩

theorem keepC {L L' : Lexer} {lag : Bool} (h : DInv lag L)
    (e1 : L'.src = L.src) (e3 : L'.cur = L.cur) (e4 : L'.tok = L.tok)
    (e5 : L'.toksR = L.toksR) (e6 : L'.linesR = L.linesR) (e7 : L'.errsR = L.errsR)
    (e8 : L'.cp = L.cp) (e9 : L'.mark = L.mark) (e10 : L'.errReg = L.errReg) :
    ∃ lag', (L'.cur.rest = L.cur.rest ∧ lag' = lag) ∧ DInv lag' L' :=
  keep (h.congr e1 e3 e4 e5 e6 e7 e8 e9 e10) e3

@[simp] theorem lastLineOrAdd_cur' (cfg) (L : Lexer) : (L.lastLineOrAdd cfg).2.cur = L.cur := by
  unfold Lexer.lastLineOrAdd; split <;> rfl
@[simp] theorem startToken_cur (cfg) (L : Lexer) : (L.startToken cfg).cur = L.cur := by
  unfold Lexer.startToken; simp
@[simp] theorem markIfNone_cur (cfg) (L : Lexer) : (L.markIfNone cfg).cur = L.cur := by
  unfold Lexer.markIfNone; split <;> simp
@[simp] theorem emitTokenAtMark_cur (cfg) (L : Lexer) (a b c) : (L.emitTokenAtMark cfg a b c).cur = L.cur := by
  unfold Lexer.emitTokenAtMark; split <;> rfl
@[simp] theorem updateLastToken_cur (cfg) (L : Lexer) (a b c) : (L.updateLastToken cfg a b c).cur = L.cur := by
  unfold Lexer.updateLastToken; split <;> rfl
@[simp] theorem popMode_cur (L : Lexer) : L.popMode.cur = L.cur := by unfold Lexer.popMode; split <;> rfl
@[simp] theorem mode_cur (L : Lexer) : L.mode.2.cur = L.cur := by unfold Lexer.mode; split <;> rfl
@[simp] theorem popPendingStat_cur (L : Lexer) : L.popPendingStat.cur = L.cur := by
  unfold Lexer.popPendingStat; split <;> rfl
@[simp] theorem pendingStat_cur (L : Lexer) : L.pendingStat.2.cur = L.cur := by
  unfold Lexer.pendingStat; split <;> rfl
@[simp] theorem setPendingStat_cur (L : Lexer) (v) : (L.setPendingStat v).cur = L.cur := by
  unfold Lexer.setPendingStat; split <;> rfl
@[simp] theorem addStringLiteralFromSrc_cur (cfg) (L : Lexer) (a b) :
    (L.addStringLiteralFromSrc cfg a b).2.cur = L.cur := by
  unfold Lexer.addStringLiteralFromSrc; dsimp only; split <;> rfl
@[simp] theorem pendingTextFrom_cur (L : Lexer) (a b k) : (L.pendingTextFrom a b k).2.cur = L.cur := by
  unfold Lexer.pendingTextFrom; split <;> rfl

/-- **one step**: an operation whose side condition holds in the abstract state `(rest, lag)` produces a
(response, rest, lag') that the abstract semantics allows, and keeps the concrete invariant -/
theorem step_DInv (cfg : Cfg) (o : Op) (L : Lexer) (lag : Bool) (hk : KPos L) (h : DInv lag L)
    (hok : dOk o L.cur.rest lag) (hp0 : L.panicked = none) (hp : (step cfg o L).2.panicked = none) :
    ∃ lag', dPost o L.cur.rest lag (step cfg o L).1 (step cfg o L).2.cur.rest lag' ∧ DInv lag' (step cfg o L).2 := by
  cases o <;> simp only [step] <;> simp only [dOk, Op.isRead, Bool.false_eq_true, false_or, true_or] at hok
  case rest => exact ⟨lag, ⟨rfl, rfl, rfl⟩, h⟩
  case lastTok | lastDefaultTok | secondLastDefaultTok | hasCheckpoint | nesting | modeDepth | hasMark
      | litIsEmpty | loopProbe => exact ⟨lag, ⟨rfl, rfl⟩, h⟩
  case dassert c m => exact ⟨lag, ⟨rfl, rfl⟩, h.dassert c m⟩
  case pendingText => subst hok; exact keep (h.pendingTextFrom _ _ _) (by simp [Lexer.pendingText])
  case pendingTextToMark => subst hok; exact keep (h.pendingTextFrom _ _ _) (by simp)
  case pendingTextWithPrev => subst hok; exact keep (h.pendingTextFrom _ _ _) (by simp)
  case advance =>
    subst hok
    have := h.advance
    cases hr : L.cur.rest with
    | nil =>
      rw [hr] at this
      exact ⟨false, by simp [Cursor.advance, hr, dPost], this⟩
    | cons c t =>
      rw [hr] at this
      exact ⟨c == '\n', by simp [Cursor.advance, hr, dPost], this⟩
  case advanceBy n =>
    obtain ⟨rfl, hn⟩ := hok
    refine ⟨false, ⟨(advanceBy_rest n _).1, rfl⟩, ?_⟩
    exact (h.dassert (cfg := cfg) _ _).advanceBy n hn
  case eatWhile p =>
    obtain ⟨rfl, hpn⟩ := hok
    exact ⟨false, ⟨(eatWhile_rest p _).1, rfl⟩, h.eatWhile p hpn⟩
  case addLine =>
    subst hok
    exact ⟨false, ⟨rfl, rfl⟩, h.addLine hk⟩
  case startToken => subst hok; exact keep h.startToken (by simp)
  case markIfNone => subst hok; exact keep h.markIfNone (by simp)
  case clearMark => subst hok; exact keep h.clearMark rfl
  case emitToken ch ty p => obtain ⟨rfl, hty⟩ := hok; exact keep (h.emitToken ch ty _ hty) rfl
  case emitTokenAtMark ch ty p => obtain ⟨rfl, hty⟩ := hok; exact keep (h.emitTokenAtMark ch ty _ hty) (by simp)
  case updateLastToken ch ty p => obtain ⟨rfl, hty⟩ := hok; exact keep (h.updateLastToken ch ty _ hty) (by simp)
  case retypeLastDefault e n =>
    obtain ⟨rfl, hn⟩ := hok
    split
    · rename_i ts hts
      refine keep (h.withToks ?_) rfl
      intro t' ht'
      obtain ⟨t, ht, hs, hl, hty⟩ := retype_line hts t' ht'
      refine ⟨?_, t, ht, hs, hl⟩
      rcases hty with hty | hty
      · rw [hty]; exact (h.toks t ht).2
      · rw [hty]; exact hn
    · exact keep h rfl
  case insertSepBeforeLastDefault =>
    subst hok
    split
    · split
      · rename_i ts hts
        refine keep (h.withToks ?_) rfl
        intro t' ht'
        obtain ⟨t, ht, hs, hl, hty⟩ := insertSep_line hts t' ht'
        refine ⟨?_, t, ht, hs, hl⟩
        rcases hty with hty | hty
        · rw [hty]; exact (h.toks t ht).2
        · rw [hty]; simp
      · exact keep h rfl
    · exact keep h rfl
  case emitError k => subst hok; exact keep (h.emitError k) rfl
  case prepError k =>
    subst hok
    have h' : DInv false { L with errReg := some (L.prepError k) } := by
      refine { h with errReg := ?_ }
      intro e he
      simp only [Option.some.injEq] at he
      subst he; exact h.prepError_ok k
    exact keep h' rfl
  case emitPrepared =>
    subst hok
    split
    · rename_i e he
      have h' : DInv false { L.emitErrorInfo e with errReg := none } := by
        refine { h.emitErrorInfo (h.errReg e he) with errReg := ?_ }
        intro e' he'; simp at he'
      exact keep h' rfl
    · exact keep h rfl
  case pushMode m => subst hok; exact keep (h.pushMode m) rfl
  case popMode => subst hok; exact keep h.popMode (by simp)
  case mode => subst hok; exact keep h.mode (by simp)
  case popModeRaw =>
    subst hok
    split
    · exact ⟨_, ⟨rfl, rfl⟩, h.congr rfl rfl rfl rfl rfl rfl rfl rfl rfl⟩
    · exact keep h rfl
  case modifyTop f =>
    subst hok
    split
    · exact ⟨_, ⟨rfl, rfl⟩, h.congr rfl rfl rfl rfl rfl rfl rfl rfl rfl⟩
    · exact keep h rfl
  case modifyAt i f =>
    subst hok
    split
    · exact ⟨_, ⟨rfl, rfl⟩, h.congr rfl rfl rfl rfl rfl rfl rfl rfl rfl⟩
    · exact keep h rfl
  case insertModeAt i m =>
    subst hok
    split
    · exact ⟨_, ⟨rfl, rfl⟩, h.congr rfl rfl rfl rfl rfl rfl rfl rfl rfl⟩
    · exact keep (h.panic _) rfl
  case checkpoint => subst hok; exact keep h.checkpoint rfl
  case clearCheckpoint => subst hok; exact keep h.clearCheckpoint rfl
  case bumpCheckpointModeLen n =>
    subst hok
    have h' : DInv false { L with cp := L.cp.map fun c => { c with modeLen := c.modeLen + n } } := by
      refine { h with cp := ?_ }
      intro c hc
      cases hcp : L.cp with
      | none => simp [hcp] at hc
      | some c0 =>
        simp only [hcp, Option.map_some, Option.some.injEq] at hc
        subst hc
        exact h.cp c0 hcp
    exact keep h' rfl
  case rollback =>
    subst hok
    exact ⟨false, rfl, h.rollback hk⟩
  case pushPending b => subst hok; exact keep (h.pushPendingStat b) rfl
  case popPending => subst hok; exact keep h.popPendingStat (by simp)
  case pendingStat => subst hok; exact keep h.pendingStat (by simp)
  case setPending b => subst hok; exact keep (h.setPendingStat b) (by simp)
  case nestInc | nestDec | litBegin | litBeginAtTok | litMarkEnd | payClear =>
    subst hok; exact ⟨_, ⟨rfl, rfl⟩, h.congr rfl rfl rfl rfl rfl rfl rfl rfl rfl⟩
  case litCut =>
    subst hok
    exact ⟨_, ⟨by simp, rfl⟩, (h.addStringLiteralFromSrc (cfg := cfg) L.lit.lastEnd none).congr rfl rfl rfl rfl rfl rfl rfl rfl rfl⟩
  case litResolve back =>
    subst hok
    have h' := h.dassert (cfg := cfg) (L.lit.seen || L.lit.start == L.lit.stop)
      "assertion failed: seen_escape || lit_start_idx == cur_lit_end_idx"
    split
    · exact ⟨_, ⟨rfl, rfl⟩, h'.congr rfl rfl rfl rfl rfl rfl rfl rfl rfl⟩
    · exact ⟨_, ⟨by simp [Lexer.dassert], rfl⟩, (h'.addStringLiteralFromSrc (cfg := cfg) L.lit.lastEnd (some (L.curByte - back))).congr
        rfl rfl rfl rfl rfl rfl rfl rfl rfl⟩
  case litAddDecoded cs =>
    subst hok
    exact ⟨_, ⟨rfl, rfl⟩, (h.addStringLiteral cs).congr rfl rfl rfl rfl rfl rfl rfl rfl rfl⟩
  case panic m =>
    exfalso
    simp only [step, Lexer.panic, Lexer.chk, hp0] at hp
    simp at hp

/-- **soundness of the discipline**: a program with `awp`, run from a state that satisfies the concrete
invariant, either panics or returns a value in a state that satisfies the invariant again, with the
postcondition holding of the real remaining text -/
theorem awp_sound (cfg : Cfg) {α : Type} (p : Prog α) (Q : α → List Char → Bool → Prop) :
    ∀ (L : Lexer) (lag : Bool), KPos L → DInv lag L → L.panicked = none → awp p Q L.cur.rest lag →
      (Prog.run cfg p L).2.panicked = none →
      ∃ a lag', (Prog.run cfg p L).1 = some a ∧ KPos (Prog.run cfg p L).2 ∧ DInv lag' (Prog.run cfg p L).2 ∧
        Q a (Prog.run cfg p L).2.cur.rest lag' := by
  induction p with
  | ret a =>
    intro L lag hk h _ hw _
    exact ⟨a, lag, rfl, hk, h, awp.ret_iff.1 hw⟩
  | op o k ih =>
    intro L lag hk h hp0 hw hpr
    rw [awp.op_iff] at hw
    obtain ⟨hok, hk'⟩ := hw
    unfold Prog.run at hpr ⊢
    have hkpos := step_KPos cfg o L hk
    have hstep := step_DInv cfg o L lag hk h hok hp0
    generalize hs : step cfg o L = r at hpr hkpos hstep ⊢
    obtain ⟨resp, L'⟩ := r
    dsimp only at hpr hkpos hstep ⊢
    cases hpan : L'.panicked with
    | some m =>
      simp only [hpan] at hpr
      exact absurd hpr (by simp [hpan])
    | none =>
      simp only [hpan] at hpr ⊢
      obtain ⟨lag', hpost, hinv⟩ := hstep hpan
      exact ih resp L' lag' hkpos hinv hpan (hk' resp L'.cur.rest lag' hpost) hpr

end SasLexer
