import SasLexer.Prog
import SasLexer.Proofs.Model.DiscAttr
/-!
# "The first token starts at the end of the BOM": a second discipline (`cwp`)

Abstract state: *is there a token yet* (`ne`), *is the pending token start at the BOM end* (`tokAt`), *has the
cursor not moved yet* (`atS`), the same three flags as saved by the live checkpoint (`cp`), and whether the mark
register sits at the BOM end (`mark`).  Independent of the characters read: every response is universally
quantified.  `cwp p Q σ` demands

* `startToken` only when a token exists or the cursor has not moved (otherwise the text consumed so far would
  belong to no token),
* the first token to be emitted (by `emitToken`, `updateLastToken` on an empty buffer, `emitTokenAtMark`) starts
  at the BOM end.

`CoverSound.lean`: for programs with `cwp`, `ne` implies that the oldest token of the buffer starts at the BOM end.
-/
namespace SasLexer

structure CS where
  ne : Bool
  tokAt : Bool
  atS : Bool
  mark : Option Bool
  cp : Option (Bool × Bool × Bool)
  /-- no cursor operation since the state was entered: `rest` still returns the text known at entry -/
  fresh : Bool
  deriving DecidableEq, Repr

/-- side condition of one operation -/
def cOk : Op → CS → Prop
  | .startToken, σ => σ.ne = true ∨ σ.atS = true
  | .emitToken _ _ _, σ => σ.ne = true ∨ σ.tokAt = true
  | .updateLastToken _ _ _, σ => σ.ne = true ∨ σ.tokAt = true
  | .emitTokenAtMark _ _ _, σ => σ.ne = true ∨ σ.mark ≠ some false
  | .emitEofAtCursor, _ => False
  | _, _ => True

/-- abstract effect of one operation (deterministic; responses are not consulted) -/
def cNext : Op → CS → CS
  | .startToken, σ => { σ with tokAt := σ.atS }
  | .markIfNone, σ => match σ.mark with | some _ => σ | none => { σ with mark := some σ.atS }
  | .clearMark, σ => { σ with mark := none }
  | .emitToken _ _ _, σ => { σ with ne := true }
  | .updateLastToken _ _ _, σ => { σ with ne := true }
  | .emitTokenAtMark _ _ _, σ => match σ.mark with | some _ => { σ with ne := true } | none => σ
  | .advance, σ => { σ with atS := false, fresh := false }
  | .advanceBy _, σ => { σ with atS := false, fresh := false }
  | .eatWhile _, σ => { σ with atS := false, fresh := false }
  | .checkpoint, σ => { σ with cp := some (σ.ne, σ.tokAt, σ.atS) }
  | .clearCheckpoint, σ => { σ with cp := none }
  | .rollback, σ => match σ.cp with
      | some (n, t, a) => { σ with ne := n, tokAt := t, atS := a, cp := none, fresh := false }
      | none => σ
  | _, σ => σ

/-- what is known of every text the program can see: it is a suffix of a source below 4 GiB -/
def SmallRest (r : List Char) : Prop := r.length < 4294967296

/-- `R`: what is known of the text in front of the cursor when the program is entered (used as long as `fresh`) -/
def cwp (R : List Char → Prop) {α : Type} : Prog α → (α → CS → Prop) → CS → Prop
  | .ret a, Q, σ => Q a σ
  | .op (.panic _) _, _, _ => True
  | .op .rest k, Q, σ => ∀ r : List Char, SmallRest r → (σ.fresh = true → R r) → cwp R (k r) Q σ
  | .op o k, Q, σ => cOk o σ ∧ ∀ resp : Resp o, cwp R (k resp) Q (cNext o σ)

namespace cwp
variable {α β : Type} {R : List Char → Prop}

theorem op_iff {o : Op} {k : Resp o → Prog α} {Q : α → CS → Prop} {σ : CS} (ho : ∀ m, o ≠ .panic m) (hr : o ≠ .rest) :
    cwp R (Prog.op o k) Q σ ↔ cOk o σ ∧ ∀ resp : Resp o, cwp R (k resp) Q (cNext o σ) := by
  cases o <;> first | exact Iff.rfl | exact absurd rfl (ho _) | exact absurd rfl hr

theorem rest_iff {k : Resp .rest → Prog α} {Q : α → CS → Prop} {σ : CS} :
    cwp R (Prog.op .rest k) Q σ ↔ ∀ r : List Char, SmallRest r → (σ.fresh = true → R r) → cwp R (k r) Q σ := Iff.rfl

theorem panic_iff {m : String} {k : Resp (.panic m) → Prog α} {Q : α → CS → Prop} {σ : CS} :
    cwp R (Prog.op (.panic m) k) Q σ ↔ True := Iff.rfl

theorem mono {p : Prog α} {Q Q' : α → CS → Prop} (hQ : ∀ a σ, Q a σ → Q' a σ) : ∀ {σ}, cwp R p Q σ → cwp R p Q' σ := by
  induction p with
  | ret a => intro σ h; exact hQ _ _ h
  | op o k ih =>
    intro σ h
    by_cases ho : ∃ m, o = .panic m
    · obtain ⟨m, rfl⟩ := ho; trivial
    · have ho' : ∀ m, o ≠ .panic m := fun m hm => ho ⟨m, hm⟩
      by_cases hr : o = .rest
      · subst hr
        rw [rest_iff] at h ⊢
        exact fun r hs hr => ih r (h r hs hr)
      · rw [op_iff ho' hr] at h ⊢
        exact ⟨h.1, fun resp => ih resp (h.2 resp)⟩

theorem bind_iff {p : Prog α} {f : α → Prog β} {Q : β → CS → Prop} :
    ∀ {σ}, cwp R (p >>= f) Q σ ↔ cwp R p (fun a σ' => cwp R (f a) Q σ') σ := by
  induction p with
  | ret a => intro σ; exact Iff.rfl
  | op o k ih =>
    intro σ
    by_cases ho : ∃ m, o = .panic m
    · obtain ⟨m, rfl⟩ := ho; exact Iff.rfl
    · have ho' : ∀ m, o ≠ .panic m := fun m hm => ho ⟨m, hm⟩
      show cwp R (Prog.op o fun r => k r >>= f) Q σ ↔ _
      by_cases hr : o = .rest
      · subst hr
        rw [rest_iff, rest_iff]
        constructor
        · intro h r hs hr; exact (ih r).1 (h r hs hr)
        · intro h r hs hr; exact (ih r).2 (h r hs hr)
      · rw [op_iff ho' hr, op_iff ho' hr]
        constructor
        · intro h; exact ⟨h.1, fun resp => (ih resp).1 (h.2 resp)⟩
        · intro h; exact ⟨h.1, fun resp => (ih resp).2 (h.2 resp)⟩

@[simp] theorem pure_iff {a : α} {Q : α → CS → Prop} {σ} : cwp R (pure a : Prog α) Q σ ↔ Q a σ := Iff.rfl
@[simp] theorem ret_iff {a : α} {Q : α → CS → Prop} {σ} : cwp R (Prog.ret a) Q σ ↔ Q a σ := Iff.rfl

theorem ite_iff {c : Prop} [Decidable c] {p q : Prog α} {Q : α → CS → Prop} {σ} :
    cwp R (if c then p else q) Q σ ↔ if c then cwp R p Q σ else cwp R q Q σ := by
  split <;> rfl


/-! ### one rule per operation -/
section rules
variable {α : Type} {Q : α → CS → Prop} {σ : CS}

@[cwp_simp] theorem op_rest {k : Resp .rest → Prog α} :
    cwp R (Prog.op .rest k) Q σ ↔ ∀ r : List Char, SmallRest r → (σ.fresh = true → R r) → cwp R (k r) Q σ := Iff.rfl

@[cwp_simp] theorem op_lastTok {k : Resp .lastTok → Prog α} :
    cwp R (Prog.op .lastTok k) Q σ ↔ cOk .lastTok σ ∧ ∀ resp, cwp R (k resp) Q (cNext .lastTok σ) := Iff.rfl

@[cwp_simp] theorem op_lastDefaultTok {k : Resp .lastDefaultTok → Prog α} :
    cwp R (Prog.op .lastDefaultTok k) Q σ ↔ cOk .lastDefaultTok σ ∧ ∀ resp, cwp R (k resp) Q (cNext .lastDefaultTok σ) := Iff.rfl

@[cwp_simp] theorem op_secondLastDefaultTok {k : Resp .secondLastDefaultTok → Prog α} :
    cwp R (Prog.op .secondLastDefaultTok k) Q σ ↔ cOk .secondLastDefaultTok σ ∧ ∀ resp, cwp R (k resp) Q (cNext .secondLastDefaultTok σ) := Iff.rfl

@[cwp_simp] theorem op_hasCheckpoint {k : Resp .hasCheckpoint → Prog α} :
    cwp R (Prog.op .hasCheckpoint k) Q σ ↔ cOk .hasCheckpoint σ ∧ ∀ resp, cwp R (k resp) Q (cNext .hasCheckpoint σ) := Iff.rfl

@[cwp_simp] theorem op_nesting {k : Resp .nesting → Prog α} :
    cwp R (Prog.op .nesting k) Q σ ↔ cOk .nesting σ ∧ ∀ resp, cwp R (k resp) Q (cNext .nesting σ) := Iff.rfl

@[cwp_simp] theorem op_modeDepth {k : Resp .modeDepth → Prog α} :
    cwp R (Prog.op .modeDepth k) Q σ ↔ cOk .modeDepth σ ∧ ∀ resp, cwp R (k resp) Q (cNext .modeDepth σ) := Iff.rfl

@[cwp_simp] theorem op_hasMark {k : Resp .hasMark → Prog α} :
    cwp R (Prog.op .hasMark k) Q σ ↔ cOk .hasMark σ ∧ ∀ resp, cwp R (k resp) Q (cNext .hasMark σ) := Iff.rfl

@[cwp_simp] theorem op_litIsEmpty {k : Resp .litIsEmpty → Prog α} :
    cwp R (Prog.op .litIsEmpty k) Q σ ↔ cOk .litIsEmpty σ ∧ ∀ resp, cwp R (k resp) Q (cNext .litIsEmpty σ) := Iff.rfl

@[cwp_simp] theorem op_pendingText {k : Resp .pendingText → Prog α} :
    cwp R (Prog.op .pendingText k) Q σ ↔ cOk .pendingText σ ∧ ∀ resp, cwp R (k resp) Q (cNext .pendingText σ) := Iff.rfl

@[cwp_simp] theorem op_pendingTextToMark {k : Resp .pendingTextToMark → Prog α} :
    cwp R (Prog.op .pendingTextToMark k) Q σ ↔ cOk .pendingTextToMark σ ∧ ∀ resp, cwp R (k resp) Q (cNext .pendingTextToMark σ) := Iff.rfl

@[cwp_simp] theorem op_pendingTextWithPrev {k : Resp .pendingTextWithPrev → Prog α} :
    cwp R (Prog.op .pendingTextWithPrev k) Q σ ↔ cOk .pendingTextWithPrev σ ∧ ∀ resp, cwp R (k resp) Q (cNext .pendingTextWithPrev σ) := Iff.rfl

@[cwp_simp] theorem op_advance {k : Resp .advance → Prog α} :
    cwp R (Prog.op .advance k) Q σ ↔ cOk .advance σ ∧ ∀ resp, cwp R (k resp) Q (cNext .advance σ) := Iff.rfl

@[cwp_simp] theorem op_advanceBy {n} {k : Resp (.advanceBy n) → Prog α} :
    cwp R (Prog.op (.advanceBy n) k) Q σ ↔ cOk (.advanceBy n) σ ∧ ∀ resp, cwp R (k resp) Q (cNext (.advanceBy n) σ) := Iff.rfl

@[cwp_simp] theorem op_eatWhile {p} {k : Resp (.eatWhile p) → Prog α} :
    cwp R (Prog.op (.eatWhile p) k) Q σ ↔ cOk (.eatWhile p) σ ∧ ∀ resp, cwp R (k resp) Q (cNext (.eatWhile p) σ) := Iff.rfl

@[cwp_simp] theorem op_addLine {k : Resp .addLine → Prog α} :
    cwp R (Prog.op .addLine k) Q σ ↔ cOk .addLine σ ∧ ∀ resp, cwp R (k resp) Q (cNext .addLine σ) := Iff.rfl

@[cwp_simp] theorem op_startToken {k : Resp .startToken → Prog α} :
    cwp R (Prog.op .startToken k) Q σ ↔ cOk .startToken σ ∧ ∀ resp, cwp R (k resp) Q (cNext .startToken σ) := Iff.rfl

@[cwp_simp] theorem op_markIfNone {k : Resp .markIfNone → Prog α} :
    cwp R (Prog.op .markIfNone k) Q σ ↔ cOk .markIfNone σ ∧ ∀ resp, cwp R (k resp) Q (cNext .markIfNone σ) := Iff.rfl

@[cwp_simp] theorem op_clearMark {k : Resp .clearMark → Prog α} :
    cwp R (Prog.op .clearMark k) Q σ ↔ cOk .clearMark σ ∧ ∀ resp, cwp R (k resp) Q (cNext .clearMark σ) := Iff.rfl

@[cwp_simp] theorem op_emitToken {ch ty p} {k : Resp (.emitToken ch ty p) → Prog α} :
    cwp R (Prog.op (.emitToken ch ty p) k) Q σ ↔ cOk (.emitToken ch ty p) σ ∧ ∀ resp, cwp R (k resp) Q (cNext (.emitToken ch ty p) σ) := Iff.rfl

@[cwp_simp] theorem op_emitTokenAtMark {ch ty p} {k : Resp (.emitTokenAtMark ch ty p) → Prog α} :
    cwp R (Prog.op (.emitTokenAtMark ch ty p) k) Q σ ↔ cOk (.emitTokenAtMark ch ty p) σ ∧ ∀ resp, cwp R (k resp) Q (cNext (.emitTokenAtMark ch ty p) σ) := Iff.rfl

@[cwp_simp] theorem op_updateLastToken {ch ty p} {k : Resp (.updateLastToken ch ty p) → Prog α} :
    cwp R (Prog.op (.updateLastToken ch ty p) k) Q σ ↔ cOk (.updateLastToken ch ty p) σ ∧ ∀ resp, cwp R (k resp) Q (cNext (.updateLastToken ch ty p) σ) := Iff.rfl

@[cwp_simp] theorem op_retypeLastDefault {e n} {k : Resp (.retypeLastDefault e n) → Prog α} :
    cwp R (Prog.op (.retypeLastDefault e n) k) Q σ ↔ cOk (.retypeLastDefault e n) σ ∧ ∀ resp, cwp R (k resp) Q (cNext (.retypeLastDefault e n) σ) := Iff.rfl

@[cwp_simp] theorem op_insertSepBeforeLastDefault {k : Resp .insertSepBeforeLastDefault → Prog α} :
    cwp R (Prog.op .insertSepBeforeLastDefault k) Q σ ↔ cOk .insertSepBeforeLastDefault σ ∧ ∀ resp, cwp R (k resp) Q (cNext .insertSepBeforeLastDefault σ) := Iff.rfl

@[cwp_simp] theorem op_emitError {e} {k : Resp (.emitError e) → Prog α} :
    cwp R (Prog.op (.emitError e) k) Q σ ↔ cOk (.emitError e) σ ∧ ∀ resp, cwp R (k resp) Q (cNext (.emitError e) σ) := Iff.rfl

@[cwp_simp] theorem op_prepError {e} {k : Resp (.prepError e) → Prog α} :
    cwp R (Prog.op (.prepError e) k) Q σ ↔ cOk (.prepError e) σ ∧ ∀ resp, cwp R (k resp) Q (cNext (.prepError e) σ) := Iff.rfl

@[cwp_simp] theorem op_emitPrepared {k : Resp .emitPrepared → Prog α} :
    cwp R (Prog.op .emitPrepared k) Q σ ↔ cOk .emitPrepared σ ∧ ∀ resp, cwp R (k resp) Q (cNext .emitPrepared σ) := Iff.rfl

@[cwp_simp] theorem op_pushMode {m} {k : Resp (.pushMode m) → Prog α} :
    cwp R (Prog.op (.pushMode m) k) Q σ ↔ cOk (.pushMode m) σ ∧ ∀ resp, cwp R (k resp) Q (cNext (.pushMode m) σ) := Iff.rfl

@[cwp_simp] theorem op_popMode {k : Resp .popMode → Prog α} :
    cwp R (Prog.op .popMode k) Q σ ↔ cOk .popMode σ ∧ ∀ resp, cwp R (k resp) Q (cNext .popMode σ) := Iff.rfl

@[cwp_simp] theorem op_mode {k : Resp .mode → Prog α} :
    cwp R (Prog.op .mode k) Q σ ↔ cOk .mode σ ∧ ∀ resp, cwp R (k resp) Q (cNext .mode σ) := Iff.rfl

@[cwp_simp] theorem op_popModeRaw {k : Resp .popModeRaw → Prog α} :
    cwp R (Prog.op .popModeRaw k) Q σ ↔ cOk .popModeRaw σ ∧ ∀ resp, cwp R (k resp) Q (cNext .popModeRaw σ) := Iff.rfl

@[cwp_simp] theorem op_modifyTop {f} {k : Resp (.modifyTop f) → Prog α} :
    cwp R (Prog.op (.modifyTop f) k) Q σ ↔ cOk (.modifyTop f) σ ∧ ∀ resp, cwp R (k resp) Q (cNext (.modifyTop f) σ) := Iff.rfl

@[cwp_simp] theorem op_modifyAt {i f} {k : Resp (.modifyAt i f) → Prog α} :
    cwp R (Prog.op (.modifyAt i f) k) Q σ ↔ cOk (.modifyAt i f) σ ∧ ∀ resp, cwp R (k resp) Q (cNext (.modifyAt i f) σ) := Iff.rfl

@[cwp_simp] theorem op_insertModeAt {i m} {k : Resp (.insertModeAt i m) → Prog α} :
    cwp R (Prog.op (.insertModeAt i m) k) Q σ ↔ cOk (.insertModeAt i m) σ ∧ ∀ resp, cwp R (k resp) Q (cNext (.insertModeAt i m) σ) := Iff.rfl

@[cwp_simp] theorem op_checkpoint {k : Resp .checkpoint → Prog α} :
    cwp R (Prog.op .checkpoint k) Q σ ↔ cOk .checkpoint σ ∧ ∀ resp, cwp R (k resp) Q (cNext .checkpoint σ) := Iff.rfl

@[cwp_simp] theorem op_clearCheckpoint {k : Resp .clearCheckpoint → Prog α} :
    cwp R (Prog.op .clearCheckpoint k) Q σ ↔ cOk .clearCheckpoint σ ∧ ∀ resp, cwp R (k resp) Q (cNext .clearCheckpoint σ) := Iff.rfl

@[cwp_simp] theorem op_bumpCheckpointModeLen {n} {k : Resp (.bumpCheckpointModeLen n) → Prog α} :
    cwp R (Prog.op (.bumpCheckpointModeLen n) k) Q σ ↔ cOk (.bumpCheckpointModeLen n) σ ∧ ∀ resp, cwp R (k resp) Q (cNext (.bumpCheckpointModeLen n) σ) := Iff.rfl

@[cwp_simp] theorem op_rollback {k : Resp .rollback → Prog α} :
    cwp R (Prog.op .rollback k) Q σ ↔ cOk .rollback σ ∧ ∀ resp, cwp R (k resp) Q (cNext .rollback σ) := Iff.rfl

@[cwp_simp] theorem op_pushPending {b} {k : Resp (.pushPending b) → Prog α} :
    cwp R (Prog.op (.pushPending b) k) Q σ ↔ cOk (.pushPending b) σ ∧ ∀ resp, cwp R (k resp) Q (cNext (.pushPending b) σ) := Iff.rfl

@[cwp_simp] theorem op_popPending {k : Resp .popPending → Prog α} :
    cwp R (Prog.op .popPending k) Q σ ↔ cOk .popPending σ ∧ ∀ resp, cwp R (k resp) Q (cNext .popPending σ) := Iff.rfl

@[cwp_simp] theorem op_pendingStat {k : Resp .pendingStat → Prog α} :
    cwp R (Prog.op .pendingStat k) Q σ ↔ cOk .pendingStat σ ∧ ∀ resp, cwp R (k resp) Q (cNext .pendingStat σ) := Iff.rfl

@[cwp_simp] theorem op_setPending {b} {k : Resp (.setPending b) → Prog α} :
    cwp R (Prog.op (.setPending b) k) Q σ ↔ cOk (.setPending b) σ ∧ ∀ resp, cwp R (k resp) Q (cNext (.setPending b) σ) := Iff.rfl

@[cwp_simp] theorem op_nestInc {k : Resp .nestInc → Prog α} :
    cwp R (Prog.op .nestInc k) Q σ ↔ cOk .nestInc σ ∧ ∀ resp, cwp R (k resp) Q (cNext .nestInc σ) := Iff.rfl

@[cwp_simp] theorem op_nestDec {k : Resp .nestDec → Prog α} :
    cwp R (Prog.op .nestDec k) Q σ ↔ cOk .nestDec σ ∧ ∀ resp, cwp R (k resp) Q (cNext .nestDec σ) := Iff.rfl

@[cwp_simp] theorem op_litBegin {k : Resp .litBegin → Prog α} :
    cwp R (Prog.op .litBegin k) Q σ ↔ cOk .litBegin σ ∧ ∀ resp, cwp R (k resp) Q (cNext .litBegin σ) := Iff.rfl

@[cwp_simp] theorem op_litBeginAtTok {k : Resp .litBeginAtTok → Prog α} :
    cwp R (Prog.op .litBeginAtTok k) Q σ ↔ cOk .litBeginAtTok σ ∧ ∀ resp, cwp R (k resp) Q (cNext .litBeginAtTok σ) := Iff.rfl

@[cwp_simp] theorem op_litCut {k : Resp .litCut → Prog α} :
    cwp R (Prog.op .litCut k) Q σ ↔ cOk .litCut σ ∧ ∀ resp, cwp R (k resp) Q (cNext .litCut σ) := Iff.rfl

@[cwp_simp] theorem op_litMarkEnd {k : Resp .litMarkEnd → Prog α} :
    cwp R (Prog.op .litMarkEnd k) Q σ ↔ cOk .litMarkEnd σ ∧ ∀ resp, cwp R (k resp) Q (cNext .litMarkEnd σ) := Iff.rfl

@[cwp_simp] theorem op_litResolve {n} {k : Resp (.litResolve n) → Prog α} :
    cwp R (Prog.op (.litResolve n) k) Q σ ↔ cOk (.litResolve n) σ ∧ ∀ resp, cwp R (k resp) Q (cNext (.litResolve n) σ) := Iff.rfl

@[cwp_simp] theorem op_litAddDecoded {cs} {k : Resp (.litAddDecoded cs) → Prog α} :
    cwp R (Prog.op (.litAddDecoded cs) k) Q σ ↔ cOk (.litAddDecoded cs) σ ∧ ∀ resp, cwp R (k resp) Q (cNext (.litAddDecoded cs) σ) := Iff.rfl

@[cwp_simp] theorem op_payClear {k : Resp .payClear → Prog α} :
    cwp R (Prog.op .payClear k) Q σ ↔ cOk .payClear σ ∧ ∀ resp, cwp R (k resp) Q (cNext .payClear σ) := Iff.rfl

@[cwp_simp] theorem op_loopProbe {k : Resp .loopProbe → Prog α} :
    cwp R (Prog.op .loopProbe k) Q σ ↔ cOk .loopProbe σ ∧ ∀ resp, cwp R (k resp) Q (cNext .loopProbe σ) := Iff.rfl

@[cwp_simp] theorem op_emitEofAtCursor {k : Resp .emitEofAtCursor → Prog α} :
    cwp R (Prog.op .emitEofAtCursor k) Q σ ↔ cOk .emitEofAtCursor σ ∧ ∀ resp, cwp R (k resp) Q (cNext .emitEofAtCursor σ) := Iff.rfl

@[cwp_simp] theorem op_dassert {c m} {k : Resp (.dassert c m) → Prog α} :
    cwp R (Prog.op (.dassert c m) k) Q σ ↔ cOk (.dassert c m) σ ∧ ∀ resp, cwp R (k resp) Q (cNext (.dassert c m) σ) := Iff.rfl

@[cwp_simp] theorem op_panic {m} {k : Resp (.panic m) → Prog α} : cwp R (Prog.op (.panic m) k) Q σ ↔ True := Iff.rfl

end rules

attribute [cwp_simp] bind_iff pure_iff ret_iff ite_iff

end cwp

attribute [irreducible] cwp

theorem ite_intro' {c : Prop} [Decidable c] {P Q : Prop} (hp : c → P) (hq : ¬c → Q) : if c then P else Q := by
  split
  · exact hp ‹_›
  · exact hq ‹_›

/-- `cwp_auto [callee lemmas]`: symbolic evaluation of `cwp`, walking through the evaluated condition -/
syntax "cwp_auto" "[" term,* "]" : tactic
macro_rules
  | `(tactic| cwp_auto [$ls,*]) => `(tactic| repeat' (first
      | (intro h; first | (simp at h; done) | skip)
      | (simp only [cwp_simp, cOk, cNext])
      | (first $[| apply $ls]*)
      | refine ⟨?_, ?_⟩
      | apply ite_intro'
      | split))

end SasLexer
