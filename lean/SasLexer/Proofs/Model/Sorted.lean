import SasLexer.Proofs.Kernel.Mono
import SasLexer.Proofs.Kernel.ErrAnchor
import SasLexer.Proofs.Model.DiscTop
set_option linter.unusedSimpArgs false
/-!
# Token starts never decrease — in both build profiles (`swp`)

The debug build *asserts* that a token does not start before its predecessor (`KMono`: sorted unless that assertion
fired).  This file proves it of the control logic itself, so that it holds for release builds too.

Abstract state: `stale` — the newest token may start after the pending token start (after `emitTokenAtMark` /
`emitEofAtCursor`, until the next `startToken`); `mk` — what is known of the mark register; `cpc` — the live
checkpoint, if any, was taken in a non-stale state.  Responses are not consulted at all.
-/
namespace SasLexer
open Lexer

inductive MK where | none | valid | invalid
  deriving DecidableEq

structure SS where
  stale : Bool
  mrk : MK
  cpc : Bool

def sOk : Op → SS → Prop
  | .emitToken _ _ _, σ => σ.stale = false
  | .emitTokenAtMark _ _ _, σ => σ.stale = false ∧ σ.mrk ≠ .invalid
  | _, _ => True

def sNext : Op → SS → SS
  | .startToken, σ => { σ with stale := false, mrk := match σ.mrk with | .none => .none | _ => .invalid }
  | .emitTokenAtMark _ _ _, σ => { σ with stale := true }
  | .emitEofAtCursor, σ => { σ with stale := true }
  | .markIfNone, σ => { σ with mrk := match σ.mrk with | .none => .valid | m => m }
  | .clearMark, σ => { σ with mrk := .none }
  | .checkpoint, σ => { σ with cpc := !σ.stale }
  | .clearCheckpoint, σ => { σ with cpc := true }
  | .rollback, σ => { σ with stale := σ.stale || !σ.cpc, mrk := match σ.mrk with | .none => .none | _ => .invalid }
  | _, σ => σ

def swp {α : Type} : Prog α → (α → SS → Prop) → SS → Prop
  | .ret a, Q, σ => Q a σ
  | .op (.panic _) _, _, _ => True
  | .op o k, Q, σ => sOk o σ ∧ ∀ r, swp (k r) Q (sNext o σ)

namespace swp
variable {α β : Type}

theorem op_iff {o : Op} {k : Resp o → Prog α} {Q : α → SS → Prop} {σ : SS} (ho : ∀ m, o ≠ .panic m) :
    swp (Prog.op o k) Q σ ↔ sOk o σ ∧ ∀ r, swp (k r) Q (sNext o σ) := by
  cases o <;> first | exact Iff.rfl | exact absurd rfl (ho _)

theorem mono {p : Prog α} {Q Q' : α → SS → Prop} (hQ : ∀ a σ, Q a σ → Q' a σ) : ∀ {σ}, swp p Q σ → swp p Q' σ := by
  induction p with
  | ret a => intro σ h; exact hQ _ _ h
  | op o k ih =>
    intro σ h
    by_cases ho : ∃ m, o = .panic m
    · obtain ⟨m, rfl⟩ := ho; trivial
    · have ho' : ∀ m, o ≠ .panic m := fun m hm => ho ⟨m, hm⟩
      rw [op_iff ho'] at h ⊢
      exact ⟨h.1, fun r => ih r (h.2 r)⟩

theorem bind_iff {p : Prog α} {f : α → Prog β} {Q : β → SS → Prop} :
    ∀ {σ}, swp (p >>= f) Q σ ↔ swp p (fun a σ' => swp (f a) Q σ') σ := by
  induction p with
  | ret a => intro σ; exact Iff.rfl
  | op o k ih =>
    intro σ
    by_cases ho : ∃ m, o = .panic m
    · obtain ⟨m, rfl⟩ := ho; exact Iff.rfl
    · have ho' : ∀ m, o ≠ .panic m := fun m hm => ho ⟨m, hm⟩
      show swp (Prog.op o fun r => k r >>= f) Q σ ↔ _
      rw [op_iff ho', op_iff ho']
      constructor
      · intro h; exact ⟨h.1, fun r => (ih r).1 (h.2 r)⟩
      · intro h; exact ⟨h.1, fun r => (ih r).2 (h.2 r)⟩

theorem ite_iff {c : Prop} [Decidable c] {p q : Prog α} {Q : α → SS → Prop} {σ : SS} :
    swp (if c then p else q) Q σ ↔ if c then swp p Q σ else swp q Q σ := by
  split <;> rfl

theorem ite_intro {c : Prop} [Decidable c] {a b : Prop} (ht : c → a) (he : ¬c → b) : if c then a else b := by
  split
  · exact ht ‹_›
  · exact he ‹_›

@[simp] theorem pure_iff {a : α} {Q : α → SS → Prop} {σ : SS} : swp (pure a : Prog α) Q σ ↔ Q a σ := Iff.rfl
@[simp] theorem ret_iff {a : α} {Q : α → SS → Prop} {σ : SS} : swp (Prog.ret a) Q σ ↔ Q a σ := Iff.rfl

end swp

/-! ## the concrete invariant -/

structure SInv (σ : SS) (L : Lexer) : Prop where
  sorted : SortedR L.toksR
  le : ∀ t ∈ L.toksR, t.byte ≤ L.curByte
  tokLe : L.tok.byte ≤ L.curByte
  fresh : σ.stale = false → ∀ t ∈ L.toksR, t.byte ≤ L.tok.byte
  markN : σ.mrk = .none → L.mark = none
  markV : σ.mrk = .valid → ∀ m, L.mark = some m → L.tok.byte ≤ m.byte ∧ m.byte ≤ L.curByte
  cp : ∀ c, L.cp = some c → c.nToks ≤ L.toksR.length ∧ c.tok.byte ≤ L.srcLen - c.cur.remBytes ∧
        (∀ t ∈ truncR L.toksR c.nToks, t.byte ≤ L.srcLen - c.cur.remBytes) ∧
        (σ.cpc = true → ∀ t ∈ truncR L.toksR c.nToks, t.byte ≤ c.tok.byte)

theorem truncR_mapS {α β} (f : α → β) (l : List α) (n : Nat) : (truncR l n).map f = truncR (l.map f) n := by
  unfold truncR; simp [List.map_drop]

theorem retype_truncR {e n : TokenType} {ts ts' : List TokInfo} (h : retypeLastDefaultAux e n ts = some ts') (k : Nat) :
    (truncR ts' k).map (·.byte) = (truncR ts k).map (·.byte) := by
  rw [truncR_mapS, truncR_mapS, retype_sorted h]

theorem insertSep_truncR : ∀ {ts ts' : List TokInfo}, insertSepAux ts = some ts' → ∀ n, n ≤ ts.length →
    ∀ x ∈ truncR ts' n, ∃ y ∈ truncR ts n, x.byte = y.byte
  | [], _, h, _, _ => by simp [insertSepAux] at h
  | t :: r, ts', h, n, hn => by
    unfold insertSepAux at h
    split at h
    · simp only [Option.some.injEq] at h; subst h
      intro x hx
      by_cases hn' : n = r.length + 1
      · subst hn'
        have e1 : truncR (t :: { t with chan := .DEFAULT, ty := .MacroSep, payload := .none } :: r) (r.length + 1) =
            { t with chan := .DEFAULT, ty := .MacroSep, payload := .none } :: r := by
          unfold truncR; simp
        have e2 : truncR (t :: r) (r.length + 1) = t :: r := by unfold truncR; simp
        rw [e1] at hx; rw [e2]
        simp only [List.mem_cons] at hx
        rcases hx with rfl | hx
        · exact ⟨t, by simp, rfl⟩
        · exact ⟨x, by simp [hx], rfl⟩
      · have hn2 : n ≤ r.length := by simp only [List.length_cons] at hn; omega
        have e1 : truncR (t :: { t with chan := .DEFAULT, ty := .MacroSep, payload := .none } :: r) n = truncR r n := by
          rw [truncR_cons_of_le _ _ (by simp; omega), truncR_cons_of_le _ _ hn2]
        have e2 : truncR (t :: r) n = truncR r n := truncR_cons_of_le _ _ hn2
        rw [e1] at hx; rw [e2]
        exact ⟨x, hx, rfl⟩
    · cases hr : insertSepAux r with
      | none => simp [hr] at h
      | some r' =>
        simp only [hr, Option.map_some, Option.some.injEq] at h; subst h
        have hlen : r'.length = r.length + 1 := length_insertSep hr
        intro x hx
        by_cases hn' : n = r.length + 1
        · subst hn'
          have e1 : truncR (t :: r') (r.length + 1) = r' := by
            rw [truncR_cons_of_le _ _ (by omega)]; rw [← hlen]; exact truncR_self _
          have e2 : truncR (t :: r) (r.length + 1) = t :: r := by unfold truncR; simp
          rw [e1] at hx; rw [e2]
          obtain ⟨y, hy, hb, _⟩ := insertSep_pos hr x hx
          exact ⟨y, by simp [hy], hb⟩
        · have hn2 : n ≤ r.length := by simp only [List.length_cons] at hn; omega
          have e1 : truncR (t :: r') n = truncR r' n := truncR_cons_of_le _ _ (by omega)
          have e2 : truncR (t :: r) n = truncR r n := truncR_cons_of_le _ _ hn2
          rw [e1] at hx; rw [e2]
          exact insertSep_truncR hr n hn2 x hx


namespace SInv
variable {σ : SS} {L : Lexer} {cfg : Cfg}

/-- `SInv` reads the token bytes, the cursor's remaining bytes, the source length, the pending token start, the
mark, the checkpoint -/
theorem frame {L' : Lexer} (h : SInv σ L) (e1 : L'.toksR = L.toksR) (e2 : L'.cur = L.cur) (e3 : L'.srcLen = L.srcLen)
    (e4 : L'.tok = L.tok) (e5 : L'.mark = L.mark) (e6 : L'.cp = L.cp) : SInv σ L' := by
  have ec : L'.curByte = L.curByte := by simp [Lexer.curByte, e2, e3]
  constructor
  · rw [e1]; exact h.sorted
  · rw [e1, ec]; exact h.le
  · rw [e4, ec]; exact h.tokLe
  · rw [e1, e4]; exact h.fresh
  · rw [e5]; exact h.markN
  · rw [e5, e4, ec]; exact h.markV
  · rw [e6, e1, e3]; exact h.cp

/-- the cursor moves forward -/
theorem forward {L' : Lexer} (h : SInv σ L) (e1 : L'.toksR = L.toksR) (e2 : L'.cur.remBytes ≤ L.cur.remBytes)
    (e3 : L'.srcLen = L.srcLen) (e4 : L'.tok = L.tok) (e5 : L'.mark = L.mark) (e6 : L'.cp = L.cp) : SInv σ L' := by
  have ec : L.curByte ≤ L'.curByte := by simp only [Lexer.curByte, e3]; omega
  constructor
  · rw [e1]; exact h.sorted
  · rw [e1]; intro t ht; exact Nat.le_trans (h.le t ht) ec
  · rw [e4]; exact Nat.le_trans h.tokLe ec
  · rw [e1, e4]; exact h.fresh
  · rw [e5]; exact h.markN
  · rw [e5, e4]; intro hv m hm; exact ⟨(h.markV hv m hm).1, Nat.le_trans (h.markV hv m hm).2 ec⟩
  · rw [e6, e1, e3]; exact h.cp

/-- the abstract state may forget -/
theorem weaken {σ' : SS} (h : SInv σ L) (h1 : σ'.stale = false → σ.stale = false) (h2 : σ'.mrk = .none → σ.mrk = .none)
    (h3 : σ'.mrk = .valid → σ.mrk = .valid) (h4 : σ'.cpc = true → σ.cpc = true) : SInv σ' L :=
  { sorted := h.sorted, le := h.le, tokLe := h.tokLe, fresh := fun hs => h.fresh (h1 hs), markN := fun hm => h.markN (h2 hm),
    markV := fun hm => h.markV (h3 hm),
    cp := fun c hc => ⟨(h.cp c hc).1, (h.cp c hc).2.1, (h.cp c hc).2.2.1, fun hcc => (h.cp c hc).2.2.2 (h4 hcc)⟩ }

/-- the token list changes but every byte offset is one that was there, the newest keeps its offset, and the oldest
`n` keep theirs for every `n` a checkpoint can hold -/
theorem withToks {ts : List TokInfo} {p : Option String} (h : SInv σ L) (hs : SortedR ts)
    (hmem : ∀ x ∈ ts, ∃ y ∈ L.toksR, x.byte = y.byte) (hlen : L.toksR.length ≤ ts.length)
    (htr : ∀ n, n ≤ L.toksR.length → ∀ x ∈ truncR ts n, ∃ y ∈ truncR L.toksR n, x.byte = y.byte) :
    SInv σ { L with toksR := ts, panicked := p } := by
  constructor
  · exact hs
  · intro t ht; obtain ⟨y, hy, hb⟩ := hmem t ht; rw [hb]; exact h.le y hy
  · exact h.tokLe
  · intro hst t ht; obtain ⟨y, hy, hb⟩ := hmem t ht; rw [hb]; exact h.fresh hst y hy
  · exact h.markN
  · exact h.markV
  · intro c hc
    obtain ⟨h1, h2, h3, h4⟩ := h.cp c hc
    refine ⟨Nat.le_trans h1 hlen, h2, ?_, ?_⟩
    · intro t ht; obtain ⟨y, hy, hb⟩ := htr _ h1 t ht; rw [hb]; exact h3 y hy
    · intro hcc t ht; obtain ⟨y, hy, hb⟩ := htr _ h1 t ht; rw [hb]; exact h4 hcc y hy

/-- a token is appended whose start is not before the newest one and not after the cursor -/
theorem push {σ' : SS} (h : SInv σ L) (t : TokInfo) (h1 : ∀ x ∈ L.toksR, x.byte ≤ t.byte) (h2 : t.byte ≤ L.curByte)
    (hm : σ'.mrk = σ.mrk) (hc : σ'.cpc = σ.cpc)
    (h3 : σ'.stale = false → σ.stale = false ∧ t.byte ≤ L.tok.byte) : SInv σ' (L.bufAddToken cfg t) := by
  constructor
  · simp only [Lexer.bufAddToken]
    unfold SortedR; rw [List.pairwise_cons]; exact ⟨h1, h.sorted⟩
  · intro x hx
    simp only [Lexer.bufAddToken, List.mem_cons] at hx
    rcases hx with rfl | hx
    · exact h2
    · exact h.le x hx
  · exact h.tokLe
  · intro hs x hx
    simp only [Lexer.bufAddToken, List.mem_cons] at hx
    rcases hx with rfl | hx
    · exact (h3 hs).2
    · exact h.fresh (h3 hs).1 x hx
  · rw [hm]; exact h.markN
  · rw [hm]; exact h.markV
  · intro c hcc
    obtain ⟨h1', h2', h3', h4'⟩ := h.cp c hcc
    simp only [Lexer.bufAddToken]
    refine ⟨by simp; omega, h2', ?_, ?_⟩
    · rw [truncR_cons_of_le _ _ h1']; exact h3'
    · rw [truncR_cons_of_le _ _ h1', hc]; exact h4'

end SInv


section fieldsS
variable (cfg : Cfg) (L : Lexer)
theorem lastLineOrAdd_S : (L.lastLineOrAdd cfg).2.toksR = L.toksR ∧ (L.lastLineOrAdd cfg).2.cur = L.cur ∧
    (L.lastLineOrAdd cfg).2.srcLen = L.srcLen ∧ (L.lastLineOrAdd cfg).2.tok = L.tok ∧ (L.lastLineOrAdd cfg).2.mark = L.mark ∧
    (L.lastLineOrAdd cfg).2.cp = L.cp := by
  unfold Lexer.lastLineOrAdd; split <;> simp [Lexer.addLine, Lexer.bufAddLine]
theorem pendingTextFrom_S (a b k) : (L.pendingTextFrom a b k).2.toksR = L.toksR ∧ (L.pendingTextFrom a b k).2.cur = L.cur ∧
    (L.pendingTextFrom a b k).2.srcLen = L.srcLen ∧ (L.pendingTextFrom a b k).2.tok = L.tok ∧ (L.pendingTextFrom a b k).2.mark = L.mark ∧
    (L.pendingTextFrom a b k).2.cp = L.cp := by
  unfold Lexer.pendingTextFrom; split <;> simp [Lexer.emitError, Lexer.emitErrorInfo]
end fieldsS

theorem eatWhileAux_rem (p : Char → Bool) : ∀ (r : List Char) (co rb : Nat), (Cursor.eatWhileAux p r co rb).2.2 ≤ rb := by
  intro r
  induction r with
  | nil => intro co rb; simp [Cursor.eatWhileAux]
  | cons ch r ih =>
    intro co rb
    simp only [Cursor.eatWhileAux]; split
    · exact Nat.le_trans (ih _ _) (Nat.sub_le _ _)
    · exact Nat.le_refl _

theorem advanceBy_rem : ∀ (n : Nat) (c : Cursor), (c.advanceBy n).remBytes ≤ c.remBytes := by
  intro n
  induction n with
  | zero => intro c; simp [Cursor.advanceBy]
  | succ n ih =>
    intro c
    simp only [Cursor.advanceBy]; split
    · exact Nat.le_refl _
    · exact Nat.le_trans (ih _) (Nat.sub_le _ _)

theorem step_SInv (cfg : Cfg) (o : Op) (L : Lexer) (σ : SS) (h : SInv σ L) (ho : sOk o σ) :
    SInv (sNext o σ) (step cfg o L).2 := by
  have same : ∀ {L' : Lexer}, L'.toksR = L.toksR → L'.cur = L.cur → L'.srcLen = L.srcLen → L'.tok = L.tok →
      L'.mark = L.mark → L'.cp = L.cp → SInv σ L' := fun e1 e2 e3 e4 e5 e6 => h.frame e1 e2 e3 e4 e5 e6
  cases o <;> simp only [step, sNext] at ho ⊢
  case rest | lastTok | lastDefaultTok | secondLastDefaultTok | hasCheckpoint | nesting | modeDepth | hasMark
     | litIsEmpty | loopProbe => exact h
  case advance =>
    refine h.forward rfl ?_ rfl rfl rfl rfl
    simp only [Cursor.advance]; split
    · exact Nat.le_refl _
    · exact Nat.sub_le _ _
  case advanceBy n => exact h.forward rfl (advanceBy_rem _ _) rfl rfl rfl rfl
  case eatWhile p => exact h.forward rfl (eatWhileAux_rem p _ _ _) rfl rfl rfl rfl
  case startToken =>
    obtain ⟨e1, e2, e3, e4, e5, e6⟩ := lastLineOrAdd_S cfg L
    have ec : (L.lastLineOrAdd cfg).2.curByte = L.curByte := by simp [Lexer.curByte, e2, e3]
    unfold Lexer.startToken
    constructor
    · simp only [e1]; exact h.sorted
    · simp only [e1, Lexer.curByte, e2, e3]; exact h.le
    · simp only [Lexer.curByte, e2, e3]; exact Nat.le_refl _
    · intro _ t ht; simp only [e1] at ht ⊢; exact h.le t ht
    · intro hm
      simp only [e5]
      apply h.markN
      revert hm; cases σ.mrk <;> simp
    · intro hm; exfalso; revert hm; cases σ.mrk <;> simp
    · intro c hc
      simp only [e6, e1, e3] at hc ⊢
      exact h.cp c hc
  case emitToken ch ty p =>
    exact h.push _ (fun x hx => h.fresh ho x hx) h.tokLe rfl rfl (fun hs => ⟨hs, Nat.le_refl _⟩)
  case emitTokenAtMark ch ty p =>
    unfold Lexer.emitTokenAtMark
    cases hm : L.mark with
    | none => exact h.weaken (by intro hs; cases hs) id id id
    | some m =>
      have hv : σ.mrk = .valid := by
        cases hk : σ.mrk with
        | none => have := h.markN hk; rw [hm] at this; cases this
        | valid => rfl
        | invalid => exact absurd hk ho.2
      obtain ⟨b1, b2⟩ := h.markV hv m hm
      exact h.push (cfg := cfg) ⟨ch, ty, m.byte, m.start, m.line, p.resolve L⟩
        (fun x hx => Nat.le_trans (h.fresh ho.1 x hx) b1) b2 rfl rfl (fun hs => by cases hs)
  case updateLastToken ch ty p =>
    unfold Lexer.updateLastToken
    cases hl : L.toksR with
    | cons t ts =>
      have := h.withToks (ts := { t with chan := ch, ty := ty, payload := p.resolve L } :: ts) (p := L.panicked)
        (SortedR.of_bytes (by simp [hl]) h.sorted)
        (by intro x hx; simp only [List.mem_cons] at hx
            rcases hx with rfl | hx
            · exact ⟨t, by simp [hl], rfl⟩
            · exact ⟨x, by simp [hl, hx], rfl⟩)
        (by simp [hl])
        (by intro n hn x hx
            have e : (truncR ({ t with chan := ch, ty := ty, payload := p.resolve L } :: ts) n).map (·.byte) =
                (truncR L.toksR n).map (·.byte) := by rw [truncR_mapS, truncR_mapS, hl]; rfl
            have hx' : x.byte ∈ (truncR ({ t with chan := ch, ty := ty, payload := p.resolve L } :: ts) n).map (·.byte) :=
              List.mem_map_of_mem hx
            rw [e] at hx'
            obtain ⟨y, hy, hb⟩ := List.mem_map.1 hx'
            exact ⟨y, hy, hb.symm⟩)
      exact this
    | nil =>
      simp only
      have h' : SInv σ (L.emitError .InternalErrorNoTokenToReplace) := h.frame rfl rfl rfl rfl rfl rfl
      refine h'.push _ ?_ h.tokLe rfl rfl (fun hs => ⟨hs, Nat.le_refl _⟩)
      intro x hx; simp [Lexer.emitError, Lexer.emitErrorInfo, hl] at hx
  case retypeLastDefault e n =>
    split
    · rename_i ts hts
      have hb := retype_sorted hts
      refine h.withToks (p := L.panicked) (SortedR.of_bytes hb h.sorted) ?_ (by
        have := congrArg List.length hb; simp at this; omega) ?_
      · intro x hx
        have : x.byte ∈ ts.map (·.byte) := List.mem_map_of_mem hx
        rw [hb] at this
        obtain ⟨y, hy, hyb⟩ := List.mem_map.1 this
        exact ⟨y, hy, hyb.symm⟩
      · intro k _ x hx
        have : x.byte ∈ (truncR ts k).map (·.byte) := List.mem_map_of_mem hx
        rw [retype_truncR hts] at this
        obtain ⟨y, hy, hyb⟩ := List.mem_map.1 this
        exact ⟨y, hy, hyb.symm⟩
    · exact h
  case insertSepBeforeLastDefault =>
    split
    · split
      · rename_i ts hts
        refine h.withToks (p := L.panicked) (insertSep_sorted hts h.sorted) ?_ (by rw [length_insertSep hts]; omega) ?_
        · intro x hx
          obtain ⟨y, hy, hb, _⟩ := insertSep_pos hts x hx
          exact ⟨y, hy, hb⟩
        · intro k hk x hx; exact insertSep_truncR hts k hk x hx
      · exact h
    · exact h
  case markIfNone =>
    unfold Lexer.markIfNone
    cases hm : L.mark with
    | some m =>
      simp only
      refine h.weaken id ?_ ?_ id
      · intro hk; revert hk; cases σ.mrk <;> simp
      · intro hk
        cases hs : σ.mrk with
        | none => have := h.markN hs; rw [hm] at this; cases this
        | valid => rfl
        | invalid => rw [hs] at hk; cases hk
    | none =>
      obtain ⟨e1, e2, e3, e4, e5, e6⟩ := lastLineOrAdd_S cfg L
      simp only
      constructor
      · simp only [e1]; exact h.sorted
      · simp only [e1, Lexer.curByte, e2, e3]; exact h.le
      · simp only [e4, Lexer.curByte, e2, e3]; exact h.tokLe
      · intro hs; simp only [e1, e4]; exact h.fresh hs
      · intro hk; exfalso; revert hk; cases σ.mrk <;> simp
      · intro _ m' hm'
        simp only [Option.some.injEq] at hm'
        subst hm'
        simp only [e4, Lexer.curByte, e2, e3]
        exact ⟨h.tokLe, Nat.le_refl _⟩
      · intro c hc
        simp only [e6, e1, e3] at hc ⊢
        exact h.cp c hc
  case clearMark =>
    exact { sorted := h.sorted, le := h.le, tokLe := h.tokLe, fresh := h.fresh, markN := fun _ => rfl,
            markV := fun hk => (by cases hk), cp := h.cp }
  case checkpoint =>
    constructor
    · exact h.sorted
    · exact h.le
    · exact h.tokLe
    · exact h.fresh
    · exact h.markN
    · exact h.markV
    · intro c hc
      simp only [Lexer.checkpoint, Option.some.injEq] at hc
      subst hc
      simp only [Lexer.checkpoint, Lexer.dassert, truncR_self]
      refine ⟨Nat.le_refl _, h.tokLe, h.le, ?_⟩
      intro hcc
      simp only [Bool.not_eq_true'] at hcc
      exact h.fresh hcc
  case clearCheckpoint =>
    exact { sorted := h.sorted, le := h.le, tokLe := h.tokLe, fresh := h.fresh, markN := h.markN, markV := h.markV,
            cp := by intro c hc; simp [Lexer.clearCheckpoint] at hc }
  case bumpCheckpointModeLen n =>
    refine { sorted := h.sorted, le := h.le, tokLe := h.tokLe, fresh := h.fresh, markN := h.markN, markV := h.markV, cp := ?_ }
    intro c hc
    cases hcp : L.cp with
    | none => simp [hcp] at hc
    | some c0 =>
      simp only [hcp, Option.map_some, Option.some.injEq] at hc
      subst hc
      exact h.cp c0 hcp
  case rollback =>
    unfold Lexer.rollback
    cases hc : L.cp with
    | none =>
      simp only
      have h' : SInv σ (L.emitError .InternalErrorMissingCheckpoint) := h.frame rfl rfl rfl rfl rfl rfl
      refine h'.weaken ?_ ?_ ?_ id
      · intro hs; simp only [Bool.or_eq_false_iff] at hs; exact hs.1
      · intro hk; revert hk; cases σ.mrk <;> simp
      · intro hk; exfalso; revert hk; cases σ.mrk <;> simp
    | some c =>
      obtain ⟨h1, h2, h3, h4⟩ := h.cp c hc
      simp only
      constructor
      · exact h.sorted.truncR _
      · intro t ht; exact h3 t ht
      · exact h2
      · intro hs
        simp only [Bool.or_eq_false_iff, Bool.not_eq_false'] at hs
        exact h4 hs.2
      · intro hk; apply h.markN; revert hk; cases σ.mrk <;> simp
      · intro hk; exfalso; revert hk; cases σ.mrk <;> simp
      · intro c' hc'; simp at hc'
  case emitEofAtCursor =>
    obtain ⟨e1, e2, e3, e4, e5, e6⟩ := lastLineOrAdd_S cfg L
    have h' : SInv σ (L.lastLineOrAdd cfg).2 := h.frame e1 e2 e3 e4 e5 e6
    exact h'.push (cfg := cfg) ⟨.DEFAULT, .EOF, (L.lastLineOrAdd cfg).2.curByte, (L.lastLineOrAdd cfg).2.curChar, (L.lastLineOrAdd cfg).1, .none⟩
      (fun x hx => h'.le x hx) (Nat.le_refl _) rfl rfl (fun hs => by cases hs)
  case pendingText =>
    obtain ⟨e1, e2, e3, e4, e5, e6⟩ := pendingTextFrom_S L L.tok.byte L.curByte .InternalErrorNoTokenText
    exact same e1 e2 e3 e4 e5 e6
  case pendingTextToMark =>
    obtain ⟨e1, e2, e3, e4, e5, e6⟩ := pendingTextFrom_S L L.tok.byte (match L.mark with | some m => m.byte | none => L.curByte) .InternalErrorNoTokenText
    exact same e1 e2 e3 e4 e5 e6
  case pendingTextWithPrev =>
    obtain ⟨e1, e2, e3, e4, e5, e6⟩ := pendingTextFrom_S L (L.tok.byte - 1) L.curByte .InternalErrorNoTokenText
    exact same e1 e2 e3 e4 e5 e6
  case addLine => exact same rfl rfl rfl rfl rfl rfl
  case emitError k => exact same rfl rfl rfl rfl rfl rfl
  case prepError k => exact same rfl rfl rfl rfl rfl rfl
  case emitPrepared => split <;> first | exact same rfl rfl rfl rfl rfl rfl | exact h
  case pushMode m => exact same rfl rfl rfl rfl rfl rfl
  case popMode => unfold Lexer.popMode; split <;> exact same rfl rfl rfl rfl rfl rfl
  case mode => unfold Lexer.mode; split <;> first | exact h | exact same rfl rfl rfl rfl rfl rfl
  case popModeRaw => split <;> first | exact same rfl rfl rfl rfl rfl rfl | exact h
  case modifyTop f => split <;> first | exact same rfl rfl rfl rfl rfl rfl | exact h
  case modifyAt i f => split <;> first | exact same rfl rfl rfl rfl rfl rfl | exact h
  case insertModeAt i m => split <;> exact same rfl rfl rfl rfl rfl rfl
  case pushPending b => exact same rfl rfl rfl rfl rfl rfl
  case popPending => unfold Lexer.popPendingStat; split <;> first | exact same rfl rfl rfl rfl rfl rfl | exact h
  case pendingStat => unfold Lexer.pendingStat; split <;> first | exact same rfl rfl rfl rfl rfl rfl | exact h
  case setPending b => unfold Lexer.setPendingStat; split <;> exact same rfl rfl rfl rfl rfl rfl
  case nestInc | nestDec | litBegin | litBeginAtTok | litMarkEnd | payClear | litAddDecoded => exact same rfl rfl rfl rfl rfl rfl
  case litCut =>
    refine same ?_ ?_ ?_ ?_ ?_ ?_ <;> (simp only [Lexer.addStringLiteralFromSrc]; split <;> rfl)
  case litResolve back =>
    split
    · exact same rfl rfl rfl rfl rfl rfl
    · refine same ?_ ?_ ?_ ?_ ?_ ?_ <;> (simp only [Lexer.addStringLiteralFromSrc]; split <;> rfl)
  case dassert c m => exact same rfl rfl rfl rfl rfl rfl
  case panic m => exact same rfl rfl rfl rfl rfl rfl


theorem swp_sound (cfg : Cfg) {α : Type} (p : Prog α) : ∀ (Q : α → SS → Prop) (σ : SS) (L : Lexer), swp p Q σ → SInv σ L →
    SortedR (Prog.run cfg p L).2.toksR ∧ ∀ a, (Prog.run cfg p L).1 = some a → ∃ σ', Q a σ' ∧ SInv σ' (Prog.run cfg p L).2 := by
  induction p with
  | ret a =>
    intro Q σ L h hi
    refine ⟨hi.sorted, ?_⟩
    intro b hb
    simp only [Prog.run, Option.some.injEq] at hb
    subst hb
    exact ⟨σ, h, hi⟩
  | op o k ih =>
    intro Q σ L h hi
    rw [run_op]
    by_cases ho : ∃ m, o = .panic m
    · obtain ⟨m, rfl⟩ := ho
      have hk := step_SInv cfg (.panic m) L σ hi trivial
      cases hp : (step cfg (.panic m) L).2.panicked with
      | some m' => exact ⟨hk.sorted, by intro a ha; simp at ha⟩
      | none =>
        exfalso
        simp only [step, Lexer.panic] at hp
        cases hL : L.panicked <;> simp [hL, Lexer.chk] at hp
    · have ho' : ∀ m, o ≠ .panic m := fun m hm => ho ⟨m, hm⟩
      rw [swp.op_iff ho'] at h
      have hs := step_SInv cfg o L σ hi h.1
      cases hp : (step cfg o L).2.panicked with
      | some m' => exact ⟨hs.sorted, by intro a ha; simp at ha⟩
      | none => exact ih _ Q _ _ (h.2 _) hs

/-! ## the calculus for the control logic -/

/-- entered with a fresh token start, leaves one: the scanners and everything they call -/
def SClean {α : Type} (p : Prog α) : Prop :=
  ∀ (Q : α → SS → Prop) (σ : SS), σ.stale = false → (∀ a σ', σ'.stale = false → Q a σ') → swp p Q σ
/-- entered with a fresh token start; may leave a stale one -/
def SC {α : Type} (p : Prog α) : Prop :=
  ∀ (Q : α → SS → Prop) (σ : SS), σ.stale = false → (∀ a σ', Q a σ') → swp p Q σ
/-- safe from every state: the dispatchers (they call `startToken` before they emit) -/
def SAny {α : Type} (p : Prog α) : Prop := ∀ (Q : α → SS → Prop) (σ : SS), (∀ a σ', Q a σ') → swp p Q σ

theorem SClean.sc {α} {p : Prog α} (h : SClean p) : SC p := fun Q σ hs hQ => h Q σ hs (fun a σ' _ => hQ a σ')
theorem SAny.sc {α} {p : Prog α} (h : SAny p) : SC p := fun Q σ _ hQ => h Q σ hQ

/-- operations after which the token start is still fresh if it was -/
def keepsFresh : Op → Bool
  | .emitTokenAtMark _ _ _ | .emitEofAtCursor | .rollback => false
  | _ => true

namespace SClean
variable {α β : Type}
theorem pure (a : α) : SClean (Pure.pure a : Prog α) := fun _ _ hs hQ => hQ a _ hs
theorem bind {p : Prog α} {f : α → Prog β} (hp : SClean p) (hf : ∀ a, SClean (f a)) : SClean (p >>= f) := by
  intro Q σ hs hQ
  rw [swp.bind_iff]
  exact hp _ σ hs (fun a σ' hs' => hf a Q σ' hs' hQ)
theorem ite {c : Prop} [Decidable c] {p q : Prog α} (hp : SClean p) (hq : SClean q) : SClean (if c then p else q) := by
  split
  · exact hp
  · exact hq
theorem op (o : Op) (h1 : keepsFresh o = true) : SClean (Prog.perform o) := by
  intro Q σ hs hQ
  by_cases hp : ∃ m, o = .panic m
  · obtain ⟨m, rfl⟩ := hp; trivial
  · rw [Prog.perform, swp.op_iff (fun m hm => hp ⟨m, hm⟩)]
    refine ⟨?_, fun r => hQ _ _ ?_⟩
    · cases o <;> first | trivial | exact hs | (simp [keepsFresh] at h1)
    · cases o <;> first | exact hs | rfl | (simp [keepsFresh] at h1)
end SClean

namespace SC
variable {α β : Type}
theorem bind {p : Prog α} {f : α → Prog β} (hp : SClean p) (hf : ∀ a, SC (f a)) : SC (p >>= f) := by
  intro Q σ hs hQ
  rw [swp.bind_iff]
  exact hp _ σ hs (fun a σ' hs' => hf a Q σ' hs' hQ)
theorem ite {c : Prop} [Decidable c] {p q : Prog α} (hp : SC p) (hq : SC q) : SC (if c then p else q) := by
  split
  · exact hp
  · exact hq
end SC

namespace SAny
variable {α β : Type}
theorem pure (a : α) : SAny (Pure.pure a : Prog α) := fun _ _ hQ => hQ a _
theorem bind {p : Prog α} {f : α → Prog β} (hp : SAny p) (hf : ∀ a, SAny (f a)) : SAny (p >>= f) := by
  intro Q σ hQ
  rw [swp.bind_iff]
  exact hp _ σ (fun a σ' => hf a Q σ' hQ)
theorem ite {c : Prop} [Decidable c] {p q : Prog α} (hp : SAny p) (hq : SAny q) : SAny (if c then p else q) := by
  split
  · exact hp
  · exact hq
/-- operations that need nothing of the state -/
theorem op (o : Op) (h1 : ∀ ch ty p, o ≠ .emitToken ch ty p) (h2 : ∀ ch ty p, o ≠ .emitTokenAtMark ch ty p) : SAny (Prog.perform o) := by
  intro Q σ hQ
  by_cases hp : ∃ m, o = .panic m
  · obtain ⟨m, rfl⟩ := hp; trivial
  · rw [Prog.perform, swp.op_iff (fun m hm => hp ⟨m, hm⟩)]
    refine ⟨?_, fun r => hQ _ _⟩
    cases o <;> first | trivial | exact absurd rfl (h1 _ _ _) | exact absurd rfl (h2 _ _ _)
/-- `startToken` makes the token start fresh -/
theorem start {f : Unit → Prog β} (hf : ∀ a, SC (f a)) : SAny (Prog.perform .startToken >>= f) := by
  intro Q σ hQ
  rw [swp.bind_iff, Prog.perform, swp.op_iff (by intro m h; cases h)]
  exact ⟨trivial, fun r => hf r Q _ rfl hQ⟩
/-- a dispatcher may first do things that need nothing of the state -/
theorem bindSC {p : Prog α} {f : α → Prog β} (hp : SClean p) (hf : ∀ a, SC (f a)) : SC (p >>= f) := SC.bind hp hf
end SAny

attribute [irreducible] SClean SC SAny

end SasLexer
