import SasLexer.Proofs.Model.DiscOpen
import SasLexer.Lex.Main
/-! # The scanning discipline holds of the whole control logic: `lex_token`, the main loop, `finalize_lexing` -/
namespace SasLexer
open Prog (perform)
open P

set_option maxRecDepth 8000 in
theorem evalOperatorSel_awp (cfg : Cfg) (c : Char) (t : List Char) {Q : Option (TokenType × Nat) → List Char → Bool → Prop}
    (hN : Q none (c :: t) false)
    (hS : ∀ ty extra, ty ≠ .EOF → (∀ x ∈ (c :: t).take (1 + extra), x ≠ '\n') → Q (some (ty, extra)) (c :: t) false) :
    awp (evalOperatorSel cfg c (c :: t)) Q (c :: t) false := by
  unfold evalOperatorSel
  awp_auto [(updateParensNesting_inert _ _).awp']
  all_goals (first | exact hN | (apply hS <;> first | (simp; done) | skip))
  all_goals (first
    | exact (isMacroEvalMnemonic_ok ‹_› (by simp_all)).1
    | exact (isMacroEvalMnemonic_ok ‹_› (by simp_all)).2
    | (rcases t with _ | ⟨d, u⟩ <;> simp_all [nextOf] <;> grind))

set_option maxRecDepth 8000 in
theorem lexMacroEvalOperator_awp (cfg : Cfg) (c : Char) {r : List Char} (hr : r.head? = some c)
    {Q : Bool → List Char → Bool → Prop} (hT : ∀ r', Q true r' false) (hF : Q false r false) :
    awp (lexMacroEvalOperator cfg c) Q r false := by
  obtain ⟨t, rfl⟩ := head_cons hr
  unfold lexMacroEvalOperator
  awp_auto [evalOperatorSel_awp, (maybeEmitEmptyMacroStringInEval_inert _).awp']
  all_goals (first | exact hT _ | exact hF | (simp_all; done) | grind)

set_option maxRecDepth 8000 in
theorem dispatchModeMacroEval_awp (cfg : Cfg) (c : Char) (f p : Nat) (t : List Char)
    {Q : Unit → List Char → Bool → Prop} (hQ : ∀ r', Q () r' false) :
    awp (dispatchModeMacroEval cfg c f p) Q (c :: t) false := by
  unfold dispatchModeMacroEval
  awp_auto [lexSingleQuotedStr_awp', lexStringExpressionStart_awp', lexCStyleComment_awp', (lexMacroVarExpr_safe _).awp,
    lexMacroCall_awp', (maybeEmitEmptyMacroStringInEval_inert _).awp', lexMacroEvalOperator_awp,
    (lexMacroStringInMacroEvalContext_safe _ _ _).awp]
  all_goals (first | exact hQ _ | (simp_all; done) | (rcases t with _ | ⟨d, u⟩ <;> simp_all [isMacroEvalQuotableOp] <;> done) | grind)

set_option maxRecDepth 8000 in
theorem dispatchMacroMode_awp (cfg : Cfg) (c : Char) (m : Mode) (t : List Char)
    {Q : Unit → List Char → Bool → Prop} (hQ : ∀ r', Q () r' false) :
    awp (dispatchMacroMode cfg c m) Q (c :: t) false := by
  unfold dispatchMacroMode
  split <;> awp_auto [dispatchModeMacroEval_awp, dispatchMacroStrQuotedExpr_awp, lexMaybeMacroCallArgsOrLabel_awp,
    lexMaybeMacroCallArgAssign_awp, lexMaybeTailMacroCallArgValue_awp, dispatchMacroCallArgOrValue_awp,
    dispatchMacroCallArgValue_awp, lexMaybeMacroDefArgs_awp, (dispatchMacroDefArg_safe _ _).awp,
    lexMacroDefNextArgOrDefaultValue_awp, dispatchMacroDo_awp, dispatchMacroLocalGlobal_awp, dispatchMacroNameExpr_awp,
    dispatchMacroSemiTermTextExpr_awp, dispatchMacroStatOptsTextExpr_awp, (lexMacroDefIdentifier_safe _ _ _).awp]
  all_goals (first | exact hQ _ | (simp_all; done) | grind)

set_option maxRecDepth 8000 in
theorem lexToken_awp (cfg : Cfg) (c : Char) (t : List Char)
    {Q : Unit → List Char → Bool → Prop} (hQ : ∀ r', Q () r' false) :
    awp (lexToken cfg c) Q (c :: t) false := by
  unfold lexToken
  awp_auto [lexCStyleComment_awp', (lexWs_safe _).awp, dispatchModeDefault_awp, lexExpectedToken_safe,
    dispatchModeStrExpr_awp, dispatchMacroMode_awp]
  all_goals (first | exact hQ _ | (simp_all [isWhitespace_nl]; done) | grind [isWhitespace_nl])

theorem Inert.forIn_list {β γ : Type} (f : γ → β → Prog (ForInStep β)) (hf : ∀ x b, Inert (f x b)) :
    ∀ (l : List γ) (b : β), Inert (forIn l b f)
  | [], b => by simp only [List.forIn_nil]; exact Inert.pure b
  | x :: l, b => by
    simp only [List.forIn_cons]
    refine Inert.bind (hf x b) ?_
    intro s
    cases s with
    | done b' => exact Inert.pure b'
    | yield b' => exact Inert.forIn_list f hf l b'

theorem lexExpectedToken_none_inert (cfg : Cfg) (ty : TokenType) (ch : Channel) :
    Inert (lexExpectedToken cfg none ty ch) := by
  unfold lexExpectedToken
  have hne : ∀ ec : Char, ((none : Option Char) != some ec) = true := by intro ec; rfl
  simp only [hne, if_true, Option.isSome_none, Bool.false_eq_true, if_false, P.peek]
  inert
  all_goals (first | exact expectedCharAndError_ne_eof ‹_› ‹_› | (simp_all; done))

theorem handleUnterminatedStrExpr_inert (cfg : Cfg) : Inert (handleUnterminatedStrExpr cfg) := by
  unfold handleUnterminatedStrExpr lastTokIsStart P.lastTokTy P.dbg P.peek; inert

theorem forRParen_inert (pnl : Nat) :
    Inert (forIn [0:pnl] PUnit.unit fun (_ : Nat) (_ : PUnit) => do
      P.emitD .RPAREN
      pure (ForInStep.yield PUnit.unit)) := by
  rw [Std.Legacy.Range.forIn_eq_forIn_range']
  apply Inert.forIn_list
  intro x b
  inert

theorem finalizeMode_inert (cfg : Cfg) (m : Mode) : Inert (finalizeMode cfg m) := by
  unfold finalizeMode
  refine Inert.bind Inert.startToken (fun _ => ?_)
  split <;> first
    | exact lexExpectedToken_none_inert _ _ _
    | (inert <;> first | exact forRParen_inert _ | exact handleUnterminatedStrExpr_inert _)

theorem finalizeLoop_inert (cfg : Cfg) : ∀ (f : Nat), Inert (finalizeLoop cfg f)
  | 0 => by unfold finalizeLoop; exact Inert.panic
  | f + 1 => by
    unfold finalizeLoop
    refine Inert.bind Inert.popModeRaw (fun o => ?_)
    split
    · exact Inert.pure _
    · exact Inert.bind (finalizeMode_inert _ _) (fun _ => finalizeLoop_inert cfg f)

/-- postcondition of the main loop: no line feed pending; ended at end of input ⇒ nothing left -/
def MainQ : LoopEnd × Nat → List Char → Bool → Prop := fun x r lag => lag = false ∧ (x.1 = .eof → r = [])

set_option maxRecDepth 8000 in
theorem mainLoop_awp (cfg : Cfg) : ∀ (f n : Nat) (last : Nat × List Mode) (r : List Char),
    awp (mainLoop cfg f n last) MainQ r false
  | 0, n, last, r => by
    unfold mainLoop
    rcases r with _ | ⟨c, t⟩ <;> awp_auto [] <;> simp_all [MainQ]
  | f + 1, n, last, r => by
    unfold mainLoop
    have ih := fun n last r => mainLoop_awp cfg f n last r
    rcases r with _ | ⟨c, t⟩ <;> awp_auto [lexToken_awp, ih]
    all_goals (first | (simp_all [MainQ]; done) | grind [MainQ])

end SasLexer
