import SasLexer.Proofs.Model.Disc
import SasLexer.Lex.Common
import SasLexer.Proofs.Model.DiscLemmas
/-!
# The scanning discipline holds of the shared scanners (`Lex/Common.lean`)
One lemma per scanner: `awp (scanner …) Q r false` for every continuation `Q` that accepts any
result and remaining text (`Safe`), under the scanner's precondition on the text in front of the
cursor (the condition its Rust `debug_assert!` states, where one is needed).
-/
namespace SasLexer
open Prog (perform)
open P

attribute [awp_simp] Prog.perform P.rest P.peek P.peekNext P.advance P.advance_ P.advanceBy P.eatWhile P.addLine
  P.startToken P.emit P.emitD P.emitError P.pushMode P.popMode P.mode P.setPending P.lastTokTy P.abort P.unmodelled
  P.peekIs P.dbg fuelOfRest

theorem isWhitespace_nl : isWhitespace '\n' = true := by decide

/-- close the leaf facts left by `awp_auto` -/
macro "awp_done" : tactic => `(tactic| all_goals (first | (simp_all [isWhitespace_nl, isXidContinue_nl, isIdentContinue_nl, isUnicodeNameStart_nl, isAsciiDigit_nl]; done) | grind))

/-- the program respects the discipline from every text, whatever it returns and leaves -/
def Safe {α} (p : Prog α) : Prop := ∀ r, awp p (fun _ _ lag => lag = false) r false

theorem Safe.awp {α} {p : Prog α} (h : Safe p) {Q : α → List Char → Bool → Prop} {r : List Char}
    (hQ : ∀ a r', Q a r' false) : awp p Q r false :=
  awp.mono (fun a r' l hl => by subst hl; exact hQ a r') (h r)

theorem lexWsLoop_safe : ∀ (f : Nat), Safe (lexWsLoop f)
  | 0, r => by simp [lexWsLoop, awp_simp]
  | f + 1, r => by
    unfold lexWsLoop
    simp only [awp_simp]
    refine ⟨trivial, ?_⟩
    cases r with
    | nil => simp [optAny]
    | cons c t =>
      have ih := lexWsLoop_safe f t
      by_cases hc : c = '\n' <;> simp [hc, ih]

theorem lexWs_safe (cfg : Cfg) : Safe (lexWs cfg) := by
  intro r
  unfold lexWs
  simp only [awp_simp]
  split <;> exact (lexWsLoop_safe _).awp (by simp)

theorem lexCStyleLoop_safe : ∀ (f : Nat), Safe (lexCStyleLoop f)
  | 0, r => by simp [lexCStyleLoop, awp_simp]
  | f + 1, r => by
    unfold lexCStyleLoop
    simp only [awp_simp]
    have ih := lexCStyleLoop_safe f
    unfold Safe at ih
    cases r with
    | nil => simp [awp_simp]
    | cons c t => cases t <;> grind

theorem lexCStyleComment_awp (cfg : Cfg) (t : List Char) {Q : Unit → List Char → Bool → Prop}
    (hQ : ∀ r', Q () r' false) :
    awp (lexCStyleComment cfg) Q ('/' :: '*' :: t) false := by
  unfold lexCStyleComment
  simp only [awp_simp]
  split <;> simp [awp_simp] <;> refine (lexCStyleLoop_safe _).awp ?_ <;> intro a r' <;> cases a <;> simp [awp_simp, hQ]

theorem lexStringExpressionStart_awp (cfg : Cfg) (b : Bool) (t : List Char) {Q : Unit → List Char → Bool → Prop}
    (hQ : ∀ r', Q () r' false) :
    awp (lexStringExpressionStart cfg b) Q ('"' :: t) false := by
  unfold lexStringExpressionStart
  simp only [awp_simp]
  split <;> simp [awp_simp, hQ]

theorem resolveStringLiteralEnding_safe : Safe resolveStringLiteralEnding := by
  intro r
  unfold resolveStringLiteralEnding
  rcases r with _ | ⟨c, _ | ⟨d, u⟩⟩ <;> awp_eval <;> grind

theorem lexSingleQuotedLoop_safe : ∀ (f : Nat), Safe (lexSingleQuotedLoop f)
  | 0, r => by simp [lexSingleQuotedLoop, awp_simp]
  | f + 1, r => by
    unfold lexSingleQuotedLoop
    have ih := lexSingleQuotedLoop_safe f
    unfold Safe at ih
    rcases r with _ | ⟨c, _ | ⟨d, u⟩⟩ <;> awp_eval <;> grind

theorem resolveStringLiteralEnding_awp {Q : TokenType → List Char → Bool → Prop} {r : List Char}
    (hQ : ∀ ty r', ty ≠ .EOF → Q ty r' false) : awp resolveStringLiteralEnding Q r false := by
  unfold resolveStringLiteralEnding
  rcases r with _ | ⟨c, _ | ⟨d, u⟩⟩ <;> awp_eval <;> grind

theorem lexSingleQuotedStr_awp (cfg : Cfg) (t : List Char) {Q : Unit → List Char → Bool → Prop}
    (hQ : ∀ r', Q () r' false) :
    awp (lexSingleQuotedStr cfg) Q ('\'' :: t) false := by
  unfold lexSingleQuotedStr
  awp_auto [(lexSingleQuotedLoop_safe _).awp, resolveStringLiteralEnding_awp]
  awp_done


theorem take_sub {l : List Char} {n m : Nat} (h : n ≤ m) {c : Char} (hc : c ∈ l.take n) : c ∈ l.take m := by
  have : l.take n = (l.take m).take n := by rw [List.take_take]; congr 1; omega
  rw [this] at hc
  exact List.mem_of_mem_take hc

theorem emitResolveOps_awp : ∀ (ks : List Nat) (r : List Char) {Q : Unit → List Char → Bool → Prop},
    (∀ r', Q () r' false) → (∀ c ∈ r.take (sumPow ks), c ≠ '\n') → awp (emitResolveOps ks) Q r false
  | [], r, Q, hQ, _ => by simp [emitResolveOps, awp_simp, hQ]
  | k :: ks, r, Q, hQ, h => by
    unfold emitResolveOps
    simp only [awp_simp]
    have hs : sumPow (k :: ks) = 2 ^ k + sumPow ks := by simp [sumPow]
    refine ⟨⟨trivial, fun c hc => h c (take_sub (by omega) hc)⟩, ⟨by simp, ?_⟩⟩
    refine ⟨trivial, fun _ => emitResolveOps_awp ks _ hQ ?_⟩
    intro c hc
    apply h c
    rw [hs, List.take_add]
    exact List.mem_append_right _ hc

theorem amp_ops_ok {r : List Char} {b : Bool} {n : Nat} (h : isMacroAmp r 0 = (b, n)) :
    ∀ c ∈ r.take (sumPow (resolveOps n)), c ≠ '\n' := by
  intro c hc
  have := (isMacroAmp_take r 0 h).2 c (take_sub (by have := sumPow_resolveOps_le n; omega) hc)
  subst this; decide

set_option maxRecDepth 4000 in
theorem lexMacroVarExprLoop_safe : ∀ (f : Nat) (st : List Nat), Safe (lexMacroVarExprLoop f st)
  | _, [], r => by simp [lexMacroVarExprLoop, awp_simp]
  | 0, _ :: _, r => by simp [lexMacroVarExprLoop, awp_simp]
  | f + 1, s :: st, r => by
    unfold lexMacroVarExprLoop
    have ih := fun st => lexMacroVarExprLoop_safe f st
    awp_auto [emitResolveOps_awp, (ih _).awp]
    all_goals (first | exact isXidContinue_nl | exact amp_ops_ok rfl _ ‹_› ‹_› | (simp_all; done) | grind)

theorem lexMacroVarExpr_safe (cfg : Cfg) : Safe (lexMacroVarExpr cfg) := by
  intro r
  unfold lexMacroVarExpr
  awp_auto [emitResolveOps_awp, (lexMacroVarExprLoop_safe _ _).awp]
  all_goals (first | exact amp_ops_ok rfl _ ‹_› ‹_› | (simp_all; done) | grind)

theorem lexMacroCommentLoop_safe : ∀ (f : Nat) (q : Quote), Safe (lexMacroCommentLoop f q)
  | 0, q, r => by simp [lexMacroCommentLoop, awp_simp]
  | f + 1, q, r => by
    unfold lexMacroCommentLoop
    have ih := fun q => lexMacroCommentLoop_safe f q
    rcases r with _ | ⟨c, t⟩ <;> awp_auto [(ih _).awp] <;> awp_done

theorem lexMacroComment_awp (cfg : Cfg) (t : List Char) {Q : Unit → List Char → Bool → Prop}
    (hQ : ∀ r', Q () r' false) : awp (lexMacroComment cfg) Q ('%' :: '*' :: t) false := by
  unfold lexMacroComment
  awp_auto [(lexMacroCommentLoop_safe _ _).awp]
  awp_done

theorem predictedOpenLoop_safe : ∀ (f : Nat), Safe (predictedOpenLoop f)
  | 0, r => by simp [predictedOpenLoop, awp_simp]
  | f + 1, r => by
    unfold predictedOpenLoop
    have ih := predictedOpenLoop_safe f
    rcases r with _ | ⟨c, t⟩ <;> awp_auto [ih.awp] <;> awp_done

theorem predictedMacroLoop_safe : ∀ (f : Nat), Safe (predictedMacroLoop f)
  | 0, r => by simp [predictedMacroLoop, awp_simp]
  | f + 1, r => by
    unfold predictedMacroLoop
    have ih := predictedMacroLoop_safe f
    rcases r with _ | ⟨c, t⟩ <;> awp_auto [ih.awp] <;> awp_done

theorem lexPredictedComment_safe : Safe lexPredictedComment := by
  intro r
  unfold lexPredictedComment
  awp_auto [(predictedOpenLoop_safe _).awp, (predictedMacroLoop_safe _).awp]
  awp_done

theorem lexCharFormat_safe : Safe lexCharFormat := by
  intro r
  unfold lexCharFormat
  awp_auto []
  all_goals (first | exact (charFormatLen_take ‹_›).no_nl CfCh_nl _ ‹_› ‹_› | (simp_all; done) | grind)

theorem expectedCharAndError_ne_eof {ty : TokenType} {x : Char × ErrorKind} (h : expectedCharAndError ty = some x) :
    ty ≠ .EOF := by
  intro he; subst he; simp [expectedCharAndError] at h

theorem expectedChar_ne_nl {ty : TokenType} {ec : Char} {ek : ErrorKind}
    (h : expectedCharAndError ty = some (ec, ek)) : ec ≠ '\n' := by
  unfold expectedCharAndError at h
  split at h <;> simp at h <;> (obtain ⟨rfl, _⟩ := h; decide)

theorem lexExpectedToken_safe (cfg : Cfg) (nc : Option Char) (ty : TokenType) (ch : Channel)
    {r : List Char} (hr : nc = r.head?) {Q : Unit → List Char → Bool → Prop}
    (hQ : ∀ r', Q () r' false) : awp (lexExpectedToken cfg nc ty ch) Q r false := by
  unfold lexExpectedToken
  awp_auto []
  all_goals (first | exact hQ _ | exact absurd ‹ty = _› (expectedCharAndError_ne_eof ‹_›) | (simp_all; done) | (have h0 := expectedChar_ne_nl ‹expectedCharAndError ty = _›; grind) | grind)

theorem lexNumericLiteral_safe (cfg : Cfg) (sd : Bool) : Safe (lexNumericLiteral cfg sd) := by
  intro r
  unfold lexNumericLiteral
  awp_auto []
  all_goals (first | exact (numericChoice_ok ‹_›).1.no_nl NumCh_nl _ ‹_› ‹_› | exact absurd ‹_› (numericChoice_ok ‹_›).2 | (simp_all [isXChar]; done) | grind)


end SasLexer
