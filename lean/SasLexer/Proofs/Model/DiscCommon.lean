import SasLexer.Proofs.Model.Disc
import SasLexer.Lex.Common
/-!
# The scanning discipline holds of the shared scanners (`Lex/Common.lean`)
One lemma per scanner: `awp (scanner …) Q r false` for every continuation `Q` that accepts any
result and remaining text (`Safe`), under the scanner's precondition on the text in front of the
cursor (the condition its Rust `debug_assert!` states, where one is needed).
-/
namespace SasLexer
open Prog (perform)
open P

attribute [awp_simp] Prog.perform P.rest P.peek P.peekNext P.advance P.advance_ P.advanceBy P.eatWhile P.addLine
  P.startToken P.emit P.emitD P.emitError P.pushMode P.popMode P.mode P.setPending P.lastTokTy P.abort P.unmodelled
  P.peekIs P.dbg fuelOfRest

theorem isWhitespace_nl : isWhitespace '\n' = true := by decide

/-- the program respects the discipline from every text, whatever it returns and leaves -/
def Safe {α} (p : Prog α) : Prop := ∀ r, awp p (fun _ _ lag => lag = false) r false

theorem Safe.awp {α} {p : Prog α} (h : Safe p) {Q : α → List Char → Bool → Prop} {r : List Char}
    (hQ : ∀ a r', Q a r' false) : awp p Q r false :=
  awp.mono (fun a r' l hl => by subst hl; exact hQ a r') (h r)

theorem lexWsLoop_safe : ∀ (f : Nat), Safe (lexWsLoop f)
  | 0, r => by simp [lexWsLoop, awp_simp]
  | f + 1, r => by
    unfold lexWsLoop
    simp only [awp_simp]
    refine ⟨trivial, ?_⟩
    cases r with
    | nil => simp [optAny]
    | cons c t =>
      have ih := lexWsLoop_safe f t
      by_cases hc : c = '\n' <;> simp [hc, ih]

theorem lexWs_safe (cfg : Cfg) : Safe (lexWs cfg) := by
  intro r
  unfold lexWs
  simp only [awp_simp]
  split <;> exact (lexWsLoop_safe _).awp (by simp)

theorem lexCStyleLoop_safe : ∀ (f : Nat), Safe (lexCStyleLoop f)
  | 0, r => by simp [lexCStyleLoop, awp_simp]
  | f + 1, r => by
    unfold lexCStyleLoop
    simp only [awp_simp]
    have ih := lexCStyleLoop_safe f
    unfold Safe at ih
    cases r with
    | nil => simp [awp_simp]
    | cons c t => cases t <;> grind

theorem lexCStyleComment_awp (cfg : Cfg) (t : List Char) {Q : Unit → List Char → Bool → Prop}
    (hQ : ∀ r', Q () r' false) :
    awp (lexCStyleComment cfg) Q ('/' :: '*' :: t) false := by
  unfold lexCStyleComment
  simp only [awp_simp]
  split <;> simp [awp_simp] <;> refine (lexCStyleLoop_safe _).awp ?_ <;> intro a r' <;> cases a <;> simp [awp_simp, hQ]

theorem lexStringExpressionStart_awp (cfg : Cfg) (b : Bool) (t : List Char) {Q : Unit → List Char → Bool → Prop}
    (hQ : ∀ r', Q () r' false) :
    awp (lexStringExpressionStart cfg b) Q ('"' :: t) false := by
  unfold lexStringExpressionStart
  simp only [awp_simp]
  split <;> simp [awp_simp, hQ]

theorem resolveStringLiteralEnding_safe : Safe resolveStringLiteralEnding := by
  intro r
  unfold resolveStringLiteralEnding
  rcases r with _ | ⟨c, _ | ⟨d, u⟩⟩ <;> awp_eval <;> grind

end SasLexer
