import SasLexer.Proofs.Kernel.ErrOrder
import SasLexer.Proofs.Model.DiscTop
set_option linter.unusedSimpArgs false
/-!
# Errors are listed in source order: the discipline that discharges `PrepOk` (`ewp`)

The only way an error can be listed out of order is `emitPrepared`: it appends an error that was prepared at an
earlier cursor position.  `ewp` demands that between `prepError` and `emitPrepared` no other error is emitted
(abstract flag `clean`); operations that may emit an error implicitly (`mode`/`popMode` on an empty stack, a slice
that fails, `rollback` without a checkpoint, …) clear the flag, except that `mode`/`popMode` keep it when the stack
is known to be non-empty (`ne`: set by `pushMode`, by `mode` itself, and learnt from a non-zero `modeDepth`).
-/
namespace SasLexer

structure ES where
  clean : Bool
  ne : Bool

/-- operations that may append an error to the list without being `emitError` -/
def mayErr : Op → Bool
  | .updateLastToken _ _ _ | .rollback | .pendingText | .pendingTextToMark | .pendingTextWithPrev
  | .litCut | .litResolve _ | .emitError _ => true
  | _ => false

def eOk : Op → ES → Prop
  | .emitPrepared, σ => σ.clean = true
  | _, _ => True

def eNext : Op → ES → ES
  | .prepError _, σ => { σ with clean := true }
  | .emitPrepared, σ => { σ with clean := true }
  | .pushMode _, σ => { σ with ne := true }
  | .mode, σ => { clean := σ.clean && σ.ne, ne := true }
  | .popMode, σ => { clean := σ.clean && σ.ne, ne := false }
  | .popModeRaw, σ => { σ with ne := false }
  | .rollback, _ => { clean := false, ne := false }
  | o, σ => if mayErr o then { σ with clean := false } else σ

def ewp {α : Type} : Prog α → (α → ES → Prop) → ES → Prop
  | .ret a, Q, σ => Q a σ
  | .op (.panic _) _, _, _ => True
  | .op .modeDepth k, Q, σ => ∀ d : Nat, ewp (k d) Q { σ with ne := σ.ne || d != 0 }
  | .op o k, Q, σ => eOk o σ ∧ ∀ r, ewp (k r) Q (eNext o σ)

namespace ewp
variable {α β : Type}

theorem op_iff {o : Op} {k : Resp o → Prog α} {Q : α → ES → Prop} {σ : ES} (ho : ∀ m, o ≠ .panic m) (hd : o ≠ .modeDepth) :
    ewp (Prog.op o k) Q σ ↔ eOk o σ ∧ ∀ r, ewp (k r) Q (eNext o σ) := by
  cases o <;> first | exact Iff.rfl | exact absurd rfl (ho _) | exact absurd rfl hd

theorem depth_iff {k : Resp .modeDepth → Prog α} {Q : α → ES → Prop} {σ : ES} :
    ewp (Prog.op .modeDepth k) Q σ ↔ ∀ d : Nat, ewp (k d) Q { σ with ne := σ.ne || d != 0 } := Iff.rfl

theorem mono {p : Prog α} {Q Q' : α → ES → Prop} (hQ : ∀ a σ, Q a σ → Q' a σ) : ∀ {σ}, ewp p Q σ → ewp p Q' σ := by
  induction p with
  | ret a => intro σ h; exact hQ _ _ h
  | op o k ih =>
    intro σ h
    by_cases ho : ∃ m, o = .panic m
    · obtain ⟨m, rfl⟩ := ho; trivial
    · have ho' : ∀ m, o ≠ .panic m := fun m hm => ho ⟨m, hm⟩
      by_cases hd : o = .modeDepth
      · subst hd; rw [depth_iff] at h ⊢; exact fun d => ih d (h d)
      · rw [op_iff ho' hd] at h ⊢
        exact ⟨h.1, fun r => ih r (h.2 r)⟩

theorem bind_iff {p : Prog α} {f : α → Prog β} {Q : β → ES → Prop} :
    ∀ {σ}, ewp (p >>= f) Q σ ↔ ewp p (fun a σ' => ewp (f a) Q σ') σ := by
  induction p with
  | ret a => intro σ; exact Iff.rfl
  | op o k ih =>
    intro σ
    by_cases ho : ∃ m, o = .panic m
    · obtain ⟨m, rfl⟩ := ho; exact Iff.rfl
    · have ho' : ∀ m, o ≠ .panic m := fun m hm => ho ⟨m, hm⟩
      show ewp (Prog.op o fun r => k r >>= f) Q σ ↔ _
      by_cases hd : o = .modeDepth
      · subst hd; rw [depth_iff, depth_iff]; exact forall_congr' fun d => ih d
      · rw [op_iff ho' hd, op_iff ho' hd]
        constructor
        · intro h; exact ⟨h.1, fun r => (ih r).1 (h.2 r)⟩
        · intro h; exact ⟨h.1, fun r => (ih r).2 (h.2 r)⟩

end ewp

/-! ## soundness -/

structure EInv (σ : ES) (L : Lexer) : Prop where
  ord : KOrd L
  clean : σ.clean = true → PrepOk L
  ne : σ.ne = true → L.modesR ≠ []
  /-- the pending-statement stack is never empty (so its defensive error branches are dead) -/
  pend : L.pendingR ≠ []

theorem PrepOk.congr {L L' : Lexer} (h : PrepOk L) (e1 : L'.errsR = L.errsR) (e2 : L'.errReg = L.errReg) : PrepOk L' := by
  unfold PrepOk; rw [e1, e2]; exact h

theorem PrepOk.of_none {L : Lexer} (h : L.errReg = none) : PrepOk L := by
  intro e he; rw [h] at he; cases he


section fields
variable (cfg : Cfg) (L : Lexer)
theorem lastLineOrAdd_errs : (L.lastLineOrAdd cfg).2.errsR = L.errsR ∧ (L.lastLineOrAdd cfg).2.errReg = L.errReg ∧
    (L.lastLineOrAdd cfg).2.modesR = L.modesR := by
  unfold Lexer.lastLineOrAdd; split <;> simp [Lexer.addLine, Lexer.bufAddLine]
theorem startToken_errs : (L.startToken cfg).errsR = L.errsR ∧ (L.startToken cfg).errReg = L.errReg ∧
    (L.startToken cfg).modesR = L.modesR := by
  have := lastLineOrAdd_errs cfg L
  unfold Lexer.startToken; simp [this]
theorem markIfNone_errs : (L.markIfNone cfg).errsR = L.errsR ∧ (L.markIfNone cfg).errReg = L.errReg ∧
    (L.markIfNone cfg).modesR = L.modesR := by
  have := lastLineOrAdd_errs cfg L
  unfold Lexer.markIfNone; split <;> simp [this]
end fields

section pending
variable (cfg : Cfg) (L : Lexer)
@[simp] theorem emitError_pendingR (k) : (L.emitError k).pendingR = L.pendingR := rfl
@[simp] theorem pendingTextFrom_pendingR (a b k) : (L.pendingTextFrom a b k).2.pendingR = L.pendingR := by
  unfold Lexer.pendingTextFrom; split <;> rfl
@[simp] theorem lastLineOrAdd_pendingR : (L.lastLineOrAdd cfg).2.pendingR = L.pendingR := by
  unfold Lexer.lastLineOrAdd; split <;> rfl
@[simp] theorem startToken_pendingR : (L.startToken cfg).pendingR = L.pendingR := by
  unfold Lexer.startToken; simp
@[simp] theorem markIfNone_pendingR : (L.markIfNone cfg).pendingR = L.pendingR := by
  unfold Lexer.markIfNone; split <;> simp
@[simp] theorem bufAddToken_pendingR (t) : (L.bufAddToken cfg t).pendingR = L.pendingR := rfl
@[simp] theorem emitTokenAtMark_pendingR (ch ty p) : (L.emitTokenAtMark cfg ch ty p).pendingR = L.pendingR := by
  unfold Lexer.emitTokenAtMark; split <;> rfl
@[simp] theorem updateLastToken_pendingR (ch ty p) : (L.updateLastToken cfg ch ty p).pendingR = L.pendingR := by
  unfold Lexer.updateLastToken; split <;> rfl
@[simp] theorem popMode_pendingR : L.popMode.pendingR = L.pendingR := by unfold Lexer.popMode; split <;> rfl
@[simp] theorem mode_pendingR : L.mode.2.pendingR = L.pendingR := by unfold Lexer.mode; split <;> rfl
@[simp] theorem rollback_pendingR : L.rollback.pendingR = L.pendingR := by unfold Lexer.rollback; split <;> rfl
@[simp] theorem addStringLiteralFromSrc_pendingR (a b) : (L.addStringLiteralFromSrc cfg a b).2.pendingR = L.pendingR := by
  unfold Lexer.addStringLiteralFromSrc; simp only; split <;> rfl
end pending

theorem step_pending_ne (cfg : Cfg) (o : Op) (L : Lexer) (h : L.pendingR ≠ []) : (step cfg o L).2.pendingR ≠ [] := by
  cases o <;> simp only [step]
  case pushPending b => simp [Lexer.pushPendingStat]
  case popPending => unfold Lexer.popPendingStat; split <;> simp_all
  case pendingStat => unfold Lexer.pendingStat; split <;> simp_all
  case setPending b => unfold Lexer.setPendingStat; split <;> simp
  case retypeLastDefault e n => split <;> exact h
  case insertSepBeforeLastDefault => split <;> (try split) <;> exact h
  case emitPrepared => split <;> exact h
  case popModeRaw => split <;> exact h
  case modifyTop f => split <;> exact h
  case modifyAt i f => split <;> exact h
  case insertModeAt i m => split <;> exact h
  case litResolve back => split <;> simpa using h
  all_goals first
    | exact h
    | simpa [Lexer.pendingText, Lexer.emitToken, Lexer.addLine, Lexer.bufAddLine, Lexer.pushMode, Lexer.checkpoint,
        Lexer.clearCheckpoint, Lexer.clearMark, Lexer.emitErrorInfo] using h

theorem step_EInv (cfg : Cfg) (o : Op) (L : Lexer) (σ : ES) (h : EInv σ L) (ho : eOk o σ) :
    EInv (match o with
          | .modeDepth => { σ with ne := σ.ne || L.modesR.length != 0 }
          | o => eNext o σ) (step cfg o L).2 := by
  have hord : KOrd (step cfg o L).2 := step_KOrd cfg o L h.ord (by intro e; subst e; exact h.clean ho)
  have hpend : (step cfg o L).2.pendingR ≠ [] := step_pending_ne cfg o L h.pend
  have keep : ∀ {σ' : ES}, (σ'.clean = true → σ.clean = true) → (σ'.ne = true → σ.ne = true) →
      (step cfg o L).2.errsR = L.errsR → (step cfg o L).2.errReg = L.errReg → (step cfg o L).2.modesR = L.modesR →
      EInv σ' (step cfg o L).2 := by
    intro σ' h1 h2 e1 e2 e3
    exact ⟨hord, fun hc => (h.clean (h1 hc)).congr e1 e2, fun hn => (by rw [e3]; exact h.ne (h2 hn)), hpend⟩
  have dirty : ∀ {σ' : ES}, σ'.clean = false → (σ'.ne = true → σ.ne = true) → (step cfg o L).2.modesR = L.modesR →
      EInv σ' (step cfg o L).2 := by
    intro σ' h1 h2 e3
    exact ⟨hord, fun hc => (by rw [h1] at hc; cases hc), fun hn => (by rw [e3]; exact h.ne (h2 hn)), hpend⟩
  cases o <;> simp only [eNext, mayErr, Bool.false_eq_true, if_false, if_true] at ho ⊢
  case modeDepth =>
    refine ⟨hord, fun hc => (h.clean hc).congr rfl rfl, ?_, hpend⟩
    intro hn
    simp only [step]
    simp only [Bool.or_eq_true, bne_iff_ne, ne_eq] at hn
    rcases hn with hn | hn
    · exact h.ne hn
    · intro he; rw [he] at hn; exact hn rfl
  case prepError k =>
    refine ⟨hord, ?_, fun hn => (by simpa [step] using h.ne hn), hpend⟩
    intro _ e he e' he'
    simp only [step, Option.some.injEq] at he he'
    subst he
    exact h.ord.le e' he'
  case emitPrepared =>
    refine ⟨hord, ?_, ?_, hpend⟩
    · intro _
      simp only [step]
      split
      · exact PrepOk.of_none rfl
      · rename_i hn; exact PrepOk.of_none hn
    · intro hn; simp only [step]; split <;> simpa [Lexer.emitErrorInfo] using h.ne hn
  case pushMode m =>
    exact ⟨hord, fun hc => (h.clean hc).congr rfl rfl, fun _ => (by simp [step, Lexer.pushMode]), hpend⟩
  case mode =>
    refine ⟨hord, ?_, ?_, hpend⟩
    · intro hc
      simp only [Bool.and_eq_true] at hc
      have hne := h.ne hc.2
      simp only [step, Lexer.mode]
      cases hl : L.modesR with
      | nil => exact absurd hl hne
      | cons m ms => exact h.clean hc.1
    · intro _
      simp only [step, Lexer.mode]
      cases hl : L.modesR with
      | nil => simp [Lexer.pushMode, Lexer.emitError, Lexer.emitErrorInfo]
      | cons m ms => simp [hl]
  case popMode =>
    refine ⟨hord, ?_, fun hn => (by cases hn), hpend⟩
    intro hc
    simp only [Bool.and_eq_true] at hc
    have hne := h.ne hc.2
    simp only [step, Lexer.popMode]
    cases hl : L.modesR with
    | nil => exact absurd hl hne
    | cons m ms => exact (h.clean hc.1).congr rfl rfl
  case popModeRaw =>
    refine ⟨hord, fun hc => ?_, fun hn => (by cases hn), hpend⟩
    simp only [step]; split <;> exact (h.clean hc).congr rfl rfl
  case rollback => exact ⟨hord, fun hc => (by cases hc), fun hn => (by cases hn), hpend⟩
  case emitError k => exact dirty rfl id (by simp [step, Lexer.emitError, Lexer.emitErrorInfo])
  case updateLastToken ch ty p =>
    refine dirty rfl id ?_
    simp only [step, Lexer.updateLastToken]; split <;> simp [Lexer.bufAddToken, Lexer.emitError, Lexer.emitErrorInfo]
  case pendingText => exact dirty rfl id (by simp only [step, Lexer.pendingText, Lexer.pendingTextFrom]; split <;> simp [Lexer.emitError, Lexer.emitErrorInfo])
  case pendingTextToMark => exact dirty rfl id (by simp only [step, Lexer.pendingTextFrom]; split <;> simp [Lexer.emitError, Lexer.emitErrorInfo])
  case pendingTextWithPrev => exact dirty rfl id (by simp only [step, Lexer.pendingTextFrom]; split <;> simp [Lexer.emitError, Lexer.emitErrorInfo])
  case litCut =>
    refine dirty rfl id ?_
    simp only [step, Lexer.addStringLiteralFromSrc]; split <;> simp [Lexer.addStringLiteral, Lexer.emitError, Lexer.emitErrorInfo, Lexer.dassert]
  case litResolve back =>
    refine dirty rfl id ?_
    simp only [step]; split
    · simp [Lexer.dassert]
    · simp only [Lexer.addStringLiteralFromSrc]; split <;> simp [Lexer.addStringLiteral, Lexer.emitError, Lexer.emitErrorInfo, Lexer.dassert]
  case pendingStat =>
    have hp0 := h.pend
    refine keep id id ?_ ?_ ?_ <;> (simp only [step, Lexer.pendingStat]; split <;> simp_all)
  case setPending b =>
    have hp0 := h.pend
    refine keep id id ?_ ?_ ?_ <;> (simp only [step, Lexer.setPendingStat]; split <;> simp_all)
  case modifyTop f =>
    refine ⟨hord, fun hc => ?_, fun hn => ?_, hpend⟩
    · simp only [step]; split <;> exact (h.clean hc).congr rfl rfl
    · simp only [step]; split
      · simp
      · exact h.ne hn
  case modifyAt i f =>
    refine ⟨hord, fun hc => ?_, fun hn => ?_, hpend⟩
    · simp only [step]; split <;> exact (h.clean hc).congr rfl rfl
    · simp only [step]; split
      · rename_i ms hms
        have hne := h.ne hn
        unfold Lexer.modifyNthFromBottom at hms
        split at hms
        · simp only at hms
          split at hms
          · cases hf : f ‹Mode› with
            | none => simp [hf] at hms
            | some m' =>
              simp only [hf, Option.map_some, Option.some.injEq] at hms
              subst hms
              simp only
              intro he
              have := congrArg List.length he
              simp at this
              exact hne this
          · cases hms
        · cases hms
      · exact h.ne hn
  case insertModeAt i m =>
    refine ⟨hord, fun hc => ?_, fun hn => ?_, hpend⟩
    · simp only [step]; split <;> exact (h.clean hc).congr rfl rfl
    · simp only [step]; split
      · rename_i ms hms
        unfold Lexer.insertNthFromBottom at hms
        split at hms
        · simp only [Option.some.injEq] at hms; subst hms; simp
        · cases hms
      · simpa [Lexer.panic] using h.ne hn
  case popPending =>
    refine keep id id ?_ ?_ ?_ <;> (simp only [step, Lexer.popPendingStat]; split <;> rfl)
  case emitTokenAtMark ch ty p =>
    refine keep id id ?_ ?_ ?_ <;> (simp only [step, Lexer.emitTokenAtMark]; split <;> simp [Lexer.bufAddToken])
  all_goals first
    | exact keep id id rfl rfl rfl
    | (refine keep id id ?_ ?_ ?_ <;> simp only [step] <;> first
        | rfl
        | (simp [startToken_errs, markIfNone_errs, lastLineOrAdd_errs, Lexer.bufAddToken, Lexer.emitToken, Lexer.emitTokenAtMark,
            Lexer.addLine, Lexer.bufAddLine, Lexer.clearMark, Lexer.checkpoint, Lexer.clearCheckpoint, Lexer.dassert, Lexer.panic,
            Lexer.pushPendingStat, Lexer.popPendingStat, Lexer.addStringLiteral]; done)
        | ((repeat' split) <;> simp [startToken_errs, markIfNone_errs, lastLineOrAdd_errs, Lexer.bufAddToken, Lexer.emitToken,
            Lexer.emitTokenAtMark, Lexer.addLine, Lexer.bufAddLine, Lexer.dassert, Lexer.popPendingStat, Lexer.addStringLiteral]))


theorem ewp_sound (cfg : Cfg) {α : Type} (p : Prog α) : ∀ (Q : α → ES → Prop) (σ : ES) (L : Lexer), ewp p Q σ → EInv σ L →
    KOrd (Prog.run cfg p L).2 ∧ ∀ a, (Prog.run cfg p L).1 = some a → ∃ σ', Q a σ' ∧ EInv σ' (Prog.run cfg p L).2 := by
  induction p with
  | ret a =>
    intro Q σ L h hi
    refine ⟨hi.ord, ?_⟩
    intro b hb
    simp only [Prog.run, Option.some.injEq] at hb
    subst hb
    exact ⟨σ, h, hi⟩
  | op o k ih =>
    intro Q σ L h hi
    rw [run_op]
    by_cases ho : ∃ m, o = .panic m
    · obtain ⟨m, rfl⟩ := ho
      have hk : KOrd (step cfg (.panic m) L).2 := step_KOrd cfg _ L hi.ord (by intro e; cases e)
      cases hp : (step cfg (.panic m) L).2.panicked with
      | some m' => exact ⟨hk, by intro a ha; simp at ha⟩
      | none =>
        exfalso
        simp only [step, Lexer.panic] at hp
        cases hL : L.panicked <;> simp [hL, Lexer.chk] at hp
    · have ho' : ∀ m, o ≠ .panic m := fun m hm => ho ⟨m, hm⟩
      by_cases hd : o = .modeDepth
      · subst hd
        rw [ewp.depth_iff] at h
        have hs := step_EInv cfg .modeDepth L σ hi trivial
        simp only at hs
        cases hp : (step cfg .modeDepth L).2.panicked with
        | some m' => exact ⟨hs.ord, by intro a ha; simp at ha⟩
        | none => exact ih _ Q _ _ (h L.modesR.length) hs
      · rw [ewp.op_iff ho' hd] at h
        have hs := step_EInv cfg o L σ hi h.1
        have hs' : EInv (eNext o σ) (step cfg o L).2 := by
          cases o <;> first | exact hs | exact absurd rfl hd
        cases hp : (step cfg o L).2.panicked with
        | some m' => exact ⟨hs'.ord, by intro a ha; simp at ha⟩
        | none => exact ih _ Q _ _ (h.2 _) hs'

/-! ## the calculus for the control logic -/

/-- satisfies the discipline from every abstract state, whatever is demanded of the end state -/
def EOK {α : Type} (p : Prog α) : Prop := ∀ (Q : α → ES → Prop) (σ : ES), (∀ a σ', Q a σ') → ewp p Q σ

/-- moreover never emits an error and keeps the mode stack knowledge: a prepared error stays fresh across it -/
def EKeep {α : Type} (p : Prog α) : Prop :=
  ∀ (Q : α → ES → Prop) (σ : ES), (∀ a σ', (σ.clean = true → σ'.clean = true) → Q a σ') → ewp p Q σ

theorem EKeep.eok {α} {p : Prog α} (h : EKeep p) : EOK p := fun Q σ hQ => h Q σ (fun a σ' _ => hQ a σ')

namespace EOK
variable {α β : Type}

theorem pure (a : α) : EOK (Pure.pure a : Prog α) := fun _ _ hQ => hQ a _
theorem bind {p : Prog α} {f : α → Prog β} (hp : EOK p) (hf : ∀ a, EOK (f a)) : EOK (p >>= f) := by
  intro Q σ hQ
  rw [ewp.bind_iff]
  exact hp _ σ (fun a σ' => hf a Q σ' hQ)
theorem ite {c : Prop} [Decidable c] {p q : Prog α} (hp : EOK p) (hq : EOK q) : EOK (if c then p else q) := by
  split
  · exact hp
  · exact hq
theorem op (o : Op) (ho : o ≠ .emitPrepared) : EOK (Prog.perform o) := by
  intro Q σ hQ
  by_cases hp : ∃ m, o = .panic m
  · obtain ⟨m, rfl⟩ := hp; trivial
  · by_cases hd : o = .modeDepth
    · subst hd; exact fun d => hQ _ _
    · rw [Prog.perform, ewp.op_iff (fun m hm => hp ⟨m, hm⟩) hd]
      refine ⟨?_, fun r => hQ _ _⟩
      cases o <;> first | trivial | exact absurd rfl ho
end EOK

namespace EKeep
variable {α β : Type}

theorem pure (a : α) : EKeep (Pure.pure a : Prog α) := fun _ _ hQ => hQ a _ id
theorem bind {p : Prog α} {f : α → Prog β} (hp : EKeep p) (hf : ∀ a, EKeep (f a)) : EKeep (p >>= f) := by
  intro Q σ hQ
  rw [ewp.bind_iff]
  exact hp _ σ (fun a σ' h1 => hf a Q σ' (fun b σ'' h2 => hQ b σ'' (fun hc => h2 (h1 hc))))
theorem ite {c : Prop} [Decidable c] {p q : Prog α} (hp : EKeep p) (hq : EKeep q) : EKeep (if c then p else q) := by
  split
  · exact hp
  · exact hq
/-- operations that neither emit an error nor read the mode stack defensively -/
theorem op (o : Op) (h1 : mayErr o = false) (h2 : o ≠ .emitPrepared) (h3 : o ≠ .mode) (h4 : o ≠ .popMode) (h5 : o ≠ .rollback) :
    EKeep (Prog.perform o) := by
  intro Q σ hQ
  by_cases hp : ∃ m, o = .panic m
  · obtain ⟨m, rfl⟩ := hp; trivial
  · by_cases hd : o = .modeDepth
    · subst hd; exact fun d => hQ _ _ id
    · rw [Prog.perform, ewp.op_iff (fun m hm => hp ⟨m, hm⟩) hd]
      refine ⟨?_, fun r => hQ _ _ ?_⟩
      · cases o <;> first | trivial | exact absurd rfl h2
      · cases o <;> simp_all [eNext, mayErr]
end EKeep

attribute [irreducible] EOK EKeep

end SasLexer
