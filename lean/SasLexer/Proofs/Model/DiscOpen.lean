import SasLexer.Proofs.Model.DiscMacroArgs
import SasLexer.Lex.Open
/-! # The scanning discipline holds of open code and string expressions (`Lex/Open.lean`) -/
namespace SasLexer
open Prog (perform)
open P

theorem datalinesToSemiLoop_safe : ∀ (f : Nat), Safe (datalinesToSemiLoop f)
  | 0, r => by simp [datalinesToSemiLoop, awp_simp]
  | f + 1, r => by
    unfold datalinesToSemiLoop
    have ih := datalinesToSemiLoop_safe f
    rcases r with _ | ⟨c, t⟩ <;> awp_auto [ih.awp] <;> awp_done

set_option maxRecDepth 8000 in
theorem datalinesBodyLoop_awp (ending : List Char) : ∀ (f : Nat) (r : List Char) {Q : Bool → List Char → Bool → Prop},
    (∀ b r', (b = true → r'.take ending.length = ending) → Q b r' false) → awp (datalinesBodyLoop ending f) Q r false
  | 0, r, Q, hQ => by
    simp [datalinesBodyLoop, awp_simp]
  | f + 1, r, Q, hQ => by
    unfold datalinesBodyLoop
    have ih := fun r => datalinesBodyLoop_awp ending f r hQ
    rcases r with _ | ⟨c, t⟩ <;> awp_auto [ih]
    all_goals (first | exact hQ _ _ (by simp_all) | (simp_all; done) | grind)

set_option maxRecDepth 8000 in
theorem lexDatalines_safe (cfg : Cfg) (is4 : Bool) : Safe (lexDatalines cfg is4) := by
  intro r; unfold lexDatalines
  awp_auto [(datalinesToSemiLoop_safe _).awp, datalinesBodyLoop_awp]
  all_goals (first | decide | (simp_all; done) | (cases is4 <;> simp_all <;> grind) | grind)

set_option maxRecDepth 8000 in
theorem lexIdentifier_safe (cfg : Cfg) : Safe (lexIdentifier cfg) := by
  intro r; unfold lexIdentifier
  awp_auto [(lexDatalines_safe _ _).awp]
  all_goals (first | exact isIdentContinue_nl | exact absurd ‹_› (lookupKw_ne_eof ‹_›) | (simp_all; done) | grind)

set_option maxRecDepth 8000 in
theorem lexSymbols_awp (cfg : Cfg) (c : Char) (t : List Char) (hws : isWhitespace c = false)
    {Q : Unit → List Char → Bool → Prop} (hQ : ∀ r', Q () r' false) :
    awp (lexSymbols cfg c) Q (c :: t) false := by
  unfold lexSymbols
  awp_auto [lexPredictedComment_safe.awp, (lexNumericLiteral_safe _ _).awp, lexCharFormat_safe.awp]
  all_goals (first | exact hQ _ | (simp_all [isWhitespace_nl]; done) | grind [isWhitespace_nl])

set_option maxRecDepth 8000 in
theorem dispatchModeDefault_awp (cfg : Cfg) (c : Char) (t : List Char)
    {Q : Unit → List Char → Bool → Prop} (hQ : ∀ r', Q () r' false) :
    awp (dispatchModeDefault cfg c) Q (c :: t) false := by
  unfold dispatchModeDefault
  awp_auto [(lexWs_safe _).awp, lexSingleQuotedStr_awp', lexStringExpressionStart_awp', lexCStyleComment_awp',
    (lexMacroVarExpr_safe _).awp, lexMacroComment_awp', lexMacroIdentifier_awp', (lexNumericLiteral_safe _ _).awp,
    (lexIdentifier_safe _).awp, lexSymbols_awp]
  all_goals (first | exact hQ _ | (simp_all [isWhitespace_nl]; done) | grind [isWhitespace_nl])

theorem lastTokIsStart_inert : Inert lastTokIsStart := by unfold lastTokIsStart P.lastTokTy; inert

theorem handleUnterminatedStrExpr_safe (cfg : Cfg) : Safe (handleUnterminatedStrExpr cfg) := by
  intro r; unfold handleUnterminatedStrExpr
  awp_auto [lastTokIsStart_inert.awp']

theorem lexDoubleQuotedLiteral_awp (cfg : Cfg) {r : List Char} (hr : r.head? = some '"')
    {Q : Unit → List Char → Bool → Prop} (hQ : ∀ r', Q () r' false) :
    awp (lexDoubleQuotedLiteral cfg) Q r false := by
  obtain ⟨t, rfl⟩ := head_cons hr
  unfold lexDoubleQuotedLiteral
  awp_auto [resolveStringLiteralEnding_awp]
  all_goals (first | exact hQ _ | (simp_all; done) | grind)

set_option maxRecDepth 8000 in
theorem lexStrExprTextLoop_safe (cfg : Cfg) : ∀ (f : Nat), Safe (lexStrExprTextLoop cfg f)
  | 0, r => by simp [lexStrExprTextLoop, awp_simp]
  | f + 1, r => by
    unfold lexStrExprTextLoop
    have ih := lexStrExprTextLoop_safe cfg f
    rcases r with _ | ⟨c, _ | ⟨d, u⟩⟩ <;>
      awp_auto [ih.awp, lastTokIsStart_inert.awp', lexDoubleQuotedLiteral_awp]
    all_goals (first | exact amp_take_ok (Prod.ext rfl rfl) _ ‹_› ‹_› | (simp_all; done) | grind)

theorem lexStrExprText_safe (cfg : Cfg) : Safe (lexStrExprText cfg) := by
  intro r; unfold lexStrExprText
  awp_auto [(lexStrExprTextLoop_safe _ _).awp, (handleUnterminatedStrExpr_safe _).awp]

theorem strExprEndType_ne_eof (c : Option Char) (n : Char) : (strExprEndType c n).1 ≠ .EOF := by
  unfold strExprEndType; split <;> (repeat' split) <;> simp

set_option maxRecDepth 8000 in
theorem dispatchModeStrExpr_awp (cfg : Cfg) (c : Char) (a : Bool) (t : List Char)
    {Q : Unit → List Char → Bool → Prop} (hQ : ∀ r', Q () r' false) :
    awp (dispatchModeStrExpr cfg c a) Q (c :: t) false := by
  unfold dispatchModeStrExpr
  rcases t with _ | ⟨d, _ | ⟨e, u⟩⟩ <;>
    awp_auto [(lexStrExprText_safe _).awp, lastTokIsStart_inert.awp', lexDoubleQuotedLiteral_awp,
      (lexMacroVarExpr_safe _).awp, lexMacroIdentifier_awp']
  all_goals (first | exact hQ _ | exact strExprEndType_ne_eof _ _ ‹_› | (simp_all [strExprEndType]; done) | grind [strExprEndType])

end SasLexer
