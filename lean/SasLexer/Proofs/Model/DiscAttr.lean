import Lean
/-- simp set for symbolic evaluation of `awp` (the scanning discipline) -/
register_simp_attr awp_simp
