import Lean
/-- simp set for symbolic evaluation of `awp` (the scanning discipline) -/
register_simp_attr awp_simp

/-- simp set for symbolic evaluation of `cwp` (first token at the BOM end) -/
register_simp_attr cwp_simp

/-- simp set for symbolic evaluation of `ChanR` (the channel table) -/
register_simp_attr chan_simp
