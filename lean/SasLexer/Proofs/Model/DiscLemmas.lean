import SasLexer.Lex.Common
/-! # Facts about the pure helpers of the model that the scanning discipline needs -/
namespace SasLexer

theorem isXidContinue_nl : isXidContinue '\n' = false := by decide +kernel
theorem isIdentContinue_nl : isIdentContinue '\n' = false := by decide +kernel
theorem isUnicodeNameStart_nl : isUnicodeNameStart '\n' = false := by decide +kernel
theorem isAsciiDigit_nl : isAsciiDigit '\n' = false := by decide +kernel
theorem isAsciiHexDigit_nl : isAsciiHexDigit '\n' = false := by decide +kernel

theorem isMacroAmp_nil (n : Nat) : isMacroAmp [] n = (false, n) := rfl
theorem isMacroAmp_amp (r : List Char) (n : Nat) : isMacroAmp ('&' :: r) n = isMacroAmp r (n + 1) := rfl
set_option maxRecDepth 8000 in
theorem isMacroAmp_other (c : Char) (r : List Char) (n : Nat) (hc : c ≠ '&') :
    isMacroAmp (c :: r) n = (isUnicodeNameStart c, n) := by
  unfold isMacroAmp
  split
  · rename_i heq; simp at heq; exact absurd heq.1 hc
  · rename_i heq; simp at heq; obtain ⟨⟨rfl, _⟩, rfl⟩ := heq; rfl
  · rename_i heq; simp at heq

theorem isMacroAmp_take (r : List Char) : ∀ (n : Nat) {b : Bool} {m : Nat}, isMacroAmp r n = (b, m) →
    n ≤ m ∧ ∀ c ∈ r.take (m - n), c = '&' := by
  induction r with
  | nil =>
    intro n b m h
    rw [isMacroAmp_nil] at h
    simp only [Prod.mk.injEq] at h
    obtain ⟨_, rfl⟩ := h
    simp
  | cons c r ih =>
    intro n b m h
    by_cases hc : c = '&'
    · subst hc
      rw [isMacroAmp_amp] at h
      obtain ⟨h1, h2⟩ := ih (n + 1) h
      refine ⟨by omega, ?_⟩
      have : m - n = (m - (n + 1)) + 1 := by omega
      rw [this, List.take_succ_cons]
      intro c hc
      simp only [List.mem_cons] at hc
      rcases hc with rfl | hc
      · rfl
      · exact h2 c hc
    · rw [isMacroAmp_other c r n hc] at h
      simp only [Prod.mk.injEq] at h
      obtain ⟨_, rfl⟩ := h
      simp

def sumPow (ks : List Nat) : Nat := (ks.map (2 ^ ·)).sum

theorem sumPow_bits (n : Nat) : ∀ k, sumPow (((List.range k).reverse).filter fun i => (n / 2 ^ i) % 2 == 1) = n % 2 ^ k
  | 0 => by simp [sumPow, Nat.mod_one]
  | k + 1 => by
    have ih := sumPow_bits n k
    rw [List.range_succ, List.reverse_append, List.reverse_singleton, List.singleton_append]
    rw [Nat.mod_pow_succ]
    have h2 : (n / 2 ^ k) % 2 = 0 ∨ (n / 2 ^ k) % 2 = 1 := by omega
    rcases h2 with h2 | h2
    · rw [List.filter_cons_of_neg (by simp [h2]), ih, h2]; omega
    · rw [List.filter_cons_of_pos (by simp [h2])]
      simp only [sumPow, List.map_cons, List.sum_cons] at ih ⊢
      rw [ih, h2]; omega

theorem sumPow_resolveOps_le (n : Nat) : sumPow (resolveOps n) ≤ n := by
  unfold resolveOps
  rw [sumPow_bits n 32]
  exact Nat.mod_le _ _

/-- chars of a decimal / hex numeric literal -/
def NumCh (c : Char) : Bool :=
  isAsciiHexDigit c || c == '.' || c == '+' || c == '-'

theorem NumCh_nl : NumCh '\n' = false := by decide

theorem takeWhile_eq_take (p : Char → Bool) (s : List Char) : s.take (s.takeWhile p).length = s.takeWhile p := by
  induction s with
  | nil => simp
  | cons c s ih =>
    by_cases h : p c
    · simp [List.takeWhile_cons, h, ih]
    · simp [List.takeWhile_cons, h]

theorem all_takeWhile (p : Char → Bool) (s : List Char) : ∀ c ∈ s.takeWhile p, p c = true := by
  induction s with
  | nil => simp
  | cons d s ih =>
    by_cases h : p d
    · simp only [List.takeWhile_cons, h, if_true, List.mem_cons]
      rintro c (rfl | hc)
      · exact h
      · exact ih c hc
    · simp [List.takeWhile_cons, h]

theorem digit_NumCh {c : Char} (h : isAsciiDigit c = true) : NumCh c = true := by
  simp [NumCh, isAsciiHexDigit, h]
theorem hex_NumCh {c : Char} (h : isAsciiHexDigit c = true) : NumCh c = true := by
  simp [NumCh, h]

/-- `s.take (n + m)` splits -/
theorem mem_take_add {s : List Char} {n m : Nat} {c : Char} (h : c ∈ s.take (n + m)) :
    c ∈ s.take n ∨ c ∈ (s.drop n).take m := by
  rw [List.take_add] at h
  simpa using h

theorem tryParseInteger_len {s : List Char} {r : NumRes} (h : tryParseInteger s = some r) :
    ∀ c ∈ s.take r.len, NumCh c = true := by
  unfold tryParseInteger at h
  simp only at h
  split at h
  · simp at h
  · split at h
    · simp at h
    · simp only [Option.some.injEq] at h
      subst h
      simp only [takeWhile_eq_take]
      intro c hc
      exact digit_NumCh (all_takeWhile _ _ c hc)

theorem tryParseHexInteger_len {s : List Char} {r : NumRes} (h : tryParseHexInteger s = some r) :
    ∀ c ∈ s.take r.len, NumCh c = true := by
  unfold tryParseHexInteger at h
  simp only at h
  split at h
  · simp at h
  · split at h <;>
    · simp only [Option.some.injEq] at h
      subst h
      simp only [takeWhile_eq_take]
      intro c hc
      exact hex_NumCh (all_takeWhile _ _ c hc)

theorem take_takeWhile_len (p : Char → Bool) (s : List Char) {c : Char} (h : c ∈ s.take (s.takeWhile p).length) :
    p c = true := by
  rw [takeWhile_eq_take] at h; exact all_takeWhile p s c h

def AllTake (P : Char → Bool) (l : List Char) (n : Nat) : Prop := ∀ c ∈ l.take n, P c = true

theorem AllTake.zero {P l} : AllTake P l 0 := by intro c h; simp at h

theorem AllTake.cons {P : Char → Bool} {a : Char} {l : List Char} {n k : Nat} (hk : k = n + 1) (ha : P a = true)
    (h : AllTake P l n) : AllTake P (a :: l) k := by
  subst hk
  intro c hc
  rw [List.take_succ_cons] at hc
  simp only [List.mem_cons] at hc
  rcases hc with rfl | hc
  · exact ha
  · exact h c hc

theorem AllTake.takeWhile {P p : Char → Bool} {l : List Char} {m k : Nat} (hp : ∀ c, p c = true → P c = true)
    (hk : k = (l.takeWhile p).length + m)
    (h : AllTake P (l.drop (l.takeWhile p).length) m) : AllTake P l k := by
  subst hk
  intro c hc
  rcases mem_take_add hc with h1 | h1
  · exact hp c (take_takeWhile_len p l h1)
  · exact h c h1

theorem NumCh_dot : NumCh '.' = true := by decide
theorem NumCh_plus : NumCh '+' = true := by decide
theorem NumCh_minus : NumCh '-' = true := by decide
theorem NumCh_e {c : Char} (h : (c == 'e' || c == 'E') = true) : NumCh c = true := by
  simp only [Bool.or_eq_true, beq_iff_eq] at h
  rcases h with rfl | rfl <;> decide

theorem AllTake.mono {P : Char → Bool} {l : List Char} {n m : Nat} (h : AllTake P l n) (hm : m ≤ n) : AllTake P l m := by
  intro c hc
  apply h c
  have : l.take m = (l.take n).take m := by rw [List.take_take]; congr 1; omega
  rw [this] at hc
  exact List.mem_of_mem_take hc

theorem expDigits {P : Char → Bool} (hd : ∀ c, isAsciiDigit c = true → P c = true) (u : List Char) :
    AllTake P u (u.takeWhile isAsciiDigit).length :=
  AllTake.takeWhile (m := 0) hd (by omega) AllTake.zero

set_option maxHeartbeats 1600000 in
theorem parseFloatPartial_len (s : List Char) :
    (∀ bits len e, parseFloatPartial s = .ok bits len e → AllTake NumCh s len) ∧
    (∀ len, parseFloatPartial s = .emptyExponent len → AllTake NumCh s len) := by
  have hd : ∀ c, isAsciiDigit c = true → NumCh c = true := fun c h => digit_NumCh h
  -- the exponent tail in its three sign forms
  have tailP : ∀ (c : Char) (u : List Char), (c == 'e' || c == 'E') = true →
      AllTake NumCh (c :: '+' :: u) (1 + 1 + (u.takeWhile isAsciiDigit).length) := fun c u hc =>
    AllTake.cons (n := 1 + (u.takeWhile isAsciiDigit).length) (by omega) (NumCh_e hc)
      (AllTake.cons (n := (u.takeWhile isAsciiDigit).length) (by omega) NumCh_plus (expDigits hd u))
  have tailM : ∀ (c : Char) (u : List Char), (c == 'e' || c == 'E') = true →
      AllTake NumCh (c :: '-' :: u) (1 + 1 + (u.takeWhile isAsciiDigit).length) := fun c u hc =>
    AllTake.cons (n := 1 + (u.takeWhile isAsciiDigit).length) (by omega) (NumCh_e hc)
      (AllTake.cons (n := (u.takeWhile isAsciiDigit).length) (by omega) NumCh_minus (expDigits hd u))
  have tailN : ∀ (c : Char) (u : List Char), (c == 'e' || c == 'E') = true →
      AllTake NumCh (c :: u) (1 + (u.takeWhile isAsciiDigit).length) := fun c u hc =>
    AllTake.cons (n := (u.takeWhile isAsciiDigit).length) (by omega) (NumCh_e hc) (expDigits hd u)
  unfold parseFloatPartial
  simp only []
  split
  · -- mantissa with a dot
    rename_i r1 t heq
    have wrap : ∀ m k, k = (List.takeWhile isAsciiDigit s).length + (1 + (List.takeWhile isAsciiDigit t).length) + m →
        AllTake NumCh (List.drop (List.takeWhile isAsciiDigit t).length t) m → AllTake NumCh s k := by
      intro m k hk hm
      refine AllTake.takeWhile (m := 1 + (List.takeWhile isAsciiDigit t).length + m) hd (by omega) ?_
      rw [heq]
      refine AllTake.cons (n := (List.takeWhile isAsciiDigit t).length + m) (by omega) NumCh_dot ?_
      exact AllTake.takeWhile hd rfl hm
    simp only [if_true]
    constructor
    · intro bits len e h
      split at h
      · simp at h
      · split at h
        · rename_i c t2 hr2
          split at h
          · rename_i hc
            split at h <;> simp only [] at h <;> split at h <;> first
              | (simp at h; done)
              | (injection h with _ h2 _
                 subst h2
                 rw [hr2] at wrap
                 first
                   | (refine wrap _ _ ?_ (tailP c _ hc); omega)
                   | (refine wrap _ _ ?_ (tailM c _ hc); omega)
                   | (refine wrap _ _ ?_ (tailN c _ hc); omega))
          · injection h with _ h2 _
            subst h2
            exact wrap 0 _ (by omega) AllTake.zero
        · injection h with _ h2 _
          subst h2
          exact wrap 0 _ (by omega) AllTake.zero
    · intro len h
      split at h
      · simp at h
      · split at h
        · rename_i c t2 hr2
          split at h
          · rename_i hc
            split at h <;> simp only [] at h <;> split at h <;> first
              | (simp at h; done)
              | (injection h with h2
                 subst h2
                 rw [hr2] at wrap
                 first
                   | (refine wrap _ _ ?_ ((tailP c _ hc).mono (m := 1 + 1) (by omega)); omega)
                   | (refine wrap _ _ ?_ ((tailM c _ hc).mono (m := 1 + 1) (by omega)); omega)
                   | (refine wrap _ _ ?_ ((tailN c _ hc).mono (m := 1) (by omega)); omega))
          · simp at h
        · simp at h
  · -- no dot
    rename_i r1 hnd
    clear hnd
    generalize hr : List.drop (List.takeWhile isAsciiDigit s).length s = r2
    have wrap : ∀ m k, k = (List.takeWhile isAsciiDigit s).length + m →
        AllTake NumCh r2 m → AllTake NumCh s k := by
      intro m k hk hm
      exact AllTake.takeWhile hd hk (hr ▸ hm)
    clear hr
    generalize (List.takeWhile isAsciiDigit s).length = n0 at *
    generalize List.takeWhile isAsciiDigit s = ip at *
    simp only [Bool.false_eq_true, if_false, List.length_nil, List.isEmpty_nil, List.append_nil, Nat.add_zero, Bool.and_true]
    constructor
    · intro bits len e h
      split at h
      · simp at h
      · split at h
        · rename_i c t2
          split at h
          · rename_i hc
            split at h <;> simp only [] at h <;> split at h <;> first
              | (simp at h; done)
              | (injection h with _ h2 _
                 subst h2
                 first
                   | (refine wrap _ _ ?_ (tailP c _ hc); omega)
                   | (refine wrap _ _ ?_ (tailM c _ hc); omega)
                   | (refine wrap _ _ ?_ (tailN c _ hc); omega))
          · injection h with _ h2 _
            subst h2
            exact wrap 0 _ (by omega) AllTake.zero
        · injection h with _ h2 _
          subst h2
          exact wrap 0 _ (by omega) AllTake.zero
    · intro len h
      split at h
      · simp at h
      · split at h
        · rename_i c t2
          split at h
          · rename_i hc
            split at h <;> simp only [] at h <;> split at h <;> first
              | (simp at h; done)
              | (injection h with h2
                 subst h2
                 first
                   | (refine wrap _ _ ?_ ((tailP c _ hc).mono (m := 1 + 1) (by omega)); omega)
                   | (refine wrap _ _ ?_ ((tailM c _ hc).mono (m := 1 + 1) (by omega)); omega)
                   | (refine wrap _ _ ?_ ((tailN c _ hc).mono (m := 1) (by omega)); omega))
          · simp at h
        · simp at h


theorem tryParseFloat_len {s : List Char} {r : NumRes} (h : tryParseFloat s = some r) : AllTake NumCh s r.len := by
  unfold tryParseFloat at h
  split at h
  · rename_i bits len e hp
    split at h
    · simp at h
    · simp only [Option.some.injEq] at h; subst h
      exact (parseFloatPartial_len s).1 _ _ _ hp
  · rename_i len hp
    split at h
    · simp at h
    · simp only [Option.some.injEq] at h; subst h
      exact (parseFloatPartial_len s).2 _ hp
  · simp at h

theorem tryParseDecimal_len {s : List Char} {a b : Bool} {r : NumRes} (h : tryParseDecimal s a b = some r) :
    AllTake NumCh s r.len := by
  unfold tryParseDecimal at h
  simp only at h
  have hi : ∀ r, (if a = true then tryParseInteger s else none) = some r → AllTake NumCh s r.len := by
    intro r hr; split at hr
    · exact tryParseInteger_len hr
    · simp at hr
  have hf : ∀ r, (if b = true then tryParseFloat s else none) = some r → AllTake NumCh s r.len := by
    intro r hr; split at hr
    · exact tryParseFloat_len hr
    · simp at hr
  split at h
  · rename_i i f h1 h2
    split at h <;> (simp only [Option.some.injEq] at h; subst h)
    · exact hi _ h1
    · exact hf _ h2
  · rename_i i h1 h2; simp only [Option.some.injEq] at h; subst h; exact hi _ h1
  · rename_i f h1 h2; simp only [Option.some.injEq] at h; subst h; exact hf _ h2
  · simp at h

theorem AllTake.no_nl {P : Char → Bool} (hP : P '\n' = false) {l : List Char} {n : Nat} (h : AllTake P l n) :
    ∀ c ∈ l.take n, c ≠ '\n' := by
  intro c hc heq
  subst heq
  have := h _ hc
  rw [hP] at this; cases this


/-- chars of a character format `$name?w?.d?` -/
def CfCh (c : Char) : Bool := isUnicodeNameStart c || isXidContinue c || isAsciiDigit c || c == '.'
theorem CfCh_nl : CfCh '\n' = false := by decide +kernel

theorem AllTake.of_suffix {P : Char → Bool} {l suf : List Char} {n : Nat} (pre : List Char) (h : l = pre ++ suf)
    (hn : n = l.length - suf.length) (hp : ∀ c ∈ pre, P c = true) : AllTake P l n := by
  subst h
  have : n = pre.length := by simp at hn; omega
  subst this
  intro c hc
  simp at hc
  exact hp c hc

theorem split_tw (p : Char → Bool) (l : List Char) : l = l.takeWhile p ++ l.dropWhile p :=
  (List.takeWhile_append_dropWhile).symm

theorem charFormatLen_take {r : List Char} {n : Nat} (h : charFormatLen r = some n) : AllTake CfCh r n := by
  unfold charFormatLen at h
  split at h
  · simp at h
  · rename_i c t
    simp only at h
    split at h
    · rename_i r3 hr2
      simp only [Option.some.injEq] at h
      have h3 := split_tw isAsciiDigit r3
      split at hr2
      · rename_i hns
        simp only [List.drop_succ_cons, List.drop_zero] at hr2
        have h1 := split_tw isXidContinue t
        have h2 := split_tw isAsciiDigit (t.dropWhile isXidContinue)
        refine AllTake.of_suffix (c :: t.takeWhile isXidContinue ++ (t.dropWhile isXidContinue).takeWhile isAsciiDigit ++ '.' :: r3.takeWhile isAsciiDigit) ?_ h.symm ?_
        · rw [hr2] at h2
          conv => lhs; rw [h1, h2, h3]
          simp
        · intro x hx
          simp only [List.cons_append, List.mem_cons, List.mem_append] at hx
          rcases hx with rfl | (hx | hx) | rfl | hx
          · simp [CfCh, hns]
          · simp [CfCh, all_takeWhile _ _ x hx]
          · simp [CfCh, all_takeWhile _ _ x hx]
          · simp [CfCh]
          · simp [CfCh, all_takeWhile _ _ x hx]
      · have h2 := split_tw isAsciiDigit (c :: t)
        refine AllTake.of_suffix ((c :: t).takeWhile isAsciiDigit ++ '.' :: r3.takeWhile isAsciiDigit) ?_ h.symm ?_
        · rw [hr2] at h2
          conv => lhs; rw [h2, h3]
          simp
        · intro x hx
          simp only [List.mem_cons, List.mem_append] at hx
          rcases hx with hx | rfl | hx
          · simp [CfCh, all_takeWhile _ _ x hx]
          · simp [CfCh]
          · simp [CfCh, all_takeWhile _ _ x hx]
    · simp at h


theorem tryParseInteger_ty {s : List Char} {r : NumRes} (h : tryParseInteger s = some r) : r.ty ≠ .EOF := by
  unfold tryParseInteger at h
  simp only at h
  split at h
  · simp at h
  · split at h
    · simp at h
    · simp only [Option.some.injEq] at h; subst h; simp

theorem tryParseHexInteger_ty {s : List Char} {r : NumRes} (h : tryParseHexInteger s = some r) : r.ty ≠ .EOF := by
  unfold tryParseHexInteger at h
  simp only at h
  split at h
  · simp at h
  · split at h <;> (simp only [Option.some.injEq] at h; subst h; simp)

theorem tryParseFloat_ty {s : List Char} {r : NumRes} (h : tryParseFloat s = some r) : r.ty ≠ .EOF := by
  unfold tryParseFloat at h
  split at h
  · split at h
    · simp at h
    · simp only [Option.some.injEq] at h; subst h; split <;> simp
  · split at h
    · simp at h
    · simp only [Option.some.injEq] at h; subst h; simp
  · simp at h

theorem tryParseDecimal_ty {s : List Char} {a b : Bool} {r : NumRes} (h : tryParseDecimal s a b = some r) :
    r.ty ≠ .EOF := by
  unfold tryParseDecimal at h
  simp only at h
  have hi : ∀ r, (if a = true then tryParseInteger s else none) = some r → r.ty ≠ .EOF := by
    intro r hr; split at hr
    · exact tryParseInteger_ty hr
    · simp at hr
  have hf : ∀ r, (if b = true then tryParseFloat s else none) = some r → r.ty ≠ .EOF := by
    intro r hr; split at hr
    · exact tryParseFloat_ty hr
    · simp at hr
  split at h
  · rename_i i f h1 h2
    split at h <;> (simp only [Option.some.injEq] at h; subst h)
    · exact hi _ h1
    · exact hf _ h2
  · rename_i i h1 h2; simp only [Option.some.injEq] at h; subst h; exact hi _ h1
  · rename_i f h1 h2; simp only [Option.some.injEq] at h; subst h; exact hf _ h2
  · simp at h

theorem numericChoice_ok {view : List Char} {sd : Bool} {res : NumRes} {cx : Bool}
    (h : numericChoice view sd = some (res, cx)) : AllTake NumCh view res.len ∧ res.ty ≠ .EOF := by
  unfold numericChoice at h
  simp only at h
  have hh : ∀ r, (if sd = true then none else tryParseHexInteger view) = some r →
      AllTake NumCh view r.len ∧ r.ty ≠ .EOF := by
    intro r hr; split at hr
    · simp at hr
    · exact ⟨tryParseHexInteger_len hr, tryParseHexInteger_ty hr⟩
  have hdd : ∀ r, tryParseDecimal view (!sd) true = some r → AllTake NumCh view r.len ∧ r.ty ≠ .EOF :=
    fun r hr => ⟨tryParseDecimal_len hr, tryParseDecimal_ty hr⟩
  split at h
  · rename_i d hx h1 h2
    split at h
    · simp only [Option.some.injEq, Prod.mk.injEq] at h; obtain ⟨rfl, _⟩ := h; exact hdd _ h1
    · split at h
      · simp only [Option.some.injEq, Prod.mk.injEq] at h; obtain ⟨rfl, _⟩ := h; exact hh _ h2
      · split at h
        · simp only [Option.some.injEq, Prod.mk.injEq] at h; obtain ⟨rfl, _⟩ := h; exact hh _ h2
        · simp only [Option.some.injEq, Prod.mk.injEq] at h; obtain ⟨rfl, _⟩ := h; exact hdd _ h1
  · rename_i d h1 h2
    simp only [Option.some.injEq, Prod.mk.injEq] at h; obtain ⟨rfl, _⟩ := h; exact hdd _ h1
  · rename_i hx h1 h2
    simp only [Option.some.injEq, Prod.mk.injEq] at h; obtain ⟨rfl, _⟩ := h; exact hh _ h2
  · split at h
    · simp at h
    · simp only [Option.some.injEq, Prod.mk.injEq] at h
      obtain ⟨rfl, _⟩ := h
      refine ⟨?_, by simp⟩
      intro c hc
      exact digit_NumCh (take_takeWhile_len isAsciiDigit view hc)


end SasLexer
