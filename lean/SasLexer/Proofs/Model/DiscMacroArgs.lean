import SasLexer.Proofs.Model.DiscMacroEval
import SasLexer.Lex.MacroArgs
/-! # The scanning discipline holds of macro call / definition arguments and `%str` (`Lex/MacroArgs.lean`) -/
namespace SasLexer
open Prog (perform)
open P

theorem populateNextArgStack_awp (flags : Nat) {r : List Char} (hr : r.head? = some ',')
    {Q : Unit → List Char → Bool → Prop} (hQ : ∀ r', Q () r' false) :
    awp (populateNextArgStack flags) Q r false := by
  obtain ⟨t, rfl⟩ := head_cons hr
  unfold populateNextArgStack
  awp_auto []
  all_goals (first | exact hQ _ | (simp_all; done) | grind)

set_option maxRecDepth 8000 in
theorem lexMaybeMacroCallArgsOrLabel_awp (cfg : Cfg) (c : Char) (b : Bool) (t : List Char)
    {Q : Unit → List Char → Bool → Prop} (hQ : ∀ r', Q () r' false) :
    awp (lexMaybeMacroCallArgsOrLabel cfg c b) Q (c :: t) false := by
  unfold lexMaybeMacroCallArgsOrLabel
  awp_auto []
  all_goals (first | exact hQ _ | (simp_all; done) | grind)

set_option maxRecDepth 8000 in
theorem lexMaybeMacroCallArgAssign_awp (cfg : Cfg) (c : Char) (f : Nat) (t : List Char)
    {Q : Unit → List Char → Bool → Prop} (hQ : ∀ r', Q () r' false) :
    awp (lexMaybeMacroCallArgAssign cfg c f) Q (c :: t) false := by
  unfold lexMaybeMacroCallArgAssign
  awp_auto []
  all_goals (first | exact hQ _ | (simp_all; done) | grind)

set_option maxRecDepth 8000 in
theorem lexMaybeTailMacroCallArgValue_awp (cfg : Cfg) (c : Char) (t : List Char)
    {Q : Unit → List Char → Bool → Prop} (hQ : ∀ r', Q () r' false) :
    awp (lexMaybeTailMacroCallArgValue cfg c) Q (c :: t) false := by
  unfold lexMaybeTailMacroCallArgValue
  awp_auto []
  all_goals (first | exact hQ _ | (simp_all; done) | grind)

theorem safePopMode_inert : Inert safePopMode := by unfold safePopMode; inert
theorem switchToValueMode_safe (f : Nat) : Safe (switchToValueMode f) := by
  intro r; unfold switchToValueMode; awp_auto []
theorem pushCheckAssign_inert (f : Nat) : Inert (pushCheckAssign f) := by unfold pushCheckAssign; inert

set_option maxRecDepth 8000 in
theorem dispatchMacroCallArgOrValue_awp (cfg : Cfg) (c : Char) (f : Nat) (t : List Char)
    {Q : Unit → List Char → Bool → Prop} (hQ : ∀ r', Q () r' false) :
    awp (dispatchMacroCallArgOrValue cfg c f) Q (c :: t) false := by
  unfold dispatchMacroCallArgOrValue
  awp_auto [(pushCheckAssign_inert _).awp', (switchToValueMode_safe _).awp, (lexMacroVarExpr_safe _).awp,
    lexMacroComment_awp', lexMacroIdentifier_awp', safePopMode_inert.awp', populateNextArgStack_awp]
  all_goals (first | exact hQ _ | exact isXidContinue_nl | (simp_all; done) | grind)

theorem emitTokenUpdateNestingArg_inert (pnl : Nat) (loc : Int) : Inert (emitTokenUpdateNestingArg pnl loc) := by
  unfold emitTokenUpdateNestingArg; inert

theorem emitTokenUpdateNestingStr_inert (pnl : Nat) (loc : Int) : Inert (emitTokenUpdateNestingStr pnl loc) := by
  unfold emitTokenUpdateNestingStr; inert

set_option maxRecDepth 8000 in
theorem lexMacroStringInMacroCallArgValueLoop_safe (flags pnl : Nat) :
    ∀ (f : Nat) (loc : Int), Safe (lexMacroStringInMacroCallArgValueLoop flags pnl f loc)
  | 0, loc, r => by simp [lexMacroStringInMacroCallArgValueLoop, awp_simp]
  | f + 1, loc, r => by
    unfold lexMacroStringInMacroCallArgValueLoop
    have ih := fun loc => lexMacroStringInMacroCallArgValueLoop_safe flags pnl f loc
    rcases r with _ | ⟨c, t⟩ <;>
      awp_auto [(ih _).awp, (emitTokenUpdateNestingArg_inert _ _).awp', populateNextArgStack_awp]
    all_goals (first | exact amp_take_ok (Prod.ext rfl rfl) _ ‹_› ‹_› | (simp_all; done) | grind)

theorem lexMacroStringInMacroCallArgValue_safe (cfg : Cfg) (flags pnl : Nat) :
    Safe (lexMacroStringInMacroCallArgValue cfg flags pnl) := by
  intro r; unfold lexMacroStringInMacroCallArgValue
  awp_auto [(lexMacroStringInMacroCallArgValueLoop_safe _ _ _ _).awp]

set_option maxRecDepth 8000 in
theorem dispatchMacroCallArgValue_awp (cfg : Cfg) (c : Char) (f p : Nat) (t : List Char)
    {Q : Unit → List Char → Bool → Prop} (hQ : ∀ r', Q () r' false) :
    awp (dispatchMacroCallArgValue cfg c f p) Q (c :: t) false := by
  unfold dispatchMacroCallArgValue
  awp_auto [(lexMacroVarExpr_safe _).awp, lexCStyleComment_awp', lexSingleQuotedStr_awp', lexStringExpressionStart_awp',
    lexMacroComment_awp', lexMacroIdentifier_awp', populateNextArgStack_awp,
    (lexMacroStringInMacroCallArgValue_safe _ _ _).awp]
  all_goals (first | exact hQ _ | (simp_all; done) | grind)

theorem lexMaybeMacroDefArgs_awp (cfg : Cfg) (c : Char) (t : List Char)
    {Q : Unit → List Char → Bool → Prop} (hQ : ∀ r', Q () r' false) :
    awp (lexMaybeMacroDefArgs cfg c) Q (c :: t) false := by
  unfold lexMaybeMacroDefArgs
  awp_auto []
  all_goals (first | exact hQ _ | (simp_all; done) | grind)

theorem isSasNameContinue_nl : isSasNameContinue '\n' = false := by decide

theorem lexMacroDefIdentifier_safe (cfg : Cfg) (c : Char) (b : Bool) : Safe (lexMacroDefIdentifier cfg c b) := by
  intro r; unfold lexMacroDefIdentifier
  awp_auto []
  all_goals (first | exact isSasNameContinue_nl | (simp_all; done) | grind)

set_option maxRecDepth 8000 in
theorem dispatchMacroDefArg_safe (cfg : Cfg) (c : Char) : Safe (dispatchMacroDefArg cfg c) := by
  intro r; unfold dispatchMacroDefArg
  awp_auto [(lexMacroDefIdentifier_safe _ _ _).awp]

theorem lexMacroDefNextArgOrDefaultValue_awp (cfg : Cfg) (c : Char) (t : List Char)
    {Q : Unit → List Char → Bool → Prop} (hQ : ∀ r', Q () r' false) :
    awp (lexMacroDefNextArgOrDefaultValue cfg c) Q (c :: t) false := by
  unfold lexMacroDefNextArgOrDefaultValue
  awp_auto []
  all_goals (first | exact hQ _ | (simp_all; done) | grind)

set_option maxRecDepth 8000 in
theorem lexMacroStringInStrCallLoop_safe (mm : Bool) (pnl : Nat) :
    ∀ (f : Nat) (loc : Int), Safe (lexMacroStringInStrCallLoop mm pnl f loc)
  | 0, loc, r => by simp [lexMacroStringInStrCallLoop, awp_simp]
  | f + 1, loc, r => by
    unfold lexMacroStringInStrCallLoop
    have ih := fun loc => lexMacroStringInStrCallLoop_safe mm pnl f loc
    rcases r with _ | ⟨c, _ | ⟨d, u⟩⟩ <;>
      awp_auto [(ih _).awp, (emitTokenUpdateNestingStr_inert _ _).awp']
    all_goals (first | exact amp_take_ok (Prod.ext rfl rfl) _ ‹_› ‹_› | (simp_all [isStrQuotedChar, secondCharOr0]; done) | grind [isStrQuotedChar, secondCharOr0])

theorem lexMacroStringInStrCall_safe (cfg : Cfg) (mm : Bool) (pnl : Nat) : Safe (lexMacroStringInStrCall cfg mm pnl) := by
  intro r; unfold lexMacroStringInStrCall
  awp_auto [(lexMacroStringInStrCallLoop_safe _ _ _ _).awp]

set_option maxRecDepth 8000 in
theorem dispatchMacroStrQuotedExpr_awp (cfg : Cfg) (c : Char) (mm : Bool) (p : Nat) (t : List Char)
    {Q : Unit → List Char → Bool → Prop} (hQ : ∀ r', Q () r' false) :
    awp (dispatchMacroStrQuotedExpr cfg c mm p) Q (c :: t) false := by
  unfold dispatchMacroStrQuotedExpr
  awp_auto [(lexMacroVarExpr_safe _).awp, lexCStyleComment_awp', lexSingleQuotedStr_awp', lexStringExpressionStart_awp',
    lexMacroIdentifier_awp', (lexMacroStringInStrCall_safe _ _ _).awp]
  all_goals (first | exact hQ _ | (simp_all; done) | grind)

end SasLexer
