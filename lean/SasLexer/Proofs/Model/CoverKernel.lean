import SasLexer.Proofs.Model.CoverSound
/-!
# Once the oldest token starts at the BOM end it stays there — for every program (kernel-style)
-/
namespace SasLexer
open Lexer


section fieldLemmas
variable (cfg : Cfg) (L : Lexer)
@[simp] theorem startToken_toksR : (L.startToken cfg).toksR = L.toksR := by unfold Lexer.startToken; simp
@[simp] theorem startToken_cp : (L.startToken cfg).cp = L.cp := by unfold Lexer.startToken; simp
@[simp] theorem markIfNone_toksR : (L.markIfNone cfg).toksR = L.toksR := by unfold Lexer.markIfNone; split <;> simp
@[simp] theorem markIfNone_cp : (L.markIfNone cfg).cp = L.cp := by unfold Lexer.markIfNone; split <;> simp
@[simp] theorem popMode_toksR : L.popMode.toksR = L.toksR := by unfold Lexer.popMode; split <;> rfl
@[simp] theorem popMode_cp : L.popMode.cp = L.cp := by unfold Lexer.popMode; split <;> rfl
@[simp] theorem mode_toksR : L.mode.2.toksR = L.toksR := by unfold Lexer.mode; split <;> rfl
@[simp] theorem mode_cp : L.mode.2.cp = L.cp := by unfold Lexer.mode; split <;> rfl
@[simp] theorem popPendingStat_toksR : L.popPendingStat.toksR = L.toksR := by unfold Lexer.popPendingStat; split <;> rfl
@[simp] theorem popPendingStat_cp : L.popPendingStat.cp = L.cp := by unfold Lexer.popPendingStat; split <;> rfl
@[simp] theorem pendingStat_toksR : L.pendingStat.2.toksR = L.toksR := by unfold Lexer.pendingStat; split <;> rfl
@[simp] theorem pendingStat_cp : L.pendingStat.2.cp = L.cp := by unfold Lexer.pendingStat; split <;> rfl
@[simp] theorem setPendingStat_toksR (v) : (L.setPendingStat v).toksR = L.toksR := by unfold Lexer.setPendingStat; split <;> rfl
@[simp] theorem setPendingStat_cp (v) : (L.setPendingStat v).cp = L.cp := by unfold Lexer.setPendingStat; split <;> rfl
@[simp] theorem addStringLiteralFromSrc_toksR (a b) : (L.addStringLiteralFromSrc cfg a b).2.toksR = L.toksR := by
  unfold Lexer.addStringLiteralFromSrc; dsimp only; split <;> rfl
@[simp] theorem addStringLiteralFromSrc_cp (a b) : (L.addStringLiteralFromSrc cfg a b).2.cp = L.cp := by
  unfold Lexer.addStringLiteralFromSrc; dsimp only; split <;> rfl
@[simp] theorem pendingTextFrom_toksR (a b k) : (L.pendingTextFrom a b k).2.toksR = L.toksR := by
  unfold Lexer.pendingTextFrom; split <;> rfl
@[simp] theorem pendingTextFrom_cp (a b k) : (L.pendingTextFrom a b k).2.cp = L.cp := by
  unfold Lexer.pendingTextFrom; split <;> rfl
end fieldLemmas

structure KOld (L : Lexer) : Prop where
  first : ∃ t, L.toksR.getLast? = some t ∧ t.start = bomChars L.src
  cp : ∀ c, L.cp = some c → 1 ≤ c.nToks ∧ c.nToks ≤ L.toksR.length

namespace KOld
variable {L : Lexer} {cfg : Cfg}

theorem ne (h : KOld L) : L.toksR ≠ [] := by
  obtain ⟨t, ht, _⟩ := h.first
  intro e; rw [e] at ht; simp at ht

theorem congr {L L' : Lexer} (h : KOld L) (e1 : L'.src = L.src) (e5 : L'.toksR = L.toksR) (e8 : L'.cp = L.cp) : KOld L' := by
  constructor <;> simp only [e1, e5, e8]
  · exact h.first
  · exact h.cp

theorem bufAddToken (h : KOld L) (t : TokInfo) : KOld (L.bufAddToken cfg t) := by
  obtain ⟨t0, h0, h1⟩ := h.first
  refine ⟨⟨t0, ?_, h1⟩, ?_⟩
  · cases hl : L.toksR with
    | nil => exact absurd hl h.ne
    | cons a b =>
      simp only [Lexer.bufAddToken, hl] at h0 ⊢
      rw [List.getLast?_cons_cons]; exact h0
  · intro c hc
    have := h.cp c hc
    simp only [Lexer.bufAddToken, List.length_cons]
    omega

theorem withToks (h : KOld L) {ts : List TokInfo} (hl : L.toksR.length ≤ ts.length)
    (hlast : ts.getLast?.map (·.start) = L.toksR.getLast?.map (·.start)) : KOld { L with toksR := ts } := by
  obtain ⟨t0, h0, h1⟩ := h.first
  refine ⟨?_, fun c hc => ⟨(h.cp c hc).1, by have := (h.cp c hc).2; simp only; omega⟩⟩
  rw [h0] at hlast
  cases hg : ts.getLast? with
  | none => rw [hg] at hlast; simp at hlast
  | some t1 =>
    rw [hg] at hlast
    simp only [Option.map_some, Option.some.injEq] at hlast
    exact ⟨t1, rfl, by rw [hlast]; exact h1⟩

end KOld

/-- every primitive keeps the oldest token where it is -/
theorem step_KOld (cfg : Cfg) (o : Op) (L : Lexer) (h : KOld L) : KOld (step cfg o L).2 := by
  cases o <;> simp only [step]
  case rest | lastTok | lastDefaultTok | secondLastDefaultTok | hasCheckpoint | nesting | modeDepth | hasMark
      | litIsEmpty | loopProbe => exact h
  case emitToken ch ty p => exact h.bufAddToken _
  case emitTokenAtMark ch ty p =>
    unfold Lexer.emitTokenAtMark; split
    · exact h.bufAddToken _
    · exact h
  case updateLastToken ch ty p =>
    unfold Lexer.updateLastToken
    cases hl : L.toksR with
    | cons t ts =>
      simp only
      refine h.withToks (ts := { t with chan := ch, ty := ty, payload := _ } :: ts) (by simp [hl]) ?_
      rw [hl]
      cases ts with
      | nil => simp
      | cons a b => simp [List.getLast?_cons_cons]
    | nil => exact absurd hl h.ne
  case retypeLastDefault e n =>
    split
    · rename_i ts hts
      have hm := retype_starts hts
      have hlen : ts.length = L.toksR.length := by simpa using congrArg List.length hm
      exact h.withToks (by omega) (last_start_of_map hm)
    · exact h
  case insertSepBeforeLastDefault =>
    split
    · split
      · rename_i ts hts
        obtain ⟨h1, h2⟩ := insertSep_last hts
        exact h.withToks (by omega) h2
      · exact h
    · exact h
  case checkpoint =>
    unfold Lexer.checkpoint
    refine ⟨h.first, ?_⟩
    intro c hc
    simp only [Option.some.injEq] at hc
    subst hc
    have := h.ne
    simp only
    cases hl : L.toksR with
    | nil => exact absurd hl this
    | cons a b => simp [hl]
  case clearCheckpoint => exact ⟨h.first, by intro c hc; simp [Lexer.clearCheckpoint] at hc⟩
  case bumpCheckpointModeLen n =>
    refine ⟨h.first, ?_⟩
    intro c hc
    cases hcp : L.cp with
    | none => simp [hcp] at hc
    | some c0 =>
      simp only [hcp, Option.map_some, Option.some.injEq] at hc
      subst hc
      exact h.cp c0 hcp
  case rollback =>
    unfold Lexer.rollback
    split
    · rename_i c hc
      obtain ⟨h1, h2⟩ := h.cp c hc
      refine ⟨?_, by intro c' hc'; simp at hc'⟩
      simp only
      rw [truncR_getLast _ _ h1 h2]
      exact h.first
    · exact h.congr rfl rfl rfl
  case emitEofAtCursor => exact KOld.bufAddToken (h.congr (by simp) (by simp) (by simp)) _
  all_goals first
    | exact h.congr rfl rfl rfl
    | (refine h.congr ?_ ?_ ?_ <;> first | rfl | (simp [Lexer.pendingText]; done))
    | (refine h.congr ?_ ?_ ?_ <;> (repeat' split) <;> first | rfl | (simp [Lexer.dassert]; done))

/-- every program keeps the oldest token where it is -/
theorem run_KOld (cfg : Cfg) {α} (p : Prog α) (L : Lexer) (h : KOld L) : KOld (Prog.run cfg p L).2 := by
  induction p generalizing L with
  | ret a => exact h
  | op o k ih =>
    rw [run_op']
    have hs := step_KOld cfg o L h
    cases hp : (step cfg o L).2.panicked with
    | some m => exact hs
    | none => exact ih _ _ hs

/-- bridge from the abstract state: a token exists and all checkpoints are good -/
theorem KOld.of_CInv {σ : CS} {L : Lexer} (h : CInv σ L) (hne : σ.ne = true)
    (hg : ∀ n t a, σ.cp = some (n, t, a) → n = true) : KOld L := by
  refine ⟨h.first (h.ne_iff.1 hne), ?_⟩
  intro c hc
  have hcp := h.cp
  cases hs : σ.cp with
  | none => rw [hs] at hcp; simp only [CpRel] at hcp; rw [hcp] at hc; cases hc
  | some x =>
    obtain ⟨n, t, a⟩ := x
    rw [hs] at hcp
    obtain ⟨k, hk, h1, h2, _⟩ := hcp
    rw [hk] at hc; simp only [Option.some.injEq] at hc; subst hc
    exact ⟨h1 (hg n t a hs), h2⟩

end SasLexer
