import SasLexer.Proofs.Model.Cover
import SasLexer.Lex.Main
import SasLexer.Proofs.Model.DiscLemmas
/-! # The open-code dispatcher always leaves a token that starts where the previous text ended (`cwp`) -/
namespace SasLexer
open Prog (perform)
open P

attribute [cwp_simp] Prog.perform P.rest P.peek P.peekNext P.advance P.advance_ P.advanceBy P.eatWhile P.addLine
  P.startToken P.emit P.emitD P.emitError P.pushMode P.popMode P.mode P.setPending P.lastTokTy P.abort P.unmodelled
  P.peekIs P.dbg fuelOfRest

/-- every live checkpoint was taken when a token already existed -/
def cpGood (σ : CS) : Prop := ∀ n t a, σ.cp = some (n, t, a) → n = true

/-- nothing emitted: only the cursor may have moved -/
def Moved (σ σ' : CS) : Prop :=
  σ'.ne = σ.ne ∧ σ'.tokAt = σ.tokAt ∧ σ'.mark = σ.mark ∧ σ'.cp = σ.cp ∧ (σ'.atS = true → σ.atS = true) ∧
  (σ'.fresh = true → σ.fresh = true)

theorem Moved.refl (σ : CS) : Moved σ σ := ⟨rfl, rfl, rfl, rfl, id, id⟩

/-- the program emits a token: from any in-token state it ends with a token present and good checkpoints -/
def Emits {α} (p : Prog α) : Prop :=
  ∀ (R : List Char → Prop) (Q : α → CS → Prop) (σ : CS), (σ.ne = true ∨ σ.tokAt = true) → cpGood σ →
    (∀ a σ', σ'.ne = true → cpGood σ' → Q a σ') → cwp R p Q σ

/-- the program only consumes -/
def Consumes {α} (p : Prog α) : Prop :=
  ∀ (R : List Char → Prop) (Q : α → CS → Prop) (σ : CS), (∀ a σ', Moved σ σ' → Q a σ') → cwp R p Q σ

/-- close the leaves: a postcondition instance through `hQ`, or a side condition -/
macro "cwp_done" : tactic => `(tactic| all_goals (first
  | (apply_assumption <;> first | (simp_all [Moved, cpGood]; done) | grind [Moved, cpGood])
  | (simp_all [Moved, cpGood]; done)
  | grind [Moved, cpGood]))

theorem lexWsLoop_cons : ∀ (f : Nat), Consumes (lexWsLoop f)
  | 0 => by intro R Q σ hQ; simp [lexWsLoop, cwp_simp]
  | f + 1 => by
    intro R Q σ hQ
    unfold lexWsLoop
    have ih := lexWsLoop_cons f
    cwp_auto [ih]
    cwp_done

theorem lexWs_emits (cfg : Cfg) : Emits (lexWs cfg) := by
  intro R Q σ hT hg hQ
  unfold lexWs
  cwp_auto [lexWsLoop_cons _]
  cwp_done

/-- from a state with a token (and good checkpoints) the program keeps both -/
def KeepsNe {α} (p : Prog α) : Prop :=
  ∀ (R : List Char → Prop) (Q : α → CS → Prop) (σ : CS), σ.ne = true → cpGood σ →
    (∀ a σ', σ'.ne = true → cpGood σ' → Q a σ') → cwp R p Q σ

theorem Emits.keeps {α} {p : Prog α} (h : Emits p) : KeepsNe p := fun R Q σ hn hg hQ => h R Q σ (Or.inl hn) hg hQ

theorem lexCStyleLoop_cons : ∀ (f : Nat), Consumes (lexCStyleLoop f)
  | 0 => by intro R Q σ hQ; simp [lexCStyleLoop, cwp_simp]
  | f + 1 => by
    intro R Q σ hQ
    unfold lexCStyleLoop
    have ih := lexCStyleLoop_cons f
    cwp_auto [ih]
    cwp_done

theorem lexCStyleComment_emits (cfg : Cfg) : Emits (lexCStyleComment cfg) := by
  intro R Q σ hT hg hQ
  unfold lexCStyleComment
  cwp_auto [lexCStyleLoop_cons _]
  cwp_done

theorem lexStringExpressionStart_emits (cfg : Cfg) (b : Bool) : Emits (lexStringExpressionStart cfg b) := by
  intro R Q σ hT hg hQ
  unfold lexStringExpressionStart
  cwp_auto []
  cwp_done

theorem resolveStringLiteralEnding_cons : Consumes resolveStringLiteralEnding := by
  intro R Q σ hQ
  unfold resolveStringLiteralEnding
  cwp_auto []
  cwp_done

theorem lexSingleQuotedLoop_cons : ∀ (f : Nat), Consumes (lexSingleQuotedLoop f)
  | 0 => by intro R Q σ hQ; simp [lexSingleQuotedLoop, cwp_simp]
  | f + 1 => by
    intro R Q σ hQ
    unfold lexSingleQuotedLoop
    have ih := lexSingleQuotedLoop_cons f
    cwp_auto [ih]
    cwp_done

theorem lexSingleQuotedStr_emits (cfg : Cfg) : Emits (lexSingleQuotedStr cfg) := by
  intro R Q σ hT hg hQ
  unfold lexSingleQuotedStr
  cwp_auto [lexSingleQuotedLoop_cons _, resolveStringLiteralEnding_cons]
  cwp_done

/-- emitted something, or nothing at all happened -/
def EmittedOrSame (σ σ' : CS) : Prop := (σ'.ne = true ∧ cpGood σ') ∨ σ' = σ

theorem emitResolveOps_nil {R : List Char → Prop} {Q : Unit → CS → Prop} {σ : CS} : cwp R (emitResolveOps []) Q σ ↔ Q () σ := by
  simp [emitResolveOps]

theorem emitResolveOps_keeps : ∀ (ks : List Nat), KeepsNe (emitResolveOps ks)
  | [] => by intro R Q σ hn hg hQ; rw [emitResolveOps_nil]; exact hQ _ _ hn hg
  | k :: ks => by
    intro R Q σ hn hg hQ
    unfold emitResolveOps
    have ih := emitResolveOps_keeps ks
    cwp_auto [ih]
    cwp_done

theorem emitResolveOps_emits : ∀ (ks : List Nat), ks ≠ [] → Emits (emitResolveOps ks)
  | [], h => absurd rfl h
  | k :: ks, _ => by
    intro R Q σ hT hg hQ
    unfold emitResolveOps
    cwp_auto [emitResolveOps_keeps ks]
    cwp_done

theorem lexMacroVarExprLoop_nil (f : Nat) {R : List Char → Prop} {Q : Unit → CS → Prop} {σ : CS} :
    cwp R (lexMacroVarExprLoop f []) Q σ ↔ Q () σ := by
  cases f <;> simp [lexMacroVarExprLoop]

set_option maxRecDepth 4000 in
theorem lexMacroVarExprLoop_keeps : ∀ (f : Nat) (st : List Nat), KeepsNe (lexMacroVarExprLoop f st)
  | f, [] => by intro R Q σ hn hg hQ; rw [lexMacroVarExprLoop_nil]; exact hQ _ _ hn hg
  | 0, _ :: _ => by intro R Q σ hn hg hQ; simp [lexMacroVarExprLoop, cwp_simp]
  | f + 1, s :: st => by
    intro R Q σ hn hg hQ
    unfold lexMacroVarExprLoop
    have ih := fun st => lexMacroVarExprLoop_keeps f st
    cwp_auto [ih _, emitResolveOps_keeps _]
    cwp_done

/-- an `&`-run in front of a name, in a source below 4 GiB, has a non-empty list of resolve operations -/
theorem resolveOps_ne_nil {r : List Char} {b : Bool} {n : Nat} (hs : SmallRest r) (hh : r.head? = some '&')
    (h : isMacroAmp r 0 = (b, n)) : resolveOps n ≠ [] := by
  obtain ⟨h1, h2⟩ := isMacroAmp_take r 0 h
  -- 1 ≤ n ≤ r.length < 2^32
  have hn1 : 1 ≤ n := by
    cases r with
    | nil => simp at hh
    | cons c t =>
      simp at hh; subst hh
      rw [isMacroAmp_amp] at h
      have := (isMacroAmp_take t 1 h).1
      omega
  have hn2 : n < 4294967296 := by
    have hl : (r.take n).length = n ∨ n > r.length := by
      by_cases hle : n ≤ r.length
      · left; simp [hle]
      · right; omega
    rcases hl with hl | hl
    · have : (r.take n).length ≤ r.length := by simp; omega
      unfold SmallRest at hs; omega
    · -- more `&` counted than characters: impossible
      exfalso
      clear hn1 h2 h1
      have key : ∀ (r : List Char) (k : Nat) (b : Bool) (m : Nat), isMacroAmp r k = (b, m) → m ≤ k + r.length := by
        intro r
        induction r with
        | nil => intro k b m hm; rw [isMacroAmp_nil] at hm; simp at hm; omega
        | cons c t ih =>
          intro k b m hm
          by_cases hc : c = '&'
          · subst hc; rw [isMacroAmp_amp] at hm; have := ih _ _ _ hm; simp; omega
          · rw [isMacroAmp_other c t k hc] at hm; simp at hm; omega
      have := key r 0 b n h
      omega
  intro he
  have hsum := sumPow_bits n 32
  have : sumPow (resolveOps n) = n % 2 ^ 32 := hsum
  rw [he] at this
  simp [sumPow] at this
  omega

/-- `lex_macro_var_expr` entered on an `&` (known from the dispatcher's peek, no cursor move since): `true` ⇒ it
emitted; `false` ⇒ nothing happened -/
theorem lexMacroVarExpr_cov (cfg : Cfg) (R : List Char → Prop) (hR : ∀ r, R r → r.head? = some '&')
    {Q : Bool → CS → Prop} {σ : CS} (hf : σ.fresh = true) (hT : σ.ne = true ∨ σ.tokAt = true) (hg : cpGood σ)
    (hQt : ∀ σ', σ'.ne = true → cpGood σ' → Q true σ') (hQf : Q false σ) :
    cwp R (lexMacroVarExpr cfg) Q σ := by
  unfold lexMacroVarExpr
  cwp_auto [emitResolveOps_emits, lexMacroVarExprLoop_keeps _ _]
  all_goals (first
    | exact hQf
    | (exfalso; refine resolveOps_ne_nil ?_ ?_ (Prod.ext rfl rfl) ‹resolveOps _ = []› <;> simp_all)
    | (apply hQt <;> first | (simp_all [Moved, cpGood]; done) | grind [Moved, cpGood])
    | (simp_all [Moved, cpGood]; done)
    | grind [Moved, cpGood])

theorem lexMacroCommentLoop_cons : ∀ (f : Nat) (q : Quote), Consumes (lexMacroCommentLoop f q)
  | 0, q => by intro R Q σ hQ; simp [lexMacroCommentLoop, cwp_simp]
  | f + 1, q => by
    intro R Q σ hQ
    unfold lexMacroCommentLoop
    have ih := fun q => lexMacroCommentLoop_cons f q
    cwp_auto [ih _]
    cwp_done

theorem lexMacroComment_emits (cfg : Cfg) : Emits (lexMacroComment cfg) := by
  intro R Q σ hT hg hQ
  unfold lexMacroComment
  cwp_auto [lexMacroCommentLoop_cons _ _]
  cwp_done

theorem lexNumericLiteral_emits (cfg : Cfg) (sd : Bool) : Emits (lexNumericLiteral cfg sd) := by
  intro R Q σ hT hg hQ
  unfold lexNumericLiteral
  cwp_auto []
  cwp_done

/-- `true` ⇒ emitted, `false` ⇒ nothing happened -/
theorem lexCharFormat_cov (R : List Char → Prop) {Q : Bool → CS → Prop} {σ : CS} (hT : σ.ne = true ∨ σ.tokAt = true)
    (hg : cpGood σ) (hQt : ∀ σ', σ'.ne = true → cpGood σ' → Q true σ') (hQf : Q false σ) :
    cwp R lexCharFormat Q σ := by
  unfold lexCharFormat
  cwp_auto []
  all_goals (first | exact hQf | (apply hQt <;> first | (simp_all [cpGood]; done) | grind [cpGood]) | (simp_all [cpGood]; done))

theorem predictedOpenLoop_cons : ∀ (f : Nat), Consumes (predictedOpenLoop f)
  | 0 => by intro R Q σ hQ; simp [predictedOpenLoop, cwp_simp]
  | f + 1 => by
    intro R Q σ hQ
    unfold predictedOpenLoop
    have ih := predictedOpenLoop_cons f
    cwp_auto [ih]
    cwp_done

/-- the speculative scan inside a macro: `true` ⇒ only consumed; `false` ⇒ the checkpoint was restored -/
theorem predictedMacroLoop_cov (R : List Char → Prop) (n t a : Bool) : ∀ (f : Nat) {Q : Bool → CS → Prop} {σ : CS},
    σ.cp = some (n, t, a) →
    (∀ σ', Moved σ σ' → Q true σ') →
    (∀ σ', σ'.ne = n → σ'.tokAt = t → σ'.cp = none → σ'.mark = σ.mark → Q false σ') →
    cwp R (predictedMacroLoop f) Q σ
  | 0, Q, σ, _, _, _ => by simp [predictedMacroLoop, cwp_simp]
  | f + 1, Q, σ, hcp, hQt, hQf => by
    unfold predictedMacroLoop
    have ih := fun (σ1 : CS) (h1 : σ1.cp = some (n, t, a)) (h2 : Moved σ σ1) =>
      predictedMacroLoop_cov R n t a f (Q := Q) (σ := σ1) h1
        (fun σ' hm => hQt σ' (by simp_all [Moved]))
        (fun σ' e1 e2 e3 e4 => hQf σ' e1 e2 e3 (by simp_all [Moved]))
    cwp_auto []
    all_goals (first
      | (apply ih <;> first | (simp_all [Moved]; done) | grind [Moved])
      | (apply hQt; simp_all [Moved]; done)
      | (apply hQf <;> simp_all [Moved]; done)
      | (simp_all [Moved]; done))

theorem lexPredictedComment_cov (R : List Char → Prop) {Q : Bool → CS → Prop} {σ : CS}
    (hT : σ.ne = true ∨ σ.tokAt = true) (hg : cpGood σ)
    (hQt : ∀ σ', σ'.ne = true → cpGood σ' → Q true σ')
    (hQf : ∀ σ', σ'.ne = σ.ne → σ'.tokAt = σ.tokAt → cpGood σ' → Q false σ') :
    cwp R lexPredictedComment Q σ := by
  unfold lexPredictedComment
  cwp_auto [predictedOpenLoop_cons _, predictedMacroLoop_cov R σ.ne σ.tokAt σ.atS _]
  all_goals (first
    | (apply hQt <;> first | (simp_all [Moved, cpGood]; done) | grind [Moved, cpGood])
    | (apply hQf <;> first | (simp_all [Moved, cpGood]; done) | grind [Moved, cpGood])
    | (simp_all [Moved, cpGood]; done)
    | grind [Moved, cpGood])

theorem datalinesToSemiLoop_cons : ∀ (f : Nat), Consumes (datalinesToSemiLoop f)
  | 0 => by intro R Q σ hQ; simp [datalinesToSemiLoop, cwp_simp]
  | f + 1 => by
    intro R Q σ hQ
    unfold datalinesToSemiLoop
    have ih := datalinesToSemiLoop_cons f
    cwp_auto [ih]
    cwp_done

set_option maxRecDepth 8000 in
theorem datalinesBodyLoop_keeps (e : List Char) : ∀ (f : Nat), KeepsNe (datalinesBodyLoop e f)
  | 0 => by intro R Q σ hn hg hQ; simp [datalinesBodyLoop, cwp_simp]
  | f + 1 => by
    intro R Q σ hn hg hQ
    unfold datalinesBodyLoop
    have ih := datalinesBodyLoop_keeps e f
    cwp_auto [ih]
    cwp_done

set_option maxRecDepth 8000 in
theorem lexDatalines_cov (cfg : Cfg) (is4 : Bool) (R : List Char → Prop) {Q : Bool → CS → Prop} {σ : CS}
    (hT : σ.ne = true ∨ σ.tokAt = true) (hg : cpGood σ)
    (hQt : ∀ σ', σ'.ne = true → cpGood σ' → Q true σ') (hQf : Q false σ) :
    cwp R (lexDatalines cfg is4) Q σ := by
  unfold lexDatalines
  cwp_auto [datalinesToSemiLoop_cons _, datalinesBodyLoop_keeps _ _]
  all_goals (first
    | exact hQf
    | (apply hQt <;> first | (simp_all [Moved, cpGood]; done) | grind [Moved, cpGood])
    | (simp_all [Moved, cpGood]; done)
    | grind [Moved, cpGood])

set_option maxRecDepth 8000 in
theorem lexIdentifier_emits (cfg : Cfg) : Emits (lexIdentifier cfg) := by
  intro R Q σ hT hg hQ
  unfold lexIdentifier
  cwp_auto [lexDatalines_cov]
  cwp_done

set_option maxRecDepth 8000 in
set_option maxHeartbeats 1600000 in
theorem lexSymbols_emits (cfg : Cfg) (c : Char) : Emits (lexSymbols cfg c) := by
  intro R Q σ hT hg hQ
  unfold lexSymbols
  cwp_auto [lexPredictedComment_cov, lexNumericLiteral_emits _ _, lexCharFormat_cov]
  cwp_done

/-! ### once a token exists everything keeps it: rule-based, for the large pre-loaders -/
namespace KeepsNe
variable {α β : Type}

theorem pure' (a : α) : KeepsNe (Pure.pure a : Prog α) := fun _ _ σ hn hg hQ => cwp.pure_iff.2 (hQ a σ hn hg)

theorem bind' {p : Prog α} {f : α → Prog β} (hp : KeepsNe p) (hf : ∀ a, KeepsNe (f a)) : KeepsNe (p >>= f) := by
  intro R Q σ hn hg hQ
  rw [cwp.bind_iff]
  exact hp R _ σ hn hg (fun a σ' hn' hg' => hf a R Q σ' hn' hg' hQ)

theorem ite' {c : Prop} [Decidable c] {p q : Prog α} (hp : KeepsNe p) (hq : KeepsNe q) : KeepsNe (if c then p else q) := by
  split <;> assumption

/-- every primitive except the final `EOF` emission keeps a present token present -/
theorem op' (o : Op) (ho : o ≠ .emitEofAtCursor) : KeepsNe (Prog.perform o) := by
  intro R Q σ hn hg hQ
  cases o <;> simp only [Prog.perform, cwp_simp, cOk, cNext] <;>
    first
    | exact absurd rfl ho
    | trivial
    | (intro r _ _; exact hQ _ _ hn hg)
    | (refine ⟨by simp [hn], fun resp => hQ _ _ ?_ ?_⟩ <;> first | (simp_all [cpGood]; done) | (split <;> simp_all [cpGood]) | grind [cpGood])

theorem cwp' {p : Prog α} (h : KeepsNe p) {R : List Char → Prop} {Q : α → CS → Prop} {σ : CS} (hn : σ.ne = true) (hg : cpGood σ)
    (hQ : ∀ a σ', σ'.ne = true → cpGood σ' → Q a σ') : cwp R p Q σ := h R Q σ hn hg hQ

end KeepsNe

attribute [irreducible] KeepsNe

/-- prove `KeepsNe p` by walking the program -/
macro "keepsne" : tactic => `(tactic| repeat' (first
  | intro _
  | apply KeepsNe.bind' | apply KeepsNe.ite' | apply KeepsNe.pure'
  | (apply KeepsNe.op'; (intro h; cases h))
  | split))

theorem maybeExpectMacroCallArgsOrLabel_keeps (b : Bool) : KeepsNe (maybeExpectMacroCallArgsOrLabel b) := by
  unfold maybeExpectMacroCallArgsOrLabel P.pushMode; keepsne

theorem macroCallOrStatPreload_keeps (ty : TokenType) (b : Bool) : KeepsNe (macroCallOrStatPreload ty b) := by
  unfold macroCallOrStatPreload maybeExpectMacroCallArgsOrLabel expectMacroStrCallArgs
    expectEvalCallArgs expectScanOrSubstrCallArgs expectBuiltinMacroCallArgs expectBuiltinMacroCallOneArgMasking
    expectBuiltinMacroCallNamedArgs expectSysfuncMacroCallArgs expectMacroUntilWhileStatArgs expectMacroLetStat
    expectMacroNameThenOpts expectSyscallCallAndArgs P.pushMode P.abort
  keepsne

theorem dispatchMacroCallOrStat_emits (cfg : Cfg) (ty : TokenType) (b : Bool) : Emits (dispatchMacroCallOrStat cfg ty b) := by
  intro R Q σ hT hg hQ
  unfold dispatchMacroCallOrStat maybeEmitMacroSepBeforeKw
  cwp_auto [(macroCallOrStatPreload_keeps _ _).cwp']
  cwp_done

set_option maxRecDepth 8000 in
theorem lexMacroIdentifier_emits (cfg : Cfg) (b : Bool) : Emits (lexMacroIdentifier cfg b) := by
  intro R Q σ hT hg hQ
  unfold lexMacroIdentifier
  cwp_auto [dispatchMacroCallOrStat_emits _ _ _]
  cwp_done

set_option maxRecDepth 8000 in
set_option maxHeartbeats 1600000 in
/-- **the open-code dispatcher always leaves a token behind**: entered at a token boundary where either a token
exists or the cursor has not moved (`ne ∨ atS`), with `c` the next character, it returns with a token present (and
only good checkpoints) -/
theorem dispatchModeDefault_cov (cfg : Cfg) (c : Char) {Q : Unit → CS → Prop} {σ : CS}
    (hf : σ.fresh = true) (hG : σ.ne = true ∨ σ.atS = true) (hg : cpGood σ)
    (hQ : ∀ a σ', σ'.ne = true → cpGood σ' → Q a σ') :
    cwp (fun r => r.head? = some c) (dispatchModeDefault cfg c) Q σ := by
  unfold dispatchModeDefault
  cwp_auto [lexWs_emits _, lexSingleQuotedStr_emits _, lexStringExpressionStart_emits _ _, lexCStyleComment_emits _,
    lexMacroVarExpr_cov, lexMacroComment_emits _, lexMacroIdentifier_emits _ _, lexNumericLiteral_emits _ _,
    lexIdentifier_emits _, lexSymbols_emits _ _]
  all_goals (first
    | exact hG
    | (apply hQ <;> first | (simp_all [cpGood]; done) | grind [cpGood])
    | (simp_all [cpGood]; done)
    | grind [cpGood])

/-! ### finalisation: never moves the cursor, every token it emits is preceded by `startToken` -/

/-- boundary states: a token exists or nothing has been consumed -/
def Bnd (σ : CS) : Prop := σ.ne = true ∨ σ.atS = true

theorem lexExpectedToken_none_bnd (cfg : Cfg) (ty : TokenType) (ch : Channel) (R : List Char → Prop)
    {Q : Unit → CS → Prop} {σ : CS} (hT : σ.ne = true ∨ (σ.tokAt = true ∧ σ.atS = true))
    (hQ : ∀ σ', Bnd σ' → Q () σ') : cwp R (lexExpectedToken cfg none ty ch) Q σ := by
  unfold lexExpectedToken
  have hne : ∀ ec : Char, ((none : Option Char) != some ec) = true := by intro ec; rfl
  simp only [hne, if_true, Option.isSome_none, Bool.false_eq_true, if_false]
  cwp_auto []
  all_goals (first | (apply hQ; unfold Bnd; first | (simp_all; done) | grind) | (simp_all; done) | grind)

theorem handleUnterminatedStrExpr_bnd (cfg : Cfg) (R : List Char → Prop)
    {Q : Unit → CS → Prop} {σ : CS} (hT : σ.ne = true ∨ (σ.tokAt = true ∧ σ.atS = true))
    (hQ : ∀ σ', Bnd σ' → Q () σ') : cwp R (handleUnterminatedStrExpr cfg) Q σ := by
  unfold handleUnterminatedStrExpr lastTokIsStart
  cwp_auto []
  all_goals (first | (apply hQ; unfold Bnd; first | (simp_all; done) | grind) | (simp_all; done) | grind)

theorem forRParen_bnd (R : List Char → Prop) : ∀ (l : List Nat) {Q : PUnit → CS → Prop} {σ : CS},
    (σ.ne = true ∨ (σ.tokAt = true ∧ σ.atS = true)) → (∀ σ', Bnd σ' → Q PUnit.unit σ') →
    cwp R (forIn l PUnit.unit fun (_ : Nat) (_ : PUnit) => do
      P.emitD .RPAREN
      pure (ForInStep.yield PUnit.unit)) Q σ
  | [], Q, σ, hT, hQ => by
    simp only [List.forIn_nil]
    exact cwp.pure_iff.2 (hQ σ (by unfold Bnd; rcases hT with h | ⟨_, h⟩ <;> simp [h]))
  | x :: l, Q, σ, hT, hQ => by
    simp only [List.forIn_cons]
    have ih := fun (σ1 : CS) (h1 : σ1.ne = true) => forRParen_bnd R l (Q := Q) (σ := σ1) (Or.inl h1) hQ
    cwp_auto []
    all_goals (first | (apply ih; simp_all; done) | (simp_all; done) | grind)

theorem finalizeMode_bnd (cfg : Cfg) (m : Mode) (R : List Char → Prop) {Q : Unit → CS → Prop} {σ : CS}
    (hB : Bnd σ) (hQ : ∀ σ', Bnd σ' → Q () σ') : cwp R (finalizeMode cfg m) Q σ := by
  unfold finalizeMode
  cases m <;> cwp_auto [lexExpectedToken_none_bnd, handleUnterminatedStrExpr_bnd]
  all_goals (first
    | exact hB
    | (apply hQ; unfold Bnd at *; first | (simp_all; done) | grind)
    | (rw [Std.Legacy.Range.forIn_eq_forIn_range']; apply forRParen_bnd <;> first | (intro σ' h; exact hQ σ' h) | (unfold Bnd at *; simp_all; done) | (unfold Bnd at *; grind))
    | (unfold Bnd at *; simp_all; done)
    | (unfold Bnd at *; grind))

theorem finalizeLoop_bnd (cfg : Cfg) (R : List Char → Prop) : ∀ (f : Nat) {Q : Unit → CS → Prop} {σ : CS},
    Bnd σ → (∀ σ', Bnd σ' → Q () σ') → cwp R (finalizeLoop cfg f) Q σ
  | 0, Q, σ, _, _ => by simp [finalizeLoop, cwp_simp]
  | f + 1, Q, σ, hB, hQ => by
    unfold finalizeLoop
    have ih := fun (σ1 : CS) (h1 : Bnd σ1) => finalizeLoop_bnd cfg R f (Q := Q) (σ := σ1) h1 hQ
    cwp_auto [finalizeMode_bnd]
    all_goals (first | exact hB | (apply ih; assumption) | (apply hQ; assumption) | (unfold Bnd at *; simp_all; done))


end SasLexer
