import SasLexer.Prog
import SasLexer.Proofs.Model.DiscTop
set_option linter.unusedSimpArgs false
/-!
# What finalisation emits: a third (deterministic) abstract semantics (`fwp`)

Abstract state: the projection of the lexer state that finalisation can influence and that the dump shows —
`(type, channel, byte)` of every token (newest first), the error kinds (newest first), the mode stack, the byte of
the pending token start and of the cursor.  Only the operations that occur in `finalize_lexing` are supported (any
other makes `fwp` false); their effect on the projection is a function of the projection (`fNext`), their response
either determined by it or — for reads of the text — universally quantified.

`fwp_sound`: a run of a program with `fwp p Q (FS.of L)` that returns ends in a state whose projection satisfies `Q`.
-/
namespace SasLexer

structure FS where
  toks : List (TokenType × Channel × Nat)
  errs : List ErrorKind
  modes : List Mode
  tokByte : Nat
  cur : Nat

def FS.of (L : Lexer) : FS :=
  { toks := L.toksR.map fun t => (t.ty, t.chan, t.byte), errs := L.errsR.map (·.kind), modes := L.modesR,
    tokByte := L.tok.byte, cur := L.curByte }

/-- `none`: not supported; `some (r, σ')`: new projection, and the response when the projection determines it -/
def fNext : (o : Op) → FS → Option (Option (Resp o) × FS)
  | .rest, σ => some (none, σ)
  | .lastTok, σ => some (some (σ.toks.head?.map fun t => (t.1, t.2.1)), σ)
  | .modeDepth, σ => some (some σ.modes.length, σ)
  | .startToken, σ => some (some (), { σ with tokByte := σ.cur })
  | .emitToken ch ty _, σ => some (some (), { σ with toks := (ty, ch, σ.tokByte) :: σ.toks })
  | .updateLastToken ch ty _, σ =>
    match σ.toks with
    | t :: ts => some (some (), { σ with toks := (ty, ch, t.2.2) :: ts })
    | [] => some (some (), { σ with errs := .InternalErrorNoTokenToReplace :: σ.errs, toks := [(ty, ch, σ.tokByte)] })
  | .emitError e, σ => some (some (), { σ with errs := e :: σ.errs })
  | .pushMode m, σ => some (some (), { σ with modes := m :: σ.modes })
  | .popMode, σ =>
    match σ.modes with
    | _ :: ms => some (some (), { σ with modes := ms })
    | [] => some (some (), { σ with errs := .InternalErrorEmptyModeStack :: σ.errs, modes := [.default] })
  | .mode, σ =>
    match σ.modes with
    | m :: _ => some (some m, σ)
    | [] => some (some .default, { σ with errs := .InternalErrorEmptyModeStack :: σ.errs, modes := [.default] })
  | .popModeRaw, σ =>
    match σ.modes with
    | m :: ms => some (some (some m), { σ with modes := ms })
    | [] => some (some none, σ)
  | .payClear, σ => some (some (), σ)
  | .dassert _ _, σ => some (some (), σ)
  | .emitEofAtCursor, σ => some (some (), { σ with toks := (.EOF, .DEFAULT, σ.cur) :: σ.toks })
  | _, _ => none

def fwp {α : Type} : Prog α → (α → FS → Prop) → FS → Prop
  | .ret a, Q, σ => Q a σ
  | .op (.panic _) _, _, _ => True
  | .op o k, Q, σ =>
    match fNext o σ with
    | none => False
    | some (some r, σ') => fwp (k r) Q σ'
    | some (none, σ') => ∀ r, fwp (k r) Q σ'

namespace fwp
variable {α β : Type}

theorem op_iff {o : Op} {k : Resp o → Prog α} {Q : α → FS → Prop} {σ : FS} (ho : ∀ m, o ≠ .panic m) :
    fwp (Prog.op o k) Q σ ↔
      match fNext o σ with
      | none => False
      | some (some r, σ') => fwp (k r) Q σ'
      | some (none, σ') => ∀ r, fwp (k r) Q σ' := by
  cases o <;> first | exact Iff.rfl | exact absurd rfl (ho _) | (simp only [fwp])

theorem mono {p : Prog α} {Q Q' : α → FS → Prop} (hQ : ∀ a σ, Q a σ → Q' a σ) : ∀ {σ}, fwp p Q σ → fwp p Q' σ := by
  induction p with
  | ret a => intro σ h; exact hQ _ _ h
  | op o k ih =>
    intro σ h
    by_cases ho : ∃ m, o = .panic m
    · obtain ⟨m, rfl⟩ := ho; trivial
    · have ho' : ∀ m, o ≠ .panic m := fun m hm => ho ⟨m, hm⟩
      rw [op_iff ho'] at h ⊢
      split at h
      · exact h.elim
      · exact ih _ h
      · exact fun r => ih r (h r)

theorem bind_iff {p : Prog α} {f : α → Prog β} {Q : β → FS → Prop} :
    ∀ {σ}, fwp (p >>= f) Q σ ↔ fwp p (fun a σ' => fwp (f a) Q σ') σ := by
  induction p with
  | ret a => intro σ; exact Iff.rfl
  | op o k ih =>
    intro σ
    by_cases ho : ∃ m, o = .panic m
    · obtain ⟨m, rfl⟩ := ho; exact Iff.rfl
    · have ho' : ∀ m, o ≠ .panic m := fun m hm => ho ⟨m, hm⟩
      show fwp (Prog.op o fun r => k r >>= f) Q σ ↔ _
      rw [op_iff ho', op_iff ho']
      split
      · exact Iff.rfl
      · exact ih _
      · exact forall_congr' fun r => ih r

@[simp] theorem pure_iff {a : α} {Q : α → FS → Prop} {σ} : fwp (pure a : Prog α) Q σ ↔ Q a σ := Iff.rfl
@[simp] theorem ret_iff {a : α} {Q : α → FS → Prop} {σ} : fwp (Prog.ret a) Q σ ↔ Q a σ := Iff.rfl

theorem ite_iff {c : Prop} [Decidable c] {p q : Prog α} {Q : α → FS → Prop} {σ} :
    fwp (if c then p else q) Q σ ↔ if c then fwp p Q σ else fwp q Q σ := by
  split <;> rfl

section rules
variable {Q : α → FS → Prop} {σ : FS}

theorem op_rest {k : Resp .rest → Prog α} : fwp (Prog.op .rest k) Q σ ↔ ∀ r, fwp (k r) Q σ := Iff.rfl
theorem op_lastTok {k : Resp .lastTok → Prog α} :
    fwp (Prog.op .lastTok k) Q σ ↔ fwp (k (σ.toks.head?.map fun t => (t.1, t.2.1))) Q σ := Iff.rfl
theorem op_modeDepth {k : Resp .modeDepth → Prog α} :
    fwp (Prog.op .modeDepth k) Q σ ↔ fwp (k σ.modes.length) Q σ := Iff.rfl
theorem op_startToken {k : Resp .startToken → Prog α} :
    fwp (Prog.op .startToken k) Q σ ↔ fwp (k ()) Q { σ with tokByte := σ.cur } := Iff.rfl
theorem op_emitToken {ch ty p} {k : Resp (.emitToken ch ty p) → Prog α} :
    fwp (Prog.op (.emitToken ch ty p) k) Q σ ↔ fwp (k ()) Q { σ with toks := (ty, ch, σ.tokByte) :: σ.toks } := Iff.rfl
theorem op_updateLastToken {ch ty p} {k : Resp (.updateLastToken ch ty p) → Prog α} :
    fwp (Prog.op (.updateLastToken ch ty p) k) Q σ ↔
      match σ.toks with
      | t :: ts => fwp (k ()) Q { σ with toks := (ty, ch, t.2.2) :: ts }
      | [] => fwp (k ()) Q { σ with errs := .InternalErrorNoTokenToReplace :: σ.errs, toks := [(ty, ch, σ.tokByte)] } := by
  rcases σ with ⟨_ | _, _, _, _, _⟩ <;> simp only [fwp, fNext]
theorem op_emitError {e} {k : Resp (.emitError e) → Prog α} :
    fwp (Prog.op (.emitError e) k) Q σ ↔ fwp (k ()) Q { σ with errs := e :: σ.errs } := Iff.rfl
theorem op_pushMode {m} {k : Resp (.pushMode m) → Prog α} :
    fwp (Prog.op (.pushMode m) k) Q σ ↔ fwp (k ()) Q { σ with modes := m :: σ.modes } := Iff.rfl
theorem op_popMode {k : Resp .popMode → Prog α} :
    fwp (Prog.op .popMode k) Q σ ↔
      match σ.modes with
      | _ :: ms => fwp (k ()) Q { σ with modes := ms }
      | [] => fwp (k ()) Q { σ with errs := .InternalErrorEmptyModeStack :: σ.errs, modes := [.default] } := by
  rcases σ with ⟨_, _, _ | _, _, _⟩ <;> simp only [fwp, fNext]
theorem op_mode {k : Resp .mode → Prog α} :
    fwp (Prog.op .mode k) Q σ ↔
      match σ.modes with
      | m :: _ => fwp (k m) Q σ
      | [] => fwp (k .default) Q { σ with errs := .InternalErrorEmptyModeStack :: σ.errs, modes := [.default] } := by
  rcases σ with ⟨_, _, _ | _, _, _⟩ <;> simp only [fwp, fNext]
theorem op_popModeRaw {k : Resp .popModeRaw → Prog α} :
    fwp (Prog.op .popModeRaw k) Q σ ↔
      match σ.modes with
      | m :: ms => fwp (k (some m)) Q { σ with modes := ms }
      | [] => fwp (k none) Q σ := by
  rcases σ with ⟨_, _, _ | _, _, _⟩ <;> simp only [fwp, fNext]
theorem op_payClear {k : Resp .payClear → Prog α} : fwp (Prog.op .payClear k) Q σ ↔ fwp (k ()) Q σ := Iff.rfl
theorem op_dassert {c m} {k : Resp (.dassert c m) → Prog α} : fwp (Prog.op (.dassert c m) k) Q σ ↔ fwp (k ()) Q σ := Iff.rfl
theorem op_emitEofAtCursor {k : Resp .emitEofAtCursor → Prog α} :
    fwp (Prog.op .emitEofAtCursor k) Q σ ↔ fwp (k ()) Q { σ with toks := (.EOF, .DEFAULT, σ.cur) :: σ.toks } := Iff.rfl
theorem op_panic {m} {k : Resp (.panic m) → Prog α} : fwp (Prog.op (.panic m) k) Q σ ↔ True := Iff.rfl
end rules

end fwp

/-- symbolic evaluation of `fwp` -/
macro "fwp_eval" : tactic => `(tactic| simp only [fwp.bind_iff, fwp.pure_iff, fwp.ret_iff, fwp.ite_iff, fwp.op_rest,
  fwp.op_lastTok, fwp.op_modeDepth, fwp.op_startToken, fwp.op_emitToken, fwp.op_emitError, fwp.op_pushMode,
  fwp.op_payClear, fwp.op_dassert, fwp.op_emitEofAtCursor, fwp.op_panic, fwp.op_updateLastToken, fwp.op_popMode,
  fwp.op_mode, fwp.op_popModeRaw, Prog.perform])

/-! ## soundness -/

theorem lastLineOrAdd_FS (cfg : Cfg) (L : Lexer) : FS.of (L.lastLineOrAdd cfg).2 = FS.of L := by
  unfold Lexer.lastLineOrAdd
  split
  · simp [FS.of, Lexer.addLine, Lexer.bufAddLine, Lexer.curByte, Lexer.srcLen]
  · rfl

theorem step_FS (cfg : Cfg) (o : Op) (L : Lexer) :
    match fNext o (FS.of L) with
    | none => True
    | some (ro, σ') => FS.of (step cfg o L).2 = σ' ∧ ∀ r, ro = some r → (step cfg o L).1 = r := by
  cases o <;> simp only [fNext] <;> try trivial
  case rest => exact ⟨rfl, fun r h => by cases h⟩
  case lastTok => refine ⟨rfl, fun r h => ?_⟩; cases h; simp [step, FS.of]; cases L.toksR <;> rfl
  case modeDepth => refine ⟨rfl, fun r h => ?_⟩; cases h; rfl
  case startToken =>
    refine ⟨?_, fun _ _ => trivial⟩
    have := lastLineOrAdd_FS cfg L
    simp only [step, Lexer.startToken, FS.of, Lexer.curByte, Lexer.srcLen] at this ⊢
    simp only [FS.mk.injEq] at this ⊢
    exact ⟨this.1, this.2.1, this.2.2.1, trivial, this.2.2.2.2⟩
  case emitToken ch ty p => exact ⟨by simp [step, FS.of, Lexer.emitToken, Lexer.bufAddToken, Lexer.curByte, Lexer.srcLen], fun _ _ => by first | trivial | rfl⟩
  case updateLastToken ch ty p =>
    simp only [FS.of]
    cases hL : L.toksR with
    | nil =>
      simp only [List.map_nil]
      exact ⟨by simp [step, FS.of, Lexer.updateLastToken, hL, Lexer.bufAddToken, Lexer.emitError, Lexer.emitErrorInfo, Lexer.prepError, Lexer.curByte, Lexer.srcLen], fun _ _ => by first | trivial | rfl⟩
    | cons t ts =>
      simp only [List.map_cons]
      exact ⟨by simp [step, FS.of, Lexer.updateLastToken, hL, Lexer.curByte, Lexer.srcLen], fun _ _ => by first | trivial | rfl⟩
  case emitError e => exact ⟨by simp [step, FS.of, Lexer.emitError, Lexer.emitErrorInfo, Lexer.prepError, Lexer.curByte, Lexer.srcLen], fun _ _ => by first | trivial | rfl⟩
  case pushMode m => exact ⟨by simp [step, FS.of, Lexer.pushMode, Lexer.curByte, Lexer.srcLen], fun _ _ => by first | trivial | rfl⟩
  case popMode =>
    simp only [FS.of]
    cases hL : L.modesR with
    | nil => exact ⟨by simp [step, FS.of, Lexer.popMode, hL, Lexer.pushMode, Lexer.emitError, Lexer.emitErrorInfo, Lexer.prepError, Lexer.curByte, Lexer.srcLen], fun _ _ => by first | trivial | rfl⟩
    | cons t ts => exact ⟨by simp [step, FS.of, Lexer.popMode, hL, Lexer.curByte, Lexer.srcLen], fun _ _ => by first | trivial | rfl⟩
  case mode =>
    simp only [FS.of]
    cases hL : L.modesR with
    | nil => exact ⟨by simp [step, FS.of, Lexer.mode, hL, Lexer.pushMode, Lexer.emitError, Lexer.emitErrorInfo, Lexer.prepError, Lexer.curByte, Lexer.srcLen], fun r h => by cases h; simp [step, Lexer.mode, hL]⟩
    | cons t ts => exact ⟨by simp [step, FS.of, Lexer.mode, hL], fun r h => by cases h; simp [step, Lexer.mode, hL]⟩
  case popModeRaw =>
    simp only [FS.of]
    cases hL : L.modesR with
    | nil => exact ⟨by simp [step, FS.of, hL], fun r h => by cases h; simp [step, hL]⟩
    | cons t ts => exact ⟨by simp [step, FS.of, hL, Lexer.curByte, Lexer.srcLen], fun r h => by cases h; simp [step, hL]⟩
  case payClear => exact ⟨by simp [step, FS.of, Lexer.curByte, Lexer.srcLen], fun _ _ => by first | trivial | rfl⟩
  case dassert c m => exact ⟨by simp [step, FS.of, Lexer.dassert, Lexer.curByte, Lexer.srcLen], fun _ _ => by first | trivial | rfl⟩
  case emitEofAtCursor =>
    refine ⟨?_, fun _ _ => trivial⟩
    have := lastLineOrAdd_FS cfg L
    simp only [step, Lexer.bufAddToken, FS.of, Lexer.curByte, Lexer.srcLen] at this ⊢
    simp only [FS.mk.injEq] at this ⊢
    simp [this.1, this.2.1, this.2.2.1, this.2.2.2.1, this.2.2.2.2]

theorem fwp_sound (cfg : Cfg) {α : Type} (p : Prog α) : ∀ (Q : α → FS → Prop) (L : Lexer), fwp p Q (FS.of L) →
    ∀ a, (Prog.run cfg p L).1 = some a → Q a (FS.of (Prog.run cfg p L).2) := by
  induction p with
  | ret a => intro Q L h b hb; simp only [Prog.run, Option.some.injEq] at hb ⊢; subst hb; exact h
  | op o k ih =>
    intro Q L h a ha
    rw [run_op] at ha ⊢
    cases hp : (step cfg o L).2.panicked with
    | some m => simp [hp] at ha
    | none =>
      simp only [hp] at ha ⊢
      by_cases ho : ∃ m, o = .panic m
      · obtain ⟨m, rfl⟩ := ho
        exfalso
        simp only [step, Lexer.panic] at hp
        cases hL : L.panicked <;> simp [hL, Lexer.chk] at hp
      · rw [fwp.op_iff (fun m hm => ho ⟨m, hm⟩)] at h
        have hs := step_FS cfg o L
        split at h
        · exact h.elim
        · rename_i r σ' he
          rw [he] at hs
          obtain ⟨h1, h2⟩ := hs
          have h3 := h2 r rfl
          rw [← h1, ← h3] at h
          exact ih _ Q _ h a ha
        · rename_i σ' he
          rw [he] at hs
          obtain ⟨h1, _⟩ := hs
          have h4 := h (step cfg o L).1
          rw [← h1] at h4
          exact ih _ Q _ h4 a ha

end SasLexer
