import SasLexer.Proofs.Model.Sorted
import SasLexer.Lex.Main
set_option linter.unusedSimpArgs false
set_option linter.unusedVariables false
set_option maxRecDepth 8000
set_option autoImplicit true
set_option relaxedAutoImplicit true
/-! # Every function of the modelled control logic keeps token starts sorted -/
namespace SasLexer
open P

namespace SClean
theorem rest : SClean P.rest := SClean.op _ rfl
theorem peek : SClean P.peek := by unfold P.peek; exact SClean.bind rest (fun _ => SClean.pure _)
theorem peekNext : SClean P.peekNext := by unfold P.peekNext; exact SClean.bind rest (fun _ => SClean.pure _)
theorem advance : SClean P.advance := SClean.op _ rfl
theorem advance_ : SClean P.advance_ := by unfold P.advance_; exact SClean.bind (SClean.op _ rfl) (fun _ => SClean.pure _)
theorem advanceBy (n : Nat) : SClean (P.advanceBy n) := SClean.op _ rfl
theorem eatWhile (p : Char → Bool) : SClean (P.eatWhile p) := SClean.op _ rfl
theorem addLine : SClean P.addLine := SClean.op _ rfl
theorem startToken : SClean P.startToken := SClean.op _ rfl
theorem emit (ch ty p) : SClean (P.emit ch ty p) := SClean.op _ rfl
theorem emitD (ty p) : SClean (P.emitD ty p) := SClean.op _ rfl
theorem emitError (k) : SClean (P.emitError k) := SClean.op _ rfl
theorem pushMode (m) : SClean (P.pushMode m) := SClean.op _ rfl
theorem popMode : SClean P.popMode := SClean.op _ rfl
theorem mode : SClean P.mode := SClean.op _ rfl
theorem setPending (b) : SClean (P.setPending b) := SClean.op _ rfl
theorem lastTokTy : SClean P.lastTokTy := by unfold P.lastTokTy; exact SClean.bind (SClean.op _ rfl) (fun _ => SClean.pure _)
theorem abort (m) : SClean (P.abort m) := SClean.op _ rfl
theorem unmodelled (m) : SClean (P.unmodelled m) := SClean.op _ rfl
theorem peekIs (c) : SClean (P.peekIs c) := by unfold P.peekIs; exact SClean.bind peek (fun _ => SClean.pure _)
theorem dbg (cfg : Cfg) {cond : Prog Bool} (hc : SClean cond) (msg : String) : SClean (P.dbg cfg cond msg) := by
  unfold P.dbg; split
  · exact SClean.bind hc (fun _ => SClean.op _ rfl)
  · exact SClean.pure _
end SClean

namespace SAny
theorem opN (o : Op) (h1 : ∀ ch ty p, o ≠ .emitToken ch ty p) (h2 : ∀ ch ty p, o ≠ .emitTokenAtMark ch ty p) : SAny (Prog.perform o) :=
  SAny.op o h1 h2
theorem rest : SAny P.rest := SAny.op _ (by intro _ _ _ h; cases h) (by intro _ _ _ h; cases h)
theorem peek : SAny P.peek := by unfold P.peek; exact SAny.bind rest (fun _ => SAny.pure _)
theorem peekNext : SAny P.peekNext := by unfold P.peekNext; exact SAny.bind rest (fun _ => SAny.pure _)
theorem pushMode (m) : SAny (P.pushMode m) := SAny.op _ (by intro _ _ _ h; cases h) (by intro _ _ _ h; cases h)
theorem popMode : SAny P.popMode := SAny.op _ (by intro _ _ _ h; cases h) (by intro _ _ _ h; cases h)
theorem mode : SAny P.mode := SAny.op _ (by intro _ _ _ h; cases h) (by intro _ _ _ h; cases h)
theorem emitError (k) : SAny (P.emitError k) := SAny.op _ (by intro _ _ _ h; cases h) (by intro _ _ _ h; cases h)
theorem abort (m) : SAny (P.abort m) := SAny.op _ (by intro _ _ _ h; cases h) (by intro _ _ _ h; cases h)
theorem lastTokTy : SAny P.lastTokTy := by
  unfold P.lastTokTy; exact SAny.bind (SAny.op _ (by intro _ _ _ h; cases h) (by intro _ _ _ h; cases h)) (fun _ => SAny.pure _)
theorem dbg (cfg : Cfg) {cond : Prog Bool} (hc : SAny cond) (msg : String) : SAny (P.dbg cfg cond msg) := by
  unfold P.dbg; split
  · exact SAny.bind hc (fun _ => SAny.op _ (by intro _ _ _ h; cases h) (by intro _ _ _ h; cases h))
  · exact SAny.pure _
theorem startP {f : Unit → Prog β} (hf : ∀ a, SC (f a)) : SAny (P.startToken >>= f) := SAny.start hf
end SAny

/-- walk the program by rule application (rules of all three predicates; the goal's head selects) -/
syntax "sauto" "[" term,* "]" : tactic
macro_rules
  | `(tactic| sauto [$ls,*]) => `(tactic| repeat' (first
      | intro _
      | apply SClean.pure | apply SAny.pure
      | (first $[| apply $ls]*)
      | apply SClean.rest | apply SClean.peek | apply SClean.peekNext | apply SClean.advance_ | apply SClean.advance
      | apply SClean.advanceBy | apply SClean.eatWhile | apply SClean.addLine | apply SClean.startToken | apply SClean.emitD
      | apply SClean.emit | apply SClean.emitError | apply SClean.pushMode | apply SClean.popMode | apply SClean.mode
      | apply SClean.setPending | apply SClean.lastTokTy | apply SClean.abort | apply SClean.unmodelled | apply SClean.peekIs
      | apply SClean.dbg
      | (apply SClean.op; rfl)
      | apply SClean.bind
      | apply SClean.ite
      | apply SAny.startP | apply SAny.start
      | apply SAny.rest | apply SAny.peek | apply SAny.peekNext | apply SAny.pushMode | apply SAny.popMode | apply SAny.mode
      | apply SAny.emitError | apply SAny.abort | apply SAny.lastTokTy | apply SAny.dbg
      | (apply SAny.opN <;> (intro _ _ _ h; cases h))
      | apply SAny.bind
      | apply SAny.ite
      | (apply SClean.sc; first $[| apply $ls]*)
      | (apply SAny.sc; first $[| apply $ls]*)
      | apply SC.bind
      | apply SC.ite
      | split
      | dsimp only
      | apply SClean.sc))

theorem switchToValueMode_sany : SAny (switchToValueMode flags) := by
  unfold switchToValueMode; sauto []

theorem emitResolveOps_sclean : ∀ (ks : List Nat), SClean (emitResolveOps ks) := by
  intro ks
  induction ks with
  | nil => unfold emitResolveOps; sauto []
  | cons k ks ih => unfold emitResolveOps; sauto [ih]

theorem lexMacroVarExprLoop_sclean : ∀ (f : Nat) (st : List Nat), SClean (lexMacroVarExprLoop f st)
  | _, [] => by unfold lexMacroVarExprLoop; sauto []
  | 0, _ :: _ => by unfold lexMacroVarExprLoop; sauto []
  | f + 1, x :: st => by unfold lexMacroVarExprLoop; sauto [lexMacroVarExprLoop_sclean f, emitResolveOps_sclean]

theorem fuelOfRest_sclean : SClean (fuelOfRest) := by
  unfold fuelOfRest; sauto []

theorem lexWsLoop_sclean : ∀ (f : Nat), SClean (lexWsLoop f) := by
  intro f
  induction f with
  | zero => intros; unfold lexWsLoop; sauto []
  | succ f ih => intros; unfold lexWsLoop; sauto [ih]

theorem lexWs_sclean : SClean (lexWs cfg) := by
  unfold lexWs; sauto [fuelOfRest_sclean, lexWsLoop_sclean]

theorem lexCStyleLoop_sclean : ∀ (f : Nat), SClean (lexCStyleLoop f) := by
  intro f
  induction f with
  | zero => intros; unfold lexCStyleLoop; sauto []
  | succ f ih => intros; unfold lexCStyleLoop; sauto [ih]

theorem lexCStyleComment_sclean : SClean (lexCStyleComment cfg) := by
  unfold lexCStyleComment; sauto [fuelOfRest_sclean, lexCStyleLoop_sclean]

theorem lexStringExpressionStart_sclean : SClean (lexStringExpressionStart cfg b) := by
  unfold lexStringExpressionStart; sauto []

theorem resolveStringLiteralEnding_sclean : SClean (resolveStringLiteralEnding) := by
  unfold resolveStringLiteralEnding; sauto []

theorem lexSingleQuotedLoop_sclean : ∀ (f : Nat), SClean (lexSingleQuotedLoop f) := by
  intro f
  induction f with
  | zero => intros; unfold lexSingleQuotedLoop; sauto []
  | succ f ih => intros; unfold lexSingleQuotedLoop; sauto [ih]

theorem lexSingleQuotedStr_sclean : SClean (lexSingleQuotedStr cfg) := by
  unfold lexSingleQuotedStr; sauto [fuelOfRest_sclean, lexSingleQuotedLoop_sclean, resolveStringLiteralEnding_sclean]

theorem lexMacroVarExpr_sclean : SClean (lexMacroVarExpr cfg) := by
  unfold lexMacroVarExpr; sauto [emitResolveOps_sclean, fuelOfRest_sclean, lexMacroVarExprLoop_sclean]

theorem lexMacroCommentLoop_sclean : ∀ (f : Nat) (q : Quote), SClean (lexMacroCommentLoop f q) := by
  intro f
  induction f with
  | zero => intros; unfold lexMacroCommentLoop; sauto []
  | succ f ih => intros; unfold lexMacroCommentLoop; sauto [ih]

theorem lexMacroComment_sclean : SClean (lexMacroComment cfg) := by
  unfold lexMacroComment; sauto [fuelOfRest_sclean, lexMacroCommentLoop_sclean]

theorem lexNumericLiteral_sclean : SClean (lexNumericLiteral cfg sd) := by
  unfold lexNumericLiteral; sauto []

theorem lexCharFormat_sclean : SClean (lexCharFormat) := by
  unfold lexCharFormat; sauto []

theorem predictedOpenLoop_sclean : ∀ (f : Nat), SClean (predictedOpenLoop f) := by
  intro f
  induction f with
  | zero => intros; unfold predictedOpenLoop; sauto []
  | succ f ih => intros; unfold predictedOpenLoop; sauto [ih]

theorem lexExpectedToken_sclean : SClean (lexExpectedToken cfg nc ty ch) := by
  unfold lexExpectedToken; sauto []

theorem macroCallOrStatPreload_sclean : SClean (macroCallOrStatPreload ty b) := by
  unfold macroCallOrStatPreload maybeExpectMacroCallArgsOrLabel expectMacroStrCallArgs; sauto []

theorem maybeEmitMacroSepBeforeKw_sclean : SClean (maybeEmitMacroSepBeforeKw ty) := by
  unfold maybeEmitMacroSepBeforeKw; sauto []

theorem dispatchMacroCallOrStat_sclean : SClean (dispatchMacroCallOrStat cfg ty b) := by
  unfold dispatchMacroCallOrStat; sauto [maybeEmitMacroSepBeforeKw_sclean, macroCallOrStatPreload_sclean]

theorem lexMacroCall_sclean : SClean (lexMacroCall cfg a b) := by
  unfold lexMacroCall; sauto [dispatchMacroCallOrStat_sclean]

theorem lexMacroIdentifier_sclean : SClean (lexMacroIdentifier cfg b) := by
  unfold lexMacroIdentifier; sauto [dispatchMacroCallOrStat_sclean]

theorem dispatchMacroDo_sany : SAny (dispatchMacroDo cfg c) := by
  unfold dispatchMacroDo; sauto [lexMacroIdentifier_sclean]

theorem dispatchMacroLocalGlobal_sany : SAny (dispatchMacroLocalGlobal cfg c l) := by
  unfold dispatchMacroLocalGlobal expectMacroLetStat; sauto []

theorem datalinesToSemiLoop_sclean : ∀ (f : Nat), SClean (datalinesToSemiLoop f) := by
  intro f
  induction f with
  | zero => intros; unfold datalinesToSemiLoop; sauto []
  | succ f ih => intros; unfold datalinesToSemiLoop; sauto [ih]

theorem datalinesBodyLoop_sclean : ∀ (f : Nat), SClean (datalinesBodyLoop e f) := by
  intro f
  induction f with
  | zero => intros; unfold datalinesBodyLoop; sauto []
  | succ f ih => intros; unfold datalinesBodyLoop; sauto [ih]

theorem lexDatalines_sclean : SClean (lexDatalines cfg b) := by
  unfold lexDatalines; sauto [fuelOfRest_sclean, datalinesToSemiLoop_sclean, datalinesBodyLoop_sclean]

theorem lexIdentifier_sclean : SClean (lexIdentifier cfg) := by
  unfold lexIdentifier; sauto [lexDatalines_sclean]

/-- symbolic evaluation of `swp` on concrete operations -/
macro "swp_eval" : tactic => `(tactic| simp only [swp.bind_iff, swp.pure_iff, swp.ret_iff, swp.ite_iff, swp, sOk, sNext, Prog.perform, P.rest, P.peek, P.peekNext, P.advance,
  P.advance_, P.advanceBy, P.eatWhile, P.addLine, P.startToken, P.emit, P.emitD, P.emitError, P.pushMode, P.popMode, P.mode,
  P.setPending, P.lastTokTy, P.abort, P.dbg, P.peekIs, true_and, and_true, implies_true, forall_const, Bool.or_false, Bool.not_true,
  Bool.or_self])

/-- the look-ahead of the comment prediction: a checkpoint taken with a fresh token start brings it back -/
syntax "swp_auto" "[" term,* "]" : tactic
macro_rules
  | `(tactic| swp_auto [$ls,*]) => `(tactic| repeat' (first
      | intro _
      | swp_eval
      | (first $[| exact $ls]*)
      | refine ⟨?_, ?_⟩
      | apply swp.ite_intro
      | split
      | trivial))

theorem predictedMacroLoop_s : ∀ (f : Nat) (Q : Bool → SS → Prop) (σ : SS), σ.stale = false → σ.cpc = true →
    (∀ a σ', σ'.stale = false → Q a σ') → swp (predictedMacroLoop f) Q σ
  | 0, Q, σ, hs, hc, hQ => by unfold predictedMacroLoop; swp_eval
  | f + 1, Q, σ, hs, hc, hQ => by
    unfold predictedMacroLoop
    have hs' : (σ.stale || !σ.cpc) = false := by simp [hs, hc]
    swp_auto [hQ _ _ hs, hQ _ _ hs', predictedMacroLoop_s f Q _ hs hc hQ]

theorem lexPredictedComment_sclean : SClean lexPredictedComment := by
  unfold SClean
  intro Q σ hs hQ
  unfold lexPredictedComment
  have ho : ∀ f, SClean (predictedOpenLoop f) := predictedOpenLoop_sclean
  have hf : SClean fuelOfRest := fuelOfRest_sclean
  unfold SClean at ho hf
  swp_eval
  intro ps
  split
  · exact hQ _ _ hs
  · intro n
    split
    · apply hf _ _ hs
      intro fuel σ1 hs1
      apply ho fuel _ _ hs1
      intro _ σ2 hs2
      exact ⟨hs2, hQ _ _ hs2⟩
    · -- after `checkpoint` the abstract state records that it was taken with a fresh token start
      have hfr : swp fuelOfRest (fun a σ' => σ'.stale = false ∧ σ'.cpc = true) { stale := σ.stale, mrk := σ.mrk, cpc := !σ.stale } := by
        unfold fuelOfRest; swp_eval; first | (intro _; simp [hs]) | simp [hs]
      refine swp.mono ?_ hfr
      intro fuel σ1 ⟨hs1, hc1⟩
      apply predictedMacroLoop_s fuel _ σ1 hs1 hc1
      intro b σ2 hs2
      swp_auto [hs2, hQ _ _ hs2]

theorem lexSymbols_sclean : SClean (lexSymbols cfg c) := by
  unfold lexSymbols; sauto [lexPredictedComment_sclean, lexNumericLiteral_sclean, lexCharFormat_sclean]

theorem dispatchModeDefault_sany : SAny (dispatchModeDefault cfg c) := by
  unfold dispatchModeDefault; sauto [lexWs_sclean, lexSingleQuotedStr_sclean, lexStringExpressionStart_sclean, lexCStyleComment_sclean, lexMacroVarExpr_sclean, lexMacroComment_sclean, lexMacroIdentifier_sclean, lexNumericLiteral_sclean, lexIdentifier_sclean, lexSymbols_sclean]

theorem handleUnterminatedStrExpr_sclean : SClean (handleUnterminatedStrExpr cfg) := by
  unfold handleUnterminatedStrExpr lastTokIsStart; sauto []

theorem lexDoubleQuotedLiteral_sclean : SClean (lexDoubleQuotedLiteral cfg) := by
  unfold lexDoubleQuotedLiteral; sauto [resolveStringLiteralEnding_sclean]

theorem lexStrExprTextLoop_sclean : ∀ (f : Nat), SClean (lexStrExprTextLoop cfg f) := by
  intro f
  induction f with
  | zero => intros; unfold lexStrExprTextLoop; sauto []
  | succ f ih => intros; unfold lexStrExprTextLoop; sauto [ih, lexDoubleQuotedLiteral_sclean]

theorem lexStrExprText_sclean : SClean (lexStrExprText cfg) := by
  unfold lexStrExprText; sauto [fuelOfRest_sclean, lexStrExprTextLoop_sclean, handleUnterminatedStrExpr_sclean]

theorem dispatchModeStrExpr_sany : SAny (dispatchModeStrExpr cfg c b) := by
  unfold dispatchModeStrExpr lastTokIsStart; sauto [lexStrExprText_sclean, lexDoubleQuotedLiteral_sclean, lexMacroVarExpr_sclean, lexMacroIdentifier_sclean]

theorem maybeEmitEmptyMacroStringInEval_sclean : SClean (maybeEmitEmptyMacroStringInEval n) := by
  unfold maybeEmitEmptyMacroStringInEval; sauto []

theorem updateParensNesting_sclean : SClean (updateParensNesting cfg b) := by
  unfold updateParensNesting; sauto []

theorem evalOperatorSel_sclean : SClean (evalOperatorSel cfg c r) := by
  unfold evalOperatorSel; sauto [updateParensNesting_sclean]

theorem lexMacroEvalOperator_sclean : SClean (lexMacroEvalOperator cfg c) := by
  unfold lexMacroEvalOperator; sauto [evalOperatorSel_sclean, maybeEmitEmptyMacroStringInEval_sclean]

/-- the text scanner of macro expressions: the mark register is set only by it and after the dispatcher's
`startToken`, so the hidden `WS` token emitted at the mark starts at or after the pending token start -/
theorem evalCtxLoop_s (flags : Nat) (t : Bool) : ∀ (f : Nat) (a b : Bool) (Q : Bool → SS → Prop) (σ : SS),
    σ.stale = false → σ.mrk ≠ .invalid → (∀ x σ', σ'.stale = false → σ'.mrk ≠ .invalid → Q x σ') →
    swp (lexMacroStringInMacroEvalContextLoop flags t f a b) Q σ
  | 0, _, _, Q, σ, hs, hm, hQ => by unfold lexMacroStringInMacroEvalContextLoop; swp_eval
  | f + 1, a, b, Q, σ, hs, hm, hQ => by
    unfold lexMacroStringInMacroEvalContextLoop
    have hm0 : MK.none ≠ MK.invalid := by simp
    have hm1 : (match σ.mrk with | .none => MK.valid | m => m) ≠ MK.invalid := by cases h : σ.mrk <;> simp_all
    swp_auto [hQ _ _ hs hm, hQ _ _ hs hm0, evalCtxLoop_s flags t f _ _ Q _ hs hm hQ,
      evalCtxLoop_s flags t f _ _ Q _ hs hm0 hQ, evalCtxLoop_s flags t f _ _ Q _ hs hm1 hQ]

theorem lexMacroStringInMacroEvalContext_sc : SC (lexMacroStringInMacroEvalContext cfg flags t) := by
  unfold SC
  intro Q σ hs hQ
  unfold lexMacroStringInMacroEvalContext
  have hfr : ∀ (σ0 : SS), σ0.stale = false → σ0.mrk ≠ .invalid →
      swp fuelOfRest (fun _ σ' => σ'.stale = false ∧ σ'.mrk ≠ .invalid) σ0 := by
    intro σ0 h1 h2; unfold fuelOfRest; swp_eval; first | (intro _; exact ⟨h1, h2⟩) | exact ⟨h1, h2⟩
  have tail : ∀ (σ0 : SS), σ0.stale = false → σ0.mrk = .none →
      swp fuelOfRest (fun fuel σ1 => swp (lexMacroStringInMacroEvalContextLoop flags t fuel true true)
        (fun _ σ2 => σ2.stale = false ∧ σ2.mrk ≠ .invalid) σ1) σ0 := by
    intro σ0 h1 h2
    refine swp.mono ?_ (hfr σ0 h1 (by rw [h2]; simp))
    intro fuel σ1 ⟨hs1, hm1⟩
    exact evalCtxLoop_s flags t fuel true true _ σ1 hs1 hm1 (fun _ _ a b => ⟨a, b⟩)
  swp_eval
  split
  · intro r
    split <;> (swp_eval; refine swp.mono ?_ (tail _ (by simpa using hs) rfl); intro fuel σ1 h; refine swp.mono ?_ h;
               intro tn σ2 ⟨hs2, hm2⟩; swp_auto [hs2, hm2, hQ _ _])
  · refine swp.mono ?_ (tail _ (by simpa using hs) rfl)
    intro fuel σ1 h
    refine swp.mono ?_ h
    intro tn σ2 ⟨hs2, hm2⟩
    swp_auto [hs2, hm2, hQ _ _]

theorem dispatchModeMacroEval_sany : SAny (dispatchModeMacroEval cfg c flags pnl) := by
  unfold dispatchModeMacroEval; sauto [lexSingleQuotedStr_sclean, lexStringExpressionStart_sclean, lexCStyleComment_sclean, lexMacroVarExpr_sclean, lexMacroCall_sclean, maybeEmitEmptyMacroStringInEval_sclean, lexMacroEvalOperator_sclean, lexMacroStringInMacroEvalContext_sc]

theorem dispatchMacroNameExpr_sany : SAny (dispatchMacroNameExpr cfg c fn err) := by
  unfold dispatchMacroNameExpr; sauto [lexCStyleComment_sclean, lexMacroVarExpr_sclean, lexMacroCall_sclean]

theorem lexMacroStringUnrestrictedLoop_sclean : ∀ (f : Nat), SClean (lexMacroStringUnrestrictedLoop f) := by
  intro f
  induction f with
  | zero => intros; unfold lexMacroStringUnrestrictedLoop; sauto []
  | succ f ih => intros; unfold lexMacroStringUnrestrictedLoop; sauto [ih]

theorem lexMacroStringUnrestricted_sclean : SClean (lexMacroStringUnrestricted cfg) := by
  unfold lexMacroStringUnrestricted; sauto [fuelOfRest_sclean, lexMacroStringUnrestrictedLoop_sclean]

theorem dispatchMacroSemiTermTextExpr_sany : SAny (dispatchMacroSemiTermTextExpr cfg c) := by
  unfold dispatchMacroSemiTermTextExpr; sauto [lexSingleQuotedStr_sclean, lexStringExpressionStart_sclean, lexCStyleComment_sclean, lexMacroVarExpr_sclean, lexMacroCall_sclean, lexMacroStringUnrestricted_sclean]

theorem lexMacroStringStatOptsLoop_sclean : ∀ (f : Nat), SClean (lexMacroStringStatOptsLoop f) := by
  intro f
  induction f with
  | zero => intros; unfold lexMacroStringStatOptsLoop; sauto []
  | succ f ih => intros; unfold lexMacroStringStatOptsLoop; sauto [ih]

theorem lexMacroStringStatOpts_sclean : SClean (lexMacroStringStatOpts cfg) := by
  unfold lexMacroStringStatOpts; sauto [fuelOfRest_sclean, lexMacroStringStatOptsLoop_sclean]

theorem dispatchMacroStatOptsTextExpr_sany : SAny (dispatchMacroStatOptsTextExpr cfg c) := by
  unfold dispatchMacroStatOptsTextExpr; sauto [lexSingleQuotedStr_sclean, lexStringExpressionStart_sclean, lexCStyleComment_sclean, lexMacroVarExpr_sclean, lexMacroCall_sclean, lexMacroStringStatOpts_sclean, lexWs_sclean]

theorem populateNextArgStack_sclean : SClean (populateNextArgStack flags) := by
  unfold populateNextArgStack; sauto []

theorem lexMaybeMacroCallArgsOrLabel_sany : SAny (lexMaybeMacroCallArgsOrLabel cfg c b) := by
  unfold lexMaybeMacroCallArgsOrLabel; sauto []

theorem lexMaybeMacroCallArgAssign_sany : SAny (lexMaybeMacroCallArgAssign cfg c flags) := by
  unfold lexMaybeMacroCallArgAssign; sauto []

theorem lexMaybeTailMacroCallArgValue_sany : SAny (lexMaybeTailMacroCallArgValue cfg c) := by
  unfold lexMaybeTailMacroCallArgValue; sauto []

theorem dispatchMacroCallArgOrValue_sany : SAny (dispatchMacroCallArgOrValue cfg c flags) := by
  unfold dispatchMacroCallArgOrValue pushCheckAssign safePopMode; sauto [lexMacroVarExpr_sclean, lexMacroComment_sclean, lexMacroIdentifier_sclean, populateNextArgStack_sclean, switchToValueMode_sany]

theorem emitTokenUpdateNestingArg_sclean : SClean (emitTokenUpdateNestingArg pnl loc) := by
  unfold emitTokenUpdateNestingArg; sauto []

theorem lexMacroStringInMacroCallArgValueLoop_sclean : ∀ (f : Nat) (loc : Int), SClean (lexMacroStringInMacroCallArgValueLoop flags pnl f loc) := by
  intro f
  induction f with
  | zero => intros; unfold lexMacroStringInMacroCallArgValueLoop; sauto []
  | succ f ih => intros; unfold lexMacroStringInMacroCallArgValueLoop; sauto [ih, emitTokenUpdateNestingArg_sclean, populateNextArgStack_sclean]

theorem lexMacroStringInMacroCallArgValue_sclean : SClean (lexMacroStringInMacroCallArgValue cfg flags pnl) := by
  unfold lexMacroStringInMacroCallArgValue; sauto [fuelOfRest_sclean, lexMacroStringInMacroCallArgValueLoop_sclean]

theorem dispatchMacroCallArgValue_sany : SAny (dispatchMacroCallArgValue cfg c flags pnl) := by
  unfold dispatchMacroCallArgValue; sauto [lexSingleQuotedStr_sclean, lexStringExpressionStart_sclean, lexCStyleComment_sclean, lexMacroVarExpr_sclean, lexMacroComment_sclean, lexMacroIdentifier_sclean, lexMacroStringInMacroCallArgValue_sclean, populateNextArgStack_sclean]

theorem lexMaybeMacroDefArgs_sany : SAny (lexMaybeMacroDefArgs cfg c) := by
  unfold lexMaybeMacroDefArgs; sauto []

theorem lexMacroDefIdentifier_sclean : SClean (lexMacroDefIdentifier cfg c b) := by
  unfold lexMacroDefIdentifier; sauto []

theorem dispatchMacroDefArg_sany : SAny (dispatchMacroDefArg cfg c) := by
  unfold dispatchMacroDefArg; sauto [lexMacroDefIdentifier_sclean]

theorem lexMacroDefNextArgOrDefaultValue_sany : SAny (lexMacroDefNextArgOrDefaultValue cfg c) := by
  unfold lexMacroDefNextArgOrDefaultValue; sauto []

theorem emitTokenUpdateNestingStr_sclean : SClean (emitTokenUpdateNestingStr pnl loc) := by
  unfold emitTokenUpdateNestingStr; sauto []

theorem lexMacroStringInStrCallLoop_sclean : ∀ (f : Nat) (loc : Int), SClean (lexMacroStringInStrCallLoop mm pnl f loc) := by
  intro f
  induction f with
  | zero => intros; unfold lexMacroStringInStrCallLoop; sauto []
  | succ f ih => intros; unfold lexMacroStringInStrCallLoop; sauto [ih, emitTokenUpdateNestingStr_sclean]

theorem lexMacroStringInStrCall_sclean : SClean (lexMacroStringInStrCall cfg mm pnl) := by
  unfold lexMacroStringInStrCall; sauto [fuelOfRest_sclean, lexMacroStringInStrCallLoop_sclean]

theorem dispatchMacroStrQuotedExpr_sany : SAny (dispatchMacroStrQuotedExpr cfg c mm pnl) := by
  unfold dispatchMacroStrQuotedExpr; sauto [lexSingleQuotedStr_sclean, lexStringExpressionStart_sclean, lexCStyleComment_sclean, lexMacroVarExpr_sclean, lexMacroIdentifier_sclean, lexMacroStringInStrCall_sclean]

theorem dispatchMacroMode_sany : SAny (dispatchMacroMode cfg c m) := by
  cases m <;> simp only [dispatchMacroMode]
  case macroEval f p => exact dispatchModeMacroEval_sany
  case macroStrQuotedExpr mm p => exact dispatchMacroStrQuotedExpr_sany
  case maybeMacroCallArgsOrLabel b => exact lexMaybeMacroCallArgsOrLabel_sany
  case maybeMacroCallArgAssign f => exact lexMaybeMacroCallArgAssign_sany
  case maybeTailMacroArgValue => exact lexMaybeTailMacroCallArgValue_sany
  case macroCallArgOrValue f => exact dispatchMacroCallArgOrValue_sany
  case macroCallValue f p => exact dispatchMacroCallArgValue_sany
  case maybeMacroDefArgs => exact lexMaybeMacroDefArgs_sany
  case macroDefArg => exact dispatchMacroDefArg_sany
  case macroDefNextArgOrDefaultValue => exact lexMacroDefNextArgOrDefaultValue_sany
  case macroDo => exact dispatchMacroDo_sany
  case macroLocalGlobal l => exact dispatchMacroLocalGlobal_sany
  case macroNameExpr f e => exact dispatchMacroNameExpr_sany
  case macroSemiTerminatedTextExpr => exact dispatchMacroSemiTermTextExpr_sany
  case macroStatOptionsTextExpr => exact dispatchMacroStatOptsTextExpr_sany
  all_goals sauto [lexMacroDefIdentifier_sclean]

theorem forRParen_sclean (l : List Nat) :
    SClean (forIn l PUnit.unit fun (_ : Nat) (_ : PUnit) => do
      P.emitD .RPAREN
      pure (ForInStep.yield PUnit.unit)) := by
  induction l with
  | nil => simp only [List.forIn_nil]; exact SClean.pure _
  | cons x l ih =>
    simp only [List.forIn_cons]
    exact SClean.bind (SClean.bind (SClean.emitD _ _) (fun _ => SClean.pure _)) (fun s => by cases s <;> first | exact SClean.pure _ | exact ih)

theorem finalizeMode_sany : SAny (finalizeMode cfg m) := by
  unfold finalizeMode
  have rp : ∀ pnl : Nat, SClean (forIn [:pnl] PUnit.unit fun (_ : Nat) (_ : PUnit) => do
      P.emitD .RPAREN
      pure (ForInStep.yield PUnit.unit)) := by
    intro pnl; rw [Std.Legacy.Range.forIn_eq_forIn_range']; exact forRParen_sclean _
  cases m <;> dsimp only
  all_goals sauto [lexExpectedToken_sclean, handleUnterminatedStrExpr_sclean, rp]

theorem lexToken_sany : SAny (lexToken cfg c) := by
  unfold lexToken; sauto [lexCStyleComment_sclean, lexWs_sclean, dispatchModeDefault_sany, lexExpectedToken_sclean, dispatchModeStrExpr_sany, dispatchMacroMode_sany]

theorem finalizeLoop_sany : ∀ (f : Nat), SAny (finalizeLoop cfg f) := by
  intro f
  induction f with
  | zero => intros; unfold finalizeLoop; sauto []
  | succ f ih =>
    unfold finalizeLoop
    refine SAny.bind (SAny.opN _ (by intro _ _ _ h; cases h) (by intro _ _ _ h; cases h)) (fun o => ?_)
    split
    · exact SAny.pure _
    · exact SAny.bind finalizeMode_sany (fun _ => ih)

theorem finalizeLexing_sany : SAny (finalizeLexing cfg) := by
  unfold finalizeLexing; sauto [finalizeLoop_sany]

theorem mainLoop_sany : ∀ (f n : Nat) (last : Nat × List Mode), SAny (mainLoop cfg f n last) := by
  intro f
  induction f with
  | zero => intros; unfold mainLoop; sauto []
  | succ f ih => intros; unfold mainLoop; sauto [ih, lexToken_sany]

end SasLexer
