import SasLexer.Proofs.Model.DiscMain
import SasLexer.Proofs.Model.DiscSound
import SasLexer.Proofs.Kernel.Mono
/-!
# What the scanning discipline gives for the modelled lexer (C04, C02)
-/
namespace SasLexer
open Prog (perform)
open Lexer

theorem run_op (cfg : Cfg) {α : Type} (o : Op) (k : Resp o → Prog α) (L : Lexer) :
    Prog.run cfg (Prog.op o k) L =
      match (step cfg o L).2.panicked with
      | some _ => (none, (step cfg o L).2)
      | none => Prog.run cfg (k (step cfg o L).1) (step cfg o L).2 := by
  rw [Prog.run]
  generalize step cfg o L = r
  obtain ⟨resp, L'⟩ := r
  rfl

theorem run_bind (cfg : Cfg) {α β : Type} (p : Prog α) (f : α → Prog β) :
    ∀ L, Prog.run cfg (p >>= f) L =
      match Prog.run cfg p L with
      | (some a, L') => Prog.run cfg (f a) L'
      | (none, L') => (none, L') := by
  induction p with
  | ret a => intro L; rfl
  | op o k ih =>
    intro L
    show Prog.run cfg (Prog.op o fun r => k r >>= f) L = _
    rw [run_op, run_op]
    cases hp : (step cfg o L).2.panicked with
    | some m => rfl
    | none => exact ih _ _

theorem new_panicked (cfg : Cfg) (s : List Char) : (Lexer.new cfg s).panicked = none := by
  have hc := skipBom_ok (CurOK.new s)
  unfold Lexer.new
  simp only [Lexer.bufAddLine, Lexer.chk]
  have : utf8Len s - (skipBom (Cursor.new s)).remBytes ≤ utf8Len s := Nat.sub_le _ _
  simp [this]

theorem new_DInv (cfg : Cfg) (s : List Char) : DInv false (Lexer.new cfg s) := by
  have hbom : BOM.utf8Size = 3 := by decide
  have hbn : BOM ≠ '\n' := by decide
  rcases s with _ | ⟨c, t⟩
  · exact { pre := ⟨[], by simp [Lexer.new, Lexer.skipBom, Cursor.new, Lexer.bufAddLine], rfl, by simp [bomChars, new_src],
              by simp [LinesAt, Lexer.new, Lexer.skipBom, Cursor.new, Lexer.bufAddLine, lineTab, bomLine, bomLen, bomChars,
                lineStartsFrom, utf8Len]⟩,
            tok := ⟨by simp [Lexer.new, Lexer.skipBom, Cursor.new, Lexer.bufAddLine, bomChars],
              by simp [Lexer.new, Lexer.skipBom, Cursor.new, Lexer.bufAddLine, lineIdxOfChar]⟩,
            mark := by intro m hm; simp [Lexer.new, Lexer.bufAddLine] at hm,
            toks := by intro t ht; simp [Lexer.new, Lexer.bufAddLine] at ht,
            errs := by intro t ht; simp [Lexer.new, Lexer.bufAddLine] at ht,
            errReg := by intro t ht; simp [Lexer.new, Lexer.bufAddLine] at ht,
            cp := by intro t ht; simp [Lexer.new, Lexer.bufAddLine] at ht }
  · by_cases hc : c = BOM
    · subst hc
      have hlen : utf8Len (BOM :: t) - (utf8Len (BOM :: t) - 3) = 3 := by
        simp only [utf8Len, hbom]; omega
      exact { pre := ⟨[BOM], by simp [Lexer.new, Lexer.skipBom, Cursor.new, Cursor.advance, Lexer.bufAddLine],
                by simp [Lexer.new, Lexer.skipBom, Cursor.new, Cursor.advance, Lexer.bufAddLine], by simp [bomChars, new_src],
                by simp [LinesAt, Lexer.new, Lexer.skipBom, Cursor.new, Cursor.advance, Lexer.bufAddLine, lineTab, bomLine,
                  bomLen, bomChars, lineStartsFrom, hbn, hbom, hlen]⟩,
              tok := ⟨by simp [Lexer.new, Lexer.skipBom, Cursor.new, Cursor.advance, Lexer.bufAddLine, bomChars],
                by simp [Lexer.new, Lexer.skipBom, Cursor.new, Cursor.advance, Lexer.bufAddLine, lineIdxOfChar, hbn]⟩,
              mark := by intro m hm; simp [Lexer.new, Lexer.bufAddLine] at hm,
              toks := by intro t ht; simp [Lexer.new, Lexer.bufAddLine] at ht,
              errs := by intro t ht; simp [Lexer.new, Lexer.bufAddLine] at ht,
              errReg := by intro t ht; simp [Lexer.new, Lexer.bufAddLine] at ht,
              cp := by intro t ht; simp [Lexer.new, Lexer.bufAddLine] at ht }
    · exact { pre := ⟨[], by simp [Lexer.new, Lexer.skipBom, Cursor.new, Lexer.bufAddLine, hc], by simp [Lexer.new, Lexer.skipBom, Cursor.new, Lexer.bufAddLine, hc],
                by simp [bomChars, hc, new_src],
                by simp [LinesAt, Lexer.new, Lexer.skipBom, Cursor.new, Lexer.bufAddLine, lineTab, bomLine, bomLen, bomChars,
                  lineStartsFrom, hc]⟩,
              tok := ⟨by simp [Lexer.new, Lexer.skipBom, Cursor.new, Lexer.bufAddLine, bomChars, hc],
                by simp [Lexer.new, Lexer.skipBom, Cursor.new, Lexer.bufAddLine, lineIdxOfChar, hc]⟩,
              mark := by intro m hm; simp [Lexer.new, Lexer.bufAddLine] at hm,
              toks := by intro t ht; simp [Lexer.new, Lexer.bufAddLine] at ht,
              errs := by intro t ht; simp [Lexer.new, Lexer.bufAddLine] at ht,
              errReg := by intro t ht; simp [Lexer.new, Lexer.bufAddLine] at ht,
              cp := by intro t ht; simp [Lexer.new, Lexer.bufAddLine] at ht }

theorem run_some_panicked (cfg : Cfg) {α : Type} (p : Prog α) :
    ∀ (L : Lexer) (a : α), L.panicked = none → (Prog.run cfg p L).1 = some a → (Prog.run cfg p L).2.panicked = none := by
  induction p with
  | ret a => intro L b h _; exact h
  | op o k ih =>
    intro L a h hr
    rw [run_op] at hr ⊢
    cases hp : (step cfg o L).2.panicked with
    | some m => simp [hp] at hr
    | none =>
      simp only [hp] at hr ⊢
      exact ih _ _ a hp hr

/-- what is known of the lexer state right before `into_detached` when the run ended at end of input -/
structure Final (s : List Char) (L : Lexer) : Prop where
  src : L.src = s
  kpos : KPos L
  lines : L.linesR.reverse = lineStarts s
  toks : ∀ t ∈ L.toksR, LineOK s t.start t.line
  errs : ∀ e ∈ L.errsR, ErrOK s e
  eof : ∃ e ts, L.toksR = e :: ts ∧ e.ty = .EOF ∧ e.start = s.length ∧ ∀ t ∈ ts, t.ty ≠ .EOF

theorem run_none_panicked (cfg : Cfg) {α : Type} (p : Prog α) :
    ∀ (L : Lexer), (Prog.run cfg p L).1 = none → (Prog.run cfg p L).2.panicked ≠ none := by
  induction p with
  | ret a => intro L h; simp [Prog.run] at h
  | op o k ih =>
    intro L hr
    rw [run_op] at hr ⊢
    cases hp : (step cfg o L).2.panicked with
    | some m => simp [hp]
    | none =>
      simp only [hp] at hr ⊢
      exact ih _ _ hr

theorem run_perform (cfg : Cfg) (o : Op) (L : Lexer) (hp : (step cfg o L).2.panicked = none) :
    Prog.run cfg (Prog.perform o) L = (some (step cfg o L).1, (step cfg o L).2) := by
  rw [Prog.perform, run_op, hp]; rfl

theorem finalizeLexing_final (cfg : Cfg) (s : List Char) (L1 : Lexer) (hsrc : L1.src = s) (hk : KPos L1) (h : DInv false L1)
    (hp : L1.panicked = none) (hrest : L1.cur.rest = [])
    (hp2 : (Prog.run cfg (finalizeLexing cfg) L1).2.panicked = none) :
    Final s (Prog.run cfg (finalizeLexing cfg) L1).2 := by
  have hshape : finalizeLexing cfg = (Prog.perform .modeDepth >>= fun d =>
      (finalizeLoop cfg (d * 2 + 2) >>= fun _ => Prog.perform .emitEofAtCursor)) := rfl
  rw [hshape] at hp2 ⊢
  rw [run_bind, run_perform cfg .modeDepth L1 (by simpa [step] using hp)] at hp2 ⊢
  simp only [step] at hp2 ⊢
  rw [run_bind] at hp2 ⊢
  generalize hR : Prog.run cfg (finalizeLoop cfg (L1.modesR.length * 2 + 2)) L1 = R at hp2 ⊢
  obtain ⟨ra, L2⟩ := R
  cases ra with
  | none =>
    exfalso
    have := run_none_panicked cfg (finalizeLoop cfg (L1.modesR.length * 2 + 2)) L1 (by rw [hR])
    rw [hR] at this
    exact this hp2
  | some a =>
    simp only at hp2 ⊢
    have hL2p : L2.panicked = none := by
      have := run_some_panicked cfg (finalizeLoop cfg (L1.modesR.length * 2 + 2)) L1 a hp (by rw [hR])
      rw [hR] at this; exact this
    have hw : awp (finalizeLoop cfg (L1.modesR.length * 2 + 2)) (fun _ r lag => r = [] ∧ lag = false) L1.cur.rest false := by
      rw [hrest]; exact (finalizeLoop_inert cfg _).awp' (fun _ => ⟨rfl, rfl⟩)
    obtain ⟨a', lag', _, hk2, h2, hr2, hlag⟩ := awp_sound cfg _ _ L1 false hk h hp hw (by rw [hR]; exact hL2p)
    rw [hR] at hk2 h2 hr2
    simp only at hk2 h2 hr2
    subst hlag
    have hsrc2 : L2.src = s := by
      have := run_src cfg (finalizeLoop cfg (L1.modesR.length * 2 + 2)) L1
      rw [hR] at this; rw [← hsrc]; exact this
    -- the last primitive
    rw [Prog.perform, run_op] at hp2 ⊢
    cases hp3 : (step cfg .emitEofAtCursor L2).2.panicked with
    | some m => simp [hp3] at hp2
    | none =>
      simp only [hp3, Prog.run]
      have hk3 := step_KPos cfg .emitEofAtCursor L2 hk2
      simp only [step, h2.lastLineOrAdd_eq] at hk3 ⊢
      obtain ⟨pre, hs, hc, hb, hl⟩ := h2.pre
      simp only [LinesAt, Bool.false_eq_true, if_false] at hl
      have hpre : pre = s := by rw [← hsrc2, hs, hr2]; simp
      refine { src := by simpa [Lexer.bufAddToken] using hsrc2, kpos := hk3,
               lines := by simpa [Lexer.bufAddToken, hl, hpre, hsrc2] using lineTab_full s,
               toks := ?_, errs := by simpa [Lexer.bufAddToken, hsrc2] using h2.errs, eof := ?_ }
      · intro t ht
        simp only [Lexer.bufAddToken, List.mem_cons] at ht
        rcases ht with rfl | ht
        · have := h2.curLineOK; rw [hsrc2] at this; exact this
        · have := (h2.toks t ht).1; rw [hsrc2] at this; exact this
      · refine ⟨_, L2.toksR, rfl, rfl, ?_, fun t ht => (h2.toks t ht).2⟩
        show L2.curChar = s.length
        rw [Lexer.curChar, hc, hpre]

theorem lexProgram_final (cfg : Cfg) (s : List Char) (h : (lexProgram cfg s).ending = some .eof) :
    ∃ L2, Final s L2 ∧ (lexProgram cfg s).buf = (L2.intoDetached cfg).1 ∧
      (lexProgram cfg s).final = (L2.intoDetached cfg).2 ∧ (cfg.debug = true → SortedR L2.toksR) := by
  unfold lexProgram at h ⊢
  simp only at h ⊢
  generalize hR : Prog.run cfg (mainLoop cfg (budgetMul * (Lexer.new cfg s).srcLen + 64) 0 ((Lexer.new cfg s).srcLen, [Mode.default]))
    (Lexer.new cfg s) = R at h ⊢
  obtain ⟨ra, L1⟩ := R
  cases ra with
  | none => simp at h
  | some en =>
    obtain ⟨e, n⟩ := en
    simp only at h ⊢
    have hp0 := new_panicked cfg s
    have hL1p : L1.panicked = none := by
      have := run_some_panicked cfg _ (Lexer.new cfg s) (e, n) hp0 (by rw [hR])
      rw [hR] at this; exact this
    obtain ⟨a', lag', ha', hk1, h1, hq⟩ := awp_sound cfg _ _ (Lexer.new cfg s) false (new_KPos cfg s) (new_DInv cfg s) hp0
      (mainLoop_awp cfg _ _ _ _) (by rw [hR]; exact hL1p)
    rw [hR] at ha' hk1 h1 hq
    simp only [Option.some.injEq] at ha'
    subst ha'
    obtain ⟨hlag, hrest⟩ := hq
    subst hlag
    have hsrc1 : L1.src = s := by
      have := run_src cfg (mainLoop cfg (budgetMul * (Lexer.new cfg s).srcLen + 64) 0 ((Lexer.new cfg s).srcLen, [Mode.default])) (Lexer.new cfg s)
      rw [hR] at this; simpa [new_src] using this
    by_cases hdet : e = .detected
    · subst hdet
      simp only [beq_self_eq_true, if_true] at h
      split at h <;> simp at h
    · have hb : (e == LoopEnd.detected) = false := by simpa using hdet
      simp only [hb, Bool.false_eq_true, if_false] at h ⊢
      cases hp2 : (Prog.run cfg (finalizeLexing cfg) L1).2.panicked with
      | some m => simp [hp2] at h
      | none =>
        simp only [hp2] at h ⊢
        simp only [Option.some.injEq] at h
        subst h
        refine ⟨_, finalizeLexing_final cfg s L1 hsrc1 hk1 h1 hL1p (hrest rfl) hp2, rfl, rfl, ?_⟩
        intro hd
        have hm1 : KMono L1 := by
          have := run_KMono cfg hd (mainLoop cfg (budgetMul * (Lexer.new cfg s).srcLen + 64) 0 ((Lexer.new cfg s).srcLen, [Mode.default]))
            (Lexer.new cfg s) (new_KMono cfg s)
          rw [hR] at this; exact this
        exact (run_KMono cfg hd (finalizeLexing cfg) L1 hm1).sorted hp2

theorem Final.detached (cfg : Cfg) {s : List Char} {L : Lexer} (h : Final s L) :
    (L.intoDetached cfg).1 = ⟨L.linesR.reverse, L.toksR.reverse, L.litsR.reverse⟩ ∧ (L.intoDetached cfg).2 = L := by
  obtain ⟨e, ts, hts, hty, _, _⟩ := h.eof
  have hne : L.linesR.isEmpty = false := by
    have := congrArg List.length h.lines
    cases hl : L.linesR with
    | nil => simp [hl, lineStarts] at this
    | cons a b => rfl
  unfold Lexer.intoDetached
  simp only [hne, Bool.false_eq_true, if_false, hts, hty, if_true]
  simp

/-- **the line table of the modelled lexer is exact** (C04, model level, all inputs): whenever the model
returns at end of input, the detached buffer's line table is `lineStarts s`, every token's line index is the
number of line feeds before its start, every token starts at or after the BOM, and every recorded error carries
the line and column the text dictates. -/
theorem model_lines_exact (cfg : Cfg) (s : List Char) (h : (lexProgram cfg s).ending = some .eof) :
    (lexProgram cfg s).buf.lines = lineStarts s ∧
    (∀ t ∈ (lexProgram cfg s).buf.toks, PosPair s t.byte t.start ∧ bomChars s ≤ t.start ∧ t.line = lineIdxOfChar s t.start) ∧
    (∀ e ∈ (lexProgram cfg s).final.errsR, e.line = lineIdxOfChar s e.char + 1 ∧ e.col = colOfChar s e.char) := by
  obtain ⟨L2, hf, hb, hfin, _⟩ := lexProgram_final cfg s h
  obtain ⟨hd1, hd2⟩ := hf.detached cfg
  rw [hb, hfin, hd1, hd2]
  refine ⟨hf.lines, ?_, fun e he => ⟨(hf.errs e he).line, (hf.errs e he).col⟩⟩
  intro t ht
  simp only [List.mem_reverse] at ht
  have hp := hf.kpos.toks t ht
  rw [hf.src] at hp
  exact ⟨hp, (hf.toks t ht).1, (hf.toks t ht).2⟩

/-- **exactly one `EOF`, last, at the end of the text** (C02, model level, all inputs) -/
theorem model_single_eof (cfg : Cfg) (s : List Char) (h : (lexProgram cfg s).ending = some .eof) :
    ∃ pre e, (lexProgram cfg s).buf.toks = pre ++ [e] ∧ e.ty = .EOF ∧ e.start = s.length ∧ e.byte = utf8Len s ∧
      ∀ t ∈ pre, t.ty ≠ .EOF := by
  obtain ⟨L2, hf, hb, _, _⟩ := lexProgram_final cfg s h
  obtain ⟨hd1, _⟩ := hf.detached cfg
  obtain ⟨e, ts, hts, hty, hst, hne⟩ := hf.eof
  rw [hb, hd1]
  refine ⟨ts.reverse, e, by simp [hts], hty, hst, ?_, fun t ht => hne t (by simpa using ht)⟩
  have hp := hf.kpos.toks e (by simp [hts])
  rw [hf.src] at hp
  obtain ⟨p, q, hs, hbyte, hlen⟩ := hp
  have : q = [] := by
    have := congrArg List.length hs
    simp at this; rw [hst] at hlen
    cases q with
    | nil => rfl
    | cons a b => simp at this; omega
  subst this
  simp at hs; subst hs; exact hbyte

end SasLexer
