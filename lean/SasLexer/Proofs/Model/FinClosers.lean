import SasLexer.Proofs.Model.Fin
import SasLexer.Spec.C10
import SasLexer.Lex.Main
set_option linter.unusedSimpArgs false
/-!
# Finalisation supplies exactly the owed closers (model, every state)
-/
namespace SasLexer
open Spec.C10

theorem expectedCharAndError_missingErr (ty : TokenType) :
    (expectedCharAndError ty).map (·.2) = missingErr ty := by
  cases ty <;> rfl

/-- exact effect of `finalizeMode` on the projection (where specified) -/
def fin1 (σ : FS) : Mode → FS
  | .expectSymbol ty ch =>
    match missingErr ty with
    | some ek => { σ with tokByte := σ.cur, errs := ek :: σ.errs, toks := (ty, ch, σ.cur) :: σ.toks }
    | none => σ
  | .expectSemiOrEOF | .macroDo => { σ with tokByte := σ.cur, toks := (.SEMI, .DEFAULT, σ.cur) :: σ.toks }
  | .macroStrQuotedExpr _ pnl | .macroCallValue _ pnl | .macroEval _ pnl =>
    if pnl > 0 then
      { σ with tokByte := σ.cur, errs := .MissingExpectedRParen :: σ.errs,
               toks := List.replicate pnl (.RPAREN, .DEFAULT, σ.cur) ++ σ.toks }
    else { σ with tokByte := σ.cur }
  | .stringExpr _ =>
    match σ.toks with
    | (.StringExprStart, _, b) :: ts =>
      { σ with tokByte := σ.cur, toks := (.StringLiteral, .DEFAULT, b) :: ts, errs := .UnterminatedStringLiteral :: σ.errs }
    | _ => { σ with tokByte := σ.cur, toks := (.StringExprEnd, .DEFAULT, σ.cur) :: σ.toks,
                    errs := .UnterminatedStringLiteral :: σ.errs }
  | .macroNameExpr _ (some e) => { σ with tokByte := σ.cur, errs := e :: σ.errs }
  | .macroDefName => { σ with tokByte := σ.cur, errs := .InvalidMacroDefName :: σ.errs }
  | _ => { σ with tokByte := σ.cur }

theorem fwp_forIn_emit (l : List Nat) : ∀ (σ : FS) (Q : PUnit → FS → Prop),
    fwp (forIn l PUnit.unit fun (_ : Nat) (_ : PUnit) => do
      P.emitD .RPAREN
      pure (ForInStep.yield PUnit.unit)) Q σ ↔
    Q PUnit.unit { σ with toks := List.replicate l.length (.RPAREN, .DEFAULT, σ.tokByte) ++ σ.toks } := by
  induction l with
  | nil => intro σ Q; simp only [List.forIn_nil, fwp.pure_iff, List.length_nil, List.replicate_zero, List.nil_append]
  | cons x l ih =>
    intro σ Q
    simp only [P.emitD, Prog.perform] at ih
    simp only [List.forIn_cons, P.emitD]
    fwp_eval
    rw [ih]
    simp only [List.length_cons, List.replicate_succ']
    simp [List.append_assoc]

theorem finalizeMode_fwp (cfg : Cfg) (m : Mode) (σ : FS) (Q : Unit → FS → Prop)
    (hspec : ∀ ty ch, m = .expectSymbol ty ch → (missingErr ty).isSome ∧ σ.modes ≠ [])
    (hQ : Q () (fin1 σ m)) : fwp (finalizeMode cfg m) Q σ := by
  unfold finalizeMode
  simp only [P.startToken]
  fwp_eval
  cases m
  case expectSymbol ty ch =>
    obtain ⟨h1, h2⟩ := hspec ty ch rfl
    have h3 := expectedCharAndError_missingErr ty
    cases hm : missingErr ty with
    | none => simp [hm] at h1
    | some ek =>
      rw [hm] at h3
      cases he : expectedCharAndError ty with
      | none => simp [he] at h3
      | some ce =>
        obtain ⟨ec, ek'⟩ := ce
        simp only [he, Option.map_some, Option.some.injEq] at h3
        subst h3
        cases hmo : σ.modes with
        | nil => exact absurd hmo h2
        | cons m0 ms =>
          simp only [fin1, hm, hmo] at hQ
          unfold lexExpectedToken
          have hne : ((none : Option Char) != some ec) = true := rfl
          simp only [he, hne, if_true, Option.isSome_none, Bool.false_eq_true, if_false, P.peek, P.rest, P.mode,
            P.emitError, P.emit, P.popMode]
          split
          · fwp_eval
            split <;> (try fwp_eval) <;> (try intro _) <;> exact hQ
          · fwp_eval; exact hQ
  case stringExpr a =>
    simp only [handleUnterminatedStrExpr, lastTokIsStart, P.lastTokTy, P.dbg, P.peek, P.rest, P.emitD, P.emitError]
    rcases σ with ⟨_ | ⟨⟨ty, ch, b⟩, ts⟩, errs, modes, tb, cur⟩
    · simp only [fin1] at hQ
      split <;> fwp_eval <;> (try intro _) <;> simpa using hQ
    · by_cases hty : ty = .StringExprStart
      · subst hty
        simp only [fin1] at hQ
        split <;> fwp_eval <;> (try intro _) <;> simpa using hQ
      · simp only [fin1] at hQ
        split at hQ
        · rename_i heq; simp at heq; exact absurd heq.1.1 hty
        · split <;> fwp_eval <;> (try intro _) <;> simpa [hty] using hQ
  case macroStrQuotedExpr m pnl =>
    simp only [fin1] at hQ
    simp only [P.emitError]
    split at hQ
    · rename_i h; simp only [h, if_true]; fwp_eval
      rw [Std.Legacy.Range.forIn_eq_forIn_range', fwp_forIn_emit]; simpa using hQ
    · rename_i h; simp only [h, if_false]; exact hQ
  case macroCallValue m pnl =>
    simp only [fin1] at hQ
    simp only [P.emitError]
    split at hQ
    · rename_i h; simp only [h, if_true]; fwp_eval
      rw [Std.Legacy.Range.forIn_eq_forIn_range', fwp_forIn_emit]; simpa using hQ
    · rename_i h; simp only [h, if_false]; exact hQ
  case macroEval m pnl =>
    simp only [fin1] at hQ
    simp only [P.emitError]
    split at hQ
    · rename_i h; simp only [h, if_true]; fwp_eval
      rw [Std.Legacy.Range.forIn_eq_forIn_range', fwp_forIn_emit]; simpa using hQ
    · rename_i h; simp only [h, if_false]; exact hQ
  case macroNameExpr f e =>
    cases e <;> simp only [fin1] at hQ <;> simp only [P.emitError] <;> fwp_eval <;> exact hQ
  all_goals (simp only [fin1] at hQ; simp only [P.startToken, P.emitD, P.emitError]; fwp_eval; exact hQ)

/-! ### the specification's abstract tail (`Spec.C10.FinSt`) against the projection -/

structure Rep (st : FinSt) (σ : FS) : Prop where
  tail : tailMatches st.tail σ.toks = true
  ne : st.tail = [] → σ.toks = []
  owed : ∀ t ∈ σ.toks.take st.owed, t.2.2 = σ.cur
  errs : σ.errs.take st.errs.length = st.errs.reverse

theorem tailMatches_push (ty : TokenType) (ch : Channel) (c : Nat) (tl : List (TokenType × Option Channel))
    (ts : List (TokenType × Channel × Nat)) :
    tailMatches ((ty, some ch) :: tl) ((ty, ch, c) :: ts) = tailMatches tl ts := by
  simp [tailMatches]

theorem tailMatches_replicate (n : Nat) (ty : TokenType) (ch : Channel) (c : Nat) (tl : List (TokenType × Option Channel))
    (ts : List (TokenType × Channel × Nat)) :
    tailMatches (List.replicate n (ty, some ch) ++ tl) (List.replicate n (ty, ch, c) ++ ts) = tailMatches tl ts := by
  induction n with
  | zero => rfl
  | succ n ih => simp only [List.replicate_succ, List.cons_append, tailMatches_push, ih]

theorem mem_take_replicate {α : Type} (n k : Nat) (x : α) (ts : List α) :
    ∀ t ∈ (List.replicate n x ++ ts).take (k + n), t = x ∨ t ∈ ts.take k := by
  induction n with
  | zero => intro t ht; exact Or.inr (by simpa using ht)
  | succ n ih =>
    intro t ht
    simp only [List.replicate_succ, List.cons_append, ← Nat.add_assoc, List.take_succ_cons, List.mem_cons] at ht
    rcases ht with rfl | ht
    · exact Or.inl rfl
    · exact ih t ht

theorem Rep.step {st st' : FinSt} {σ : FS} {m : Mode} (h : Rep st σ) (hs : finStep st σ.modes.isEmpty m = some st') :
    Rep st' (fin1 σ m) ∧ (fin1 σ m).modes = σ.modes ∧ (fin1 σ m).cur = σ.cur := by
  obtain ⟨hT, hN, hO, hE⟩ := h
  have push1 : ∀ (ty : TokenType) (ch : Channel) (errs' : List ErrorKind) (serrs : List ErrorKind),
      errs'.take serrs.length = serrs.reverse →
      Rep { tail := (ty, some ch) :: st.tail, errs := serrs, owed := st.owed + 1 }
        { σ with tokByte := σ.cur, errs := errs', toks := (ty, ch, σ.cur) :: σ.toks } := by
    intro ty ch errs' serrs he
    refine ⟨by simpa [tailMatches_push] using hT, (by intro h; cases h), ?_, he⟩
    intro t ht
    simp only [List.take_succ_cons, List.mem_cons] at ht
    rcases ht with rfl | ht
    · rfl
    · exact hO t ht
  have errs1 : ∀ ek, (ek :: σ.errs).take (st.errs ++ [ek]).length = (st.errs ++ [ek]).reverse := by
    intro ek; simp [List.take_succ_cons, hE]
  have pnlCase : ∀ (pnl : Nat) {σ' : FS},
      (if pnl > 0 then some (FinSt.mk (List.replicate pnl (.RPAREN, some .DEFAULT) ++ st.tail)
             (st.errs ++ [.MissingExpectedRParen]) (st.owed + pnl)) else some st) = some st' →
      σ' = (if pnl > 0 then
        FS.mk (List.replicate pnl (.RPAREN, .DEFAULT, σ.cur) ++ σ.toks) (.MissingExpectedRParen :: σ.errs) σ.modes σ.cur σ.cur
        else FS.mk σ.toks σ.errs σ.modes σ.cur σ.cur) →
      Rep st' σ' ∧ σ'.modes = σ.modes ∧ σ'.cur = σ.cur := by
    intro pnl σ' h1 h2
    subst h2
    by_cases hp : pnl > 0
    · simp only [hp, if_true, Option.some.injEq] at h1 ⊢
      subst h1
      refine ⟨⟨by simpa [tailMatches_replicate] using hT, ?_, ?_, errs1 _⟩, trivial, trivial⟩
      · intro h
        have : pnl = 0 := by
          have := congrArg List.length h
          simp at this; omega
        omega
      · intro t ht
        rcases mem_take_replicate pnl st.owed _ σ.toks t ht with rfl | ht
        · rfl
        · exact hO t ht
    · simp only [hp, if_false, Option.some.injEq] at h1 ⊢
      subst h1
      exact ⟨⟨hT, hN, hO, hE⟩, trivial, trivial⟩
  cases m
  case expectSymbol ty ch =>
    simp only [finStep] at hs
    split at hs
    · rename_i ek hm hb
      cases hs
      simp only [fin1, hm]
      refine ⟨push1 ty ch _ _ (errs1 ek), ?_, ?_⟩ <;> first | rfl | trivial
    · cases hs
  case expectSemiOrEOF =>
    simp only [finStep] at hs; cases hs
    simp only [fin1]
    refine ⟨push1 .SEMI .DEFAULT _ _ hE, ?_, ?_⟩ <;> first | rfl | trivial
  case macroDo =>
    simp only [finStep] at hs; cases hs
    simp only [fin1]
    refine ⟨push1 .SEMI .DEFAULT _ _ hE, ?_, ?_⟩ <;> first | rfl | trivial
  case macroStrQuotedExpr mk pnl => exact pnlCase pnl (by simpa [finStep] using hs) (by simp [fin1])
  case macroCallValue mk pnl => exact pnlCase pnl (by simpa [finStep] using hs) (by simp [fin1])
  case macroEval mk pnl => exact pnlCase pnl (by simpa [finStep] using hs) (by simp [fin1])
  case stringExpr a =>
    simp only [finStep] at hs
    rcases σ with ⟨toks, errs, modes, tb, cur⟩
    simp only at hT hN hO hE errs1 push1 hs
    rcases hst : st.tail with _ | ⟨⟨ty, oc⟩, tl⟩
    · have htk : toks = [] := hN hst
      subst htk
      simp only [hst] at hs
      cases hs
      simp only [fin1]
      have := push1 .StringExprEnd .DEFAULT (.UnterminatedStringLiteral :: errs) _ (errs1 _)
      simp only [hst] at this
      refine ⟨this, ?_, ?_⟩ <;> first | rfl | trivial
    · rcases toks with _ | ⟨⟨ty', ch', b'⟩, ts⟩
      · simp [hst, tailMatches] at hT
      · have hty : ty' = ty := by
          simp only [hst, tailMatches, Bool.and_eq_true, beq_iff_eq] at hT; exact hT.1.1
        subst hty
        by_cases hs' : ty' = .StringExprStart
        · subst hs'
          simp only [hst] at hs
          cases hs
          simp only [fin1]
          refine ⟨⟨?_, (by intro h; cases h), ?_, errs1 _⟩, ?_, ?_⟩ <;> try first | rfl | trivial
          · simp only [hst, tailMatches, Bool.and_eq_true, beq_iff_eq] at hT
            simp only [tailMatches, beq_self_eq_true, Bool.true_and]
            exact hT.2
          · intro t ht
            cases ho : st.owed with
            | zero => simp [ho] at ht
            | succ k =>
              simp only [ho, List.take_succ_cons, List.mem_cons] at ht
              have h0 := hO (.StringExprStart, ch', b') (by simp [ho])
              rcases ht with rfl | ht
              · exact h0
              · exact hO t (by simp [ho, ht])
        · split at hs
          · rename_i heq; rw [hst] at heq; simp at heq; exact absurd heq.1.1 hs'
          · cases hs
            have hf : fin1 ⟨(ty', ch', b') :: ts, errs, modes, tb, cur⟩ (.stringExpr a) =
                ⟨(.StringExprEnd, .DEFAULT, cur) :: (ty', ch', b') :: ts, .UnterminatedStringLiteral :: errs, modes, cur, cur⟩ := by
              simp only [fin1]; split
              · rename_i heq; simp at heq; exact absurd heq.1.1 hs'
              · rfl
            rw [hf]
            have := push1 .StringExprEnd .DEFAULT (.UnterminatedStringLiteral :: errs) _ (errs1 _)
            refine ⟨this, ?_, ?_⟩ <;> first | rfl | trivial
  case macroNameExpr f e =>
    cases e with
    | none => simp only [finStep] at hs; cases hs; simp only [fin1]; exact ⟨⟨hT, hN, hO, hE⟩, by first | rfl | trivial, by first | rfl | trivial⟩
    | some e =>
      simp only [finStep] at hs; cases hs; simp only [fin1]
      exact ⟨⟨hT, hN, hO, errs1 _⟩, by first | rfl | trivial, by first | rfl | trivial⟩
  case macroDefName =>
    simp only [finStep] at hs; cases hs; simp only [fin1]
    exact ⟨⟨hT, hN, hO, errs1 _⟩, by first | rfl | trivial, by first | rfl | trivial⟩
  all_goals (simp only [finStep] at hs; cases hs; simp only [fin1]; exact ⟨⟨hT, hN, hO, hE⟩, by first | rfl | trivial, by first | rfl | trivial⟩)


theorem finStep_spec {st st' : FinSt} {b : Bool} {m : Mode} (h : finStep st b m = some st') :
    ∀ ty ch, m = .expectSymbol ty ch → (missingErr ty).isSome ∧ b = false := by
  intro ty ch hm
  subst hm
  simp only [finStep] at h
  split at h
  · rename_i _ ek hh1; exact ⟨by rw [hh1]; rfl, rfl⟩
  · cases h

theorem finalizeLoop_fwp (cfg : Cfg) (Q : Unit → FS → Prop) : ∀ (f : Nat) (σ : FS) (st st' : FinSt),
    σ.modes.length < f → Rep st σ → finAll st σ.modes = some st' →
    (∀ σ', Rep st' σ' → σ'.modes = [] → σ'.cur = σ.cur → Q () σ') → fwp (finalizeLoop cfg f) Q σ
  | 0, σ, st, st', hf, _, _, _ => by omega
  | f + 1, σ, st, st', hf, hR, hA, hQ => by
    unfold finalizeLoop
    fwp_eval
    rcases σ with ⟨toks, errs, modes, tb, cur⟩
    cases modes with
    | nil =>
      simp only [finAll, Option.some.injEq] at hA
      subst hA
      simp only [fwp.pure_iff]
      exact hQ _ hR rfl rfl
    | cons m ms =>
      simp only
      simp only [finAll] at hA
      cases hs : finStep st ms.isEmpty m with
      | none => simp [hs] at hA
      | some st1 =>
        simp only [hs] at hA
        have hR1 : Rep st ⟨toks, errs, ms, tb, cur⟩ := ⟨hR.tail, hR.ne, hR.owed, hR.errs⟩
        obtain ⟨hR2, hm2, hc2⟩ := Rep.step (σ := ⟨toks, errs, ms, tb, cur⟩) hR1 hs
        apply finalizeMode_fwp
        · intro ty ch hm
          obtain ⟨h1, h2⟩ := finStep_spec hs ty ch hm
          refine ⟨h1, ?_⟩
          simp only
          intro h; subst h; simp at h2
        · apply finalizeLoop_fwp cfg Q f _ st1 st' _ hR2 (by rw [hm2]; exact hA)
          · intro σ' h1 h2 h3; exact hQ σ' h1 h2 (by rw [h3, hc2])
          · rw [hm2]; simp only [List.length_cons] at hf ⊢; omega


theorem finalizeLexing_eof_head (cfg : Cfg) (L1 : Lexer) (h : (Prog.run cfg (finalizeLexing cfg) L1).1 = some ()) :
    ∃ c rest, (FS.of (Prog.run cfg (finalizeLexing cfg) L1).2).toks = (.EOF, .DEFAULT, c) :: rest := by
  have hshape : finalizeLexing cfg = ((Prog.perform .modeDepth >>= fun d => finalizeLoop cfg (d * 2 + 2)) >>= fun _ =>
      Prog.perform .emitEofAtCursor) := by
    unfold finalizeLexing; rfl
  rw [hshape] at h ⊢
  rw [run_bind] at h ⊢
  generalize Prog.run cfg (Prog.perform .modeDepth >>= fun d => finalizeLoop cfg (d * 2 + 2)) L1 = R at h ⊢
  obtain ⟨ra, L2⟩ := R
  cases ra with
  | none => simp at h
  | some a =>
    simp only at h ⊢
    rw [Prog.perform, run_op] at h ⊢
    cases hp : (step cfg .emitEofAtCursor L2).2.panicked with
    | some m => simp [hp] at h
    | none =>
      simp only [hp, Prog.run]
      refine ⟨(Lexer.lastLineOrAdd cfg L2).snd.curByte,
        List.map (fun t => (t.ty, t.chan, t.byte)) (Lexer.lastLineOrAdd cfg L2).snd.toksR, ?_⟩
      simp only [step, FS.of, Lexer.bufAddToken, List.map_cons]

/-- **Finalisation supplies exactly the owed closers** — for every lexer state, both profiles: if `finalize_lexing`
returns, the tokens are `… ++ owed ++ [EOF]` and the errors end with the owed reports, as computed by the
specification from the mode stack and the newest token's type before finalisation. -/
theorem finalizeLexing_closers (cfg : Cfg) (L1 : Lexer)
    (h : (Prog.run cfg (finalizeLexing cfg) L1).1 = some ()) :
    (∃ c rest, (FS.of (Prog.run cfg (finalizeLexing cfg) L1).2).toks = (.EOF, .DEFAULT, c) :: rest) ∧
    closersOK L1.modesR (L1.toksR.head?.map (·.ty)) (FS.of (Prog.run cfg (finalizeLexing cfg) L1).2).toks
      (FS.of (Prog.run cfg (finalizeLexing cfg) L1).2).errs = true := by
  generalize hlast : L1.toksR.head?.map (·.ty) = last
  cases hA : finAll (finInit last) L1.modesR with
  | none =>
    simp only [closersOK, hA, and_true]
    exact finalizeLexing_eof_head cfg L1 h
  | some st' =>
    refine fwp_sound cfg (finalizeLexing cfg) (fun _ σ' => (∃ c rest, σ'.toks = (.EOF, .DEFAULT, c) :: rest) ∧
      closersOK L1.modesR last σ'.toks σ'.errs = true) L1 ?_ () h
    unfold finalizeLexing
    fwp_eval
    have hR : Rep (finInit last) (FS.of L1) := by
      refine ⟨?_, ?_, by intro t ht; simp [finInit] at ht, by simp [finInit]⟩
      · cases hl : L1.toksR with
        | nil => simp [hl] at hlast; subst hlast; simp [finInit, FS.of, hl, tailMatches]
        | cons t ts => simp [hl] at hlast; subst hlast; simp [finInit, FS.of, hl, tailMatches]
      · intro ht
        cases hl : L1.toksR with
        | nil => simp [FS.of, hl]
        | cons t ts => simp [hl] at hlast; subst hlast; simp [finInit] at ht
    apply finalizeLoop_fwp cfg _ _ (FS.of L1) (finInit last) st' (by simp [FS.of]; omega) hR hA
    intro σ' hR' hm hc
    refine ⟨⟨_, _, rfl⟩, ?_⟩
    simp only [closersOK, hA]
    simp only [Bool.and_eq_true, List.all_eq_true, beq_iff_eq]
    exact ⟨⟨hR'.tail, hR'.owed⟩, hR'.errs⟩

end SasLexer
