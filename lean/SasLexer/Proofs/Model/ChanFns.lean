import SasLexer.Proofs.Model.Chan
import SasLexer.Lex.Main
import SasLexer.Proofs.Model.DiscMacroCall
set_option linter.unusedSimpArgs false
set_option linter.unusedVariables false
set_option maxRecDepth 8000
/-! # Every function of the modelled control logic obeys the channel table -/
namespace SasLexer
open P
variable {cfg : Cfg}

macro "chan_unfold" : tactic => `(tactic| simp only [P.rest, P.peek, P.peekNext, P.advance, P.advance_, P.advanceBy, P.eatWhile,
  P.addLine, P.startToken, P.emit, P.emitD, P.emitError, P.pushMode, P.popMode, P.mode, P.setPending, P.lastTokTy, P.abort,
  P.unmodelled, P.dbg, P.peekIs])

/-! ## pure helpers: the types they can return live on the default channel -/

theorem tryParseInteger_plain {s : List Char} {r : NumRes} (h : tryParseInteger s = some r) : tokOK false .DEFAULT r.ty r.payload = true := by
  unfold tryParseInteger at h
  simp only at h
  split at h
  · simp at h
  · split at h
    · simp at h
    · simp only [Option.some.injEq] at h; subst h; rfl

theorem tryParseHexInteger_plain {s : List Char} {r : NumRes} (h : tryParseHexInteger s = some r) : tokOK false .DEFAULT r.ty r.payload = true := by
  unfold tryParseHexInteger at h
  simp only at h
  split at h
  · simp at h
  · split at h <;> (simp only [Option.some.injEq] at h; subst h; rfl)

theorem tryParseFloat_plain {s : List Char} {r : NumRes} (h : tryParseFloat s = some r) : tokOK false .DEFAULT r.ty r.payload = true := by
  unfold tryParseFloat at h
  split at h
  · split at h
    · simp at h
    · simp only [Option.some.injEq] at h; subst h; split <;> rfl
  · split at h
    · simp at h
    · simp only [Option.some.injEq] at h; subst h; rfl
  · simp at h

theorem tryParseDecimal_plain {s : List Char} {a b : Bool} {r : NumRes} (h : tryParseDecimal s a b = some r) :
    tokOK false .DEFAULT r.ty r.payload = true := by
  unfold tryParseDecimal at h
  simp only at h
  have hi : ∀ r, (if a = true then tryParseInteger s else none) = some r → tokOK false .DEFAULT r.ty r.payload = true := by
    intro r hr; split at hr
    · exact tryParseInteger_plain hr
    · simp at hr
  have hf : ∀ r, (if b = true then tryParseFloat s else none) = some r → tokOK false .DEFAULT r.ty r.payload = true := by
    intro r hr; split at hr
    · exact tryParseFloat_plain hr
    · simp at hr
  split at h
  · rename_i i f h1 h2
    split at h <;> (simp only [Option.some.injEq] at h; subst h)
    · exact hi _ h1
    · exact hf _ h2
  · rename_i i h1 h2; simp only [Option.some.injEq] at h; subst h; exact hi _ h1
  · rename_i f h1 h2; simp only [Option.some.injEq] at h; subst h; exact hf _ h2
  · simp at h

theorem numericChoice_plain {view : List Char} {sd : Bool} {res : NumRes} {cx : Bool}
    (h : numericChoice view sd = some (res, cx)) : tokOK false .DEFAULT res.ty res.payload = true := by
  unfold numericChoice at h
  simp only at h
  have hh : ∀ r, (if sd = true then none else tryParseHexInteger view) = some r → tokOK false .DEFAULT r.ty r.payload = true := by
    intro r hr; split at hr
    · simp at hr
    · exact tryParseHexInteger_plain hr
  have hdd : ∀ r, tryParseDecimal view (!sd) true = some r → tokOK false .DEFAULT r.ty r.payload = true :=
    fun r hr => tryParseDecimal_plain hr
  split at h
  · rename_i d hx h1 h2
    split at h
    · simp only [Option.some.injEq, Prod.mk.injEq] at h; obtain ⟨rfl, _⟩ := h; exact hdd _ h1
    · split at h
      · simp only [Option.some.injEq, Prod.mk.injEq] at h; obtain ⟨rfl, _⟩ := h; exact hh _ h2
      · split at h
        · simp only [Option.some.injEq, Prod.mk.injEq] at h; obtain ⟨rfl, _⟩ := h; exact hh _ h2
        · simp only [Option.some.injEq, Prod.mk.injEq] at h; obtain ⟨rfl, _⟩ := h; exact hdd _ h1
  · rename_i d h1 h2
    simp only [Option.some.injEq, Prod.mk.injEq] at h; obtain ⟨rfl, _⟩ := h; exact hdd _ h1
  · rename_i hx h1 h2
    simp only [Option.some.injEq, Prod.mk.injEq] at h; obtain ⟨rfl, _⟩ := h; exact hh _ h2
  · split at h
    · simp at h
    · simp only [Option.some.injEq, Prod.mk.injEq] at h
      obtain ⟨rfl, _⟩ := h
      rfl

/-! ## `Lex/Common.lean` -/

theorem fuelOfRest_chan {Q : Nat → Prop} (hQ : ∀ n, Q n) : ChanR cfg.macroSep fuelOfRest Q := by
  unfold fuelOfRest; chan_unfold; chan_auto [hQ]

theorem lexWsLoop_chan : ∀ (f : Nat) {Q : Unit → Prop}, (∀ a, Q a) → ChanR cfg.macroSep (lexWsLoop f) Q
  | 0, Q, hQ => by unfold lexWsLoop; chan_unfold; chan_auto [hQ]
  | f + 1, Q, hQ => by unfold lexWsLoop; chan_unfold; chan_auto [hQ, lexWsLoop_chan f]

theorem lexWs_chan (cfg : Cfg) {Q : Unit → Prop} (hQ : ∀ a, Q a) : ChanR cfg.macroSep (lexWs cfg) Q := by
  unfold lexWs; chan_unfold; chan_auto [hQ, fuelOfRest_chan, lexWsLoop_chan]

theorem lexCStyleLoop_chan : ∀ (f : Nat) {Q : Bool → Prop}, (∀ a, Q a) → ChanR cfg.macroSep (lexCStyleLoop f) Q
  | 0, Q, hQ => by unfold lexCStyleLoop; chan_unfold; chan_auto [hQ]
  | f + 1, Q, hQ => by unfold lexCStyleLoop; chan_unfold; chan_auto [hQ, lexCStyleLoop_chan f]

theorem lexCStyleComment_chan (cfg : Cfg) {Q : Unit → Prop} (hQ : ∀ a, Q a) : ChanR cfg.macroSep (lexCStyleComment cfg) Q := by
  unfold lexCStyleComment; chan_unfold; chan_auto [hQ, fuelOfRest_chan, lexCStyleLoop_chan]

theorem lexStringExpressionStart_chan (cfg : Cfg) (b : Bool) {Q : Unit → Prop} (hQ : ∀ a, Q a) :
    ChanR cfg.macroSep (lexStringExpressionStart cfg b) Q := by
  unfold lexStringExpressionStart; chan_unfold; chan_auto [hQ]

def litTy (ty : TokenType) : Prop :=
  ty = .BitTestingLiteral ∨ ty = .DateTimeLiteral ∨ ty = .DateLiteral ∨ ty = .NameLiteral ∨ ty = .TimeLiteral ∨
  ty = .HexStringLiteral ∨ ty = .StringLiteral

theorem litTy.plain {ty : TokenType} (h : litTy ty) : tokOK false .DEFAULT ty .reg = true := by
  rcases h with h | h | h | h | h | h | h <;> subst h <;> rfl

theorem resolveStringLiteralEnding_chan {Q : TokenType → Prop} (hQ : ∀ ty, litTy ty → Q ty) :
    ChanR cfg.macroSep resolveStringLiteralEnding Q := by
  unfold resolveStringLiteralEnding; chan_unfold
  chan_auto [hQ]
  all_goals simp [litTy]


theorem lexSingleQuotedLoop_chan : ∀ (f : Nat) {Q : SqEnd → Prop}, (∀ a, Q a) → ChanR cfg.macroSep (lexSingleQuotedLoop f) Q
  | 0, Q, hQ => by unfold lexSingleQuotedLoop; chan_unfold; chan_auto [hQ]
  | f + 1, Q, hQ => by unfold lexSingleQuotedLoop; chan_unfold; chan_auto [hQ, lexSingleQuotedLoop_chan f]

theorem lexSingleQuotedStr_chan (cfg : Cfg) {Q : Unit → Prop} (hQ : ∀ a, Q a) : ChanR cfg.macroSep (lexSingleQuotedStr cfg) Q := by
  unfold lexSingleQuotedStr; chan_unfold
  chan_auto [hQ, fuelOfRest_chan, lexSingleQuotedLoop_chan, resolveStringLiteralEnding_chan]
  all_goals (first | exact tokOK_mono (litTy.plain ‹_›) | skip)

theorem emitResolveOps_chan : ∀ (ks : List Nat) {Q : Unit → Prop}, (∀ a, Q a) → ChanR cfg.macroSep (emitResolveOps ks) Q
  | [], Q, hQ => by unfold emitResolveOps; chan_auto [hQ]
  | k :: ks, Q, hQ => by unfold emitResolveOps; chan_unfold; chan_auto [hQ, emitResolveOps_chan ks]

theorem lexMacroVarExprLoop_chan : ∀ (f : Nat) (st : List Nat) {Q : Unit → Prop}, (∀ a, Q a) → ChanR cfg.macroSep (lexMacroVarExprLoop f st) Q
  | _, [], Q, hQ => by unfold lexMacroVarExprLoop; chan_auto [hQ]
  | 0, _ :: _, Q, hQ => by unfold lexMacroVarExprLoop; chan_unfold; chan_auto [hQ]
  | f + 1, x :: st, Q, hQ => by
    unfold lexMacroVarExprLoop; chan_unfold
    chan_auto [hQ, emitResolveOps_chan, lexMacroVarExprLoop_chan f]

theorem lexMacroVarExpr_chan (cfg : Cfg) {Q : Bool → Prop} (hQ : ∀ a, Q a) : ChanR cfg.macroSep (lexMacroVarExpr cfg) Q := by
  unfold lexMacroVarExpr; chan_unfold
  chan_auto [hQ, emitResolveOps_chan, fuelOfRest_chan, lexMacroVarExprLoop_chan]

theorem lexMacroCommentLoop_chan : ∀ (f : Nat) (q : Quote) {Q : Unit → Prop}, (∀ a, Q a) → ChanR cfg.macroSep (lexMacroCommentLoop f q) Q
  | 0, _, Q, hQ => by unfold lexMacroCommentLoop; chan_unfold; chan_auto [hQ]
  | f + 1, q, Q, hQ => by unfold lexMacroCommentLoop; chan_unfold; chan_auto [hQ, lexMacroCommentLoop_chan f]

theorem lexMacroComment_chan (cfg : Cfg) {Q : Unit → Prop} (hQ : ∀ a, Q a) : ChanR cfg.macroSep (lexMacroComment cfg) Q := by
  unfold lexMacroComment; chan_unfold; chan_auto [hQ, fuelOfRest_chan, lexMacroCommentLoop_chan]

theorem lexNumericLiteral_chan (cfg : Cfg) (sd : Bool) {Q : Unit → Prop} (hQ : ∀ a, Q a) : ChanR cfg.macroSep (lexNumericLiteral cfg sd) Q := by
  unfold lexNumericLiteral; chan_unfold
  chan_auto [hQ]
  all_goals (first | exact tokOK_mono (numericChoice_plain ‹_›) | skip)

theorem lexCharFormat_chan {Q : Bool → Prop} (hQ : ∀ a, Q a) : ChanR cfg.macroSep lexCharFormat Q := by
  unfold lexCharFormat; chan_unfold; chan_auto [hQ]

theorem predictedOpenLoop_chan : ∀ (f : Nat) {Q : Unit → Prop}, (∀ a, Q a) → ChanR cfg.macroSep (predictedOpenLoop f) Q
  | 0, Q, hQ => by unfold predictedOpenLoop; chan_unfold; chan_auto [hQ]
  | f + 1, Q, hQ => by unfold predictedOpenLoop; chan_unfold; chan_auto [hQ, predictedOpenLoop_chan f]

theorem predictedMacroLoop_chan : ∀ (f : Nat) {Q : Bool → Prop}, (∀ a, Q a) → ChanR cfg.macroSep (predictedMacroLoop f) Q
  | 0, Q, hQ => by unfold predictedMacroLoop; chan_unfold; chan_auto [hQ]
  | f + 1, Q, hQ => by unfold predictedMacroLoop; chan_unfold; chan_auto [hQ, predictedMacroLoop_chan f]

theorem lexPredictedComment_chan {Q : Bool → Prop} (hQ : ∀ a, Q a) : ChanR cfg.macroSep lexPredictedComment Q := by
  unfold lexPredictedComment; chan_unfold
  chan_auto [hQ, fuelOfRest_chan, predictedOpenLoop_chan, predictedMacroLoop_chan]

theorem lexExpectedToken_chan (cfg : Cfg) (nc : Option Char) (ty : TokenType) (ch : Channel) (hok : tokOK false ch ty .none = true)
    {Q : Unit → Prop} (hQ : ∀ a, Q a) : ChanR cfg.macroSep (lexExpectedToken cfg nc ty ch) Q := by
  unfold lexExpectedToken; chan_unfold
  chan_auto [hQ, hok]


/-! ## `Lex/MacroCall.lean` -/

/-- the channel `dispatch_macro_call_or_stat` gives the keyword token -/
def kwChan (t : TokenType) : Channel := if tokOneOf t [.KwmStr, .KwmNrStr] then .HIDDEN else .DEFAULT

theorem mkeywords_chan : ∀ p ∈ TokenType.MKEYWORDS, tokOK false (kwChan p.2) p.2 .none = true := by decide +kernel
theorem keywords_plain : ∀ p ∈ TokenType.KEYWORDS, plainTy p.2 = true := by decide +kernel

theorem lexMacroCallStatOrLabel_chan {r : List Char} {t : TokenType} {n : Nat}
    (h : lexMacroCallStatOrLabel r = .ok (t, n)) : tokOK false (kwChan t) t .none = true := by
  unfold lexMacroCallStatOrLabel at h
  simp only at h
  split at h
  · simp only [Except.ok.injEq, Prod.mk.injEq] at h; obtain ⟨rfl, rfl⟩ := h; rfl
  · split at h
    · simp only [Except.ok.injEq, Prod.mk.injEq] at h; obtain ⟨rfl, rfl⟩ := h; rfl
    · rename_i t' hl
      split at h
      · simp only [Except.ok.injEq, Prod.mk.injEq] at h; obtain ⟨rfl, rfl⟩ := h
        exact mkeywords_chan _ (lookup_mem hl)
      · simp at h

theorem macroCallOrStatPreload_chan (ty : TokenType) (b : Bool) {Q : Unit → Prop} (hQ : ∀ a, Q a) :
    ChanR cfg.macroSep (macroCallOrStatPreload ty b) Q := by
  unfold macroCallOrStatPreload maybeExpectMacroCallArgsOrLabel expectMacroStrCallArgs
    expectEvalCallArgs expectScanOrSubstrCallArgs expectBuiltinMacroCallArgs expectBuiltinMacroCallOneArgMasking
    expectBuiltinMacroCallNamedArgs expectSysfuncMacroCallArgs expectMacroUntilWhileStatArgs expectMacroLetStat
    expectMacroNameThenOpts expectSyscallCallAndArgs
  chan_unfold
  chan_auto [hQ]

theorem maybeEmitMacroSepBeforeKw_chan (ty : TokenType) (hs : cfg.macroSep = true) {Q : Unit → Prop} (hQ : ∀ a, Q a) :
    ChanR cfg.macroSep (maybeEmitMacroSepBeforeKw ty) Q := by
  unfold maybeEmitMacroSepBeforeKw; chan_unfold; chan_auto [hQ]
  all_goals (rw [hs]; rfl)

theorem dispatchMacroCallOrStat_chan (cfg : Cfg) (ty : TokenType) (b : Bool) (hty : tokOK false (kwChan ty) ty .none = true)
    {Q : Unit → Prop} (hQ : ∀ a, Q a) : ChanR cfg.macroSep (dispatchMacroCallOrStat cfg ty b) Q := by
  unfold dispatchMacroCallOrStat; chan_unfold
  chan_auto [hQ, maybeEmitMacroSepBeforeKw_chan, macroCallOrStatPreload_chan]
  all_goals (first | exact tokOK_mono hty | assumption)

theorem lexMacroCall_chan (cfg : Cfg) (a b : Bool) {Q : MacroKwType → Prop} (hQ : ∀ a, Q a) :
    ChanR cfg.macroSep (lexMacroCall cfg a b) Q := by
  unfold lexMacroCall; chan_unfold
  chan_auto [hQ, dispatchMacroCallOrStat_chan]
  all_goals (first | exact lexMacroCallStatOrLabel_chan ‹_› | rfl | skip)

theorem lexMacroIdentifier_chan (cfg : Cfg) (b : Bool) {Q : Unit → Prop} (hQ : ∀ a, Q a) :
    ChanR cfg.macroSep (lexMacroIdentifier cfg b) Q := by
  unfold lexMacroIdentifier; chan_unfold
  chan_auto [hQ, dispatchMacroCallOrStat_chan]
  all_goals (first | exact lexMacroCallStatOrLabel_chan ‹_› | rfl | skip)

theorem dispatchMacroDo_chan (cfg : Cfg) (c : Char) {Q : Unit → Prop} (hQ : ∀ a, Q a) : ChanR cfg.macroSep (dispatchMacroDo cfg c) Q := by
  unfold dispatchMacroDo; chan_unfold
  chan_auto [hQ, lexMacroIdentifier_chan]

theorem dispatchMacroLocalGlobal_chan (cfg : Cfg) (c : Char) (l : Bool) {Q : Unit → Prop} (hQ : ∀ a, Q a) :
    ChanR cfg.macroSep (dispatchMacroLocalGlobal cfg c l) Q := by
  unfold dispatchMacroLocalGlobal expectMacroLetStat; chan_unfold
  chan_auto [hQ]


/-! ## `Lex/Open.lean` -/

theorem datalinesToSemiLoop_chan : ∀ (f : Nat) {Q : Unit → Prop}, (∀ a, Q a) → ChanR cfg.macroSep (datalinesToSemiLoop f) Q
  | 0, Q, hQ => by unfold datalinesToSemiLoop; chan_unfold; chan_auto [hQ]
  | f + 1, Q, hQ => by unfold datalinesToSemiLoop; chan_unfold; chan_auto [hQ, datalinesToSemiLoop_chan f]

theorem datalinesBodyLoop_chan (e : List Char) : ∀ (f : Nat) {Q : Bool → Prop}, (∀ a, Q a) → ChanR cfg.macroSep (datalinesBodyLoop e f) Q
  | 0, Q, hQ => by unfold datalinesBodyLoop; chan_unfold; chan_auto [hQ]
  | f + 1, Q, hQ => by unfold datalinesBodyLoop; chan_unfold; chan_auto [hQ, datalinesBodyLoop_chan e f]

theorem lexDatalines_chan (cfg : Cfg) (b : Bool) {Q : Bool → Prop} (hQ : ∀ a, Q a) : ChanR cfg.macroSep (lexDatalines cfg b) Q := by
  unfold lexDatalines; chan_unfold
  chan_auto [hQ, fuelOfRest_chan, datalinesToSemiLoop_chan, datalinesBodyLoop_chan]

theorem lexIdentifier_chan (cfg : Cfg) {Q : Unit → Prop} (hQ : ∀ a, Q a) : ChanR cfg.macroSep (lexIdentifier cfg) Q := by
  unfold lexIdentifier; chan_unfold
  chan_auto [hQ, lexDatalines_chan]
  all_goals (first | exact tokOK_mono (keywords_plain _ (lookup_mem ‹_›)) | skip)

theorem lexSymbols_chan (cfg : Cfg) (c : Char) {Q : Unit → Prop} (hQ : ∀ a, Q a) : ChanR cfg.macroSep (lexSymbols cfg c) Q := by
  unfold lexSymbols; chan_unfold
  chan_auto [hQ, lexPredictedComment_chan, lexNumericLiteral_chan, lexCharFormat_chan]

theorem dispatchModeDefault_chan (cfg : Cfg) (c : Char) {Q : Unit → Prop} (hQ : ∀ a, Q a) : ChanR cfg.macroSep (dispatchModeDefault cfg c) Q := by
  unfold dispatchModeDefault; chan_unfold
  chan_auto [hQ, lexWs_chan, lexSingleQuotedStr_chan, lexStringExpressionStart_chan, lexCStyleComment_chan, lexMacroVarExpr_chan,
    lexMacroComment_chan, lexMacroIdentifier_chan, lexNumericLiteral_chan, lexIdentifier_chan, lexSymbols_chan]

theorem handleUnterminatedStrExpr_chan (cfg : Cfg) {Q : Unit → Prop} (hQ : ∀ a, Q a) : ChanR cfg.macroSep (handleUnterminatedStrExpr cfg) Q := by
  unfold handleUnterminatedStrExpr lastTokIsStart; chan_unfold; chan_auto [hQ]

theorem lexDoubleQuotedLiteral_chan (cfg : Cfg) {Q : Unit → Prop} (hQ : ∀ a, Q a) : ChanR cfg.macroSep (lexDoubleQuotedLiteral cfg) Q := by
  unfold lexDoubleQuotedLiteral; chan_unfold
  chan_auto [hQ, resolveStringLiteralEnding_chan]
  all_goals (first | exact tokOK_mono (litTy.plain ‹_›) | skip)

theorem lexStrExprTextLoop_chan (cfg : Cfg) : ∀ (f : Nat) {Q : StrTextEnd → Prop}, (∀ a, Q a) → ChanR cfg.macroSep (lexStrExprTextLoop cfg f) Q
  | 0, Q, hQ => by unfold lexStrExprTextLoop; chan_unfold; chan_auto [hQ]
  | f + 1, Q, hQ => by
    unfold lexStrExprTextLoop lastTokIsStart; chan_unfold
    chan_auto [hQ, lexStrExprTextLoop_chan cfg f, lexDoubleQuotedLiteral_chan]

theorem lexStrExprText_chan (cfg : Cfg) {Q : Unit → Prop} (hQ : ∀ a, Q a) : ChanR cfg.macroSep (lexStrExprText cfg) Q := by
  unfold lexStrExprText; chan_unfold
  chan_auto [hQ, fuelOfRest_chan, lexStrExprTextLoop_chan, handleUnterminatedStrExpr_chan]

theorem strExprEndType_plain (c : Option Char) (n : Char) : plainTy (strExprEndType c n).1 = true := by
  unfold strExprEndType
  split
  · repeat' split
    all_goals rfl
  · rfl

theorem dispatchModeStrExpr_chan (cfg : Cfg) (c : Char) (b : Bool) {Q : Unit → Prop} (hQ : ∀ a, Q a) :
    ChanR cfg.macroSep (dispatchModeStrExpr cfg c b) Q := by
  unfold dispatchModeStrExpr lastTokIsStart; chan_unfold
  chan_auto [hQ, lexStrExprText_chan, lexDoubleQuotedLiteral_chan, lexMacroVarExpr_chan, lexMacroIdentifier_chan]
  all_goals exact tokOK_mono (strExprEndType_plain _ _)


/-! ## `Lex/MacroEval.lean` -/

theorem isMacroEvalMnemonic_plain {r : List Char} {ty : TokenType} {extra : Nat}
    (h : isMacroEvalMnemonic r = (some ty, extra)) : plainTy ty = true := by
  unfold isMacroEvalMnemonic at h
  split at h
  · simp at h
  · simp at h
  · simp only at h
    have key : ∀ {c : Prop} [Decidable c] {a b x : Option TokenType × Nat},
        (if c then a else b) = x → (a = x) ∨ (b = x) := by
      intro c _ a b x hh; split at hh
      · exact Or.inl hh
      · exact Or.inr hh
    have fin : ∀ {t : TokenType} {n : Nat}, ((some t, n) : Option TokenType × Nat) = (some ty, extra) → plainTy t = true →
        plainTy ty = true := by
      intro t n hh ht; simp only [Prod.mk.injEq, Option.some.injEq] at hh; rw [← hh.1]; exact ht
    rcases key h with h' | h; · exact fin h' rfl
    rcases key h with h' | h; · exact fin h' rfl
    rcases key h with h' | h; · exact fin h' rfl
    rcases key h with h' | h; · exact fin h' rfl
    rcases key h with h' | h; · exact fin h' rfl
    rcases key h with h' | h; · exact fin h' rfl
    rcases key h with h' | h; · exact fin h' rfl
    rcases key h with h' | h
    · rcases key h' with h'' | h''
      · simp at h''
      · exact fin h'' rfl
    rcases key h with h' | h; · exact fin h' rfl
    rcases key h with h' | h
    · rcases key h' with h'' | h''
      · simp at h''
      · exact fin h'' rfl
    · simp at h

theorem modeOK_of_ne {m : Mode} (h : ∀ ty ch, m ≠ .expectSymbol ty ch) : modeOK m := by
  cases m <;> first | trivial | exact absurd rfl (h _ _)

theorem maybeEmitEmptyMacroStringInEval_chan (n : Option TokenType) {Q : Unit → Prop} (hQ : ∀ a, Q a) :
    ChanR cfg.macroSep (maybeEmitEmptyMacroStringInEval n) Q := by
  unfold maybeEmitEmptyMacroStringInEval; chan_unfold; chan_auto [hQ]

theorem updateParensNesting_chan (cfg : Cfg) (b : Bool) {Q : Unit → Prop} (hQ : ∀ a, Q a) :
    ChanR cfg.macroSep (updateParensNesting cfg b) Q := by
  unfold updateParensNesting; chan_unfold
  chan_auto [hQ]
  all_goals (first | (rename_i m hm x ty ch heq; cases m <;> simp_all) | skip)

theorem evalOperatorSel_chan (cfg : Cfg) (c : Char) (r : List Char) {Q : Option (TokenType × Nat) → Prop}
    (hQ : ∀ x, (∀ ty n, x = some (ty, n) → plainTy ty = true) → Q x) : ChanR cfg.macroSep (evalOperatorSel cfg c r) Q := by
  unfold evalOperatorSel; chan_unfold
  chan_auto [updateParensNesting_chan]
  all_goals (apply hQ; intro ty n hx; first
    | (simp only [Option.some.injEq, Prod.mk.injEq] at hx; obtain ⟨rfl, _⟩ := hx; first | rfl | exact isMacroEvalMnemonic_plain ‹_›)
    | (simp at hx))

theorem lexMacroEvalOperator_chan (cfg : Cfg) (c : Char) {Q : Bool → Prop} (hQ : ∀ a, Q a) :
    ChanR cfg.macroSep (lexMacroEvalOperator cfg c) Q := by
  unfold lexMacroEvalOperator; chan_unfold
  chan_auto [hQ, evalOperatorSel_chan, maybeEmitEmptyMacroStringInEval_chan]
  all_goals (first | exact tokOK_mono (‹∀ ty n, _ = some (ty, n) → plainTy ty = true› _ _ rfl) | skip)

theorem lexMacroStringInMacroEvalContextLoop_chan (flags : Nat) (t : Bool) :
    ∀ (f : Nat) (a b : Bool) {Q : Bool → Prop}, (∀ a, Q a) → ChanR cfg.macroSep (lexMacroStringInMacroEvalContextLoop flags t f a b) Q
  | 0, _, _, Q, hQ => by unfold lexMacroStringInMacroEvalContextLoop; chan_unfold; chan_auto [hQ]
  | f + 1, a, b, Q, hQ => by
    unfold lexMacroStringInMacroEvalContextLoop; chan_unfold
    chan_auto [hQ, lexMacroStringInMacroEvalContextLoop_chan flags t f]

theorem lexMacroStringInMacroEvalContext_chan (cfg : Cfg) (flags : Nat) (t : Bool) {Q : Unit → Prop} (hQ : ∀ a, Q a) :
    ChanR cfg.macroSep (lexMacroStringInMacroEvalContext cfg flags t) Q := by
  unfold lexMacroStringInMacroEvalContext; chan_unfold
  chan_auto [hQ, fuelOfRest_chan, lexMacroStringInMacroEvalContextLoop_chan]
  all_goals (first | exact tokOK_mono (tryParseHexInteger_plain ‹_›) | exact tokOK_mono (tryParseDecimal_plain ‹_›) | skip)

theorem dispatchModeMacroEval_chan (cfg : Cfg) (c : Char) (flags pnl : Nat) {Q : Unit → Prop} (hQ : ∀ a, Q a) :
    ChanR cfg.macroSep (dispatchModeMacroEval cfg c flags pnl) Q := by
  unfold dispatchModeMacroEval; chan_unfold
  chan_auto [hQ, lexSingleQuotedStr_chan, lexStringExpressionStart_chan, lexCStyleComment_chan, lexMacroVarExpr_chan,
    lexMacroCall_chan, maybeEmitEmptyMacroStringInEval_chan, lexMacroEvalOperator_chan, lexMacroStringInMacroEvalContext_chan]


theorem dispatchMacroNameExpr_chan (cfg : Cfg) (c : Char) (fn : Bool) (err : Option ErrorKind) {Q : Unit → Prop} (hQ : ∀ a, Q a) :
    ChanR cfg.macroSep (dispatchMacroNameExpr cfg c fn err) Q := by
  unfold dispatchMacroNameExpr; chan_unfold
  chan_auto [hQ, lexCStyleComment_chan, lexMacroVarExpr_chan, lexMacroCall_chan]
  all_goals (first | (rename_i heq; split at heq <;> simp at heq) | skip)

theorem lexMacroStringUnrestrictedLoop_chan : ∀ (f : Nat) {Q : Unit → Prop}, (∀ a, Q a) → ChanR cfg.macroSep (lexMacroStringUnrestrictedLoop f) Q
  | 0, Q, hQ => by unfold lexMacroStringUnrestrictedLoop; chan_unfold; chan_auto [hQ]
  | f + 1, Q, hQ => by
    unfold lexMacroStringUnrestrictedLoop; chan_unfold
    chan_auto [hQ, lexMacroStringUnrestrictedLoop_chan f]

theorem lexMacroStringUnrestricted_chan (cfg : Cfg) {Q : Unit → Prop} (hQ : ∀ a, Q a) : ChanR cfg.macroSep (lexMacroStringUnrestricted cfg) Q := by
  unfold lexMacroStringUnrestricted; chan_unfold
  chan_auto [hQ, fuelOfRest_chan, lexMacroStringUnrestrictedLoop_chan]

theorem dispatchMacroSemiTermTextExpr_chan (cfg : Cfg) (c : Char) {Q : Unit → Prop} (hQ : ∀ a, Q a) :
    ChanR cfg.macroSep (dispatchMacroSemiTermTextExpr cfg c) Q := by
  unfold dispatchMacroSemiTermTextExpr; chan_unfold
  chan_auto [hQ, lexSingleQuotedStr_chan, lexStringExpressionStart_chan, lexCStyleComment_chan, lexMacroVarExpr_chan,
    lexMacroCall_chan, lexMacroStringUnrestricted_chan]

theorem lexMacroStringStatOptsLoop_chan : ∀ (f : Nat) {Q : Unit → Prop}, (∀ a, Q a) → ChanR cfg.macroSep (lexMacroStringStatOptsLoop f) Q
  | 0, Q, hQ => by unfold lexMacroStringStatOptsLoop; chan_unfold; chan_auto [hQ]
  | f + 1, Q, hQ => by
    unfold lexMacroStringStatOptsLoop; chan_unfold
    chan_auto [hQ, lexMacroStringStatOptsLoop_chan f]

theorem lexMacroStringStatOpts_chan (cfg : Cfg) {Q : Unit → Prop} (hQ : ∀ a, Q a) : ChanR cfg.macroSep (lexMacroStringStatOpts cfg) Q := by
  unfold lexMacroStringStatOpts; chan_unfold
  chan_auto [hQ, fuelOfRest_chan, lexMacroStringStatOptsLoop_chan]

theorem dispatchMacroStatOptsTextExpr_chan (cfg : Cfg) (c : Char) {Q : Unit → Prop} (hQ : ∀ a, Q a) :
    ChanR cfg.macroSep (dispatchMacroStatOptsTextExpr cfg c) Q := by
  unfold dispatchMacroStatOptsTextExpr; chan_unfold
  chan_auto [hQ, lexSingleQuotedStr_chan, lexStringExpressionStart_chan, lexCStyleComment_chan, lexMacroVarExpr_chan,
    lexMacroCall_chan, lexMacroStringStatOpts_chan, lexWs_chan]


/-! ## `Lex/MacroArgs.lean` -/

theorem nextArgModeOf_ok (flags : Nat) : modeOK (nextArgModeOf flags) := by
  unfold nextArgModeOf; split <;> trivial

/-- close a `modifyTop` / `modifyAt` side condition: the function never produces an `ExpectSymbol` -/
macro "chan_modes" : tactic => `(tactic| all_goals (first
  | exact nextArgModeOf_ok _
  | (rename_i heq; have h0 := nextArgModeOf_ok ‹Nat›; simp only [heq, modeOK] at h0; exact h0)
  | (rename_i heq; split at heq <;> first | (simp at heq; done) | simp_all)
  | (rename_i m hm x ty ch heq; cases m <;> simp_all)
  | skip))

theorem populateNextArgStack_chan (flags : Nat) {Q : Unit → Prop} (hQ : ∀ a, Q a) : ChanR cfg.macroSep (populateNextArgStack flags) Q := by
  unfold populateNextArgStack; chan_unfold; chan_auto [hQ]
  chan_modes

theorem lexMaybeMacroCallArgsOrLabel_chan (cfg : Cfg) (c : Char) (b : Bool) {Q : Unit → Prop} (hQ : ∀ a, Q a) :
    ChanR cfg.macroSep (lexMaybeMacroCallArgsOrLabel cfg c b) Q := by
  unfold lexMaybeMacroCallArgsOrLabel; chan_unfold; chan_auto [hQ]

theorem lexMaybeMacroCallArgAssign_chan (cfg : Cfg) (c : Char) (flags : Nat) {Q : Unit → Prop} (hQ : ∀ a, Q a) :
    ChanR cfg.macroSep (lexMaybeMacroCallArgAssign cfg c flags) Q := by
  unfold lexMaybeMacroCallArgAssign; chan_unfold; chan_auto [hQ]

theorem lexMaybeTailMacroCallArgValue_chan (cfg : Cfg) (c : Char) {Q : Unit → Prop} (hQ : ∀ a, Q a) :
    ChanR cfg.macroSep (lexMaybeTailMacroCallArgValue cfg c) Q := by
  unfold lexMaybeTailMacroCallArgValue; chan_unfold; chan_auto [hQ]

theorem dispatchMacroCallArgOrValue_chan (cfg : Cfg) (c : Char) (flags : Nat) {Q : Unit → Prop} (hQ : ∀ a, Q a) :
    ChanR cfg.macroSep (dispatchMacroCallArgOrValue cfg c flags) Q := by
  unfold dispatchMacroCallArgOrValue pushCheckAssign switchToValueMode safePopMode; chan_unfold
  chan_auto [hQ, lexMacroVarExpr_chan, lexMacroComment_chan, lexMacroIdentifier_chan, populateNextArgStack_chan]

theorem emitTokenUpdateNestingArg_chan (pnl : Nat) (loc : Int) {Q : Unit → Prop} (hQ : ∀ a, Q a) :
    ChanR cfg.macroSep (emitTokenUpdateNestingArg pnl loc) Q := by
  unfold emitTokenUpdateNestingArg; chan_unfold; chan_auto [hQ]
  chan_modes

theorem lexMacroStringInMacroCallArgValueLoop_chan (flags pnl : Nat) :
    ∀ (f : Nat) (loc : Int) {Q : Unit → Prop}, (∀ a, Q a) → ChanR cfg.macroSep (lexMacroStringInMacroCallArgValueLoop flags pnl f loc) Q
  | 0, _, Q, hQ => by unfold lexMacroStringInMacroCallArgValueLoop; chan_unfold; chan_auto [hQ]
  | f + 1, loc, Q, hQ => by
    unfold lexMacroStringInMacroCallArgValueLoop; chan_unfold
    chan_auto [hQ, emitTokenUpdateNestingArg_chan, populateNextArgStack_chan, lexMacroStringInMacroCallArgValueLoop_chan flags pnl f]

theorem lexMacroStringInMacroCallArgValue_chan (cfg : Cfg) (flags pnl : Nat) {Q : Unit → Prop} (hQ : ∀ a, Q a) :
    ChanR cfg.macroSep (lexMacroStringInMacroCallArgValue cfg flags pnl) Q := by
  unfold lexMacroStringInMacroCallArgValue; chan_unfold
  chan_auto [hQ, fuelOfRest_chan, lexMacroStringInMacroCallArgValueLoop_chan]

theorem dispatchMacroCallArgValue_chan (cfg : Cfg) (c : Char) (flags pnl : Nat) {Q : Unit → Prop} (hQ : ∀ a, Q a) :
    ChanR cfg.macroSep (dispatchMacroCallArgValue cfg c flags pnl) Q := by
  unfold dispatchMacroCallArgValue; chan_unfold
  chan_auto [hQ, lexSingleQuotedStr_chan, lexStringExpressionStart_chan, lexCStyleComment_chan, lexMacroVarExpr_chan,
    lexMacroComment_chan, lexMacroIdentifier_chan, lexMacroStringInMacroCallArgValue_chan, populateNextArgStack_chan]

theorem lexMaybeMacroDefArgs_chan (cfg : Cfg) (c : Char) {Q : Unit → Prop} (hQ : ∀ a, Q a) :
    ChanR cfg.macroSep (lexMaybeMacroDefArgs cfg c) Q := by
  unfold lexMaybeMacroDefArgs; chan_unfold; chan_auto [hQ]

theorem lexMacroDefIdentifier_chan (cfg : Cfg) (c : Char) (b : Bool) {Q : Bool → Prop} (hQ : ∀ a, Q a) :
    ChanR cfg.macroSep (lexMacroDefIdentifier cfg c b) Q := by
  unfold lexMacroDefIdentifier; chan_unfold; chan_auto [hQ]

theorem dispatchMacroDefArg_chan (cfg : Cfg) (c : Char) {Q : Unit → Prop} (hQ : ∀ a, Q a) :
    ChanR cfg.macroSep (dispatchMacroDefArg cfg c) Q := by
  unfold dispatchMacroDefArg; chan_unfold; chan_auto [hQ, lexMacroDefIdentifier_chan]

theorem lexMacroDefNextArgOrDefaultValue_chan (cfg : Cfg) (c : Char) {Q : Unit → Prop} (hQ : ∀ a, Q a) :
    ChanR cfg.macroSep (lexMacroDefNextArgOrDefaultValue cfg c) Q := by
  unfold lexMacroDefNextArgOrDefaultValue; chan_unfold; chan_auto [hQ]

theorem emitTokenUpdateNestingStr_chan (pnl : Nat) (loc : Int) {Q : Unit → Prop} (hQ : ∀ a, Q a) :
    ChanR cfg.macroSep (emitTokenUpdateNestingStr pnl loc) Q := by
  unfold emitTokenUpdateNestingStr; chan_unfold; chan_auto [hQ]
  chan_modes

theorem lexMacroStringInStrCallLoop_chan (mm : Bool) (pnl : Nat) :
    ∀ (f : Nat) (loc : Int) {Q : Unit → Prop}, (∀ a, Q a) → ChanR cfg.macroSep (lexMacroStringInStrCallLoop mm pnl f loc) Q
  | 0, _, Q, hQ => by unfold lexMacroStringInStrCallLoop; chan_unfold; chan_auto [hQ]
  | f + 1, loc, Q, hQ => by
    unfold lexMacroStringInStrCallLoop; chan_unfold
    chan_auto [hQ, emitTokenUpdateNestingStr_chan, lexMacroStringInStrCallLoop_chan mm pnl f]

theorem lexMacroStringInStrCall_chan (cfg : Cfg) (mm : Bool) (pnl : Nat) {Q : Unit → Prop} (hQ : ∀ a, Q a) :
    ChanR cfg.macroSep (lexMacroStringInStrCall cfg mm pnl) Q := by
  unfold lexMacroStringInStrCall; chan_unfold
  chan_auto [hQ, fuelOfRest_chan, lexMacroStringInStrCallLoop_chan]

theorem dispatchMacroStrQuotedExpr_chan (cfg : Cfg) (c : Char) (mm : Bool) (pnl : Nat) {Q : Unit → Prop} (hQ : ∀ a, Q a) :
    ChanR cfg.macroSep (dispatchMacroStrQuotedExpr cfg c mm pnl) Q := by
  unfold dispatchMacroStrQuotedExpr; chan_unfold
  chan_auto [hQ, lexSingleQuotedStr_chan, lexStringExpressionStart_chan, lexCStyleComment_chan, lexMacroVarExpr_chan,
    lexMacroIdentifier_chan, lexMacroStringInStrCall_chan]

/-! ## `Lex/MacroModes.lean`, `Lex/Main.lean` -/

theorem dispatchMacroMode_chan (cfg : Cfg) (c : Char) (m : Mode) {Q : Unit → Prop} (hQ : ∀ a, Q a) :
    ChanR cfg.macroSep (dispatchMacroMode cfg c m) Q := by
  cases m <;> simp only [dispatchMacroMode]
  case macroEval f p => exact dispatchModeMacroEval_chan _ _ _ _ hQ
  case macroStrQuotedExpr mm p => exact dispatchMacroStrQuotedExpr_chan _ _ _ _ hQ
  case maybeMacroCallArgsOrLabel b => exact lexMaybeMacroCallArgsOrLabel_chan _ _ _ hQ
  case maybeMacroCallArgAssign f => exact lexMaybeMacroCallArgAssign_chan _ _ _ hQ
  case maybeTailMacroArgValue => exact lexMaybeTailMacroCallArgValue_chan _ _ hQ
  case macroCallArgOrValue f => exact dispatchMacroCallArgOrValue_chan _ _ _ hQ
  case macroCallValue f p => exact dispatchMacroCallArgValue_chan _ _ _ _ hQ
  case maybeMacroDefArgs => exact lexMaybeMacroDefArgs_chan _ _ hQ
  case macroDefArg => exact dispatchMacroDefArg_chan _ _ hQ
  case macroDefNextArgOrDefaultValue => exact lexMacroDefNextArgOrDefaultValue_chan _ _ hQ
  case macroDo => exact dispatchMacroDo_chan _ _ hQ
  case macroLocalGlobal l => exact dispatchMacroLocalGlobal_chan _ _ _ hQ
  case macroNameExpr f e => exact dispatchMacroNameExpr_chan _ _ _ _ hQ
  case macroSemiTerminatedTextExpr => exact dispatchMacroSemiTermTextExpr_chan _ _ hQ
  case macroStatOptionsTextExpr => exact dispatchMacroStatOptsTextExpr_chan _ _ hQ
  all_goals ((try chan_unfold); chan_auto [hQ, lexMacroDefIdentifier_chan])

theorem lexToken_chan (cfg : Cfg) (c : Char) {Q : Unit → Prop} (hQ : ∀ a, Q a) : ChanR cfg.macroSep (lexToken cfg c) Q := by
  unfold lexToken; chan_unfold
  chan_auto [hQ, lexCStyleComment_chan, lexWs_chan, dispatchModeDefault_chan, lexExpectedToken_chan, dispatchModeStrExpr_chan,
    dispatchMacroMode_chan]


theorem forRParen_chan (l : List Nat) : ∀ {Q : PUnit → Prop}, (∀ a, Q a) →
    ChanR cfg.macroSep (forIn l PUnit.unit fun (_ : Nat) (_ : PUnit) => do
      P.emitD .RPAREN
      pure (ForInStep.yield PUnit.unit)) Q := by
  induction l with
  | nil => intro Q hQ; simp only [List.forIn_nil]; chan_auto [hQ]
  | cons x l ih =>
    intro Q hQ
    simp only [List.forIn_cons]; chan_unfold
    chan_auto [hQ]
    simp only [P.emitD] at ih
    exact ih hQ

theorem finalizeMode_chan (cfg : Cfg) (m : Mode) (hm : modeOK m) {Q : Unit → Prop} (hQ : ∀ a, Q a) :
    ChanR cfg.macroSep (finalizeMode cfg m) Q := by
  unfold finalizeMode
  cases m <;> chan_unfold
  case expectSymbol ty ch => chan_auto [hQ, lexExpectedToken_chan, hm]
  case stringExpr a => chan_auto [hQ, handleUnterminatedStrExpr_chan]
  case macroStrQuotedExpr mm pnl =>
    chan_auto [hQ]
    rw [Std.Legacy.Range.forIn_eq_forIn_range']
    have := forRParen_chan (cfg := cfg) (List.range' 0 pnl) (Q := fun _ => Q ()) (fun _ => hQ ())
    simpa [P.emitD, Prog.perform] using this
  case macroCallValue mm pnl =>
    chan_auto [hQ]
    rw [Std.Legacy.Range.forIn_eq_forIn_range']
    have := forRParen_chan (cfg := cfg) (List.range' 0 pnl) (Q := fun _ => Q ()) (fun _ => hQ ())
    simpa [P.emitD, Prog.perform] using this
  case macroEval mm pnl =>
    chan_auto [hQ]
    rw [Std.Legacy.Range.forIn_eq_forIn_range']
    have := forRParen_chan (cfg := cfg) (List.range' 0 pnl) (Q := fun _ => Q ()) (fun _ => hQ ())
    simpa [P.emitD, Prog.perform] using this
  all_goals chan_auto [hQ]

theorem finalizeLoop_chan (cfg : Cfg) : ∀ (f : Nat) {Q : Unit → Prop}, (∀ a, Q a) → ChanR cfg.macroSep (finalizeLoop cfg f) Q
  | 0, Q, hQ => by unfold finalizeLoop; chan_unfold; chan_auto [hQ]
  | f + 1, Q, hQ => by
    unfold finalizeLoop
    chan_auto [hQ, finalizeLoop_chan cfg f, finalizeMode_chan]
    all_goals (first | (rename_i h; exact h _ rfl) | skip)

theorem finalizeLexing_chan (cfg : Cfg) {Q : Unit → Prop} (hQ : ∀ a, Q a) : ChanR cfg.macroSep (finalizeLexing cfg) Q := by
  unfold finalizeLexing
  chan_auto [hQ, finalizeLoop_chan]

theorem mainLoop_chan (cfg : Cfg) : ∀ (f n : Nat) (last : Nat × List Mode) {Q : LoopEnd × Nat → Prop}, (∀ a, Q a) →
    ChanR cfg.macroSep (mainLoop cfg f n last) Q
  | 0, n, last, Q, hQ => by unfold mainLoop; chan_unfold; chan_auto [hQ]
  | f + 1, n, last, Q, hQ => by
    unfold mainLoop; chan_unfold
    chan_auto [hQ, lexToken_chan, mainLoop_chan cfg f]

end SasLexer
