import SasLexer.Prog
/-!
# Debug assertions are pure observers (kernel part of C19a)

`eraseP L` forgets the ghost field `panicked`.  Every primitive step gives the same response
and the same state up to `panicked`, whatever `cfg.debug` is and whatever `panicked` was.
Hence a program run in the release configuration computes exactly what the debug run
computes, as long as the debug run does not stop at an assertion.
-/
namespace SasLexer
open Lexer

def eraseP (L : Lexer) : Lexer := { L with panicked := none }

@[simp] theorem eraseP_src (L : Lexer) : (eraseP L).src = L.src := rfl
@[simp] theorem eraseP_srcLen (L : Lexer) : (eraseP L).srcLen = L.srcLen := rfl
@[simp] theorem eraseP_linesR (L : Lexer) : (eraseP L).linesR = L.linesR := rfl
@[simp] theorem eraseP_toksR (L : Lexer) : (eraseP L).toksR = L.toksR := rfl
@[simp] theorem eraseP_litsR (L : Lexer) : (eraseP L).litsR = L.litsR := rfl
@[simp] theorem eraseP_cur (L : Lexer) : (eraseP L).cur = L.cur := rfl
@[simp] theorem eraseP_tok (L : Lexer) : (eraseP L).tok = L.tok := rfl
@[simp] theorem eraseP_modesR (L : Lexer) : (eraseP L).modesR = L.modesR := rfl
@[simp] theorem eraseP_errsR (L : Lexer) : (eraseP L).errsR = L.errsR := rfl
@[simp] theorem eraseP_cp (L : Lexer) : (eraseP L).cp = L.cp := rfl
@[simp] theorem eraseP_nesting (L : Lexer) : (eraseP L).nesting = L.nesting := rfl
@[simp] theorem eraseP_pendingR (L : Lexer) : (eraseP L).pendingR = L.pendingR := rfl
@[simp] theorem eraseP_mark (L : Lexer) : (eraseP L).mark = L.mark := rfl
@[simp] theorem eraseP_lit (L : Lexer) : (eraseP L).lit = L.lit := rfl
@[simp] theorem eraseP_payReg (L : Lexer) : (eraseP L).payReg = L.payReg := rfl
@[simp] theorem eraseP_errReg (L : Lexer) : (eraseP L).errReg = L.errReg := rfl
@[simp] theorem eraseP_curByte (L : Lexer) : (eraseP L).curByte = L.curByte := rfl
@[simp] theorem eraseP_curChar (L : Lexer) : (eraseP L).curChar = L.curChar := rfl
@[simp] theorem eraseP_litsLen (L : Lexer) : (eraseP L).litsLen = L.litsLen := rfl
@[simp] theorem eraseP_idem (L : Lexer) : eraseP (eraseP L) = eraseP L := rfl

variable (c1 c2 : Cfg) (L : Lexer)

theorem pendingTextFrom_profile (a b k) :
    (L.pendingTextFrom a b k).1 = ((eraseP L).pendingTextFrom a b k).1 ∧
    eraseP (L.pendingTextFrom a b k).2 = eraseP ((eraseP L).pendingTextFrom a b k).2 := by
  unfold Lexer.pendingTextFrom; simp only [eraseP_src]; split <;> exact ⟨rfl, rfl⟩

theorem lastLineOrAdd_profile :
    (L.lastLineOrAdd c1).1 = ((eraseP L).lastLineOrAdd c2).1 ∧
    eraseP (L.lastLineOrAdd c1).2 = eraseP ((eraseP L).lastLineOrAdd c2).2 := by
  unfold Lexer.lastLineOrAdd; simp only [eraseP_linesR]; split <;> exact ⟨rfl, rfl⟩

theorem startToken_profile : eraseP (L.startToken c1) = eraseP ((eraseP L).startToken c2) := by
  unfold Lexer.startToken Lexer.lastLineOrAdd; simp only [eraseP_linesR]; split <;> rfl

theorem markIfNone_profile : eraseP (L.markIfNone c1) = eraseP ((eraseP L).markIfNone c2) := by
  unfold Lexer.markIfNone Lexer.lastLineOrAdd; simp only [eraseP_linesR, eraseP_mark]
  split
  · rfl
  · split <;> rfl

theorem emitTokenAtMark_profile (ch ty p) :
    eraseP (L.emitTokenAtMark c1 ch ty p) = eraseP ((eraseP L).emitTokenAtMark c2 ch ty p) := by
  unfold Lexer.emitTokenAtMark; simp only [eraseP_mark]; split <;> rfl

theorem updateLastToken_profile (ch ty p) :
    eraseP (L.updateLastToken c1 ch ty p) = eraseP ((eraseP L).updateLastToken c2 ch ty p) := by
  unfold Lexer.updateLastToken; simp only [eraseP_toksR]; split <;> rfl

theorem popMode_profile : eraseP L.popMode = eraseP (eraseP L).popMode := by
  unfold Lexer.popMode; simp only [eraseP_modesR]; split <;> rfl

theorem mode_profile : L.mode.1 = (eraseP L).mode.1 ∧ eraseP L.mode.2 = eraseP (eraseP L).mode.2 := by
  unfold Lexer.mode; simp only [eraseP_modesR]; split <;> exact ⟨rfl, rfl⟩

theorem rollback_profile : eraseP L.rollback = eraseP (eraseP L).rollback := by
  unfold Lexer.rollback; simp only [eraseP_cp]; split <;> rfl

theorem popPendingStat_profile : eraseP L.popPendingStat = eraseP (eraseP L).popPendingStat := by
  unfold Lexer.popPendingStat; simp only [eraseP_pendingR]; split <;> rfl

theorem pendingStat_profile :
    L.pendingStat.1 = (eraseP L).pendingStat.1 ∧ eraseP L.pendingStat.2 = eraseP (eraseP L).pendingStat.2 := by
  unfold Lexer.pendingStat; simp only [eraseP_pendingR]; split <;> exact ⟨rfl, rfl⟩

theorem setPendingStat_profile (v) : eraseP (L.setPendingStat v) = eraseP ((eraseP L).setPendingStat v) := by
  unfold Lexer.setPendingStat; simp only [eraseP_pendingR]; split <;> rfl

theorem addStringLiteralFromSrc_profile (a b) :
    (L.addStringLiteralFromSrc c1 a b).1 = ((eraseP L).addStringLiteralFromSrc c2 a b).1 ∧
    eraseP (L.addStringLiteralFromSrc c1 a b).2 = eraseP ((eraseP L).addStringLiteralFromSrc c2 a b).2 := by
  unfold Lexer.addStringLiteralFromSrc
  dsimp only [eraseP, Lexer.dassert, Lexer.curByte]
  split <;> exact ⟨rfl, rfl⟩

/-- the kernel fact behind C19a: a primitive step does not depend on `cfg.debug`, `cfg.nightly`
or on whether an assertion has fired before, except in the ghost field `panicked` -/
theorem step_profile (hf : c1.macroSep = c2.macroSep) (o : Op) :
    (step c1 o L).1 = (step c2 o (eraseP L)).1 ∧ eraseP (step c1 o L).2 = eraseP (step c2 o (eraseP L)).2 := by
  cases o
  case pendingText => exact pendingTextFrom_profile L _ _ _
  case pendingTextToMark =>
    simp only [step]
    exact pendingTextFrom_profile L _ _ _
  case pendingTextWithPrev => exact pendingTextFrom_profile L _ _ _
  case startToken => exact ⟨rfl, startToken_profile c1 c2 L⟩
  case markIfNone => exact ⟨rfl, markIfNone_profile c1 c2 L⟩
  case emitTokenAtMark ch ty p => exact ⟨rfl, emitTokenAtMark_profile c1 c2 L ch ty _⟩
  case updateLastToken ch ty p => exact ⟨rfl, updateLastToken_profile c1 c2 L ch ty _⟩
  case retypeLastDefault e n =>
    simp only [step, eraseP_toksR]
    split <;> first | exact ⟨rfl, rfl⟩ | exact ⟨trivial, rfl⟩
  case insertSepBeforeLastDefault =>
    simp only [step, eraseP_toksR, hf]
    split
    · split <;> first | exact ⟨rfl, rfl⟩ | exact ⟨trivial, rfl⟩
    · first | exact ⟨rfl, rfl⟩ | exact ⟨trivial, rfl⟩
  case emitPrepared =>
    simp only [step, eraseP_errReg]
    split <;> first | exact ⟨rfl, rfl⟩ | exact ⟨trivial, rfl⟩
  case popMode => exact ⟨rfl, popMode_profile L⟩
  case mode => exact mode_profile L
  case popModeRaw =>
    simp only [step, eraseP_modesR]
    split <;> first | exact ⟨rfl, rfl⟩ | exact ⟨trivial, rfl⟩
  case modifyTop f =>
    simp only [step, eraseP_modesR]
    split <;> first | exact ⟨rfl, rfl⟩ | exact ⟨trivial, rfl⟩
  case modifyAt i f =>
    simp only [step, eraseP_modesR]
    split <;> first | exact ⟨rfl, rfl⟩ | exact ⟨trivial, rfl⟩
  case insertModeAt i m =>
    simp only [step, eraseP_modesR]
    split <;> first | exact ⟨rfl, rfl⟩ | exact ⟨trivial, rfl⟩
  case rollback => exact ⟨rfl, rollback_profile L⟩
  case popPending => exact ⟨rfl, popPendingStat_profile L⟩
  case pendingStat => exact pendingStat_profile L
  case setPending b => exact ⟨rfl, setPendingStat_profile L b⟩
  case litCut =>
    simp only [step]
    have h := addStringLiteralFromSrc_profile c1 c2 L L.lit.lastEnd none
    refine ⟨by first | rfl | trivial, ?_⟩
    obtain ⟨h1, h2⟩ := h
    simp only [eraseP_lit]
    generalize L.addStringLiteralFromSrc c1 L.lit.lastEnd none = r1 at h1 h2 ⊢
    generalize (eraseP L).addStringLiteralFromSrc c2 L.lit.lastEnd none = r2 at h1 h2 ⊢
    obtain ⟨⟨a1, b1⟩, L1⟩ := r1
    obtain ⟨⟨a2, b2⟩, L2⟩ := r2
    simp only [Prod.mk.injEq] at h1
    obtain ⟨ha, hb⟩ := h1
    subst ha hb
    dsimp only at h2 ⊢
    unfold eraseP at h2 ⊢
    simp only [Lexer.mk.injEq] at h2 ⊢
    simp [h2]
  case litResolve back =>
    simp only [step]
    have e1 : (L.dassert c1 (L.lit.seen || L.lit.start == L.lit.stop)
        "assertion failed: seen_escape || lit_start_idx == cur_lit_end_idx").lit = L.lit := rfl
    have e2 : ((eraseP L).dassert c2 ((eraseP L).lit.seen || (eraseP L).lit.start == (eraseP L).lit.stop)
        "assertion failed: seen_escape || lit_start_idx == cur_lit_end_idx").lit = L.lit := rfl
    simp only [e1, e2]
    by_cases hc : (!L.lit.seen) = true
    · simp only [hc, if_true]
      exact ⟨trivial, rfl⟩
    · simp only [hc]
      generalize hX1 : L.dassert c1 (L.lit.seen || L.lit.start == L.lit.stop)
        "assertion failed: seen_escape || lit_start_idx == cur_lit_end_idx" = X1
      generalize hX2 : (eraseP L).dassert c2 ((eraseP L).lit.seen || (eraseP L).lit.start == (eraseP L).lit.stop)
        "assertion failed: seen_escape || lit_start_idx == cur_lit_end_idx" = X2
      have hX : eraseP X1 = eraseP X2 := by rw [← hX1, ← hX2]; rfl
      have hcb : X1.curByte = X2.curByte := by rw [← hX1, ← hX2]; rfl
      have hl : X1.lit = X2.lit := by rw [← hX1, ← hX2]; rfl
      have hlL : X1.lit = L.lit := by rw [← hX1]; rfl
      have a1 := addStringLiteralFromSrc_profile c1 c2 X1 L.lit.lastEnd (some (X1.curByte - back))
      have a2 := addStringLiteralFromSrc_profile c2 c2 X2 L.lit.lastEnd (some (X1.curByte - back))
      rw [hX] at a1
      have h1 : (X1.addStringLiteralFromSrc c1 L.lit.lastEnd (some (X1.curByte - back))).1
              = (X2.addStringLiteralFromSrc c2 L.lit.lastEnd (some (X1.curByte - back))).1 := a1.1.trans a2.1.symm
      have h2 : eraseP (X1.addStringLiteralFromSrc c1 L.lit.lastEnd (some (X1.curByte - back))).2
              = eraseP (X2.addStringLiteralFromSrc c2 L.lit.lastEnd (some (X1.curByte - back))).2 := a1.2.trans a2.2.symm
      refine ⟨trivial, ?_⟩
      rw [← hcb]
      generalize X1.addStringLiteralFromSrc c1 L.lit.lastEnd (some (X1.curByte - back)) = r1 at h1 h2 ⊢
      generalize X2.addStringLiteralFromSrc c2 L.lit.lastEnd (some (X1.curByte - back)) = r2 at h1 h2 ⊢
      obtain ⟨⟨a1', b1⟩, L1⟩ := r1
      obtain ⟨⟨a2', b2⟩, L2⟩ := r2
      simp only [Prod.mk.injEq] at h1
      obtain ⟨ha, hb⟩ := h1
      subst ha hb
      dsimp only at h2 ⊢
      unfold eraseP at h2 ⊢
      simp only [Lexer.mk.injEq] at h2 ⊢
      simp [h2]
  case emitEofAtCursor =>
    simp only [step]
    refine ⟨by first | rfl | trivial, ?_⟩
    unfold Lexer.lastLineOrAdd
    simp only [eraseP_linesR]
    split <;> rfl
  all_goals exact ⟨rfl, rfl⟩

/-- the only panics that do not come from debug assertions -/
def hardPanic : Op → Lexer → Bool
  | .panic _, _ => true
  | .insertModeAt i _, L => !(decide (i ≤ L.modesR.length))
  | _, _ => false

@[simp] theorem chk_false (p : Option String) (c : Bool) (m : String) : Lexer.chk false p c m = p := by
  unfold Lexer.chk; cases p <;> simp

theorem tokChecks_release {c : Cfg} (hd : c.debug = false) (L : Lexer) (t : TokInfo) :
    Lexer.tokChecks c L t = L.panicked := by
  unfold Lexer.tokChecks; simp only [hd, chk_false]; split <;> rfl

set_option maxRecDepth 4000 in
/-- in a release configuration a primitive step panics only for the two unconditional reasons -/
theorem step_release_panicked {c : Cfg} (hd : c.debug = false) (o : Op) (L : Lexer) (hL : L.panicked = none) :
    (step c o L).2.panicked = none ∨ hardPanic o L = true := by
  cases o <;>
    simp only [step, hardPanic, Lexer.pendingText, Lexer.pendingTextFrom, Lexer.dassert, Lexer.panic, Lexer.addLine,
      Lexer.bufAddLine, Lexer.startToken, Lexer.lastLineOrAdd, Lexer.markIfNone, Lexer.clearMark, Lexer.emitToken,
      Lexer.bufAddToken, Lexer.emitTokenAtMark, Lexer.updateLastToken, Lexer.emitError, Lexer.emitErrorInfo,
      Lexer.pushMode, Lexer.popMode, Lexer.mode, Lexer.checkpoint, Lexer.clearCheckpoint, Lexer.rollback,
      Lexer.pushPendingStat, Lexer.popPendingStat, Lexer.pendingStat, Lexer.setPendingStat,
      Lexer.addStringLiteralFromSrc, Lexer.addStringLiteral, tokChecks_release hd, hd, chk_false, hL] <;>
    (repeat' split) <;> (try simp_all) <;>
    (rename_i h; right; unfold Lexer.insertNthFromBottom at h; split at h <;> simp_all <;> omega)

/-- a step that did not panic (in any configuration) was not one of the unconditional panics -/
theorem step_ok_not_hard (c : Cfg) (o : Op) (L : Lexer) (h : (step c o L).2.panicked = none) :
    hardPanic o L = false := by
  cases o <;> simp only [hardPanic] <;> simp only [step] at h
  case panic m => simp [Lexer.panic, Lexer.chk] at h; cases hp : L.panicked <;> simp [hp] at h
  case insertModeAt i m =>
    unfold Lexer.insertNthFromBottom at h
    split at h
    · simp_all
    · simp [Lexer.panic, Lexer.chk] at h; cases hp : L.panicked <;> simp [hp] at h

theorem hardPanic_eraseP (o : Op) (L : Lexer) : hardPanic o (eraseP L) = hardPanic o L := by
  cases o <;> rfl

/-- **Kernel theorem (C19a).**  For every program: if the run in configuration `c1` (e.g. the
debug build) does not stop at an assertion, then the run in a release configuration `c2` with the
same `macro_sep` feature returns the same result and the same state up to the ghost field, and
does not panic either. -/
theorem run_profile (hf : c1.macroSep = c2.macroSep) (hrel : c2.debug = false) {α} (p : Prog α) :
    ∀ (L1 L2 : Lexer), eraseP L1 = eraseP L2 → L2.panicked = none →
      (Prog.run c1 p L1).2.panicked = none →
      (Prog.run c1 p L1).1 = (Prog.run c2 p L2).1 ∧
      eraseP (Prog.run c1 p L1).2 = eraseP (Prog.run c2 p L2).2 ∧
      (Prog.run c2 p L2).2.panicked = none := by
  induction p with
  | ret a => intro L1 L2 h h2 _; exact ⟨rfl, h, h2⟩
  | op o k ih =>
    intro L1 L2 h h2 hn
    have s1 := step_profile c1 c2 L1 hf o
    have s2 := step_profile c2 c2 L2 rfl o
    rw [h] at s1
    have hresp : (step c1 o L1).1 = (step c2 o L2).1 := s1.1.trans s2.1.symm
    have hst : eraseP (step c1 o L1).2 = eraseP (step c2 o L2).2 := s1.2.trans s2.2.symm
    unfold Prog.run at hn ⊢
    cases hp1 : (step c1 o L1).2.panicked with
    | some m => simp only [hp1] at hn; exact absurd hn (by simp [hp1])
    | none =>
      simp only [hp1] at hn ⊢
      have hh1 := step_ok_not_hard c1 o L1 hp1
      have hh2 : hardPanic o L2 = false := by
        have e1 := hardPanic_eraseP o L1
        have e2 := hardPanic_eraseP o L2
        rw [h] at e1
        rw [← e2, e1]; exact hh1
      have hp2 : (step c2 o L2).2.panicked = none := by
        rcases step_release_panicked hrel o L2 h2 with h' | h'
        · exact h'
        · rw [hh2] at h'; exact absurd h' (by decide)
      simp only [hp2]
      have := ih (step c1 o L1).1 (step c1 o L1).2 (step c2 o L2).2 hst hp2 hn
      rw [hresp] at this ⊢
      exact this

end SasLexer
