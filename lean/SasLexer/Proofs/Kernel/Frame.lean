import SasLexer.Prog
/-! # Frame lemmas: `panic` / `dassert` change nothing but the ghost field `panicked` -/
namespace SasLexer.Lexer
variable (L : Lexer) (cfg : Cfg) (c : Bool) (m : String)
@[simp] theorem panic_src : (L.panic m).src = L.src := rfl
@[simp] theorem panic_srcLen : (L.panic m).srcLen = L.srcLen := rfl
@[simp] theorem panic_linesR : (L.panic m).linesR = L.linesR := rfl
@[simp] theorem panic_toksR : (L.panic m).toksR = L.toksR := rfl
@[simp] theorem panic_litsR : (L.panic m).litsR = L.litsR := rfl
@[simp] theorem panic_cur : (L.panic m).cur = L.cur := rfl
@[simp] theorem panic_tok : (L.panic m).tok = L.tok := rfl
@[simp] theorem panic_modesR : (L.panic m).modesR = L.modesR := rfl
@[simp] theorem panic_errsR : (L.panic m).errsR = L.errsR := rfl
@[simp] theorem panic_cp : (L.panic m).cp = L.cp := rfl
@[simp] theorem panic_nesting : (L.panic m).nesting = L.nesting := rfl
@[simp] theorem panic_pendingR : (L.panic m).pendingR = L.pendingR := rfl
@[simp] theorem panic_mark : (L.panic m).mark = L.mark := rfl
@[simp] theorem panic_lit : (L.panic m).lit = L.lit := rfl
@[simp] theorem panic_payReg : (L.panic m).payReg = L.payReg := rfl
@[simp] theorem panic_errReg : (L.panic m).errReg = L.errReg := rfl
@[simp] theorem dassert_src : (L.dassert cfg c m).src = L.src := rfl
@[simp] theorem dassert_srcLen : (L.dassert cfg c m).srcLen = L.srcLen := rfl
@[simp] theorem dassert_linesR : (L.dassert cfg c m).linesR = L.linesR := rfl
@[simp] theorem dassert_toksR : (L.dassert cfg c m).toksR = L.toksR := rfl
@[simp] theorem dassert_litsR : (L.dassert cfg c m).litsR = L.litsR := rfl
@[simp] theorem dassert_cur : (L.dassert cfg c m).cur = L.cur := rfl
@[simp] theorem dassert_tok : (L.dassert cfg c m).tok = L.tok := rfl
@[simp] theorem dassert_modesR : (L.dassert cfg c m).modesR = L.modesR := rfl
@[simp] theorem dassert_errsR : (L.dassert cfg c m).errsR = L.errsR := rfl
@[simp] theorem dassert_cp : (L.dassert cfg c m).cp = L.cp := rfl
@[simp] theorem dassert_nesting : (L.dassert cfg c m).nesting = L.nesting := rfl
@[simp] theorem dassert_pendingR : (L.dassert cfg c m).pendingR = L.pendingR := rfl
@[simp] theorem dassert_mark : (L.dassert cfg c m).mark = L.mark := rfl
@[simp] theorem dassert_lit : (L.dassert cfg c m).lit = L.lit := rfl
@[simp] theorem dassert_payReg : (L.dassert cfg c m).payReg = L.payReg := rfl
@[simp] theorem dassert_errReg : (L.dassert cfg c m).errReg = L.errReg := rfl
end SasLexer.Lexer
