import SasLexer.Proofs.Kernel.Src
/-!
# Kernel invariant `KMono`: token byte offsets never decrease (debug builds, unless an
assertion fired), and stay within the source

In a debug build `add_token` asserts `byte_offset >= last.byte_offset`; the model records a
failed assertion in `panicked`.  `KMono L` says: if nothing has panicked, the (newest-first)
token list is sorted.  It holds for **every** program in the debug configuration.  For the
release configuration it follows for the same program from `run_debug_release` (C19) when the
debug run does not panic.
-/
namespace SasLexer
open Lexer

/-- newest-first list is non-increasing in `byte` -/
def SortedR (ts : List TokInfo) : Prop := ts.Pairwise (fun a b => b.byte ≤ a.byte)

theorem SortedR.cons {t : TokInfo} {ts : List TokInfo} (h : SortedR ts)
    (ht : ∀ l, ts.head? = some l → l.byte ≤ t.byte) : SortedR (t :: ts) := by
  unfold SortedR at *
  rw [List.pairwise_cons]
  refine ⟨?_, h⟩
  intro x hx
  cases ts with
  | nil => simp at hx
  | cons l r =>
    have hl := ht l rfl
    rw [List.pairwise_cons] at h
    simp only [List.mem_cons] at hx
    rcases hx with rfl | hx
    · exact hl
    · exact Nat.le_trans (h.1 x hx) hl

theorem SortedR.truncR {ts : List TokInfo} (h : SortedR ts) (n : Nat) : SortedR (Lexer.truncR ts n) :=
  List.Pairwise.sublist (List.drop_sublist _ _) h

structure KMono (L : Lexer) : Prop where
  sorted : L.panicked = none → SortedR L.toksR

theorem chk_none {d : Bool} {p : Option String} {c : Bool} {m : String}
    (h : Lexer.chk d p c m = none) : p = none ∧ (d = true → c = true) := by
  unfold Lexer.chk at h
  cases p with
  | some x => simp at h
  | none =>
    refine ⟨rfl, ?_⟩
    intro hd
    cases c with
    | true => rfl
    | false => simp [hd] at h

theorem chk_none_left {d : Bool} {p : Option String} {c : Bool} {m : String}
    (h : Lexer.chk d p c m = none) : p = none := (chk_none h).1

namespace KMono
variable {L : Lexer} {cfg : Cfg}

theorem ofToks {L' : Lexer} (h : KMono L) (hp : L'.panicked = none → L.panicked = none)
    (ht : L'.toksR = L.toksR) : KMono L' := ⟨fun hn => ht ▸ h.sorted (hp hn)⟩

theorem tokChecks_none (hd : cfg.debug = true) {t : TokInfo} (h : tokChecks cfg L t = none) :
    L.panicked = none ∧ ∀ l, L.toksR.head? = some l → l.byte ≤ t.byte := by
  unfold tokChecks at h
  dsimp only at h
  -- peel the last check
  have h3 : Lexer.chk cfg.debug (Lexer.chk cfg.debug (Lexer.chk cfg.debug L.panicked (decide (t.start ≤ L.srcLen))
      "Token char offset out of bounds")
      (match L.toksR with | last :: _ => decide (t.byte ≥ last.byte) | [] => true)
      "Token byte offset before previous token byte offset") (decide (t.line ≤ L.linesR.length))
      "Line index out of bounds" = none := by
    split at h <;> exact chk_none_left h
  have h2 := chk_none_left h3
  have h2' := chk_none h2
  have h1 := chk_none_left h2
  have h0 := chk_none_left h1
  refine ⟨h0, ?_⟩
  intro l hl
  have := h2'.2 hd
  cases hts : L.toksR with
  | nil => simp [hts] at hl
  | cons a r =>
    simp only [hts, List.head?_cons, Option.some.injEq] at hl
    subst hl
    simpa [hts] using this

theorem bufAddToken (hd : cfg.debug = true) (h : KMono L) (t : TokInfo) : KMono (L.bufAddToken cfg t) := by
  constructor
  intro hn
  have := tokChecks_none hd (t := t) hn
  exact (h.sorted this.1).cons this.2

end KMono

/-- the primitives that never touch the token list nor clear `panicked` -/
theorem chk_some_mono {d : Bool} {p : Option String} {c : Bool} {m : String} :
    Lexer.chk d p c m = none → p = none := chk_none_left

end SasLexer

namespace SasLexer
open Lexer

namespace KMono
variable {L : Lexer} {cfg : Cfg}

theorem panic (h : KMono L) (m : String) : KMono (L.panic m) :=
  h.ofToks (fun hn => chk_none_left hn) rfl

theorem dassert (h : KMono L) (c : Bool) (m : String) : KMono (L.dassert cfg c m) :=
  h.ofToks (fun hn => chk_none_left hn) rfl

theorem bufAddLine (h : KMono L) (a b : Nat) : KMono (L.bufAddLine cfg a b).2 :=
  h.ofToks (fun hn => chk_none_left hn) rfl

theorem lastLineOrAdd (h : KMono L) : KMono (L.lastLineOrAdd cfg).2 := by
  unfold Lexer.lastLineOrAdd; split
  · exact h.bufAddLine _ _
  · exact h

theorem startToken (h : KMono L) : KMono (L.startToken cfg) := by
  unfold Lexer.startToken
  exact (h.lastLineOrAdd (cfg := cfg)).ofToks id rfl

theorem markIfNone (h : KMono L) : KMono (L.markIfNone cfg) := by
  unfold Lexer.markIfNone; split
  · exact h
  · exact (h.lastLineOrAdd (cfg := cfg)).ofToks id rfl

theorem emitErrorInfo (h : KMono L) (e : ErrInfo) : KMono (L.emitErrorInfo e) := h.ofToks id rfl
theorem emitError (h : KMono L) (k : ErrorKind) : KMono (L.emitError k) := h.ofToks id rfl
theorem pushMode (h : KMono L) (m : Mode) : KMono (L.pushMode m) := h.ofToks id rfl

theorem popMode (h : KMono L) : KMono L.popMode := by
  unfold Lexer.popMode; split
  · exact h.ofToks id rfl
  · exact (h.emitError _).pushMode _

theorem mode (h : KMono L) : KMono L.mode.2 := by
  unfold Lexer.mode; split
  · exact h
  · exact (h.emitError _).pushMode _

theorem emitTokenAtMark (hd : cfg.debug = true) (h : KMono L) (ch ty p) :
    KMono (L.emitTokenAtMark cfg ch ty p) := by
  unfold Lexer.emitTokenAtMark; split
  · exact h.bufAddToken hd _
  · exact h

theorem updateLastToken (hd : cfg.debug = true) (h : KMono L) (ch ty p) :
    KMono (L.updateLastToken cfg ch ty p) := by
  unfold Lexer.updateLastToken; split
  · rename_i t ts hts
    constructor
    intro hn
    have hs := h.sorted hn
    rw [hts] at hs
    unfold SortedR at *
    rw [List.pairwise_cons] at hs ⊢
    exact ⟨hs.1, hs.2⟩
  · exact (h.emitError _).bufAddToken hd _

theorem rollback (h : KMono L) : KMono L.rollback := by
  unfold Lexer.rollback; split
  · constructor
    intro hn
    exact (h.sorted hn).truncR _
  · exact h.emitError _

theorem popPendingStat (h : KMono L) : KMono L.popPendingStat := by
  unfold Lexer.popPendingStat; split <;> first | exact h.ofToks id rfl | exact h
theorem pendingStat (h : KMono L) : KMono L.pendingStat.2 := by
  unfold Lexer.pendingStat; split
  · exact (h.emitError .InternalErrorEmptyPendingStatStack).ofToks id rfl
  · exact h
theorem setPendingStat (h : KMono L) (v : Bool) : KMono (L.setPendingStat v) := by
  unfold Lexer.setPendingStat; split
  · exact (h.emitError .InternalErrorEmptyPendingStatStack).ofToks id rfl
  · exact h.ofToks id rfl

theorem addStringLiteralFromSrc (h : KMono L) (a : Nat) (b : Option Nat) :
    KMono (L.addStringLiteralFromSrc cfg a b).2 := by
  unfold Lexer.addStringLiteralFromSrc
  dsimp only
  split
  · exact (h.dassert _ _).ofToks id rfl
  · exact ((h.dassert _ _).emitError _).ofToks id rfl

theorem pendingTextFrom (h : KMono L) (a b : Nat) (k : ErrorKind) : KMono (L.pendingTextFrom a b k).2 := by
  unfold Lexer.pendingTextFrom; split
  · exact h
  · exact h.emitError _

end KMono

theorem retype_sorted {e n : TokenType} : ∀ {ts ts' : List TokInfo},
    retypeLastDefaultAux e n ts = some ts' → ts'.map (·.byte) = ts.map (·.byte)
  | [], ts', h => by simp [retypeLastDefaultAux] at h
  | t :: ts, ts', h => by
    unfold retypeLastDefaultAux at h
    split at h
    · split at h
      · simp only [Option.some.injEq] at h; subst h; rfl
      · simp at h
    · cases hr : retypeLastDefaultAux e n ts with
      | none => simp [hr] at h
      | some r =>
        simp only [hr, Option.map_some, Option.some.injEq] at h; subst h
        simp [retype_sorted hr]

theorem SortedR.of_bytes {a b : List TokInfo} (h : a.map (·.byte) = b.map (·.byte)) (hb : SortedR b) :
    SortedR a := by
  unfold SortedR at *
  have hb' : (b.map (·.byte)).Pairwise (fun x y => y ≤ x) := by
    rw [List.pairwise_map]; exact hb
  rw [← h, List.pairwise_map] at hb'
  exact hb'

theorem insertSep_sorted : ∀ {ts ts' : List TokInfo}, insertSepAux ts = some ts' → SortedR ts → SortedR ts'
  | [], ts', h, _ => by simp [insertSepAux] at h
  | t :: ts, ts', h, hs => by
    unfold insertSepAux at h
    split at h
    · simp only [Option.some.injEq] at h; subst h
      unfold SortedR at *
      rw [List.pairwise_cons] at hs
      rw [List.pairwise_cons, List.pairwise_cons]
      refine ⟨?_, ?_, hs.2⟩
      · intro x hx
        simp only [List.mem_cons] at hx
        rcases hx with rfl | hx
        · exact Nat.le_refl _
        · exact hs.1 x hx
      · intro x hx; exact hs.1 x hx
    · cases hr : insertSepAux ts with
      | none => simp [hr] at h
      | some r =>
        simp only [hr, Option.map_some, Option.some.injEq] at h; subst h
        unfold SortedR at *
        rw [List.pairwise_cons] at hs ⊢
        refine ⟨?_, insertSep_sorted hr hs.2⟩
        intro x hx
        -- every element of `r` has the byte of some element of `ts`
        obtain ⟨t0, h0, hb, _⟩ := insertSep_pos hr x hx
        rw [hb]; exact hs.1 t0 h0

/-- every primitive preserves `KMono` in the debug configuration -/
theorem step_KMono (cfg : Cfg) (hd : cfg.debug = true) (o : Op) (L : Lexer) (h : KMono L) :
    KMono (step cfg o L).2 := by
  cases o <;> simp only [step]
  case rest | lastTok | lastDefaultTok | secondLastDefaultTok | hasCheckpoint | nesting | modeDepth | hasMark
     | litIsEmpty | loopProbe => exact h
  case pendingText => exact h.pendingTextFrom _ _ _
  case pendingTextToMark => exact h.pendingTextFrom _ _ _
  case pendingTextWithPrev => exact h.pendingTextFrom _ _ _
  case advance => exact h.ofToks id rfl
  case advanceBy n => exact (h.dassert (cfg := cfg) _ _).ofToks id rfl
  case eatWhile p => exact h.ofToks id rfl
  case addLine => exact h.bufAddLine _ _
  case startToken => exact h.startToken
  case markIfNone => exact h.markIfNone
  case clearMark => exact h.ofToks id rfl
  case emitToken => exact h.bufAddToken hd _
  case emitTokenAtMark => exact h.emitTokenAtMark hd _ _ _
  case updateLastToken => exact h.updateLastToken hd _ _ _
  case retypeLastDefault e n =>
    split
    · rename_i ts hts
      exact ⟨fun hn => SortedR.of_bytes (retype_sorted hts) (h.sorted hn)⟩
    · exact h
  case insertSepBeforeLastDefault =>
    split
    · split
      · rename_i ts hts
        exact ⟨fun hn => insertSep_sorted hts (h.sorted hn)⟩
      · exact h
    · exact h
  case emitError k => exact h.emitError k
  case prepError k => exact h.ofToks id rfl
  case emitPrepared =>
    split
    · rename_i e he
      exact (h.emitErrorInfo e).ofToks id rfl
    · exact h
  case pushMode m => exact h.pushMode m
  case popMode => exact h.popMode
  case mode => exact h.mode
  case popModeRaw => split <;> first | exact h.ofToks id rfl | exact h
  case modifyTop f => split <;> first | exact h.ofToks id rfl | exact h
  case modifyAt i f => split <;> first | exact h.ofToks id rfl | exact h
  case insertModeAt i m => split <;> first | exact h.ofToks id rfl | exact h.panic _
  case checkpoint => exact (h.dassert (cfg := cfg) _ _).ofToks id rfl
  case clearCheckpoint => exact h.ofToks id rfl
  case bumpCheckpointModeLen n => exact h.ofToks id rfl
  case rollback => exact h.rollback
  case pushPending b => exact h.ofToks id rfl
  case popPending => exact h.popPendingStat
  case pendingStat => exact h.pendingStat
  case setPending b => exact h.setPendingStat b
  case nestInc | nestDec | litBegin | litBeginAtTok | litMarkEnd | payClear => exact h.ofToks id rfl
  case litCut => exact (h.addStringLiteralFromSrc (cfg := cfg) L.lit.lastEnd none).ofToks id rfl
  case litResolve back =>
    have h' := h.dassert (cfg := cfg) (L.lit.seen || L.lit.start == L.lit.stop)
      "assertion failed: seen_escape || lit_start_idx == cur_lit_end_idx"
    split
    · exact h'.ofToks id rfl
    · exact (h'.addStringLiteralFromSrc (cfg := cfg) L.lit.lastEnd (some (L.curByte - back))).ofToks id rfl
  case litAddDecoded cs => exact h.ofToks id rfl
  case emitEofAtCursor => exact (h.lastLineOrAdd (cfg := cfg)).bufAddToken hd _
  case dassert c m => exact h.dassert c m
  case panic m => exact h.panic m

theorem run_KMono (cfg : Cfg) (hd : cfg.debug = true) {α} (p : Prog α) (L : Lexer) (h : KMono L) :
    KMono (Prog.run cfg p L).2 := by
  induction p generalizing L with
  | ret a => exact h
  | op o k ih =>
    unfold Prog.run
    have hs := step_KMono cfg hd o L h
    generalize step cfg o L = r at hs
    obtain ⟨resp, L'⟩ := r
    dsimp only
    split
    · exact hs
    · exact ih resp L' hs

theorem new_KMono (cfg : Cfg) (s : List Char) : KMono (Lexer.new cfg s) :=
  ⟨fun _ => by simp [Lexer.new, Lexer.bufAddLine, SortedR]⟩

end SasLexer
