import SasLexer.Prog
import SasLexer.Proofs.Kernel.Frame
/-!
# Kernel invariant `KPos`: every stored position is a position pair of the source

`PosPair src b c` — `(b, c)` is (byte length, char length) of a prefix of `src`.
`KPos L` says that the cursor, the pending token start, every token, line, error, the
checkpoint and the position registers hold position pairs.  It is preserved by **every**
primitive (`step_KPos`), hence by every program (`run_KPos`) — no hypothesis about the
control logic, both build profiles.
-/
namespace SasLexer

theorem utf8Len_append (a b : List Char) : utf8Len (a ++ b) = utf8Len a + utf8Len b := by
  induction a with
  | nil => simp [utf8Len]
  | cons c cs ih => simp [utf8Len, ih, Nat.add_assoc]

def PosPair (src : List Char) (b c : Nat) : Prop :=
  ∃ pre suf, src = pre ++ suf ∧ b = utf8Len pre ∧ c = pre.length

theorem PosPair.zero (src : List Char) : PosPair src 0 0 := ⟨[], src, by simp, by simp [utf8Len], rfl⟩
theorem PosPair.full (src : List Char) : PosPair src (utf8Len src) src.length :=
  ⟨src, [], by simp, rfl, rfl⟩

/-- the cursor is at a char boundary and its two counters describe the same prefix -/
def CurOK (src : List Char) (cur : Cursor) : Prop :=
  cur.remBytes = utf8Len cur.rest ∧ ∃ pre, src = pre ++ cur.rest ∧ cur.charOff = pre.length

theorem CurOK.posPair {src cur} (h : CurOK src cur) :
    PosPair src (utf8Len src - cur.remBytes) cur.charOff := by
  obtain ⟨hr, pre, hs, hc⟩ := h
  refine ⟨pre, cur.rest, hs, ?_, hc⟩
  rw [hr]; conv => lhs; rw [hs, utf8Len_append]
  omega

theorem CurOK.new (s : List Char) : CurOK s (Cursor.new s) := ⟨rfl, [], by simp [Cursor.new], rfl⟩

theorem CurOK.advance {src cur} (h : CurOK src cur) : CurOK src cur.advance.2 := by
  obtain ⟨hr, pre, hs, hc⟩ := h
  unfold Cursor.advance
  split
  · exact ⟨hr, pre, hs, hc⟩
  · rename_i ch r hrest
    refine ⟨?_, pre ++ [ch], ?_, ?_⟩
    · simp [hr, hrest, utf8Len]
    · simp [hs, hrest]
    · simp [hc]

theorem CurOK.advanceBy {src} : ∀ (n : Nat) {cur}, CurOK src cur → CurOK src (cur.advanceBy n)
  | 0, cur, h => by simpa [Cursor.advanceBy] using h
  | n + 1, cur, h => by
    unfold Cursor.advanceBy
    split
    · exact h
    · rename_i ch r hrest
      apply CurOK.advanceBy n
      have := CurOK.advance h
      simpa [Cursor.advance, hrest] using this

theorem eatWhileAux_ok (p : Char → Bool) (src : List Char) :
    ∀ (rest : List Char) (co rb : Nat),
      CurOK src ⟨rest, co, rb⟩ →
      CurOK src ⟨(Cursor.eatWhileAux p rest co rb).1, (Cursor.eatWhileAux p rest co rb).2.1,
                 (Cursor.eatWhileAux p rest co rb).2.2⟩
  | [], co, rb, h => by simpa [Cursor.eatWhileAux] using h
  | ch :: r, co, rb, h => by
    unfold Cursor.eatWhileAux
    split
    · apply eatWhileAux_ok p src r
      have := CurOK.advance h
      simpa [Cursor.advance] using this
    · exact h

theorem CurOK.eatWhile {src cur} (p : Char → Bool) (h : CurOK src cur) : CurOK src (cur.eatWhile p) := by
  have := eatWhileAux_ok p src cur.rest cur.charOff cur.remBytes (by cases cur; exact h)
  simpa [Cursor.eatWhile] using this

structure KPos (L : Lexer) : Prop where
  srcLen : L.srcLen = utf8Len L.src
  cur : CurOK L.src L.cur
  tok : PosPair L.src L.tok.byte L.tok.start
  toks : ∀ t ∈ L.toksR, PosPair L.src t.byte t.start
  lines : ∀ l ∈ L.linesR, PosPair L.src l.byte l.start
  errs : ∀ e ∈ L.errsR, PosPair L.src e.byte e.char
  cp : ∀ c, L.cp = some c → CurOK L.src c.cur ∧ PosPair L.src c.tok.byte c.tok.start
  mark : ∀ m, L.mark = some m → PosPair L.src m.byte m.start
  errReg : ∀ e, L.errReg = some e → PosPair L.src e.byte e.char

namespace KPos
variable {L : Lexer} {cfg : Cfg}

/-- the current cursor position is a position pair -/
theorem curPos (h : KPos L) : PosPair L.src L.curByte L.curChar := by
  have := h.cur.posPair
  simpa [Lexer.curByte, Lexer.curChar, h.srcLen] using this

/-- `KPos` only reads these fields -/
theorem congr {L L' : Lexer} (h : KPos L)
    (e1 : L'.src = L.src) (e2 : L'.srcLen = L.srcLen) (e3 : L'.cur = L.cur) (e4 : L'.tok = L.tok)
    (e5 : L'.toksR = L.toksR) (e6 : L'.linesR = L.linesR) (e7 : L'.errsR = L.errsR)
    (e8 : L'.cp = L.cp) (e9 : L'.mark = L.mark) (e10 : L'.errReg = L.errReg) : KPos L' := by
  constructor <;> simp only [e1, e2, e3, e4, e5, e6, e7, e8, e9, e10]
  · exact h.srcLen
  · exact h.cur
  · exact h.tok
  · exact h.toks
  · exact h.lines
  · exact h.errs
  · exact h.cp
  · exact h.mark
  · exact h.errReg

theorem panic (h : KPos L) (m : String) : KPos (L.panic m) :=
  h.congr (by simp) (by simp) (by simp) (by simp) (by simp) (by simp) (by simp) (by simp) (by simp) (by simp)

theorem dassert (h : KPos L) (c : Bool) (m : String) : KPos (L.dassert cfg c m) :=
  h.congr (by simp) (by simp) (by simp) (by simp) (by simp) (by simp) (by simp) (by simp) (by simp) (by simp)

theorem withCur (h : KPos L) {cur : Cursor} (hc : CurOK L.src cur) : KPos { L with cur := cur } :=
  { h with cur := hc }

theorem bufAddLine (h : KPos L) {b c : Nat} (hp : PosPair L.src b c) : KPos (L.bufAddLine cfg b c).2 := by
  refine { h with lines := ?_ }
  intro l hl
  simp only [Lexer.bufAddLine, List.mem_cons] at hl
  rcases hl with rfl | hl
  · exact hp
  · exact h.lines l hl

theorem bufAddToken (h : KPos L) {t : TokInfo} (hp : PosPair L.src t.byte t.start) :
    KPos (L.bufAddToken cfg t) := by
  refine { h with toks := ?_ }
  intro t' ht'
  simp only [Lexer.bufAddToken, List.mem_cons] at ht'
  rcases ht' with rfl | ht'
  · exact hp
  · exact h.toks t' ht'

theorem addLine (h : KPos L) : KPos (L.addLine cfg).2 := h.bufAddLine h.curPos

theorem lastLineOrAdd (h : KPos L) : KPos (L.lastLineOrAdd cfg).2 := by
  unfold Lexer.lastLineOrAdd; split
  · exact h.addLine
  · exact h

@[simp] theorem lastLineOrAdd_src : (L.lastLineOrAdd cfg).2.src = L.src := by
  unfold Lexer.lastLineOrAdd; split <;> rfl
@[simp] theorem lastLineOrAdd_cur : (L.lastLineOrAdd cfg).2.cur = L.cur := by
  unfold Lexer.lastLineOrAdd; split <;> rfl
@[simp] theorem lastLineOrAdd_srcLen : (L.lastLineOrAdd cfg).2.srcLen = L.srcLen := by
  unfold Lexer.lastLineOrAdd; split <;> rfl

theorem startToken (h : KPos L) : KPos (L.startToken cfg) := by
  have h' := h.lastLineOrAdd (cfg := cfg)
  unfold Lexer.startToken
  refine { h' with tok := ?_ }
  simpa using h.curPos

theorem markIfNone (h : KPos L) : KPos (L.markIfNone cfg) := by
  unfold Lexer.markIfNone; split
  · exact h
  · have h' := h.lastLineOrAdd (cfg := cfg)
    refine { h' with mark := ?_ }
    intro m hm
    simp only [Option.some.injEq] at hm
    subst hm
    simpa using h.curPos

theorem clearMark (h : KPos L) : KPos L.clearMark :=
  { h with mark := by intro m hm; simp [Lexer.clearMark] at hm }

theorem emitToken (h : KPos L) (ch ty p) : KPos (L.emitToken cfg ch ty p) :=
  h.bufAddToken (t := ⟨ch, ty, L.tok.byte, L.tok.start, L.tok.line, p⟩) h.tok

theorem emitTokenAtMark (h : KPos L) (ch ty p) : KPos (L.emitTokenAtMark cfg ch ty p) := by
  unfold Lexer.emitTokenAtMark; split
  · rename_i m hm
    exact h.bufAddToken (t := ⟨ch, ty, m.byte, m.start, m.line, p⟩) (h.mark m hm)
  · exact h

theorem prepError_pos (h : KPos L) (k : ErrorKind) :
    PosPair L.src (L.prepError k).byte (L.prepError k).char := h.curPos

theorem emitErrorInfo (h : KPos L) {e : ErrInfo} (he : PosPair L.src e.byte e.char) :
    KPos (L.emitErrorInfo e) := by
  refine { h with errs := ?_ }
  intro e' he'
  simp only [Lexer.emitErrorInfo, List.mem_cons] at he'
  rcases he' with rfl | he'
  · exact he
  · exact h.errs e' he'

theorem emitError (h : KPos L) (k : ErrorKind) : KPos (L.emitError k) := h.emitErrorInfo (h.prepError_pos k)

theorem updateLastToken (h : KPos L) (ch ty p) : KPos (L.updateLastToken cfg ch ty p) := by
  unfold Lexer.updateLastToken; split
  · rename_i t ts hts
    refine { h with toks := ?_ }
    intro t' ht'
    simp only [List.mem_cons] at ht'
    rcases ht' with rfl | ht'
    · exact h.toks t (by simp [hts])
    · exact h.toks t' (by simp [hts, ht'])
  · exact (h.emitError _).bufAddToken (t := ⟨ch, ty, L.tok.byte, L.tok.start, L.tok.line, p⟩) h.tok

theorem pushMode (h : KPos L) (m : Mode) : KPos (L.pushMode m) := { h with }

theorem popMode (h : KPos L) : KPos L.popMode := by
  unfold Lexer.popMode; split
  · exact { h with }
  · exact (h.emitError _).pushMode _

theorem mode (h : KPos L) : KPos L.mode.2 := by
  unfold Lexer.mode; split
  · exact h
  · exact (h.emitError _).pushMode _

theorem pushPendingStat (h : KPos L) (v : Bool) : KPos (L.pushPendingStat v) := { h with }
theorem popPendingStat (h : KPos L) : KPos L.popPendingStat := by
  unfold Lexer.popPendingStat; split
  · exact { h with }
  · exact h
theorem pendingStat (h : KPos L) : KPos L.pendingStat.2 := by
  unfold Lexer.pendingStat; split
  · exact { h.emitError .InternalErrorEmptyPendingStatStack with }
  · exact h
theorem setPendingStat (h : KPos L) (v : Bool) : KPos (L.setPendingStat v) := by
  unfold Lexer.setPendingStat; split
  · exact { h.emitError .InternalErrorEmptyPendingStatStack with }
  · exact { h with }

theorem checkpoint (h : KPos L) : KPos (L.checkpoint cfg) := by
  refine { h with cp := ?_ }
  intro c hc
  simp only [Lexer.checkpoint, Option.some.injEq] at hc
  subst hc
  exact ⟨h.cur, h.tok⟩

theorem clearCheckpoint (h : KPos L) : KPos L.clearCheckpoint :=
  { h with cp := by intro c hc; simp [Lexer.clearCheckpoint] at hc }

theorem mem_truncR {α} {l : List α} {n : Nat} {x : α} (hx : x ∈ Lexer.truncR l n) : x ∈ l :=
  List.mem_of_mem_drop hx

theorem rollback (h : KPos L) : KPos L.rollback := by
  unfold Lexer.rollback; split
  · rename_i c hc
    obtain ⟨hcur, htok⟩ := h.cp c hc
    exact { srcLen := h.srcLen, cur := hcur, tok := htok,
            toks := fun t ht => h.toks t (mem_truncR ht),
            lines := fun l hl => h.lines l (mem_truncR hl),
            errs := fun e he => h.errs e (mem_truncR he), cp := by intro c' hc'; simp at hc',
            mark := h.mark, errReg := by intro e he; simp at he }
  · exact h.emitError _

theorem addStringLiteral (h : KPos L) (s : List Char) : KPos (L.addStringLiteral s).2 := { h with }

theorem addStringLiteralFromSrc (h : KPos L) (a : Nat) (b : Option Nat) :
    KPos (L.addStringLiteralFromSrc cfg a b).2 := by
  unfold Lexer.addStringLiteralFromSrc
  dsimp only
  split
  · exact (h.dassert _ _).addStringLiteral _
  · exact ((h.dassert _ _).emitError _).addStringLiteral _

theorem pendingTextFrom (h : KPos L) (a b : Nat) (k : ErrorKind) : KPos (L.pendingTextFrom a b k).2 := by
  unfold Lexer.pendingTextFrom; split
  · exact h
  · exact h.emitError _

end KPos
end SasLexer
