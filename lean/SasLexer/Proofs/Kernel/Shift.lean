import SasLexer.Proofs.Kernel.Run
/-!
# Kernel relational theorem: positions are opaque to the control logic (prefix shift)

`shiftL σ L` is the state `L` re-based on a source that has `σ.pre` in front of it: every stored
byte offset grows by `σ.db = utf8Len σ.pre`, every char offset by `σ.dc = σ.pre.length`; lines,
columns, token indices, literal-buffer indices, modes and the remaining text are unchanged.
Every primitive commutes with `shiftL` and returns the same response (`step_shift`), hence so does
every program (`run_shift`).  With `σ.pre = [BOM]` this is C17.

One primitive needs a side condition: `pendingTextWithPrev` slices from one byte before the
token start (`saturating_sub(1)`), which sees into the prefix when the token starts at offset 0.
The ghost predicate `PrevOk` (never executed at token offset 0) is carried as a run hypothesis.
-/
namespace SasLexer
open Lexer

structure Shift where
  pre : List Char
  db : Nat
  dc : Nat
  hdb : db = utf8Len pre
  hdc : dc = pre.length

namespace Shift
variable (σ : Shift)

def tok (t : TokInfo) : TokInfo := { t with byte := t.byte + σ.db, start := t.start + σ.dc }
def line (l : LineInfo) : LineInfo := { byte := l.byte + σ.db, start := l.start + σ.dc }
def err (e : ErrInfo) : ErrInfo := { e with byte := e.byte + σ.db, char := e.char + σ.dc }
def pos (p : Pos3) : Pos3 := { p with byte := p.byte + σ.db, start := p.start + σ.dc }
def cur (c : Cursor) : Cursor := { c with charOff := c.charOff + σ.dc }
def cp (c : Checkpoint) : Checkpoint := { c with cur := σ.cur c.cur, tok := σ.pos c.tok }
def lit (l : LitRegs) : LitRegs := { l with lastEnd := l.lastEnd + σ.db }

end Shift

def shiftL (σ : Shift) (L : Lexer) : Lexer :=
  { L with src := σ.pre ++ L.src, srcLen := L.srcLen + σ.db,
           linesR := L.linesR.map σ.line, toksR := L.toksR.map σ.tok, cur := σ.cur L.cur,
           tok := σ.pos L.tok, errsR := L.errsR.map σ.err, cp := L.cp.map σ.cp,
           mark := L.mark.map σ.pos, lit := σ.lit L.lit, errReg := L.errReg.map σ.err }

theorem length_le_utf8Len (s : List Char) : s.length ≤ utf8Len s := by
  induction s with
  | nil => simp [utf8Len]
  | cons c cs ih => have := Char.utf8Size_pos c; simp [utf8Len]; omega

theorem Shift.dc_le_db (σ : Shift) : σ.dc ≤ σ.db := by rw [σ.hdb, σ.hdc]; exact length_le_utf8Len _

/-! ## slicing commutes with the shift -/

theorem takeBytes_eq (s : List Char) (b : Nat) : sliceBytes? s 0 b = sliceBytes?.takeBytes? s b := by
  cases s <;> simp [sliceBytes?]

theorem sliceBytes_shift : ∀ (pre : List Char) (s : List Char) (a b : Nat),
    sliceBytes? (pre ++ s) (a + utf8Len pre) (b + utf8Len pre) = sliceBytes? s a b
  | [], s, a, b => by simp [utf8Len]
  | c :: cs, s, a, b => by
    have hp := Char.utf8Size_pos c
    have ih := sliceBytes_shift cs s a b
    simp only [List.cons_append, utf8Len]
    obtain ⟨k, hk⟩ : ∃ k, a + (c.utf8Size + utf8Len cs) = k + 1 := ⟨a + (c.utf8Size + utf8Len cs) - 1, by omega⟩
    rw [hk, sliceBytes?]
    have h1 : c.utf8Size ≤ k + 1 := by omega
    have h2 : c.utf8Size ≤ b + (c.utf8Size + utf8Len cs) := by omega
    have e1 : k + 1 - c.utf8Size = a + utf8Len cs := by omega
    have e2 : b + (c.utf8Size + utf8Len cs) - c.utf8Size = b + utf8Len cs := by omega
    simp only [h1, h2, and_self, if_true, e1, e2]
    exact ih

end SasLexer

namespace SasLexer
open Lexer

/-- lines are never empty (the first line is added by `Lexer::new`; a rollback keeps at least it) -/
structure KLn (L : Lexer) : Prop where
  ne : L.linesR ≠ []
  cp : ∀ c, L.cp = some c → 1 ≤ c.nLines

theorem CurOK.rem_le {src : List Char} {cur : Cursor} (h : CurOK src cur) : cur.remBytes ≤ utf8Len src := by
  obtain ⟨hr, pre, hs, _⟩ := h
  rw [hr, hs, utf8Len_append]; omega

variable (σ : Shift) (cfg : Cfg) {L : Lexer}

theorem shiftL_curByte (h : KPos L) : (shiftL σ L).curByte = L.curByte + σ.db := by
  have := h.cur.rem_le
  rw [← h.srcLen] at this
  simp only [Lexer.curByte, shiftL, Shift.cur]
  omega

theorem shiftL_curChar : (shiftL σ L).curChar = L.curChar + σ.dc := rfl

@[simp] theorem map_lastDefault (ts : List TokInfo) :
    lastDefault? (ts.map σ.tok) = (lastDefault? ts).map σ.tok := by
  induction ts with
  | nil => rfl
  | cons t ts ih =>
    simp only [List.map_cons, lastDefault?]
    by_cases hc : t.chan = .DEFAULT
    · simp [hc, Shift.tok]
    · simp [hc, Shift.tok, ih]

@[simp] theorem map_secondLastDefault (ts : List TokInfo) :
    secondLastDefault? (ts.map σ.tok) = (secondLastDefault? ts).map σ.tok := by
  induction ts with
  | nil => rfl
  | cons t ts ih =>
    simp only [List.map_cons, secondLastDefault?]
    by_cases hc : t.chan = .DEFAULT
    · simp [hc, Shift.tok]
    · simp [hc, Shift.tok, ih]

theorem map_retype (e n : TokenType) (ts : List TokInfo) :
    retypeLastDefaultAux e n (ts.map σ.tok) = (retypeLastDefaultAux e n ts).map (·.map σ.tok) := by
  induction ts with
  | nil => rfl
  | cons t ts ih =>
    simp only [List.map_cons, retypeLastDefaultAux]
    by_cases hc : t.chan = .DEFAULT
    · by_cases ht : t.ty = e
      · simp [hc, ht, Shift.tok]
      · simp [hc, ht, Shift.tok]
    · simp only [Shift.tok, hc, if_false, ih]
      cases retypeLastDefaultAux e n ts <;> simp [Shift.tok]

theorem map_insertSep (ts : List TokInfo) :
    insertSepAux (ts.map σ.tok) = (insertSepAux ts).map (·.map σ.tok) := by
  induction ts with
  | nil => rfl
  | cons t ts ih =>
    simp only [List.map_cons, insertSepAux]
    by_cases hc : t.chan = .DEFAULT
    · simp [hc, Shift.tok]
    · simp only [Shift.tok, hc, if_false, ih]
      cases insertSepAux ts <;> simp [Shift.tok]

theorem truncR_map {α β} (f : α → β) (l : List α) (n : Nat) : truncR (l.map f) n = (truncR l n).map f := by
  simp [truncR, List.map_drop]


/-! ## primitives commute with the shift -/

theorem chk_shift_panicked (L : Lexer) : (shiftL σ L).panicked = L.panicked := rfl

theorem bufAddLine_shift (b c : Nat) :
    (shiftL σ L).bufAddLine cfg (b + σ.db) (c + σ.dc) = ((L.bufAddLine cfg b c).1, shiftL σ (L.bufAddLine cfg b c).2) := by
  simp only [Lexer.bufAddLine, shiftL, List.length_map, List.map_cons, Shift.line, Nat.add_le_add_iff_right]

theorem lineAt_shift (i : Nat) : (shiftL σ L).lineAt? i = (L.lineAt? i).map σ.line := by
  simp only [Lexer.lineAt?, shiftL, List.length_map]
  split
  · simp [List.getElem?_map]
  · rfl

theorem tokChecks_shift (h : KPos L) (t : TokInfo) (ht : PosPair L.src t.byte t.start) :
    tokChecks cfg (shiftL σ L) (σ.tok t) = tokChecks cfg L t := by
  obtain ⟨pre, suf, hs, hb, hc⟩ := ht
  have h1 : t.start ≤ L.srcLen := by
    rw [h.srcLen, hc, hs, utf8Len_append]
    have := length_le_utf8Len pre; omega
  have h2 : t.start + σ.dc ≤ L.srcLen + σ.db := by have := σ.dc_le_db; omega
  unfold tokChecks
  simp only [lineAt_shift, chk_shift_panicked]
  have e1 : (σ.tok t).start = t.start + σ.dc := rfl
  have e2 : (σ.tok t).byte = t.byte + σ.db := rfl
  have e3 : (σ.tok t).line = t.line := rfl
  have e4 : (shiftL σ L).srcLen = L.srcLen + σ.db := rfl
  have e5 : (shiftL σ L).toksR = L.toksR.map σ.tok := rfl
  have e6 : (shiftL σ L).linesR = L.linesR.map σ.line := rfl
  simp only [e1, e2, e3, e4, e5, e6, List.length_map, decide_eq_true h1, decide_eq_true h2]
  cases L.lineAt? t.line <;> cases L.toksR <;>
    simp [Shift.tok, Shift.line]

theorem bufAddToken_shift (h : KPos L) (t : TokInfo) (ht : PosPair L.src t.byte t.start) :
    (shiftL σ L).bufAddToken cfg (σ.tok t) = shiftL σ (L.bufAddToken cfg t) := by
  have := tokChecks_shift σ cfg h t ht
  simp only [Lexer.bufAddToken, this]
  rfl


theorem curPos_shift (h : KPos L) : PosPair L.src L.curByte L.curChar := h.curPos

theorem addLine_shift (h : KPos L) :
    (shiftL σ L).addLine cfg = ((L.addLine cfg).1, shiftL σ (L.addLine cfg).2) := by
  unfold Lexer.addLine
  rw [shiftL_curByte σ h, shiftL_curChar]
  exact bufAddLine_shift σ cfg _ _

theorem lastLineOrAdd_shift (h : KPos L) :
    (shiftL σ L).lastLineOrAdd cfg = ((L.lastLineOrAdd cfg).1, shiftL σ (L.lastLineOrAdd cfg).2) := by
  unfold Lexer.lastLineOrAdd
  have e : (shiftL σ L).linesR.length = L.linesR.length := by simp [shiftL]
  rw [e]
  split
  · exact addLine_shift σ cfg h
  · rfl

theorem startToken_shift (h : KPos L) : (shiftL σ L).startToken cfg = shiftL σ (L.startToken cfg) := by
  unfold Lexer.startToken
  rw [shiftL_curByte σ h, shiftL_curChar, lastLineOrAdd_shift σ cfg h]
  rfl

theorem markIfNone_shift (h : KPos L) : (shiftL σ L).markIfNone cfg = shiftL σ (L.markIfNone cfg) := by
  unfold Lexer.markIfNone
  have e : (shiftL σ L).mark = L.mark.map σ.pos := rfl
  rw [e]
  cases hm : L.mark with
  | some m => simp
  | none =>
    simp only [Option.map_none]
    rw [shiftL_curByte σ h, shiftL_curChar, lastLineOrAdd_shift σ cfg h]
    simp only [shiftL, Option.map_some, Shift.pos]

theorem emitToken_shift (h : KPos L) (ch ty p) :
    (shiftL σ L).emitToken cfg ch ty p = shiftL σ (L.emitToken cfg ch ty p) := by
  unfold Lexer.emitToken
  exact bufAddToken_shift σ cfg h ⟨ch, ty, L.tok.byte, L.tok.start, L.tok.line, p⟩ h.tok

theorem emitTokenAtMark_shift (h : KPos L) (ch ty p) :
    (shiftL σ L).emitTokenAtMark cfg ch ty p = shiftL σ (L.emitTokenAtMark cfg ch ty p) := by
  unfold Lexer.emitTokenAtMark
  have e : (shiftL σ L).mark = L.mark.map σ.pos := rfl
  rw [e]
  cases hm : L.mark with
  | none => rfl
  | some m => exact bufAddToken_shift σ cfg h ⟨ch, ty, m.byte, m.start, m.line, p⟩ (h.mark m hm)

theorem prepError_shift (h : KPos L) (hl : L.linesR ≠ []) (k : ErrorKind) :
    (shiftL σ L).prepError k = σ.err (L.prepError k) := by
  unfold Lexer.prepError
  rw [shiftL_curByte σ h, shiftL_curChar]
  cases hls : L.linesR with
  | nil => exact absurd hls hl
  | cons li r =>
    simp only [shiftL, hls, List.map_cons, Shift.line, Shift.err, Lexer.lineCount, List.length_cons,
      List.length_map, Nat.add_sub_add_right]

theorem emitErrorInfo_shift (e : ErrInfo) :
    (shiftL σ L).emitErrorInfo (σ.err e) = shiftL σ (L.emitErrorInfo e) := rfl

theorem emitError_shift (h : KPos L) (hl : L.linesR ≠ []) (k : ErrorKind) :
    (shiftL σ L).emitError k = shiftL σ (L.emitError k) := by
  unfold Lexer.emitError
  rw [prepError_shift σ h hl]
  rfl

theorem pushMode_shift (m : Mode) : (shiftL σ L).pushMode m = shiftL σ (L.pushMode m) := rfl

theorem popMode_shift (h : KPos L) (hl : L.linesR ≠ []) : (shiftL σ L).popMode = shiftL σ L.popMode := by
  unfold Lexer.popMode
  have e : (shiftL σ L).modesR = L.modesR := rfl
  rw [e]
  split
  · rfl
  · rw [emitError_shift σ h hl]; rfl

theorem mode_shift (h : KPos L) (hl : L.linesR ≠ []) :
    (shiftL σ L).mode = (L.mode.1, shiftL σ L.mode.2) := by
  unfold Lexer.mode
  have e : (shiftL σ L).modesR = L.modesR := rfl
  rw [e]
  split
  · rfl
  · rw [emitError_shift σ h hl]; rfl

theorem updateLastToken_shift (h : KPos L) (hl : L.linesR ≠ []) (ch ty p) :
    (shiftL σ L).updateLastToken cfg ch ty p = shiftL σ (L.updateLastToken cfg ch ty p) := by
  unfold Lexer.updateLastToken
  have e : (shiftL σ L).toksR = L.toksR.map σ.tok := rfl
  rw [e]
  cases hts : L.toksR with
  | cons t ts => simp only [List.map_cons, shiftL, hts, Shift.tok]
  | nil =>
    simp only [List.map_nil]
    rw [emitError_shift σ h hl]
    have h' := h.emitError ErrorKind.InternalErrorNoTokenToReplace
    exact bufAddToken_shift σ cfg h' ⟨ch, ty, L.tok.byte, L.tok.start, L.tok.line, p⟩ h.tok

theorem popPendingStat_shift : (shiftL σ L).popPendingStat = shiftL σ L.popPendingStat := by
  unfold Lexer.popPendingStat
  have e : (shiftL σ L).pendingR = L.pendingR := rfl
  rw [e]; split <;> rfl

theorem pendingStat_shift (h : KPos L) (hl : L.linesR ≠ []) :
    (shiftL σ L).pendingStat = (L.pendingStat.1, shiftL σ L.pendingStat.2) := by
  unfold Lexer.pendingStat
  have e : (shiftL σ L).pendingR = L.pendingR := rfl
  rw [e]
  split
  · rw [emitError_shift σ h hl]; rfl
  · rfl

theorem setPendingStat_shift (h : KPos L) (hl : L.linesR ≠ []) (v : Bool) :
    (shiftL σ L).setPendingStat v = shiftL σ (L.setPendingStat v) := by
  unfold Lexer.setPendingStat
  have e : (shiftL σ L).pendingR = L.pendingR := rfl
  rw [e]
  split
  · rw [emitError_shift σ h hl]; rfl
  · rfl

theorem checkpoint_shift : (shiftL σ L).checkpoint cfg = shiftL σ (L.checkpoint cfg) := by
  unfold Lexer.checkpoint
  simp only [shiftL, Lexer.dassert, List.length_map, Option.isNone_map, Option.map_some, Shift.cp]

theorem rollback_shift (h : KPos L) (hl : L.linesR ≠ []) : (shiftL σ L).rollback = shiftL σ L.rollback := by
  unfold Lexer.rollback
  have e : (shiftL σ L).cp = L.cp.map σ.cp := rfl
  rw [e]
  cases hc : L.cp with
  | none =>
    simp only [Option.map_none]
    exact emitError_shift σ h hl _
  | some c =>
    simp only [Option.map_some, shiftL, Shift.cp, truncR_map, hc, Option.map_none]

theorem addStringLiteral_shift (s : List Char) :
    (shiftL σ L).addStringLiteral s = ((L.addStringLiteral s).1, shiftL σ (L.addStringLiteral s).2) := rfl

theorem addStringLiteralFromSrc_shift (h : KPos L) (hl : L.linesR ≠ []) (a : Nat) (b : Option Nat) :
    (shiftL σ L).addStringLiteralFromSrc cfg (a + σ.db) (b.map (· + σ.db)) =
      ((L.addStringLiteralFromSrc cfg a b).1, shiftL σ (L.addStringLiteralFromSrc cfg a b).2) := by
  unfold Lexer.addStringLiteralFromSrc
  have he : (b.map (· + σ.db)).getD (shiftL σ L).curByte = b.getD L.curByte + σ.db := by
    cases b with
    | none => simp [shiftL_curByte σ h]
    | some x => rfl
  simp only [he, Nat.add_le_add_iff_right]
  have hs : (shiftL σ (L.dassert cfg (decide (a ≤ b.getD L.curByte))
      "assertion failed: start_byte_offset <= end_byte_offset")).src = σ.pre ++ L.src := rfl
  have hsl : sliceBytes? (σ.pre ++ L.src) (a + σ.db) (b.getD L.curByte + σ.db) = sliceBytes? L.src a (b.getD L.curByte) := by
    rw [σ.hdb]; exact sliceBytes_shift _ _ _ _
  have hd : (shiftL σ L).dassert cfg (decide (a ≤ b.getD L.curByte)) "assertion failed: start_byte_offset <= end_byte_offset"
      = shiftL σ (L.dassert cfg (decide (a ≤ b.getD L.curByte)) "assertion failed: start_byte_offset <= end_byte_offset") := rfl
  rw [hd]
  show (match (if a ≤ b.getD L.curByte then sliceBytes? (σ.pre ++ L.src) (a + σ.db) (b.getD L.curByte + σ.db) else none) with
    | some t => _ | none => _) = _
  rw [hsl]
  have hsrc : (L.dassert cfg (decide (a ≤ b.getD L.curByte)) "assertion failed: start_byte_offset <= end_byte_offset").src = L.src := rfl
  rw [hsrc]
  cases hx : (if a ≤ b.getD L.curByte then sliceBytes? L.src a (b.getD L.curByte) else none) with
  | some t => rfl
  | none =>
    have h' := h.dassert (cfg := cfg) (decide (a ≤ b.getD L.curByte)) "assertion failed: start_byte_offset <= end_byte_offset"
    show (((shiftL σ (L.dassert cfg (decide (a ≤ b.getD L.curByte))
      "assertion failed: start_byte_offset <= end_byte_offset")).emitError .InternalErrorOutOfBounds).addStringLiteral []) = _
    rw [emitError_shift σ h' (by exact hl)]
    rfl

theorem pendingTextFrom_shift (h : KPos L) (hl : L.linesR ≠ []) (a b : Nat) (k : ErrorKind) :
    (shiftL σ L).pendingTextFrom (a + σ.db) (b + σ.db) k =
      ((L.pendingTextFrom a b k).1, shiftL σ (L.pendingTextFrom a b k).2) := by
  unfold Lexer.pendingTextFrom
  have hsl : sliceBytes? (shiftL σ L).src (a + σ.db) (b + σ.db) = sliceBytes? L.src a b := by
    show sliceBytes? (σ.pre ++ L.src) _ _ = _
    rw [σ.hdb]; exact sliceBytes_shift _ _ _ _
  simp only [Nat.add_le_add_iff_right, hsl]
  cases hx : (if a ≤ b then sliceBytes? L.src a b else none) with
  | some t => rfl
  | none =>
    show ([], (shiftL σ L).emitError k) = _
    rw [emitError_shift σ h hl]


/-! ## cursor -/

theorem advance_shift : (σ.cur L.cur).advance = (L.cur.advance.1, σ.cur L.cur.advance.2) := by
  unfold Cursor.advance
  cases hr : L.cur.rest with
  | nil => simp [Shift.cur, hr]
  | cons c r => simp [Shift.cur, hr, Nat.add_right_comm]

theorem advanceBy_shift : ∀ (n : Nat) (c : Cursor), (σ.cur c).advanceBy n = σ.cur (c.advanceBy n)
  | 0, c => rfl
  | n + 1, c => by
    unfold Cursor.advanceBy
    cases hr : c.rest with
    | nil => simp [Shift.cur, hr]
    | cons ch r =>
      simp only [Shift.cur, hr]
      have := advanceBy_shift n { rest := r, charOff := c.charOff + 1, remBytes := c.remBytes - ch.utf8Size }
      simp only [Shift.cur] at this
      rw [← this]
      congr 1
      simp [Nat.add_right_comm]

theorem eatWhileAux_shift (p : Char → Bool) : ∀ (r : List Char) (co rb : Nat),
    Cursor.eatWhileAux p r (co + σ.dc) rb =
      ((Cursor.eatWhileAux p r co rb).1, (Cursor.eatWhileAux p r co rb).2.1 + σ.dc, (Cursor.eatWhileAux p r co rb).2.2)
  | [], co, rb => rfl
  | ch :: r, co, rb => by
    unfold Cursor.eatWhileAux
    split
    · have := eatWhileAux_shift p r (co + 1) (rb - ch.utf8Size)
      rw [show co + σ.dc + 1 = co + 1 + σ.dc by omega]
      exact this
    · rfl

theorem eatWhile_shift (p : Char → Bool) (c : Cursor) : (σ.cur c).eatWhile p = σ.cur (c.eatWhile p) := by
  unfold Cursor.eatWhile
  simp only [Shift.cur]
  rw [eatWhileAux_shift]

/-! ## side conditions and the step lemma -/

/-- the two primitives whose byte arithmetic saturates at 0 commute with the shift only away
from offset 0 (in the real control logic they run after at least one character of the token /
literal has been consumed) -/
def SideOk (o : Op) (L : Lexer) : Prop :=
  match o with
  | .pendingTextWithPrev => 1 ≤ L.tok.byte
  | .litResolve back => back ≤ L.curByte
  | _ => True

theorem step_shift (o : Op) (h : KPos L) (hn : L.linesR ≠ []) (hs : SideOk o L) :
    step cfg o (shiftL σ L) = ((step cfg o L).1, shiftL σ (step cfg o L).2) := by
  cases o <;> simp only [step]
  case rest | hasCheckpoint | nesting | modeDepth | hasMark | litIsEmpty | loopProbe => first | rfl | simp [shiftL]
  case lastTok =>
    simp only [shiftL, List.head?_map, Option.map_map]
    congr 1
  case lastDefaultTok =>
    simp only [shiftL, map_lastDefault, Option.map_map]
    congr 1
  case secondLastDefaultTok =>
    simp only [shiftL, map_secondLastDefault, Option.map_map]
    congr 1
  case pendingText =>
    unfold Lexer.pendingText
    rw [shiftL_curByte σ h]
    exact pendingTextFrom_shift σ h hn _ _ _
  case pendingTextToMark =>
    have hm : (shiftL σ L).mark = L.mark.map σ.pos := rfl
    cases hmk : L.mark with
    | none =>
      simp only [hm, hmk, Option.map_none]
      rw [shiftL_curByte σ h]
      exact pendingTextFrom_shift σ h hn _ _ _
    | some m =>
      simp only [hm, hmk, Option.map_some]
      exact pendingTextFrom_shift σ h hn _ _ _
  case pendingTextWithPrev =>
    have hb : 1 ≤ L.tok.byte := hs
    have e : (shiftL σ L).tok.byte - 1 = (L.tok.byte - 1) + σ.db := by
      show L.tok.byte + σ.db - 1 = _; omega
    rw [e, shiftL_curByte σ h]
    exact pendingTextFrom_shift σ h hn _ _ _
  case advance =>
    show ((σ.cur L.cur).advance.1, { shiftL σ L with cur := (σ.cur L.cur).advance.2 }) = _
    rw [advance_shift]
    rfl
  case advanceBy n =>
    show ((), { (shiftL σ L).dassert cfg (decide (n > 0)) _ with cur := (σ.cur L.cur).advanceBy n }) = _
    rw [advanceBy_shift]
    rfl
  case eatWhile p =>
    show ((), { shiftL σ L with cur := (σ.cur L.cur).eatWhile p }) = _
    rw [eatWhile_shift]
    rfl
  case addLine => rw [addLine_shift σ cfg h]
  case startToken => rw [startToken_shift σ cfg h]
  case markIfNone => rw [markIfNone_shift σ cfg h]
  case clearMark => rfl
  case emitToken ch ty p =>
    have : p.resolve (shiftL σ L) = p.resolve L := by cases p <;> rfl
    rw [this, emitToken_shift σ cfg h]
  case emitTokenAtMark ch ty p =>
    have : p.resolve (shiftL σ L) = p.resolve L := by cases p <;> rfl
    rw [this, emitTokenAtMark_shift σ cfg h]
  case updateLastToken ch ty p =>
    have : p.resolve (shiftL σ L) = p.resolve L := by cases p <;> rfl
    rw [this, updateLastToken_shift σ cfg h hn]
  case retypeLastDefault e n =>
    show (match retypeLastDefaultAux e n (L.toksR.map σ.tok) with | some ts => _ | none => _) = _
    rw [map_retype]
    cases retypeLastDefaultAux e n L.toksR <;> rfl
  case insertSepBeforeLastDefault =>
    by_cases hm : cfg.macroSep = true
    · simp only [hm, if_true]
      show (match insertSepAux (L.toksR.map σ.tok) with | some ts => _ | none => _) = _
      rw [map_insertSep]
      cases insertSepAux L.toksR <;> rfl
    · simp only [hm]; rfl
  case emitError k => rw [emitError_shift σ h hn]
  case prepError k =>
    show ((), { shiftL σ L with errReg := some ((shiftL σ L).prepError k) }) = _
    rw [prepError_shift σ h hn]
    rfl
  case emitPrepared =>
    show (match L.errReg.map σ.err with | some e => _ | none => _) = _
    cases L.errReg <;> rfl
  case pushMode m => rfl
  case popMode => rw [popMode_shift σ h hn]
  case mode => rw [mode_shift σ h hn]
  case popModeRaw =>
    show (match L.modesR with | m :: ms => _ | [] => _) = _
    cases L.modesR <;> rfl
  case modifyTop f =>
    show (match L.modesR with | m :: ms => _ | [] => _) = _
    cases L.modesR <;> rfl
  case modifyAt i f =>
    show (match modifyNthFromBottom f L.modesR i with | some ms => _ | none => _) = _
    cases modifyNthFromBottom f L.modesR i <;> rfl
  case insertModeAt i m =>
    show (match insertNthFromBottom m L.modesR i with | some ms => _ | none => _) = _
    cases insertNthFromBottom m L.modesR i <;> rfl
  case checkpoint => rw [checkpoint_shift]
  case clearCheckpoint => rfl
  case bumpCheckpointModeLen n =>
    have hc : (shiftL σ L).cp = L.cp.map σ.cp := rfl
    cases hcp : L.cp with
    | none => simp only [hc, hcp, Option.map_none]; simp [shiftL, hcp]
    | some c => simp only [hc, hcp, Option.map_some]; simp [shiftL, hcp, Shift.cp]
  case rollback => rw [rollback_shift σ h hn]
  case pushPending b => rfl
  case popPending => rw [popPendingStat_shift]
  case pendingStat => rw [pendingStat_shift σ h hn]
  case setPending b => rw [setPendingStat_shift σ h hn]
  case nestInc | nestDec | payClear => rfl
  case litBegin =>
    rw [shiftL_curByte σ h]
    rfl
  case litBeginAtTok => rfl
  case litCut =>
    have := addStringLiteralFromSrc_shift σ cfg h hn L.lit.lastEnd none
    simp only [Option.map_none] at this
    show (((), _) : Unit × Lexer) = _
    have e : (shiftL σ L).lit.lastEnd = L.lit.lastEnd + σ.db := rfl
    simp only [e, this]
    rfl
  case litMarkEnd =>
    rw [shiftL_curByte σ h]
    rfl
  case litResolve back =>
    have hb : back ≤ L.curByte := hs
    have hd : (shiftL σ L).dassert cfg ((shiftL σ L).lit.seen || (shiftL σ L).lit.start == (shiftL σ L).lit.stop)
        "assertion failed: seen_escape || lit_start_idx == cur_lit_end_idx"
        = shiftL σ (L.dassert cfg (L.lit.seen || L.lit.start == L.lit.stop)
        "assertion failed: seen_escape || lit_start_idx == cur_lit_end_idx") := rfl
    simp only [hd]
    generalize hX : L.dassert cfg (L.lit.seen || L.lit.start == L.lit.stop)
        "assertion failed: seen_escape || lit_start_idx == cur_lit_end_idx" = X
    have hXk : KPos X := hX ▸ h.dassert _ _
    have hXn : X.linesR ≠ [] := by rw [← hX]; exact hn
    have hXc : X.curByte = L.curByte := by rw [← hX]; rfl
    have e1 : (shiftL σ X).lit.seen = X.lit.seen := rfl
    by_cases hseen : (!X.lit.seen) = true
    · simp only [e1, hseen, if_true]; rfl
    · simp only [e1, hseen]
      have := addStringLiteralFromSrc_shift σ cfg hXk hXn X.lit.lastEnd (some (X.curByte - back))
      simp only [Option.map_some] at this
      have e2 : (shiftL σ X).curByte - back = X.curByte - back + σ.db := by
        rw [shiftL_curByte σ hXk]; rw [hXc]; omega
      have e3 : (shiftL σ X).lit.lastEnd = X.lit.lastEnd + σ.db := rfl
      simp only [e2, e3, this]
      rfl
  case litAddDecoded cs => rfl
  case emitEofAtCursor =>
    rw [lastLineOrAdd_shift σ cfg h]
    have h' := h.lastLineOrAdd (cfg := cfg)
    have hc : (shiftL σ (L.lastLineOrAdd cfg).2).curByte = (L.lastLineOrAdd cfg).2.curByte + σ.db := shiftL_curByte σ h'
    simp only [hc, shiftL_curChar]
    have hp : PosPair (L.lastLineOrAdd cfg).2.src (L.lastLineOrAdd cfg).2.curByte (L.lastLineOrAdd cfg).2.curChar := h'.curPos
    have := bufAddToken_shift σ cfg h' ⟨.DEFAULT, .EOF, (L.lastLineOrAdd cfg).2.curByte, (L.lastLineOrAdd cfg).2.curChar,
      (L.lastLineOrAdd cfg).1, .none⟩ hp
    simp only [Shift.tok] at this
    rw [this]
  case dassert c m => rfl
  case panic m => rfl


/-! ## lines are never empty -/

theorem truncR_ne_nil {α} {l : List α} {n : Nat} (hl : l ≠ []) (hn : 1 ≤ n) : truncR l n ≠ [] := by
  unfold truncR
  intro h
  have hlen : (l.drop (l.length - n)).length = 0 := by rw [h]; rfl
  rw [List.length_drop] at hlen
  have : 0 < l.length := List.length_pos_iff.mpr hl
  omega

namespace KLn
variable {L : Lexer} {cfg : Cfg}

theorem frame {L' : Lexer} (h : KLn L) (e1 : L'.linesR = L.linesR) (e2 : L'.cp = L.cp) : KLn L' :=
  ⟨e1 ▸ h.ne, fun c hc => h.cp c (e2 ▸ hc)⟩

theorem addLineLike {L' : Lexer} (h : KLn L) {li : LineInfo} (e1 : L'.linesR = li :: L.linesR) (e2 : L'.cp = L.cp) : KLn L' :=
  ⟨by rw [e1]; simp, fun c hc => h.cp c (e2 ▸ hc)⟩

theorem lastLineOrAdd (h : KLn L) : KLn (L.lastLineOrAdd cfg).2 := by
  unfold Lexer.lastLineOrAdd; split
  · exact h.addLineLike (li := ⟨L.curByte, L.curChar⟩) rfl rfl
  · exact h

theorem emitError (h : KLn L) (k : ErrorKind) : KLn (L.emitError k) := h.frame rfl rfl

end KLn

theorem step_KLn (cfg : Cfg) (o : Op) (L : Lexer) (h : KLn L) : KLn (step cfg o L).2 := by
  cases o <;> simp only [step]
  case rest | lastTok | lastDefaultTok | secondLastDefaultTok | hasCheckpoint | nesting | modeDepth | hasMark
     | litIsEmpty => exact h
  case pendingText | pendingTextToMark | pendingTextWithPrev =>
    first
    | (unfold Lexer.pendingText Lexer.pendingTextFrom; split <;> first | exact h | exact h.emitError _)
    | (unfold Lexer.pendingTextFrom; split <;> first | exact h | exact h.emitError _)
  case addLine => exact h.addLineLike (li := ⟨L.curByte, L.curChar⟩) rfl rfl
  case startToken => exact (h.lastLineOrAdd (cfg := cfg)).frame rfl rfl
  case markIfNone =>
    unfold Lexer.markIfNone; split
    · exact h
    · exact (h.lastLineOrAdd (cfg := cfg)).frame rfl rfl
  case emitTokenAtMark => unfold Lexer.emitTokenAtMark; split <;> first | exact h.frame rfl rfl | exact h
  case updateLastToken => unfold Lexer.updateLastToken; split <;> exact h.frame rfl rfl
  case retypeLastDefault => split <;> first | exact h.frame rfl rfl | exact h
  case insertSepBeforeLastDefault =>
    split
    · split <;> first | exact h.frame rfl rfl | exact h
    · exact h
  case emitPrepared => split <;> first | exact h.frame rfl rfl | exact h
  case popMode => unfold Lexer.popMode; split <;> exact h.frame rfl rfl
  case mode => unfold Lexer.mode; split <;> first | exact h | exact h.frame rfl rfl
  case popModeRaw | modifyTop | modifyAt | insertModeAt => split <;> first | exact h.frame rfl rfl | exact h
  case checkpoint =>
    refine ⟨h.ne, ?_⟩
    intro c hc
    simp only [Lexer.checkpoint, Option.some.injEq] at hc
    subst hc
    exact List.length_pos_iff.mpr h.ne
  case clearCheckpoint => exact ⟨h.ne, by intro c hc; simp [Lexer.clearCheckpoint] at hc⟩
  case bumpCheckpointModeLen n =>
    refine ⟨h.ne, ?_⟩
    intro c hc
    cases hcp : L.cp with
    | none => simp [hcp] at hc
    | some c0 =>
      simp only [hcp, Option.map_some, Option.some.injEq] at hc
      subst hc
      exact h.cp c0 hcp
  case rollback =>
    unfold Lexer.rollback; split
    · rename_i c hc
      exact ⟨truncR_ne_nil h.ne (h.cp c hc), by intro c' hc'; simp at hc'⟩
    · exact h.emitError _
  case popPending => unfold Lexer.popPendingStat; split <;> first | exact h.frame rfl rfl | exact h
  case pendingStat => unfold Lexer.pendingStat; split <;> first | exact h.frame rfl rfl | exact h
  case setPending => unfold Lexer.setPendingStat; split <;> exact h.frame rfl rfl
  case litCut =>
    unfold Lexer.addStringLiteralFromSrc; dsimp only; split <;> exact h.frame rfl rfl
  case litResolve back =>
    split
    · exact h.frame rfl rfl
    · unfold Lexer.addStringLiteralFromSrc; dsimp only; split <;> exact h.frame rfl rfl
  case emitEofAtCursor => exact (h.lastLineOrAdd (cfg := cfg)).frame rfl rfl
  all_goals exact h.frame rfl rfl

theorem new_KLn (cfg : Cfg) (s : List Char) : KLn (Lexer.new cfg s) :=
  ⟨by simp [Lexer.new, Lexer.bufAddLine], by intro c hc; simp [Lexer.new, Lexer.bufAddLine] at hc⟩

theorem run_KLn (cfg : Cfg) {α} (p : Prog α) (L : Lexer) (h : KLn L) : KLn (Prog.run cfg p L).2 := by
  induction p generalizing L with
  | ret a => exact h
  | op o k ih =>
    unfold Prog.run
    have hs := step_KLn cfg o L h
    generalize step cfg o L = r at hs
    obtain ⟨resp, L'⟩ := r
    dsimp only
    split
    · exact hs
    · exact ih resp L' hs

/-! ## programs commute with the shift -/


/-- the run hypothesis: the two saturating primitives are only used away from offset 0 -/
def RunOk (cfg : Cfg) {α} : Prog α → Lexer → Prop
  | .ret _, _ => True
  | .op o k, L => SideOk o L ∧ ((step cfg o L).2.panicked = none → RunOk cfg (k (step cfg o L).1) (step cfg o L).2)

/-- **Kernel relational theorem.**  Every program run on the shifted state performs the same
operations, returns the same value and ends in the shifted end state. -/
theorem run_shift (σ : Shift) (cfg : Cfg) {α} (p : Prog α) :
    ∀ (L : Lexer), KPos L → KLn L → RunOk cfg p L →
      Prog.run cfg p (shiftL σ L) = ((Prog.run cfg p L).1, shiftL σ (Prog.run cfg p L).2) := by
  induction p with
  | ret a => intro L _ _ _; rfl
  | op o k ih =>
    intro L h hn hok
    unfold Prog.run
    rw [step_shift σ cfg o h hn.ne hok.1]
    dsimp only
    have hp : (shiftL σ (step cfg o L).2).panicked = (step cfg o L).2.panicked := rfl
    rw [hp]
    cases hpan : (step cfg o L).2.panicked with
    | some m => rfl
    | none =>
      exact ih (step cfg o L).1 (step cfg o L).2 (step_KPos cfg o L h) (step_KLn cfg o L hn) (hok.2 hpan)

end SasLexer
