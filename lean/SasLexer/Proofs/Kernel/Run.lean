import SasLexer.Proofs.Kernel.Pos
import SasLexer.Buffer
/-!
# `KPos` is preserved by every primitive step, hence by every program
-/
namespace SasLexer
open Lexer

theorem retype_pos {e n : TokenType} : ∀ {ts ts' : List TokInfo},
    retypeLastDefaultAux e n ts = some ts' →
    ∀ t' ∈ ts', ∃ t ∈ ts, t'.byte = t.byte ∧ t'.start = t.start
  | [], ts', h => by simp [retypeLastDefaultAux] at h
  | t :: ts, ts', h => by
    unfold retypeLastDefaultAux at h
    split at h
    · split at h
      · simp only [Option.some.injEq] at h; subst h
        intro t' ht'
        simp only [List.mem_cons] at ht'
        rcases ht' with rfl | ht'
        · exact ⟨t, by simp, rfl, rfl⟩
        · exact ⟨t', by simp [ht'], rfl, rfl⟩
      · simp at h
    · cases hr : retypeLastDefaultAux e n ts with
      | none => simp [hr] at h
      | some r =>
        simp only [hr, Option.map_some, Option.some.injEq] at h; subst h
        intro t' ht'
        simp only [List.mem_cons] at ht'
        rcases ht' with rfl | ht'
        · exact ⟨t', by simp, rfl, rfl⟩
        · obtain ⟨t0, h0, hb⟩ := retype_pos hr t' ht'
          exact ⟨t0, by simp [h0], hb⟩

theorem insertSep_pos : ∀ {ts ts' : List TokInfo},
    insertSepAux ts = some ts' →
    ∀ t' ∈ ts', ∃ t ∈ ts, t'.byte = t.byte ∧ t'.start = t.start
  | [], ts', h => by simp [insertSepAux] at h
  | t :: ts, ts', h => by
    unfold insertSepAux at h
    split at h
    · simp only [Option.some.injEq] at h; subst h
      intro t' ht'
      simp only [List.mem_cons] at ht'
      rcases ht' with rfl | rfl | ht'
      · exact ⟨t', by simp, rfl, rfl⟩
      · exact ⟨t, by simp, rfl, rfl⟩
      · exact ⟨t', by simp [ht'], rfl, rfl⟩
    · cases hr : insertSepAux ts with
      | none => simp [hr] at h
      | some r =>
        simp only [hr, Option.map_some, Option.some.injEq] at h; subst h
        intro t' ht'
        simp only [List.mem_cons] at ht'
        rcases ht' with rfl | ht'
        · exact ⟨t', by simp, rfl, rfl⟩
        · obtain ⟨t0, h0, hb⟩ := insertSep_pos hr t' ht'
          exact ⟨t0, by simp [h0], hb⟩

theorem KPos.withToks {L : Lexer} (h : KPos L) {ts : List TokInfo}
    (hts : ∀ t' ∈ ts, ∃ t ∈ L.toksR, t'.byte = t.byte ∧ t'.start = t.start) :
    KPos { L with toksR := ts } := by
  refine { h with toks := ?_ }
  intro t' ht'
  obtain ⟨t, ht, hb, hs⟩ := hts t' ht'
  rw [hb, hs]; exact h.toks t ht

/-- every primitive preserves the positional invariant -/
theorem step_KPos (cfg : Cfg) (o : Op) (L : Lexer) (h : KPos L) : KPos (step cfg o L).2 := by
  cases o <;> simp only [step]
  case rest | lastTok | lastDefaultTok | secondLastDefaultTok | hasCheckpoint | nesting | modeDepth | hasMark | litIsEmpty | loopProbe => exact h
  case pendingText => exact h.pendingTextFrom _ _ _
  case pendingTextToMark => exact h.pendingTextFrom _ _ _
  case pendingTextWithPrev => exact h.pendingTextFrom _ _ _
  case advance => exact h.withCur h.cur.advance
  case advanceBy n => exact (h.dassert _ _).withCur (h.cur.advanceBy n)
  case eatWhile p => exact h.withCur (h.cur.eatWhile p)
  case addLine => exact h.addLine
  case startToken => exact h.startToken
  case markIfNone => exact h.markIfNone
  case clearMark => exact h.clearMark
  case emitToken => exact h.emitToken _ _ _
  case emitTokenAtMark => exact h.emitTokenAtMark _ _ _
  case updateLastToken => exact h.updateLastToken _ _ _
  case retypeLastDefault e n =>
    split
    · rename_i ts hts; exact h.withToks (retype_pos hts)
    · exact h
  case insertSepBeforeLastDefault =>
    split
    · split
      · rename_i ts hts; exact h.withToks (insertSep_pos hts)
      · exact h
    · exact h
  case emitError k => exact h.emitError k
  case prepError k =>
    refine { h with errReg := ?_ }
    intro e he
    simp only [Option.some.injEq] at he
    subst he; exact h.prepError_pos k
  case emitPrepared =>
    split
    · rename_i e he
      refine { h.emitErrorInfo (h.errReg e he) with errReg := ?_ }
      intro e' he'; simp at he'
    · exact h
  case pushMode m => exact h.pushMode m
  case popMode => exact h.popMode
  case mode => exact h.mode
  case popModeRaw => split <;> first | exact { h with } | exact h
  case modifyTop f => split <;> first | exact { h with } | exact h
  case modifyAt i f => split <;> first | exact { h with } | exact h
  case insertModeAt i m => split <;> first | exact { h with } | exact h.panic _
  case checkpoint => exact h.checkpoint
  case clearCheckpoint => exact h.clearCheckpoint
  case bumpCheckpointModeLen n =>
    refine { h with cp := ?_ }
    intro c hc
    cases hcp : L.cp with
    | none => simp [hcp] at hc
    | some c0 =>
      simp only [hcp, Option.map_some, Option.some.injEq] at hc
      subst hc
      exact h.cp c0 hcp
  case rollback => exact h.rollback
  case pushPending b => exact h.pushPendingStat b
  case popPending => exact h.popPendingStat
  case pendingStat => exact h.pendingStat
  case setPending b => exact h.setPendingStat b
  case nestInc | nestDec | litBegin | litBeginAtTok | litMarkEnd | payClear => exact { h with }
  case litCut => exact { h.addStringLiteralFromSrc (cfg := cfg) L.lit.lastEnd none with }
  case litResolve back =>
    have h' := h.dassert (cfg := cfg) (L.lit.seen || L.lit.start == L.lit.stop)
      "assertion failed: seen_escape || lit_start_idx == cur_lit_end_idx"
    split
    · exact { h' with }
    · exact { h'.addStringLiteralFromSrc (cfg := cfg) L.lit.lastEnd (some (L.curByte - back)) with }
  case litAddDecoded cs => exact { h.addStringLiteral cs with }
  case emitEofAtCursor =>
    have h' := h.lastLineOrAdd (cfg := cfg)
    refine h'.bufAddToken ?_
    simpa [Lexer.curByte, Lexer.curChar] using h.curPos
  case dassert c m => exact h.dassert c m
  case panic m => exact h.panic m

/-- every program preserves the positional invariant (both build profiles, any control logic) -/
theorem run_KPos (cfg : Cfg) {α} (p : Prog α) (L : Lexer) (h : KPos L) : KPos (Prog.run cfg p L).2 := by
  induction p generalizing L with
  | ret a => exact h
  | op o k ih =>
    unfold Prog.run
    have hs := step_KPos cfg o L h
    generalize step cfg o L = r at hs
    obtain ⟨resp, L'⟩ := r
    dsimp only
    split
    · exact hs
    · exact ih resp L' hs

theorem skipBom_ok {s : List Char} {c : Cursor} (h : CurOK s c) : CurOK s (Lexer.skipBom c) := by
  unfold Lexer.skipBom; split
  · split
    · exact h.advance
    · exact h
  · exact h

theorem new_KPos (cfg : Cfg) (s : List Char) : KPos (Lexer.new cfg s) := by
  have hc := skipBom_ok (CurOK.new s)
  have hp := hc.posPair
  unfold Lexer.new
  refine KPos.bufAddLine ?_ hp
  exact { srcLen := rfl, cur := hc, tok := hp,
          toks := by intro t ht; simp at ht,
          lines := by intro t ht; simp at ht,
          errs := by intro t ht; simp at ht,
          cp := by intro c hc'; simp at hc',
          mark := by intro c hc'; simp at hc',
          errReg := by intro c hc'; simp at hc' }

/-- `into_detached` keeps every token / line a position pair (the appended EOF sits at the
end of the source) -/
theorem intoDetached_pos (cfg : Cfg) (L : Lexer) (h : KPos L) :
    (∀ t ∈ (L.intoDetached cfg).1.toks, PosPair L.src t.byte t.start) ∧
    (∀ l ∈ (L.intoDetached cfg).1.lines, PosPair L.src l.byte l.start) := by
  have hfull : PosPair L.src L.srcLen L.src.length := by rw [h.srcLen]; exact PosPair.full _
  have h1 : KPos (if L.linesR.isEmpty then (L.bufAddLine cfg 0 0).2 else L) := by
    split
    · exact h.bufAddLine (PosPair.zero _)
    · exact h
  have s1 : (if L.linesR.isEmpty then (L.bufAddLine cfg 0 0).2 else L).src = L.src := by split <;> rfl
  have s2 : (if L.linesR.isEmpty then (L.bufAddLine cfg 0 0).2 else L).srcLen = L.srcLen := by split <;> rfl
  have s3 : (if L.linesR.isEmpty then (L.bufAddLine cfg 0 0).2 else L).toksR = L.toksR := by split <;> rfl
  generalize hL1 : (if L.linesR.isEmpty then (L.bufAddLine cfg 0 0).2 else L) = L1 at h1 s1 s2 s3
  unfold Lexer.intoDetached
  simp only [hL1]
  constructor
  · intro t ht
    split at ht
    · split at ht
      · simp only [List.mem_reverse] at ht; rw [← s1]; exact h1.toks t ht
      · simp only [List.mem_reverse, List.mem_cons] at ht
        rcases ht with rfl | ht
        · simpa [s1, s2] using hfull
        · rw [← s1]; exact h1.toks t ht
    · simp only [List.reverse_cons, List.reverse_nil, List.nil_append, List.mem_singleton] at ht
      subst ht; simpa [s1, s2] using hfull
  · intro l hl
    have : l ∈ L1.linesR := by
      split at hl
      · split at hl <;> simpa using hl
      · simpa using hl
    rw [← s1]; exact h1.lines l this

end SasLexer
