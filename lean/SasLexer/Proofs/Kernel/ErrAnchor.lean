import SasLexer.Proofs.Kernel.Run
/-!
# Kernel invariant `KErr`: the token an error names as its last token exists

`KErr L`: every reported error's `last_token` index is below the current token count; the
checkpoint remembers a prefix for which this also holds, so that `rollback` (which truncates
tokens **and** errors since the `fix:` commit) re-establishes it.  Holds for every program.
Before that fix the invariant was false (errors survived a rollback that removed their token).
-/
namespace SasLexer
open Lexer

def ErrOk (n : Nat) (e : ErrInfo) : Prop := ∀ i, e.lastTok = some i → i < n

theorem ErrOk.mono {n m : Nat} {e : ErrInfo} (h : ErrOk n e) (hnm : n ≤ m) : ErrOk m e :=
  fun i hi => Nat.lt_of_lt_of_le (h i hi) hnm

structure KErr (L : Lexer) : Prop where
  errs : ∀ e ∈ L.errsR, ErrOk L.toksR.length e
  reg : ∀ e, L.errReg = some e → ErrOk L.toksR.length e
  cp : ∀ c, L.cp = some c → c.nToks ≤ L.toksR.length ∧ c.nErrs ≤ L.errsR.length ∧
        ∀ e ∈ truncR L.errsR c.nErrs, ErrOk c.nToks e

theorem truncR_cons_of_le {α} (x : α) (l : List α) {n : Nat} (h : n ≤ l.length) :
    truncR (x :: l) n = truncR l n := by
  unfold truncR
  simp only [List.length_cons]
  have : l.length + 1 - n = (l.length - n) + 1 := by omega
  rw [this, List.drop_succ_cons]

theorem length_truncR {α} (l : List α) (n : Nat) : (truncR l n).length = min n l.length := by
  unfold truncR; simp; omega

theorem truncR_self {α} (l : List α) : truncR l l.length = l := by
  unfold truncR; simp

namespace KErr
variable {L : Lexer} {cfg : Cfg}

theorem prepError_ok (L : Lexer) (k : ErrorKind) : ErrOk L.toksR.length (L.prepError k) := by
  intro i hi
  unfold Lexer.prepError at hi
  dsimp only at hi
  split at hi
  · simp at hi
  · rename_i n hn
    simp only [Option.some.injEq] at hi
    omega

theorem withToks (h : KErr L) {ts : List TokInfo} (hlen : L.toksR.length ≤ ts.length) {p : Option String} :
    KErr { L with toksR := ts, panicked := p } :=
  { errs := fun e he => (h.errs e he).mono hlen
    reg := fun e he => (h.reg e he).mono hlen
    cp := fun c hc => ⟨Nat.le_trans (h.cp c hc).1 hlen, (h.cp c hc).2⟩ }

theorem frame {L' : Lexer} (h : KErr L) (e1 : L'.toksR = L.toksR) (e2 : L'.errsR = L.errsR)
    (e3 : L'.errReg = L.errReg) (e4 : L'.cp = L.cp) : KErr L' := by
  constructor
  · rw [e1, e2]; exact h.errs
  · rw [e1, e3]; exact h.reg
  · rw [e1, e2, e4]; exact h.cp

theorem bufAddToken (h : KErr L) (t : TokInfo) : KErr (L.bufAddToken cfg t) :=
  h.withToks (ts := t :: L.toksR) (by simp)

theorem emitErrorInfo (h : KErr L) {e : ErrInfo} (he : ErrOk L.toksR.length e) : KErr (L.emitErrorInfo e) := by
  constructor
  · intro e' he'
    simp only [Lexer.emitErrorInfo, List.mem_cons] at he'
    rcases he' with rfl | he'
    · exact he
    · exact h.errs e' he'
  · exact h.reg
  · intro c hc
    obtain ⟨h1, h2, h3⟩ := h.cp c hc
    refine ⟨h1, ?_, ?_⟩
    · simp only [Lexer.emitErrorInfo, List.length_cons]; omega
    · intro e' he'
      simp only [Lexer.emitErrorInfo] at he'
      rw [truncR_cons_of_le _ _ h2] at he'
      exact h3 e' he'

theorem emitError (h : KErr L) (k : ErrorKind) : KErr (L.emitError k) := h.emitErrorInfo (prepError_ok L k)

theorem bufAddLine (h : KErr L) (a b : Nat) : KErr (L.bufAddLine cfg a b).2 := h.frame rfl rfl rfl rfl
theorem lastLineOrAdd (h : KErr L) : KErr (L.lastLineOrAdd cfg).2 := by
  unfold Lexer.lastLineOrAdd; split
  · exact h.bufAddLine _ _
  · exact h
theorem startToken (h : KErr L) : KErr (L.startToken cfg) := by
  unfold Lexer.startToken; exact (h.lastLineOrAdd (cfg := cfg)).frame rfl rfl rfl rfl
theorem markIfNone (h : KErr L) : KErr (L.markIfNone cfg) := by
  unfold Lexer.markIfNone; split
  · exact h
  · exact (h.lastLineOrAdd (cfg := cfg)).frame rfl rfl rfl rfl
theorem emitTokenAtMark (h : KErr L) (ch ty p) : KErr (L.emitTokenAtMark cfg ch ty p) := by
  unfold Lexer.emitTokenAtMark; split
  · exact h.bufAddToken _
  · exact h
theorem updateLastToken (h : KErr L) (ch ty p) : KErr (L.updateLastToken cfg ch ty p) := by
  unfold Lexer.updateLastToken; split
  · rename_i t ts hts
    have := h.withToks (ts := { t with chan := ch, ty := ty, payload := p } :: ts) (p := L.panicked)
      (by simp [hts])
    exact this
  · exact (h.emitError _).bufAddToken _
theorem pushMode (h : KErr L) (m : Mode) : KErr (L.pushMode m) := h.frame rfl rfl rfl rfl
theorem popMode (h : KErr L) : KErr L.popMode := by
  unfold Lexer.popMode; split
  · exact h.frame rfl rfl rfl rfl
  · exact (h.emitError _).pushMode _
theorem mode (h : KErr L) : KErr L.mode.2 := by
  unfold Lexer.mode; split
  · exact h
  · exact (h.emitError _).pushMode _
theorem popPendingStat (h : KErr L) : KErr L.popPendingStat := by
  unfold Lexer.popPendingStat; split
  · exact h.frame rfl rfl rfl rfl
  · exact h
theorem pendingStat (h : KErr L) : KErr L.pendingStat.2 := by
  unfold Lexer.pendingStat; split
  · exact (h.emitError .InternalErrorEmptyPendingStatStack).frame rfl rfl rfl rfl
  · exact h
theorem setPendingStat (h : KErr L) (v : Bool) : KErr (L.setPendingStat v) := by
  unfold Lexer.setPendingStat; split
  · exact (h.emitError .InternalErrorEmptyPendingStatStack).frame rfl rfl rfl rfl
  · exact h.frame rfl rfl rfl rfl
theorem addStringLiteralFromSrc (h : KErr L) (a : Nat) (b : Option Nat) :
    KErr (L.addStringLiteralFromSrc cfg a b).2 := by
  unfold Lexer.addStringLiteralFromSrc
  dsimp only
  split
  · exact h.frame rfl rfl rfl rfl
  · exact (h.emitError .InternalErrorOutOfBounds).frame rfl rfl rfl rfl
theorem pendingTextFrom (h : KErr L) (a b : Nat) (k : ErrorKind) : KErr (L.pendingTextFrom a b k).2 := by
  unfold Lexer.pendingTextFrom; split
  · exact h
  · exact h.emitError _

theorem checkpoint (h : KErr L) : KErr (L.checkpoint cfg) := by
  constructor
  · exact h.errs
  · exact h.reg
  · intro c hc
    simp only [Lexer.checkpoint, Option.some.injEq] at hc
    subst hc
    refine ⟨Nat.le_refl _, Nat.le_refl _, ?_⟩
    intro e he
    simp only [Lexer.checkpoint, Lexer.dassert, truncR_self] at he
    exact h.errs e he

theorem rollback (h : KErr L) : KErr L.rollback := by
  unfold Lexer.rollback; split
  · rename_i c hc
    obtain ⟨h1, h2, h3⟩ := h.cp c hc
    constructor
    · intro e he
      have hl : (truncR L.toksR c.nToks).length = c.nToks := by rw [length_truncR]; omega
      show ErrOk (truncR L.toksR c.nToks).length e
      rw [hl]; exact h3 e he
    · intro e he; simp at he
    · intro c' hc'; simp at hc'
  · exact h.emitError _

end KErr

theorem length_retype {e n : TokenType} : ∀ {ts ts' : List TokInfo},
    retypeLastDefaultAux e n ts = some ts' → ts'.length = ts.length
  | [], ts', h => by simp [retypeLastDefaultAux] at h
  | t :: ts, ts', h => by
    unfold retypeLastDefaultAux at h
    split at h
    · split at h
      · simp only [Option.some.injEq] at h; subst h; rfl
      · simp at h
    · cases hr : retypeLastDefaultAux e n ts with
      | none => simp [hr] at h
      | some r =>
        simp only [hr, Option.map_some, Option.some.injEq] at h; subst h
        simp [length_retype hr]

theorem length_insertSep : ∀ {ts ts' : List TokInfo}, insertSepAux ts = some ts' → ts'.length = ts.length + 1
  | [], ts', h => by simp [insertSepAux] at h
  | t :: ts, ts', h => by
    unfold insertSepAux at h
    split at h
    · simp only [Option.some.injEq] at h; subst h; simp
    · cases hr : insertSepAux ts with
      | none => simp [hr] at h
      | some r =>
        simp only [hr, Option.map_some, Option.some.injEq] at h; subst h
        simp [length_insertSep hr]

/-- every primitive preserves `KErr` -/
theorem step_KErr (cfg : Cfg) (o : Op) (L : Lexer) (h : KErr L) : KErr (step cfg o L).2 := by
  cases o <;> simp only [step]
  case rest | lastTok | lastDefaultTok | secondLastDefaultTok | hasCheckpoint | nesting | modeDepth | hasMark
     | litIsEmpty | loopProbe => exact h
  case pendingText => exact h.pendingTextFrom _ _ _
  case pendingTextToMark => exact h.pendingTextFrom _ _ _
  case pendingTextWithPrev => exact h.pendingTextFrom _ _ _
  case advance | eatWhile | clearMark | pushPending | nestInc | nestDec | litBegin | litBeginAtTok | litMarkEnd | payClear
     | litAddDecoded => exact h.frame rfl rfl rfl rfl
  case advanceBy n => exact h.frame rfl rfl rfl rfl
  case addLine => exact h.bufAddLine _ _
  case startToken => exact h.startToken
  case markIfNone => exact h.markIfNone
  case emitToken => exact h.bufAddToken _
  case emitTokenAtMark => exact h.emitTokenAtMark _ _ _
  case updateLastToken => exact h.updateLastToken _ _ _
  case retypeLastDefault e n =>
    split
    · rename_i ts hts
      exact h.withToks (p := L.panicked) (by rw [length_retype hts]; exact Nat.le_refl _)
    · exact h
  case insertSepBeforeLastDefault =>
    split
    · split
      · rename_i ts hts
        exact h.withToks (p := L.panicked) (by rw [length_insertSep hts]; omega)
      · exact h
    · exact h
  case emitError k => exact h.emitError k
  case prepError k =>
    refine { h with reg := ?_ }
    intro e he
    simp only [Option.some.injEq] at he
    subst he; exact KErr.prepError_ok L k
  case emitPrepared =>
    split
    · rename_i e he
      refine { h.emitErrorInfo (h.reg e he) with reg := ?_ }
      intro e' he'; simp at he'
    · exact h
  case pushMode m => exact h.pushMode m
  case popMode => exact h.popMode
  case mode => exact h.mode
  case popModeRaw => split <;> first | exact h.frame rfl rfl rfl rfl | exact h
  case modifyTop f => split <;> first | exact h.frame rfl rfl rfl rfl | exact h
  case modifyAt i f => split <;> first | exact h.frame rfl rfl rfl rfl | exact h
  case insertModeAt i m => split <;> exact h.frame rfl rfl rfl rfl
  case checkpoint => exact h.checkpoint
  case clearCheckpoint =>
    exact { errs := h.errs, reg := h.reg, cp := by intro c hc; simp [Lexer.clearCheckpoint] at hc }
  case bumpCheckpointModeLen n =>
    refine { h with cp := ?_ }
    intro c hc
    cases hcp : L.cp with
    | none => simp [hcp] at hc
    | some c0 =>
      simp only [hcp, Option.map_some, Option.some.injEq] at hc
      subst hc
      exact h.cp c0 hcp
  case rollback => exact h.rollback
  case popPending => exact h.popPendingStat
  case pendingStat => exact h.pendingStat
  case setPending b => exact h.setPendingStat b
  case litCut => exact (h.addStringLiteralFromSrc (cfg := cfg) L.lit.lastEnd none).frame rfl rfl rfl rfl
  case litResolve back =>
    have h' : KErr (L.dassert cfg (L.lit.seen || L.lit.start == L.lit.stop)
      "assertion failed: seen_escape || lit_start_idx == cur_lit_end_idx") := h.frame rfl rfl rfl rfl
    split
    · exact h'.frame rfl rfl rfl rfl
    · exact (h'.addStringLiteralFromSrc (cfg := cfg) L.lit.lastEnd (some (L.curByte - back))).frame rfl rfl rfl rfl
  case emitEofAtCursor => exact (h.lastLineOrAdd (cfg := cfg)).bufAddToken _
  case dassert c m => exact h.frame rfl rfl rfl rfl
  case panic m => exact h.frame rfl rfl rfl rfl

theorem run_KErr (cfg : Cfg) {α} (p : Prog α) (L : Lexer) (h : KErr L) : KErr (Prog.run cfg p L).2 := by
  induction p generalizing L with
  | ret a => exact h
  | op o k ih =>
    unfold Prog.run
    have hs := step_KErr cfg o L h
    generalize step cfg o L = r at hs
    obtain ⟨resp, L'⟩ := r
    dsimp only
    split
    · exact hs
    · exact ih resp L' hs

theorem new_KErr (cfg : Cfg) (s : List Char) : KErr (Lexer.new cfg s) :=
  { errs := by intro e he; simp [Lexer.new, Lexer.bufAddLine] at he
    reg := by intro e he; simp [Lexer.new, Lexer.bufAddLine] at he
    cp := by intro c hc; simp [Lexer.new, Lexer.bufAddLine] at hc }

end SasLexer
