import SasLexer.Proofs.Kernel.Run
/-! # No primitive changes the source text -/
set_option linter.unusedSimpArgs false
namespace SasLexer
open Lexer

@[simp] theorem bufAddLine_src (cfg) (L : Lexer) (a b) : (L.bufAddLine cfg a b).2.src = L.src := rfl
@[simp] theorem bufAddToken_src (cfg) (L : Lexer) (t) : (L.bufAddToken cfg t).src = L.src := rfl
@[simp] theorem emitError_src (L : Lexer) (k) : (L.emitError k).src = L.src := rfl
@[simp] theorem pushMode_src (L : Lexer) (m) : (L.pushMode m).src = L.src := rfl
@[simp] theorem addStringLiteral_src (L : Lexer) (s) : (L.addStringLiteral s).2.src = L.src := rfl
@[simp] theorem startToken_src (cfg) (L : Lexer) : (L.startToken cfg).src = L.src := by
  unfold Lexer.startToken; simp
@[simp] theorem markIfNone_src (cfg) (L : Lexer) : (L.markIfNone cfg).src = L.src := by
  unfold Lexer.markIfNone; split <;> simp
@[simp] theorem emitTokenAtMark_src (cfg) (L : Lexer) (a b c) : (L.emitTokenAtMark cfg a b c).src = L.src := by
  unfold Lexer.emitTokenAtMark; split <;> rfl
@[simp] theorem updateLastToken_src (cfg) (L : Lexer) (a b c) : (L.updateLastToken cfg a b c).src = L.src := by
  unfold Lexer.updateLastToken; split <;> rfl
@[simp] theorem popMode_src (L : Lexer) : L.popMode.src = L.src := by unfold Lexer.popMode; split <;> rfl
@[simp] theorem mode_src (L : Lexer) : L.mode.2.src = L.src := by unfold Lexer.mode; split <;> rfl
@[simp] theorem popPendingStat_src (L : Lexer) : L.popPendingStat.src = L.src := by
  unfold Lexer.popPendingStat; split <;> rfl
@[simp] theorem pendingStat_src (L : Lexer) : L.pendingStat.2.src = L.src := by
  unfold Lexer.pendingStat; split <;> rfl
@[simp] theorem setPendingStat_src (L : Lexer) (v) : (L.setPendingStat v).src = L.src := by
  unfold Lexer.setPendingStat; split <;> rfl
@[simp] theorem rollback_src (L : Lexer) : L.rollback.src = L.src := by unfold Lexer.rollback; split <;> rfl
@[simp] theorem addStringLiteralFromSrc_src (cfg) (L : Lexer) (a b) :
    (L.addStringLiteralFromSrc cfg a b).2.src = L.src := by
  unfold Lexer.addStringLiteralFromSrc; dsimp only; split <;> rfl
@[simp] theorem pendingTextFrom_src (L : Lexer) (a b k) : (L.pendingTextFrom a b k).2.src = L.src := by
  unfold Lexer.pendingTextFrom; split <;> rfl

theorem step_src (cfg : Cfg) (o : Op) (L : Lexer) : (step cfg o L).2.src = L.src := by
  cases o <;> simp only [step] <;> (try rfl) <;> (try simp [Lexer.pendingText, Lexer.addLine, Lexer.emitToken,
      Lexer.clearMark, Lexer.checkpoint, Lexer.clearCheckpoint, Lexer.pushPendingStat, Lexer.emitErrorInfo]) <;>
    (repeat' split) <;> (try rfl) <;> simp

theorem run_src (cfg : Cfg) {α} (p : Prog α) (L : Lexer) : (Prog.run cfg p L).2.src = L.src := by
  induction p generalizing L with
  | ret a => rfl
  | op o k ih =>
    unfold Prog.run
    have hs := step_src cfg o L
    generalize step cfg o L = r at hs
    obtain ⟨resp, L'⟩ := r
    dsimp only at hs ⊢
    split
    · exact hs
    · rw [ih resp L', hs]

theorem new_src (cfg : Cfg) (s : List Char) : (Lexer.new cfg s).src = s := rfl

end SasLexer
