import SasLexer.Proofs.Kernel.ErrAnchor
set_option linter.unusedSimpArgs false
/-!
# Kernel invariant `KOrd`: errors are listed in non-decreasing source order

`KOrd L`: the error list is sorted by byte offset, every error lies at or before the cursor, the prepared error (if
any) too, and the checkpoint remembers a prefix of the errors that lies at or before *its* cursor — so that
`rollback` (which truncates the errors and moves the cursor back) re-establishes all of it.

Every primitive preserves `KOrd`, except that `emitPrepared` appends an error prepared earlier: its offset must not
lie before an error emitted in between.  That side condition (`PrepOk`) is what the discipline of
`Proofs/Model/ErrOrd.lean` establishes for the modelled control logic.
-/
namespace SasLexer
open Lexer

/-- newest first: every older error lies at or before every newer one -/
def ErrSorted (l : List ErrInfo) : Prop := l.Pairwise fun newer older => older.byte ≤ newer.byte

structure KOrd (L : Lexer) : Prop where
  sorted : ErrSorted L.errsR
  le : ∀ e ∈ L.errsR, e.byte ≤ L.curByte
  reg : ∀ e, L.errReg = some e → e.byte ≤ L.curByte
  cp : ∀ c, L.cp = some c → c.nErrs ≤ L.errsR.length ∧
        ∀ e ∈ truncR L.errsR c.nErrs, e.byte ≤ L.srcLen - c.cur.remBytes

/-- the prepared error does not lie before an error that is already listed -/
def PrepOk (L : Lexer) : Prop := ∀ e, L.errReg = some e → ∀ e' ∈ L.errsR, e'.byte ≤ e.byte

theorem truncR_sublist {α} (l : List α) (n : Nat) : (truncR l n).Sublist l := List.drop_sublist _ _

namespace KOrd
variable {L : Lexer} {cfg : Cfg}

/-- `KOrd` only reads the error list, the prepared error, the checkpoint, the cursor's remaining bytes, the source length -/
theorem mono {L' : Lexer} (h : KOrd L) (e2 : L'.errsR = L.errsR) (e3 : L'.errReg = L.errReg) (e4 : L'.cp = L.cp)
    (e5 : L'.srcLen = L.srcLen) (e6 : L.curByte ≤ L'.curByte) : KOrd L' := by
  constructor
  · rw [e2]; exact h.sorted
  · rw [e2]; intro e he; exact Nat.le_trans (h.le e he) e6
  · rw [e3]; intro e he; exact Nat.le_trans (h.reg e he) e6
  · rw [e2, e4, e5]; exact h.cp

theorem frame {L' : Lexer} (h : KOrd L) (e2 : L'.errsR = L.errsR) (e3 : L'.errReg = L.errReg) (e4 : L'.cp = L.cp)
    (e5 : L'.srcLen = L.srcLen) (e6 : L'.cur = L.cur) : KOrd L' :=
  h.mono e2 e3 e4 e5 (by simp [Lexer.curByte, e5, e6])

theorem emitErrorInfo (h : KOrd L) {e : ErrInfo} (he : e.byte ≤ L.curByte) (hs : ∀ e' ∈ L.errsR, e'.byte ≤ e.byte) :
    KOrd (L.emitErrorInfo e) := by
  constructor
  · simp only [Lexer.emitErrorInfo, ErrSorted, List.pairwise_cons]
    exact ⟨hs, h.sorted⟩
  · intro e' he'
    simp only [Lexer.emitErrorInfo, List.mem_cons] at he'
    rcases he' with rfl | he'
    · exact he
    · exact h.le e' he'
  · exact h.reg
  · intro c hc
    obtain ⟨h2, h3⟩ := h.cp c hc
    refine ⟨?_, ?_⟩
    · simp only [Lexer.emitErrorInfo, List.length_cons]; omega
    · intro e' he'
      simp only [Lexer.emitErrorInfo] at he'
      rw [truncR_cons_of_le _ _ h2] at he'
      exact h3 e' he'

theorem prepError_byte (L : Lexer) (k : ErrorKind) : (L.prepError k).byte = L.curByte := rfl

theorem emitError (h : KOrd L) (k : ErrorKind) : KOrd (L.emitError k) :=
  h.emitErrorInfo (Nat.le_refl _) (fun e' he' => h.le e' he')

theorem bufAddLine (h : KOrd L) (a b : Nat) : KOrd (L.bufAddLine cfg a b).2 := h.frame rfl rfl rfl rfl rfl
theorem lastLineOrAdd (h : KOrd L) : KOrd (L.lastLineOrAdd cfg).2 := by
  unfold Lexer.lastLineOrAdd; split
  · exact h.bufAddLine _ _
  · exact h
theorem startToken (h : KOrd L) : KOrd (L.startToken cfg) := by
  unfold Lexer.startToken; exact (h.lastLineOrAdd (cfg := cfg)).frame rfl rfl rfl rfl rfl
theorem markIfNone (h : KOrd L) : KOrd (L.markIfNone cfg) := by
  unfold Lexer.markIfNone; split
  · exact h
  · exact (h.lastLineOrAdd (cfg := cfg)).frame rfl rfl rfl rfl rfl
theorem bufAddToken (h : KOrd L) (t : TokInfo) : KOrd (L.bufAddToken cfg t) := h.frame rfl rfl rfl rfl rfl
theorem emitTokenAtMark (h : KOrd L) (ch ty p) : KOrd (L.emitTokenAtMark cfg ch ty p) := by
  unfold Lexer.emitTokenAtMark; split
  · exact h.bufAddToken _
  · exact h
theorem updateLastToken (h : KOrd L) (ch ty p) : KOrd (L.updateLastToken cfg ch ty p) := by
  unfold Lexer.updateLastToken; split
  · exact h.frame rfl rfl rfl rfl rfl
  · exact (h.emitError _).bufAddToken _
theorem pushMode (h : KOrd L) (m : Mode) : KOrd (L.pushMode m) := h.frame rfl rfl rfl rfl rfl
theorem popMode (h : KOrd L) : KOrd L.popMode := by
  unfold Lexer.popMode; split
  · exact h.frame rfl rfl rfl rfl rfl
  · exact (h.emitError _).pushMode _
theorem mode (h : KOrd L) : KOrd L.mode.2 := by
  unfold Lexer.mode; split
  · exact h
  · exact (h.emitError _).pushMode _
theorem popPendingStat (h : KOrd L) : KOrd L.popPendingStat := by
  unfold Lexer.popPendingStat; split
  · exact h.frame rfl rfl rfl rfl rfl
  · exact h
theorem pendingStat (h : KOrd L) : KOrd L.pendingStat.2 := by
  unfold Lexer.pendingStat; split
  · exact (h.emitError .InternalErrorEmptyPendingStatStack).frame rfl rfl rfl rfl rfl
  · exact h
theorem setPendingStat (h : KOrd L) (v : Bool) : KOrd (L.setPendingStat v) := by
  unfold Lexer.setPendingStat; split
  · exact (h.emitError .InternalErrorEmptyPendingStatStack).frame rfl rfl rfl rfl rfl
  · exact h.frame rfl rfl rfl rfl rfl
theorem addStringLiteralFromSrc (h : KOrd L) (a : Nat) (b : Option Nat) :
    KOrd (L.addStringLiteralFromSrc cfg a b).2 := by
  unfold Lexer.addStringLiteralFromSrc
  dsimp only
  split
  · exact h.frame rfl rfl rfl rfl rfl
  · exact (h.emitError .InternalErrorOutOfBounds).frame rfl rfl rfl rfl rfl
theorem pendingTextFrom (h : KOrd L) (a b : Nat) (k : ErrorKind) : KOrd (L.pendingTextFrom a b k).2 := by
  unfold Lexer.pendingTextFrom; split
  · exact h
  · exact h.emitError _

theorem checkpoint (h : KOrd L) : KOrd (L.checkpoint cfg) := by
  constructor
  · exact h.sorted
  · exact h.le
  · exact h.reg
  · intro c hc
    simp only [Lexer.checkpoint, Option.some.injEq] at hc
    subst hc
    refine ⟨Nat.le_refl _, ?_⟩
    intro e he
    simp only [Lexer.checkpoint, Lexer.dassert, truncR_self] at he
    exact h.le e he

theorem rollback (h : KOrd L) : KOrd L.rollback := by
  unfold Lexer.rollback; split
  · rename_i c hc
    obtain ⟨h2, h3⟩ := h.cp c hc
    constructor
    · exact List.Pairwise.sublist (truncR_sublist _ _) h.sorted
    · intro e he; exact h3 e he
    · intro e he; simp at he
    · intro c' hc'; simp at hc'
  · exact h.emitError _

end KOrd

/-- every primitive preserves `KOrd`, `emitPrepared` under its side condition -/
theorem step_KOrd (cfg : Cfg) (o : Op) (L : Lexer) (h : KOrd L) (hs : o = .emitPrepared → PrepOk L) :
    KOrd (step cfg o L).2 := by
  have advMono : ∀ {L' : Lexer}, L'.errsR = L.errsR → L'.errReg = L.errReg → L'.cp = L.cp → L'.srcLen = L.srcLen →
      L'.cur.remBytes ≤ L.cur.remBytes → KOrd L' := by
    intro L' e2 e3 e4 e5 e6
    exact h.mono e2 e3 e4 e5 (by simp only [Lexer.curByte, e5]; omega)
  cases o <;> simp only [step]
  case rest | lastTok | lastDefaultTok | secondLastDefaultTok | hasCheckpoint | nesting | modeDepth | hasMark
     | litIsEmpty | loopProbe => exact h
  case pendingText => exact h.pendingTextFrom _ _ _
  case pendingTextToMark => exact h.pendingTextFrom _ _ _
  case pendingTextWithPrev => exact h.pendingTextFrom _ _ _
  case clearMark | pushPending | nestInc | nestDec | litBegin | litBeginAtTok | litMarkEnd | payClear
     | litAddDecoded => exact h.frame rfl rfl rfl rfl rfl
  case advance =>
    refine advMono rfl rfl rfl rfl ?_
    simp only [Cursor.advance]; split <;> simp
  case advanceBy n =>
    refine advMono rfl rfl rfl rfl ?_
    simp only [Lexer.dassert]
    have : ∀ (n : Nat) (c : Cursor), (c.advanceBy n).remBytes ≤ c.remBytes := by
      intro n
      induction n with
      | zero => intro c; simp [Cursor.advanceBy]
      | succ n ih =>
        intro c
        simp only [Cursor.advanceBy]; split
        · exact Nat.le_refl _
        · exact Nat.le_trans (ih _) (Nat.sub_le _ _)
    exact this _ _
  case eatWhile p =>
    refine advMono rfl rfl rfl rfl ?_
    simp only [Cursor.eatWhile]
    have : ∀ (r : List Char) (co rb : Nat), (Cursor.eatWhileAux p r co rb).2.2 ≤ rb := by
      intro r
      induction r with
      | nil => intro co rb; simp [Cursor.eatWhileAux]
      | cons ch r ih =>
        intro co rb
        simp only [Cursor.eatWhileAux]; split
        · exact Nat.le_trans (ih _ _) (Nat.sub_le _ _)
        · exact Nat.le_refl _
    exact this _ _ _
  case addLine => exact h.bufAddLine _ _
  case startToken => exact h.startToken
  case markIfNone => exact h.markIfNone
  case emitToken => exact h.bufAddToken _
  case emitTokenAtMark => exact h.emitTokenAtMark _ _ _
  case updateLastToken => exact h.updateLastToken _ _ _
  case retypeLastDefault e n => split <;> first | exact h.frame rfl rfl rfl rfl rfl | exact h
  case insertSepBeforeLastDefault =>
    split
    · split <;> first | exact h.frame rfl rfl rfl rfl rfl | exact h
    · exact h
  case emitError k => exact h.emitError k
  case prepError k =>
    refine { h with reg := ?_ }
    intro e he
    simp only [Option.some.injEq] at he
    subst he; exact Nat.le_refl _
  case emitPrepared =>
    split
    · rename_i e he
      refine { h.emitErrorInfo (h.reg e he) (hs rfl e he) with reg := ?_ }
      intro e' he'; simp at he'
    · exact h
  case pushMode m => exact h.pushMode m
  case popMode => exact h.popMode
  case mode => exact h.mode
  case popModeRaw => split <;> first | exact h.frame rfl rfl rfl rfl rfl | exact h
  case modifyTop f => split <;> first | exact h.frame rfl rfl rfl rfl rfl | exact h
  case modifyAt i f => split <;> first | exact h.frame rfl rfl rfl rfl rfl | exact h
  case insertModeAt i m => split <;> exact h.frame rfl rfl rfl rfl rfl
  case checkpoint => exact h.checkpoint
  case clearCheckpoint =>
    exact { sorted := h.sorted, le := h.le, reg := h.reg, cp := by intro c hc; simp [Lexer.clearCheckpoint] at hc }
  case bumpCheckpointModeLen n =>
    refine { h with cp := ?_ }
    intro c hc
    cases hcp : L.cp with
    | none => simp [hcp] at hc
    | some c0 =>
      simp only [hcp, Option.map_some, Option.some.injEq] at hc
      subst hc
      exact h.cp c0 hcp
  case rollback => exact h.rollback
  case popPending => exact h.popPendingStat
  case pendingStat => exact h.pendingStat
  case setPending b => exact h.setPendingStat b
  case litCut => exact (h.addStringLiteralFromSrc (cfg := cfg) L.lit.lastEnd none).frame rfl rfl rfl rfl rfl
  case litResolve back =>
    have h' : KOrd (L.dassert cfg (L.lit.seen || L.lit.start == L.lit.stop)
      "assertion failed: seen_escape || lit_start_idx == cur_lit_end_idx") := h.frame rfl rfl rfl rfl rfl
    split
    · exact h'.frame rfl rfl rfl rfl rfl
    · exact (h'.addStringLiteralFromSrc (cfg := cfg) L.lit.lastEnd (some (L.curByte - back))).frame rfl rfl rfl rfl rfl
  case emitEofAtCursor => exact (h.lastLineOrAdd (cfg := cfg)).bufAddToken _
  case dassert c m => exact h.frame rfl rfl rfl rfl rfl
  case panic m => exact h.frame rfl rfl rfl rfl rfl

theorem new_KOrd (cfg : Cfg) (s : List Char) : KOrd (Lexer.new cfg s) :=
  { sorted := by simp [Lexer.new, Lexer.bufAddLine, ErrSorted]
    le := by intro e he; simp [Lexer.new, Lexer.bufAddLine] at he
    reg := by intro e he; simp [Lexer.new, Lexer.bufAddLine] at he
    cp := by intro c hc; simp [Lexer.new, Lexer.bufAddLine] at hc }

end SasLexer
