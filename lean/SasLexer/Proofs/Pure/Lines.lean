import SasLexer.Buffer
import SasLexer.Spec.Basic
import SasLexer.Proofs.Kernel.Pos
import SasLexer.Proofs.Pure.Resolved
/-!
# C04 (pure part): on a buffer whose line table is exact, every line/column of the resolved view
is the line/column of the text

`LineWF s b`: the line table of `b` is `lineStarts s` (one entry per line feed, after the BOM),
every token is a position pair of `s` at or after the BOM whose line index is the number of line
feeds before it, and starts never decrease.  Under `LineWF` the arithmetic of
`into_resolved_token_vec` / the accessors (kept as written, with `u32` wrap/overflow semantics)
yields exactly `lineIdxOfChar + 1`, `colOfChar` and `endPos` of the specification.
-/
namespace SasLexer

def nlCount (l : List Char) : Nat := (l.filter (· == '\n')).length
def sinceNl (l : List Char) : Nat := (l.reverse.takeWhile (· != '\n')).length

theorem nlCount_snoc (l : List Char) (c : Char) :
    nlCount (l ++ [c]) = nlCount l + (if c = '\n' then 1 else 0) := by
  unfold nlCount
  by_cases h : c = '\n' <;> simp [List.filter_append, h]

theorem sinceNl_snoc (l : List Char) (c : Char) :
    sinceNl (l ++ [c]) = if c = '\n' then 0 else sinceNl l + 1 := by
  unfold sinceNl
  by_cases h : c = '\n' <;> simp [List.reverse_append, h]

theorem sinceNl_le (l : List Char) : sinceNl l ≤ l.length := by
  unfold sinceNl
  have := (List.takeWhile_sublist (l := l.reverse) (fun c : Char => c != '\n')).length_le
  simpa using this

/-- the line-table entry in force after the chars `l` (scanning from `(b, k)` with entry `cur` in force) -/
def llsFrom : List Char → Nat → Nat → LineInfo → LineInfo
  | [], _, _, cur => cur
  | c :: cs, b, k, cur =>
    llsFrom cs (b + c.utf8Size) (k + 1) (if c = '\n' then ⟨b + c.utf8Size, k + 1⟩ else cur)

theorem lines_index (pre suf : List Char) : ∀ (b k : Nat) (cur : LineInfo),
    (cur :: lineStartsFrom (pre ++ suf) b k)[nlCount pre]? = some (llsFrom pre b k cur) := by
  induction pre with
  | nil => intro b k cur; simp [nlCount, llsFrom]
  | cons c p ih =>
    intro b k cur
    by_cases h : c = '\n'
    · subst h
      have hn : nlCount ('\n' :: p) = nlCount p + 1 := by simp [nlCount]
      simp only [List.cons_append, lineStartsFrom, if_true, llsFrom]
      rw [hn, List.getElem?_cons_succ]
      exact ih _ _ _
    · have hn : nlCount (c :: p) = nlCount p := by simp [nlCount, h]
      simp only [List.cons_append, lineStartsFrom, h, if_false, hn, llsFrom]
      exact ih _ _ _

theorem llsFrom_snoc (l : List Char) (c : Char) : ∀ (b k : Nat) (cur : LineInfo),
    llsFrom (l ++ [c]) b k cur =
      if c = '\n' then ⟨b + utf8Len l + c.utf8Size, k + l.length + 1⟩ else llsFrom l b k cur := by
  induction l with
  | nil => intro b k cur; simp [llsFrom, utf8Len]
  | cons d l ih =>
    intro b k cur
    simp only [List.cons_append, llsFrom, ih, utf8Len, List.length_cons]
    split
    · congr 1 <;> omega
    · rfl

theorem lineStartsFrom_length (l : List Char) : ∀ (b k : Nat), (lineStartsFrom l b k).length = nlCount l := by
  induction l with
  | nil => intro b k; simp [lineStartsFrom, nlCount]
  | cons c l ih =>
    intro b k
    by_cases h : c = '\n'
    · simp [lineStartsFrom, h, ih, nlCount]
    · simp [lineStartsFrom, h, ih, nlCount]


/-! ## the entry in force after a prefix, and its invariant -/

def bomLine (s : List Char) : LineInfo := ⟨bomLen s, bomChars s⟩
def LL (s l : List Char) : LineInfo := llsFrom l 0 0 (bomLine s)

theorem LL_snoc (s l : List Char) (c : Char) :
    LL s (l ++ [c]) = if c = '\n' then ⟨utf8Len l + c.utf8Size, l.length + 1⟩ else LL s l := by
  simp [LL, llsFrom_snoc]

def LLInv (s l : List Char) : Prop :=
  (sinceNl l = l.length ∧ LL s l = bomLine s) ∨
  (sinceNl l < l.length ∧ ∃ p q, l = p ++ q ∧ LL s l = ⟨utf8Len p, p.length⟩ ∧ q.length = sinceNl l)

theorem LLInv_rev (s : List Char) : ∀ r : List Char, LLInv s r.reverse := by
  intro r
  induction r with
  | nil => left; simp [sinceNl, LL, llsFrom]
  | cons c r ih =>
    rw [List.reverse_cons]
    generalize r.reverse = l at ih
    unfold LLInv
    rw [sinceNl_snoc, LL_snoc]
    by_cases h : c = '\n'
    · right
      simp only [h, if_true, List.length_append, List.length_singleton]
      refine ⟨by omega, l ++ ['\n'], [], by simp, ?_, by simp⟩
      simp [utf8Len_append, utf8Len]
    · simp only [h, if_false, List.length_append, List.length_singleton]
      rcases ih with ⟨h1, h2⟩ | ⟨h1, p, q, hl, hll, hq⟩
      · left; exact ⟨by omega, h2⟩
      · right
        refine ⟨by omega, p, q ++ [c], by simp [hl], hll, by simp [hq]⟩

theorem LLInv_all (s l : List Char) : LLInv s l := by
  have := LLInv_rev s l.reverse
  simpa using this

theorem bomLine_posPair (s : List Char) : PosPair s (bomLen s) (bomChars s) := by
  unfold bomLen bomChars
  cases s with
  | nil => exact PosPair.zero _
  | cons c cs =>
    by_cases h : c = BOM
    · subst h
      simp only [if_true]
      exact ⟨[BOM], cs, rfl, by decide, rfl⟩
    · simp only [h, if_false]; exact PosPair.zero _

/-- facts about the entry in force at the end of a prefix `pre` of `s` that reaches past the BOM -/
theorem LL_facts {s pre suf : List Char} (hs : s = pre ++ suf) (hb : bomChars s ≤ pre.length) :
    (LL s pre).start ≤ pre.length ∧ (LL s pre).byte ≤ utf8Len pre ∧
    PosPair s (LL s pre).byte (LL s pre).start := by
  rcases LLInv_all s pre with ⟨_, h2⟩ | ⟨_, p, q, hl, hll, _⟩
  · rw [h2]
    refine ⟨hb, ?_, bomLine_posPair s⟩
    show bomLen s ≤ utf8Len pre
    unfold bomLen bomChars at *
    cases s with
    | nil => simp
    | cons c cs =>
      by_cases h : c = BOM
      · subst h
        simp only [if_true] at hb ⊢
        cases pre with
        | nil => simp at hb
        | cons d pre =>
          simp only [List.cons_append, List.cons.injEq] at hs
          rw [← hs.1]
          simp [utf8Len]
          have : BOM.utf8Size = 3 := by decide
          omega
      · simp [h]
  · rw [hll]
    refine ⟨by simp [hl], by rw [hl, utf8Len_append]; simp, ⟨p, q ++ suf, by simp [hs, hl], rfl, rfl⟩⟩


theorem lineIdxOfChar_prefix {s pre suf : List Char} (hs : s = pre ++ suf) :
    lineIdxOfChar s pre.length = nlCount pre := by
  subst hs; simp [lineIdxOfChar, nlCount]

theorem lines_lookup {s pre suf : List Char} (hs : s = pre ++ suf) :
    (lineStarts s)[nlCount pre]? = some (LL s pre) := by
  have := lines_index pre suf 0 0 (bomLine s)
  rw [← hs] at this
  exact this

theorem colOfChar_prefix {s pre suf : List Char} (hs : s = pre ++ suf) :
    colOfChar s pre.length = pre.length - (LL s pre).start := by
  have ht : s.take pre.length = pre := by subst hs; simp
  unfold colOfChar
  simp only [ht]
  show (if sinceNl pre = pre.length then sinceNl pre - bomChars s else sinceNl pre) = _
  rcases LLInv_all s pre with ⟨h1, h2⟩ | ⟨h1, p, q, hl, hll, hq⟩
  · simp [h1, h2, bomLine]
  · have : sinceNl pre ≠ pre.length := by omega
    simp only [this, if_false, hll]
    have : pre.length = p.length + q.length := by rw [hl]; simp
    omega

/-- a prefix that ends in a line feed: the entry in force starts exactly at its end, and the
previous entry is the one in force before the line feed -/
theorem LL_after_nl (s l : List Char) :
    LL s (l ++ ['\n']) = ⟨utf8Len (l ++ ['\n']), (l ++ ['\n']).length⟩ ∧ nlCount (l ++ ['\n']) = nlCount l + 1 := by
  rw [LL_snoc, nlCount_snoc]
  simp [utf8Len_append, utf8Len]

/-- a prefix that does not end in a line feed and reaches past the BOM: the entry in force starts
strictly before its end -/
theorem LL_not_after_nl {s l suf : List Char} {c : Char} (hs : s = (l ++ [c]) ++ suf) (hc : c ≠ '\n')
    (hb : bomChars s ≤ l.length) :
    LL s (l ++ [c]) = LL s l ∧ (LL s l).start ≤ l.length ∧ nlCount (l ++ [c]) = nlCount l := by
  rw [LL_snoc, nlCount_snoc]
  simp only [hc, if_false, Nat.add_zero, true_and, and_true]
  exact (LL_facts (s := s) (pre := l) (suf := [c] ++ suf) (by simp [hs]) hb).1

/-- two position pairs of the same text are ordered alike by bytes and by chars -/
theorem posPair_lt_iff {s : List Char} {b c b' c' : Nat} (h : PosPair s b c) (h' : PosPair s b' c') :
    (b < b' ↔ c < c') ∧ (b = b' ↔ c = c') := by
  obtain ⟨p, q, hs, rfl, rfl⟩ := h
  obtain ⟨p', q', hs', rfl, rfl⟩ := h'
  have key : ∀ (p q p' q' : List Char), p ++ q = p' ++ q' → p.length < p'.length → utf8Len p < utf8Len p' := by
    intro p q p' q' he hl
    have hp : p = p'.take p.length := by
      have := congrArg (List.take p.length) he
      simp only [List.take_left'] at this
      rw [List.take_append_of_le_length (by omega)] at this
      simpa using this
    have hsplit : p' = p'.take p.length ++ p'.drop p.length := (List.take_append_drop _ _).symm
    have hd : (p'.drop p.length) ≠ [] := by
      intro h0
      have := congrArg List.length h0
      simp at this; omega
    rw [hsplit, utf8Len_append, ← hp]
    cases hdd : p'.drop p.length with
    | nil => exact absurd hdd hd
    | cons d ds =>
      simp only [utf8Len]
      have : 0 < d.utf8Size := Char.utf8Size_pos d
      omega
  have e : p ++ q = p' ++ q' := hs.symm.trans hs'
  rcases Nat.lt_trichotomy p.length p'.length with hl | hl | hl
  · have := key p q p' q' e hl
    constructor <;> constructor <;> intros <;> omega
  · have hp : p = p' := by
      have := List.append_inj_left e hl
      exact this
    subst hp
    simp
  · have := key p' q' p q e.symm hl
    constructor <;> constructor <;> intros <;> omega


/-! ## the line table is sorted -/

theorem lineStartsFrom_bounds (l : List Char) : ∀ (b k : Nat), ∀ e ∈ lineStartsFrom l b k, b ≤ e.byte ∧ k ≤ e.start := by
  induction l with
  | nil => intro b k e he; simp [lineStartsFrom] at he
  | cons c l ih =>
    intro b k e he
    by_cases h : c = '\n'
    · simp only [lineStartsFrom, h, if_true, List.mem_cons] at he
      rcases he with rfl | he
      · simp
      · have := ih _ _ e he; omega
    · simp only [lineStartsFrom, h, if_false] at he
      have := ih _ _ e he; omega

def LineLe (x y : LineInfo) : Prop := x.byte ≤ y.byte ∧ x.start ≤ y.start

theorem lineStartsFrom_pairwise (l : List Char) : ∀ (b k : Nat), (lineStartsFrom l b k).Pairwise LineLe := by
  induction l with
  | nil => intro b k; simp [lineStartsFrom]
  | cons c l ih =>
    intro b k
    by_cases h : c = '\n'
    · simp only [lineStartsFrom, h, if_true, List.pairwise_cons]
      exact ⟨fun e he => lineStartsFrom_bounds l _ _ e he, ih _ _⟩
    · simp only [lineStartsFrom, h, if_false]
      exact ih _ _

theorem lineStarts_pairwise (s : List Char) : (lineStarts s).Pairwise LineLe := by
  unfold lineStarts
  rw [List.pairwise_cons]
  refine ⟨?_, lineStartsFrom_pairwise s 0 0⟩
  intro e he
  unfold bomLen bomChars LineLe
  cases s with
  | nil => simp [lineStartsFrom] at he
  | cons c cs =>
    by_cases hb : c = BOM
    · subst hb
      have hne : BOM ≠ '\n' := by decide
      simp only [lineStartsFrom, hne, if_false] at he
      have := lineStartsFrom_bounds cs _ _ e he
      have h3 : BOM.utf8Size = 3 := by decide
      simp only [if_true]
      omega
    · simp [hb]

theorem lineStarts_sorted (s : List Char) (i j : Nat) (li lj : LineInfo) (hij : i ≤ j)
    (hi : (lineStarts s)[i]? = some li) (hj : (lineStarts s)[j]? = some lj) :
    li.byte ≤ lj.byte ∧ li.start ≤ lj.start := by
  rcases Nat.lt_or_eq_of_le hij with hlt | heq
  · have hp := lineStarts_pairwise s
    rw [List.pairwise_iff_getElem] at hp
    have hil := DBuf.lt_length_of_getElem? hi
    have hjl := DBuf.lt_length_of_getElem? hj
    have := hp i j hil hjl hlt
    rw [List.getElem?_eq_getElem hil] at hi
    rw [List.getElem?_eq_getElem hjl] at hj
    simp only [Option.some.injEq] at hi hj
    rw [hi, hj] at this
    exact this
  · subst heq
    rw [hi] at hj
    simp only [Option.some.injEq] at hj
    subst hj
    exact ⟨Nat.le_refl _, Nat.le_refl _⟩


/-! ## buffers with an exact line table -/

structure TokOK (s : List Char) (t : TokInfo) : Prop where
  pos : PosPair s t.byte t.start
  bom : bomChars s ≤ t.start
  line : t.line = lineIdxOfChar s t.start

structure LineWF (s : List Char) (b : DBuf) : Prop where
  lines : b.lines = lineStarts s
  small : (lineStarts s).length < two32
  toks : ∀ t ∈ b.toks, TokOK s t
  mono : ∀ i x y, b.toks[i]? = some x → b.toks[i + 1]? = some y → x.start ≤ y.start

/-- what `TokOK` gives about the line entry of a token -/
theorem TokOK.entry {s : List Char} {t : TokInfo} (h : TokOK s t) :
    ∃ pre suf, s = pre ++ suf ∧ t.byte = utf8Len pre ∧ t.start = pre.length ∧ t.line = nlCount pre ∧
      (lineStarts s)[t.line]? = some (LL s pre) ∧ (LL s pre).start ≤ t.start ∧ (LL s pre).byte ≤ t.byte ∧
      PosPair s (LL s pre).byte (LL s pre).start ∧
      lineIdxOfChar s t.start = nlCount pre ∧ colOfChar s t.start = t.start - (LL s pre).start := by
  obtain ⟨pre, suf, hs, hb, hc⟩ := h.pos
  have hl : t.line = nlCount pre := by rw [h.line, hc, lineIdxOfChar_prefix hs]
  have hf := LL_facts hs (by rw [← hc]; exact h.bom)
  refine ⟨pre, suf, hs, hb, hc, hl, ?_, ?_, ?_, hf.2.2, ?_, ?_⟩
  · rw [hl]; exact lines_lookup hs
  · rw [hc]; exact hf.1
  · rw [hb]; exact hf.2.1
  · rw [hc]; exact lineIdxOfChar_prefix hs
  · rw [hc]; exact colOfChar_prefix hs

theorem LineWF.wf {s : List Char} {b : DBuf} (h : LineWF s b) : b.WF where
  mono := by
    intro i x y hx hy
    have hm := h.mono i x y hx hy
    have hxo := h.toks x (List.mem_of_getElem? hx)
    have hyo := h.toks y (List.mem_of_getElem? hy)
    have := (posPair_lt_iff hyo.pos hxo.pos).1
    rcases Nat.lt_or_ge y.byte x.byte with hlt | hge
    · have := this.1 hlt; omega
    · exact hge
  lineOk := by
    intro t ht
    obtain ⟨pre, suf, _, _, _, _, hlk, h1, h2, _⟩ := (h.toks t ht).entry
    exact ⟨LL s pre, by rw [h.lines]; exact hlk, h2, h1⟩
  linesSorted := by
    intro i j li lj hij hi hj
    rw [h.lines] at hi hj
    exact lineStarts_sorted s i j li lj hij hi hj
  small := by rw [h.lines]; exact h.small

/-- the specification's row for a token spanning chars `[a, b)` -/
def SpecRow (s : List Char) (r : DBuf.Row) : Prop :=
  r.line = lineIdxOfChar s r.start + 1 ∧ r.col = colOfChar s r.start ∧
  (r.endLine, r.endCol) = Spec.endPos s r.start r.stop

theorem lastRow_spec {s : List Char} {cur : TokInfo} (hc : TokOK s cur) (i : Nat) :
    ∃ cli, (lineStarts s)[cur.line]? = some cli ∧ cli.start ≤ cur.start ∧ SpecRow s (DBuf.lastRow i cur cli) := by
  obtain ⟨pre, suf, _, _, _, hl, hlk, h1, _, _, hli, hcol⟩ := hc.entry
  refine ⟨LL s pre, hlk, h1, ?_⟩
  unfold SpecRow DBuf.lastRow Spec.endPos
  simp only [Nat.le_refl, if_true]
  rw [hli, hcol, hl]
  exact ⟨rfl, rfl, rfl⟩


theorem exists_snoc {l : List Char} (h : 0 < l.length) : ∃ l' c, l = l' ++ [c] := by
  have hne : l ≠ [] := by intro h0; rw [h0] at h; simp at h
  exact ⟨l.dropLast, l.getLast hne, (List.dropLast_concat_getLast hne).symm⟩

theorem pairRow_spec {s : List Char} {cur next : TokInfo} (hc : TokOK s cur) (hn : TokOK s next)
    (hle : cur.start ≤ next.start) (i : Nat) :
    ∃ cli nli eli, (lineStarts s)[cur.line]? = some cli ∧ (lineStarts s)[next.line]? = some nli ∧
      cli.start ≤ cur.start ∧
      (lineStarts s)[(if (next.byte > nli.byte || cur.byte == next.byte) then next.line else next.line - 1)]? = some eli ∧
      eli.start ≤ next.start ∧
      ((next.byte > nli.byte || cur.byte == next.byte) = false → 1 ≤ next.line) ∧
      SpecRow s (DBuf.pairRow i cur next cli nli eli) := by
  obtain ⟨preA, sufA, hsA, hbA, hcA, hlA, hlkA, h1A, _, _, hliA, hcolA⟩ := hc.entry
  obtain ⟨preB, sufB, hsB, hbB, hcB, hlB, hlkB, h1B, h2B, hppB, hliB, hcolB⟩ := hn.entry
  have hord := posPair_lt_iff hc.pos hn.pos
  rcases Nat.lt_or_eq_of_le hle with hlt | heq
  · -- non-empty token: look at its last char
    obtain ⟨l, c, hl⟩ := exists_snoc (l := preB) (by omega)
    have hbl : next.start = l.length + 1 := by rw [hcB, hl]; simp
    have hbomL : bomChars s ≤ l.length := by have := hc.bom; omega
    have hbytelt : cur.byte < next.byte := hord.1.2 hlt
    have hne : (cur.byte == next.byte) = false := by
      simp only [beq_eq_false_iff_ne, ne_eq]; omega
    have hsL : s = l ++ ([c] ++ sufB) := by rw [hsB, hl]; simp
    have hfL := LL_facts hsL hbomL
    by_cases hnl : c = '\n'
    · -- the token ends with a line feed: its end is on the previous line
      subst hnl
      obtain ⟨hLL, hcnt⟩ := LL_after_nl s l
      rw [← hl] at hLL hcnt
      have hnb : next.byte = (LL s preB).byte := by rw [hLL, hbB]
      have hup : (decide (next.byte > (LL s preB).byte) || cur.byte == next.byte) = false := by
        rw [hne, Bool.or_false]; simp only [decide_eq_false_iff_not]; omega
      have hline : next.line - 1 = nlCount l := by rw [hlB, hcnt]; simp
      refine ⟨LL s preA, LL s preB, LL s l, hlkA, hlkB, h1A, ?_, ?_, ?_, ?_⟩
      · simp only [hup, Bool.false_eq_true, if_false]
        rw [hline]; exact lines_lookup hsL
      · have := hfL.1; omega
      · intro _; rw [hlB, hcnt]; omega
      · unfold SpecRow DBuf.pairRow Spec.endPos
        simp only [hup, Bool.false_eq_true, if_false]
        have hnle : ¬ next.start ≤ cur.start := by omega
        simp only [hnle, if_false]
        have hpm : next.start - 1 = l.length := by omega
        rw [hpm, lineIdxOfChar_prefix hsL, colOfChar_prefix hsL, hliA, hcolA, hlA, hline]
        refine ⟨rfl, rfl, ?_⟩
        have := hfL.1
        congr 1; omega
    · -- the token ends inside a line: its end is on the line of the next token
      obtain ⟨hLL, hst, hcnt⟩ := LL_not_after_nl (s := s) (l := l) (suf := sufB) (c := c) (by rw [hsB, hl]) hnl hbomL
      rw [← hl] at hLL hcnt
      have hstlt : (LL s preB).start < next.start := by rw [hLL]; omega
      have hblt : (LL s preB).byte < next.byte := (posPair_lt_iff hppB hn.pos).1.2 hstlt
      have hup : (decide (next.byte > (LL s preB).byte) || cur.byte == next.byte) = true := by
        simp only [Bool.or_eq_true, decide_eq_true_eq]; left; exact hblt
      refine ⟨LL s preA, LL s preB, LL s preB, hlkA, hlkB, h1A, ?_, h1B, ?_, ?_⟩
      · simp only [hup, if_true]; exact hlkB
      · intro hf; rw [hf] at hup; exact absurd hup (by decide)
      · unfold SpecRow DBuf.pairRow Spec.endPos
        simp only [hup, if_true]
        have hnle : ¬ next.start ≤ cur.start := by omega
        simp only [hnle, if_false]
        have hpm : next.start - 1 = l.length := by omega
        rw [hpm, lineIdxOfChar_prefix hsL, colOfChar_prefix hsL, hliA, hcolA, hlA, hlB, hcnt, hLL]
        refine ⟨rfl, rfl, ?_⟩
        congr 1; omega
  · -- empty token
    have hbe : cur.byte = next.byte := hord.2.2 heq
    have hup : (decide (next.byte > (LL s preB).byte) || cur.byte == next.byte) = true := by
      simp [hbe]
    refine ⟨LL s preA, LL s preB, LL s preB, hlkA, hlkB, h1A, ?_, h1B, ?_, ?_⟩
    · simp only [hup, if_true]; exact hlkB
    · intro hf; rw [hf] at hup; exact absurd hup (by decide)
    · unfold SpecRow DBuf.pairRow Spec.endPos
      simp only [hup, if_true]
      have hle' : next.start ≤ cur.start := by omega
      simp only [hle', if_true]
      rw [hliA, hcolA, hlA]
      refine ⟨rfl, rfl, ?_⟩
      rw [hn.line, ← heq, hliA, ← hcolA, heq, hcolB]


/-- **C04, pure theorem**: on a buffer with an exact line table the bulk resolved view succeeds (in
both arithmetic profiles), has one row per token, and every row carries the line, column, end line
and end column that the specification computes from the text. -/
theorem DBuf.resolved_lines_exact (cfg : Cfg) (s : List Char) (b : DBuf) (h : LineWF s b) (hne : b.toks ≠ []) :
    ∃ rows, b.resolved cfg = .ok rows ∧ rows.length = b.toks.length ∧
      ∀ (k : Nat) (r : DBuf.Row), rows[k]? = some r → SpecRow s r := by
  obtain ⟨rows, hres, hlen, hrows⟩ := DBuf.resolved_eq_accessors cfg b h.wf hne
  refine ⟨rows, hres, hlen, ?_⟩
  intro k r hr
  have hacc := hrows k r hr
  have hk : k < b.toks.length := by rw [← hlen]; exact DBuf.lt_length_of_getElem? hr
  have hcur : b.toks[k]? = some b.toks[k] := List.getElem?_eq_getElem hk
  have hcok := h.toks _ (List.mem_of_getElem? hcur)
  by_cases hlast : k + 1 = b.toks.length
  · obtain ⟨cli, hcli, hcs, hspec⟩ := lastRow_spec hcok k
    have := DBuf.accessorRow_last (cfg := cfg) h.wf hcur hlast (by rw [h.lines]; exact hcli) hcs
    rw [this] at hacc
    injection hacc with hacc
    rw [← hacc]; exact hspec
  · have hk1 : k + 1 < b.toks.length := by omega
    have hnext : b.toks[k + 1]? = some b.toks[k + 1] := List.getElem?_eq_getElem hk1
    have hnok := h.toks _ (List.mem_of_getElem? hnext)
    obtain ⟨cli, nli, eli, hcli, hnli, hcs, heli, hes, hpos, hspec⟩ :=
      pairRow_spec hcok hnok (h.mono k _ _ hcur hnext) k
    have := DBuf.accessorRow_pair (cfg := cfg) h.wf hcur hnext (by rw [h.lines]; exact hcli)
      (by rw [h.lines]; exact hnli) hcs (by rw [h.lines]; exact heli) hes hpos
    rw [this] at hacc
    injection hacc with hacc
    rw [← hacc]; exact hspec

end SasLexer
