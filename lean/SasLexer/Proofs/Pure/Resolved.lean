import SasLexer.Buffer
/-!
# C05 (pure part): on every well-formed buffer the bulk resolved view equals the accessors

`DBuf.WF` is what the lexer's kernel invariants provide: non-empty, start offsets never
decrease, every token's line exists and starts at or before the token, line starts sorted.
Under `WF` the two different end-line formulas of `buffer.rs` (kept as written in the model,
including `u32` arithmetic with its overflow behaviour in both profiles) coincide and no
subtraction underflows.
-/
namespace SasLexer
namespace DBuf

structure WF (b : DBuf) : Prop where
  mono : ∀ i x y, b.toks[i]? = some x → b.toks[i + 1]? = some y → x.byte ≤ y.byte
  lineOk : ∀ t ∈ b.toks, ∃ li, b.lines[t.line]? = some li ∧ li.byte ≤ t.byte ∧ li.start ≤ t.start
  linesSorted : ∀ (i j : Nat) (li lj : LineInfo), i ≤ j → b.lines[i]? = some li → b.lines[j]? = some lj →
      li.byte ≤ lj.byte ∧ li.start ≤ lj.start
  small : b.lines.length < two32

variable {cfg : Cfg} {b : DBuf}

theorem addU32_ok {a c : Nat} (h : a + c < two32) : addU32 cfg a c = .ok (a + c) := by
  simp [addU32, h]; rfl

theorem subU32_ok {a c : Nat} (h : c ≤ a) : subU32 cfg a c = .ok (a - c) := by
  simp [subU32, h]; rfl

theorem line_lt (h : b.WF) {t : TokInfo} (ht : t ∈ b.toks) : t.line + 1 < two32 := by
  obtain ⟨li, hli, _, _⟩ := h.lineOk t ht
  have : t.line < b.lines.length := by
    rcases Nat.lt_or_ge t.line b.lines.length with h' | h'
    · exact h'
    · simp [List.getElem?_eq_none h'] at hli
  have := h.small
  omega

/-- the row both views must produce for a token `cur` at index `i` that is followed by `next` -/
def expectedRow (b : DBuf) (i : Nat) (cur next : TokInfo) : Option Row := do
  let cli ← b.lines[cur.line]?
  let nli ← b.lines[next.line]?
  let up := next.byte > nli.byte || cur.byte == next.byte
  let endIdx := if up then next.line else next.line - 1
  let eli ← b.lines[endIdx]?
  pure { chan := cur.chan, ty := cur.ty, index := i, start := cur.start, stop := next.start,
         line := cur.line + 1, col := cur.start - cli.start, endLine := endIdx + 1,
         endCol := next.start - eli.start, payload := cur.payload }

/-- the row for the last token -/
def expectedLast (b : DBuf) (i : Nat) (cur : TokInfo) : Option Row := do
  let cli ← b.lines[cur.line]?
  pure { chan := cur.chan, ty := cur.ty, index := i, start := cur.start, stop := cur.start,
         line := cur.line + 1, col := cur.start - cli.start, endLine := cur.line + 1,
         endCol := cur.start - cli.start, payload := cur.payload }


theorem mem_of_getElem? {α} {l : List α} {i : Nat} {x : α} (h : l[i]? = some x) : x ∈ l :=
  List.mem_of_getElem? h

/-- facts about a consecutive pair under `WF` -/
theorem pair_facts (h : b.WF) {i : Nat} {cur next : TokInfo}
    (hc : b.toks[i]? = some cur) (hn : b.toks[i + 1]? = some next) :
    ∃ cli nli eli, b.lines[cur.line]? = some cli ∧ b.lines[next.line]? = some nli ∧
      cli.start ≤ cur.start ∧ nli.byte ≤ next.byte ∧ cur.byte ≤ next.byte ∧
      b.lines[(if (next.byte > nli.byte || cur.byte == next.byte) then next.line else next.line - 1)]? = some eli ∧
      eli.start ≤ next.start ∧
      ((next.byte > nli.byte || cur.byte == next.byte) = false → 1 ≤ next.line) := by
  obtain ⟨cli, hcli, hcb, hcs⟩ := h.lineOk cur (mem_of_getElem? hc)
  obtain ⟨nli, hnli, hnb, hns⟩ := h.lineOk next (mem_of_getElem? hn)
  have hmono := h.mono i cur next hc hn
  by_cases hup : (next.byte > nli.byte || cur.byte == next.byte) = true
  · refine ⟨cli, nli, nli, hcli, hnli, hcs, hnb, hmono, ?_, hns, ?_⟩
    · simp [hup, hnli]
    · intro hf; rw [hf] at hup; exact absurd hup (by decide)
  · have hup' : (next.byte > nli.byte || cur.byte == next.byte) = false := by
      cases hb : (next.byte > nli.byte || cur.byte == next.byte) <;> simp_all
    simp only [Bool.or_eq_false_iff, decide_eq_false_iff_not, beq_eq_false_iff_ne] at hup'
    obtain ⟨h1, h2⟩ := hup'
    have hnbeq : next.byte = nli.byte := by omega
    have hlt : cur.byte < next.byte := by omega
    -- next.line ≥ 1: otherwise lines[0].byte ≤ lines[cur.line].byte ≤ cur.byte < next.byte = lines[0].byte
    have hpos : 1 ≤ next.line := by
      rcases Nat.eq_zero_or_pos next.line with h0 | h0
      · have := (h.linesSorted next.line cur.line nli cli (by omega) hnli hcli).1
        omega
      · exact h0
    have hidx : next.line - 1 < b.lines.length := by
      have : next.line < b.lines.length := by
        rcases Nat.lt_or_ge next.line b.lines.length with h' | h'
        · exact h'
        · simp [List.getElem?_eq_none h'] at hnli
      omega
    obtain ⟨eli, heli⟩ : ∃ eli, b.lines[next.line - 1]? = some eli := ⟨b.lines[next.line - 1], by simp [hidx]⟩
    have hes := (h.linesSorted (next.line - 1) next.line eli nli (by omega) heli hnli).2
    refine ⟨cli, nli, eli, hcli, hnli, hcs, hnb, hmono, ?_, by omega, fun _ => hpos⟩
    have : (next.byte > nli.byte || cur.byte == next.byte) = false := by
      simp [h1, h2]
    simp [this, heli]


/-- the common row for a token followed by another one -/
def pairRow (i : Nat) (cur next : TokInfo) (cli nli eli : LineInfo) : Row :=
  let up := next.byte > nli.byte || cur.byte == next.byte
  { chan := cur.chan, ty := cur.ty, index := i, start := cur.start, stop := next.start,
    line := cur.line + 1, col := cur.start - cli.start,
    endLine := (if up then next.line else next.line - 1) + 1,
    endCol := next.start - eli.start, payload := cur.payload }

theorem lt_length_of_getElem? {α} {l : List α} {i : Nat} {x : α} (h : l[i]? = some x) : i < l.length := by
  rcases Nat.lt_or_ge i l.length with h' | h'
  · exact h'
  · simp [List.getElem?_eq_none h'] at h

theorem accessorRow_pair (h : b.WF) {i : Nat} {cur next : TokInfo} {cli nli eli : LineInfo}
    (hc : b.toks[i]? = some cur) (hn : b.toks[i + 1]? = some next)
    (hcli : b.lines[cur.line]? = some cli) (hnli : b.lines[next.line]? = some nli)
    (hcs : cli.start ≤ cur.start)
    (heli : b.lines[(if (next.byte > nli.byte || cur.byte == next.byte) then next.line else next.line - 1)]? = some eli)
    (hes : eli.start ≤ next.start)
    (hpos : (next.byte > nli.byte || cur.byte == next.byte) = false → 1 ≤ next.line) :
    b.accessorRow cfg i = .ok (pairRow i cur next cli nli eli) := by
  have hlen : i + 1 < b.toks.length := lt_length_of_getElem? hn
  have hne : ¬ (i + 1 = b.toks.length) := by omega
  have hcl := line_lt h (mem_of_getElem? hc)
  have hnl := line_lt h (mem_of_getElem? hn)
  have htok : b.tok i = .ok cur := by simp [DBuf.tok, hc]; rfl
  have htokn : b.tok (i + 1) = .ok next := by simp [DBuf.tok, hn]; rfl
  have hstart : b.start i = .ok cur.start := by simp [DBuf.start, htok, bind, Except.bind]; rfl
  have hstop : b.stop i = .ok next.start := by simp [DBuf.stop, hlen, htokn, bind, Except.bind]; rfl
  have hsb : b.startByte i = .ok cur.byte := by simp [DBuf.startByte, htok, bind, Except.bind]; rfl
  have heb : b.endByte i = .ok next.byte := by simp [DBuf.endByte, hlen, htokn, bind, Except.bind]; rfl
  have hsl : b.startLine cfg i = .ok (cur.line + 1) := by
    simp [DBuf.startLine, htok, bind, Except.bind, addU32_ok (cfg := cfg) hcl]
  have hsc : b.startColumn cfg i = .ok (cur.start - cli.start) := by
    simp [DBuf.startColumn, htok, bind, Except.bind, hcli, subU32_ok (cfg := cfg) hcs]
  have hel : b.endLine cfg i = .ok (next.line + (if (next.byte > nli.byte || cur.byte == next.byte) then 1 else 0)) := by
    have : next.line + (if (next.byte > nli.byte || cur.byte == next.byte) then 1 else 0) < two32 := by
      split <;> omega
    simp only [DBuf.endLine, hne, if_false, htokn, bind, Except.bind, hnli, hsb, heb]
    exact addU32_ok (cfg := cfg) this
  have hec : b.endColumn cfg i = .ok (next.start - eli.start) := by
    simp only [DBuf.endColumn, hstop, hel, bind, Except.bind]
    by_cases hup : (next.byte > nli.byte || cur.byte == next.byte) = true
    · simp only [hup, if_true] at heli ⊢
      rw [subU32_ok (cfg := cfg) (by omega : 1 ≤ next.line + 1)]
      simp only [Nat.add_sub_cancel, heli]
      exact subU32_ok (cfg := cfg) hes
    · have hup' : (next.byte > nli.byte || cur.byte == next.byte) = false := by
        cases hb : (next.byte > nli.byte || cur.byte == next.byte) <;> simp_all
      have hp := hpos hup'
      simp only [hup', Bool.false_eq_true, if_false, Nat.add_zero] at heli ⊢
      rw [subU32_ok (cfg := cfg) hp]
      simp only [heli]
      exact subU32_ok (cfg := cfg) hes
  simp only [DBuf.accessorRow, htok, hstart, hstop, hsl, hsc, hel, hec, bind, Except.bind, pure, Except.pure, pairRow]
  congr 1
  by_cases hup : (next.byte > nli.byte || cur.byte == next.byte) = true
  · simp [hup]
  · have hup' : (next.byte > nli.byte || cur.byte == next.byte) = false := by
      cases hb : (next.byte > nli.byte || cur.byte == next.byte) <;> simp_all
    have hp := hpos hup'
    simp only [hup', Bool.false_eq_true, if_false, Nat.add_zero]
    congr 1
    omega


def lastRow (i : Nat) (cur : TokInfo) (cli : LineInfo) : Row :=
  { chan := cur.chan, ty := cur.ty, index := i, start := cur.start, stop := cur.start,
    line := cur.line + 1, col := cur.start - cli.start, endLine := cur.line + 1,
    endCol := cur.start - cli.start, payload := cur.payload }

theorem accessorRow_last (h : b.WF) {i : Nat} {cur : TokInfo} {cli : LineInfo}
    (hc : b.toks[i]? = some cur) (hlast : i + 1 = b.toks.length)
    (hcli : b.lines[cur.line]? = some cli) (hcs : cli.start ≤ cur.start) :
    b.accessorRow cfg i = .ok (lastRow i cur cli) := by
  have hnl : ¬ (i + 1 < b.toks.length) := by omega
  have hcl := line_lt h (mem_of_getElem? hc)
  have htok : b.tok i = .ok cur := by simp [DBuf.tok, hc]; rfl
  have hstart : b.start i = .ok cur.start := by simp [DBuf.start, htok, bind, Except.bind]; rfl
  have hstop : b.stop i = .ok cur.start := by simp [DBuf.stop, hnl, htok, bind, Except.bind]; rfl
  have hsl : b.startLine cfg i = .ok (cur.line + 1) := by
    simp [DBuf.startLine, htok, bind, Except.bind, addU32_ok (cfg := cfg) hcl]
  have hsc : b.startColumn cfg i = .ok (cur.start - cli.start) := by
    simp [DBuf.startColumn, htok, bind, Except.bind, hcli, subU32_ok (cfg := cfg) hcs]
  have hel : b.endLine cfg i = .ok (cur.line + 1) := by
    simp only [DBuf.endLine, hlast, if_true, bind, Except.bind]
    exact hsl
  have hec : b.endColumn cfg i = .ok (cur.start - cli.start) := by
    simp only [DBuf.endColumn, hstop, hel, bind, Except.bind]
    rw [subU32_ok (cfg := cfg) (by omega : 1 ≤ cur.line + 1)]
    simp only [Nat.add_sub_cancel, hcli]
    exact subU32_ok (cfg := cfg) hcs
  simp only [DBuf.accessorRow, htok, hstart, hstop, hsl, hsc, hel, hec, bind, Except.bind, pure, Except.pure, lastRow]

/-- the loop of `into_resolved_token_vec` produces, row by row, what the accessors return -/
theorem resolvedLoop_eq (h : b.WF) :
    ∀ (rest : List TokInfo) (cur : TokInfo) (idx : Nat),
      (∀ k, (cur :: rest)[k]? = b.toks[idx + k]?) → idx + rest.length + 1 = b.toks.length →
      ∃ rows, b.resolvedLoop cfg cur rest idx = .ok rows ∧ rows.length = rest.length + 1 ∧
        ∀ k r, rows[k]? = some r → b.accessorRow cfg (idx + k) = .ok r
  | [], cur, idx, hk, hlen => by
    have hc : b.toks[idx]? = some cur := by have := hk 0; simpa using this.symm
    obtain ⟨cli, hcli, _, hcs⟩ := h.lineOk cur (mem_of_getElem? hc)
    have hcl := line_lt h (mem_of_getElem? hc)
    refine ⟨[lastRow idx cur cli], ?_, rfl, ?_⟩
    · simp only [DBuf.resolvedLoop, DBuf.lineIdx, hcli, bind, Except.bind, pure, Except.pure,
        subU32_ok (cfg := cfg) hcs, addU32_ok (cfg := cfg) hcl, lastRow]
    · intro k r hr
      cases k with
      | zero =>
        simp only [List.getElem?_cons_zero, Option.some.injEq] at hr
        subst hr
        exact accessorRow_last h hc (by simpa using hlen) hcli hcs
      | succ k => simp at hr
  | next :: rest, cur, idx, hk, hlen => by
    have hc : b.toks[idx]? = some cur := by have := hk 0; simpa using this.symm
    have hn : b.toks[idx + 1]? = some next := by have := hk 1; simpa using this.symm
    obtain ⟨cli, nli, eli, hcli, hnli, hcs, hnb, hmono, heli, hes, hpos⟩ := pair_facts h hc hn
    have hcl := line_lt h (mem_of_getElem? hc)
    have ih := resolvedLoop_eq h rest next (idx + 1)
      (by intro k; have := hk (k + 1); simpa [Nat.add_assoc, Nat.add_comm 1 k] using this)
      (by simp only [List.length_cons] at hlen; omega)
    obtain ⟨rows, hrows, hrl, hrk⟩ := ih
    refine ⟨pairRow idx cur next cli nli eli :: rows, ?_, by simp [hrl], ?_⟩
    · -- the loop's own arithmetic
      have hsub : subU32 cfg next.line (if (next.byte == nli.byte && decide (cur.byte < next.byte)) then 1 else 0)
          = .ok (if (next.byte > nli.byte || cur.byte == next.byte) then next.line else next.line - 1) := by
        by_cases hup : (next.byte > nli.byte || cur.byte == next.byte) = true
        · have : (next.byte == nli.byte && decide (cur.byte < next.byte)) = false := by
            simp only [Bool.or_eq_true, decide_eq_true_eq, beq_iff_eq] at hup
            rcases hup with h1 | h1
            · have : ¬ next.byte = nli.byte := by omega
              simp [this]
            · have : ¬ cur.byte < next.byte := by omega
              simp [this]
          simp only [this, hup, Bool.false_eq_true, if_false, if_true]
          exact subU32_ok (cfg := cfg) (Nat.zero_le _)
        · have hup' : (next.byte > nli.byte || cur.byte == next.byte) = false := by
            cases hb : (next.byte > nli.byte || cur.byte == next.byte) <;> simp_all
          have hp := hpos hup'
          simp only [Bool.or_eq_false_iff, decide_eq_false_iff_not, beq_eq_false_iff_ne] at hup'
          have : (next.byte == nli.byte && decide (cur.byte < next.byte)) = true := by
            have h1 : next.byte = nli.byte := by omega
            have h2 : cur.byte < next.byte := by omega
            simp only [Bool.and_eq_true, beq_iff_eq, decide_eq_true_eq]
            exact ⟨h1, h2⟩
          have hupf : (next.byte > nli.byte || cur.byte == next.byte) = false := by
            simp [hup'.1, hup'.2]
          simp only [this, hupf, Bool.false_eq_true, if_false, if_true]
          exact subU32_ok (cfg := cfg) hp
      have hel : (if (next.byte > nli.byte || cur.byte == next.byte) then next.line else next.line - 1) + 1 < two32 := by
        have := line_lt h (mem_of_getElem? hn)
        split <;> omega
      simp only [DBuf.resolvedLoop, DBuf.lineIdx, hnli, hcli, heli, bind, Except.bind, pure, Except.pure, hsub,
        subU32_ok (cfg := cfg) hcs, subU32_ok (cfg := cfg) hes, addU32_ok (cfg := cfg) hcl,
        addU32_ok (cfg := cfg) hel, hrows, pairRow]
    · intro k r hr
      cases k with
      | zero =>
        simp only [List.getElem?_cons_zero, Option.some.injEq] at hr
        subst hr
        exact accessorRow_pair h hc hn hcli hnli hcs heli hes hpos
      | succ k =>
        simp only [List.getElem?_cons_succ] at hr
        have := hrk k r hr
        rwa [Nat.add_assoc, Nat.add_comm 1 k] at this

/-- **C05, pure theorem**: for every well-formed buffer the bulk view succeeds, has one row per
token and row `k` is what the per-token accessors return for token `k` — in both arithmetic
profiles. -/
theorem resolved_eq_accessors (cfg : Cfg) (b : DBuf) (h : b.WF) (hne : b.toks ≠ []) :
    ∃ rows, b.resolved cfg = .ok rows ∧ rows.length = b.toks.length ∧
      ∀ k r, rows[k]? = some r → b.accessorRow cfg k = .ok r := by
  cases ht : b.toks with
  | nil => exact absurd ht hne
  | cons t ts =>
    obtain ⟨rows, h1, h2, h3⟩ := resolvedLoop_eq (cfg := cfg) h ts t 0 (by intro k; simp [ht]) (by simp [ht])
    refine ⟨rows, ?_, by simp [h2], ?_⟩
    · simp only [DBuf.resolved, ht]; exact h1
    · intro k r hr; have := h3 k r hr; simpa using this

end DBuf
end SasLexer
