import SasLexer.Gen.TokenType
import SasLexer.Gen.Channel
import SasLexer.Gen.ErrorKind
/-!
# Basic data of the model

Text is `List Char` (a Rust `&str` is exactly a sequence of Unicode scalar values; Lean's
`Char` is a Unicode scalar value).  Byte lengths are computed with `Char.utf8Size`, which
is the UTF-8 encoded length Rust's `len_utf8` gives.

Vectors of the implementation that are only ever appended to at the end, truncated at the
end and inspected from the end (`token_infos`, `line_infos`, `errors`, `mode_stack`,
`string_literals_buffer`, `pending_stat_stack`) are kept **newest first** (`…R`): push is
`cons`, "last" is `head`.  The externally visible order is obtained by `List.reverse` when
the buffer is detached.
-/
namespace SasLexer

/-- UTF-8 length in bytes of a text. -/
def utf8Len : List Char → Nat
  | [] => 0
  | c :: cs => c.utf8Size + utf8Len cs

def BOM : Char := Char.ofNat 0xFEFF

/-- Token payload, `Payload` of `buffer.rs`. The float is kept as its IEEE-754 bits. -/
inductive Payload where
  | none
  | int (v : Nat)
  | float (bits : UInt64)
  | str (a b : Nat)
  deriving DecidableEq, Repr, Inhabited

structure LineInfo where
  byte : Nat
  start : Nat
  deriving DecidableEq, Repr, Inhabited

/-- `TokenInfo` of `buffer.rs`; `line` is the zero-based line index. -/
structure TokInfo where
  chan : Channel
  ty : TokenType
  byte : Nat
  start : Nat
  line : Nat
  payload : Payload
  deriving DecidableEq, Repr, Inhabited

/-- `ErrorInfo` of `error.rs`. -/
structure ErrInfo where
  kind : ErrorKind
  byte : Nat
  char : Nat
  line : Nat
  col : Nat
  lastTok : Option Nat
  deriving DecidableEq, Repr, Inhabited

/-! ## Lexer modes (`lexer_mode.rs`)

The two packed flag bytes are kept as the packed byte (a `Nat < 256`); constructors and
accessors mirror the Rust `const fn`s bit for bit (see `Flags` below). -/

inductive Mode where
  | default
  | stringExpr (allowStat : Bool)
  | makeCheckpoint
  | wsOrCStyleCommentOnly
  | expectSymbol (ty : TokenType) (chan : Channel)
  | expectSemiOrEOF
  | maybeMacroCallArgsOrLabel (checkMacroLabel : Bool)
  | maybeMacroCallArgAssign (flags : Nat)
  | macroCallArgOrValue (flags : Nat)
  | maybeMacroDefArgs
  | macroDefArg
  | macroDefNextArgOrDefaultValue
  | macroDefName
  | macroCallValue (flags : Nat) (pnl : Nat)
  | maybeTailMacroArgValue
  | macroStrQuotedExpr (maskMacro : Bool) (pnl : Nat)
  | macroEval (flags : Nat) (pnl : Nat)
  | macroDo
  | macroLocalGlobal (isLocal : Bool)
  | macroNameExpr (found : Bool) (err : Option ErrorKind)
  | macroSemiTerminatedTextExpr
  | macroStatOptionsTextExpr
  deriving DecidableEq, Repr, Inhabited

/-- Canonical one-word encoding shared with the harness (`verif::encode_mode`). -/
def Mode.encode : Mode → String
  | .default => "Default"
  | .stringExpr a => s!"StringExpr:{a.toNat}"
  | .makeCheckpoint => "MakeCheckpoint"
  | .wsOrCStyleCommentOnly => "WsOrCStyleCommentOnly"
  | .expectSymbol t c => s!"ExpectSymbol:{t.toNat}:{c.toNat}"
  | .expectSemiOrEOF => "ExpectSemiOrEOF"
  | .maybeMacroCallArgsOrLabel b => s!"MaybeMacroCallArgsOrLabel:{b.toNat}"
  | .maybeMacroCallArgAssign f => s!"MaybeMacroCallArgAssign:{f}"
  | .macroCallArgOrValue f => s!"MacroCallArgOrValue:{f}"
  | .maybeMacroDefArgs => "MaybeMacroDefArgs"
  | .macroDefArg => "MacroDefArg"
  | .macroDefNextArgOrDefaultValue => "MacroDefNextArgOrDefaultValue"
  | .macroDefName => "MacroDefName"
  | .macroCallValue f p => s!"MacroCallValue:{f}:{p}"
  | .maybeTailMacroArgValue => "MaybeTailMacroArgValue"
  | .macroStrQuotedExpr m p => s!"MacroStrQuotedExpr:{m.toNat}:{p}"
  | .macroEval f p => s!"MacroEval:{f}:{p}"
  | .macroDo => "MacroDo"
  | .macroLocalGlobal l => s!"MacroLocalGlobal:{l.toNat}"
  | .macroNameExpr f e => s!"MacroNameExpr:{f.toNat}:{match e with | none => 0 | some k => k.toNat}"
  | .macroSemiTerminatedTextExpr => "MacroSemiTerminatedTextExpr"
  | .macroStatOptionsTextExpr => "MacroStatOptionsTextExpr"

def Mode.decode (s : String) : Option Mode :=
  let b (x : String) : Option Bool := match x with | "0" => some false | "1" => some true | _ => none
  match s.splitOn ":" with
  | ["Default"] => some .default
  | ["StringExpr", a] => (b a).map .stringExpr
  | ["MakeCheckpoint"] => some .makeCheckpoint
  | ["WsOrCStyleCommentOnly"] => some .wsOrCStyleCommentOnly
  | ["ExpectSymbol", t, c] => do
      let t ← t.toNat? >>= TokenType.ofNat?
      let c ← c.toNat? >>= Channel.ofNat?
      pure (.expectSymbol t c)
  | ["ExpectSemiOrEOF"] => some .expectSemiOrEOF
  | ["MaybeMacroCallArgsOrLabel", a] => (b a).map .maybeMacroCallArgsOrLabel
  | ["MaybeMacroCallArgAssign", f] => f.toNat?.map .maybeMacroCallArgAssign
  | ["MacroCallArgOrValue", f] => f.toNat?.map .macroCallArgOrValue
  | ["MaybeMacroDefArgs"] => some .maybeMacroDefArgs
  | ["MacroDefArg"] => some .macroDefArg
  | ["MacroDefNextArgOrDefaultValue"] => some .macroDefNextArgOrDefaultValue
  | ["MacroDefName"] => some .macroDefName
  | ["MacroCallValue", f, p] => do pure (.macroCallValue (← f.toNat?) (← p.toNat?))
  | ["MaybeTailMacroArgValue"] => some .maybeTailMacroArgValue
  | ["MacroStrQuotedExpr", m, p] => do pure (.macroStrQuotedExpr (← b m) (← p.toNat?))
  | ["MacroEval", f, p] => do pure (.macroEval (← f.toNat?) (← p.toNat?))
  | ["MacroDo"] => some .macroDo
  | ["MacroLocalGlobal", l] => (b l).map .macroLocalGlobal
  | ["MacroNameExpr", f, e] => do
      let f ← b f
      let e ← e.toNat?
      if e = 0 then pure (.macroNameExpr f none)
      else pure (.macroNameExpr f (some (← ErrorKind.ofNat? e)))
  | ["MacroSemiTerminatedTextExpr"] => some .macroSemiTerminatedTextExpr
  | ["MacroStatOptionsTextExpr"] => some .macroStatOptionsTextExpr
  | _ => none

end SasLexer
