import SasLexer.Lex.MacroModes
import SasLexer.Dump
/-!
# `lex_token`, `finalize_lexing`, `lex`, `lex_program`
-/
namespace SasLexer
open Prog (perform)
open P

/-- `lex_token` -/
def lexToken (cfg : Cfg) (c : Char) : Prog Unit := do
  match (← mode) with
  | .wsOrCStyleCommentOnly =>
    if c == '/' && (← peekNext) == '*' then do startToken; lexCStyleComment cfg
    else if isWhitespace c then do startToken; lexWs cfg
    else popMode
  | .makeCheckpoint => do popMode; perform .checkpoint
  | .default => dispatchModeDefault cfg c
  | .expectSymbol ty ch => do startToken; lexExpectedToken cfg (some c) ty ch
  | .expectSemiOrEOF =>
    startToken
    if c == ';' then advance_ else emitError .MissingExpectedSemiOrEOF
    emitD .SEMI
    popMode
  | .stringExpr allowStat => dispatchModeStrExpr cfg c allowStat
  | m => dispatchMacroMode cfg c m

/-- body of the `while let Some(mode) = self.mode_stack.pop()` loop of `finalize_lexing` -/
def finalizeMode (cfg : Cfg) (m : Mode) : Prog Unit := do
  startToken
  match m with
  | .expectSymbol ty ch => lexExpectedToken cfg none ty ch
  | .expectSemiOrEOF | .macroDo => do startToken; emitD .SEMI
  | .macroStrQuotedExpr _ pnl | .macroCallValue _ pnl | .macroEval _ pnl =>
    if pnl > 0 then
      emitError .MissingExpectedRParen
      for _ in [0:pnl] do emitD .RPAREN
  | .stringExpr _ => do perform .payClear; handleUnterminatedStrExpr cfg
  | .macroNameExpr _ err =>
    match err with
    | some e => emitError e
    | none => pure ()
  | .macroDefName => emitError .InvalidMacroDefName
  | _ => pure ()

def finalizeLoop (cfg : Cfg) : Nat → Prog Unit
  | 0 => abort "fuel:finalize_lexing"
  | f + 1 => do
    match (← perform .popModeRaw) with
    | none => pure ()
    | some m => do finalizeMode cfg m; finalizeLoop cfg f

def finalizeLexing (cfg : Cfg) : Prog Unit := do
  -- each iteration pops one mode; a callee may push at most one (defensive `mode()`), and
  -- pops at least as many
  finalizeLoop cfg ((← perform .modeDepth) * 2 + 2)
  perform .emitEofAtCursor

inductive LoopEnd where
  | eof        -- cursor at end of input: finalize
  | detected   -- debug-only loop detector fired: return without finalizing
  | budget     -- iteration budget exhausted (harness semantics: break, then finalize)
  deriving DecidableEq, Repr

/-- the `while let Some(next_char) = self.cursor.peek()` loop of `lex`, with the
iteration budget of the verification hook (`8·len + 64`). Returns how it ended and the
number of iterations. -/
def mainLoop (cfg : Cfg) : Nat → Nat → (Nat × List Mode) → Prog (LoopEnd × Nat)
  | 0, n, _ => do
    match (← peek) with
    | none => pure (.eof, n)
    | some _ => pure (.budget, n + 1)
  | f + 1, n, last => do
    match (← peek) with
    | none => pure (.eof, n)
    | some c =>
      lexToken cfg c
      if cfg.debug then
        -- `last_state` of the debug-only loop detector is a local of the main loop
        let st ← perform .loopProbe
        if last == st then
          emitError .InternalErrorInfiniteLoop
          return (.detected, n + 1)
        mainLoop cfg f (n + 1) st
      else mainLoop cfg f (n + 1) last

structure LexOut where
  ending : Option LoopEnd        -- `none`: panicked
  iters : Nat
  snap : Option Snapshot
  final : Lexer
  buf : DBuf

def snapshotOf (L : Lexer) : Snapshot :=
  { cp := L.cp.isSome, nesting := L.nesting, pending := L.pendingR.reverse,
    lastDefault := (Lexer.lastDefault? L.toksR).map (·.ty.toNat),
    last := L.toksR.head?.map (·.ty.toNat), modes := L.modesR.reverse.map Mode.encode,
    dec := some L.modesR.reverse }

def budgetMul : Nat := 8

/-- `lex_program` (`FileTooLarge` is decided by the caller) -/
def lexProgram (cfg : Cfg) (s : List Char) : LexOut :=
  let L0 := Lexer.new cfg s
  let budget := budgetMul * L0.srcLen + 64
  match Prog.run cfg (mainLoop cfg budget 0 (L0.srcLen, [.default])) L0 with
  | (none, L) => { ending := none, iters := 0, snap := none, final := L, buf := ⟨[], [], []⟩ }
  | (some (e, n), L1) =>
    let snap := snapshotOf L1
    let snapO := if e == .detected then none else some snap
    let (_, L2) := if e == .detected then (some (), L1) else Prog.run cfg (finalizeLexing cfg) L1
    match L2.panicked with
    | some _ => { ending := none, iters := n, snap := snapO, final := L2, buf := ⟨[], [], []⟩ }
    | none =>
      let (b, L3) := L2.intoDetached cfg
      { ending := some e, iters := n, snap := snapO, final := L3, buf := b }

def accRowInts (cfg : Cfg) (b : DBuf) (src : List Char) (i : Nat) : List Int :=
  let g (x : Acc Nat) : Int := match x with | .ok v => v | .error _ => -1
  let t := b.toks[i]?
  let ch : Int := match t with | some t => t.chan.toNat | none => -1
  let ty : Int := match t with | some t => t.ty.toNat | none => -1
  let pay := match t with | some t => payloadInts t.payload | none => [-1, -1, -1]
  let sb := b.startByte i
  let eb := b.endByte i
  let rawok : Int := match sb, eb with
    | .ok x, .ok y => if x ≤ y then (if x == y then 1 else if (Lexer.sliceBytes? src x y).isSome then 1 else 0) else 0
    | _, _ => 0
  let resok : Int := match t with
    | some t => (match t.payload with
        | .str a c => if a ≤ c && (Lexer.sliceBytes? b.lits a c).isSome then 1 else 0
        | _ => if rawok == 1 then 1 else (match sb, eb with | .ok _, .ok _ => 1 | _, _ => 0))
    | none => 0
  [ch, ty, i, g (b.start i), g (b.stop i), g (b.startLine cfg i), g (b.startColumn cfg i),
   g (b.endLine cfg i), g (b.endColumn cfg i)] ++ pay ++ [rawok, resok]

def hasAccPanic (cfg : Cfg) (b : DBuf) (i : Nat) : Bool :=
  let p (x : Acc Nat) : Bool := match x with | .error (.panic _) => true | _ => false
  -- `get_token_raw_text`: `debug_assert!(text_range.start <= text_range.end, "Token start is after end")`
  let rawAssert : Bool := cfg.debug && (match b.startByte i, b.endByte i with | .ok x, .ok y => decide (x > y) | _, _ => false)
  p (b.startLine cfg i) || p (b.startColumn cfg i) || p (b.endLine cfg i) || p (b.endColumn cfg i) || rawAssert

def rowInts (r : DBuf.Row) : List Int :=
  ([r.chan.toNat, r.ty.toNat, r.index, r.start, r.stop, r.line, r.col, r.endLine, r.endCol] : List Int) ++ payloadInts r.payload

/-- dump of a detached buffer (also used for `buffer-script`) -/
def dumpOfBuf (cfg : Cfg) (src : List Char) (b : DBuf) (errs : List ErrInfo) (o : Outcome)
    (snap : Option Snapshot) (iters : Nat) : Dump :=
  let n := b.toks.length
  let idx := List.range n
  { outcome := o, toks := b.toks, lines := b.lines, lits := b.lits, errs := errs,
    resolved := (match b.resolved cfg with | .ok rows => some (rows.map rowInts) | .error _ => none),
    access := if idx.any (hasAccPanic cfg b) then none else some (idx.map (accRowInts cfg b src)),
    snap := snap, iters := iters }

def emptyDump (o : Outcome) : Dump :=
  { outcome := o, toks := [], lines := [], lits := [], errs := [], resolved := some [], access := some [],
    snap := none, iters := 0 }

def modelDump (cfg : Cfg) (s : List Char) : Dump :=
  if utf8Len s ≥ two32 then emptyDump .toolarge
  else
    let r := lexProgram cfg s
    match r.ending with
    | none =>
      let msg := r.final.panicked.getD "?"
      if msg.startsWith "unmodelled:" then emptyDump (.unmodelled (msg.drop 11).toString)
      else emptyDump (.panic msg)
    | some e =>
      dumpOfBuf cfg s r.buf r.final.errsR.reverse (if e == .budget then .budget else .ok) r.snap r.iters

end SasLexer
