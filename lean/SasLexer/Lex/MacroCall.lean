import SasLexer.Lex.Common
/-!
# `%name` dispatch: `lex_macro_call_stat_or_label`, `dispatch_macro_call_or_stat`,
`lex_macro_identifier`, `lex_macro_call` and the `expect_*` pre-loaders
-/
namespace SasLexer
open Prog (perform)
open P

/-- STUB (to be replaced by the full model) -/
def lexMacroIdentifier (_cfg : Cfg) (_allowMacroLabel : Bool) : Prog Unit :=
  unmodelled "lex_macro_identifier"

end SasLexer
