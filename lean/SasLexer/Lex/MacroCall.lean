import SasLexer.Lex.Common
/-!
# `%name` dispatch: `macro.rs` predicates, `lex_macro_call_stat_or_label`,
`dispatch_macro_call_or_stat`, `lex_macro_identifier`, `lex_macro_call`, the `expect_*`
pre-loaders, `dispatch_macro_do`, `dispatch_macro_local_global`
-/
namespace SasLexer
open Prog (perform)
open P

inductive MacroKwType where | none | macroCall | macroStat
  deriving DecidableEq, Repr, Inhabited

def isMacroStatTokType (t : TokenType) : Bool :=
  TokenType.macroStatRange.1.toNat ≤ t.toNat && t.toNat ≤ TokenType.macroStatRange.2.toNat

def isMacroQuoteCallTokType (t : TokenType) : Bool :=
  TokenType.macroQuoteCallRange.1.toNat ≤ t.toNat && t.toNat ≤ TokenType.macroQuoteCallRange.2.toNat

/-- `TokenTypeMacroCallOrStat::try_from(t).is_ok()`: the subset `MacroIdentifier..=KwmRun` -/
def isMacroCallOrStatTokType (t : TokenType) : Bool :=
  TokenType.subsetStart.toNat ≤ t.toNat && t.toNat ≤ TokenType.subsetEnd.toNat

/-- `[a, b, …].contains(&t)` / an or-pattern of a `match` arm -/
def tokOneOf (t : TokenType) (l : List TokenType) : Bool := l.contains t

/-! ## `macro.rs` -/

/-- `is_macro_eval_logical_op` -/
def isMacroEvalLogicalOp (t : TokenType) : Bool :=
  tokOneOf t [.LT, .KwLT, .LE, .KwLE, .ASSIGN, .KwEQ, .HASH, .KwIN, .NE, .KwNE, .GT, .KwGT, .GE, .KwGE]

/-- `needs_macro_sep` (feature `macro_sep`) -/
def needsMacroSep (prevTokenType : Option TokenType) (tokType : TokenType) : Bool :=
  !(match prevTokenType with
    | none => true
    | some p => tokOneOf p [.SEMI, .MacroLabel, .KwmThen, .KwmElse])
  && tokOneOf tokType [
      .MacroLabel, .KwmAbort, .KwmCopy, .KwmDisplay, .KwmGlobal, .KwmGoto, .KwmInput, .KwmLocal,
      .KwmPut, .KwmReturn, .KwmSymdel, .KwmSyscall, .KwmSysexec, .KwmSyslput, .KwmSysmacdelete,
      .KwmSysmstoreclear, .KwmSysrput, .KwmWindow, .KwmMacro, .KwmMend, .KwmLet, .KwmIf, .KwmElse,
      .KwmDo, .KwmEnd]

/-- `lex_macro_call_stat_or_label(cursor)` as a function of the text *after* the `%`:
token type and number of chars of the identifier (what the cursor consumed:
`eat_while isIdentContinue`). `source_view.get(..pending_ident_len)` is a prefix of the
view cut at a char boundary, so its `ok_or(InternalErrorOutOfBounds)` cannot fire; the
`debug_assert!` on the first char is modelled at the two call sites. -/
def lexMacroCallStatOrLabel (r : List Char) : Except ErrorKind (TokenType × Nat) :=
  let ident := r.takeWhile isIdentContinue
  let isAsciiId := ident.all isAscii
  let pendingIdentLen := utf8Len ident
  if !isAsciiId || pendingIdentLen > TokenType.MAX_MKEYWORDS_LEN then
    .ok (.MacroIdentifier, ident.length)
  else
    match lookupKw TokenType.MKEYWORDS (upperStr ident) with
    | none => .ok (.MacroIdentifier, ident.length)
    | some t =>
      if isMacroCallOrStatTokType t then .ok (t, ident.length)
      else .error .InternalErrorOutOfBounds

/-- `is_macro_eval_mnemonic(chars)` → (token type, extra chars besides the first); the list
starts at the first letter. (The `debug_assert!` on the start char holds at both call sites:
they are `match` arms on exactly these letters.) -/
def isMacroEvalMnemonic (r : List Char) : Option TokenType × Nat :=
  match r with
  | [] => (none, 0)
  | [_] => (none, 0)
  | startChar :: nextChar :: tl =>
    let secondNextChar := tl.head?.getD ' '
    let secondNextNonId := !isXidContinue secondNextChar
    let thirdNextChar := (tl.drop 1).head?.getD ' '
    let ci (c lo up : Char) : Bool := c == lo || c == up
    if ci startChar 'e' 'E' && ci nextChar 'q' 'Q' && secondNextNonId then (some .KwEQ, 1)
    else if ci startChar 'i' 'I' && ci nextChar 'n' 'N' && secondNextNonId then (some .KwIN, 1)
    else if ci startChar 'o' 'O' && ci nextChar 'r' 'R' && secondNextNonId then (some .KwOR, 1)
    else if ci startChar 'l' 'L' && ci nextChar 't' 'T' && secondNextNonId then (some .KwLT, 1)
    else if ci startChar 'l' 'L' && ci nextChar 'e' 'E' && secondNextNonId then (some .KwLE, 1)
    else if ci startChar 'g' 'G' && ci nextChar 't' 'T' && secondNextNonId then (some .KwGT, 1)
    else if ci startChar 'g' 'G' && ci nextChar 'e' 'E' && secondNextNonId then (some .KwGE, 1)
    else if ci startChar 'a' 'A' && ci nextChar 'n' 'N' && !secondNextNonId
            && ci secondNextChar 'd' 'D' then
      if isXidContinue thirdNextChar then (none, 0) else (some .KwAND, 2)
    else if ci startChar 'n' 'N' && ci nextChar 'e' 'E' && secondNextNonId then (some .KwNE, 1)
    else if ci startChar 'n' 'N' && ci nextChar 'o' 'O' && !secondNextNonId
            && ci secondNextChar 't' 'T' then
      if isXidContinue thirdNextChar then (none, 0) else (some .KwNOT, 2)
    else (none, 0)

/-- `is_macro_stat(input)` where `input` starts with `%` (both the `debug_assert!` and the
slice `input[1..]` need a first char; the only call site has peeked `%`). -/
def isMacroStat (r : List Char) : Bool :=
  let ident := (r.drop 1).takeWhile isIdentContinue
  let isAsciiId := ident.all isAscii
  let pendingIdentLen := utf8Len ident
  if !isAsciiId || pendingIdentLen > TokenType.MAX_MKEYWORDS_LEN then false
  else
    match lookupKw TokenType.MKEYWORDS (upperStr ident) with
    | some t => isMacroStatTokType t
    | none => false

/-! ## the `expect_*` pre-loaders (`mod.rs`) -/

/-- `maybe_expect_macro_call_args_or_label` -/
def maybeExpectMacroCallArgsOrLabel (allowMacroLabel : Bool) : Prog Unit := do
  perform .checkpoint
  pushMode (.maybeMacroCallArgsOrLabel allowMacroLabel)
  pushMode .wsOrCStyleCommentOnly

/-- `expect_macro_str_call_args` -/
def expectMacroStrCallArgs (maskMacro : Bool) : Prog Unit := do
  pushMode (.expectSymbol .RPAREN .HIDDEN)
  pushMode (.macroStrQuotedExpr maskMacro 0)
  pushMode (.expectSymbol .LPAREN .HIDDEN)
  pushMode .wsOrCStyleCommentOnly

/-- `expect_eval_call_args` -/
def expectEvalCallArgs (isSysevalf : Bool) : Prog Unit := do
  pushMode (.expectSymbol .RPAREN .DEFAULT)
  pushMode (.macroEval
    (EvalFlags.new
      (if isSysevalf then .float else .integer)
      (if isSysevalf then .macroArg else .none)
      false
      false
      false)
    0)
  pushMode .wsOrCStyleCommentOnly
  pushMode (.expectSymbol .LPAREN .DEFAULT)
  pushMode .wsOrCStyleCommentOnly

/-- `expect_scan_or_substr_call_args` -/
def expectScanOrSubstrCallArgs (isScan : Bool) : Prog Unit := do
  pushMode (.expectSymbol .RPAREN .DEFAULT)
  pushMode (.macroEval
    (EvalFlags.new
      .integer
      (if isScan then .macroArg else .singleEvalExpr)
      false
      false
      true)
    0)
  pushMode .wsOrCStyleCommentOnly
  pushMode (.expectSymbol .COMMA .DEFAULT)
  pushMode (.macroCallValue (ArgFlags.new .builtInMacro false true) 0)
  pushMode .wsOrCStyleCommentOnly
  pushMode (.expectSymbol .LPAREN .DEFAULT)
  pushMode .wsOrCStyleCommentOnly

/-- `expect_builtin_macro_call_args` -/
def expectBuiltinMacroCallArgs : Prog Unit := do
  pushMode (.expectSymbol .RPAREN .DEFAULT)
  pushMode (.macroCallValue (ArgFlags.new .builtInMacro true true) 0)
  pushMode .wsOrCStyleCommentOnly
  pushMode (.expectSymbol .LPAREN .DEFAULT)
  pushMode .wsOrCStyleCommentOnly

/-- `expect_builtin_macro_call_one_arg_masking` -/
def expectBuiltinMacroCallOneArgMasking : Prog Unit := do
  pushMode (.expectSymbol .RPAREN .DEFAULT)
  pushMode (.macroCallValue (ArgFlags.new .builtInMacro false false) 0)
  pushMode .wsOrCStyleCommentOnly
  pushMode (.expectSymbol .LPAREN .DEFAULT)
  pushMode .wsOrCStyleCommentOnly

/-- `expect_builtin_macro_call_named_args` -/
def expectBuiltinMacroCallNamedArgs : Prog Unit := do
  pushMode (.expectSymbol .RPAREN .DEFAULT)
  pushMode (.macroCallArgOrValue (ArgFlags.new .macroCall true true))
  pushMode .wsOrCStyleCommentOnly
  pushMode (.expectSymbol .LPAREN .DEFAULT)
  pushMode .wsOrCStyleCommentOnly

/-- `expect_sysfunc_macro_call_args` -/
def expectSysfuncMacroCallArgs : Prog Unit := do
  pushMode (.expectSymbol .RPAREN .DEFAULT)
  pushMode .maybeTailMacroArgValue
  pushMode .wsOrCStyleCommentOnly
  pushMode (.expectSymbol .RPAREN .DEFAULT)
  pushMode (.macroEval (EvalFlags.new .float .evalExpr false false true) 0)
  pushMode .wsOrCStyleCommentOnly
  pushMode (.expectSymbol .LPAREN .DEFAULT)
  pushMode .wsOrCStyleCommentOnly
  pushMode (.macroNameExpr false (some .MissingSysfuncFuncName))
  pushMode .wsOrCStyleCommentOnly
  pushMode (.expectSymbol .LPAREN .DEFAULT)
  pushMode .wsOrCStyleCommentOnly

/-- `expect_macro_until_while_stat_args` -/
def expectMacroUntilWhileStatArgs : Prog Unit := do
  pushMode .expectSemiOrEOF
  pushMode .wsOrCStyleCommentOnly
  pushMode (.expectSymbol .RPAREN .DEFAULT)
  pushMode (.macroEval (EvalFlags.new .integer .none false false false) 0)
  pushMode .wsOrCStyleCommentOnly
  pushMode (.expectSymbol .LPAREN .DEFAULT)
  pushMode .wsOrCStyleCommentOnly

/-- `expect_macro_let_stat` -/
def expectMacroLetStat (errType : ErrorKind) : Prog Unit := do
  pushMode .expectSemiOrEOF
  pushMode .macroSemiTerminatedTextExpr
  pushMode .wsOrCStyleCommentOnly
  pushMode (.expectSymbol .ASSIGN .DEFAULT)
  pushMode .wsOrCStyleCommentOnly
  pushMode (.macroNameExpr false (some errType))
  pushMode .wsOrCStyleCommentOnly

/-- `expect_macro_name_then_opts` -/
def expectMacroNameThenOpts : Prog Unit := do
  pushMode .expectSemiOrEOF
  pushMode .macroStatOptionsTextExpr
  pushMode .wsOrCStyleCommentOnly
  pushMode (.expectSymbol .FSLASH .DEFAULT)
  pushMode .wsOrCStyleCommentOnly
  pushMode (.macroNameExpr false (some .InvalidOrOutOfOrderStatement))
  pushMode .wsOrCStyleCommentOnly

/-- `expect_syscall_call_and_args` -/
def expectSyscallCallAndArgs : Prog Unit := do
  pushMode .expectSemiOrEOF
  pushMode .wsOrCStyleCommentOnly
  pushMode (.expectSymbol .RPAREN .DEFAULT)
  pushMode (.macroEval (EvalFlags.new .float .evalExpr false false true) 0)
  pushMode .wsOrCStyleCommentOnly
  pushMode (.expectSymbol .LPAREN .DEFAULT)
  pushMode .wsOrCStyleCommentOnly
  pushMode (.macroNameExpr false (some .MissingSyscallRoutineName))
  pushMode .wsOrCStyleCommentOnly

/-! ## `dispatch_macro_call_or_stat` -/

/-- the `#[cfg(feature = "macro_sep")]` block at the top of `dispatch_macro_call_or_stat`.
`self.mode_stack.last()` is a plain read (no defensive push), hence `modeDepth` first. -/
def maybeEmitMacroSepBeforeKw (kwTokType : TokenType) : Prog Unit := do
  let prev ← perform .lastDefaultTok
  if needsMacroSep prev kwTokType then
    let notMasked ← (do
      if (← perform .modeDepth) == 0 then pure true
      else
        match (← mode) with
        | .stringExpr _ | .macroCallArgOrValue _ | .macroCallValue _ _ => pure false
        | _ => pure true)
    if notMasked then emitD .MacroSep

/-- the `match` of `dispatch_macro_call_or_stat` (the mode pre-load of each keyword). `kwTokType` ranges over the Rust subset enum
`TokenTypeMacroCallOrStat` (`MacroIdentifier..=KwmRun`); the arms below cover it exactly,
in the order of the Rust `match`. -/
def macroCallOrStatPreload (kwTokType : TokenType) (allowMacroLabel : Bool) : Prog Unit := do
  if tokOneOf kwTokType [.KwmStr, .KwmNrStr] then
    expectMacroStrCallArgs (kwTokType == .KwmNrStr)
  else if tokOneOf kwTokType [.KwmEval, .KwmSysevalf] then
    expectEvalCallArgs (kwTokType == .KwmSysevalf)
  else if tokOneOf kwTokType [.KwmScan, .KwmQScan, .KwmKScan, .KwmQKScan] then
    expectScanOrSubstrCallArgs true
  else if tokOneOf kwTokType [.KwmSubstr, .KwmQSubstr, .KwmKSubstr, .KwmQKSubstr] then
    expectScanOrSubstrCallArgs false
  else if tokOneOf kwTokType [
      .KwmDatatyp, .KwmLowcase, .KwmKLowcase, .KwmCmpres, .KwmQCmpres, .KwmKCmpres, .KwmQKCmpres,
      .KwmLeft, .KwmQLeft, .KwmKLeft, .KwmQKLeft, .KwmTrim, .KwmQTrim, .KwmKTrim, .KwmQKTrim] then
    expectBuiltinMacroCallArgs
  else if tokOneOf kwTokType [
      .KwmIndex, .KwmKIndex, .KwmLength, .KwmKLength, .KwmQLowcase, .KwmQKLowcase, .KwmUpcase,
      .KwmKUpcase, .KwmQUpcase, .KwmQKUpcase, .KwmSysmexecname, .KwmSysprod, .KwmQuote, .KwmNrQuote,
      .KwmBquote, .KwmNrBquote, .KwmSuperq, .KwmUnquote, .KwmSymExist, .KwmSymGlobl, .KwmSymLocal,
      .KwmSysget, .KwmSysmacexec, .KwmSysmacexist] then
    expectBuiltinMacroCallOneArgMasking
  else if tokOneOf kwTokType [.KwmCompstor, .KwmValidchs, .KwmVerify, .KwmKVerify] then
    expectBuiltinMacroCallNamedArgs
  else if kwTokType == .MacroIdentifier then
    maybeExpectMacroCallArgsOrLabel allowMacroLabel
  else if kwTokType == .KwmSysmexecdepth then
    pure ()
  else if tokOneOf kwTokType [.KwmSysfunc, .KwmQSysfunc] then
    expectSysfuncMacroCallArgs
  else if tokOneOf kwTokType [.KwmInclude, .KwmList, .KwmThen, .KwmElse] then
    pushMode .wsOrCStyleCommentOnly
  else if tokOneOf kwTokType [.KwmReturn, .KwmRun, .KwmSysmstoreclear] then
    pushMode .expectSemiOrEOF
    pushMode .wsOrCStyleCommentOnly
  else if kwTokType == .KwmEnd then
    pushMode .expectSemiOrEOF
    pushMode .wsOrCStyleCommentOnly
    perform .popPending
  else if tokOneOf kwTokType [.KwmPut, .KwmSysexec] then
    pushMode .expectSemiOrEOF
    pushMode .macroSemiTerminatedTextExpr
    pushMode .wsOrCStyleCommentOnly
  else if tokOneOf kwTokType [
      .KwmAbort, .KwmDisplay, .KwmGoto, .KwmInput, .KwmSymdel, .KwmSyslput, .KwmSysrput,
      .KwmWindow] then
    pushMode .expectSemiOrEOF
    pushMode .macroStatOptionsTextExpr
    pushMode .wsOrCStyleCommentOnly
  else if kwTokType == .KwmMend then
    pushMode .expectSemiOrEOF
    pushMode .macroStatOptionsTextExpr
    pushMode .wsOrCStyleCommentOnly
    perform .nestDec
    perform .popPending
  else if kwTokType == .KwmDo then
    pushMode .macroDo
    pushMode .wsOrCStyleCommentOnly
    let curPendingStat ← perform .pendingStat
    perform (.pushPending curPendingStat)
  else if tokOneOf kwTokType [.KwmTo, .KwmBy] then
    pushMode .expectSemiOrEOF
    pushMode (.macroEval (EvalFlags.new .integer .none (kwTokType == .KwmTo) true false) 0)
    pushMode .wsOrCStyleCommentOnly
  else if tokOneOf kwTokType [.KwmUntil, .KwmWhile] then
    expectMacroUntilWhileStatArgs
  else if kwTokType == .KwmLet then
    expectMacroLetStat .InvalidMacroLetVarName
  else if tokOneOf kwTokType [.KwmLocal, .KwmGlobal] then
    pushMode (.macroLocalGlobal (kwTokType == .KwmLocal))
    pushMode .wsOrCStyleCommentOnly
  else if kwTokType == .KwmIf then
    pushMode (.macroEval (EvalFlags.new .integer .none true true false) 0)
    pushMode .wsOrCStyleCommentOnly
  else if tokOneOf kwTokType [.KwmCopy, .KwmSysmacdelete] then
    expectMacroNameThenOpts
  else if kwTokType == .KwmMacro then
    pushMode .expectSemiOrEOF
    pushMode .macroStatOptionsTextExpr
    pushMode .wsOrCStyleCommentOnly
    pushMode .maybeMacroDefArgs
    pushMode .wsOrCStyleCommentOnly
    pushMode .macroDefName
    pushMode .wsOrCStyleCommentOnly
    perform .nestInc
    perform (.pushPending false)
  else if kwTokType == .KwmSyscall then
    expectSyscallCallAndArgs
  else
    -- not a value of `TokenTypeMacroCallOrStat`: excluded by the Rust type
    abort "unreachable: dispatch_macro_call_or_stat"

def dispatchMacroCallOrStat (cfg : Cfg) (kwTokType : TokenType) (allowMacroLabel : Bool) : Prog Unit := do
  if cfg.macroSep then maybeEmitMacroSepBeforeKw kwTokType
  emit (if tokOneOf kwTokType [.KwmStr, .KwmNrStr] then .HIDDEN else .DEFAULT) kwTokType
  macroCallOrStatPreload kwTokType allowMacroLabel

/-! ## `lex_macro_call`, `lex_macro_identifier` -/

/-- `lex_macro_call` -/
def lexMacroCall (cfg : Cfg) (allowQuoteCall allowStatToFollow : Bool) : Prog MacroKwType := do
  dbg cfg (peekIs '%') "lex_macro_call: peek == '%'"
  if !isUnicodeNameStart (← peekNext) then return .none
  -- `la_cursor = self.cursor.clone(); la_cursor.advance()`
  let la := (← rest).drop 1
  dbg cfg (pure (optAny la.head? isUnicodeNameStart)) "lex_macro_call_stat_or_label: first char"
  let (tokType, advBy) ← (do
    match lexMacroCallStatOrLabel la with
    | .ok x => pure x
    | .error err => do emitError err; pure (TokenType.MacroIdentifier, 0))
  if !isMacroStatTokType tokType then
    if !allowQuoteCall && isMacroQuoteCallTokType tokType then return .none
    advanceBy (advBy + 1)
    dispatchMacroCallOrStat cfg tokType false
    return .macroCall
  if !allowStatToFollow then emitError .OpenCodeRecursionError
  pure .macroStat

/-- `lex_macro_identifier` -/
def lexMacroIdentifier (cfg : Cfg) (allowMacroLabel : Bool) : Prog Unit := do
  dbg cfg (peekIs '%') "lex_macro_identifier: peek == '%'"
  dbg cfg (do pure (isUnicodeNameStart (← peekNext))) "lex_macro_identifier: peek_next is name start"
  advance_
  -- `lex_macro_call_stat_or_label(&mut self.cursor)`: the cursor is consumed by the
  -- `eat_while` before any result (or error) is produced
  dbg cfg (do pure (optAny (← peek) isUnicodeNameStart)) "lex_macro_call_stat_or_label: first char"
  let res := lexMacroCallStatOrLabel (← rest)
  eatWhile isIdentContinue
  let kwTokType ← (do
    match res with
    | .ok (t, _) => pure t
    | .error err => do emitError err; pure TokenType.MacroIdentifier)
  dispatchMacroCallOrStat cfg kwTokType allowMacroLabel

/-! ## `dispatch_macro_do`, `dispatch_macro_local_global` -/

/-- `dispatch_macro_do` -/
def dispatchMacroDo (cfg : Cfg) (nextChar : Char) : Prog Unit := do
  dbg cfg (do pure ((← perform .lastDefaultTok) == some .KwmDo)) "dispatch_macro_do: last default token is KwmDo"
  popMode
  if nextChar == ';' then
    startToken
    advance_
    emitD .SEMI
    pushMode .wsOrCStyleCommentOnly
  else if nextChar == '%' && isUnicodeNameStart (← peekNext) then
    let depth0 ← perform .modeDepth
    let hadCheckpoint ← perform .hasCheckpoint
    startToken
    lexMacroIdentifier cfg false
    let at_ := min depth0 (← perform .modeDepth)
    let notUntilWhile := match (← lastTokTy) with
      | some ty => !tokOneOf ty [.KwmUntil, .KwmWhile]
      | none => false
    if notUntilWhile then
      -- inserted *below* the modes pushed by the macro identifier lexing
      perform (.insertModeAt at_ (.macroNameExpr true none))
      perform (.insertModeAt at_ .wsOrCStyleCommentOnly)
      perform (.insertModeAt at_ (.expectSymbol .ASSIGN .DEFAULT))
      perform (.insertModeAt at_ .wsOrCStyleCommentOnly)
      perform (.insertModeAt at_ (.macroEval (EvalFlags.new .integer .none true true false) 0))
      if !hadCheckpoint then perform (.bumpCheckpointModeLen 5)
  else
    pushMode (.macroEval (EvalFlags.new .integer .none true true false) 0)
    pushMode .wsOrCStyleCommentOnly
    pushMode (.expectSymbol .ASSIGN .DEFAULT)
    pushMode .wsOrCStyleCommentOnly
    pushMode (.macroNameExpr false (some .UnexpectedSemiInDoLoop))

/-- `dispatch_macro_local_global` -/
def dispatchMacroLocalGlobal (cfg : Cfg) (nextChar : Char) (isLocal : Bool) : Prog Unit := do
  dbg cfg (do
      let t ← perform .lastDefaultTok
      pure (t == some .KwmLocal || t == some .KwmGlobal))
    "dispatch_macro_local_global: last default token is KwmLocal/KwmGlobal"
  popMode
  if nextChar == '/' then
    startToken
    advance_
    emitD .FSLASH
    expectMacroLetStat .InvalidMacroLocalGlobalReadonlyVarName
    pushMode (.macroNameExpr false
      (some (if isLocal then .MissingMacroLocalReadonlyKw else .MissingMacroGlobalReadonlyKw)))
    pushMode .wsOrCStyleCommentOnly
  else
    pushMode .expectSemiOrEOF
    pushMode .macroStatOptionsTextExpr

end SasLexer
