import SasLexer.Lex.Common
/-!
# `%name` dispatch: `macro.rs` predicates, `lex_macro_call_stat_or_label`,
`dispatch_macro_call_or_stat`, `lex_macro_identifier`, `lex_macro_call`, the `expect_*`
pre-loaders, `dispatch_macro_do`, `dispatch_macro_local_global`
-/
namespace SasLexer
open Prog (perform)
open P

inductive MacroKwType where | none | macroCall | macroStat
  deriving DecidableEq, Repr, Inhabited

def isMacroStatTokType (t : TokenType) : Bool :=
  TokenType.macroStatRange.1.toNat ≤ t.toNat && t.toNat ≤ TokenType.macroStatRange.2.toNat

def isMacroQuoteCallTokType (t : TokenType) : Bool :=
  TokenType.macroQuoteCallRange.1.toNat ≤ t.toNat && t.toNat ≤ TokenType.macroQuoteCallRange.2.toNat

/-- STUB: `is_macro_stat(input)` where `input` starts with `%` -/
def isMacroStat (_r : List Char) : Bool := false

/-- STUB: `is_macro_eval_mnemonic(chars)` → (token type, extra chars besides the first) -/
def isMacroEvalMnemonic (_r : List Char) : Option TokenType × Nat := (none, 0)

/-- STUB -/
def lexMacroIdentifier (_cfg : Cfg) (_allowMacroLabel : Bool) : Prog Unit :=
  unmodelled "lex_macro_identifier"

/-- STUB -/
def lexMacroCall (_cfg : Cfg) (_allowQuoteCall _allowStatToFollow : Bool) : Prog MacroKwType := do
  unmodelled "lex_macro_call"
  pure .none

/-- STUB -/
def dispatchMacroDo (_cfg : Cfg) (_c : Char) : Prog Unit := unmodelled "dispatch_macro_do"

/-- STUB -/
def dispatchMacroLocalGlobal (_cfg : Cfg) (_c : Char) (_isLocal : Bool) : Prog Unit :=
  unmodelled "dispatch_macro_local_global"

end SasLexer
