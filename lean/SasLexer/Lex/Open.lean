import SasLexer.Lex.MacroCall
/-!
# Open code: `dispatch_mode_default`, `lex_symbols`, `lex_identifier`, `lex_datalines`,
`dispatch_mode_str_expr`, `lex_str_expr_text`, `handle_unterminated_str_expr`,
`lex_double_quoted_literal`
-/
namespace SasLexer
open Prog (perform)
open P

/-! ## `lex_datalines` -/
def datalinesForwardCheck : List Char → Bool
  | [] => false
  | c :: r => if c == ';' then true else if isWhitespace c then datalinesForwardCheck r else false

def datalinesToSemiLoop : Nat → Prog Unit
  | 0 => abort "fuel:lex_datalines(1)"
  | f + 1 => do
    match (← advance) with
    | some c =>
      if c == '\n' then do addLine; datalinesToSemiLoop f
      else if isWhitespace c then datalinesToSemiLoop f
      else pure ()
    | none => pure ()

/-- returns whether the full ending was found (`terminated`) -/
def datalinesBodyLoop (ending : List Char) : Nat → Prog Bool
  | 0 => do abort "fuel:lex_datalines(2)"; pure true
  | f + 1 => do
    let r ← rest
    match r.head? with
    | some '\n' => do advance_; addLine; datalinesBodyLoop ending f
    | some ';' | none =>
      if utf8Len r < ending.length then do emitError .UnterminatedDatalines; pure false
      else if r.take ending.length == ending then pure true
      else do advance_; datalinesBodyLoop ending f
    | some _ => do advance_; datalinesBodyLoop ending f

def lexDatalines (cfg : Cfg) (is4 : Bool) : Prog Bool := do
  if cfg.debug then
    let t ← perform .pendingText
    let u := upperStr t
    let ok := if is4 then u == "DATALINES4" || u == "CARDS4" || u == "LINES4"
              else u == "DATALINES" || u == "CARDS" || u == "LINES"
    perform (.dassert ok "lex_datalines: pending token text")
  match (← perform .lastDefaultTok) with
  | some ty => if ty != .SEMI then return false
  | none => pure ()
  if !datalinesForwardCheck (← rest) then return false
  datalinesToSemiLoop (← fuelOfRest)
  emitD .DatalinesStart
  startToken
  let ending : List Char := if is4 then [';', ';', ';', ';'] else [';']
  let terminated ← datalinesBodyLoop ending (← fuelOfRest)
  emitD .DatalinesData
  startToken
  if terminated then advanceBy ending.length else eatWhile (· == ';')
  emitD .SEMI
  pure true

/-! ## `lex_identifier` -/
def lexIdentifier (cfg : Cfg) : Prog Unit := do
  dbg cfg (do pure (optAny (← peek) fun c => c == '_' || isXidStart c)) "lex_identifier: name start"
  -- `is_ascii` of the closure: false iff a non-ASCII XID_Continue char was eaten
  let eaten := (← rest).takeWhile isIdentContinue
  let isAsciiId := eaten.all isAscii
  eatWhile isIdentContinue
  let ident ← perform .pendingText
  if !isAsciiId || utf8Len ident > TokenType.MAX_KEYWORDS_LEN then
    emitD .Identifier
  else
    let up := upperStr ident
    match lookupKw TokenType.KEYWORDS up with
    | some kw => emitD kw
    | none =>
      if up == "DATALINES" || up == "CARDS" || up == "LINES" then
        if !(← lexDatalines cfg false) then emitD .Identifier
      else if up == "DATALINES4" || up == "CARDS4" || up == "LINES4" then
        if !(← lexDatalines cfg true) then emitD .Identifier
      else emitD .Identifier

/-! ## `lex_symbols` -/
def lexSymbols (cfg : Cfg) (c : Char) : Prog Unit := do
  let one (ty : TokenType) : Prog Unit := do advance_; emitD ty
  let two (second : Char) (ty2 ty1 : TokenType) : Prog Unit := do
    advance_
    if (← peek) == some second then do advance_; emitD ty2 else emitD ty1
  if c == '*' then
    advance_
    if !(← lexPredictedComment) then
      if (← peek) == some '*' then do advance_; emitD .STAR2 else emitD .STAR
  else if c == '(' then one .LPAREN
  else if c == ')' then one .RPAREN
  else if c == '{' then one .LCURLY
  else if c == '}' then one .RCURLY
  else if c == '[' then one .LBRACK
  else if c == ']' then one .RBRACK
  else if c == '!' then two '!' .EXCL2 .EXCL
  else if c == '¦' then two '¦' .BPIPE2 .BPIPE
  else if c == '|' then two '|' .PIPE2 .PIPE
  else if c == '¬' || c == '^' || c == '~' || c == '∘' then two '=' .NE .NOT
  else if c == '+' then one .PLUS
  else if c == '-' then one .MINUS
  else if c == '<' then
    advance_
    match (← peek) with
    | some '=' => do advance_; emitD .LE
    | some '>' => do advance_; emitD .LTGT
    | _ => emitD .LT
  else if c == '>' then
    advance_
    match (← peek) with
    | some '=' => do advance_; emitD .GE
    | some '<' => do advance_; emitD .GTLT
    | _ => emitD .GT
  else if c == '.' then
    if isAsciiDigit (← peekNext) then lexNumericLiteral cfg true
    else one .DOT
  else if c == ',' then one .COMMA
  else if c == ':' then one .COLON
  else if c == '=' then two '*' .SoundsLike .ASSIGN
  else if c == '$' then
    advance_
    if !(← lexCharFormat) then emitD .DOLLAR
  else if c == '@' then one .AT
  else if c == '#' then one .HASH
  else if c == '?' then one .QUESTION
  else do advance_; emit .HIDDEN .CatchAll

/-! ## `dispatch_mode_default` -/
def dispatchModeDefault (cfg : Cfg) (c : Char) : Prog Unit := do
  dbg cfg (do pure ((← mode) == .default)) "dispatch_mode_default: mode"
  startToken
  if isWhitespace c then lexWs cfg
  else if c == '\'' then do lexSingleQuotedStr cfg; setPending true
  else if c == '"' then do lexStringExpressionStart cfg true; setPending true
  else if c == ';' then do advance_; emitD .SEMI; setPending false
  else if c == '/' then
    if (← peekNext) == '*' then lexCStyleComment cfg
    else do advance_; emitD .FSLASH; setPending true
  else if c == '&' then
    if !(← lexMacroVarExpr cfg) then
      eatWhile (· == '&')
      emitD .AMP
    setPending true
  else if c == '%' then
    let n ← peekNext
    if n == '*' then lexMacroComment cfg
    else if isUnicodeNameStart n then lexMacroIdentifier cfg true
    else do advance_; emitD .PERCENT; setPending true
  else if isAsciiDigit c then do lexNumericLiteral cfg false; setPending true
  else if isUnicodeNameStart c then
    lexIdentifier cfg
    setPending (!((← lastTokTy) == some .SEMI))
  else
    lexSymbols cfg c
    match (← lastTokTy) with
    | some ty => if ty != .PredictedCommentStat then setPending true
    | none => pure ()

/-! ## string expressions -/
def lastTokIsStart : Prog Bool := do pure ((← lastTokTy) == some .StringExprStart)

def handleUnterminatedStrExpr (cfg : Cfg) : Prog Unit := do
  dbg cfg (do pure ((← peek) == none)) "handle_unterminated_str_expr: EOF"
  if (← lastTokIsStart) then perform (.updateLastToken .DEFAULT .StringLiteral .reg)
  else emitD .StringExprEnd .reg
  emitError .UnterminatedStringLiteral

/-- payload comes in the payload register -/
def lexDoubleQuotedLiteral (cfg : Cfg) : Prog Unit := do
  dbg cfg (peekIs '"') "lex_double_quoted_literal: peek == '\"'"
  advance_
  let ty ← resolveStringLiteralEnding
  if ty == .HexStringLiteral then
    let txt ← perform .pendingTextWithPrev
    match parseSasHexString txt with
    | some v => perform (.litAddDecoded v)
    | none => emitError .InvalidHexStringConstant
  perform (.updateLastToken .DEFAULT ty .reg)
  popMode

inductive StrTextEnd where | done | eof

def lexStrExprTextLoop (cfg : Cfg) : Nat → Prog StrTextEnd
  | 0 => do abort "fuel:lex_str_expr_text"; pure .done
  | f + 1 => do
    let r ← rest
    match r.head? with
    | none => pure .eof
    | some c =>
      if c == '&' then
        let (isMacro, n) := isMacroAmp r 0
        if isMacro then
          perform (.litResolve 0)
          emitD .StringExprText .reg
          pure .done
        else do advanceBy n; lexStrExprTextLoop cfg f
      else if c == '%' then
        if isMacroPercent ((r.drop 1).head?.getD (Char.ofNat 0)) false then
          perform (.litResolve 0)
          emitD .StringExprText .reg
          pure .done
        else do advance_; lexStrExprTextLoop cfg f
      else if c == '\n' then do advance_; addLine; lexStrExprTextLoop cfg f
      else if c == '"' then
        if (r.drop 1).head? == some '"' then
          advance_
          perform .litCut
          advance_
          perform .litMarkEnd
          lexStrExprTextLoop cfg f
        else
          let isStart ← lastTokIsStart
          perform (.litResolve 0)
          if isStart then lexDoubleQuotedLiteral cfg
          else emitD .StringExprText .reg
          pure .done
      else do advance_; lexStrExprTextLoop cfg f

def lexStrExprText (cfg : Cfg) : Prog Unit := do
  perform .litBeginAtTok
  match (← lexStrExprTextLoop cfg (← fuelOfRest)) with
  | .done => pure ()
  | .eof =>
    perform (.litResolve 0)
    handleUnterminatedStrExpr cfg
    -- `finalize_lexing` calls the handler with the mode already popped: the pop is here
    popMode

def strExprEndType (c : Option Char) (n : Char) : TokenType × Nat :=
  match c with
  | some c =>
    if c == 'b' || c == 'B' then (.BitTestingLiteralExprEnd, 1)
    else if c == 'd' || c == 'D' then
      if n == 't' || n == 'T' then (.DateTimeLiteralExprEnd, 2) else (.DateLiteralExprEnd, 1)
    else if c == 'n' || c == 'N' then (.NameLiteralExprEnd, 1)
    else if c == 't' || c == 'T' then (.TimeLiteralExprEnd, 1)
    else if c == 'x' || c == 'X' then (.HexStringLiteralExprEnd, 1)
    else (.StringExprEnd, 0)
  | none => (.StringExprEnd, 0)

def dispatchModeStrExpr (cfg : Cfg) (c : Char) (allowStat : Bool) : Prog Unit := do
  dbg cfg (do pure ((← mode) == .stringExpr allowStat)) "dispatch_mode_str_expr: mode"
  startToken
  if c == '"' then
    if (← peekNext) == '"' then lexStrExprText cfg
    else if (← lastTokIsStart) then do perform .payClear; lexDoubleQuotedLiteral cfg
    else
      advance_
      let (ty, n) := strExprEndType (← peek) (← peekNext)
      -- `if DateTime { advance }` then `if tok_type != StringExprEnd { advance }`
      if n == 2 then advance_
      if ty != .StringExprEnd then advance_
      emitD ty
      popMode
  else if c == '&' then
    if !(← lexMacroVarExpr cfg) then lexStrExprText cfg
  else if c == '%' then
    if isUnicodeNameStart (← peekNext) then
      if allowStat then lexMacroIdentifier cfg false
      else
        perform (.prepError .OpenCodeRecursionError)
        lexMacroIdentifier cfg false
        if optAny' (← lastTokTy) isMacroStatTokType then
          let _ ← perform .emitPrepared
          pure ()
    else do advance_; lexStrExprText cfg
  else lexStrExprText cfg
where
  optAny' (o : Option TokenType) (p : TokenType → Bool) : Bool := match o with | some t => p t | none => false

end SasLexer
