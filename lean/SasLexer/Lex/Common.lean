import SasLexer.Lex.Helpers
/-!
# Scanners shared by open code and macro modes
(`lex_ws`, `lex_cstyle_comment`, `lex_single_quoted_str`, `resolve_string_literal_ending`,
`lex_string_expression_start`, `lex_macro_var_expr`, `lex_macro_comment`, `lex_numeric_literal`,
`lex_char_format`, `lex_predicted_comment`, `lex_expected_token`).
One Lean function per Rust function, same arm order. Loops take fuel (initialised from the
number of remaining characters); running out of fuel is a panic `fuel:<site>`.
-/
namespace SasLexer
open Prog (perform)
open P

/-- fuel for an inner loop: remaining chars + 1 -/
def fuelOfRest : Prog Nat := do let r ← rest; pure (r.length + 1)

/-! ## `lex_ws` -/
def lexWsLoop : Nat → Prog Unit
  | 0 => abort "fuel:lex_ws"
  | f + 1 => do
    let c ← advance
    if c == some '\n' then addLine
    let p ← peek
    if optAny p isWhitespace then lexWsLoop f else pure ()

def lexWs (cfg : Cfg) : Prog Unit := do
  dbg cfg (do pure (optAny (← peek) isWhitespace)) "lex_ws: peek is whitespace"
  lexWsLoop (← fuelOfRest)
  emit .HIDDEN .WS

/-! ## `lex_cstyle_comment` -/
def lexCStyleLoop : Nat → Prog Bool   -- true = terminated
  | 0 => do abort "fuel:lex_cstyle_comment"; pure false
  | f + 1 => do
    match (← advance) with
    | none => pure false
    | some c =>
      if c == '*' && (← peek) == some '/' then
        advance_
        pure true
      else
        if c == '\n' then addLine
        lexCStyleLoop f

def lexCStyleComment (cfg : Cfg) : Prog Unit := do
  dbg cfg (peekIs '/') "lex_cstyle_comment: peek == '/'"
  dbg cfg (do pure ((← peekNext) == '*')) "lex_cstyle_comment: peek_next == '*'"
  advance_
  advance_
  let closed ← lexCStyleLoop (← fuelOfRest)
  emit .COMMENT .CStyleComment
  if !closed then emitError .UnterminatedComment

/-! ## `lex_string_expression_start` -/
def lexStringExpressionStart (cfg : Cfg) (allowStat : Bool) : Prog Unit := do
  dbg cfg (peekIs '"') "lex_string_expression_start: peek == '\"'"
  advance_
  emitD .StringExprStart
  pushMode (.stringExpr allowStat)

/-! ## `resolve_string_literal_ending` (the `prev_char` debug assertion is not modelled:
it inspects a debug-only field that nothing else reads) -/
def resolveStringLiteralEnding : Prog TokenType := do
  let ty ← (do
    match (← peek) with
    | some c =>
      if c == 'b' || c == 'B' then pure TokenType.BitTestingLiteral
      else if c == 'd' || c == 'D' then
        let n ← peekNext
        if n == 't' || n == 'T' then
          advance_
          pure TokenType.DateTimeLiteral
        else pure TokenType.DateLiteral
      else if c == 'n' || c == 'N' then pure TokenType.NameLiteral
      else if c == 't' || c == 'T' then pure TokenType.TimeLiteral
      else if c == 'x' || c == 'X' then pure TokenType.HexStringLiteral
      else pure TokenType.StringLiteral
    | none => pure TokenType.StringLiteral)
  if ty != .StringLiteral then advance_
  pure ty

/-! ## `hex.rs`: `parse_sas_hex_string` on the full token text (quotes and trailing `x` included) -/

/-- the two-hex-digit test + `u8::from_str_radix(s, 16)` of `parse_sas_hex_string` -/
def u8FromStrRadix16 : List Char → Option Nat
  | [a, b] =>
    if isAsciiHexDigit a && isAsciiHexDigit b then some (hexDigitVal a * 16 + hexDigitVal b)
    else none
  | _ => none

def hexPairs : List Char → Option (List Char)
  | [] => some []
  | [_] => none                 -- `cleaned_text.get(i..i+2)` out of range
  | a :: b :: r => do
    -- `get(i..i+2)` is a *byte* slice: a non-ASCII char makes it `None` or a non-hex string
    if !(isAscii a && isAscii b) then none
    let v ← u8FromStrRadix16 [a, b]
    let t ← hexPairs r
    pure (Char.ofNat v :: t)    -- ISO-8859-1: byte b ↦ U+00bb

/-- returns the decoded text, or `none` for `InvalidHexStringConstant` -/
def parseSasHexString (tokenText : List Char) : Option (List Char) :=
  -- `.get(1..len-2)`: strip the opening quote and the closing quote + x
  if tokenText.length < 3 then none
  else
    let inner := (tokenText.drop 1).take (tokenText.length - 3)
    hexPairs (inner.filter (· != ','))

/-! ## `lex_single_quoted_str` -/
inductive SqEnd where | closed | eof

def lexSingleQuotedLoop : Nat → Prog SqEnd
  | 0 => do abort "fuel:lex_single_quoted_str"; pure .eof
  | f + 1 => do
    match (← advance) with
    | some c =>
      if c == '\'' then
        if (← peek) == some '\'' then
          perform .litCut
          advance_
          perform .litMarkEnd
          lexSingleQuotedLoop f
        else pure .closed
      else
        if c == '\n' then addLine
        lexSingleQuotedLoop f
    | none => pure .eof

def lexSingleQuotedStr (cfg : Cfg) : Prog Unit := do
  dbg cfg (peekIs '\'') "lex_single_quoted_str: peek == '\\''"
  advance_
  perform .litBegin
  match (← lexSingleQuotedLoop (← fuelOfRest)) with
  | .eof =>
    perform (.litResolve 0)
    emitD .StringLiteral .reg
    emitError .UnterminatedStringLiteral
  | .closed =>
    -- `str_text_end_byte_offset = cur_byte_offset() - 1` is taken *before* the ending is
    -- resolved; the ending consumes 0, 1 or 2 ASCII chars, so relative to the cursor after
    -- the ending it is `1 + consumed`.
    let ty ← resolveStringLiteralEnding
    let back := match ty with
      | .StringLiteral => 1
      | .DateTimeLiteral => 3
      | _ => 2
    let mut err : Option ErrorKind := none
    let mut decoded := false
    if ty == .HexStringLiteral then
      let txt ← perform .pendingText
      match parseSasHexString txt with
      | some v =>
        perform (.litAddDecoded v)
        decoded := true
      | none => err := some .InvalidHexStringConstant
    if !decoded then perform (.litResolve back)
    emitD ty .reg
    match err with
    | some e => emitError e
    | none => pure ()

/-! ## `lex_macro_var_expr` -/

/-- the `for rev_prec in ops { advance_by(2^rev_prec); emit MacroVarResolve; start_token }` loop -/
def emitResolveOps : List Nat → Prog Unit
  | [] => pure ()
  | k :: ks => do
    advanceBy (2 ^ k)
    emitD .MacroVarResolve (.int k)
    startToken
    emitResolveOps ks

def lexMacroVarExprLoop : Nat → List Nat → Prog Unit
  | _, [] => pure ()
  | 0, _ => abort "fuel:lex_macro_var_expr"
  | f + 1, stack => do       -- `stack`: resolve_op_stack, bottom first
    match (← peek) with
    | some c =>
      if isUnicodeNameStart c then
        eatWhile isXidContinue
        emitD .MacroString
        startToken
        lexMacroVarExprLoop f stack
      else if c == '.' then
        advance_
        emitD .MacroVarTerm
        startToken
        lexMacroVarExprLoop f stack.dropLast
      else if c == '&' then
        let (isMacro, ampCount) := isMacroAmp (← rest) 0
        if !isMacro then pure ()
        else
          let following := resolveOps ampCount
          emitResolveOps following
          match following.head? with
          | none => abort "unreachable: lex_macro_var_expr"
          | some maxPrec =>
            lexMacroVarExprLoop f (stack.filter (· > maxPrec) ++ following)
      else pure ()
    | none => pure ()

/-- returns `true` if tokens were emitted -/
def lexMacroVarExpr (cfg : Cfg) : Prog Bool := do
  dbg cfg (peekIs '&') "lex_macro_var_expr: peek == '&'"
  let (isMacro, ampCount) := isMacroAmp (← rest) 0
  if !isMacro then pure false
  else
    let ops := resolveOps ampCount
    emitResolveOps ops
    -- each iteration consumes ≥ 1 char or pops the stack; the stack never exceeds 32 entries
    lexMacroVarExprLoop ((← fuelOfRest) * 34 + 34) ops
    pure true

/-! ## `lex_macro_comment` -/
inductive Quote where | none | single | double
  deriving DecidableEq

def lexMacroCommentLoop : Nat → Quote → Prog Unit
  | 0, _ => abort "fuel:lex_macro_comment"
  | f + 1, q => do
    match (← advance) with
    | none => pure ()
    | some c =>
      if c == ';' && q == .none then pure ()
      else if c == '\n' then do addLine; lexMacroCommentLoop f q
      else if c == '\'' && q == .none then lexMacroCommentLoop f .single
      else if c == '\'' && q == .single then lexMacroCommentLoop f .none
      else if c == '"' && q == .none then lexMacroCommentLoop f .double
      else if c == '"' && q == .double then lexMacroCommentLoop f .none
      else lexMacroCommentLoop f q

def lexMacroComment (cfg : Cfg) : Prog Unit := do
  dbg cfg (peekIs '%') "lex_macro_comment: peek == '%'"
  dbg cfg (do pure ((← peekNext) == '*')) "lex_macro_comment: peek_next == '*'"
  advance_
  advance_
  lexMacroCommentLoop (← fuelOfRest) .none
  emit .COMMENT .MacroComment

/-! ## `lex_numeric_literal` -/
/-- `x`/`X` -/
def isXChar (o : Option Char) : Bool := o == some 'x' || o == some 'X'

/-- the decimal / hex arbitration of `lex_numeric_literal`: (result, "a trailing `x` is expected") -/
def numericChoice (view : List Char) (seenDot : Bool) : Option (NumRes × Bool) :=
  let hexR := if seenDot then none else tryParseHexInteger view
  let decR := tryParseDecimal view (!seenDot) true
  match decR, hexR with
  | some d, some h =>
    if d.len > h.len then some (d, false)
    else if h.len > d.len then some (h, true)
    else if isXChar view[h.len]? then some (h, true) else some (d, false)
  | some d, none => some (d, false)
  | none, some h => some (h, true)
  | none, none =>
    let len := (view.takeWhile isAsciiDigit).length
    if len = 0 then none
    else some (⟨.FloatLiteral, .float 0, len, some .InvalidNumericLiteral⟩, false)

def lexNumericLiteral (cfg : Cfg) (seenDot : Bool) : Prog Unit := do
  dbg cfg (do pure (optAny (← peek) fun c => isAsciiDigit c || c == '.')) "lex_numeric_literal: digit or dot"
  let view ← rest
  let isX := isXChar
  let choice := numericChoice view seenDot
  match choice with
  | none => abort "unreachable: lex_numeric_literal"
  | some (res, checkX) =>
    advanceBy res.len
    let mut missingX := false
    if checkX then
      if isX (← peek) then advance_ else missingX := true
    emitD res.ty res.payload
    match res.err with
    | some e => emitError e
    | none => pure ()
    if missingX then emitError .UnterminatedHexNumericLiteral

/-! ## `lex_char_format` (look-ahead on a cloned cursor = pure function of the rest) -/
def charFormatLen (r : List Char) : Option Nat :=
  match r with
  | [] => none
  | c :: _ =>
    let r1 := if isUnicodeNameStart c then (r.drop 1).dropWhile isXidContinue else r
    let r2 := r1.dropWhile isAsciiDigit
    match r2 with
    | '.' :: r3 => some (r.length - (r3.dropWhile isAsciiDigit).length)
    | _ => none

def lexCharFormat : Prog Bool := do
  match charFormatLen (← rest) with
  | none => pure false
  | some n =>
    advanceBy n
    emitD .CharFormat
    pure true

/-! ## `lex_predicted_comment` -/
def predictedOpenLoop : Nat → Prog Unit
  | 0 => abort "fuel:lex_predicted_comment"
  | f + 1 => do
    match (← advance) with
    | none => pure ()
    | some c =>
      if c == '\n' then do addLine; predictedOpenLoop f
      else if c == ';' then pure ()
      else predictedOpenLoop f

/-- returns `false` when macro code was hit (after `rollback`) -/
def predictedMacroLoop : Nat → Prog Bool
  | 0 => do abort "fuel:lex_predicted_comment"; pure true
  | f + 1 => do
    match (← advance) with
    | none => pure true
    | some c =>
      if c == '\n' then do addLine; predictedMacroLoop f
      else if c == '%' && optAny (← peek) isUnicodeNameStart then do
        perform .rollback
        pure false
      else if c == ';' then pure true
      else predictedMacroLoop f

def lexPredictedComment : Prog Bool := do
  if (← perform .pendingStat) then pure false
  else if (← perform .nesting) == 0 then
    predictedOpenLoop (← fuelOfRest)
    emit .COMMENT .PredictedCommentStat
    pure true
  else
    perform .checkpoint
    if (← predictedMacroLoop (← fuelOfRest)) then
      perform .clearCheckpoint
      emit .COMMENT .PredictedCommentStat
      pure true
    else pure false

/-! ## `lex_expected_token` -/
def expectedCharAndError : TokenType → Option (Char × ErrorKind)
  | .RPAREN => some (')', .MissingExpectedRParen)
  | .ASSIGN => some ('=', .MissingExpectedAssign)
  | .LPAREN => some ('(', .MissingExpectedLParen)
  | .COMMA => some (',', .MissingExpectedComma)
  | .FSLASH => some ('/', .MissingExpectedFSlash)
  | _ => none

def lexExpectedToken (cfg : Cfg) (nextChar : Option Char) (ty : TokenType) (ch : Channel) : Prog Unit := do
  -- `debug_assert!(self.mode() == ExpectSymbol(..) || self.cursor.peek().is_none())`:
  -- `self.mode()` is evaluated first (and has its defensive side effect on an empty stack)
  if cfg.debug then
    let m ← mode
    let ok ← (do if m == .expectSymbol ty ch then pure true else pure ((← peek) == none))
    perform (.dassert ok "lex_expected_token: mode is ExpectSymbol or EOF")
    perform (.dassert (expectedCharAndError ty).isSome "lex_expected_token: expected token type")
  match expectedCharAndError ty with
  | none =>
    emitError .InternalErrorUnexpectedTokenType
    popMode
  | some (ec, ek) =>
    if nextChar != some ec then emitError ek else advance_
    emit ch ty
    if nextChar.isSome then popMode

end SasLexer
