import SasLexer.Lex.Open
/-!
# Macro call / definition arguments and `%str`: `lex_maybe_macro_call_args_or_label`,
`lex_maybe_macro_call_arg_assign`, `lex_maybe_tail_macro_call_arg_value`,
`dispatch_macro_call_arg_or_value`, `dispatch_macro_call_arg_value`,
`lex_macro_string_in_macro_call_arg_value`, `lex_maybe_macro_def_args`,
`dispatch_macro_def_arg`, `lex_macro_def_next_arg_or_default_value`,
`dispatch_macro_str_quoted_expr`, `lex_macro_string_in_str_call`, `lex_macro_def_identifier`
-/
namespace SasLexer
open Prog (perform)
open P

/-- STUB -/
def lexMaybeMacroCallArgsOrLabel (_cfg : Cfg) (_c : Char) (_checkMacroLabel : Bool) : Prog Unit :=
  unmodelled "lex_maybe_macro_call_args_or_label"
/-- STUB -/
def lexMaybeMacroCallArgAssign (_cfg : Cfg) (_c : Char) (_flags : Nat) : Prog Unit :=
  unmodelled "lex_maybe_macro_call_arg_assign"
/-- STUB -/
def lexMaybeTailMacroCallArgValue (_cfg : Cfg) (_c : Char) : Prog Unit :=
  unmodelled "lex_maybe_tail_macro_call_arg_value"
/-- STUB -/
def dispatchMacroCallArgOrValue (_cfg : Cfg) (_c : Char) (_flags : Nat) : Prog Unit :=
  unmodelled "dispatch_macro_call_arg_or_value"
/-- STUB -/
def dispatchMacroCallArgValue (_cfg : Cfg) (_c : Char) (_flags _pnl : Nat) : Prog Unit :=
  unmodelled "dispatch_macro_call_arg_value"
/-- STUB -/
def lexMaybeMacroDefArgs (_cfg : Cfg) (_c : Char) : Prog Unit := unmodelled "lex_maybe_macro_def_args"
/-- STUB -/
def dispatchMacroDefArg (_cfg : Cfg) (_c : Char) : Prog Unit := unmodelled "dispatch_macro_def_arg"
/-- STUB -/
def lexMacroDefNextArgOrDefaultValue (_cfg : Cfg) (_c : Char) : Prog Unit :=
  unmodelled "lex_macro_def_next_arg_or_default_value"
/-- STUB -/
def dispatchMacroStrQuotedExpr (_cfg : Cfg) (_c : Char) (_maskMacro : Bool) (_pnl : Nat) : Prog Unit :=
  unmodelled "dispatch_macro_str_quoted_expr"
/-- STUB: returns `true` if an identifier token was emitted -/
def lexMacroDefIdentifier (_cfg : Cfg) (_c : Char) (_isArgument : Bool) : Prog Bool := do
  unmodelled "lex_macro_def_identifier"
  pure false

end SasLexer
