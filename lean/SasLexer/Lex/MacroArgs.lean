import SasLexer.Lex.Open
/-!
# Macro call / definition arguments and `%str`: `lex_maybe_macro_call_args_or_label`,
`lex_maybe_macro_call_arg_assign`, `lex_maybe_tail_macro_call_arg_value`,
`dispatch_macro_call_arg_or_value`, `dispatch_macro_call_arg_value`,
`lex_macro_string_in_macro_call_arg_value`, `lex_maybe_macro_def_args`,
`dispatch_macro_def_arg`, `lex_macro_def_next_arg_or_default_value`,
`dispatch_macro_str_quoted_expr`, `lex_macro_string_in_str_call`, `lex_macro_def_identifier`
-/
namespace SasLexer
open Prog (perform)
open P

/-! ## pure helpers -/

/-- `needs_macro_sep` of `macro.rs` (feature `macro_sep`); private copy, `MacroCall.lean`
has its own. -/
private def needsMacroSep' (prev : Option TokenType) (ty : TokenType) : Bool :=
  !(match prev with
    | none => true
    | some p => p == .SEMI || p == .MacroLabel || p == .KwmThen || p == .KwmElse)
  && [TokenType.MacroLabel, .KwmAbort, .KwmCopy, .KwmDisplay, .KwmGlobal, .KwmGoto, .KwmInput,
      .KwmLocal, .KwmPut, .KwmReturn, .KwmSymdel, .KwmSyscall, .KwmSysexec, .KwmSyslput,
      .KwmSysmacdelete, .KwmSysmstoreclear, .KwmSysrput, .KwmWindow, .KwmMacro, .KwmMend,
      .KwmLet, .KwmIf, .KwmElse, .KwmDo, .KwmEnd].contains ty

/-- `u32::wrapping_add_signed(i32)` -/
def wrapAddSigned (pnl : Nat) (l : Int) : Nat := (((pnl : Int) + l) % 4294967296).toNat

/-- the `match flags.context() { … }` that selects the mode of the next argument (written
out three times in the Rust) -/
def nextArgModeOf (flags : Nat) : Mode :=
  match ArgFlags.context flags with
  | .macroCall => .macroCallArgOrValue flags
  | .builtInMacro => .macroCallValue flags 0
  | .macroDef => .macroDefArg

/-- second char of a text or `EOF_CHAR` (`peek_next` on an already fetched `rest`) -/
def secondCharOr0 (r : List Char) : Char := (r.drop 1).head?.getD (Char.ofNat 0)

def lastTokTyIs (o : Option (TokenType × Channel)) (p : TokenType → Bool) : Bool :=
  match o with | some t => p t.1 | none => false

/-- the `if flags.populate_next_arg_stack() { … }` block after a terminating `,` (written
out three times in the Rust) -/
def populateNextArgStack (flags : Nat) : Prog Unit := do
  if ArgFlags.populateNextArgStack flags then
    startToken
    advance_
    emitD .COMMA
    pushMode (nextArgModeOf flags)
    pushMode .wsOrCStyleCommentOnly

/-! ## `lex_maybe_macro_call_args_or_label` -/
/-- `lex_maybe_macro_call_args_or_label` -/
def lexMaybeMacroCallArgsOrLabel (cfg : Cfg) (c : Char) (checkMacroLabel : Bool) : Prog Unit := do
  dbg cfg (do pure ((← mode) == .maybeMacroCallArgsOrLabel checkMacroLabel))
    "lex_maybe_macro_call_args_or_label: mode"
  if c == '(' then
    startToken
    advance_
    emitD .LPAREN
    perform .clearCheckpoint
    popMode
    pushMode (.expectSymbol .RPAREN .DEFAULT)
    pushMode (.macroCallArgOrValue (ArgFlags.new .macroCall true true))
    pushMode .wsOrCStyleCommentOnly
  else if c == ':' && checkMacroLabel then
    if !(← perform (.retypeLastDefault .MacroIdentifier .MacroLabel)) then
      emitError .InternalErrorNoTokenToReplace
    if cfg.macroSep then
      -- `last_two_tokens`: the last two DEFAULT-channel tokens, newest first
      match (← perform .lastDefaultTok) with
      | some lastTy =>
        let secondLastTy ← perform .secondLastDefaultTok
        if needsMacroSep' secondLastTy lastTy then perform .insertSepBeforeLastDefault
      | none => pure ()
    startToken
    advance_
    emit .HIDDEN .COLON
    perform .clearCheckpoint
    popMode
  else
    dbg cfg (perform .hasCheckpoint) "lex_maybe_macro_call_args_or_label: checkpoint.is_some()"
    perform .rollback

/-! ## `lex_maybe_macro_call_arg_assign` -/
/-- `lex_maybe_macro_call_arg_assign` -/
def lexMaybeMacroCallArgAssign (cfg : Cfg) (c : Char) (flags : Nat) : Prog Unit := do
  dbg cfg (do pure ((← mode) == .maybeMacroCallArgAssign flags)) "lex_maybe_macro_call_arg_assign: mode"
  popMode
  if c == '=' then
    startToken
    advance_
    emitD .ASSIGN
    perform .clearCheckpoint
    pushMode (.macroCallValue flags 0)
    pushMode .wsOrCStyleCommentOnly
  else
    dbg cfg (perform .hasCheckpoint) "lex_maybe_macro_call_arg_assign: checkpoint.is_some()"
    perform .rollback
    pushMode (.macroCallValue flags 0)

/-! ## `lex_maybe_tail_macro_call_arg_value` -/
/-- `lex_maybe_tail_macro_call_arg_value` -/
def lexMaybeTailMacroCallArgValue (cfg : Cfg) (c : Char) : Prog Unit := do
  dbg cfg (do pure ((← mode) == .maybeTailMacroArgValue)) "lex_maybe_tail_macro_call_arg_value: mode"
  popMode
  if c == ',' then
    startToken
    advance_
    emitD .COMMA
    pushMode (.macroCallValue (ArgFlags.new .builtInMacro false false) 0)
    pushMode .wsOrCStyleCommentOnly

/-! ## `dispatch_macro_call_arg_or_value` -/

/-- the nested `fn safe_pop_mode` -/
def safePopMode : Prog Unit := do
  perform .clearCheckpoint
  popMode

/-- the closure `switch_to_value_mode` -/
def switchToValueMode (flags : Nat) : Prog Unit := do
  if (← perform .hasCheckpoint) then perform .rollback else popMode
  pushMode (.macroCallValue flags 0)

/-- the closure `push_check_assign` -/
def pushCheckAssign (flags : Nat) : Prog Unit := do
  if !(← perform .hasCheckpoint) then perform .checkpoint
  pushMode (.maybeMacroCallArgAssign flags)
  pushMode .wsOrCStyleCommentOnly

/-- `dispatch_macro_call_arg_or_value` -/
def dispatchMacroCallArgOrValue (cfg : Cfg) (c : Char) (flags : Nat) : Prog Unit := do
  dbg cfg (do pure ((← mode) == .macroCallArgOrValue flags)) "dispatch_macro_call_arg_or_value: mode"
  startToken
  if c == '/' then
    if (← peekNext) == '*' then pushCheckAssign flags
    else switchToValueMode flags
  else if c == '&' then
    if (← lexMacroVarExpr cfg) then perform .clearCheckpoint
    else switchToValueMode flags
  else if c == '%' then
    let n ← peekNext
    if n == '*' then
      startToken
      lexMacroComment cfg
    else if isUnicodeNameStart n then
      perform .clearCheckpoint
      let modeStackLen ← perform .modeDepth
      startToken
      lexMacroIdentifier cfg false
      if lastTokTyIs (← perform .lastTok) isMacroStatTokType then pure ()
      else
        perform (.insertModeAt modeStackLen .makeCheckpoint)
        perform (.insertModeAt modeStackLen .wsOrCStyleCommentOnly)
        perform (.insertModeAt modeStackLen (.maybeMacroCallArgAssign flags))
    else switchToValueMode flags
  else if c == ',' && ArgFlags.terminateOnComma flags then
    safePopMode
    populateNextArgStack flags
  else if c == ')' then safePopMode
  else if isWhitespace c then pushCheckAssign flags
  else
    let firstToken := !(lastTokTyIs (← perform .lastTok) fun ty =>
      ty == .MacroVarTerm || ty == .MacroIdentifier || ty == .MacroString || ty == .RPAREN)
    if isUnicodeNameStart c || (!firstToken && isXidContinue c) then
      -- `fix:` c30296e — a previous part of the name may have left it set (`a%*c;b`)
      perform .clearCheckpoint
      perform .checkpoint
      eatWhile isXidContinue
      emitD .MacroString
    else if c == '=' && !firstToken then
      startToken
      advance_
      emitD .ASSIGN
      safePopMode
      pushMode (.macroCallValue flags 0)
      pushMode .wsOrCStyleCommentOnly
    else switchToValueMode flags

/-! ## `lex_macro_string_in_macro_call_arg_value` -/

/-- the closure `emit_token_update_nesting` of `lex_macro_string_in_macro_call_arg_value` -/
def emitTokenUpdateNestingArg (pnl : Nat) (loc : Int) : Prog Unit := do
  emitD .MacroString
  if loc != 0 then
    perform (.dassert (decide ((pnl : Int) + loc ≥ 0)) "lex_macro_string_in_macro_call_arg_value: nesting >= 0")
    -- `if let Some(m) = mode_stack.last_mut() { match m { MacroCallValue{pnl,..} => …, _ => unreachable!() } }`
    if (← perform .modeDepth) != 0 then
      match (← mode) with
      | .macroCallValue _ _ =>
        perform (.modifyTop fun m =>
          match m with
          | .macroCallValue f p => .macroCallValue f (wrapAddSigned p loc)
          | m => m)
      | _ => abort "unreachable: lex_macro_string_in_macro_call_arg_value"

/-- the `while let Some(c) = self.cursor.peek()` loop; every iteration that does not return
consumes at least one character -/
def lexMacroStringInMacroCallArgValueLoop (flags pnl : Nat) : Nat → Int → Prog Unit
  | 0, _ => abort "fuel:lex_macro_string_in_macro_call_arg_value"
  | f + 1, loc => do
    let r ← rest
    match r.head? with
    | none => emitTokenUpdateNestingArg pnl loc
    | some c =>
      if c == '\'' || c == '"' then emitTokenUpdateNestingArg pnl loc
      else if c == '/' && secondCharOr0 r == '*' then emitTokenUpdateNestingArg pnl loc
      else if c == '&' then
        let (isMacro, ampCount) := isMacroAmp r 0
        if isMacro then emitTokenUpdateNestingArg pnl loc
        else do advanceBy ampCount; lexMacroStringInMacroCallArgValueLoop flags pnl f loc
      else if c == '%' then
        if isMacroPercent (secondCharOr0 r) false then emitTokenUpdateNestingArg pnl loc
        else do advance_; lexMacroStringInMacroCallArgValueLoop flags pnl f loc
      else if c == '\n' then do
        advance_
        addLine
        lexMacroStringInMacroCallArgValueLoop flags pnl f loc
      else if c == '(' then do
        advance_
        lexMacroStringInMacroCallArgValueLoop flags pnl f (loc + 1)
      else if c == ')' && wrapAddSigned pnl loc != 0 then do
        advance_
        lexMacroStringInMacroCallArgValueLoop flags pnl f (loc - 1)
      else if c == ')' && wrapAddSigned pnl loc == 0 then
        emitD .MacroString
        popMode
      else if c == ',' && wrapAddSigned pnl loc == 0 && ArgFlags.terminateOnComma flags then
        emitD .MacroString
        popMode
        populateNextArgStack flags
      else do advance_; lexMacroStringInMacroCallArgValueLoop flags pnl f loc

/-- `lex_macro_string_in_macro_call_arg_value` -/
def lexMacroStringInMacroCallArgValue (cfg : Cfg) (flags pnl : Nat) : Prog Unit := do
  dbg cfg (do
      match (← mode) with
      | .macroCallValue f _ => pure (f == flags)
      | _ => pure false)
    "lex_macro_string_in_macro_call_arg_value: mode"
  lexMacroStringInMacroCallArgValueLoop flags pnl (← fuelOfRest) 0

/-! ## `dispatch_macro_call_arg_value` -/
/-- `dispatch_macro_call_arg_value` -/
def dispatchMacroCallArgValue (cfg : Cfg) (c : Char) (flags pnl : Nat) : Prog Unit := do
  dbg cfg (do pure ((← mode) == .macroCallValue flags pnl)) "dispatch_macro_call_arg_value: mode"
  startToken
  if c == '\'' then lexSingleQuotedStr cfg
  else if c == '"' then lexStringExpressionStart cfg true
  else if c == '/' then
    if (← peekNext) == '*' then lexCStyleComment cfg
    else
      advance_
      lexMacroStringInMacroCallArgValue cfg flags pnl
  else if c == '&' then
    if !(← lexMacroVarExpr cfg) then
      eatWhile (· == '&')
      lexMacroStringInMacroCallArgValue cfg flags pnl
  else if c == '%' then
    let n ← peekNext
    if n == '*' then
      startToken
      lexMacroComment cfg
    else if isUnicodeNameStart n then
      startToken
      lexMacroIdentifier cfg false
    else
      advance_
      lexMacroStringInMacroCallArgValue cfg flags pnl
  else if c == '\n' then
    advance_
    addLine
    lexMacroStringInMacroCallArgValue cfg flags pnl
  else if c == ',' && pnl == 0 && ArgFlags.terminateOnComma flags then
    popMode
    populateNextArgStack flags
  else if c == ')' && pnl == 0 then popMode
  else lexMacroStringInMacroCallArgValue cfg flags pnl

/-! ## `lex_maybe_macro_def_args` -/
/-- `lex_maybe_macro_def_args` -/
def lexMaybeMacroDefArgs (_cfg : Cfg) (c : Char) : Prog Unit := do
  popMode
  if c == '(' then
    startToken
    advance_
    emitD .LPAREN
    pushMode (.expectSymbol .RPAREN .DEFAULT)
    pushMode .macroDefArg
    pushMode .wsOrCStyleCommentOnly

/-! ## `lex_macro_def_identifier` -/
/-- `lex_macro_def_identifier`; returns `true` if an identifier token was emitted -/
def lexMacroDefIdentifier (cfg : Cfg) (c : Char) (isArgument : Bool) : Prog Bool := do
  dbg cfg (do
      let m ← mode
      pure (m == .macroDefName || m == .macroDefArg))
    "lex_macro_def_identifier: mode"
  if isSasNameStart c then
    eatWhile isSasNameContinue
    emitD .Identifier
    pure true
  else
    if isArgument then emitError .InvalidMacroDefArgName
    else emitError .InvalidMacroDefName
    pure false

/-! ## `dispatch_macro_def_arg` -/
/-- `dispatch_macro_def_arg` -/
def dispatchMacroDefArg (cfg : Cfg) (c : Char) : Prog Unit := do
  dbg cfg (do pure ((← mode) == .macroDefArg)) "dispatch_macro_def_arg: mode"
  if c == ')' then popMode
  else
    startToken
    if !(← lexMacroDefIdentifier cfg c true) then
      popMode
      pushMode (.macroCallArgOrValue (ArgFlags.new .macroDef true true))
    else
      popMode
      pushMode .macroDefNextArgOrDefaultValue
      pushMode .wsOrCStyleCommentOnly

/-! ## `lex_macro_def_next_arg_or_default_value` -/
/-- `lex_macro_def_next_arg_or_default_value` -/
def lexMacroDefNextArgOrDefaultValue (_cfg : Cfg) (c : Char) : Prog Unit := do
  popMode
  if c == '=' then
    startToken
    advance_
    emitD .ASSIGN
    pushMode (.macroCallValue (ArgFlags.new .macroDef true true) 0)
    pushMode .wsOrCStyleCommentOnly
  else if c == ',' then
    startToken
    advance_
    emitD .COMMA
    pushMode .macroDefArg
    pushMode .wsOrCStyleCommentOnly
  else pure ()

/-! ## `lex_macro_string_in_str_call` (the third escaping scanner) -/

/-- the closure `emit_token_update_nesting` of `lex_macro_string_in_str_call`; the payload
is the payload register (filled by `litResolve` just before) -/
def emitTokenUpdateNestingStr (pnl : Nat) (loc : Int) : Prog Unit := do
  emitD .MacroString .reg
  if loc != 0 then
    perform (.dassert (decide ((pnl : Int) + loc ≥ 0)) "lex_macro_string_in_str_call: nesting >= 0")
    if (← perform .modeDepth) != 0 then
      match (← mode) with
      | .macroStrQuotedExpr _ _ =>
        perform (.modifyTop fun m =>
          match m with
          | .macroStrQuotedExpr mm p => .macroStrQuotedExpr mm (wrapAddSigned p loc)
          | m => m)
      | _ => abort "unreachable: lex_macro_string_in_str_call"

/-- `%` followed by one of these is a quoted char inside `%str(…)` -/
def isStrQuotedChar (c : Char) : Bool := c == '"' || c == '\'' || c == '%' || c == '(' || c == ')'

/-- the `while let Some(c) = self.cursor.peek()` loop; every iteration that does not return
consumes at least one character -/
def lexMacroStringInStrCallLoop (maskMacro : Bool) (pnl : Nat) : Nat → Int → Prog Unit
  | 0, _ => abort "fuel:lex_macro_string_in_str_call"
  | f + 1, loc => do
    let r ← rest
    match r.head? with
    | none =>
      perform (.litResolve 0)
      emitTokenUpdateNestingStr pnl loc
    | some c =>
      if c == '\'' || c == '"' then
        perform (.litResolve 0)
        emitTokenUpdateNestingStr pnl loc
      else if c == '/' && secondCharOr0 r == '*' then
        perform (.litResolve 0)
        emitTokenUpdateNestingStr pnl loc
      else if c == '&' && !maskMacro then
        let (isMacro, ampCount) := isMacroAmp r 0
        if isMacro then
          perform (.litResolve 0)
          emitTokenUpdateNestingStr pnl loc
        else do advanceBy ampCount; lexMacroStringInStrCallLoop maskMacro pnl f loc
      else if c == '%' then
        if isStrQuotedChar (secondCharOr0 r) then
          perform .litCut
          advance_
          perform .litMarkEnd
          advance_
          lexMacroStringInStrCallLoop maskMacro pnl f loc
        else if !maskMacro && isMacroPercent (secondCharOr0 r) false then
          perform (.litResolve 0)
          emitTokenUpdateNestingStr pnl loc
        else do advance_; lexMacroStringInStrCallLoop maskMacro pnl f loc
      else if c == '\n' then do
        advance_
        addLine
        lexMacroStringInStrCallLoop maskMacro pnl f loc
      else if c == '(' then do
        advance_
        lexMacroStringInStrCallLoop maskMacro pnl f (loc + 1)
      else if c == ')' && wrapAddSigned pnl loc != 0 then do
        advance_
        lexMacroStringInStrCallLoop maskMacro pnl f (loc - 1)
      else if c == ')' && wrapAddSigned pnl loc == 0 then
        perform (.litResolve 0)
        emitD .MacroString .reg
        popMode
      else do advance_; lexMacroStringInStrCallLoop maskMacro pnl f loc

/-- `lex_macro_string_in_str_call` -/
def lexMacroStringInStrCall (cfg : Cfg) (maskMacro : Bool) (pnl : Nat) : Prog Unit := do
  dbg cfg (do pure ((← mode) == .macroStrQuotedExpr maskMacro pnl)) "lex_macro_string_in_str_call: mode"
  -- `last_lit_end_byte_offset = self.cur_byte_offset()` here, i.e. possibly after a char
  -- that the dispatcher has already consumed
  perform .litBeginAtTok
  lexMacroStringInStrCallLoop maskMacro pnl (← fuelOfRest) 0

/-! ## `dispatch_macro_str_quoted_expr` -/
/-- `dispatch_macro_str_quoted_expr` -/
def dispatchMacroStrQuotedExpr (cfg : Cfg) (c : Char) (maskMacro : Bool) (pnl : Nat) : Prog Unit := do
  dbg cfg (do pure ((← mode) == .macroStrQuotedExpr maskMacro pnl)) "dispatch_macro_str_quoted_expr: mode"
  startToken
  if c == '\'' then lexSingleQuotedStr cfg
  else if c == '"' then lexStringExpressionStart cfg true
  else if c == '/' then
    if (← peekNext) == '*' then lexCStyleComment cfg
    else
      advance_
      lexMacroStringInStrCall cfg maskMacro pnl
  else if c == '&' && !maskMacro then
    if !(← lexMacroVarExpr cfg) then
      eatWhile (· == '&')
      lexMacroStringInStrCall cfg maskMacro pnl
  else if c == '%' && !maskMacro then
    let n ← peekNext
    if isStrQuotedChar n then lexMacroStringInStrCall cfg maskMacro pnl
    else if isUnicodeNameStart n then
      startToken
      lexMacroIdentifier cfg false
    else
      advance_
      lexMacroStringInStrCall cfg maskMacro pnl
  else if c == '\n' then
    advance_
    addLine
    lexMacroStringInStrCall cfg maskMacro pnl
  else if c == ')' && pnl == 0 then popMode
  else lexMacroStringInStrCall cfg maskMacro pnl

end SasLexer
