import SasLexer.Prog
import SasLexer.Chars
import SasLexer.Numeric
import SasLexer.Lex.Flags
/-! # Small `Prog` helpers used by the hand-modelled control logic -/
namespace SasLexer
open Prog (perform)

namespace P
def rest : Prog (List Char) := perform .rest
def peek : Prog (Option Char) := do let r ← rest; pure r.head?
/-- `cursor.peek_next()` (EOF_CHAR = '\0' when absent) -/
def peekNext : Prog Char := do let r ← rest; pure ((r.drop 1).head?.getD (Char.ofNat 0))
def advance : Prog (Option Char) := perform .advance
def advance_ : Prog Unit := do let _ ← perform .advance; pure ()
def advanceBy (n : Nat) : Prog Unit := perform (.advanceBy n)
def eatWhile (p : Char → Bool) : Prog Unit := perform (.eatWhile p)
def addLine : Prog Unit := perform .addLine
def startToken : Prog Unit := perform .startToken
def emit (ch : Channel) (ty : TokenType) (p : PaySpec := .none) : Prog Unit := perform (.emitToken ch ty p)
def emitD (ty : TokenType) (p : PaySpec := .none) : Prog Unit := perform (.emitToken .DEFAULT ty p)
def emitError (k : ErrorKind) : Prog Unit := perform (.emitError k)
def pushMode (m : Mode) : Prog Unit := perform (.pushMode m)
def popMode : Prog Unit := perform .popMode
def mode : Prog Mode := perform .mode
def setPending (b : Bool) : Prog Unit := perform (.setPending b)
def lastTokTy : Prog (Option TokenType) := do let t ← perform .lastTok; pure (t.map (·.1))
def abort (m : String) : Prog Unit := perform (.panic m)
def unmodelled (what : String) : Prog Unit := perform (.panic ("unmodelled:" ++ what))
/-- `debug_assert!` whose condition needs reads: evaluated only under `cfg.debug`
(the Rust condition is not evaluated at all in release builds). -/
def dbg (cfg : Cfg) (cond : Prog Bool) (msg : String) : Prog Unit :=
  if cfg.debug then do let b ← cond; perform (.dassert b msg) else pure ()
def peekIs (c : Char) : Prog Bool := do pure ((← peek) == some c)
end P

def optAny (o : Option Char) (p : Char → Bool) : Bool := match o with | some c => p c | none => false

/-- `is_macro_amp` on the remaining text: (is macro var start, number of `&`) -/
def isMacroAmp : List Char → Nat → Bool × Nat
  | '&' :: r, n => isMacroAmp r (n + 1)
  | c :: _, n => (isUnicodeNameStart c, n)
  | [], n => (false, n)

/-- `get_macro_resolve_ops_from_amps`: set bits of the count, high to low (bits 31..0) -/
def resolveOps (ampCount : Nat) : List Nat :=
  ((List.range 32).reverse).filter fun i => (ampCount / 2 ^ i) % 2 == 1

/-- `is_macro_eval_quotable_op` -/
def isMacroEvalQuotableOp (c : Char) : Bool := c == '~' || c == '^' || c == '='

/-- `is_macro_percent` -/
def isMacroPercent (follow : Char) (inEval : Bool) : Bool :=
  follow == '*' || isUnicodeNameStart follow || (inEval && isMacroEvalQuotableOp follow)

def upperStr (cs : List Char) : String := String.ofList (cs.map toUpperAscii)

def lookupKw (tbl : List (String × TokenType)) (k : String) : Option TokenType := tbl.lookup k

end SasLexer
