import SasLexer.Lex.Open
/-!
# Macro expressions and text expressions: `dispatch_mode_macro_eval`,
`lex_macro_eval_operator`, `lex_macro_string_in_macro_eval_context`,
`maybe_emit_empty_macro_string_in_eval`, `dispatch_macro_name_expr`,
`dispatch_macro_semi_term_text_expr`, `lex_macro_string_unrestricted`,
`dispatch_macro_stat_opts_text_expr`, `lex_macro_string_stat_opts`
-/
namespace SasLexer
open Prog (perform)
open P

/-- STUB -/
def dispatchModeMacroEval (_cfg : Cfg) (_c : Char) (_flags _pnl : Nat) : Prog Unit :=
  unmodelled "dispatch_mode_macro_eval"
/-- STUB; `foundName` is the mode's first field (Rust passes `!found_name`) -/
def dispatchMacroNameExpr (_cfg : Cfg) (_c : Char) (_foundName : Bool) (_err : Option ErrorKind) : Prog Unit :=
  unmodelled "dispatch_macro_name_expr"
/-- STUB -/
def dispatchMacroSemiTermTextExpr (_cfg : Cfg) (_c : Char) : Prog Unit :=
  unmodelled "dispatch_macro_semi_term_text_expr"
/-- STUB -/
def dispatchMacroStatOptsTextExpr (_cfg : Cfg) (_c : Char) : Prog Unit :=
  unmodelled "dispatch_macro_stat_opts_text_expr"

end SasLexer
