import SasLexer.Lex.Open
/-!
# Macro expressions and text expressions: `dispatch_mode_macro_eval`,
`lex_macro_eval_operator`, `lex_macro_string_in_macro_eval_context`,
`maybe_emit_empty_macro_string_in_eval`, `dispatch_macro_name_expr`,
`dispatch_macro_semi_term_text_expr`, `lex_macro_string_unrestricted`,
`dispatch_macro_stat_opts_text_expr`, `lex_macro_string_stat_opts`
-/
namespace SasLexer
open Prog (perform)
open P

/-- the first-letter pattern `'e' | 'n' | 'l' | 'g' | 'a' | 'o' | 'i' | 'E' | …` of the mnemonic arms -/
def isMnemonicStartChar (c : Char) : Bool :=
  c == 'e' || c == 'n' || c == 'l' || c == 'g' || c == 'a' || c == 'o' || c == 'i'
  || c == 'E' || c == 'N' || c == 'L' || c == 'G' || c == 'A' || c == 'O' || c == 'I'

/-- the symbol pattern `'*' | '(' | ')' | '|' | '¬' | '^' | '~' | '+' | '-' | '<' | '>' | '=' | '#'`
of `lex_macro_string_in_macro_eval_context` -/
def isEvalSymbolTerminator (c : Char) : Bool :=
  c == '*' || c == '(' || c == ')' || c == '|' || c == '¬' || c == '^' || c == '~' || c == '+'
  || c == '-' || c == '<' || c == '>' || c == '=' || c == '#'

/-- second char of the remaining text or `EOF_CHAR` (`cursor.peek_next()` on a `rest` already read) -/
def nextOf (r : List Char) : Char := (r.drop 1).head?.getD (Char.ofNat 0)

/-! ## `maybe_emit_empty_macro_string_in_eval` -/
def maybeEmitEmptyMacroStringInEval (next : Option TokenType) : Prog Unit := do
  let exprEnd := match next with
    | none => true
    | some t => t == .RPAREN || t == .KwAND || t == .KwOR
  let opFollows := match next with
    | some t => isMacroEvalLogicalOp t
    | none => false
  if exprEnd || opFollows then
    match (← perform .lastDefaultTok) with
    | some prev =>
      if isMacroEvalLogicalOp prev
          || (prev == .LPAREN || prev == .ASSIGN || prev == .KwmIf || prev == .KwmTo || prev == .KwmBy
              || prev == .COMMA || prev == .KwAND || prev == .KwOR) then
        emitD .MacroStringEmpty
    | none => pure ()

/-! ## `lex_macro_eval_operator` -/

/-- the closure `update_parens_nesting` of `lex_macro_eval_operator` (`u32` arithmetic) -/
def updateParensNesting (cfg : Cfg) (increment : Bool) : Prog Unit := do
  if increment then
    perform (.modifyTop fun m => match m with
      | .macroEval f p => .macroEval f ((p + 1) % 4294967296)
      | m => m)
  else
    -- `debug_assert!(*parens_nesting_level > 0)` sits inside the `if let Some(MacroEval{..})`;
    -- in a debug build the entry assertion of the caller has already made the stack non-empty
    dbg cfg (do match (← mode) with
                | .macroEval _ p => pure (decide (p > 0))
                | _ => pure true) "lex_macro_eval_operator: parens_nesting_level > 0"
    perform (.modifyTop fun m => match m with
      | .macroEval f p => .macroEval f (p - 1)
      | m => m)

/-- the operator selection of `lex_macro_eval_operator`: token type and number of extra chars besides the
first; `r` is the remaining text (already read by the caller) -/
def evalOperatorSel (cfg : Cfg) (c : Char) (r : List Char) : Prog (Option (TokenType × Nat)) := do
  let nxt := nextOf r
  if c == '*' then
    if nxt == '*' then pure (some (TokenType.STAR2, 1)) else pure (some (TokenType.STAR, 0))
  else if c == '(' then do
    updateParensNesting cfg true
    pure (some (TokenType.LPAREN, 0))
  else if c == ')' then do
    updateParensNesting cfg false
    pure (some (TokenType.RPAREN, 0))
  else if c == '|' then pure (some (TokenType.PIPE, 0))
  else if c == '¬' || c == '^' || c == '~' then
    if nxt == '=' then pure (some (TokenType.NE, 1)) else pure (some (TokenType.NOT, 0))
  else if c == '+' then pure (some (TokenType.PLUS, 0))
  else if c == '-' then pure (some (TokenType.MINUS, 0))
  else if c == '<' then
    if nxt == '=' then pure (some (TokenType.LE, 1)) else pure (some (TokenType.LT, 0))
  else if c == '>' then
    if nxt == '=' then pure (some (TokenType.GE, 1)) else pure (some (TokenType.GT, 0))
  else if c == '=' then pure (some (TokenType.ASSIGN, 0))
  else if c == '#' then pure (some (TokenType.HASH, 0))
  else if isMnemonicStartChar c then
    match isMacroEvalMnemonic r with
    | (some ty, extra) => pure (some (ty, extra))
    | (none, _) => pure none
  else pure none

/-- `lex_macro_eval_operator` -/
def lexMacroEvalOperator (cfg : Cfg) (c : Char) : Prog Bool := do
  dbg cfg (do match (← mode) with
              | .macroEval _ _ => pure true
              | _ => pure false) "lex_macro_eval_operator: mode"
  let r ← rest
  let sel ← evalOperatorSel cfg c r
  match sel with
  | none => pure false
  | some (ty, extra) =>
    maybeEmitEmptyMacroStringInEval (some ty)
    advanceBy (1 + extra)
    emitD ty
    pushMode .wsOrCStyleCommentOnly
    pure true

/-! ## `lex_macro_string_in_macro_eval_context`

The Rust local `ws_mark` is the `mark` register; the loop returns `try_lexing_numeric`
(`may_precede_mnemonic` is a loop parameter). -/
def lexMacroStringInMacroEvalContextLoop (flags : Nat) (terminateOnComma : Bool) :
    Nat → Bool → Bool → Prog Bool
  | 0, tryNum, _ => do abort "fuel:lex_macro_string_in_macro_eval_context"; pure tryNum
  | f + 1, tryNum, mayPrecede => do
    let r ← rest
    match r.head? with
    | none => pure tryNum
    | some c =>
      if isEvalSymbolTerminator c then pure tryNum
      else if c == '\'' || c == '"' then do
        perform .clearMark
        pure false
      else if c == '/' then
        if nextOf r == '*' then do
          perform .clearMark
          pure false
        else pure tryNum
      else if c == ';' && EvalFlags.terminateOnSemi flags then pure tryNum
      else if c == ',' && terminateOnComma then pure tryNum
      else if c == '&' then
        if (isMacroAmp r 0).1 then do
          perform .clearMark
          pure false
        else pure tryNum
      else if c == '%' then
        if isMacroPercent (nextOf r) true then
          if !isMacroStat r then do
            perform .clearMark
            pure false
          else pure tryNum
        else do
          advance_
          perform .clearMark
          lexMacroStringInMacroEvalContextLoop flags terminateOnComma f false true
      else if c == '\n' then do
        perform .markIfNone
        advance_
        addLine
        lexMacroStringInMacroEvalContextLoop flags terminateOnComma f tryNum mayPrecede
      else if isWhitespace c then do
        perform .markIfNone
        advance_
        lexMacroStringInMacroEvalContextLoop flags terminateOnComma f tryNum mayPrecede
      else do
        let hasMark ← perform .hasMark
        if isMnemonicStartChar c && (hasMark || mayPrecede) then
          match isMacroEvalMnemonic r with
          | (some _, _) => pure tryNum
          | (none, _) =>
            -- `may_precede_mnemonic` is *not* updated in this arm
            perform .clearMark
            advance_
            lexMacroStringInMacroEvalContextLoop flags terminateOnComma f false mayPrecede
        else
          advance_
          let tryNum' ← (do
            if hasMark then
              perform .clearMark
              pure false
            else pure tryNum)
          lexMacroStringInMacroEvalContextLoop flags terminateOnComma f tryNum' (!isXidContinue c)

/-- `lex_macro_string_in_macro_eval_context` -/
def lexMacroStringInMacroEvalContext (cfg : Cfg) (flags : Nat) (terminateOnComma : Bool) : Prog Unit := do
  dbg cfg (do match (← mode) with
              | .macroEval f _ => pure (f == flags)
              | _ => pure false) "lex_macro_string_in_macro_eval_context: mode"
  -- `let mut ws_mark = None;`
  perform .clearMark
  let tryNum ← lexMacroStringInMacroEvalContextLoop flags terminateOnComma (← fuelOfRest) true true
  let ms ← perform .pendingTextToMark
  if !ms.isEmpty then
    if tryNum then
      let lastIsX := ms.getLast? == some 'x' || ms.getLast? == some 'X'
      if lastIsX && optAny ms.head? isAsciiDigit then
        match tryParseHexInteger ms.dropLast with
        | some res =>
          if res.err.isNone && res.len == utf8Len ms - 1 then emitD res.ty res.payload
          else emitD .MacroString
        | none => emitD .MacroString
      else
        match tryParseDecimal ms true (EvalFlags.floatMode flags) with
        | some res =>
          if res.err.isNone && res.len == utf8Len ms then emitD res.ty res.payload
          else emitD .MacroString
        | none => emitD .MacroString
    else emitD .MacroString
  if (← perform .hasMark) then
    perform (.emitTokenAtMark .HIDDEN .WS .none)
  -- the local `ws_mark` goes out of scope (model-only register, nothing else reads it)
  perform .clearMark

/-! ## `dispatch_mode_macro_eval` -/
def dispatchModeMacroEval (cfg : Cfg) (c : Char) (flags pnl : Nat) : Prog Unit := do
  dbg cfg (do pure ((← mode) == .macroEval flags pnl)) "dispatch_mode_macro_eval: mode"
  startToken
  let terminateOnComma := EvalFlags.terminateOnComma flags && (pnl == 0 || !EvalFlags.parensMaskComma flags)
  if c == '\'' then lexSingleQuotedStr cfg
  else if c == '"' then lexStringExpressionStart cfg false
  else if c == '/' then
    if (← peekNext) == '*' then lexCStyleComment cfg
    else
      advance_
      emitD .FSLASH
      pushMode .wsOrCStyleCommentOnly
  else if c == '&' then
    if !(← lexMacroVarExpr cfg) then
      eatWhile (· == '&')
      emitD .AMP
      pushMode .wsOrCStyleCommentOnly
  else if c == '%' then
    match (← lexMacroCall cfg true (EvalFlags.terminateOnStat flags)) with
    | .macroStat =>
      maybeEmitEmptyMacroStringInEval none
      popMode
      if EvalFlags.terminateOnStat flags && EvalFlags.terminateOnSemi flags then
        if (← mode) == .expectSemiOrEOF then popMode
    | .none =>
      advance_
      let secondNext := (← peek).getD ' '
      if isMacroEvalQuotableOp secondNext then
        let _ ← lexMacroEvalOperator cfg secondNext
        pure ()
      else lexMacroStringInMacroEvalContext cfg flags terminateOnComma
    | .macroCall => pure ()
  else if c == ')' && pnl == 0 then
    maybeEmitEmptyMacroStringInEval none
    popMode
  else if c == ',' && terminateOnComma then
    maybeEmitEmptyMacroStringInEval none
    popMode
    match EvalFlags.followArgMode flags with
    | .none => pure ()
    | .singleEvalExpr =>
      pushMode (.macroEval (EvalFlags.new (EvalFlags.numericMode flags) .none false false false) 0)
    | .evalExpr =>
      pushMode (.macroEval
        (EvalFlags.new (EvalFlags.numericMode flags) .evalExpr false false (EvalFlags.parensMaskComma flags)) 0)
    | .macroArg =>
      pushMode (.macroCallValue (ArgFlags.new .builtInMacro true true) 0)
    advance_
    emitD .COMMA
    pushMode .wsOrCStyleCommentOnly
  else if c == ';' && EvalFlags.terminateOnSemi flags then
    maybeEmitEmptyMacroStringInEval none
    popMode
  else
    if !(← lexMacroEvalOperator cfg c) then
      lexMacroStringInMacroEvalContext cfg flags terminateOnComma

/-! ## `dispatch_macro_name_expr` -/

/-- `dispatch_macro_name_expr`; `foundName` is the mode's first field (Rust passes
`first_token = !found_name`) -/
def dispatchMacroNameExpr (cfg : Cfg) (c : Char) (foundName : Bool) (err : Option ErrorKind) : Prog Unit := do
  let firstToken := !foundName
  dbg cfg (do pure ((← mode) == .macroNameExpr foundName err)) "dispatch_macro_name_expr: mode"
  startToken
  let popModeAndCheck : Prog Unit := do
    if firstToken then
      match err with
      | some e => emitError e
      | none => pure ()
    popMode
  -- `self.mode_stack.len() - 1` (the stack is non-empty: `lex_token` has just read the mode)
  let startModeIndex := (← perform .modeDepth) - 1
  let updateMode : Prog Unit := do
    let ok ← perform (.modifyAt startModeIndex fun m => match m with
      | .macroNameExpr _ e => some (.macroNameExpr true e)
      | _ => none)
    if !ok then emitError .InternalErrorUnexpectedModeStack
  if c == '/' && (← peekNext) == '*' then lexCStyleComment cfg
  else if c == '&' then
    if !(← lexMacroVarExpr cfg) then popModeAndCheck
    else if firstToken then updateMode
  else if c == '%' then
    match (← lexMacroCall cfg false false) with
    | .macroStat | .none => popModeAndCheck
    | .macroCall => if firstToken then updateMode
  else if isUnicodeNameStart c || (!firstToken && isXidContinue c) then
    eatWhile isXidContinue
    emitD .MacroString
    if firstToken then updateMode
  else popModeAndCheck

/-! ## `lex_macro_string_unrestricted` -/
def lexMacroStringUnrestrictedLoop : Nat → Prog Unit
  | 0 => abort "fuel:lex_macro_string_unrestricted"
  | f + 1 => do
    let r ← rest
    match r.head? with
    | none => emitD .MacroString
    | some c =>
      if c == '\'' || c == '"' then emitD .MacroString
      else if c == '/' && nextOf r == '*' then emitD .MacroString
      else if c == '&' then
        let (isMacro, ampCount) := isMacroAmp r 0
        if isMacro then emitD .MacroString
        else do advanceBy ampCount; lexMacroStringUnrestrictedLoop f
      else if c == '%' then
        if isMacroPercent (nextOf r) false then emitD .MacroString
        else do advance_; lexMacroStringUnrestrictedLoop f
      else if c == '\n' then do advance_; addLine; lexMacroStringUnrestrictedLoop f
      else if c == ';' then do emitD .MacroString; popMode
      else do advance_; lexMacroStringUnrestrictedLoop f

/-- `lex_macro_string_unrestricted` -/
def lexMacroStringUnrestricted (cfg : Cfg) : Prog Unit := do
  dbg cfg (do pure ((← mode) == .macroSemiTerminatedTextExpr)) "lex_macro_string_unrestricted: mode"
  lexMacroStringUnrestrictedLoop (← fuelOfRest)

/-! ## `dispatch_macro_semi_term_text_expr` -/
def dispatchMacroSemiTermTextExpr (cfg : Cfg) (c : Char) : Prog Unit := do
  dbg cfg (do pure ((← mode) == .macroSemiTerminatedTextExpr)) "dispatch_macro_semi_term_text_expr: mode"
  startToken
  if c == '\'' then lexSingleQuotedStr cfg
  else if c == '"' then lexStringExpressionStart cfg false
  else if c == '/' then
    if (← peekNext) == '*' then lexCStyleComment cfg
    else
      advance_
      lexMacroStringUnrestricted cfg
  else if c == '&' then
    if !(← lexMacroVarExpr cfg) then
      eatWhile (· == '&')
      lexMacroStringUnrestricted cfg
  else if c == '%' then
    match (← lexMacroCall cfg true false) with
    | .macroStat => popMode
    | .none =>
      advance_
      lexMacroStringUnrestricted cfg
    | .macroCall => pure ()
  else if c == '\n' then
    advance_
    addLine
    lexMacroStringUnrestricted cfg
  else if c == ';' then popMode
  else
    advance_
    lexMacroStringUnrestricted cfg

/-! ## `lex_macro_string_stat_opts` -/
def lexMacroStringStatOptsLoop : Nat → Prog Unit
  | 0 => abort "fuel:lex_macro_string_stat_opts"
  | f + 1 => do
    let r ← rest
    match r.head? with
    | none => emitD .MacroString
    | some c =>
      if c == '\'' || c == '"' || c == '/' || c == '=' then emitD .MacroString
      else if isWhitespace c then emitD .MacroString
      else if c == '&' then
        let (isMacro, ampCount) := isMacroAmp r 0
        if isMacro then emitD .MacroString
        else do advanceBy ampCount; lexMacroStringStatOptsLoop f
      else if c == '%' then
        if isMacroPercent (nextOf r) false then emitD .MacroString
        else do advance_; lexMacroStringStatOptsLoop f
      else if c == ';' then do emitD .MacroString; popMode
      else do advance_; lexMacroStringStatOptsLoop f

/-- `lex_macro_string_stat_opts` -/
def lexMacroStringStatOpts (cfg : Cfg) : Prog Unit := do
  dbg cfg (do pure ((← mode) == .macroStatOptionsTextExpr)) "lex_macro_string_stat_opts: mode"
  lexMacroStringStatOptsLoop (← fuelOfRest)

/-! ## `dispatch_macro_stat_opts_text_expr` -/
def dispatchMacroStatOptsTextExpr (cfg : Cfg) (c : Char) : Prog Unit := do
  dbg cfg (do pure ((← mode) == .macroStatOptionsTextExpr)) "dispatch_macro_stat_opts_text_expr: mode"
  startToken
  if c == '\'' then lexSingleQuotedStr cfg
  else if c == '"' then lexStringExpressionStart cfg false
  else if c == '/' then
    if (← peekNext) == '*' then lexCStyleComment cfg
    else
      advance_
      emitD .FSLASH
  else if c == '&' then
    if !(← lexMacroVarExpr cfg) then
      eatWhile (· == '&')
      lexMacroStringStatOpts cfg
  else if c == '%' then
    match (← lexMacroCall cfg true false) with
    | .macroStat => popMode
    | .none =>
      advance_
      lexMacroStringStatOpts cfg
    | .macroCall => pure ()
  else if c == ';' then popMode
  else if isWhitespace c then lexWs cfg
  else if c == '=' then
    advance_
    emitD .ASSIGN
  else
    advance_
    lexMacroStringStatOpts cfg

end SasLexer
