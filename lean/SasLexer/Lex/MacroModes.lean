import SasLexer.Lex.Open
/-!
# Macro-mode dispatchers (everything `lex_token` dispatches to besides open code and
string expressions)
-/
namespace SasLexer
open Prog (perform)
open P

/-- STUB (to be replaced by the full model): every macro mode -/
def dispatchMacroMode (_cfg : Cfg) (_c : Char) (m : Mode) : Prog Unit :=
  unmodelled ("mode " ++ m.encode)

end SasLexer
