import SasLexer.Lex.MacroEval
import SasLexer.Lex.MacroArgs
/-! # the macro-mode arms of `lex_token` -/
namespace SasLexer
open Prog (perform)
open P

def dispatchMacroMode (cfg : Cfg) (c : Char) : Mode → Prog Unit
  | .macroEval flags pnl => dispatchModeMacroEval cfg c flags pnl
  | .macroStrQuotedExpr mask pnl => dispatchMacroStrQuotedExpr cfg c mask pnl
  | .maybeMacroCallArgsOrLabel chk => lexMaybeMacroCallArgsOrLabel cfg c chk
  | .maybeMacroCallArgAssign flags => lexMaybeMacroCallArgAssign cfg c flags
  | .maybeTailMacroArgValue => lexMaybeTailMacroCallArgValue cfg c
  | .macroCallArgOrValue flags => dispatchMacroCallArgOrValue cfg c flags
  | .macroCallValue flags pnl => dispatchMacroCallArgValue cfg c flags pnl
  | .maybeMacroDefArgs => lexMaybeMacroDefArgs cfg c
  | .macroDefArg => dispatchMacroDefArg cfg c
  | .macroDefNextArgOrDefaultValue => lexMacroDefNextArgOrDefaultValue cfg c
  | .macroDo => dispatchMacroDo cfg c
  | .macroLocalGlobal isLocal => dispatchMacroLocalGlobal cfg c isLocal
  | .macroNameExpr found err => dispatchMacroNameExpr cfg c found err
  | .macroSemiTerminatedTextExpr => dispatchMacroSemiTermTextExpr cfg c
  | .macroStatOptionsTextExpr => dispatchMacroStatOptsTextExpr cfg c
  | .macroDefName => do
    startToken
    let _ ← lexMacroDefIdentifier cfg c false
    popMode
  -- handled by `lex_token` itself
  | .default | .stringExpr _ | .makeCheckpoint | .wsOrCStyleCommentOnly | .expectSymbol _ _
  | .expectSemiOrEOF => pure ()

end SasLexer
