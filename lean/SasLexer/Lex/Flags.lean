import SasLexer.Basic
/-!
# Packed mode flags of `lexer_mode.rs`

`MacroEvalExprFlags(u8)` and `MacroArgNameValueFlags(u8)` are kept as the packed byte
(`Nat`) with constructors/accessors mirroring the Rust `const fn`s bit for bit.
-/
namespace SasLexer

inductive NumericMode where | integer | float
  deriving DecidableEq, Repr, Inhabited

/-- `MacroEvalNextArgumentMode` (`repr(u8)`: None=0, SingleEvalExpr=1, EvalExpr=2, MacroArg=3) -/
inductive NextArgMode where | none | singleEvalExpr | evalExpr | macroArg
  deriving DecidableEq, Repr, Inhabited

def NextArgMode.toU8 : NextArgMode → Nat
  | .none => 0 | .singleEvalExpr => 1 | .evalExpr => 2 | .macroArg => 3

/-- `macro_eval_next_arg_mode_from_u8` -/
def NextArgMode.ofU8 : Nat → NextArgMode
  | 1 => .singleEvalExpr | 2 => .evalExpr | 3 => .macroArg | _ => .none

def testBit (bits mask : Nat) : Bool := (bits / mask) % 2 == 1

namespace EvalFlags
def FLOAT_MODE_MASK := 1
def TERMINATE_ON_COMMA_MASK := 2
def TERMINATE_ON_STAT_MASK := 4
def TERMINATE_ON_SEMI_MASK := 8
def PARENS_MASK_COMMA_MASK := 16
def NEXT_ARG_SHIFT := 5

/-- `MacroEvalExprFlags::new` -/
def new (nm : NumericMode) (next : NextArgMode) (termStat termSemi parensMaskComma : Bool) : Nat :=
  (if nm == .float then FLOAT_MODE_MASK else 0)
  + (if next != .none then TERMINATE_ON_COMMA_MASK else 0)
  + (if termStat then TERMINATE_ON_STAT_MASK else 0)
  + (if termSemi then TERMINATE_ON_SEMI_MASK else 0)
  + (if parensMaskComma then PARENS_MASK_COMMA_MASK else 0)
  + next.toU8 * 2 ^ NEXT_ARG_SHIFT

def floatMode (b : Nat) : Bool := testBit b FLOAT_MODE_MASK
def numericMode (b : Nat) : NumericMode := if floatMode b then .float else .integer
def terminateOnComma (b : Nat) : Bool := testBit b TERMINATE_ON_COMMA_MASK
def terminateOnStat (b : Nat) : Bool := testBit b TERMINATE_ON_STAT_MASK
def terminateOnSemi (b : Nat) : Bool := testBit b TERMINATE_ON_SEMI_MASK
def parensMaskComma (b : Nat) : Bool := testBit b PARENS_MASK_COMMA_MASK
def followArgMode (b : Nat) : NextArgMode := NextArgMode.ofU8 ((b % 256) / 2 ^ NEXT_ARG_SHIFT)
end EvalFlags

/-- `MacroArgContext` (`repr(u8)`: BuiltInMacro=0, MacroCall=1, MacroDef=2) -/
inductive ArgContext where | builtInMacro | macroCall | macroDef
  deriving DecidableEq, Repr, Inhabited

def ArgContext.toU8 : ArgContext → Nat | .builtInMacro => 0 | .macroCall => 1 | .macroDef => 2

namespace ArgFlags
def CONTEXT_MASK := 3
def POPULATE_NEXT_ARG_STACK_MASK := 4
def TERMINATE_ON_COMMA_MASK := 8

/-- `MacroArgNameValueFlags::new` -/
def new (ctx : ArgContext) (populateNext terminateOnComma : Bool) : Nat :=
  ctx.toU8 + (if populateNext then POPULATE_NEXT_ARG_STACK_MASK else 0)
  + (if terminateOnComma then TERMINATE_ON_COMMA_MASK else 0)

def context (b : Nat) : ArgContext :=
  match b % 4 with | 1 => .macroCall | 2 => .macroDef | _ => .builtInMacro
def populateNextArgStack (b : Nat) : Bool := testBit b POPULATE_NEXT_ARG_STACK_MASK
def terminateOnComma (b : Nat) : Bool := testBit b TERMINATE_ON_COMMA_MASK
end ArgFlags

end SasLexer
