import SasLexer.State
/-!
# Operations and programs

`Op` is the closed set of things the mode-dispatch logic can do to the lexer state;
`Resp o` is what it gets back.  **No response contains a byte offset, char offset, line
index, token index or literal-buffer index**: the few Rust locals that hold positions live
in registers inside `Lexer` (`mark`, `lit`, `payReg`, `errReg`).  The control logic is a
`Prog`, i.e. a tree of operations; `run` interprets it.  Theorems proved by induction over
`Prog` hold for *every* control logic over these primitives.
-/
namespace SasLexer

/-- How an emitted token gets its payload: a literal given by the control logic, or the
payload register filled by `litResolve` / `litAddDecoded`. -/
inductive PaySpec where
  | none
  | int (v : Nat)
  | float (bits : UInt64)
  | reg
  deriving Repr, DecidableEq, Inhabited

def PaySpec.resolve (L : Lexer) : PaySpec → Payload
  | .none => .none
  | .int v => .int v
  | .float b => .float b
  | .reg => L.payReg

inductive Op where
  -- reads of the input and of the look-behind
  | rest
  | lastTok
  | lastDefaultTok
  | secondLastDefaultTok
  | hasCheckpoint
  | nesting
  | modeDepth
  | hasMark
  | litIsEmpty
  | pendingText
  | pendingTextToMark
  | pendingTextWithPrev
  -- cursor
  | advance
  | advanceBy (n : Nat)
  | eatWhile (p : Char → Bool)
  -- buffer
  | addLine
  | startToken
  | markIfNone
  | clearMark
  | emitToken (ch : Channel) (ty : TokenType) (p : PaySpec)
  | emitTokenAtMark (ch : Channel) (ty : TokenType) (p : PaySpec)
  | updateLastToken (ch : Channel) (ty : TokenType) (p : PaySpec)
  | retypeLastDefault (expect : TokenType) (new : TokenType)
  | insertSepBeforeLastDefault
  -- errors
  | emitError (k : ErrorKind)
  | prepError (k : ErrorKind)
  | emitPrepared
  -- mode stack, checkpoint, pending-statement stack, macro nesting
  | pushMode (m : Mode)
  | popMode
  | mode
  | popModeRaw
  | modifyTop (f : Mode → Mode)
  | modifyAt (idxFromBottom : Nat) (f : Mode → Option Mode)
  | insertModeAt (idxFromBottom : Nat) (m : Mode)
  | checkpoint
  | clearCheckpoint
  | bumpCheckpointModeLen (n : Nat)
  | rollback
  | pushPending (b : Bool)
  | popPending
  | pendingStat
  | setPending (b : Bool)
  | nestInc
  | nestDec
  -- literal registers
  | litBegin
  | litBeginAtTok
  | litCut
  | litMarkEnd
  | litResolve (back : Nat)
  | litAddDecoded (cs : List Char)
  | payClear
  -- main loop / finalisation
  | loopProbe
  | emitEofAtCursor
  -- debug assertion in the control logic
  | dassert (cond : Bool) (msg : String)
  -- unconditional panic (`unreachable!`, slice indexing that cannot be modelled otherwise)
  | panic (msg : String)

/-- Response types. -/
@[reducible] def Resp : Op → Type
  | .rest => List Char
  | .lastTok => Option (TokenType × Channel)
  | .lastDefaultTok => Option TokenType
  | .secondLastDefaultTok => Option TokenType
  | .hasCheckpoint => Bool
  | .nesting => Nat
  | .modeDepth => Nat
  | .hasMark => Bool
  | .litIsEmpty => Bool
  | .pendingText => List Char
  | .pendingTextToMark => List Char
  | .pendingTextWithPrev => List Char
  | .advance => Option Char
  | .mode => Mode
  | .popModeRaw => Option Mode
  | .loopProbe => Nat × List Mode
  | .pendingStat => Bool
  | .modifyAt _ _ => Bool
  | .retypeLastDefault _ _ => Bool
  | .emitPrepared => Bool
  | _ => Unit

namespace Lexer

def lastDefault? : List TokInfo → Option TokInfo
  | [] => none
  | t :: ts => if t.chan = .DEFAULT then some t else lastDefault? ts

/-- the DEFAULT-channel token preceding the last DEFAULT-channel token
(`iter_token_infos().rev().filter(DEFAULT).take(2)`, second element) -/
def secondLastDefault? : List TokInfo → Option TokInfo
  | [] => none
  | t :: ts => if t.chan = .DEFAULT then lastDefault? ts else secondLastDefault? ts

/-- `last_token_info_on_default_channel_mut` + retype if it has the expected type
(label detection: `MacroIdentifier` becomes `MacroLabel`). -/
def retypeLastDefaultAux (expect new : TokenType) : List TokInfo → Option (List TokInfo)
  | [] => none
  | t :: ts =>
    if t.chan = .DEFAULT then
      (if t.ty = expect then some ({ t with ty := new } :: ts) else none)
    else (retypeLastDefaultAux expect new ts).map (t :: ·)

/-- `insert_token` of a `MacroSep` right before the last DEFAULT-channel token, with that
token's position (feature `macro_sep`, label case). -/
def insertSepAux : List TokInfo → Option (List TokInfo)
  | [] => none
  | t :: ts =>
    if t.chan = .DEFAULT then
      some (t :: { t with chan := .DEFAULT, ty := .MacroSep, payload := .none } :: ts)
    else (insertSepAux ts).map (t :: ·)

def modifyNthFromBottom (f : Mode → Option Mode) (modesR : List Mode) (i : Nat) : Option (List Mode) :=
  if i < modesR.length then
    let j := modesR.length - 1 - i
    match modesR[j]? with
    | some m => (f m).map (fun m' => modesR.set j m')
    | none => none
  else none

/-- `Vec::insert(i, m)` on the bottom-first vector; panics if `i > len`. -/
def insertNthFromBottom (m : Mode) (modesR : List Mode) (i : Nat) : Option (List Mode) :=
  if i ≤ modesR.length then
    let j := modesR.length - i
    some (modesR.take j ++ m :: modesR.drop j)
  else none

end Lexer

open Lexer in
/-- One primitive step. -/
def step (cfg : Cfg) : (o : Op) → Lexer → Resp o × Lexer
  | .rest, L => (L.cur.rest, L)
  | .lastTok, L => (L.toksR.head?.map (fun t => (t.ty, t.chan)), L)
  | .lastDefaultTok, L => ((lastDefault? L.toksR).map (·.ty), L)
  | .secondLastDefaultTok, L => ((secondLastDefault? L.toksR).map (·.ty), L)
  | .hasCheckpoint, L => (L.cp.isSome, L)
  | .nesting, L => (L.nesting, L)
  | .modeDepth, L => (L.modesR.length, L)
  | .hasMark, L => (L.mark.isSome, L)
  | .litIsEmpty, L => (!L.lit.seen, L)
  | .pendingText, L => L.pendingText
  | .pendingTextToMark, L =>
      L.pendingTextFrom L.tok.byte (match L.mark with | some m => m.byte | none => L.curByte) .InternalErrorNoTokenText
  | .pendingTextWithPrev, L =>
      -- `source.get(cur_token_byte_offset.saturating_sub(1)..cur_byte_offset)` or error + ""
      L.pendingTextFrom (L.tok.byte - 1) L.curByte .InternalErrorNoTokenText
  | .advance, L => let (c, cur) := L.cur.advance; (c, { L with cur := cur })
  | .advanceBy n, L =>
      let L := L.dassert cfg (n > 0) "assertion failed: n > 0"
      ((), { L with cur := L.cur.advanceBy n })
  | .eatWhile p, L => ((), { L with cur := L.cur.eatWhile p })
  | .addLine, L => ((), (L.addLine cfg).2)
  | .startToken, L => ((), L.startToken cfg)
  | .markIfNone, L => ((), L.markIfNone cfg)
  | .clearMark, L => ((), L.clearMark)
  | .emitToken ch ty p, L => ((), L.emitToken cfg ch ty (p.resolve L))
  | .emitTokenAtMark ch ty p, L => ((), L.emitTokenAtMark cfg ch ty (p.resolve L))
  | .updateLastToken ch ty p, L => ((), L.updateLastToken cfg ch ty (p.resolve L))
  | .retypeLastDefault e n, L =>
      match retypeLastDefaultAux e n L.toksR with
      | some ts => (true, { L with toksR := ts })
      | none => (false, L)
  | .insertSepBeforeLastDefault, L =>
      if cfg.macroSep then
        match insertSepAux L.toksR with
        | some ts => ((), { L with toksR := ts })
        | none => ((), L)
      else ((), L)
  | .emitError k, L => ((), L.emitError k)
  | .prepError k, L => ((), { L with errReg := some (L.prepError k) })
  | .emitPrepared, L =>
      match L.errReg with
      | some e => (true, { L.emitErrorInfo e with errReg := none })
      | none => (false, L)
  | .pushMode m, L => ((), L.pushMode m)
  | .popMode, L => ((), L.popMode)
  | .mode, L => L.mode
  | .popModeRaw, L =>
      match L.modesR with
      | m :: ms => (some m, { L with modesR := ms })
      | [] => (none, L)
  | .modifyTop f, L =>
      match L.modesR with
      | m :: ms => ((), { L with modesR := f m :: ms })
      | [] => ((), L)
  | .modifyAt i f, L =>
      match modifyNthFromBottom f L.modesR i with
      | some ms => (true, { L with modesR := ms })
      | none => (false, L)
  | .insertModeAt i m, L =>
      match insertNthFromBottom m L.modesR i with
      | some ms => ((), { L with modesR := ms })
      | none => ((), L.panic "insertion index out of bounds")
  | .checkpoint, L => ((), L.checkpoint cfg)
  | .clearCheckpoint, L => ((), L.clearCheckpoint)
  | .bumpCheckpointModeLen n, L =>
      ((), { L with cp := L.cp.map fun c => { c with modeLen := c.modeLen + n } })
  | .rollback, L => ((), L.rollback)
  | .pushPending b, L => ((), L.pushPendingStat b)
  | .popPending, L => ((), L.popPendingStat)
  | .pendingStat, L => L.pendingStat
  | .setPending b, L => ((), L.setPendingStat b)
  | .nestInc, L => ((), { L with nesting := L.nesting + 1 })
  | .nestDec, L => ((), { L with nesting := L.nesting - 1 })
  | .litBegin, L =>
      let n := L.litsLen
      ((), { L with lit := { start := n, stop := n, lastEnd := L.curByte, seen := false } })
  | .litBeginAtTok, L =>
      -- `last_lit_end_byte_offset = self.cur_token_byte_offset` (the dispatcher may already have
      -- consumed the first characters of the token)
      let n := L.litsLen
      ((), { L with lit := { start := n, stop := n, lastEnd := L.tok.byte, seen := false } })
  | .litCut, L =>
      let ((a, b), L) := L.addStringLiteralFromSrc cfg L.lit.lastEnd none
      ((), { L with lit := { L.lit with start := min L.lit.start a, stop := b, seen := true } })
  | .litMarkEnd, L => ((), { L with lit := { L.lit with lastEnd := L.curByte } })
  | .litResolve back, L =>
      -- `resolve_string_literal_payload(lit_start_idx, lit_end_idx, last_lit_end_byte_offset,
      --    Some(cur_byte_offset - back), seen_escape)`
      let L := L.dassert cfg (L.lit.seen || L.lit.start == L.lit.stop) "assertion failed: seen_escape || lit_start_idx == cur_lit_end_idx"
      if !L.lit.seen then ((), { L with payReg := .none })
      else
        let ((_, e), L) := L.addStringLiteralFromSrc cfg L.lit.lastEnd (some (L.curByte - back))
        ((), { L with payReg := .str L.lit.start e })
  | .litAddDecoded cs, L =>
      let ((a, b), L) := L.addStringLiteral cs
      ((), { L with payReg := .str a b })
  | .payClear, L => ((), { L with payReg := .none })
  | .loopProbe, L =>
      -- what the debug-only loop detector of `lex` compares: `(remaining_len, mode_stack)`
      ((L.cur.remBytes, L.modesR), L)
  | .emitEofAtCursor, L =>
      let (ln, L) := L.lastLineOrAdd cfg
      ((), L.bufAddToken cfg ⟨.DEFAULT, .EOF, L.curByte, L.curChar, ln, .none⟩)
  | .dassert c m, L => ((), L.dassert cfg c m)
  | .panic m, L => ((), L.panic m)

/-- Programs over `Op` (a free monad). -/
inductive Prog (α : Type) where
  | ret : α → Prog α
  | op : (o : Op) → (Resp o → Prog α) → Prog α

namespace Prog

def bind {α β} : Prog α → (α → Prog β) → Prog β
  | .ret a, f => f a
  | .op o k, f => .op o (fun r => bind (k r) f)

instance : Monad Prog where
  pure := Prog.ret
  bind := Prog.bind

/-- perform one operation -/
def perform (o : Op) : Prog (Resp o) := .op o .ret

/-- Interpreter. A panic stops the run (`none`). -/
def run (cfg : Cfg) {α} : Prog α → Lexer → Option α × Lexer
  | .ret a, L => (some a, L)
  | .op o k, L =>
    let (r, L') := step cfg o L
    match L'.panicked with
    | some _ => (none, L')
    | none => run cfg (k r) L'

end Prog
end SasLexer
