import SasLexer.Lex.Main
/-!
# Operation-script interpreter (correspondence of the primitives)

Mirror of the harness command `lexer-script` (`/verif/harness/SPEC.md` §3): applies a list of
primitive operations to the model state through `step` (the very function the kernel theorems
are about) and prints the observations and the final state in the harness' format.
-/
namespace SasLexer

def cpOf (o : Option Char) : Int := match o with | some c => c.toNat | none => -1

def predOf : Nat → Option (Char → Bool)
  | 0 => some (· == '&')
  | 1 => some isWhitespace
  | 2 => some isAsciiDigit
  | 3 => some isXidContinue
  | 4 => some (· != '\n')
  | 5 => some isAsciiHexDigit
  | _ => none

def payloadOfArgs (p a b : Nat) : Option Payload :=
  match p with
  | 0 => some .none
  | 1 => some (.int a)
  | 2 => some (.float (UInt64.ofNat a))
  | 3 => some (.str a b)
  | _ => none

def stepU (cfg : Cfg) (o : Op) (L : Lexer) : Lexer := (step cfg o L).2

/-- interpreter-local copies of the harness interpreter's locals (`mark`, prepared error): the
control logic run by `lx`/`fz` uses the registers for its own locals and must not disturb them -/
structure ScriptLocals where
  mark : Option Pos3 := none
  err : Option ErrInfo := none

/-- one script op on the lexer state proper -/
def scriptOp0 (cfg : Cfg) (L : Lexer) (op : String) : Option (String × Lexer) :=
  let args := op.splitOn ","
  let nat (s : String) : Option Nat := s.toNat?
  match args with
  | ["pk"] => some (s!"pk={cpOf L.cur.peek}", L)
  | ["pn"] => some (s!"pn={L.cur.peekNext.toNat}", L)
  | ["ad"] => let (c, L') := step cfg .advance L; some (s!"ad={cpOf c}", L')
  | ["ab", n] => do let n ← nat n; pure ("ab=0", stepU cfg (.advanceBy n) L)
  | ["ec", c] => do
      let c ← nat c
      if L.cur.peek == some (Char.ofNat c) then pure ("ec=1", stepU cfg .advance L) else pure ("ec=0", L)
  | ["ew", k] => do let p ← (nat k) >>= predOf; pure ("ew=0", stepU cfg (.eatWhile p) L)
  | ["la", n] => do
      let n ← nat n
      let cs := L.cur.rest.take n
      pure ("la=" ++ (if cs.isEmpty then "-" else ".".intercalate (cs.map fun c => toString c.toNat)), L)
  | ["rl"] => some (s!"rl={L.cur.remBytes}", L)
  | ["co"] => some (s!"co={L.cur.charOff}", L)
  | ["bo"] => some (s!"bo={L.curByte}", L)
  | ["st"] => some ("st=0", stepU cfg .startToken L)
  | ["al"] => let L' := stepU cfg .addLine L; some (s!"al={L'.linesR.length - 1}", L')
  | ["mk"] =>
      let L' := stepU cfg .markIfNone (stepU cfg .clearMark L)
      match L'.mark with
      | some m => some (s!"mk={m.byte}.{m.start}.{m.line}", L')
      | none => none
  | ["em", ch, ty, p, a, b] => do
      let ch ← (nat ch) >>= Channel.ofNat?; let ty ← (nat ty) >>= TokenType.ofNat?
      let pl ← payloadOfArgs (← nat p) (← nat a) (← nat b)
      pure ("em=0", stepU cfg (.emitToken ch ty .reg) { L with payReg := pl })
  | ["ek", ch, ty, p, a, b] => do
      let ch ← (nat ch) >>= Channel.ofNat?; let ty ← (nat ty) >>= TokenType.ofNat?
      let pl ← payloadOfArgs (← nat p) (← nat a) (← nat b)
      if L.mark.isNone then pure ("ek=nomark", L)
      else pure ("ek=0", stepU cfg (.emitTokenAtMark ch ty .reg) { L with payReg := pl })
  | ["ul", ch, ty, p, a, b] => do
      let ch ← (nat ch) >>= Channel.ofNat?; let ty ← (nat ty) >>= TokenType.ofNat?
      let pl ← payloadOfArgs (← nat p) (← nat a) (← nat b)
      pure ("ul=0", stepU cfg (.updateLastToken ch ty .reg) { L with payReg := pl })
  | ["ee", k] => do let k ← (nat k) >>= ErrorKind.ofNat?; pure ("ee=0", stepU cfg (.emitError k) L)
  | ["pe", k] => do let k ← (nat k) >>= ErrorKind.ofNat?; pure ("pe=0", stepU cfg (.prepError k) L)
  | ["ep"] =>
      -- the harness keeps the prepared error (it is `Copy`): emit and keep
      match L.errReg with
      | some e => some ("ep=1", { (step cfg .emitPrepared L).2 with errReg := some e })
      | none => some ("ep=0", L)
  | ["pm", m] => do let m ← Mode.decode m; pure ("pm=0", stepU cfg (.pushMode m) L)
  | "pm" :: rest => do let m ← Mode.decode (",".intercalate rest); pure ("pm=0", stepU cfg (.pushMode m) L)
  | ["po"] => some ("po=0", stepU cfg .popMode L)
  | ["md"] => let (m, L') := step cfg .mode L; some (s!"md={m.encode}", L')
  | ["cp"] => some ("cp=0", stepU cfg .checkpoint L)
  | ["cc"] => some ("cc=0", stepU cfg .clearCheckpoint L)
  | ["rb"] =>
      some ("rb=0", stepU cfg .rollback L)
  | ["hc"] => some (s!"hc={if L.cp.isSome then 1 else 0}", L)
  | ["pp", v] => some ("pp=0", stepU cfg (.pushPending (v == "1")) L)
  | ["pq"] => some ("pq=0", stepU cfg .popPending L)
  | ["ps"] => let (b, L') := step cfg .pendingStat L; some (s!"ps={if b then 1 else 0}", L')
  | ["sp", v] => some ("sp=0", stepU cfg (.setPending (v == "1")) L)
  | ["sl", a, b] => do
      let a ← nat a
      let e : Option Nat := if b == "-1" then none else b.toNat?
      if b != "-1" && e.isNone then none
      let ((x, y), L') := L.addStringLiteralFromSrc cfg a e
      pure (s!"sl={x}.{y}", L')
  | ["as", h] => do
      let cs ← if h == "-" || h == "" then some [] else charsOfHex h
      let ((x, y), L') := L.addStringLiteral cs
      pure (s!"as={x}.{y}", L')
  | ["ns"] => some (s!"ns={L.litsLen}", L)
  | ["lt"] => some (s!"lt={match L.toksR.head? with | some t => (t.ty.toNat : Int) | none => -1}", L)
  | ["ld"] => some (s!"ld={match Lexer.lastDefault? L.toksR with | some t => (t.ty.toNat : Int) | none => -1}", L)
  | ["pt"] =>
      let (t, L') := step cfg .pendingText L
      some ("pt=" ++ (if t.isEmpty then "-" else hexOfBytes (utf8Bytes t)), L')
  | ["fz"] => some ("fz=0", (Prog.run cfg (finalizeLexing cfg) L).2)
  | ["lx"] =>
      match L.cur.peek with
      | some c => some ("lx=1", (Prog.run cfg (lexToken cfg c) L).2)
      | none => some ("lx=0", L)
  | _ => none

/-- one script op: installs the interpreter-local mark / prepared error into the registers,
runs the op, and reads them back -/
def scriptOp (cfg : Cfg) (L : Lexer) (loc : ScriptLocals) (op : String) : Option (String × Lexer × ScriptLocals) :=
  let tag := (op.splitOn ",").headD ""
  if tag == "mk" || tag == "ek" || tag == "pe" || tag == "ep" then
    match scriptOp0 cfg { L with mark := loc.mark, errReg := loc.err } op with
    | none => none
    | some (ob, L') => some (ob, L', { mark := L'.mark, err := L'.errReg })
  else
    match scriptOp0 cfg L op with
    | none => none
    | some (ob, L') => some (ob, L', loc)

def runScript (cfg : Cfg) (src : List Char) (ops : List String) : String :=
  if utf8Len src ≥ two32 then "toolarge" else
  let rec go (L : Lexer) (loc : ScriptLocals) (ops : List String) (obs : List String) : Option (Lexer × List String) :=
    match ops with
    | [] => some (L, obs.reverse)
    | o :: rest =>
      match scriptOp cfg L loc o with
      | none => none
      | some (ob, L', loc') =>
        match L'.panicked with
        | some _ => some (L', obs.reverse)     -- the panicking op leaves no observation
        | none => go L' loc' rest (ob :: obs)
  match go (Lexer.new cfg src) {} ops [] with
  | none => "badinput"
  | some (L, obs) =>
    let tail0 := "T 0 | L 0 | S - | E 0 | M 0 | C 0 | P - | K 0 0 0"
    match L.panicked with
    | some m => s!"panic {m} ; {" ".intercalate obs} ; {tail0}"
    | none =>
      let (b, L2) := L.intoDetached cfg
      match L2.panicked with
      | some m => s!"panic {m} ; {" ".intercalate obs} ; {tail0}"
      | none =>
        let d : Dump := { outcome := .ok, toks := b.toks, lines := b.lines, lits := b.lits, errs := L2.errsR.reverse,
                          resolved := some [], access := some [], snap := none, iters := 0 }
        let secs := d.format.splitOn " | "
        let tlse := " | ".intercalate ((secs.drop 1).take 4)
        let modes := L2.modesR.reverse.map Mode.encode
        let m := if modes.isEmpty then "M 0" else s!"M {modes.length} " ++ " ".intercalate modes
        let p := if L2.pendingR.isEmpty then "-" else String.ofList (L2.pendingR.reverse.map fun x => if x then '1' else '0')
        s!"ok ; {" ".intercalate obs} ; {tlse} | {m} | C {if L2.cp.isSome then 1 else 0} | P {p} | K {L2.tok.byte} {L2.tok.start} {L2.tok.line}"

def scriptLine (cfg : Cfg) (line : String) : String :=
  match line.splitOn " " with
  | src :: ops =>
    let s := if src == "" || src == "-" then some [] else charsOfHex src
    match s with
    | some cs => runScript cfg cs (ops.filter (· != ""))
    | none => "badinput"
  | [] => "badinput"


/-- mirror of `harness buffer-script`: `<hex src> L n (byte char){n} T m (chan type byte char line0 ptag pa pb){m} S <hex|->` -/
def bufScriptLine (cfg : Cfg) (line : String) : String :=
  match line.splitOn " " with
  | src :: rest =>
    let s := if src == "" || src == "-" then some [] else charsOfHex src
    match s, rest with
    | some cs, "L" :: n :: more =>
      match n.toNat? with
      | none => "badinput"
      | some n =>
        let lws := more.take (2 * n)
        match more.drop (2 * n) with
        | "T" :: m :: more2 =>
          match m.toNat? with
          | none => "badinput"
          | some m =>
            let tws := more2.take (8 * m)
            match more2.drop (8 * m), parseInts lws, parseInts tws with
            | ["S", h], some li, some ti =>
              let lits := if h == "-" then some [] else charsOfHex h
              let lines := (chunks 2 li).filterMap fun | [b, c] => some (⟨b.toNat, c.toNat⟩ : LineInfo) | _ => none
              let toks := (chunks 8 ti).mapM fun
                | [ch, ty, b, c, ln, p, pa, pb] => do
                  pure ({ chan := ← Channel.ofNat? ch.toNat, ty := ← TokenType.ofNat? ty.toNat, byte := b.toNat,
                          start := c.toNat, line := ln.toNat, payload := ← payloadOfInts [p, pa, pb] } : TokInfo)
                | _ => none
              match lits, toks with
              | some lits, some toks =>
                if li.length != 2 * n || ti.length != 8 * m then "badinput" else
                let d := dumpOfBuf cfg cs ⟨lines, toks, lits⟩ [] .ok none 0
                s!"ok | {rowsFormat "R" d.resolved} | {rowsFormat "A" d.access}"
              | _, _ => "badinput"
            | _, _, _ => "badinput"
        | _ => "badinput"
    | _, _ => "badinput"
  | [] => "badinput"

end SasLexer
