import SasLexer.Spec.C06
import SasLexer.Lex.Main
import SasLexer.Proofs.Model.ChanFns
import SasLexer.Proofs.Model.ChanSound
/-!
# C06 — a token's text has the lexical shape its type and channel promise: theorems

Full-strength statement: `C06_statement`.  Proved (table theorems): `C06_table_total` — the shape
table has a row for every token type (a new variant of the regenerated `TokenType` without a row
breaks this proof); `C06_keyword_rows` — every keyword-typed row is backed by at least one
keyword of the regenerated keyword maps.  The emit-site obligations (≈ 90 `emit_token` sites:
"the text between the token start and the cursor has the shape of the emitted type") are
model-level and not proved; they are decided per run by `Spec.C06` on every token of every
implementation dump and tied by correspondence on (type, channel, payload, offsets).

Proved for the model, **every input, both profiles, every way the run can end** (`C06_model_channels`): the channel
sentence of C06 in its context-free reading (`Spec/ChanTable.lean`: comment types ⇔ comment channel; `WS`,
`CatchAll`, `%str/%nrstr` always hidden; besides them only `COLON` and the parentheses may be hidden; everything
else on the default channel).  `Proofs/Model/Chan.lean` defines a state-free discipline `ChanR` (every emitted /
retyped / inserted token obeys the table, every pushed `ExpectSymbol(ty, ch)` has `chanOK ch ty`, mode-stack reads
return modes with that property); `ChanFns.lean` proves it for all ≈ 110 functions of the control logic — the
computed types come with their own lemmas (keyword tables by `decide +kernel`, numeric parsers, mnemonics, literal
endings) —; `ChanSound.lean` proves it sound against the primitives (`step_ChInv`, `ChanR_sound`).
The same pass carries a second table, `payKindOK` (which kind of payload a type carries): `model_payload_kinds`,
and a third fact: a `MacroSep` is emitted only under `cfg.macroSep` (`model_no_sep_without_feature`, used by C18).
-/
namespace SasLexer

def C06_statement : Prop := ∀ (cfg : Cfg) (s : List Char), Spec.C06 s (modelDump cfg s) = []

theorem C06_table_total (ty : TokenType) : (Spec.C06.familyOf ty).isSome = true := by
  cases ty <;> decide

theorem C06_keyword_rows :
    (TokenType.all.all fun ty =>
      !(Spec.C06.familyOf ty == some .keyword) || Spec.C06.isKwType ty) = true ∧
    (TokenType.all.all fun ty =>
      !(Spec.C06.familyOf ty == some .kwm) || Spec.C06.isKwmType ty) = true := by
  decide +kernel

example : Spec.C06 "x='a''b'd; %let q=%str(a%'b); y=&&v&i..z 0ffx $f5.2 /*c*/ *s;".toList
    (modelDump ⟨true, true, false⟩ "x='a''b'd; %let q=%str(a%'b); y=&&v&i..z 0ffx $f5.2 /*c*/ *s;".toList) = [] := by
  decide +kernel

theorem new_ChInv (cfg : Cfg) (s : List Char) : ChInv cfg.macroSep (Lexer.new cfg s) := by
  refine ⟨?_, ?_, ?_⟩
  · intro t ht; simp [Lexer.new, Lexer.bufAddLine] at ht
  · intro m hm
    simp [Lexer.new, Lexer.bufAddLine] at hm
    subst hm; trivial
  · exact Or.inl (by simp [Lexer.new, Lexer.bufAddLine])

theorem intoDetached_ChInv (cfg : Cfg) (L : Lexer) (h : ChInv cfg.macroSep L) :
    ∀ t ∈ (L.intoDetached cfg).1.toks, tokInfoOK cfg.macroSep t = true := by
  unfold Lexer.intoDetached
  have e : (if L.linesR.isEmpty = true then (L.bufAddLine cfg 0 0).2 else L).toksR = L.toksR := by split <;> rfl
  generalize (if L.linesR.isEmpty = true then (L.bufAddLine cfg 0 0).2 else L) = L1 at e
  simp only
  intro t ht
  simp only [List.mem_reverse] at ht
  cases hl : L1.toksR with
  | nil =>
    simp only [hl, List.mem_cons, List.not_mem_nil, or_false] at ht
    subst ht; rfl
  | cons a b =>
    simp only [hl] at ht
    split at ht
    · exact h.toks t (by rw [← e]; first | exact ht | (rw [hl]; exact ht))
    · simp only [List.mem_cons] at ht
      rcases ht with rfl | ht
      · rfl
      · exact h.toks t (by rw [← e]; first | exact ht | (rw [hl]; simpa using ht))

/-- **C06, channel table, for the model: every input, both profiles, every ending.** -/
theorem model_channels (cfg : Cfg) (s : List Char) : ∀ t ∈ (lexProgram cfg s).buf.toks, tokInfoOK cfg.macroSep t = true := by
  unfold lexProgram
  simp only
  have h0 := new_ChInv cfg s
  have h1 := (ChanR_sound cfg (mainLoop cfg (budgetMul * (Lexer.new cfg s).srcLen + 64) 0 ((Lexer.new cfg s).srcLen, [Mode.default]))
    (fun _ => True) (Lexer.new cfg s) (mainLoop_chan cfg _ _ _ (fun _ => trivial)) h0).1
  generalize hR : Prog.run cfg (mainLoop cfg (budgetMul * (Lexer.new cfg s).srcLen + 64) 0 ((Lexer.new cfg s).srcLen, [Mode.default]))
    (Lexer.new cfg s) = R at h1
  obtain ⟨ra, L1⟩ := R
  cases ra with
  | none => intro t ht; simp at ht
  | some en =>
    obtain ⟨e, n⟩ := en
    simp only at h1 ⊢
    have h2 := (ChanR_sound cfg (finalizeLexing cfg) (fun _ => True) L1 (finalizeLexing_chan cfg (fun _ => trivial)) h1).1
    by_cases hdet : e = .detected
    · subst hdet
      simp only [beq_self_eq_true, if_true]
      cases L1.panicked with
      | some m => intro t ht; simp at ht
      | none => exact intoDetached_ChInv cfg L1 h1
    · have hb : (e == LoopEnd.detected) = false := by simpa using hdet
      simp only [hb, Bool.false_eq_true, if_false]
      cases (Prog.run cfg (finalizeLexing cfg) L1).2.panicked with
      | some m => intro t ht; simp at ht
      | none => exact intoDetached_ChInv cfg _ h2

theorem C06_model_tables (cfg : Cfg) (s : List Char) :
    ((modelDump cfg s).toks.all (tokInfoOK cfg.macroSep)) = true := by
  rw [List.all_eq_true]
  unfold modelDump
  split
  · intro t ht; simp [emptyDump] at ht
  · simp only
    split
    · split <;> (intro t ht; simp [emptyDump] at ht)
    · simp only [dumpOfBuf]
      exact model_channels cfg s



theorem C06_model_channels (cfg : Cfg) (s : List Char) :
    ((modelDump cfg s).toks.all fun t => chanOK t.chan t.ty) = true := by
  have h := C06_model_tables cfg s
  rw [List.all_eq_true] at h ⊢
  intro t ht
  have := h t ht
  simp only [tokInfoOK, Bool.and_eq_true] at this
  exact this.1.1

/-- **payload-kind table for the model, every input** (C07 `only-string-types-carry-str-payload`, C08 "numeric tokens carry
their number", C06 "macro-variable resolve tokens carry their level") -/
theorem model_payload_kinds (cfg : Cfg) (s : List Char) :
    ((modelDump cfg s).toks.all fun t => payKindOK t.ty t.payload) = true := by
  have h := C06_model_tables cfg s
  rw [List.all_eq_true] at h ⊢
  intro t ht
  have := h t ht
  simp only [tokInfoOK, Bool.and_eq_true] at this
  exact this.1.2

/-- **no `MacroSep` without the `macro_sep` feature** (C18: the feature *only adds* separator tokens — a build without it
has none), model, every input -/
theorem model_no_sep_without_feature (cfg : Cfg) (s : List Char) (hf : cfg.macroSep = false) :
    ∀ t ∈ (modelDump cfg s).toks, t.ty ≠ .MacroSep := by
  have h := C06_model_tables cfg s
  rw [List.all_eq_true] at h
  intro t ht
  have := h t ht
  simp only [tokInfoOK, Bool.and_eq_true, hf, Bool.or_false] at this
  simpa using this.2


end SasLexer
