import SasLexer.Spec.C06
import SasLexer.Lex.Main
/-!
# C06 — a token's text has the lexical shape its type and channel promise: theorems

Full-strength statement: `C06_statement`.  Proved (table theorems): `C06_table_total` — the shape
table has a row for every token type (a new variant of the regenerated `TokenType` without a row
breaks this proof); `C06_keyword_rows` — every keyword-typed row is backed by at least one
keyword of the regenerated keyword maps.  The emit-site obligations (≈ 90 `emit_token` sites:
"the text between the token start and the cursor has the shape of the emitted type") are
model-level and not proved; they are decided per run by `Spec.C06` on every token of every
implementation dump and tied by correspondence on (type, channel, payload, offsets).
-/
namespace SasLexer

def C06_statement : Prop := ∀ (cfg : Cfg) (s : List Char), Spec.C06 s (modelDump cfg s) = []

theorem C06_table_total (ty : TokenType) : (Spec.C06.familyOf ty).isSome = true := by
  cases ty <;> decide

theorem C06_keyword_rows :
    (TokenType.all.all fun ty =>
      !(Spec.C06.familyOf ty == some .keyword) || Spec.C06.isKwType ty) = true ∧
    (TokenType.all.all fun ty =>
      !(Spec.C06.familyOf ty == some .kwm) || Spec.C06.isKwmType ty) = true := by
  decide +kernel

example : Spec.C06 "x='a''b'd; %let q=%str(a%'b); y=&&v&i..z 0ffx $f5.2 /*c*/ *s;".toList
    (modelDump ⟨true, true, false⟩ "x='a''b'd; %let q=%str(a%'b); y=&&v&i..z 0ffx $f5.2 /*c*/ *s;".toList) = [] := by
  decide +kernel

end SasLexer
