import SasLexer.Spec.C01
import SasLexer.Properties.C03
import SasLexer.Proofs.Tables
import SasLexer.Proofs.Kernel.Profile
/-!
# C01 — totality: theorems

Full-strength statement: `C01_statement` (for every source below 4 GiB and both profiles the
modelled lexer returns `ok`, within the linear bounds, with no internal error).

Proved:
* the model is a total function — every inner loop of the control logic is structural recursion
  on explicit fuel and `Prog.run` is structural recursion on the program, so `modelDump` is
  defined for every input (accepted by Lean's termination checker without `partial`);
  *running out of fuel* is an observable outcome (`panic fuel:<fn>` / `budget`), so "never
  hangs" is the statement that these outcomes do not occur;
* `kernel_C01_offsets_in_range` (every program): every stored offset is a position pair, hence
  ≤ the source length < 2^32 — no `u32` in the implementation can wrap (this is what makes the
  `Nat` model of offsets faithful);
* `kernel_C01_release_panics` (every program): in a release build a primitive can only panic for
  one of two unconditional reasons (`unreachable!`-style aborts, `Vec::insert` out of range);
* `evalFlags_roundtrip`, `argFlags_roundtrip`: mode flags are decoded as encoded.

Not proved: that the main loop's lexicographic measure decreases (DESIGN.md §6 C01) and that no
defensive branch recording a 9xxx error is reachable.  Decided per run: `Spec.C01` on the
implementation's outcome/iteration count in both profiles (a hang is the in-process `budget`
outcome, a panic is caught), on all truncation streams; model/implementation correspondence
includes the outcome class.
-/
namespace SasLexer

def C01_statement : Prop :=
  ∀ (cfg : Cfg) (s : List Char), utf8Len s < two32 → Spec.C01 s (modelDump cfg s) = []

theorem posPair_le {s : List Char} {b c : Nat} (h : PosPair s b c) : b ≤ utf8Len s ∧ c ≤ s.length := by
  obtain ⟨pre, suf, rfl, rfl, rfl⟩ := h
  constructor
  · rw [utf8Len_append]; omega
  · simp

theorem kernel_C01_offsets_in_range (cfg : Cfg) {α} (p : Prog α) (s : List Char) :
    let L := (Prog.run cfg p (Lexer.new cfg s)).2
    (∀ t ∈ L.toksR, t.byte ≤ utf8Len s ∧ t.start ≤ s.length) ∧
    (∀ e ∈ L.errsR, e.byte ≤ utf8Len s ∧ e.char ≤ s.length) ∧
    (∀ l ∈ L.linesR, l.byte ≤ utf8Len s ∧ l.start ≤ s.length) := by
  have h := run_KPos cfg p _ (new_KPos cfg s)
  have hs : (Prog.run cfg p (Lexer.new cfg s)).2.src = s := by rw [run_src, new_src]
  refine ⟨fun t ht => posPair_le (hs ▸ h.toks t ht), fun e he => posPair_le (hs ▸ h.errs e he),
    fun l hl => posPair_le (hs ▸ h.lines l hl)⟩

theorem kernel_C01_release_panics {c : Cfg} (hd : c.debug = false) (o : Op) (L : Lexer) (hL : L.panicked = none) :
    (step c o L).2.panicked = none ∨ hardPanic o L = true :=
  step_release_panicked hd o L hL

/-- the inputs that panicked / never returned on the pinned tree now return within the bounds -/
example : Spec.C01 "%do %m=%n;".toList (modelDump ⟨true, false, false⟩ "%do %m=%n;".toList) = [] ∧
    Spec.C01 "%do %m=%n;".toList (modelDump ⟨false, false, false⟩ "%do %m=%n;".toList) = [] ∧
    Spec.C01 "%goto%".toList (modelDump ⟨true, false, false⟩ "%goto%".toList) = [] ∧
    Spec.C01 "d%do%local)and".toList (modelDump ⟨true, false, false⟩ "d%do%local)and".toList) = [] := by
  decide +kernel

/-- F10 (repaired by `fix:` c30296e): a macro comment inside an argument name used to leave the
name-phase checkpoint live so that the debug build's assertion fired; regression witness -/
example : Spec.C01 "%m(a%*c;b=1)".toList (modelDump ⟨true, false, false⟩ "%m(a%*c;b=1)".toList) = [] ∧
    Spec.C01 "%m(a%*c;b=1)".toList (modelDump ⟨false, false, false⟩ "%m(a%*c;b=1)".toList) = [] := by
  decide +kernel

end SasLexer
