import SasLexer.Spec.Basic
import SasLexer.Properties.C03
import SasLexer.Proofs.Kernel.Mono
import SasLexer.Properties.C19
import SasLexer.Proofs.Model.DiscTop
/-!
# C02 — tokens tile the source and end in a single EOF: theorems

Full-strength statement: `C02_statement` (every clause of `Spec.C02` for every source and
configuration).  Proved here, for **every control logic over the primitives** (kernel):

* `kernel_C02_boundaries` — every token start is a character boundary within the source;
* `kernel_C02_last_eof` — the detached buffer always ends in an `EOF` token;
* `kernel_C02_monotone_debug` — in a debug build, unless an assertion fired, start offsets
  never decrease; `kernel_C02_monotone_release` — the release build of the same control logic
  then has sorted starts too (transported through `run_profile`, the kernel theorem of C19).

Proved for the **modelled control logic, every input, both profiles** (`C02_model_single_eof`, from the
scanning-discipline pass `Proofs/Model/Disc*.lean`): whenever the model returns at end of input, its token
list is `pre ++ [eof]` with `eof` of type `EOF` at byte `utf8Len s` / char `s.length` and no `EOF` in `pre`,
i.e. the clause `single-final-eof` of `Spec.C02` holds.

Not proved (model level, `_partial`): "first token at the BOM end" and totality (C01: the model returns,
i.e. no panic / fuel exhaustion); they are decided per run by `Spec.C02` on implementation dumps plus
model/implementation correspondence.
-/
namespace SasLexer

def C02_statement : Prop := ∀ (cfg : Cfg) (s : List Char), Spec.C02 s (modelDump cfg s) = []

/-- every token start of the detached buffer lies on a char boundary of the source -/
theorem kernel_C02_boundaries (cfg : Cfg) {α β} (p : Prog α) (q : Prog β) (s : List Char) :
    ∀ t ∈ (runThenDetach cfg p q s).1.toks, (charIdxOfByte s t.byte).isSome := by
  intro t ht
  rw [(kernel_C03 cfg p q s).1 t ht]; rfl

/-- the detached buffer always ends in `EOF` (whatever the control logic did) -/
theorem kernel_C02_last_eof (cfg : Cfg) (L : Lexer) :
    ∃ t, (L.intoDetached cfg).1.toks.getLast? = some t ∧ t.ty = .EOF := by
  unfold Lexer.intoDetached
  dsimp only
  generalize (if L.linesR.isEmpty = true then (L.bufAddLine cfg 0 0).2 else L) = L1
  split
  · rename_i t ts hts
    split
    · rename_i heof
      refine ⟨t, ?_, heof⟩
      simp [hts, List.getLast?_reverse]
    · exact ⟨⟨.DEFAULT, .EOF, L1.srcLen, L1.src.length, L1.linesR.length - 1, .none⟩,
        by simp [List.getLast?_reverse], rfl⟩
  · exact ⟨⟨.DEFAULT, .EOF, L1.srcLen, L1.src.length, L1.linesR.length - 1, .none⟩, by simp, rfl⟩

/-- debug build, no assertion fired ⇒ the token list of any run is sorted by start offset -/
theorem kernel_C02_monotone_debug (cfg : Cfg) (hd : cfg.debug = true) {α} (p : Prog α) (s : List Char) :
    (Prog.run cfg p (Lexer.new cfg s)).2.panicked = none →
    SortedR (Prog.run cfg p (Lexer.new cfg s)).2.toksR :=
  (run_KMono cfg hd p _ (new_KMono cfg s)).sorted

/-- release build: if the debug build of the same program (same features) runs without firing an
assertion, the release build's token list is sorted too (`run_KMono` transported by `run_profile`) -/
theorem kernel_C02_monotone_release (c : Cfg) (hrel : c.debug = false) {α} (p : Prog α) (s : List Char) :
    (Prog.run { c with debug := true } p (Lexer.new { c with debug := true } s)).2.panicked = none →
    SortedR (Prog.run c p (Lexer.new c s)).2.toksR := by
  intro h
  have hs := kernel_C02_monotone_debug { c with debug := true } rfl p s h
  have he := (kernel_C19_debug_release { c with debug := true } c rfl hrel p s h).2.1
  have : (Prog.run { c with debug := true } p (Lexer.new { c with debug := true } s)).2.toksR
      = (Prog.run c p (Lexer.new c s)).2.toksR := congrArg (fun L => L.toksR) he
  rw [← this]; exact hs

/-- non-vacuity: a run with rollback and zero-width recovery tokens on which all clauses hold -/
example : Spec.C02 "%m(a =1 /*c*/ ; x".toList (modelDump ⟨true, true, false⟩ "%m(a =1 /*c*/ ; x".toList) = [] := by
  decide +kernel

/-- **single final `EOF`** for the modelled lexer, every input, both profiles, both feature sets -/
theorem C02_model_single_eof (cfg : Cfg) (s : List Char) (h : (lexProgram cfg s).ending = some .eof) :
    ((lexProgram cfg s).buf.toks.filter (·.ty == .EOF)).length = 1 ∧
    ∃ t, (lexProgram cfg s).buf.toks.getLast? = some t ∧ t.ty = .EOF ∧ t.byte = utf8Len s := by
  obtain ⟨pre, e, htoks, hty, _, hbyte, hpre⟩ := model_single_eof cfg s h
  rw [htoks]
  refine ⟨?_, e, by simp, hty, hbyte⟩
  rw [List.filter_append]
  have : pre.filter (·.ty == .EOF) = [] := by
    rw [List.filter_eq_nil_iff]
    intro t ht
    simpa using hpre t ht
  simp [this, hty]

end SasLexer
