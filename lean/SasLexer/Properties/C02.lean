import SasLexer.Spec.Basic
import SasLexer.Properties.C03
import SasLexer.Proofs.Kernel.Mono
import SasLexer.Properties.C19
import SasLexer.Proofs.Model.DiscTop
import SasLexer.Proofs.Model.CoverTop
import SasLexer.Properties.C04
/-!
# C02 — tokens tile the source and end in a single EOF: theorems

Full-strength statement: `C02_statement` (every clause of `Spec.C02` for every source and
configuration).  Proved here, for **every control logic over the primitives** (kernel):

* `kernel_C02_boundaries` — every token start is a character boundary within the source;
* `kernel_C02_last_eof` — the detached buffer always ends in an `EOF` token;
* `kernel_C02_monotone_debug` — in a debug build, unless an assertion fired, start offsets
  never decrease; `kernel_C02_monotone_release` — the release build of the same control logic
  then has sorted starts too (transported through `run_profile`, the kernel theorem of C19).

Proved for the **modelled control logic, every input, both profiles** (`C02_model_single_eof`, from the
scanning-discipline pass `Proofs/Model/Disc*.lean`): whenever the model returns at end of input, its token
list is `pre ++ [eof]` with `eof` of type `EOF` at byte `utf8Len s` / char `s.length` and no `EOF` in `pre`,
i.e. the clause `single-final-eof` of `Spec.C02` holds.

Proved likewise (`model_first_at_bom`, from the second discipline `cwp` of `Proofs/Model/Cover*.lean`: the open-code
dispatcher, entered on the initial state, always leaves a token that starts where it was entered; afterwards the
oldest token never moves — `run_KOld`, for every program): the first token starts at the end of the BOM.
`C02_model` collects every clause of `Spec.C02` except the one about payload slices — both profiles: that token starts
never decrease is a theorem of the control logic (`model_bytes_sorted`, `Proofs/Model/Sorted*.lean`), not only a debug assertion.

Not proved: totality (C01: the model returns, i.e. no panic / fuel exhaustion / budget) — a hypothesis of the
model theorems; for the implementation everything is decided per run by `Spec.C02` on implementation dumps plus
model/implementation correspondence.
-/
namespace SasLexer

def C02_statement : Prop := ∀ (cfg : Cfg) (s : List Char), Spec.C02 s (modelDump cfg s) = []

/-- every token start of the detached buffer lies on a char boundary of the source -/
theorem kernel_C02_boundaries (cfg : Cfg) {α β} (p : Prog α) (q : Prog β) (s : List Char) :
    ∀ t ∈ (runThenDetach cfg p q s).1.toks, (charIdxOfByte s t.byte).isSome := by
  intro t ht
  rw [(kernel_C03 cfg p q s).1 t ht]; rfl

/-- the detached buffer always ends in `EOF` (whatever the control logic did) -/
theorem kernel_C02_last_eof (cfg : Cfg) (L : Lexer) :
    ∃ t, (L.intoDetached cfg).1.toks.getLast? = some t ∧ t.ty = .EOF := by
  unfold Lexer.intoDetached
  dsimp only
  generalize (if L.linesR.isEmpty = true then (L.bufAddLine cfg 0 0).2 else L) = L1
  split
  · rename_i t ts hts
    split
    · rename_i heof
      refine ⟨t, ?_, heof⟩
      simp [hts, List.getLast?_reverse]
    · exact ⟨⟨.DEFAULT, .EOF, L1.srcLen, L1.src.length, L1.linesR.length - 1, .none⟩,
        by simp [List.getLast?_reverse], rfl⟩
  · exact ⟨⟨.DEFAULT, .EOF, L1.srcLen, L1.src.length, L1.linesR.length - 1, .none⟩, by simp, rfl⟩

/-- debug build, no assertion fired ⇒ the token list of any run is sorted by start offset -/
theorem kernel_C02_monotone_debug (cfg : Cfg) (hd : cfg.debug = true) {α} (p : Prog α) (s : List Char) :
    (Prog.run cfg p (Lexer.new cfg s)).2.panicked = none →
    SortedR (Prog.run cfg p (Lexer.new cfg s)).2.toksR :=
  (run_KMono cfg hd p _ (new_KMono cfg s)).sorted

/-- release build: if the debug build of the same program (same features) runs without firing an
assertion, the release build's token list is sorted too (`run_KMono` transported by `run_profile`) -/
theorem kernel_C02_monotone_release (c : Cfg) (hrel : c.debug = false) {α} (p : Prog α) (s : List Char) :
    (Prog.run { c with debug := true } p (Lexer.new { c with debug := true } s)).2.panicked = none →
    SortedR (Prog.run c p (Lexer.new c s)).2.toksR := by
  intro h
  have hs := kernel_C02_monotone_debug { c with debug := true } rfl p s h
  have he := (kernel_C19_debug_release { c with debug := true } c rfl hrel p s h).2.1
  have : (Prog.run { c with debug := true } p (Lexer.new { c with debug := true } s)).2.toksR
      = (Prog.run c p (Lexer.new c s)).2.toksR := congrArg (fun L => L.toksR) he
  rw [← this]; exact hs

/-- non-vacuity: a run with rollback and zero-width recovery tokens on which all clauses hold -/
example : Spec.C02 "%m(a =1 /*c*/ ; x".toList (modelDump ⟨true, true, false⟩ "%m(a =1 /*c*/ ; x".toList) = [] := by
  decide +kernel

/-- **single final `EOF`** for the modelled lexer, every input, both profiles, both feature sets -/
theorem C02_model_single_eof (cfg : Cfg) (s : List Char) (h : (lexProgram cfg s).ending = some .eof) :
    ((lexProgram cfg s).buf.toks.filter (·.ty == .EOF)).length = 1 ∧
    ∃ t, (lexProgram cfg s).buf.toks.getLast? = some t ∧ t.ty = .EOF ∧ t.byte = utf8Len s := by
  obtain ⟨pre, e, htoks, hty, _, hbyte, hpre⟩ := model_single_eof cfg s h
  rw [htoks]
  refine ⟨?_, e, by simp, hty, hbyte⟩
  rw [List.filter_append]
  have : pre.filter (·.ty == .EOF) = [] := by
    rw [List.filter_eq_nil_iff]
    intro t ht
    simpa using hpre t ht
  simp [this, hty]

theorem length_le_utf8Len_c02 (s : List Char) : s.length ≤ utf8Len s := by
  induction s with
  | nil => simp [utf8Len]
  | cons c t ih =>
    simp only [List.length_cons, utf8Len]
    have : 1 ≤ c.utf8Size := Char.utf8Size_pos c
    omega

theorem byte_of_bomChars {s : List Char} {b c : Nat} (h : PosPair s b c) (hc : c = bomChars s) : b = bomLen s := by
  obtain ⟨pre, suf, hs, hb, hcl⟩ := h
  subst hb
  unfold bomChars at hc; unfold bomLen
  cases s with
  | nil =>
    have : pre = [] := by
      cases pre with
      | nil => rfl
      | cons a b => simp at hs
    subst this; simp [utf8Len]
  | cons d t =>
    by_cases hd : d = BOM
    · subst hd
      simp only [if_true] at hc ⊢
      cases pre with
      | nil => simp at hcl; omega
      | cons p ps =>
        simp only [List.cons_append, List.cons.injEq] at hs
        have : ps = [] := by
          cases ps with
          | nil => rfl
          | cons a b => simp at hcl; omega
        subst this
        rw [← hs.1]; decide
    · simp only [hd, if_false] at hc ⊢
      have : pre = [] := by
        cases pre with
        | nil => rfl
        | cons a b => simp at hcl; omega
      subst this; simp [utf8Len]

/-- **C02 for the modelled lexer, every input** (debug profile; all clauses of `Spec.C02` except the one about
payload slices): the token list is non-empty, its first token starts at the end of the BOM, start offsets
never decrease and are character boundaries, there is exactly one `EOF`, it is last and sits at the end of the
text — hence the raw texts of the tokens tile the source. -/
theorem C02_model (cfg : Cfg) (s : List Char) (hlen : utf8Len s < 4294967296)
    (hend : (lexProgram cfg s).ending = some .eof) :
    (lexProgram cfg s).buf.toks ≠ [] ∧
    ((lexProgram cfg s).buf.toks.map (·.byte)).head? = some (bomLen s) ∧
    (∀ i x y, (lexProgram cfg s).buf.toks[i]? = some x → (lexProgram cfg s).buf.toks[i + 1]? = some y → x.byte ≤ y.byte) ∧
    (∀ t ∈ (lexProgram cfg s).buf.toks, (charIdxOfByte s t.byte).isSome) ∧
    (((lexProgram cfg s).buf.toks.filter (·.ty == .EOF)).length = 1 ∧
      ∃ t, (lexProgram cfg s).buf.toks.getLast? = some t ∧ t.ty = .EOF ∧ t.byte = utf8Len s) := by
  have hl : s.length < 4294967296 := Nat.lt_of_le_of_lt (length_le_utf8Len_c02 s) hlen
  obtain ⟨t0, ht0, hst0⟩ := model_first_at_bom cfg s hl hend
  obtain ⟨_, htoks, _⟩ := model_lines_exact cfg s hend
  have hmono := model_tokMono cfg s hend
  refine ⟨?_, ?_, ?_, ?_, C02_model_single_eof cfg s hend⟩
  · intro e; rw [e] at ht0; simp at ht0
  · rw [List.head?_map, ht0]
    simp only [Option.map_some, Option.some.injEq]
    exact byte_of_bomChars (htoks t0 (List.mem_of_mem_head? ht0)).1 hst0
  · intro i x y hx hy
    have := hmono i x y hx hy
    have px := (htoks x (List.mem_of_getElem? hx)).1
    have py := (htoks y (List.mem_of_getElem? hy)).1
    have := posPair_lt_iff py px
    by_cases hlt : y.byte < x.byte
    · have := this.1.1 hlt; omega
    · omega
  · intro t ht
    exact charIdxOfByte_of_posPair (htoks t ht).1 ▸ rfl


end SasLexer
