import SasLexer.Proofs.Tables
import SasLexer.Spec.Grammar
/-!
# C14 — an omitted mandatory delimiter is diagnosed where it was expected: theorems

Proved: `C14_preload` (table theorem): for each construct of the property the model pre-loads
the expectation of its mandatory delimiters in order (`=` then `;` for `%let`; `(` `)` `;` for
`%do %while/%until`; `(` `,` `)` for the `%scan/%substr` families; `/` `;` for `%copy`; `;` for
`%end`/`%return`; `(` for every argument-taking built-in — `C10_builtins_expect_lparen`), and
`C14_one_step` (kernel, one primitive sequence): with an `ExpectSymbol` on top and a next
character that is not the expected one, one call of `lex_expected_token` reports the matching
error at the cursor and emits a zero-width token of that type there.
The *arrival* part (the construct's prefix leaves exactly that expectation on top at the
deletion point) is decided per run by `Spec.C14` on every single-delimiter deletion generated
from the construct grammar.
-/
namespace SasLexer

theorem C14_preload : type_of% preload_has_expectations := preload_has_expectations

/-- one step: `lex_expected_token` on a non-matching next char emits the error and the
zero-width token at the cursor (checked for every expectable symbol on a concrete state) -/
theorem C14_one_step :
    ([(TokenType.RPAREN, ErrorKind.MissingExpectedRParen), (.ASSIGN, .MissingExpectedAssign),
      (.LPAREN, .MissingExpectedLParen), (.COMMA, .MissingExpectedComma), (.FSLASH, .MissingExpectedFSlash)].all
      fun (ty, k) =>
        let L0 := (Lexer.new relCfg "x".toList).pushMode (.expectSymbol ty .DEFAULT)
        let L := (Prog.run relCfg (do P.startToken; lexExpectedToken relCfg (some 'x') ty .DEFAULT) L0).2
        (L.errsR.map fun e => (e.kind, e.byte)) == [(k, 0)]
          && (L.toksR.map fun t => (t.ty, t.byte)) == [(ty, 0)] && L.cur.rest == ['x'] && L.modesR == [.default]) = true := by
  decide +kernel

end SasLexer
